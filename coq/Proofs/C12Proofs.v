(* C12  Batch bookkeeping is exact (the state part; the callbacks are in TraceBatch.v).
   C12_counts from I_cnt (InvCount.v) and inv_req; C12_completion_* from the exact
   record written by h_respond and the specifications of expire_one / new_one. *)
From Coq Require Import List ZArith Bool Lia Permutation.
From SVC Require Import Base.AMap Base.Res Base.Dec Model.Types Model.Pricing
  Model.Handlers Model.EndBlock Model.Step Proofs.Inv Proofs.Lemmas Proofs.ReqLemmas
  Proofs.CtxOps Proofs.InvSched Proofs.InvCtx Proofs.InvEscrow Proofs.InvReq Proofs.InvAll
  Proofs.StepSpecs_ctx Proofs.TraceBase Proofs.C16Proofs Proofs.InvCount
  Proofs.ReachRun Proofs.BatchEx.
Import ListNotations.
Open Scope Z_scope.

(* ------------------------------------------------------------------ *)
(* lengths as sums *)

Lemma len_isort {A} (leb : A -> A -> bool) l : len (isort leb l) = len l.
Proof. unfold len. now rewrite (Permutation_length (isort_perm leb l)). Qed.

Lemma len_filter_keys {V} (p : ReqId -> bool) (m : amap ReqId V) :
  len (filter p (keys m)) = msum (fun k _ => if p k then 1 else 0) m.
Proof.
  unfold keys. induction m as [|[k v] t IH]; cbn [map fst filter msum]; [reflexivity|].
  destruct (p k); unfold len in *; cbn [length]; lia.
Qed.

Lemma len_filter_pairs {V} (g : ReqId * V -> bool) (m : amap ReqId V) :
  len (map fst (filter g m)) = msum (fun k v => if g (k, v) then 1 else 0) m.
Proof.
  induction m as [|[k v] t IH]; cbn [filter msum]; [reflexivity|].
  destruct (g (k, v)); unfold len in *; cbn [map length]; lia.
Qed.

(* ------------------------------------------------------------------ *)
(* C12_counts *)

Theorem C12_counts cfg s c rc :
  wf_cfg cfg -> Reach cfg s -> get c (ctxs s) = Some rc ->
  0 <= c_bresp rc <= c_breq rc
  /\ (has c (expq_h s) = true ->
        len (batch_rids s c (c_counter rc)) = c_breq rc
        /\ len (filter (in_batch c (c_counter rc)) (keys (resps s))) = c_bresp rc
        /\ len (active_rids s c (c_counter rc)) = c_breq rc - c_bresp rc)
  /\ (has c (expq_h s) = false ->
        c_bdone rc = true
        /\ forall r, rid_ctx r = c -> get r (reqs s) = None /\ get r (resps s) = None).
Proof.
  intros Hcfg Hr Grc. pose proof (Reach_Inv cfg s Hcfg Hr) as HI.
  pose proof (Reach_I_cnt cfg s Hcfg Hr) as Hc.
  destruct (inv_req _ _ HI) as (R1 & R2 & R3).
  destruct (R3 _ _ Grc) as (B1 & B2 & B3 & B4).
  split; [exact B1|]. split.
  - intros He. destruct (Hc _ _ Grc He) as (A1 & A2).
    assert (Hb : forall r q, In (r, q) (reqs s) ->
              in_batch c (c_counter rc) r = eqb (rid_ctx r) c).
    { intros r q Hin. unfold in_batch. destruct (eqb_spec (rid_ctx r) c) as [E|]; [|reflexivity].
      destruct (R1 _ _ Hin) as (rc' & G & Eb & _). rewrite E in G.
      assert (rc' = rc) by congruence. subst rc'. rewrite Eb. cbn [andb]. apply Z.eqb_refl. }
    split; [|split].
    + unfold batch_rids. rewrite len_isort, len_filter_keys, <- A1.
      apply msum_ext. intros r q Hin. unfold of_ctx. now rewrite (Hb r q Hin).
    + rewrite len_filter_keys, <- A2.
      apply msum_ext. intros r x Hin. unfold of_ctx.
      destruct (R2 _ _ Hin) as (q & Gq & _). apply get_In in Gq. now rewrite (Hb r q Gq).
    + unfold active_rids. rewrite len_isort, len_filter_pairs.
      assert (E : msum (fun k v => if in_batch c (c_counter rc) (fst (k, v)) && r_active (snd (k, v))
                                   then 1 else 0) (reqs s) = msum (active_in c) (reqs s)).
      { apply msum_ext. intros r q Hin. cbn [fst snd]. unfold active_in. now rewrite (Hb r q Hin). }
      rewrite E, B2, He. cbn [andb]. destruct (c_bdone rc) eqn:Ed; cbn [negb]; [|reflexivity].
      destruct (B3 He eq_refl). lia.
  - intros He. split; [now apply B4|]. intros r Ec.
    destruct (Inv_no_orphans _ _ HI) as (_ & _ & N3 & _). apply (N3 c r); [|exact Ec].
    now apply has_false.
Qed.

(* ------------------------------------------------------------------ *)
(* C12_completion: when the batch state changes *)

(* messages: only the response that makes responses = requests (>= 1) completes a batch;
   no message re-opens one *)
Theorem C12_completion_msg cfg s o s' c rc rc' :
  wf_cfg cfg -> Inv cfg s -> wf_op s o -> (forall dt, o <> OEndBlock dt) ->
  handle cfg s o = Ok s' ->
  get c (ctxs s) = Some rc -> get c (ctxs s') = Some rc' ->
  (c_bdone rc' <> c_bdone rc ->
     c_bdone rc = false /\ c_bdone rc' = true
     /\ 1 <= c_breq rc' /\ c_bresp rc' = c_breq rc' /\ c_bresp rc' = c_bresp rc + 1
     /\ exists r who code out ov ok, o = ORespond r who code out ov ok /\ rid_ctx r = c)
  /\ (forall r who code out ov ok, o = ORespond r who code out ov ok -> rid_ctx r = c ->
        c_bdone rc = false /\ c_bresp rc < c_breq rc /\ c_bresp rc' = c_bresp rc + 1
        /\ c_breq rc' = c_breq rc /\ c_counter rc' = c_counter rc
        /\ (c_bdone rc' = true <-> c_bresp rc + 1 = c_breq rc)).
Proof.
  intros Hcfg HI Hwf Hne H Erc Erc'. split.
  - intros Hd.
    destruct (msg_ctx_change _ _ _ _ _ _ _ Hcfg HI Hwf Hne H Erc Erc')
      as [->|who ok _ _ _ _ _ ->|who ok _ _ _ _ ->|who ok _ _ _ _ ->
          |who provs cap timeout freq total ok capo _ _ _ _ ->|r who code out ov ok q -> Hc Hq Hrc'
          |who provs thr cap timeout freq total capo _ _ _ _ _ ->
          |who _ _ _ _ _ ->|who _ _ _ _ ->|who _ _ _ _ ->];
      try (exfalso; apply Hd; reflexivity).
    { exfalso. apply Hd. pose proof (upd_ctx_fixed rc provs capo timeout freq total) as Hf.
      cbv zeta in Hf. tauto. }
    2:{ exfalso. apply Hd.
        pose proof (upd_thr_fixed rc (if thr =? 0 then c_thr rc else thr) provs capo timeout freq total) as Hf.
        cbv zeta in Hf. tauto. }
    cbn [handle] in H.
    destruct (respond_exact _ _ _ _ _ _ _ _ _ Hcfg HI H)
      as (q' & rc0 & _ & _ & _ & Hrc0 & _ & Hnd & Hb & _ & _ & _ & _ & E4).
    rewrite Hc in Hrc0, E4. assert (rc0 = rc) by congruence. subst rc0.
    rewrite E4, get_set_eq in Erc'. injection Erc' as <-.
    unfold responded in *. cbn [c_bresp c_breq setc_bresp] in *.
    destruct (c_bresp rc + 1 =? c_breq rc) eqn:E; cbn [c_bdone c_bresp c_breq setc_bdone setc_bresp] in *.
    + b2p. repeat split; try assumption; try lia. exists r, who, code, out, ov, ok. auto.
    + exfalso. apply Hd. reflexivity.
  - intros r who code out ov ok -> Hc. cbn [handle] in H.
    destruct (respond_exact _ _ _ _ _ _ _ _ _ Hcfg HI H)
      as (q' & rc0 & _ & _ & _ & Hrc0 & _ & Hnd & Hb & _ & _ & _ & _ & E4).
    rewrite Hc in Hrc0, E4. assert (rc0 = rc) by congruence. subst rc0.
    rewrite E4, get_set_eq in Erc'. injection Erc' as <-.
    unfold responded. cbn [c_bresp c_breq setc_bresp].
    destruct (c_bresp rc + 1 =? c_breq rc) eqn:E; cbn [c_bdone c_bresp c_breq c_counter setc_bdone setc_bresp];
      b2p; repeat split; try assumption; try lia; try congruence.
Qed.

(* the expiry handler completes the batch if it was not completed before; it touches no
   other context; EvBatchDone is logged exactly in that case *)
Theorem C12_completion_expire_one cfg s c :
  wf_cfg cfg -> Inv cfg s -> In (height s, c) (expq s) -> height s < HEIGHT_BOUND ->
  let s' := expire_one cfg s c in
  (forall rc', get c (ctxs s') = Some rc' -> c_bdone rc' = true)
  /\ (forall c' rc rc', get c' (ctxs s) = Some rc -> get c' (ctxs s') = Some rc' ->
        c_bdone rc' <> c_bdone rc -> c' = c /\ c_bdone rc = false /\ c_bdone rc' = true)
  /\ (forall c' rc rc', get c' (ctxs s) = Some rc -> get c' (ctxs s') = Some rc' ->
        c_counter rc' = c_counter rc /\ c_breq rc' = c_breq rc /\ c_bresp rc' = c_bresp rc).
Proof.
  intros Hcfg HI Hdue Hb s'. subst s'.
  destruct (expire_one_spec cfg s c Hcfg HI Hdue Hb)
    as (rc0 & rc1 & Erc0 & Ee & En & Hrc1 & Ht & Q1 & Q2 & Ee' & Hcase).
  assert (Hsurv : forall rc', get c (ctxs (expire_one cfg s c)) = Some rc' -> rc' = rc1).
  { intros rc' G. destruct Hcase as [(Ex & _)|[(Ex & _)|(Ex & _)]]; congruence. }
  assert (Hd1 : forall rc', get c (ctxs (expire_one cfg s c)) = Some rc' -> c_bdone rc' = true).
  { intros rc' G.
    destruct (inv_req _ _ (Inv_expire_one cfg s c Hcfg HI Hdue Hb)) as (_ & _ & R3').
    destruct (R3' _ _ G) as (_ & _ & _ & B4'). apply B4'. apply has_false. exact Ee'. }
  split; [exact Hd1|]. split.
  - intros c' rc rc' G G' Hd. destruct (eqb_spec c' c) as [->|Hn].
    + pose proof (Hd1 rc' G') as E1. split; [reflexivity|]. split; [|exact E1].
      destruct (c_bdone rc); [congruence|reflexivity].
    + rewrite (t_ctxs _ _ _ Ht) in G' by assumption. exfalso. apply Hd. congruence.
  - intros c' rc rc' G G'. destruct (eqb_spec c' c) as [->|Hn].
    + assert (rc0 = rc) by congruence. subst rc0. rewrite (Hsurv rc' G').
      destruct Hrc1 as [->|[_ ->]]; repeat split.
    + rewrite (t_ctxs _ _ _ Ht) in G' by assumption.
      assert (rc' = rc) by congruence. subst. auto.
Qed.

(* the new-batch handler is the only operation that opens a batch (batch state back to
   running, counter + 1), for its own context only, and only when none is pending *)
Theorem C12_completion_new_one cfg s c :
  wf_cfg cfg -> Inv cfg s -> In (height s, c) (newq s) -> height s < HEIGHT_BOUND ->
  let s' := new_one cfg s c in
  forall c' rc rc', get c' (ctxs s) = Some rc -> get c' (ctxs s') = Some rc' ->
    (c_bdone rc' <> c_bdone rc \/ c_counter rc' <> c_counter rc ->
       c' = c /\ has c (expq_h s) = false /\ c_bdone rc = true /\ c_bdone rc' = false
       /\ c_counter rc' = c_counter rc + 1 /\ c_bresp rc' = 0 /\ 0 <= c_breq rc'
       /\ c_bthr rc' = c_thr rc /\ has c (expq_h s') = true)
    /\ (c_bdone rc' = c_bdone rc ->
          c_counter rc' = c_counter rc /\ c_breq rc' = c_breq rc /\ c_bresp rc' = c_bresp rc).
Proof.
  intros Hcfg HI Hdue Hb s' c' rc rc' G G'. subst s'.
  destruct (new_one_spec cfg s c HI Hdue) as (rc0 & Erc0 & En & Ee & Ht & Q1 & Q2 & En' & Hcase).
  destruct (eqb_spec c' c) as [->|Hn].
  2:{ rewrite (t_ctxs _ _ _ Ht) in G' by assumption. assert (rc' = rc) by congruence. subst rc'.
      split; [intros [Hd|Hd]; exfalso; apply Hd; reflexivity|auto]. }
  assert (rc0 = rc) by congruence. subst rc0.
  destruct (inv_req _ _ HI) as (_ & _ & R3). destruct (R3 _ _ G) as (_ & _ & _ & B4).
  assert (Hne : has c (expq_h s) = false) by now apply has_false.
  pose proof (B4 Hne) as Hbd.
  destruct (inv_req _ _ (Inv_new_one cfg s c Hcfg HI Hdue Hb)) as (_ & _ & R3').
  destruct (R3' _ _ G') as (B1' & _).
  destruct Hcase as [(_ & Ex & _)|[(_ & _ & Ee' & n & Ex)|[(_ & _ & _ & Ex)|(_ & _ & Ex)]]];
    rewrite Ex in G'; try discriminate; injection G' as <-.
  - split.
    + intros _. cbn in B1'. split; [reflexivity|]. split; [exact Hne|]. split; [exact Hbd|].
      split; [reflexivity|]. split; [reflexivity|]. split; [reflexivity|].
      split; [cbn; lia|]. split; [reflexivity|]. eapply has_of_get; eauto.
    + cbn. rewrite Hbd. discriminate.
  - split; [intros [Hd|Hd]; exfalso; apply Hd; cbn; congruence|]. intros _. repeat split.
  - split; [intros [Hd|Hd]; exfalso; apply Hd; reflexivity|auto].
Qed.

(* ------------------------------------------------------------------ *)
(* Examples *)

Module Ex12.
  Import BEx.

  (* c1 in s_r: three request records, two response records, one still active *)
  Example C12_counts_ex :
    exists rc, get c1 (ctxs s_r) = Some rc /\ has c1 (expq_h s_r) = true
      /\ c_breq rc = 3 /\ c_bresp rc = 2
      /\ len (batch_rids s_r c1 (c_counter rc)) = 3
      /\ len (filter (in_batch c1 (c_counter rc)) (keys (resps s_r))) = 2
      /\ len (active_rids s_r c1 (c_counter rc)) = 1.
  Proof. eexists. split; [vm_compute; reflexivity|]. comp. Qed.

  (* after the expiry of batch 1 the counts of c2 keep describing the finished batch *)
  Example C12_counts_ex_after :
    exists rc, get c2 (ctxs s_x) = Some rc /\ has c2 (expq_h s_x) = false
      /\ c_breq rc = 2 /\ c_bresp rc = 0 /\ c_bdone rc = true /\ reqs s_x = [].
  Proof. eexists. split; [vm_compute; reflexivity|]. comp. Qed.

  (* both requests of c2 answered: the second response completes the batch *)
  Definition s_f1 : State := run cfg0 s_b [ORespond (c2, 1, 1, 0) 10 200 1 true true].
  Definition o_f2 : Op := ORespond (c2, 1, 1, 1) 11 200 4 true true.

  Lemma reach_f1 : Reach cfg0 s_f1.
  Proof. apply reach_run; [exact reach_b|comp]. Qed.

  Example C12_completion_msg_ex :
    wf_cfg cfg0 /\ Reach cfg0 s_f1 /\ wf_op s_f1 o_f2 /\ (forall dt, o_f2 <> OEndBlock dt)
    /\ exists s' rc rc', handle cfg0 s_f1 o_f2 = Ok s'
         /\ get c2 (ctxs s_f1) = Some rc /\ get c2 (ctxs s') = Some rc'
         /\ c_bdone rc = false /\ c_bresp rc + 1 = c_breq rc /\ c_bdone rc' = true.
  Proof.
    split; [exact wf_cfg0|]. split; [exact reach_f1|]. split; [exact I|].
    split; [intros; discriminate|]. eexists; eexists; eexists.
    split; [vm_compute; reflexivity|]. split; [vm_compute; reflexivity|].
    split; [vm_compute; reflexivity|]. comp.
  Qed.

  (* the first response does not *)
  Example C12_completion_msg_ex_not_yet :
    exists rc rc', get c2 (ctxs s_b) = Some rc /\ get c2 (ctxs s_f1) = Some rc'
      /\ c_bresp rc + 1 < c_breq rc /\ c_bdone rc' = false.
  Proof. eexists; eexists. split; [vm_compute; reflexivity|]. split; [vm_compute; reflexivity|]. comp. Qed.

  (* expiry completes the batch of c2 (requests unanswered) *)
  Example C12_completion_expire_one_ex :
    wf_cfg cfg0 /\ Reach cfg0 s_e /\ In (height s_e, c2) (expq s_e) /\ height s_e < HEIGHT_BOUND
    /\ exists rc rc', get c2 (ctxs s_e) = Some rc /\ get c2 (ctxs (expire_one cfg0 s_e c2)) = Some rc'
         /\ c_bdone rc = false /\ c_bdone rc' = true.
  Proof.
    split; [exact wf_cfg0|]. split; [exact reach_e|]. split; [vm_compute; auto|].
    split; [reflexivity|]. eexists; eexists.
    split; [vm_compute; reflexivity|]. split; [vm_compute; reflexivity|]. comp.
  Qed.

  (* new_one opens batch 2 of c2 at height 11 *)
  Example C12_completion_new_one_ex :
    Reach cfg0 s_n2 /\ In (height s_n2, c2) (newq s_n2)
    /\ exists rc rc', get c2 (ctxs s_n2) = Some rc /\ get c2 (ctxs (new_one cfg0 s_n2 c2)) = Some rc'
         /\ c_bdone rc = true /\ c_bdone rc' = false /\ c_counter rc' = c_counter rc + 1.
  Proof.
    split; [exact reach_n2|]. split; [vm_compute; auto|]. eexists; eexists.
    split; [vm_compute; reflexivity|]. split; [vm_compute; reflexivity|]. comp.
  Qed.
End Ex12.
