(* C07, state level: the volume counter moves by +1 exactly on an accepted response for its
   (consumer, service, provider) and is touched by nothing else; the fee stored on every request
   issued by the new-batch handler is the pricing formula evaluated on the binding's PUBLISHED
   pricing, the block time and the recorded volume. *)
From Coq Require Import List ZArith Bool Lia.
From SVC Require Import Base.AMap Base.Res Base.Dec Model.Types Model.Pricing
  Model.Handlers Model.EndBlock Model.Step Proofs.Inv Proofs.Lemmas Proofs.ReqLemmas
  Proofs.PFrame Proofs.CtxOps Proofs.InvAll Proofs.ReachRun Proofs.PricingProofs
  Proofs.StepSpecs_batch Proofs.StepSpecs_batch_block Proofs.GapOrigin Proofs.BatchEx Proofs.TraceSettle.
Import ListNotations.
Open Scope Z_scope.

(* ------------------------------------------------------------------ *)
(* the volume map is left alone by every primitive except the tail of h_respond *)

Lemma vols_transfer a b amt s s1 : transfer a b amt s = Some s1 -> vols s1 = vols s.
Proof. intros E. apply transfer_some in E. destruct E as (_ & _ & ->). reflexivity. Qed.

Lemma vols_pay_deposit s k o amt s1 : pay_deposit s k o amt = Ok s1 -> vols s1 = vols s.
Proof.
  intros H. apply pay_deposit_inv in H. destruct H as (s0 & Et & ->). sproj.
  eapply vols_transfer; eauto.
Qed.

Lemma vols_opt_pay s k o (dep : Coins) amt s1 :
  (if coins_empty dep then Ok s else pay_deposit s k o amt) = Ok s1 -> vols s1 = vols s.
Proof.
  destruct (coins_empty dep); intros H; [inv_ok H; now subst|]. eapply vols_pay_deposit; eauto.
Qed.

Lemma vols_slash cfg s r s1 : slash cfg s r = Ok s1 -> vols s1 = vols s.
Proof. intros H. apply slash_core in H. unfold same_req_core in H. tauto. Qed.

Lemma vols_refund s r cons fee s1 : refund_fee s r cons fee = Some s1 -> vols s1 = vols s.
Proof. intros H. apply refund_core in H. unfold same_req_core in H. tauto. Qed.

Lemma vols_add_earned cfg s r prov fee s1 : add_earned_fee cfg s r prov fee = Ok s1 -> vols s1 = vols s.
Proof.
  intros H. apply add_earned_shape in H. destruct H as (o & s0 & _ & _ & _ & ->). reflexivity.
Qed.

Lemma vols_deactivate s r : vols (deactivate s r) = vols s.
Proof. unfold deactivate. now destruct (get r (reqs s)). Qed.

Lemma vols_complete_batch s c rc : vols (fst (complete_batch s c rc)) = vols s.
Proof. pose proof (complete_batch_frame s c rc) as H. cbv zeta in H. tauto. Qed.

Lemma vols_resp_finish s5 c rc : vols (resp_finish s5 c rc) = vols s5.
Proof.
  unfold resp_finish. destruct (_ =? _); sproj; [apply vols_complete_batch|reflexivity].
Qed.

Lemma vols_resp_mid s1 r who rc0 code out :
  vols (resp_mid s1 r who rc0 code out)
  = set (c_cons rc0, c_svc rc0, who) (get0 (c_cons rc0, c_svc rc0, who) (vols s1) + 1) (vols s1).
Proof. unfold resp_mid. sproj. now rewrite vols_deactivate. Qed.

Lemma vols_expire_one cfg s c : vols (expire_one cfg s c) = vols s.
Proof.
  unfold expire_one.
  set (rc := ctx_or_zero s c).
  assert (Hp : vols (fst (if c_bdone rc then (s, rc)
             else complete_batch (fold_left (expire_req cfg) (active_rids s c (c_counter rc)) s) c rc))
               = vols s).
  { destruct (c_bdone rc); [reflexivity|]. rewrite vols_complete_batch.
    pose proof (fold_expire_core cfg (active_rids s c (c_counter rc)) s) as H. cbv zeta in H. tauto. }
  destruct (if c_bdone rc then (s, rc) else _) as [s1 rc1]. cbn [fst] in Hp.
  unfold clean_batch. sproj.
  destruct (c_state rc1); [destruct (c_rep rc1 && _)|..]; sproj; exact Hp.
Qed.

Lemma vols_issue_all s c rc n i provs : vols (issue_all s c rc n i provs) = vols s.
Proof.
  revert s i. induction provs as [|p t IH]; cbn [issue_all]; intros s i; [reflexivity|].
  rewrite IH. reflexivity.
Qed.

Lemma vols_new_one cfg s c : vols (new_one cfg s c) = vols s.
Proof.
  unfold new_one.
  set (rc := ctx_or_zero s c).
  destruct (is_state rc Running && c_rep rc && (0 <? c_total rc) && (c_total rc <=? c_counter rc));
    [reflexivity|].
  sproj.
  destruct (is_state rc Running); [|reflexivity].
  destruct ((0 <? len _) && _); [|reflexivity].
  match goal with |- vols (match ?p with _ => _ end) = _ => destruct p as [sp|] eqn:Ep end.
  - assert (Hsp : vols sp = vols s).
    { destruct (c_super rc); [injection Ep as <-; reflexivity|].
      destruct (transfer _ _ _ s) eqn:Et; [|discriminate]. injection Ep as <-. sproj.
      eapply vols_transfer; eauto. }
    unfold initiate_requests. sproj. rewrite vols_issue_all. exact Hsp.
  - unfold on_paused. destruct (c_mod rc =? 0); reflexivity.
Qed.

Lemma vols_fold {A} (f : State -> A -> State) (l : list A) s :
  (forall s a, vols (f s a) = vols s) -> vols (fold_left f l s) = vols s.
Proof.
  intros Hf. revert s. induction l as [|a l IH]; cbn [fold_left]; intros s; [reflexivity|].
  rewrite IH. apply Hf.
Qed.

(* C07_volume_frame_end_block: the whole EndBlock (both phases and the tick) never moves a volume *)
Theorem volume_frame_end_block cfg s dt : vols (end_block cfg s dt) = vols s.
Proof.
  unfold end_block, end_blocker. sproj.
  rewrite vols_fold by (intros; apply vols_new_one).
  apply vols_fold. intros; apply vols_expire_one.
Qed.

Theorem volume_frame_expire_phase cfg s l : vols (fold_left (expire_one cfg) l s) = vols s.
Proof. apply vols_fold. intros; apply vols_expire_one. Qed.

(* ------------------------------------------------------------------ *)
(* messages *)

Definition is_respond_op (o : Op) : bool :=
  match o with ORespond _ _ _ _ _ _ => true | _ => false end.

Lemma vols_update_tail cfg s c rc provs cap timeout freq total s' :
  update_ctx_tail cfg s c rc provs cap timeout freq total = Ok s' -> vols s' = vols s.
Proof. unfold update_ctx_tail. intros H. inv_ok H. subst. reflexivity. Qed.

(* C07_volume_frame_msg: no message other than an accepted response moves a volume *)
Theorem volume_frame_msg cfg s o s' :
  handle cfg s o = Ok s' -> (forall dt, o <> OEndBlock dt) -> is_respond_op o = false ->
  vols s' = vols s.
Proof.
  intros H Hne Hr. destruct o; cbn [is_respond_op] in Hr; try discriminate; cbn [handle] in H.
  - unfold h_define in H. inv_ok H. destruct (get svc (defs s)); inv_ok H. now subst.
  - unfold h_bind in H. inv_ok H. sproj. apply vols_pay_deposit in Ha2.
    destruct (get prov (owner_of a2)); inv_ok H; subst; sproj; exact Ha2.
  - unfold h_update in H. inv_ok H. apply vols_opt_pay in Ha3.
    destruct (negb (qos =? 0) || negb (coins_empty dep) || match pr with Some _ => true | None => false end);
      [|inv_ok H; now subst].
    destruct a1 as [[raw p]|]; inv_ok H; subst; sproj; exact Ha3.
  - unfold h_disable in H. inv_ok H. now subst.
  - unfold h_enable in H. inv_ok H. subst. apply vols_opt_pay in Ha2. sproj. exact Ha2.
  - unfold h_refund_deposit in H. inv_ok H. subst. sproj. eapply vols_transfer; eauto.
  - unfold h_set_withdraw in H. inv_ok H. now subst.
  - unfold h_call in H. inv_ok H. unfold create_context in H. inv_ok H. now subst.
  - unfold create_context in H. inv_ok H. now subst.
  - unfold h_pause in H. inv_ok H. now subst.
  - unfold h_start in H. inv_ok H. destruct (negb _ && negb _); inv_ok H; now subst.
  - unfold h_kill in H. inv_ok H. now subst.
  - unfold h_update_ctx in H. inv_ok H. eapply vols_update_tail; eauto.
  - unfold h_withdraw in H. inv_ok H. destruct (prov =? 0).
    + inv_ok H. subst. sproj. apply vols_transfer in Ha. exact Ha.
    + inv_ok H. subst. sproj. apply vols_transfer in Ha0. rewrite Ha0.
      destruct (get0 prov (earned s) =? get0 owner (own_earned s)); [|destruct (_ <? 0)];
        inv_ok Ha; subst; reflexivity.
  - unfold h_transfer in H. inv_ok H. eapply vols_transfer; eauto.
  - exfalso. eapply Hne; reflexivity.
  - unfold h_mod_update in H. inv_ok H. eapply vols_update_tail; eauto.
  - unfold h_mod_pause in H. inv_ok H. now subst.
  - unfold h_mod_start in H. inv_ok H. destruct (negb _ && negb _); inv_ok H; now subst.
  - unfold h_mod_kill in H. inv_ok H. now subst.
Qed.

(* C07_volume_respond: an accepted response adds exactly one to the volume of
   (consumer of the context, service of the context, provider of the request) and to no other *)
Theorem volume_respond cfg s r who code out ov ok s' q rc :
  handle cfg s (ORespond r who code out ov ok) = Ok s' ->
  get r (reqs s) = Some q -> get (rid_ctx r) (ctxs s) = Some rc ->
  who = r_prov q
  /\ forall k, get0 k (vols s') =
       get0 k (vols s) + (if eqb k (c_cons rc, c_svc rc, r_prov q) then 1 else 0).
Proof.
  cbn [handle]. intros H Gq Grc. apply respond_inv in H.
  destruct H as (q' & rc0 & s1 & rc1 & _ & Gq' & Grc0 & Hw & _ & Hset & _ & ->).
  assert (q' = q) by congruence. assert (rc0 = rc) by congruence. subst q' rc0.
  split; [exact Hw|]. subst who.
  assert (E1 : vols s1 = vols s).
  { destruct Hset as [[_ (sa & Es & Er)]|[_ Ea]].
    - rewrite (vols_refund _ _ _ _ _ Er). eapply vols_slash; eauto.
    - eapply vols_add_earned; eauto. }
  intros k. rewrite vols_resp_finish, vols_resp_mid, E1, get0_set.
  destruct (eqb k (c_cons rc, c_svc rc, r_prov q)) eqn:E; [|lia].
  apply eqb_true in E. subst k. reflexivity.
Qed.

(* ------------------------------------------------------------------ *)
(* histories: the volume of a triple is the number of accepted responses for it *)

(* the (consumer, service, provider) a response to r counts for, read from the state it arrives in *)
Definition resp_key (s : State) (o : Op) : option VKey :=
  match o with
  | ORespond r _ _ _ _ _ =>
      match get r (reqs s), get (rid_ctx r) (ctxs s) with
      | Some q, Some rc => Some (c_cons rc, c_svc rc, r_prov q)
      | _, _ => None
      end
  | _ => None
  end.

Definition accepted (cfg : Params) (s : State) (o : Op) : bool :=
  match handle cfg s o with Ok _ => true | _ => false end.

(* 1 if o is a response that is accepted in s and counts for k, else 0 *)
Definition counts_for (cfg : Params) (s : State) (o : Op) (k : VKey) : Z :=
  if accepted cfg s o
  then match resp_key s o with Some k' => if eqb k k' then 1 else 0 | None => 0 end
  else 0.

Fixpoint responses_for (cfg : Params) (s : State) (ops : list Op) (k : VKey) : Z :=
  match ops with
  | [] => 0
  | o :: t => counts_for cfg s o k + responses_for cfg (fst (step cfg s o)) t k
  end.

Lemma counts_for_range cfg s o k : 0 <= counts_for cfg s o k <= 1.
Proof.
  unfold counts_for. destruct (accepted cfg s o); [|lia].
  destruct (resp_key s o) as [k'|]; [|lia]. destruct (eqb k k'); lia.
Qed.

Lemma responses_for_nonneg cfg s ops k : 0 <= responses_for cfg s ops k.
Proof.
  revert s. induction ops as [|o t IH]; intros s; cbn [responses_for]; [lia|].
  pose proof (counts_for_range cfg s o k). specialize (IH (fst (step cfg s o))). lia.
Qed.

(* one step of the machine, any operation, accepted or not *)
Theorem volume_step cfg s o k :
  get0 k (vols (fst (step cfg s o))) = get0 k (vols s) + counts_for cfg s o k.
Proof.
  unfold step, counts_for, accepted.
  destruct (handle cfg s o) as [s'| |] eqn:E; cbn [fst]; try lia.
  destruct (is_respond_op o) eqn:Hr.
  - destruct o; cbn [is_respond_op] in Hr; try discriminate.
    pose proof E as E'. cbn [handle] in E'. apply respond_inv in E'.
    destruct E' as (q & rc0 & _ & _ & _ & Gq & Grc & _).
    cbn [resp_key]. rewrite Gq, Grc.
    destruct (volume_respond cfg s r who code out out_valid ok s' q rc0 E Gq Grc) as (_ & Hk).
    rewrite Hk. reflexivity.
  - assert (Ek : resp_key s o = None) by (destruct o; cbn [is_respond_op] in Hr; try discriminate; reflexivity).
    rewrite Ek.
    destruct o; try (rewrite (volume_frame_msg cfg s _ s' E ltac:(discriminate) Hr); lia).
    cbn [handle] in E. injection E as <-. rewrite volume_frame_end_block. lia.
Qed.

(* C07_volume_run: along ANY history the volume grows by exactly the number of accepted responses
   for that (consumer, service, provider); no hypothesis on the start state or on the operations *)
Theorem volume_run cfg s ops k :
  get0 k (vols (run cfg s ops)) = get0 k (vols s) + responses_for cfg s ops k.
Proof.
  revert s. induction ops as [|o t IH]; intros s; cbn [responses_for].
  - unfold run. cbn [fold_left]. lia.
  - unfold run. cbn [fold_left]. fold (run cfg (fst (step cfg s o)) t).
    rewrite IH, volume_step. lia.
Qed.

Theorem volume_monotone cfg s ops k : get0 k (vols s) <= get0 k (vols (run cfg s ops)).
Proof. rewrite volume_run. pose proof (responses_for_nonneg cfg s ops k). lia. Qed.

(* from genesis: the volume IS the number of accepted responses *)
Theorem volume_counts_responses cfg h0 t0 f ops cons svc prov :
  vol_of (run cfg (init h0 t0 f) ops) cons svc prov
  = responses_for cfg (init h0 t0 f) ops (cons, svc, prov).
Proof. unfold vol_of. rewrite volume_run. unfold init. cbn [vols get0 get]. lia. Qed.

(* ------------------------------------------------------------------ *)
(* the fee of an issued request *)

(* handler level: compose C06_provider_in_list with I_index *)
Theorem request_fee_new_one cfg s c r q :
  wf_cfg cfg -> Inv cfg s -> In (height s, c) (newq s) -> height s < HEIGHT_BOUND ->
  get r (reqs s) = None -> get r (reqs (new_one cfg s c)) = Some q ->
  exists rc b, get c (ctxs s) = Some rc /\ rid_ctx r = c /\ In (r_prov q) (c_provs rc)
    /\ get (c_svc rc, r_prov q) (binds s) = Some b /\ b_avail b = true
    /\ let p := parse_pricing (b_raw b) in
       validate_pricing p = true /\ schema_pricing p = true
       /\ r_fee q = (if c_super rc then 0
                     else get_price p (time s) (vol_of s (c_cons rc) (c_svc rc) (r_prov q)))
       /\ 0 <= r_fee q <= c_cap rc /\ r_fee q <= Z.max (pr_price p) 1.
Proof.
  intros Hcfg Hi Hd Hb G0 G1.
  destruct (C06_provider_in_list cfg s c r q Hcfg Hi Hd Hb G0 G1)
    as (rc & b & Grc & Hin & Gb & Hav & _ & _ & Hfee & _).
  destruct (C06_fee_le_cap cfg s c r q Hcfg Hi Hd Hb G0 G1) as (rc' & Grc' & Hc & Hcap).
  assert (rc' = rc) by congruence. subst rc'.
  destruct (inv_index _ _ Hi) as (I1 & _).
  destruct (I1 _ _ (get_In _ _ _ Gb)) as (_ & _ & _ & Gp & Hv & Hs & _).
  exists rc, b. split; [exact Grc|]. split; [exact Hc|]. split; [exact Hin|]. split; [exact Gb|].
  split; [exact Hav|]. cbv zeta.
  assert (Ep : pricing_of s (c_svc rc, r_prov q) = parse_pricing (b_raw b))
    by (unfold pricing_of; now rewrite Gp).
  rewrite Ep in Hfee.
  split; [exact Hv|]. split; [exact Hs|]. split; [exact Hfee|]. split; [exact Hcap|].
  rewrite Hfee. destruct (c_super rc); [lia|]. now apply C07_fee_le.
Qed.

(* whole EndBlock: the request records that appear are priced on the pricing PUBLISHED in the
   binding at the start of that EndBlock (a slash of the expiry phase does not touch the text),
   the time of that block and the volume recorded at the start of the EndBlock *)
Theorem request_fee_end_block cfg s dt r q :
  wf_cfg cfg -> Inv cfg s -> height s < HEIGHT_BOUND ->
  get r (reqs s) = None -> get r (reqs (end_block cfg s dt)) = Some q ->
  let sx := fold_left (expire_one cfg) (due (expq s) (height s)) s in
  exists rc b bx, get (rid_ctx r) (ctxs sx) = Some rc
    /\ get (c_svc rc, r_prov q) (binds s) = Some b
    /\ get (c_svc rc, r_prov q) (binds sx) = Some bx /\ b_raw bx = b_raw b /\ b_avail bx = true
    /\ In (r_prov q) (c_provs rc)
    /\ let p := parse_pricing (b_raw b) in
       validate_pricing p = true /\ schema_pricing p = true
       /\ r_fee q = (if c_super rc then 0
                     else get_price p (time s) (vol_of s (c_cons rc) (c_svc rc) (r_prov q)))
       /\ 0 <= r_fee q <= c_cap rc /\ r_fee q <= Z.max (pr_price p) 1
       /\ r_exp q = height s + c_timeout rc /\ rid_height r = height s.
Proof.
  intros Hcfg Hi Hb G0 G1. cbv zeta.
  destruct (C06_end_block cfg s dt r q Hcfg Hi Hb G0 G1)
    as (rc & k & p & price & Hdue & Grc & Hk & Er & Eq & Hin & Hel & Hcap).
  set (l1 := due (expq s) (height s)) in *.
  assert (Hn1 : NoDup l1) by (apply NoDup_due; apply (inv_wf _ _ Hi)).
  assert (Hl1 : forall c, In c l1 -> In (height s, c) (expq s)) by (intros c; apply In_due).
  destruct (fold_expire_phase cfg l1 s Hcfg Hi Hb Hn1 Hl1) as (I1 & H1 & T1 & _).
  set (sx := fold_left (expire_one cfg) l1 s) in *.
  assert (Ev : vols sx = vols s) by apply volume_frame_expire_phase.
  assert (Hsf : sframe s sx).
  { apply (ff_fold (expire_one cfg) l1 s). intros; apply ff_expire_one. }
  apply eligible_spec in Hel. destruct Hel as (bx & Gbx & Hav & _ & Eprice & _).
  assert (Ep : r_prov q = p) by (rewrite Eq; reflexivity).
  pose proof (sf_binds _ _ Hsf) as Hbs.
  destruct (bsim_get_rev _ _ _ _ Hbs Gbx) as (b & Gb & Hraw & _).
  destruct (inv_index _ _ I1) as (X1 & _).
  destruct (X1 _ _ (get_In _ _ _ Gbx)) as (_ & _ & _ & Gp & Hv & Hs & _).
  assert (Epr : pricing_of sx (c_svc rc, p) = parse_pricing (b_raw b))
    by (unfold pricing_of; now rewrite Gp, Hraw).
  exists rc, b, bx. rewrite Ep.
  split; [exact Grc|]. split; [exact Gb|]. split; [exact Gbx|]. split; [exact Hraw|].
  split; [exact Hav|]. split; [exact Hin|].
  rewrite <- Hraw. split; [exact Hv|]. split; [exact Hs|].
  assert (Ef : r_fee q = (if c_super rc then 0 else price)) by (rewrite Eq; reflexivity).
  assert (Ef2 : r_fee q = (if c_super rc then 0
            else get_price (parse_pricing (b_raw bx)) (time s) (vol_of s (c_cons rc) (c_svc rc) p))).
  { rewrite Ef. destruct (c_super rc); [reflexivity|].
    rewrite Eprice, Epr, Hraw, T1. unfold vol_of. rewrite Ev.
    (* exchanged_price and get_price are the same term in the model (a modelling choice; the two
       Go functions are tied by the correspondence, see C07_charged_is_stored) *)
    apply C07_charged_is_stored. }
  split; [exact Ef2|]. split; [exact Hcap|]. split.
  - rewrite Ef2. destruct (c_super rc); [lia|]. now apply C07_fee_le.
  - rewrite Eq, Er. cbn [r_exp rid_height fst snd]. split; reflexivity.
Qed.

(* history level: EVERY request record stored in ANY reachable state carries the fee given by the
   formula on the pricing published, the block time and the volume recorded at the start of the
   EndBlock (of the earlier reachable state s0) that issued it; and that fee was within the cap
   of the context at that moment *)
Theorem request_fee_reach cfg s r q :
  wf_cfg cfg -> Reach cfg s -> get r (reqs s) = Some q ->
  exists s0 rc b,
    Reach cfg s0 /\ height s0 = rid_height r /\ height s0 < height s
    /\ get (rid_ctx r) (ctxs (fold_left (expire_one cfg) (due (expq s0) (height s0)) s0)) = Some rc
    /\ get (c_svc rc, r_prov q) (binds s0) = Some b
    /\ In (r_prov q) (c_provs rc)
    /\ let p := parse_pricing (b_raw b) in
       validate_pricing p = true /\ schema_pricing p = true
       /\ r_fee q = (if c_super rc then 0
                     else get_price p (time s0) (vol_of s0 (c_cons rc) (c_svc rc) (r_prov q)))
       /\ 0 <= r_fee q <= c_cap rc /\ r_fee q <= Z.max (pr_price p) 1
       /\ r_exp q = rid_height r + c_timeout rc.
Proof.
  intros Hcfg HR G.
  destruct (request_origin cfg s r q Hcfg HR G)
    as (s0 & dt & q0 & R0 & Hdt & Hb & G0 & G1 & (E1 & E2 & E3) & Hlt).
  pose proof (Reach_Inv cfg s0 Hcfg R0) as I0.
  destruct (request_fee_end_block cfg s0 dt r q0 Hcfg I0 Hb G0 G1)
    as (rc & b & bx & Grc & Gb & _ & _ & _ & Hin & Hv & Hs & Hfee & Hcap & Hmax & Hexp & Hh).
  rewrite E1 in Gb, Hin, Hfee. rewrite E2 in Hfee, Hcap, Hmax. rewrite E3, <- Hh in Hexp.
  exists s0, rc, b. split; [exact R0|]. split; [now symmetry|]. split; [exact Hlt|].
  split; [exact Grc|]. split; [exact Gb|]. split; [exact Hin|]. cbv zeta. auto 10.
Qed.

(* super mode: a stored request carries no fee exactly when its context is in super mode (the
   fee of a non-super request is at least 1) *)
Theorem super_fee_zero cfg s r q rc :
  wf_cfg cfg -> Reach cfg s -> get r (reqs s) = Some q -> get (rid_ctx r) (ctxs s) = Some rc ->
  (c_super rc = true <-> r_fee q = 0) /\ (c_super rc = false -> 1 <= r_fee q).
Proof.
  intros Hcfg HR G Grc.
  destruct (stored_issued cfg s r q Hcfg HR G) as (rc' & Grc' & _ & _ & Hs).
  assert (rc' = rc) by congruence. subst rc'. split; [exact Hs|].
  intros Hns. destruct (inv_req _ _ (Reach_Inv cfg s Hcfg HR)) as (R1 & _).
  destruct (R1 _ _ (get_In _ _ _ G)) as (rc2 & _ & _ & _ & Hf & _).
  destruct (Z.eq_dec (r_fee q) 0) as [E|E]; [|lia].
  apply Hs in E. congruence.
Qed.

(* ------------------------------------------------------------------ *)
(* the hypotheses are satisfiable: the history BEx.ops_r (two accepted responses for the context of
   consumer 2 on service 5: a valid one by provider 10 and a malformed, refunded one by provider 11) *)
Module ExV.
  Import BEx.
  Example volume_ex :
    Reach cfg0 s_r
    /\ vol_of s_r 2 5 10 = 1 /\ vol_of s_r 2 5 11 = 1 /\ vol_of s_r 2 5 12 = 0
    /\ responses_for cfg0 s_init ops_r (2, 5, 10) = 1
    /\ responses_for cfg0 s_init ops_r (2, 5, 11) = 1
    /\ responses_for cfg0 s_init ops_r (2, 5, 12) = 0.
  Proof. split; [exact reach_r|]. vm_compute. auto 10. Qed.

  Example request_fee_reach_ex :
    wf_cfg cfg0 /\ Reach cfg0 s_r
    /\ get (c1, 1, 1, 2) (reqs s_r)
       = Some (mkReq 12 (get_price (parse_pricing (mkRaw 10 [] [])) 0 0) 6 true).
  Proof. split; [exact wf_cfg0|]. split; [exact reach_r|]. vm_compute. reflexivity. Qed.
End ExV.

(* the form stated in Properties/C07.v: every message that is not a response *)
Lemma volume_frame_msg_nonresp cfg s o s' :
  handle cfg s o = Ok s' -> (forall dt, o <> OEndBlock dt) ->
  (forall r w c ou v k, o <> ORespond r w c ou v k) -> vols s' = vols s.
Proof.
  intros H Hne Hnr. apply (volume_frame_msg cfg s o s' H Hne).
  destruct o; try reflexivity. exfalso. eapply Hnr. reflexivity.
Qed.
