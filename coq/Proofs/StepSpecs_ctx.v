(* Step theorems of properties C09 / C10 / C11 that need no trace: what one
   operation may do to a context record and to the two queues. *)
From Coq Require Import List ZArith Bool Lia Permutation.
From SVC Require Import Base.AMap Base.Res Base.Dec Model.Types Model.Pricing
  Model.Handlers Model.EndBlock Model.Step Proofs.Inv Proofs.Lemmas Proofs.CtxOps
  Proofs.InvSched Proofs.InvCtx.
Import ListNotations.
Open Scope Z_scope.

(* ------------------------------------------------------------------ *)
(* what a message may do to the record of a context that exists before and after *)

Inductive CtxChange (s : State) (o : Op) (c : CtxId) (rc rc' : Ctx) : Prop :=
| CC_same : rc' = rc -> CtxChange s o c rc rc'
| CC_pause who ok :
    o = OPause c who ok -> who = c_cons rc -> c_mod rc = 0 ->
    c_rep rc = true -> c_state rc = Running -> rc' = setc_state rc Paused ->
    CtxChange s o c rc rc'
| CC_start who ok :
    o = OStart c who ok -> who = c_cons rc -> c_mod rc = 0 ->
    c_state rc = Paused -> rc' = setc_state rc Running ->
    CtxChange s o c rc rc'
| CC_kill who ok :
    o = OKill c who ok -> who = c_cons rc -> c_mod rc = 0 ->
    c_rep rc = true -> rc' = setc_state rc Completed ->
    CtxChange s o c rc rc'
| CC_update who provs cap timeout freq total ok capo :
    o = OUpdateCtx c who provs cap timeout freq total ok -> who = c_cons rc -> c_mod rc = 0 ->
    c_state rc <> Completed -> rc' = upd_ctx rc provs capo timeout freq total ->
    CtxChange s o c rc rc'
| CC_respond r who code out ov ok q :
    o = ORespond r who code out ov ok -> rid_ctx r = c -> get r (reqs s) = Some q ->
    (rc' = setc_bresp rc (c_bresp rc + 1)
     \/ rc' = setc_bdone (setc_bresp rc (c_bresp rc + 1)) true) ->
    CtxChange s o c rc rc'
(* the keeper API driven by the module that owns the context: the same transitions, for
   contexts WITH a module name, plus the only change of the response threshold there is *)
| CC_mod_update who provs thr cap timeout freq total capo :
    o = OModUpdate c who provs thr cap timeout freq total -> who = c_cons rc -> c_mod rc <> 0 ->
    c_state rc <> Completed ->
    (if thr =? 0 then c_thr rc else thr) <= len (match provs with [] => c_provs rc | _ => provs end) ->
    rc' = upd_ctx (with_thr rc (if thr =? 0 then c_thr rc else thr)) provs capo timeout freq total ->
    CtxChange s o c rc rc'
| CC_mod_pause who :
    o = OModPause c who -> who = c_cons rc -> c_mod rc <> 0 ->
    c_rep rc = true -> c_state rc = Running -> rc' = setc_state rc Paused ->
    CtxChange s o c rc rc'
| CC_mod_start who :
    o = OModStart c who -> who = c_cons rc -> c_mod rc <> 0 ->
    c_state rc = Paused -> rc' = setc_state rc Running ->
    CtxChange s o c rc rc'
| CC_mod_kill who :
    o = OModKill c who -> who = c_cons rc -> c_mod rc <> 0 ->
    c_rep rc = true -> rc' = setc_state rc Completed ->
    CtxChange s o c rc rc'.

Lemma get_put s sm c c0 rc0 : SEq s sm ->
  get c (ctxs (put_ctx sm c0 rc0)) = if eqb c c0 then Some rc0 else get c (ctxs s).
Proof. intros Hsm. sproj. rewrite get_set, (se_ctxs _ _ Hsm). reflexivity. Qed.

Lemma ctxs_started s c rc : ctxs (started s c rc) = set c (setc_state rc Running) (ctxs s).
Proof. unfold started. destruct (negb (has c (expq_h s)) && negb (has c (newq_h s))); reflexivity. Qed.

Theorem msg_ctx_change cfg s o s' c rc rc' :
  wf_cfg cfg -> Inv cfg s -> wf_op s o -> (forall dt, o <> OEndBlock dt) ->
  handle cfg s o = Ok s' ->
  get c (ctxs s) = Some rc -> get c (ctxs s') = Some rc' ->
  CtxChange s o c rc rc'.
Proof.
  intros Hcfg HI Hwf Hne H Erc Erc'.
  destruct (ctx_op o) eqn:Hk.
  2:{ apply CC_same. rewrite (se_ctxs _ _ (msg_SEq _ _ _ _ H Hk)) in Erc'. congruence. }
  assert (Hcreate : forall c0 rc0, ctx_fresh s c0 -> s' = created s c0 rc0 -> CtxChange s o c rc rc').
  { intros c0 rc0 Hf ->. apply CC_same. destruct (fresh_none _ _ _ HI Hf) as (Ex & _).
    unfold created in Erc'. sproj. rewrite get_set in Erc'.
    destruct (eqb_spec c c0) as [->|Hn]; congruence. }
  destruct o; cbn [ctx_op] in Hk; try discriminate; cbn [handle] in H; cbn [wf_op] in Hwf.
  - unfold h_call in H. inv_ok H. apply create_context_spec in H.
    destruct H as (capv & _ & _ & _ & E). eapply Hcreate; [|exact E]. tauto.
  - apply create_context_spec in H.
    destruct H as (capv & _ & _ & _ & E). eapply Hcreate; [|exact E]. tauto.
  - apply respond_spec in H.
    destruct H as (q & rc0 & sm & rc0' & Eq & Erc0 & Hsm & -> & Hrc').
    rewrite (get_put s) in Erc' by assumption.
    destruct (eqb_spec c (rid_ctx r)) as [->|Hn]; [|apply CC_same; congruence].
    injection Erc' as <-. assert (rc0 = rc) by congruence. subst rc0.
    eapply CC_respond; eauto.
  - apply h_pause_spec in H. destruct H as (rc0 & Erc0 & Hw & Hm & Hrep & Hr & ->).
    rewrite (get_put s) in Erc' by apply SEq_refl.
    destruct (eqb_spec c c0) as [->|Hn]; [|apply CC_same; congruence].
    injection Erc' as <-. assert (rc0 = rc) by congruence. subst rc0.
    eapply CC_pause; eauto.
  - apply h_start_spec in H. destruct H as (rc0 & Erc0 & Hw & Hm & Hp & ->).
    rewrite ctxs_started, get_set in Erc'.
    destruct (eqb_spec c c0) as [->|Hn]; [|apply CC_same; congruence].
    injection Erc' as <-. assert (rc0 = rc) by congruence. subst rc0.
    eapply CC_start; eauto.
  - apply h_kill_spec in H. destruct H as (rc0 & Erc0 & Hw & Hm & Hrep & ->).
    rewrite (get_put s) in Erc' by apply SEq_refl.
    destruct (eqb_spec c c0) as [->|Hn]; [|apply CC_same; congruence].
    injection Erc' as <-. assert (rc0 = rc) by congruence. subst rc0.
    eapply CC_kill; eauto.
  - apply h_update_ctx_spec in H.
    destruct H as (rc0 & capo & Erc0 & Hw & Hm & Hst & _ & _ & _ & _ & _ & ->).
    rewrite (get_put s) in Erc' by apply SEq_refl.
    destruct (eqb_spec c c0) as [->|Hn]; [|apply CC_same; congruence].
    injection Erc' as <-. assert (rc0 = rc) by congruence. subst rc0.
    eapply CC_update; eauto.
  - exfalso. eapply Hne. reflexivity.
  - destruct Hwf as (_ & Hown). pose proof Hown as Hown'. apply h_mod_update_spec in H; [|exact Hown].
    destruct H as (rc0 & capo & Erc0 & Hw & Hm & Hst & _ & _ & _ & _ & _ & Hthr & ->).
    rewrite (get_put s) in Erc' by apply SEq_refl.
    destruct (eqb_spec c c0) as [->|Hn]; [|apply CC_same; congruence].
    injection Erc' as <-. assert (rc0 = rc) by congruence. subst rc0.
    eapply CC_mod_update; eauto.
  - apply h_mod_pause_spec in H. destruct H as (rc0 & Erc0 & Hw & Hrep & Hr & ->).
    rewrite (get_put s) in Erc' by apply SEq_refl.
    destruct (eqb_spec c c0) as [->|Hn]; [|apply CC_same; congruence].
    injection Erc' as <-. assert (rc0 = rc) by congruence. subst rc0.
    eapply CC_mod_pause; eauto.
  - apply h_mod_start_spec in H. destruct H as (rc0 & Erc0 & Hw & Hp & ->).
    rewrite ctxs_started, get_set in Erc'.
    destruct (eqb_spec c c0) as [->|Hn]; [|apply CC_same; congruence].
    injection Erc' as <-. assert (rc0 = rc) by congruence. subst rc0.
    eapply CC_mod_start; eauto.
  - apply h_mod_kill_spec in H. destruct H as (rc0 & Erc0 & Hw & Hrep & ->).
    rewrite (get_put s) in Erc' by apply SEq_refl.
    destruct (eqb_spec c c0) as [->|Hn]; [|apply CC_same; congruence].
    injection Erc' as <-. assert (rc0 = rc) by congruence. subst rc0.
    eapply CC_mod_kill; eauto.
Qed.

(* ------------------------------------------------------------------ *)
(* C09: the static fields never change *)

Definition static_eq (rc rc' : Ctx) : Prop :=
  c_svc rc' = c_svc rc /\ c_cons rc' = c_cons rc /\ c_input rc' = c_input rc
  /\ c_super rc' = c_super rc /\ c_rep rc' = c_rep rc /\ c_mod rc' = c_mod rc.

Lemma static_eq_refl rc : static_eq rc rc.
Proof. unfold static_eq. auto 10. Qed.

Theorem C09_static_msg cfg s o s' c rc rc' :
  wf_cfg cfg -> Inv cfg s -> wf_op s o -> (forall dt, o <> OEndBlock dt) ->
  handle cfg s o = Ok s' ->
  get c (ctxs s) = Some rc -> get c (ctxs s') = Some rc' ->
  static_eq rc rc'.
Proof.
  intros Hcfg HI Hwf Hne H Erc Erc'.
  destruct (msg_ctx_change _ _ _ _ _ _ _ Hcfg HI Hwf Hne H Erc Erc')
    as [->|who ok _ _ _ _ _ ->|who ok _ _ _ _ ->|who ok _ _ _ _ ->
        |who provs cap timeout freq total ok capo _ _ _ _ ->|r who code out ov ok q _ _ _ [->| ->]
        |who provs thr cap timeout freq total capo _ _ _ _ _ ->
        |who _ _ _ _ _ ->|who _ _ _ _ ->|who _ _ _ _ ->];
    try (unfold static_eq; cbn; auto 10; fail).
  - pose proof (upd_ctx_fixed rc provs capo timeout freq total) as Hf. cbv zeta in Hf.
    unfold static_eq. tauto.
  - pose proof (upd_thr_fixed rc (if thr =? 0 then c_thr rc else thr) provs capo timeout freq total) as Hf.
    cbv zeta in Hf. unfold static_eq. tauto.
Qed.

Theorem C09_static_expire_one cfg s c c' rc rc' :
  wf_cfg cfg -> Inv cfg s -> In (height s, c) (expq s) -> height s < HEIGHT_BOUND ->
  get c' (ctxs s) = Some rc -> get c' (ctxs (expire_one cfg s c)) = Some rc' ->
  static_eq rc rc'.
Proof.
  intros Hcfg HI Hdue Hb Erc Erc'.
  destruct (expire_one_spec cfg s c Hcfg HI Hdue Hb)
    as (rc0 & rc1 & Erc0 & Ee & En & Hrc1 & Ht & Q1 & Q2 & Ee' & Hcase).
  destruct (eqb_spec c' c) as [->|Hn].
  - assert (rc0 = rc) by congruence. subst rc0.
    assert (rc' = rc1).
    { destruct Hcase as [(Ex & _)|[(Ex & _)|(Ex & _)]]; congruence. }
    subst rc'. destruct Hrc1 as [->|[_ ->]]; unfold static_eq; cbn; auto 10.
  - rewrite (t_ctxs _ _ _ Ht) in Erc' by assumption.
    assert (rc' = rc) by congruence. subst. apply static_eq_refl.
Qed.

Theorem C09_static_new_one cfg s c c' rc rc' :
  wf_cfg cfg -> Inv cfg s -> In (height s, c) (newq s) -> height s < HEIGHT_BOUND ->
  get c' (ctxs s) = Some rc -> get c' (ctxs (new_one cfg s c)) = Some rc' ->
  static_eq rc rc'.
Proof.
  intros Hcfg HI Hdue Hb Erc Erc'.
  destruct (new_one_spec cfg s c HI Hdue)
    as (rc0 & Erc0 & En & Ee & Ht & Q1 & Q2 & En' & Hcase).
  destruct (eqb_spec c' c) as [->|Hn].
  - assert (rc0 = rc) by congruence. subst rc0.
    destruct Hcase as [(_ & Ex & _)|[(_ & _ & _ & n & Ex)|[(_ & _ & _ & Ex)|(_ & _ & Ex)]]];
      rewrite Ex in Erc'; try discriminate; injection Erc' as <-;
      unfold static_eq; cbn; auto 10.
  - rewrite (t_ctxs _ _ _ Ht) in Erc' by assumption.
    assert (rc' = rc) by congruence. subst. apply static_eq_refl.
Qed.

(* ------------------------------------------------------------------ *)
(* C09: the allowed transitions of state and terms under messages *)

(* only providers / fee cap / timeout / frequency / total may differ *)
Definition terms_only (rc rc' : Ctx) : Prop :=
  c_svc rc' = c_svc rc /\ c_cons rc' = c_cons rc /\ c_input rc' = c_input rc
  /\ c_super rc' = c_super rc /\ c_rep rc' = c_rep rc /\ c_counter rc' = c_counter rc
  /\ c_breq rc' = c_breq rc /\ c_bresp rc' = c_bresp rc /\ c_bthr rc' = c_bthr rc
  /\ c_bdone rc' = c_bdone rc /\ c_state rc' = c_state rc /\ c_thr rc' = c_thr rc
  /\ c_mod rc' = c_mod rc.

(* the same, and the response threshold: what the owning module may change through the keeper API.
   The per-batch copy c_bthr is NOT among the fields that may differ. *)
Definition terms_thr_only (rc rc' : Ctx) : Prop :=
  c_svc rc' = c_svc rc /\ c_cons rc' = c_cons rc /\ c_input rc' = c_input rc
  /\ c_super rc' = c_super rc /\ c_rep rc' = c_rep rc /\ c_counter rc' = c_counter rc
  /\ c_breq rc' = c_breq rc /\ c_bresp rc' = c_bresp rc /\ c_bthr rc' = c_bthr rc
  /\ c_bdone rc' = c_bdone rc /\ c_state rc' = c_state rc
  /\ c_mod rc' = c_mod rc.

(* the response threshold after UpdateRequestContext(…, thr, …) by the owning module: 0 = keep *)
Definition new_thr (rc : Ctx) (thr : Z) : Z :=
  let t := if thr =? 0 then c_thr rc else thr in if 0 <? t then t else c_thr rc.

(* only the response count / batch state of the current batch may differ *)
Definition batch_only (rc rc' : Ctx) : Prop :=
  rc' = setc_bdone (setc_bresp rc (c_bresp rc')) (c_bdone rc').

Theorem C09_transition_msg cfg s o s' c rc rc' :
  wf_cfg cfg -> Inv cfg s -> wf_op s o -> (forall dt, o <> OEndBlock dt) ->
  handle cfg s o = Ok s' ->
  get c (ctxs s) = Some rc -> get c (ctxs s') = Some rc' -> rc' <> rc ->
  (exists ok, o = OPause c (c_cons rc) ok /\ c_mod rc = 0 /\ c_rep rc = true
      /\ c_state rc = Running /\ rc' = setc_state rc Paused)
  \/ (exists ok, o = OStart c (c_cons rc) ok /\ c_mod rc = 0
      /\ c_state rc = Paused /\ rc' = setc_state rc Running)
  \/ (exists ok, o = OKill c (c_cons rc) ok /\ c_mod rc = 0 /\ c_rep rc = true
      /\ rc' = setc_state rc Completed)
  \/ (exists provs cap timeout freq total ok,
        o = OUpdateCtx c (c_cons rc) provs cap timeout freq total ok /\ c_mod rc = 0
        /\ c_state rc <> Completed /\ terms_only rc rc')
  \/ (exists r who code out ov ok q,
        o = ORespond r who code out ov ok /\ rid_ctx r = c /\ get r (reqs s) = Some q
        /\ batch_only rc rc')
  \/ (exists provs thr cap timeout freq total,
        o = OModUpdate c (c_cons rc) provs thr cap timeout freq total /\ c_mod rc <> 0
        /\ c_state rc <> Completed /\ terms_thr_only rc rc'
        /\ c_thr rc' = new_thr rc thr
        /\ (if thr =? 0 then c_thr rc else thr)
            <= len (match provs with [] => c_provs rc | _ => provs end))
  \/ (o = OModPause c (c_cons rc) /\ c_mod rc <> 0 /\ c_rep rc = true
      /\ c_state rc = Running /\ rc' = setc_state rc Paused)
  \/ (o = OModStart c (c_cons rc) /\ c_mod rc <> 0
      /\ c_state rc = Paused /\ rc' = setc_state rc Running)
  \/ (o = OModKill c (c_cons rc) /\ c_mod rc <> 0 /\ c_rep rc = true
      /\ rc' = setc_state rc Completed).
Proof.
  intros Hcfg HI Hwf Hne H Erc Erc' Hd.
  destruct (msg_ctx_change _ _ _ _ _ _ _ Hcfg HI Hwf Hne H Erc Erc')
    as [E|who ok -> -> Hm Hrep Hr ->|who ok -> -> Hm Hp ->|who ok -> -> Hm Hrep ->
        |who provs cap timeout freq total ok capo -> -> Hm Hst ->
        |r who code out ov ok q -> Hc Hq Hrc'
        |who provs thr cap timeout freq total capo -> -> Hm Hst Hthr ->
        |who -> -> Hm Hrep Hr ->|who -> -> Hm Hp ->|who -> -> Hm Hrep ->].
  - contradiction.
  - left. eauto 10.
  - right; left. eauto 10.
  - right; right; left. eauto 10.
  - right; right; right; left. exists provs, cap, timeout, freq, total, ok.
    repeat split; try assumption;
      pose proof (upd_ctx_fixed rc provs capo timeout freq total) as Hf; cbv zeta in Hf; tauto.
  - right; right; right; right; left. exists r, who, code, out, ov, ok, q.
    repeat split; try assumption. unfold batch_only.
    destruct Hrc' as [->| ->]; destruct rc; reflexivity.
  - do 5 right; left. exists provs, thr, cap, timeout, freq, total.
    pose proof (upd_thr_fixed rc (if thr =? 0 then c_thr rc else thr) provs capo timeout freq total) as Hf.
    cbv zeta in Hf. unfold terms_thr_only, new_thr. repeat split; try assumption; tauto.
  - do 6 right; left. auto 10.
  - do 7 right; left. auto 10.
  - do 8 right. auto 10.
Qed.

Theorem C09_completed_final_msg cfg s o s' c rc rc' :
  wf_cfg cfg -> Inv cfg s -> wf_op s o -> (forall dt, o <> OEndBlock dt) ->
  handle cfg s o = Ok s' ->
  get c (ctxs s) = Some rc -> get c (ctxs s') = Some rc' -> c_state rc = Completed ->
  c_state rc' = Completed /\ c_provs rc' = c_provs rc /\ c_cap rc' = c_cap rc
  /\ c_timeout rc' = c_timeout rc /\ c_freq rc' = c_freq rc /\ c_total rc' = c_total rc
  /\ c_counter rc' = c_counter rc.
Proof.
  intros Hcfg HI Hwf Hne H Erc Erc' Hc.
  destruct (msg_ctx_change _ _ _ _ _ _ _ Hcfg HI Hwf Hne H Erc Erc')
    as [->|who ok _ _ _ _ Hr _|who ok _ _ _ Hp _|who ok _ _ _ _ ->
        |who provs cap timeout freq total ok capo _ _ _ Hst _
        |r who code out ov ok q _ _ _ [->| ->]
        |who provs thr cap timeout freq total capo _ _ _ Hst _ _
        |who _ _ _ _ Hr _|who _ _ _ Hp _|who _ _ _ _ ->];
    try congruence; cbn; auto 10.
Qed.

(* ------------------------------------------------------------------ *)
(* C10: batch counter *)

(* invariant-level facts (one state) *)
Theorem C10_oneshot cfg s c rc : Inv cfg s -> get c (ctxs s) = Some rc -> c_rep rc = false ->
  (c_counter rc = 0 /\ has c (expq_h s) = false)
  \/ (c_counter rc = 1 /\ c_state rc = Running /\ has c (expq_h s) = true).
Proof.
  intros HI Erc Hr. destruct (I_ctx_get _ _ _ _ (inv_ctx _ _ HI) Erc) as (Hok & _).
  unfold ctx_ok in Hok. tauto.
Qed.

Theorem C10_total_bound cfg s c rc : Inv cfg s -> get c (ctxs s) = Some rc ->
  c_rep rc = true -> 0 < c_total rc -> 0 <= c_counter rc <= c_total rc.
Proof.
  intros HI Erc Hr Ht. destruct (I_ctx_get _ _ _ _ (inv_ctx _ _ HI) Erc) as (Hok & _).
  unfold ctx_ok in Hok. split; [tauto|]. apply Hok; assumption.
Qed.

(* messages never change a batch counter *)
Theorem C10_counter_msg cfg s o s' c rc rc' :
  wf_cfg cfg -> Inv cfg s -> wf_op s o -> (forall dt, o <> OEndBlock dt) ->
  handle cfg s o = Ok s' ->
  get c (ctxs s) = Some rc -> get c (ctxs s') = Some rc' -> c_counter rc' = c_counter rc.
Proof.
  intros Hcfg HI Hwf Hne H Erc Erc'.
  destruct (msg_ctx_change _ _ _ _ _ _ _ Hcfg HI Hwf Hne H Erc Erc')
    as [->|who ok _ _ _ _ _ ->|who ok _ _ _ _ ->|who ok _ _ _ _ ->
        |who provs cap timeout freq total ok capo _ _ _ _ ->|r who code out ov ok q _ _ _ [->| ->]
        |who provs thr cap timeout freq total capo _ _ _ _ _ ->
        |who _ _ _ _ _ ->|who _ _ _ _ ->|who _ _ _ _ ->];
    try reflexivity.
  - pose proof (upd_ctx_fixed rc provs capo timeout freq total) as Hf. cbv zeta in Hf. tauto.
  - pose proof (upd_thr_fixed rc (if thr =? 0 then c_thr rc else thr) provs capo timeout freq total) as Hf.
    cbv zeta in Hf. tauto.
Qed.

(* the expiry handler never changes a batch counter; a one-shot context whose
   batch expires is removed *)
Theorem C10_counter_expire_one cfg s c c' rc rc' :
  wf_cfg cfg -> Inv cfg s -> In (height s, c) (expq s) -> height s < HEIGHT_BOUND ->
  get c' (ctxs s) = Some rc -> get c' (ctxs (expire_one cfg s c)) = Some rc' ->
  c_counter rc' = c_counter rc.
Proof.
  intros Hcfg HI Hdue Hb Erc Erc'.
  destruct (expire_one_spec cfg s c Hcfg HI Hdue Hb)
    as (rc0 & rc1 & Erc0 & Ee & En & Hrc1 & Ht & Q1 & Q2 & Ee' & Hcase).
  destruct (eqb_spec c' c) as [->|Hn].
  - assert (rc0 = rc) by congruence. subst rc0.
    assert (rc' = rc1).
    { destruct Hcase as [(Ex & _)|[(Ex & _)|(Ex & _)]]; congruence. }
    subst rc'. destruct Hrc1 as [->|[_ ->]]; reflexivity.
  - rewrite (t_ctxs _ _ _ Ht) in Erc' by assumption. congruence.
Qed.

Theorem C10_oneshot_expire_one cfg s c rc :
  wf_cfg cfg -> Inv cfg s -> In (height s, c) (expq s) -> height s < HEIGHT_BOUND ->
  get c (ctxs s) = Some rc -> c_rep rc = false ->
  get c (ctxs (expire_one cfg s c)) = None
  /\ has c (expq_h (expire_one cfg s c)) = false /\ has c (newq_h (expire_one cfg s c)) = false.
Proof.
  intros Hcfg HI Hdue Hb Erc Hrep.
  destruct (expire_one_spec cfg s c Hcfg HI Hdue Hb)
    as (rc0 & rc1 & Erc0 & Ee & En & Hrc1 & Ht & Q1 & Q2 & Ee' & Hcase).
  assert (rc0 = rc) by congruence. subst rc0.
  destruct (C10_oneshot _ _ _ _ HI Erc Hrep) as [(_ & Hx)|(_ & Hr & _)].
  { rewrite (has_of_get _ _ _ Ee) in Hx. discriminate. }
  rewrite !has_false.
  destruct Hcase as [(Ex & En' & _)|[(_ & _ & _ & Hm)|(_ & _ & Hp)]].
  - auto.
  - apply more_rep in Hm. congruence.
  - congruence.
Qed.

(* the new-batch handler: the counter of c stays or grows by exactly one, and it
   grows only for a running context whose total is not reached *)
Theorem C10_total_bound_new_one cfg s c c' rc rc' :
  wf_cfg cfg -> Inv cfg s -> In (height s, c) (newq s) -> height s < HEIGHT_BOUND ->
  get c' (ctxs s) = Some rc -> get c' (ctxs (new_one cfg s c)) = Some rc' ->
  c_counter rc' = c_counter rc
  \/ (c' = c /\ c_counter rc' = c_counter rc + 1 /\ c_state rc = Running
      /\ (c_rep rc = true -> 0 < c_total rc -> c_counter rc < c_total rc)
      /\ get c (expq_h (new_one cfg s c)) = Some (height s + c_timeout rc)).
Proof.
  intros Hcfg HI Hdue Hb Erc Erc'.
  destruct (new_one_spec cfg s c HI Hdue)
    as (rc0 & Erc0 & En & Ee & Ht & Q1 & Q2 & En' & Hcase).
  destruct (eqb_spec c' c) as [->|Hn].
  - assert (rc0 = rc) by congruence. subst rc0.
    destruct Hcase as [(_ & Ex & _)|[(Hd & Hr & Ee' & n & Ex)|[(_ & _ & _ & Ex)|(_ & _ & Ex)]]];
      rewrite Ex in Erc'; try discriminate; injection Erc' as <-; try (left; reflexivity).
    right. split; [reflexivity|]. split; [reflexivity|]. split; [exact Hr|]. split; [|exact Ee'].
    intros Hrep Htot. unfold d5 in Hd. apply is_state_true in Hr. rewrite Hr, Hrep in Hd.
    cbn [andb] in Hd. destruct (0 <? c_total rc) eqn:E1; b2p; [|lia]. cbn [andb] in Hd. b2p. lia.
  - rewrite (t_ctxs _ _ _ Ht) in Erc' by assumption. left. congruence.
Qed.

Theorem C10_oneshot_new_one cfg s c rc rc' :
  wf_cfg cfg -> Inv cfg s -> In (height s, c) (newq s) -> height s < HEIGHT_BOUND ->
  get c (ctxs s) = Some rc -> get c (ctxs (new_one cfg s c)) = Some rc' ->
  c_rep rc = false -> c_counter rc' <> c_counter rc ->
  c_counter rc = 0 /\ c_counter rc' = 1 /\ has c (expq_h (new_one cfg s c)) = true.
Proof.
  intros Hcfg HI Hdue Hb Erc Erc' Hrep Hd.
  destruct (C10_total_bound_new_one _ _ _ _ _ _ Hcfg HI Hdue Hb Erc Erc')
    as [E|(_ & E & _ & _ & Ee')]; [contradiction|].
  destruct (due_new _ _ _ HI Hdue) as (rc0 & _ & _ & Ee).
  destruct (C10_oneshot _ _ _ _ HI Erc Hrep) as [(Hc & _)|(_ & _ & Hx)].
  - split; [exact Hc|]. split; [lia|]. eapply has_of_get; eauto.
  - apply has_false in Ee. congruence.
Qed.

(* batches of one context never overlap: the counter of a context grows only when
   it has no pending expiry entry (and no other context's counter changes) *)
Theorem C10_no_overlap cfg s c c' rc rc' :
  wf_cfg cfg -> Inv cfg s -> In (height s, c) (newq s) -> height s < HEIGHT_BOUND ->
  get c' (ctxs s) = Some rc -> get c' (ctxs (new_one cfg s c)) = Some rc' ->
  c_counter rc' <> c_counter rc ->
  c' = c /\ has c (expq_h s) = false /\ c_bdone rc = true.
Proof.
  intros Hcfg HI Hdue Hb Erc Erc' Hd.
  destruct (C10_total_bound_new_one _ _ _ _ _ _ Hcfg HI Hdue Hb Erc Erc')
    as [E|(-> & _)]; [contradiction|].
  destruct (due_new _ _ _ HI Hdue) as (rc0 & _ & _ & Ee).
  apply has_false in Ee. split; [reflexivity|]. split; [exact Ee|].
  destruct (inv_req _ _ HI) as (_ & _ & R3). apply (R3 c rc Erc). exact Ee.
Qed.

(* ------------------------------------------------------------------ *)
(* C11: exact effect of pause and start on the two queues *)

Theorem C11_pause_spec s c who ok s' : h_pause s c who ok = Ok s' ->
  expq s' = expq s /\ expq_h s' = expq_h s /\ newq s' = newq s /\ newq_h s' = newq_h s.
Proof.
  intros H. apply h_pause_spec in H. destruct H as (rc & _ & _ & _ & _ & _ & ->). auto.
Qed.

Theorem C11_pause_start_spec s c who ok s' : h_start s c who ok = Ok s' ->
  expq s' = expq s /\ expq_h s' = expq_h s
  /\ (   (has c (expq_h s) = false /\ has c (newq_h s) = false
          /\ newq s' = ladd (height s, c) (newq s) /\ newq_h s' = set c (height s) (newq_h s))
      \/ ((has c (expq_h s) = true \/ has c (newq_h s) = true)
          /\ newq s' = newq s /\ newq_h s' = newq_h s)).
Proof.
  intros H. apply h_start_spec in H. destruct H as (rc & _ & _ & _ & _ & ->). unfold started.
  destruct (has c (expq_h s)), (has c (newq_h s)); cbn [negb andb]; sproj; auto 10.
Qed.

(* the same, as membership: a new-batch entry at the current height iff neither pointer existed *)
Theorem C11_start_newq s c who ok s' : h_start s c who ok = Ok s' ->
  forall h c', In (h, c') (newq s') <->
    (In (h, c') (newq s)
     \/ (c' = c /\ h = height s /\ has c (expq_h s) = false /\ has c (newq_h s) = false)).
Proof.
  intros H h c'. destruct (C11_pause_start_spec _ _ _ _ _ H) as (_ & _ & [(He & Hn & -> & _)|(Hx & -> & _)]).
  - rewrite In_ladd. split.
    + intros [E|Hin]; [injection E as -> ->; auto|auto].
    + intros [Hin|(-> & -> & _)]; auto.
  - split; [auto|]. intros [Hin|(_ & _ & He & Hn)]; [exact Hin|].
    destruct Hx; congruence.
Qed.

(* the same three statements for the keeper API driven by the owning module *)
Theorem C11_mod_pause_spec s c who s' : h_mod_pause s c who = Ok s' ->
  expq s' = expq s /\ expq_h s' = expq_h s /\ newq s' = newq s /\ newq_h s' = newq_h s.
Proof.
  intros H. apply h_mod_pause_spec in H. destruct H as (rc & _ & _ & _ & _ & ->). auto.
Qed.

Theorem C11_mod_start_spec s c who s' : h_mod_start s c who = Ok s' ->
  expq s' = expq s /\ expq_h s' = expq_h s
  /\ (   (has c (expq_h s) = false /\ has c (newq_h s) = false
          /\ newq s' = ladd (height s, c) (newq s) /\ newq_h s' = set c (height s) (newq_h s))
      \/ ((has c (expq_h s) = true \/ has c (newq_h s) = true)
          /\ newq s' = newq s /\ newq_h s' = newq_h s)).
Proof.
  intros H. apply h_mod_start_spec in H. destruct H as (rc & _ & _ & _ & ->). unfold started.
  destruct (has c (expq_h s)), (has c (newq_h s)); cbn [negb andb]; sproj; auto 10.
Qed.

Theorem C11_mod_start_newq s c who s' : h_mod_start s c who = Ok s' ->
  forall h c', In (h, c') (newq s') <->
    (In (h, c') (newq s)
     \/ (c' = c /\ h = height s /\ has c (expq_h s) = false /\ has c (newq_h s) = false)).
Proof.
  intros H h c'. destruct (C11_mod_start_spec _ _ _ _ H) as (_ & _ & [(He & Hn & -> & _)|(Hx & -> & _)]).
  - rewrite In_ladd. split.
    + intros [E|Hin]; [injection E as -> ->; auto|auto].
    + intros [Hin|(-> & -> & _)]; auto.
  - split; [auto|]. intros [Hin|(_ & _ & He & Hn)]; [exact Hin|].
    destruct Hx; congruence.
Qed.

(* ------------------------------------------------------------------ *)
(* Examples: the hypotheses of the theorems above are satisfiable on a concrete
   reachable history (define, bind, repeated call, EndBlock issuing a batch,
   response, expiry, pause/start, kill, update); everything by computation.
   `Reach cfg s` stands for `Inv cfg s` (Reach -> Inv is the lead's theorem). *)

Fixpoint wf_ops (cfg : Params) (s : State) (ops : list Op) : Prop :=
  match ops with
  | [] => True
  | o :: t => wf_op s o /\ wf_ops cfg (fst (step cfg s o)) t
  end.

Lemma Reach_run cfg s ops : Reach cfg s -> wf_ops cfg s ops -> Reach cfg (run cfg s ops).
Proof.
  revert s. induction ops as [|o t IH]; intros s Hr Hw; [exact Hr|].
  destruct Hw as [Ho Ht]. apply (IH (fst (step cfg s o))); [now constructor|exact Ht].
Qed.

Module Ex.
  Definition cfg0 : Params := mkParams 100 2 10 0 0 0 0 99 77.
  Definition c0 : CtxId := (1, 0).
  Definition s_init : State := init 1 0 [(2, 1000); (7, 1000)].
  Definition ops_run : list Op :=
    [ODefine 5 1 true; OBind 5 10 (CBase 100) (Some (mkRaw 10 [] [])) 5 7 true;
     OCall c0 5 [10] 2 0 (CBase 50) 5 false true 10 3 true true].
  Definition ops_b : list Op := ops_run ++ [OEndBlock 1].
  Definition ops_e : list Op := ops_b ++ [OEndBlock 1; OEndBlock 1; OEndBlock 1; OEndBlock 1].
  Definition ops_pi : list Op := ops_run ++ [OPause c0 2 true; OEndBlock 1].
  Definition ops_k : list Op := ops_b ++ [OKill c0 2 true].
  (* height 1: repeated context running, new-batch entry due *)
  Definition s_run : State := run cfg0 s_init ops_run.
  (* height 2: batch 1 in flight (one request, expiry entry at 6) *)
  Definition s_b : State := run cfg0 s_init ops_b.
  (* height 6: the expiry entry is due *)
  Definition s_e : State := run cfg0 s_init ops_e.
  (* height 2: paused, no entry in either queue *)
  Definition s_pi : State := run cfg0 s_init ops_pi.
  (* height 2: killed (completed) with batch 1 in flight *)
  Definition s_k : State := run cfg0 s_init ops_k.

  Ltac comp := vm_compute; repeat split; try reflexivity; try discriminate;
               try (intuition discriminate).

  Example wf_cfg0 : wf_cfg cfg0.
  Proof. comp. Qed.

  Lemma reach_init : Reach cfg0 s_init.
  Proof. apply Reach_init; [lia|lia|]. intros a v [E|[E|[]]]; injection E as <- <-; lia. Qed.

  Example reach_run : Reach cfg0 s_run.
  Proof. apply Reach_run; [exact reach_init|comp]. Qed.
  Example reach_b : Reach cfg0 s_b.
  Proof. apply Reach_run; [exact reach_init|comp]. Qed.
  Example reach_e : Reach cfg0 s_e.
  Proof. apply Reach_run; [exact reach_init|comp]. Qed.
  Example reach_pi : Reach cfg0 s_pi.
  Proof. apply Reach_run; [exact reach_init|comp]. Qed.
  Example reach_k : Reach cfg0 s_k.
  Proof. apply Reach_run; [exact reach_init|comp]. Qed.

  (* hypotheses of msg_ctx_change / C09_static_msg / C09_transition_msg / C10_counter_msg
     for an operation that really changes the record of c *)
  Definition msg_hyps (s : State) (o : Op) (c : CtxId) : Prop :=
    wf_cfg cfg0 /\ Reach cfg0 s /\ wf_op s o /\ (forall dt, o <> OEndBlock dt)
    /\ exists s' rc rc', handle cfg0 s o = Ok s' /\ get c (ctxs s) = Some rc
         /\ get c (ctxs s') = Some rc' /\ rc' <> rc.

  Ltac msg_ex Hreach :=
    split; [exact wf_cfg0|]; split; [exact Hreach|]; split; [comp|];
    split; [intros; discriminate|];
    eexists; eexists; eexists;
    split; [vm_compute; reflexivity|]; split; [vm_compute; reflexivity|];
    split; [vm_compute; reflexivity|discriminate].

  Example C09_transition_msg_ex_pause : msg_hyps s_run (OPause c0 2 true) c0.
  Proof. msg_ex reach_run. Qed.
  Example C09_transition_msg_ex_start : msg_hyps s_pi (OStart c0 2 true) c0.
  Proof. msg_ex reach_pi. Qed.
  Example C09_transition_msg_ex_kill : msg_hyps s_b (OKill c0 2 true) c0.
  Proof. msg_ex reach_b. Qed.
  Example C09_transition_msg_ex_update :
    msg_hyps s_b (OUpdateCtx c0 2 [] (CBase 60) 0 20 5 true) c0.
  Proof. msg_ex reach_b. Qed.
  Example C09_transition_msg_ex_respond :
    msg_hyps s_b (ORespond (c0, 1, 1, 0) 10 200 1 true true) c0.
  Proof. msg_ex reach_b. Qed.

  (* the same context created by the module 77 (threshold 1, two providers named), driven by it *)
  Definition ops_mrun : list Op :=
    [ODefine 5 1 true; OBind 5 10 (CBase 100) (Some (mkRaw 10 [] [])) 5 7 true;
     OModCall c0 5 [10; 11] 2 0 (CBase 50) 5 false true 10 3 1 77 true].
  Definition s_mrun : State := run cfg0 s_init ops_mrun.
  Definition s_mpi : State := run cfg0 s_init (ops_mrun ++ [OModPause c0 2; OEndBlock 1]).
  Definition s_mb : State := run cfg0 s_init (ops_mrun ++ [OEndBlock 1]).

  Ltac comp_own := vm_compute; repeat split; try reflexivity; try discriminate;
                   try (intuition discriminate);
                   try (let rc := fresh in let E := fresh in intros rc E; injection E as <-; discriminate).

  Example reach_mrun : Reach cfg0 s_mrun.
  Proof. apply Reach_run; [exact reach_init|comp]. Qed.
  Example reach_mpi : Reach cfg0 s_mpi.
  Proof. apply Reach_run; [exact reach_init|comp_own]. Qed.
  Example reach_mb : Reach cfg0 s_mb.
  Proof. apply Reach_run; [exact reach_init|comp]. Qed.

  Ltac mod_ex Hreach :=
    split; [exact wf_cfg0|]; split; [exact Hreach|]; split; [comp_own|];
    split; [intros; discriminate|];
    eexists; eexists; eexists;
    split; [vm_compute; reflexivity|]; split; [vm_compute; reflexivity|];
    split; [vm_compute; reflexivity|discriminate].

  Example C09_transition_msg_ex_mod_pause : msg_hyps s_mrun (OModPause c0 2) c0.
  Proof. mod_ex reach_mrun. Qed.
  Example C09_transition_msg_ex_mod_start : msg_hyps s_mpi (OModStart c0 2) c0.
  Proof. mod_ex reach_mpi. Qed.
  Example C09_transition_msg_ex_mod_kill : msg_hyps s_mb (OModKill c0 2) c0.
  Proof. mod_ex reach_mb. Qed.
  (* the threshold goes from 1 to 2 while batch 1 (recorded threshold 1) is in flight *)
  Example C09_transition_msg_ex_mod_update :
    msg_hyps s_mb (OModUpdate c0 2 [] 2 CEmpty 0 0 0) c0.
  Proof. mod_ex reach_mb. Qed.
  Example C09_mod_update_thr_ex :
    exists s' rc', handle cfg0 s_mb (OModUpdate c0 2 [] 2 CEmpty 0 0 0) = Ok s'
      /\ get c0 (ctxs s') = Some rc' /\ c_thr rc' = 2 /\ c_bthr rc' = 1.
  Proof. eexists; eexists. split; [vm_compute; reflexivity|]. split; [vm_compute; reflexivity|]. split; reflexivity. Qed.
  (* a message cannot do that to a module context *)
  Example C09_msg_refused_on_module_ctx :
    handle cfg0 s_mb (OPause c0 2 true) = Err
    /\ handle cfg0 s_mb (OUpdateCtx c0 2 [] CEmpty 0 20 0 true) = Err.
  Proof. split; vm_compute; reflexivity. Qed.

  (* C09_completed_final_msg: a killed context with a batch in flight is answered *)
  Example C09_completed_final_msg_ex :
    let o := ORespond (c0, 1, 1, 0) 10 200 1 true true in
    wf_cfg cfg0 /\ Reach cfg0 s_k /\ wf_op s_k o /\ (forall dt, o <> OEndBlock dt)
    /\ exists s' rc rc', handle cfg0 s_k o = Ok s' /\ get c0 (ctxs s_k) = Some rc
         /\ get c0 (ctxs s') = Some rc' /\ c_state rc = Completed /\ rc' <> rc.
  Proof.
    split; [exact wf_cfg0|]. split; [exact reach_k|]. split; [comp|].
    split; [intros; discriminate|]. eexists; eexists; eexists.
    split; [vm_compute; reflexivity|]. split; [vm_compute; reflexivity|].
    split; [vm_compute; reflexivity|]. split; [reflexivity|discriminate].
  Qed.

  (* hypotheses of the expire_one theorems (I_X_expire_one, fold support,
     C09_static_expire_one, C10_counter_expire_one): the context is requeued *)
  Example expire_one_hyps_ex :
    wf_cfg cfg0 /\ Reach cfg0 s_e /\ In (height s_e, c0) (expq s_e) /\ height s_e < HEIGHT_BOUND
    /\ exists rc rc', get c0 (ctxs s_e) = Some rc
         /\ get c0 (ctxs (expire_one cfg0 s_e c0)) = Some rc'
         /\ newq (expire_one cfg0 s_e c0) = [(11, c0)] /\ expq (expire_one cfg0 s_e c0) = [].
  Proof.
    split; [exact wf_cfg0|]. split; [exact reach_e|]. split; [vm_compute; auto|].
    split; [reflexivity|]. eexists; eexists.
    split; [vm_compute; reflexivity|]. split; [vm_compute; reflexivity|].
    split; vm_compute; reflexivity.
  Qed.

  (* hypotheses of the new_one theorems (I_X_new_one, fold support, C09_static_new_one,
     C10_total_bound_new_one, C10_no_overlap): the counter really grows *)
  Example new_one_hyps_ex :
    wf_cfg cfg0 /\ Reach cfg0 s_run /\ In (height s_run, c0) (newq s_run)
    /\ height s_run < HEIGHT_BOUND
    /\ exists rc rc', get c0 (ctxs s_run) = Some rc
         /\ get c0 (ctxs (new_one cfg0 s_run c0)) = Some rc'
         /\ c_counter rc' <> c_counter rc
         /\ expq (new_one cfg0 s_run c0) = [(6, c0)] /\ newq (new_one cfg0 s_run c0) = [].
  Proof.
    split; [exact wf_cfg0|]. split; [exact reach_run|]. split; [vm_compute; auto|].
    split; [reflexivity|]. eexists; eexists.
    split; [vm_compute; reflexivity|]. split; [vm_compute; reflexivity|].
    split; [vm_compute; discriminate|]. split; vm_compute; reflexivity.
  Qed.

  (* C11_pause_start_spec: both branches occur *)
  Example C11_pause_start_spec_ex_idle :
    exists s', h_start s_pi c0 2 true = Ok s'
      /\ has c0 (expq_h s_pi) = false /\ has c0 (newq_h s_pi) = false
      /\ newq s' = [(height s_pi, c0)].
  Proof. eexists. split; [vm_compute; reflexivity|]. repeat split. Qed.

  Example C11_pause_start_spec_ex_pending :
    let s := run cfg0 s_b [OPause c0 2 true] in
    exists s', h_start s c0 2 true = Ok s'
      /\ has c0 (expq_h s) = true /\ newq s' = newq s /\ expq s' = expq s.
  Proof. eexists. split; [vm_compute; reflexivity|]. repeat split. Qed.

  Example C11_pause_spec_ex : exists s', h_pause s_run c0 2 true = Ok s'.
  Proof. eexists. vm_compute. reflexivity. Qed.
End Ex.
