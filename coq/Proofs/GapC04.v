(* Gap closing for C04:
     * which operations can append events that mention a request at all: only EndBlock and an
       accepted response to that very request; a slash event in particular comes from EndBlock
       or from a response with a non-empty schema-invalid output, and then carries the binding
       (service of the context, responding provider) and the fraction of its deposit;
     * the expiry loop packaged for a reachable state and a due context: every active request
       of the open batch gets its EvExpire and, outside super mode, its slash and refund. *)
From Coq Require Import List ZArith Bool Lia.
From SVC Require Import Base.AMap Base.Res Base.Dec Model.Types Model.Pricing
  Model.Handlers Model.EndBlock Model.Step Proofs.Inv Proofs.Lemmas Proofs.ReqLemmas
  Proofs.CtxOps Proofs.InvEscrow Proofs.InvReq Proofs.InvAll Proofs.StepSpecs_deposit
  Proofs.TraceLemmas Proofs.TraceSettle Proofs.GapC02 Proofs.GapC02b.
Import ListNotations.
Open Scope Z_scope.

(* messages other than a response append only events that mention no request *)
Lemma other_msg_quiet cfg s o s' :
  handle cfg s o = Ok s' -> (forall dt, o <> OEndBlock dt) ->
  (forall r w c out v ok, o <> ORespond r w c out v ok) -> Q s s'.
Proof.
  intros H Hne Hnr.
  destruct o;
    try (eapply msg_Q; [exact H|reflexivity]);
    try (exact (proj1 (ctxmsg_Q _ _ _ _ H I))).
  - exfalso. eapply Hnr. reflexivity.
  - exfalso. eapply Hne. reflexivity.
Qed.

(* an event about request r appended by a step: EndBlock, or an accepted response to r *)
Theorem request_events_only_by cfg s o s' d e r :
  handle cfg s o = Ok s' -> log s' = d ++ log s -> In e d -> ev_rid e = Some r ->
  (exists dt, o = OEndBlock dt) \/ (exists w c out v, o = ORespond r w c out v true).
Proof.
  intros H El Hin Hr.
  destruct o; try (left; eexists; reflexivity);
    try (exfalso;
         assert (Hq : Q s s') by (eapply other_msg_quiet; [exact H|discriminate|discriminate]);
         destruct Hq as (d' & El' & Hd'); rewrite El in El'; apply app_inv_tail in El'; subst d';
         rewrite Forall_forall in Hd'; specialize (Hd' e Hin); unfold quiet in Hd'; congruence).
  right. cbn [handle] in H. apply respond_effect in H.
  destruct H as (q & rc & dq & -> & _ & _ & _ & _ & Hdq & H).
  assert (Hcase : forall ev3, log s' = dq ++ ev3 ++ log s -> Forall (fun x => ev_rid x = Some r0) ev3 -> r = r0).
  { intros ev3 E3 F3. rewrite El, app_assoc in E3. apply app_inv_tail in E3. subst d.
    apply in_app_or in Hin. destruct Hin as [Hin|Hin].
    - rewrite Forall_forall in Hdq. specialize (Hdq e Hin). unfold quiet in Hdq. congruence.
    - rewrite Forall_forall in F3. specialize (F3 e Hin). congruence. }
  destruct (negb (out =? 0) && negb out_valid).
  - destruct H as (sa & b & _ & _ & E3 & _). rewrite (Hcase _ E3); [eauto|repeat constructor].
  - destruct H as (E3 & _). rewrite (Hcase _ E3); [eauto|repeat constructor].
Qed.

(* "never for any other reason", per step *)
Theorem only_respond_and_endblock_slash cfg s o s' d r k amt :
  handle cfg s o = Ok s' -> log s' = d ++ log s -> In (EvSlash r k amt) d ->
  (exists dt, o = OEndBlock dt)
  \/ (exists w c out q rc,
        o = ORespond r w c out false true /\ out <> 0
        /\ get r (reqs s) = Some q /\ get (rid_ctx r) (ctxs s) = Some rc /\ w = r_prov q
        /\ k = (c_svc rc, w) /\ amt = mul_trunc (dep_at s k) (p_slash cfg)).
Proof.
  intros H El Hin.
  destruct (request_events_only_by cfg s o s' d _ r H El Hin eq_refl) as [Hl|(w & c & out & v & ->)];
    [now left|right].
  destruct (respond_slash_iff cfg s r w c out v true s' H) as (d' & El' & Hd').
  rewrite El in El'. apply app_inv_tail in El'. subst d'.
  assert (Hf : In (EvSlash r k amt) (filter is_any_slash d)) by (apply filter_In; auto).
  destruct (negb (out =? 0) && negb v) eqn:E.
  - apply andb_prop in E. destruct E as (E1 & E2). b2p. subst v.
    destruct Hd' as (sa & q & rc & _ & Gq & Grc & Hw & _ & Ef & _).
    rewrite Ef in Hf. destruct Hf as [Hf|[]]. injection Hf as <- <-. subst w.
    exists (r_prov q), c, out, q, rc. repeat split; auto.
  - destruct Hd' as (Ef & _). rewrite Ef in Hf. destruct Hf.
Qed.

(* the expiry loop of one due context of a reachable state *)
Theorem expire_one_events cfg s c rc :
  wf_cfg cfg -> Reach cfg s -> In (height s, c) (expq s) ->
  get c (ctxs s) = Some rc -> c_bdone rc = false ->
  forall r, In r (active_rids s c (c_counter rc)) ->
    exists q, get r (reqs s) = Some q /\ r_active q = true /\ rid_ctx r = c /\ r_exp q = height s
      /\ In (EvExpire r) (log (expire_one cfg s c))
      /\ (c_super rc = false ->
            In (EvRefund r (c_cons rc) (r_fee q)) (log (expire_one cfg s c))
            /\ exists amt, In (EvSlash r (c_svc rc, r_prov q) amt) (log (expire_one cfg s c))).
Proof.
  intros Hcfg HR Hdue Grc Hbd r Hr.
  pose proof (Reach_Inv cfg s Hcfg HR) as HI. pose proof (Reach_T cfg s Hcfg HR) as HT.
  pose proof (inv_wf _ _ HI) as Hwf. assert (Hwr : wf (reqs s)) by apply Hwf.
  destruct (inv_req _ _ HI) as (R1 & _).
  assert (Hall : forall r', In r' (active_rids s c (c_counter rc)) ->
            exists q' rc', get r' (reqs s) = Some q' /\ r_active q' = true
              /\ get (rid_ctx r') (ctxs s) = Some rc' /\ (c_super rc' = true -> r_fee q' = 0)
              /\ has (c_svc rc', r_prov q') (binds s) = true).
  { intros r' Hr'. apply In_active_rids in Hr'; [|assumption].
    destruct Hr' as (q' & G' & _ & _ & Ha'). exists q'.
    destruct (R1 _ _ (get_In _ _ _ G')) as (rc' & G2 & _ & _ & _ & _ & _ & _ & Hb' & Hs').
    exists rc'. repeat split; assumption. }
  pose proof Hr as Hr0. apply In_active_rids in Hr0; [|assumption].
  destruct Hr0 as (q & G & Hc & _ & Ha). exists q.
  assert (Grc' : get (rid_ctx r) (ctxs s) = Some rc) by now rewrite Hc.
  destruct (active_req_facts cfg s r q rc HI G Ha Grc') as (_ & _ & _ & _ & _ & Ge).
  destruct (due_ctx _ _ _ HI Hdue) as (rc2 & _ & Gexp). rewrite Hc, Gexp in Ge. injection Ge as Ge.
  pose proof (fold_expire_hits cfg _ s r q rc Hcfg (NoDup_active_rids s c (c_counter rc) Hwr)
                (Inv_LI cfg s HI HT) Hall Hr G Grc') as (Hexp & Hsl).
  pose proof (expire_one_log_from cfg s c rc Grc Hbd) as Hincl.
  split; [exact G|]. split; [exact Ha|]. split; [exact Hc|]. split; [symmetry; exact Ge|].
  split; [apply Hincl, Hexp|].
  intros Es. destruct (Hsl Es) as (Hrf & amt & Hs1). split; [apply Hincl, Hrf|].
  exists amt. apply Hincl, Hs1.
Qed.
