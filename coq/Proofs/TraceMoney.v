(* Trace theorems, part 3 (C02_only_events_move_money): the balances move exactly as the
   ledger events of the step say.  Every event has a fixed effect on the balances
   (ev_delta); for every operation except OTransfer (a plain bank send between users,
   outside the module, which emits no event) the balances after the step are the balances
   before plus the effects of the events the step appended to the log.
   Needs no invariant: it holds for every state and every successful step. *)
From Coq Require Import List ZArith Bool Lia.
From SVC Require Import Base.AMap Base.Res Base.Dec Model.Types Model.Pricing
  Model.Handlers Model.EndBlock Model.Step Proofs.Inv Proofs.Lemmas Proofs.ReqLemmas
  Proofs.CtxOps Proofs.TraceLemmas Proofs.TraceSettle Proofs.WdLemmas.
Import ListNotations.
Open Scope Z_scope.

Definition into (a x : Acct) (amt : Z) : Z := if eqb x a then amt else 0.

(* the effect of one event on the balance of account x *)
Definition ev_delta (e : Event) (x : Acct) : Z :=
  match e with
  | EvDebit _ cns amt => into Escrow x amt - into (User cns) x amt
  | EvTax _ amt => into FeeColl x amt - into Escrow x amt
  | EvRefund _ cns amt => into (User cns) x amt - into Escrow x amt
  | EvSlash _ _ amt => - into Deposit x amt
  | EvWithdraw _ dest amt => into (User dest) x amt - into Escrow x amt
  | EvDepositIn _ owner amt => into Deposit x amt - into (User owner) x amt
  | EvDepositOut _ owner amt => into (User owner) x amt - into Deposit x amt
  | _ => 0
  end.

Definition evs_delta (d : list Event) (x : Acct) : Z := fold_right (fun e z => ev_delta e x + z) 0 d.

Lemma evs_delta_cons e d x : evs_delta (e :: d) x = ev_delta e x + evs_delta d x.
Proof. reflexivity. Qed.

Lemma evs_delta_app d1 d2 x : evs_delta (d1 ++ d2) x = evs_delta d1 x + evs_delta d2 x.
Proof. induction d1 as [|e d IH]; [reflexivity|]. cbn [app]. rewrite !evs_delta_cons, IH. lia. Qed.

(* s' extends the log of s by d, and the balances moved by exactly the effects of d *)
Definition MV (s s' : State) : Prop :=
  exists d, log s' = d ++ log s /\ forall x, bal s' x = bal s x + evs_delta d x.

Lemma MV_refl s : MV s s.
Proof. exists []. split; [reflexivity|]. intros x. cbn. lia. Qed.

Lemma MV_trans s1 s2 s3 : MV s1 s2 -> MV s2 s3 -> MV s1 s3.
Proof.
  intros (d1 & E1 & B1) (d2 & E2 & B2). exists (d2 ++ d1).
  split; [now rewrite E2, E1, app_assoc|]. intros x. rewrite B2, B1, evs_delta_app. lia.
Qed.

(* no event, no money *)
Lemma MV_frame s0 s' : log s' = log s0 -> bank s' = bank s0 -> MV s0 s'.
Proof. intros El Eb. exists []. split; [exact El|]. intros x. unfold bal. rewrite Eb. cbn. lia. Qed.

(* one event *)
Lemma MV_ev s0 s' e : log s' = e :: log s0 -> (forall x, bal s' x = bal s0 x + ev_delta e x) -> MV s0 s'.
Proof. intros El Eb. exists [e]. split; [exact El|]. intros x. rewrite Eb. cbn. lia. Qed.

(* an event without effect *)
Lemma MV_ev0 s0 s' e : log s' = e :: log s0 -> bank s' = bank s0 -> (forall x, ev_delta e x = 0) -> MV s0 s'.
Proof. intros El Eb Hz. apply (MV_ev s0 s' e El). intros x. unfold bal. rewrite Eb, Hz. lia. Qed.

(* a bank send together with its event *)
Lemma MV_transfer s0 s1 s' a b amt e :
  transfer a b amt s0 = Some s1 -> log s' = e :: log s1 -> bank s' = bank s1 ->
  (forall x, ev_delta e x = into b x amt - into a x amt) -> MV s0 s'.
Proof.
  intros Et El Eb He. apply (MV_ev s0 s' e).
  - rewrite El. f_equal. rewrite (transfer_frame _ _ _ _ _ Et). reflexivity.
  - intros x. unfold bal at 1. rewrite Eb. fold (bal s1 x). rewrite (transfer_bal _ _ _ _ _ x Et), He.
    unfold into. lia.
Qed.

Lemma MV_add_newq s c h : MV s (add_newq s c h).
Proof. apply MV_frame; reflexivity. Qed.
Lemma MV_del_newq s c h : MV s (del_newq s c h).
Proof. apply MV_frame; reflexivity. Qed.
Lemma MV_add_expq s c h : MV s (add_expq s c h).
Proof. apply MV_frame; reflexivity. Qed.
Lemma MV_del_expq s c h : MV s (del_expq s c h).
Proof. apply MV_frame; reflexivity. Qed.
Lemma MV_tick s h t : MV s (set_time (set_height s h) t).
Proof. apply MV_frame; reflexivity. Qed.
Lemma MV_emit0 e s : (forall x, ev_delta e x = 0) -> MV s (emit e s).
Proof. intros Hz. eapply MV_ev0; [reflexivity|reflexivity|exact Hz]. Qed.

Lemma MV_pay_deposit s k o amt s1 : pay_deposit s k o amt = Ok s1 -> MV s s1.
Proof.
  intros E. apply pay_deposit_inv in E. destruct E as (s0 & Et & ->).
  eapply MV_transfer; [exact Et|reflexivity|reflexivity|intros x; reflexivity].
Qed.

Lemma MV_slash cfg s r s1 : slash cfg s r = Ok s1 -> MV s s1.
Proof.
  intros H. apply slash_shape in H.
  destruct H as (q & rc & b & amt & b2 & _ & _ & _ & _ & _ & _ & _ & _ & _ & _ & _ & ->).
  eapply MV_ev; [reflexivity|]. intros x. unfold bal at 1. sproj. rewrite get0_set.
  cbn [ev_delta]. unfold into. destruct (eqb_spec x Deposit) as [->|]; unfold bal; lia.
Qed.

Lemma MV_refund s r cons fee s1 : refund_fee s r cons fee = Some s1 -> MV s s1.
Proof.
  intros H. pose proof (fun x => refund_bal _ _ _ _ _ x H) as Hb. apply refund_shape in H. destruct H as (_ & _ & E).
  eapply MV_ev; [rewrite E; reflexivity|]. intros x. rewrite (Hb x). cbn [ev_delta]. unfold into. lia.
Qed.

Lemma MV_add_earned cfg s r prov fee s1 : add_earned_fee cfg s r prov fee = Ok s1 -> MV s s1.
Proof.
  intros H. apply add_earned_shape in H. destruct H as (o & s0 & Et & _ & _ & ->). cbv zeta in *.
  eapply MV_trans.
  - eapply (MV_transfer s s0 (emit (EvTax r (mul_trunc fee (p_tax cfg))) s0)); [exact Et|reflexivity|reflexivity|].
    intros x. reflexivity.
  - eapply MV_ev0; [sproj; rewrite (transfer_frame _ _ _ _ _ Et); reflexivity|reflexivity|intros x; reflexivity].
Qed.

Lemma MV_deactivate s r : MV s (deactivate s r).
Proof. unfold deactivate. destruct (get r (reqs s)); apply MV_frame; reflexivity. Qed.

Lemma MV_callback s c : MV s (callback s c).
Proof.
  unfold callback. destruct (get c (ctxs s)); [|apply MV_refl].
  eapply MV_ev0; [reflexivity|reflexivity|intros x; reflexivity].
Qed.

Lemma MV_complete_batch s c rc : MV s (fst (complete_batch s c rc)).
Proof.
  unfold complete_batch. cbn [fst].
  eapply MV_trans; [|apply MV_emit0; intros x; reflexivity].
  destruct (c_mod rc =? 0); [apply MV_refl|apply MV_callback].
Qed.

Lemma MV_put_ctx s c rc : MV s (put_ctx s c rc).
Proof. apply MV_frame; reflexivity. Qed.

Lemma MV_del_ctx s c : MV s (del_ctx s c).
Proof. eapply MV_ev0; [reflexivity|reflexivity|intros x; reflexivity]. Qed.

Lemma MV_resp_finish sm c rc : MV sm (resp_finish sm c rc).
Proof.
  unfold resp_finish.
  destruct (c_bresp (setc_bresp rc (c_bresp rc + 1)) =? c_breq (setc_bresp rc (c_bresp rc + 1))).
  - eapply MV_trans; [apply MV_complete_batch|apply MV_put_ctx].
  - apply MV_put_ctx.
Qed.

Lemma MV_resp_mid s1 r who rc0 code out : MV s1 (resp_mid s1 r who rc0 code out).
Proof.
  eapply MV_ev0; [apply log_resp_mid| |intros x; reflexivity].
  unfold resp_mid, deactivate. sproj. destruct (get r (reqs s1)); reflexivity.
Qed.

Lemma MV_respond cfg s r who code out ov ok s' :
  h_respond cfg s r who code out ov ok = Ok s' -> MV s s'.
Proof.
  intros H. apply respond_inv in H.
  destruct H as (q & rc0 & s1 & rc & _ & _ & _ & _ & _ & Hset & _ & ->).
  eapply MV_trans; [|apply MV_resp_finish]. eapply MV_trans; [|apply MV_resp_mid].
  destruct Hset as [[_ (sa & Es & Er)]|[_ Ea]].
  - eapply MV_trans; [eapply MV_slash; eauto|eapply MV_refund; eauto].
  - eapply MV_add_earned; eauto.
Qed.

Lemma MV_expire_req cfg s r : MV s (expire_req cfg s r).
Proof.
  unfold expire_req.
  destruct (get r (reqs s)) as [q|]; [|apply MV_refl].
  destruct (get (rid_ctx r) (ctxs s)) as [rc|]; [|apply MV_refl].
  eapply MV_trans; [|apply MV_emit0; intros x; reflexivity].
  eapply MV_trans; [|apply MV_deactivate].
  destruct (c_super rc); [apply MV_refl|].
  assert (Hsa : MV s (match slash cfg s r with Ok x => x | _ => s end)).
  { destruct (slash cfg s r) eqn:Es; try apply MV_refl. eapply MV_slash; eauto. }
  destruct (refund_fee _ r (c_cons rc) (r_fee q)) eqn:Er; [|assumption].
  eapply MV_trans; [exact Hsa|]. eapply MV_refund; eauto.
Qed.

Lemma MV_fold {A} (f : State -> A -> State) (l : list A) s :
  (forall s a, MV s (f s a)) -> MV s (fold_left f l s).
Proof.
  intros Hf. revert s. induction l as [|a l IH]; cbn [fold_left]; intros s; [apply MV_refl|].
  eapply MV_trans; [apply Hf|apply IH].
Qed.

Lemma MV_clean_batch s c n : MV s (clean_batch s c n).
Proof. apply MV_frame; reflexivity. Qed.

Lemma MV_expire_one cfg s c : MV s (expire_one cfg s c).
Proof.
  unfold expire_one. set (rc := ctx_or_zero s c).
  assert (Hp : MV s (fst (if c_bdone rc then (s, rc)
             else complete_batch (fold_left (expire_req cfg) (active_rids s c (c_counter rc)) s) c rc))).
  { destruct (c_bdone rc); cbn [fst]; [apply MV_refl|].
    eapply MV_trans; [|apply MV_complete_batch]. apply MV_fold. intros; apply MV_expire_req. }
  destruct (if c_bdone rc then (s, rc) else _) as [s1 rc1]. cbn [fst] in Hp.
  eapply MV_trans; [exact Hp|]. eapply MV_trans; [|apply MV_clean_batch].
  assert (H2 : MV s1 (put_ctx (del_expq s1 c (height s)) c rc1)) by (apply MV_frame; reflexivity).
  eapply MV_trans; [exact H2|].
  destruct (c_state rc1); [destruct (c_rep rc1 && _)| |];
    first [apply MV_del_ctx | apply MV_refl | apply MV_add_newq].
Qed.

Lemma MV_issue_all s c rc n i provs : MV s (issue_all s c rc n i provs).
Proof.
  revert s i. induction provs as [|p t IH]; cbn [issue_all]; intros s i; [apply MV_refl|].
  eapply MV_trans; [|apply IH]. rewrite issue_one_eq.
  eapply MV_trans; [|apply MV_emit0; intros x; reflexivity]. apply MV_frame; reflexivity.
Qed.

Lemma MV_initiate s c provs : MV s (initiate_requests s c provs).
Proof.
  unfold initiate_requests.
  eapply MV_trans; [apply MV_issue_all|].
  eapply MV_trans; [apply MV_put_ctx|apply MV_emit0; intros x; reflexivity].
Qed.

Lemma MV_new_one cfg s c : MV s (new_one cfg s c).
Proof.
  unfold new_one. set (rc := ctx_or_zero s c).
  destruct (is_state rc Running && c_rep rc && (0 <? c_total rc) && (c_total rc <=? c_counter rc)).
  { eapply MV_trans; [apply MV_del_ctx|apply MV_del_newq]. }
  eapply MV_trans; [|apply MV_del_newq].
  destruct (is_state rc Running); [|apply MV_refl].
  set (el := filter_providers s rc (c_provs rc)).
  destruct ((0 <? len el) && (c_thr rc <=? len el)).
  2:{ unfold skip_batch. eapply MV_trans; [|apply MV_add_expq].
      eapply MV_trans; [apply MV_put_ctx|apply MV_emit0; intros x; reflexivity]. }
  assert (Hp : MV s (on_paused s c rc)).
  { unfold on_paused. destruct (c_mod rc =? 0); [apply MV_put_ctx|].
    eapply MV_trans; [apply MV_put_ctx|apply MV_emit0; intros x; reflexivity]. }
  destruct (c_super rc).
  - eapply MV_trans; [apply MV_initiate|apply MV_add_expq].
  - destruct (transfer (User (c_cons rc)) Escrow (sum_prices el) s) as [x|] eqn:Et; [|exact Hp].
    eapply MV_trans; [|apply MV_add_expq].
    eapply MV_trans; [|apply MV_initiate].
    eapply MV_transfer; [exact Et|reflexivity|reflexivity|intros y; reflexivity].
Qed.

Lemma MV_end_block cfg s dt : MV s (end_block cfg s dt).
Proof.
  unfold end_block, end_blocker.
  eapply MV_trans; [|apply MV_tick].
  eapply (MV_trans s (fold_left (expire_one cfg) (due (expq s) (height s)) s)).
  - apply MV_fold. intros; apply MV_expire_one.
  - apply MV_fold. intros; apply MV_new_one.
Qed.

Ltac mv_frame := apply MV_frame; reflexivity.

Lemma MV_opt_pay s k owner (dep : Coins) amt s1 :
  (if coins_empty dep then Ok s else pay_deposit s k owner amt) = Ok s1 -> MV s s1.
Proof. destruct (coins_empty dep); intros H; [inv_ok H; subst; apply MV_refl|eapply MV_pay_deposit; eauto]. Qed.

(* every successful operation except the plain bank send *)
Theorem only_events_move_money cfg s o s' :
  I_wd s -> handle cfg s o = Ok s' -> (forall f t a, o <> OTransfer f t a) ->
  exists d, log s' = d ++ log s /\ forall x, bal s' x = bal s x + evs_delta d x.
Proof.
  intros Hwd H Hnt. change (MV s s').
  destruct o; cbn [handle] in H.
  - unfold h_define in H. inv_ok H. destruct (get svc (defs s)); inv_ok H. subst. mv_frame.
  - unfold h_bind in H. inv_ok H. sproj.
    apply MV_pay_deposit in Ha2. eapply MV_trans; [exact Ha2|].
    destruct (get prov (owner_of a2)); inv_ok H; subst; mv_frame.
  - unfold h_update in H. inv_ok H. apply MV_opt_pay in Ha3. eapply MV_trans; [exact Ha3|].
    destruct (negb (qos =? 0) || negb (coins_empty dep) || match pr with Some _ => true | None => false end);
      [|inv_ok H; subst; apply MV_refl].
    destruct a1 as [[raw p]|]; inv_ok H; subst; mv_frame.
  - unfold h_disable in H. inv_ok H. subst. mv_frame.
  - unfold h_enable in H. inv_ok H. subst. apply MV_opt_pay in Ha2. eapply MV_trans; [exact Ha2|]. mv_frame.
  - unfold h_refund_deposit in H. inv_ok H. subst.
    eapply MV_transfer; [exact Ha0|reflexivity|reflexivity|intros x; reflexivity].
  - unfold h_set_withdraw in H. inv_ok H. subst. mv_frame.
  - unfold h_call in H. inv_ok H. apply create_context_spec in H. destruct H as (capv & _ & _ & _ & ->).
    unfold created. eapply MV_trans; [|apply MV_add_newq].
    eapply MV_trans; [apply MV_put_ctx|apply MV_emit0; intros x; reflexivity].
  - apply create_context_spec in H. destruct H as (capv & _ & _ & _ & ->).
    unfold created. eapply MV_trans; [|apply MV_add_newq].
    eapply MV_trans; [apply MV_put_ctx|apply MV_emit0; intros x; reflexivity].
  - eapply MV_respond; eauto.
  - apply h_pause_spec in H. destruct H as (rc0 & _ & _ & _ & _ & _ & ->). mv_frame.
  - apply h_start_spec in H. destruct H as (rc0 & _ & _ & _ & _ & ->). unfold started.
    destruct (negb (has c (expq_h s)) && negb (has c (newq_h s))); mv_frame.
  - apply h_kill_spec in H. destruct H as (rc0 & _ & _ & _ & _ & ->). mv_frame.
  - apply h_update_ctx_spec in H.
    destruct H as (rc0 & capo & _ & _ & _ & _ & _ & _ & _ & _ & _ & ->). mv_frame.
  - unfold h_withdraw in H. rewrite (withdraw_dacct s owner Hwd) in H. inv_ok H. destruct (prov =? 0).
    + inv_ok H. subst.
      eapply MV_trans; [|eapply MV_transfer; [exact Ha|reflexivity|reflexivity|intros x; reflexivity]].
      mv_frame.
    + inv_ok H. subst.
      eapply MV_trans; [|eapply MV_transfer; [exact Ha0|reflexivity|reflexivity|intros x; reflexivity]].
      destruct (get0 prov (earned s) =? get0 owner (own_earned s)); [|destruct (_ <? 0)]; inv_ok Ha; subst; mv_frame.
  - exfalso. eapply Hnt. reflexivity.
  - inv_ok H. subst. apply MV_end_block.
  - mod_shape H; mv_frame.
  - mod_shape H; mv_frame.
  - mod_shape H; mv_frame.
  - mod_shape H; mv_frame.
Qed.

(* the plain bank send: no event, amt moves between the two users *)
Theorem transfer_moves cfg s f t amt s' :
  handle cfg s (OTransfer f t amt) = Ok s' ->
  log s' = log s /\ forall x, bal s' x = bal s x - into (User f) x amt + into (User t) x amt.
Proof.
  cbn [handle]. unfold h_transfer. intros H. inv_ok H.
  split; [rewrite (transfer_frame _ _ _ _ _ H); reflexivity|].
  intros x. rewrite (transfer_bal _ _ _ _ _ x H). unfold into. lia.
Qed.

(* the malformed answer of the example history (Proofs/TraceSettle.v): slash 100 burned from
   the deposit account, fee 100 back from escrow to consumer 20 *)
Example tx_money :
  let s := run tx_cfg tx_s0 (firstn 6 tx_ops) in
  let s' := fst (step tx_cfg s (ORespond tx_r2 12 0 5 false true)) in
  let d := [EvBatchDone tx_c 1; EvRespond tx_r2; EvRefund tx_r2 20 100; EvSlash tx_r2 (1, 12) 100] in
  log s' = d ++ log s
  /\ evs_delta d (User 20) = 100 /\ evs_delta d Escrow = -100 /\ evs_delta d Deposit = -100
  /\ evs_delta d FeeColl = 0
  /\ (bal s (User 20), bal s Escrow, bal s Deposit, bal s FeeColl) = (800, 190, 800, 10)
  /\ (bal s' (User 20), bal s' Escrow, bal s' Deposit, bal s' FeeColl) = (900, 90, 700, 10).
Proof. vm_compute. repeat split. Qed.
