(* C18 / C17 / C20 support (audit C18 facet 12): the ORDER of the store.
   The KVStore iterates keys in lexicographic byte order (bytes.Compare).  The state machine
   (S) sorts tuples field by field ([ctxid_leb], [rid_leb], [act_leb] of Model/Handlers.v and
   Model/Queries.v).  This file defines the byte order (Base/Bytes.v has none), proves it a
   strict total order, proves the big-endian fixed-width encoders monotone, and shows that
   the field-wise orders of (S) coincide with the byte order of the generated keys
   (gen/KeysGen.v) of the encoded identifiers ([enc_ctx], [enc_rid] of Proofs/GapC18.v) on the
   domain of non-negative fields; it is FALSE for negative int64 fields (uint64(int64) wraps:
   [be64_u64_order_refuted], [ctxid_order_refuted]). *)
From Coq Require Import List NArith ZArith Lia Bool.
From SVC Require Import Base.Bytes.
Import ListNotations.

(* ================================================================== *)
(* 1. lexicographic order on byte strings (bytes.Compare a b < 0) *)

Fixpoint bltb (a b : bytes) : bool :=
  match a, b with
  | _, [] => false
  | [], _ :: _ => true
  | x :: a', y :: b' => (x <? y)%N || ((x =? y)%N && bltb a' b')
  end.

Definition bleb (a b : bytes) : bool := negb (bltb b a).

Definition blt (a b : bytes) : Prop := bltb a b = true.
Definition ble (a b : bytes) : Prop := bleb a b = true.

Lemma blt_nil_r : forall a, ~ blt a [].
Proof. intros [|x a]; unfold blt; cbn [bltb]; discriminate. Qed.

Lemma blt_nil_cons : forall y b, blt [] (y :: b).
Proof. intros y b. reflexivity. Qed.

Lemma blt_cons : forall x a y b, blt (x :: a) (y :: b) <-> (x < y)%N \/ (x = y /\ blt a b).
Proof.
  intros x a y b. unfold blt. cbn [bltb].
  rewrite orb_true_iff, andb_true_iff, N.ltb_lt, N.eqb_eq. reflexivity.
Qed.

Lemma blt_irrefl : forall a, ~ blt a a.
Proof.
  induction a as [|x a IH]; [apply blt_nil_r|].
  rewrite blt_cons. intros [H|[_ H]]; [lia|exact (IH H)].
Qed.

Lemma blt_trans : forall a b c, blt a b -> blt b c -> blt a c.
Proof.
  induction a as [|x a IH]; intros [|y b] [|z c] H1 H2;
    try (exfalso; eapply blt_nil_r; eassumption); [apply blt_nil_cons|].
  rewrite blt_cons in *.
  destruct H1 as [H1|[-> H1]], H2 as [H2|[-> H2]].
  - left. lia.
  - left. exact H1.
  - left. exact H2.
  - right. split; [reflexivity|]. eapply IH; eassumption.
Qed.

Lemma blt_trichotomy : forall a b, blt a b \/ a = b \/ blt b a.
Proof.
  induction a as [|x a IH]; intros [|y b].
  - right; left; reflexivity.
  - left. apply blt_nil_cons.
  - right; right. apply blt_nil_cons.
  - rewrite !blt_cons. destruct (N.lt_trichotomy x y) as [H|[->|H]].
    + left; left; exact H.
    + destruct (IH b) as [H|[->|H]].
      * left; right; auto.
      * right; left; reflexivity.
      * right; right; right; auto.
    + right; right; left; exact H.
Qed.

Lemma blt_asym : forall a b, blt a b -> ~ blt b a.
Proof. intros a b H1 H2. exact (blt_irrefl a (blt_trans a b a H1 H2)). Qed.

Lemma blt_neq : forall a b, blt a b -> a <> b.
Proof. intros a b H ->. exact (blt_irrefl b H). Qed.

Lemma ble_nlt : forall a b, ble a b <-> ~ blt b a.
Proof.
  intros a b. unfold ble, bleb, blt. destruct (bltb b a); cbn [negb]; split; intros H; try reflexivity.
  - discriminate.
  - exfalso. apply H. reflexivity.
  - discriminate.
Qed.

Lemma ble_iff : forall a b, ble a b <-> blt a b \/ a = b.
Proof.
  intros a b. rewrite ble_nlt. split.
  - intros Hn. destruct (blt_trichotomy a b) as [H|[H|H]]; [left; exact H|right; exact H|contradiction].
  - intros [H| ->]; [now apply blt_asym|apply blt_irrefl].
Qed.

Lemma ble_refl : forall a, ble a a.
Proof. intros a. apply ble_iff. right. reflexivity. Qed.

Lemma ble_trans : forall a b c, ble a b -> ble b c -> ble a c.
Proof.
  intros a b c H1 H2. apply ble_iff in H1, H2. apply ble_iff.
  destruct H1 as [H1| ->], H2 as [H2| ->]; auto. left. eapply blt_trans; eassumption.
Qed.

Lemma ble_antisym : forall a b, ble a b -> ble b a -> a = b.
Proof.
  intros a b H1 H2. apply ble_iff in H1. apply ble_nlt in H2.
  destruct H1 as [H1|H1]; [contradiction|exact H1].
Qed.

Lemma ble_total : forall a b, ble a b \/ ble b a.
Proof.
  intros a b. rewrite !ble_iff. destruct (blt_trichotomy a b) as [H|[H|H]]; auto.
Qed.

(* a strict total order on all byte strings, hence on those of one length *)
Theorem blt_strict_total_order :
  (forall a, ~ blt a a) /\ (forall a b c, blt a b -> blt b c -> blt a c)
  /\ (forall a b, blt a b \/ a = b \/ blt b a).
Proof. exact (conj blt_irrefl (conj blt_trans blt_trichotomy)). Qed.

(* common prefix *)
Lemma blt_app_prefix : forall p a b, blt (p ++ a) (p ++ b) <-> blt a b.
Proof.
  induction p as [|x p IH]; intros a b; cbn [app]; [reflexivity|].
  rewrite blt_cons, IH. split; [intros [H|[_ H]]; [lia|exact H]|intros H; right; auto].
Qed.

Lemma ble_app_prefix : forall p a b, ble (p ++ a) (p ++ b) <-> ble a b.
Proof. intros p a b. rewrite !ble_nlt, blt_app_prefix. reflexivity. Qed.

(* concatenation of a fixed-width first component *)
Lemma blt_app_len : forall a a' b b',
  length a = length a' ->
  (blt (a ++ b) (a' ++ b') <-> blt a a' \/ (a = a' /\ blt b b')).
Proof.
  induction a as [|x a IH]; intros [|x' a'] b b' Hl; try discriminate; cbn [app].
  - split; [intros H; right; auto|intros [H|[_ H]]; [exfalso; exact (blt_nil_r _ H)|exact H]].
  - injection Hl as Hl. rewrite !blt_cons, (IH a' b b' Hl). split.
    + intros [H|[-> [H|[-> H]]]]; [left; left; exact H|left; right; auto|right; auto].
    + intros [[H|[-> H]]|[E H]]; [left; exact H|right; auto|].
      injection E as -> ->. right. auto.
Qed.

(* a proper prefix sorts first: an iterator over [p ++ ...] meets [p] itself first *)
Lemma blt_prefix : forall p x r, blt p (p ++ x :: r).
Proof.
  intros p x r. rewrite <- (app_nil_r p) at 1. apply blt_app_prefix. apply blt_nil_cons.
Qed.

(* ================================================================== *)
(* 2. the big-endian encoders are monotone *)

Lemma be_mono : forall k n m,
  (n < m)%N -> (m < 256 ^ N.of_nat k)%N -> blt (be k n) (be k m).
Proof.
  induction k as [|k IH]; intros n m Hnm Hm.
  - change (256 ^ N.of_nat 0)%N with 1%N in Hm. lia.
  - cbn [be]. apply blt_app_len; [rewrite !be_length; reflexivity|].
    rewrite pow256_succ in Hm.
    destruct (N.lt_trichotomy (n / 256) (m / 256)) as [H|[H|H]].
    + left. apply IH; [exact H|]. lia.
    + right. split; [now rewrite H|]. apply blt_cons. left. lia.
    + exfalso. lia.
Qed.

Lemma be_lt_iff : forall k n m,
  (n < 256 ^ N.of_nat k)%N -> (m < 256 ^ N.of_nat k)%N ->
  (blt (be k n) (be k m) <-> (n < m)%N).
Proof.
  intros k n m Hn Hm. split; [|intros H; now apply be_mono].
  intros H. destruct (N.lt_trichotomy n m) as [L|[E|G]]; [exact L| |].
  - subst. exfalso. exact (blt_irrefl _ H).
  - exfalso. exact (blt_asym _ _ H (be_mono k m n G Hn)).
Qed.

Lemma be64_lt_iff : forall n m, is_uint64 n -> is_uint64 m -> (blt (be64 n) (be64 m) <-> (n < m)%N).
Proof. unfold is_uint64, be64. intros n m Hn Hm. apply be_lt_iff; rewrite pow256_8; assumption. Qed.

Lemma be16_lt_iff : forall n m, is_uint16 n -> is_uint16 m -> (blt (be16 n) (be16 m) <-> (n < m)%N).
Proof. unfold is_uint16, be16. intros n m Hn Hm. apply be_lt_iff; rewrite pow256_2; assumption. Qed.

(* uint64(int64) is the identity on the non-negative half *)
Lemma u64_nonneg : forall z, (0 <= z < 2 ^ 63)%Z -> u64 z = Z.to_N z.
Proof.
  intros z Hz. unfold u64.
  change (2 ^ 63)%Z with 9223372036854775808%Z in Hz.
  change (2 ^ 64)%Z with 18446744073709551616%Z.
  rewrite Z.mod_small by lia. reflexivity.
Qed.

Lemma u16_nonneg : forall z, (0 <= z < 2 ^ 15)%Z -> u16 z = Z.to_N z.
Proof.
  intros z Hz. unfold u16.
  change (2 ^ 15)%Z with 32768%Z in Hz. change (2 ^ 16)%Z with 65536%Z.
  rewrite Z.mod_small by lia. reflexivity.
Qed.

(* 8 bytes of a non-negative int64: byte order = integer order *)
Lemma be64_u64_lt_iff : forall a b,
  (0 <= a < 2 ^ 63)%Z -> (0 <= b < 2 ^ 63)%Z ->
  (blt (be64 (u64 a)) (be64 (u64 b)) <-> (a < b)%Z).
Proof.
  intros a b Ha Hb. rewrite be64_lt_iff by apply u64_lt.
  rewrite !u64_nonneg by assumption. lia.
Qed.

Lemma be16_u16_lt_iff : forall a b,
  (0 <= a < 2 ^ 15)%Z -> (0 <= b < 2 ^ 15)%Z ->
  (blt (be16 (u16 a)) (be16 (u16 b)) <-> (a < b)%Z).
Proof.
  intros a b Ha Hb. rewrite be16_lt_iff by apply u16_lt.
  rewrite !u16_nonneg by assumption. lia.
Qed.

(* 8 bytes of a uint64 batch counter given as a non-negative integer *)
Lemma be64_toN_lt_iff : forall a b,
  (0 <= a < 2 ^ 64)%Z -> (0 <= b < 2 ^ 64)%Z ->
  (blt (be64 (Z.to_N a)) (be64 (Z.to_N b)) <-> (a < b)%Z).
Proof.
  intros a b Ha Hb.
  change (2 ^ 64)%Z with 18446744073709551616%Z in *.
  rewrite be64_lt_iff; unfold is_uint64; change (2 ^ 64)%N with 18446744073709551616%N; lia.
Qed.

(* on negative int64 values the byte order is NOT the integer order: -1 sorts after 0 *)
Theorem be64_u64_order_refuted : exists a b : Z,
  is_int64 a /\ is_int64 b /\ (a < b)%Z /\ blt (be64 (u64 b)) (be64 (u64 a)).
Proof.
  exists (-1)%Z, 0%Z. unfold is_int64.
  change (2 ^ 63)%Z with 9223372036854775808%Z.
  split; [lia|]. split; [lia|]. split; [lia|]. vm_compute. reflexivity.
Qed.

(* ================================================================== *)
(* 3. the field-wise orders of the state machine = byte order of the keys *)

From SVC Require Import Base.AMap Base.Dec Model.Types Model.Handlers Model.Queries
  gen.KeysGen Model.Ids Proofs.IdsProofs Proofs.KProofs Proofs.GapC18.
Open Scope Z_scope.

(* strict field-wise orders *)
Definition ctx_lt (c c' : CtxId) : Prop :=
  fst c < fst c' \/ (fst c = fst c' /\ snd c < snd c').

Definition rid_lt (r r' : ReqId) : Prop :=
  ctx_lt (rid_ctx r) (rid_ctx r')
  \/ (rid_ctx r = rid_ctx r'
      /\ (rid_batch r < rid_batch r'
          \/ (rid_batch r = rid_batch r'
              /\ (rid_height r < rid_height r'
                  \/ (rid_height r = rid_height r' /\ rid_index r < rid_index r'))))).

Lemma ctxid_leb_spec c c' : ctxid_leb c c' = true <-> ctx_lt c c' \/ c = c'.
Proof.
  destruct c as [a i], c' as [a' i']. unfold ctxid_leb, ctx_lt. cbn [fst snd].
  rewrite orb_true_iff, andb_true_iff, Z.ltb_lt, Z.eqb_eq, Z.leb_le. split.
  - intros [H|[-> H]]; [left; left; exact H|].
    destruct (Z.eq_dec i i') as [->|Hn]; [right; reflexivity|left; right; lia].
  - intros [[H|[-> H]]|E]; [left; exact H|right; lia|].
    injection E as -> ->. right. lia.
Qed.

Lemma ctx_lt_irrefl c : ~ ctx_lt c c.
Proof. intros [H|[_ H]]; lia. Qed.

Lemma rid_leb_spec r r' : rid_leb r r' = true <-> rid_lt r r' \/ r = r'.
Proof.
  destruct r as [[[c b] h] i], r' as [[[c' b'] h'] i'].
  unfold rid_leb, rid_lt, rid_ctx, rid_batch, rid_height, rid_index. cbn [fst snd].
  destruct (eqb_spec c c') as [->|Nc]; cbn [negb].
  - pose proof (ctx_lt_irrefl c') as Hirr.
    destruct (Z.eqb_spec b b') as [->|Nb]; cbn [negb];
      [destruct (Z.eqb_spec h h') as [->|Nh]; cbn [negb]|];
      rewrite ?Z.leb_le, ?Z.ltb_lt; split.
    + intros H. destruct (Z.eq_dec i i') as [->|Ni]; [right; reflexivity|].
      left. right. split; [reflexivity|]. right. split; [reflexivity|]. right. split; [reflexivity|lia].
    + intros [[H|(_ & H)]|E]; [contradiction|lia|]. assert (i = i') by congruence. lia.
    + intros H. left. right. split; [reflexivity|]. right. split; [reflexivity|]. left. exact H.
    + intros [[H|(_ & H)]|E]; [contradiction|lia|]. assert (h = h') by congruence. contradiction.
    + intros H. left. right. split; [reflexivity|]. left. exact H.
    + intros [[H|(_ & H)]|E]; [contradiction|lia|]. assert (b = b') by congruence. contradiction.
  - rewrite ctxid_leb_spec. split.
    + intros [H|E]; [left; left; exact H|contradiction].
    + intros [[H|(E & _)]|E]; [left; exact H|contradiction|].
      assert (c = c') by congruence. contradiction.
Qed.

(* the domain: what GapC18 needs for injectivity, with every signed field non-negative *)
Definition nn_cid (c : CtxId) : Prop := hash_ok (fst c) /\ 0 <= snd c < 2 ^ 63.

Definition nn_rid (r : ReqId) : Prop :=
  nn_cid (rid_ctx r) /\ 0 <= rid_batch r < 2 ^ 64 /\ 0 <= rid_height r < 2 ^ 63
  /\ 0 <= rid_index r < 2 ^ 15.

Lemma nn_cid_ok c : nn_cid c -> cid_ok c.
Proof.
  intros (Hh & Hi). split; [exact Hh|]. unfold is_int64.
  change (2 ^ 63) with 9223372036854775808 in *. lia.
Qed.

Lemma nn_rid_ok r : nn_rid r -> rid_ok r.
Proof.
  intros (Hc & Hb & Hh & Hi). split; [now apply nn_cid_ok|]. split; [exact Hb|].
  unfold is_int64, is_int16.
  change (2 ^ 63) with 9223372036854775808 in *. change (2 ^ 15) with 32768 in *. lia.
Qed.

Section Ord.
  (* the 32 bytes of a hash value, read as a big-endian integer: monotone *)
  Variable hb : Z -> bytes.
  Hypothesis hb_len : forall a, hash_ok a -> length (hb a) = 32%nat.
  Hypothesis hb_mono : forall a b, hash_ok a -> hash_ok b -> a < b -> blt (hb a) (hb b).

  Lemma hb_lt_iff a b : hash_ok a -> hash_ok b -> (blt (hb a) (hb b) <-> a < b).
  Proof.
    intros Ha Hb. split; [|now apply hb_mono].
    intros H. destruct (Z.lt_trichotomy a b) as [L|[E|G]]; [exact L| |].
    - subst. exfalso. exact (blt_irrefl _ H).
    - exfalso. exact (blt_asym _ _ H (hb_mono b a Hb Ha G)).
  Qed.

  Lemma hb_inj a b : hash_ok a -> hash_ok b -> hb a = hb b -> a = b.
  Proof.
    intros Ha Hb E. destruct (Z.lt_trichotomy a b) as [L|[E'|G]]; [|exact E'|].
    - exfalso. apply (blt_neq _ _ (hb_mono a b Ha Hb L)). exact E.
    - exfalso. apply (blt_neq _ _ (hb_mono b a Hb Ha G)). symmetry. exact E.
  Qed.

  (* ---- context ids ---- *)

  Theorem enc_ctx_lt c c' : nn_cid c -> nn_cid c' ->
    (blt (enc_ctx hb c) (enc_ctx hb c') <-> ctx_lt c c').
  Proof.
    destruct c as [a i], c' as [a' i']. intros (Ha & Hi) (Ha' & Hi'). cbn [fst snd] in *.
    unfold enc_ctx, gen_ctx_id, ctx_lt. cbn [fst snd].
    rewrite blt_app_len by (rewrite !hb_len by assumption; reflexivity).
    rewrite hb_lt_iff, be64_u64_lt_iff by assumption. split.
    - intros [H|[E H]]; [left; exact H|right]. split; [now apply hb_inj|exact H].
    - intros [H|[-> H]]; [left; exact H|right; auto].
  Qed.

  Theorem enc_ctx_le c c' : nn_cid c -> nn_cid c' ->
    (ctxid_leb c c' = true <-> ble (enc_ctx hb c) (enc_ctx hb c')).
  Proof.
    intros Hc Hc'. rewrite ctxid_leb_spec, ble_iff, (enc_ctx_lt c c' Hc Hc'). split.
    - intros [H| ->]; auto.
    - intros [H|E]; [left; exact H|right].
      apply (enc_ctx_inj hb hb_len hb_inj); auto using nn_cid_ok.
  Qed.

  (* the three families keyed by a context id, and the two queue families at one height:
     the order in which the store iterates them is [ctxid_leb] *)
  Theorem K_order_request_context c c' : nn_cid c -> nn_cid c' ->
    (ctxid_leb c c' = true
     <-> ble (GetRequestContextKey (enc_ctx hb c)) (GetRequestContextKey (enc_ctx hb c'))).
  Proof.
    intros Hc Hc'. rewrite (enc_ctx_le c c' Hc Hc'). kred.
    change (8%N :: enc_ctx hb c) with ([8%N] ++ enc_ctx hb c).
    change (8%N :: enc_ctx hb c') with ([8%N] ++ enc_ctx hb c').
    rewrite ble_app_prefix. reflexivity.
  Qed.

  Theorem K_order_expired_batch c c' h : nn_cid c -> nn_cid c' ->
    (ctxid_leb c c' = true
     <-> ble (GetExpiredRequestBatchKey (enc_ctx hb c) h) (GetExpiredRequestBatchKey (enc_ctx hb c') h)).
  Proof.
    intros Hc Hc'. rewrite (enc_ctx_le c c' Hc Hc'). kred.
    change (9%N :: be64 (u64 h) ++ enc_ctx hb c) with (([9%N] ++ be64 (u64 h)) ++ enc_ctx hb c).
    change (9%N :: be64 (u64 h) ++ enc_ctx hb c') with (([9%N] ++ be64 (u64 h)) ++ enc_ctx hb c').
    rewrite ble_app_prefix. reflexivity.
  Qed.

  Theorem K_order_new_batch c c' h : nn_cid c -> nn_cid c' ->
    (ctxid_leb c c' = true
     <-> ble (GetNewRequestBatchKey (enc_ctx hb c) h) (GetNewRequestBatchKey (enc_ctx hb c') h)).
  Proof.
    intros Hc Hc'. rewrite (enc_ctx_le c c' Hc Hc'). kred.
    change (16%N :: be64 (u64 h) ++ enc_ctx hb c) with (([16%N] ++ be64 (u64 h)) ++ enc_ctx hb c).
    change (16%N :: be64 (u64 h) ++ enc_ctx hb c') with (([16%N] ++ be64 (u64 h)) ++ enc_ctx hb c').
    rewrite ble_app_prefix. reflexivity.
  Qed.

  (* across heights the queue keys sort by height first (non-negative heights) *)
  Theorem K_order_expired_batch_heights c c' h h' :
    0 <= h < 2 ^ 63 -> 0 <= h' < 2 ^ 63 ->
    (blt (GetExpiredRequestBatchKey (enc_ctx hb c) h) (GetExpiredRequestBatchKey (enc_ctx hb c') h')
     <-> h < h' \/ (h = h' /\ blt (enc_ctx hb c) (enc_ctx hb c'))).
  Proof.
    intros Hh Hh'. kred.
    change (9%N :: be64 (u64 h) ++ enc_ctx hb c) with ([9%N] ++ be64 (u64 h) ++ enc_ctx hb c).
    change (9%N :: be64 (u64 h') ++ enc_ctx hb c') with ([9%N] ++ be64 (u64 h') ++ enc_ctx hb c').
    rewrite blt_app_prefix, blt_app_len by apply be64_len_eq.
    rewrite be64_u64_lt_iff by assumption. split.
    - intros [H|[E H]]; [left; exact H|right]. split; [|exact H].
      apply be64_u64_inj in E; [exact E| |]; unfold is_int64;
        change (2 ^ 63) with 9223372036854775808 in *; lia.
    - intros [H|[-> H]]; auto.
  Qed.

  (* ---- request ids ---- *)

  Theorem enc_rid_lt r r' : nn_rid r -> nn_rid r' ->
    (blt (enc_rid hb r) (enc_rid hb r') <-> rid_lt r r').
  Proof.
    destruct r as [[[c b] h] i], r' as [[[c' b'] h'] i'].
    unfold nn_rid, enc_rid, rid_lt, rid_ctx, rid_batch, rid_height, rid_index. cbn [fst snd].
    intros (Hc & Hb & Hh & Hi) (Hc' & Hb' & Hh' & Hi').
    pose proof (nn_cid_ok _ Hc) as Oc. pose proof (nn_cid_ok _ Hc') as Oc'.
    unfold gen_request_id.
    rewrite blt_app_len
      by (rewrite !(enc_ctx_len hb hb_len) by assumption; reflexivity).
    rewrite blt_app_len by apply be64_len_eq.
    rewrite blt_app_len by apply be64_len_eq.
    rewrite (enc_ctx_lt c c' Hc Hc'), be64_toN_lt_iff, be64_u64_lt_iff, be16_u16_lt_iff by assumption.
    assert (Eb : be64 (Z.to_N b) = be64 (Z.to_N b') <-> b = b').
    { split; [|now intros ->]. intros E.
      apply be64_inj in E; [| |]; unfold is_uint64;
        change (2 ^ 64) with 18446744073709551616 in *;
        change (2 ^ 64)%N with 18446744073709551616%N; lia. }
    assert (Eh : be64 (u64 h) = be64 (u64 h') <-> h = h').
    { split; [|now intros ->]. intros E.
      apply be64_u64_inj in E; [exact E| |]; unfold is_int64;
        change (2 ^ 63) with 9223372036854775808 in *; lia. }
    assert (Ec : enc_ctx hb c = enc_ctx hb c' <-> c = c').
    { split; [|now intros ->]. apply (enc_ctx_inj hb hb_len hb_inj); assumption. }
    rewrite Ec, Eb, Eh. reflexivity.
  Qed.

  Theorem enc_rid_le r r' : nn_rid r -> nn_rid r' ->
    (rid_leb r r' = true <-> ble (enc_rid hb r) (enc_rid hb r')).
  Proof.
    intros Hr Hr'. rewrite rid_leb_spec, ble_iff, (enc_rid_lt r r' Hr Hr'). split.
    - intros [H| ->]; auto.
    - intros [H|E]; [left; exact H|right].
      apply (enc_rid_inj hb hb_len hb_inj); auto using nn_rid_ok.
  Qed.

  (* request records, active markers by id, responses: iterated in [rid_leb] order *)
  Theorem K_order_request r r' : nn_rid r -> nn_rid r' ->
    (rid_leb r r' = true <-> ble (GetRequestKey (enc_rid hb r)) (GetRequestKey (enc_rid hb r'))).
  Proof.
    intros Hr Hr'. rewrite (enc_rid_le r r' Hr Hr'). kred.
    change (19%N :: enc_rid hb r) with ([19%N] ++ enc_rid hb r).
    change (19%N :: enc_rid hb r') with ([19%N] ++ enc_rid hb r').
    rewrite ble_app_prefix. reflexivity.
  Qed.

  Theorem K_order_active_by_id r r' : nn_rid r -> nn_rid r' ->
    (rid_leb r r' = true
     <-> ble (GetActiveRequestKeyByID (enc_rid hb r)) (GetActiveRequestKeyByID (enc_rid hb r'))).
  Proof.
    intros Hr Hr'. rewrite (enc_rid_le r r' Hr Hr'). kred.
    change (21%N :: enc_rid hb r) with ([21%N] ++ enc_rid hb r).
    change (21%N :: enc_rid hb r') with ([21%N] ++ enc_rid hb r').
    rewrite ble_app_prefix. reflexivity.
  Qed.

  Theorem K_order_response r r' : nn_rid r -> nn_rid r' ->
    (rid_leb r r' = true <-> ble (GetResponseKey (enc_rid hb r)) (GetResponseKey (enc_rid hb r'))).
  Proof.
    intros Hr Hr'. rewrite (enc_rid_le r r' Hr Hr'). kred.
    change (22%N :: enc_rid hb r) with ([22%N] ++ enc_rid hb r).
    change (22%N :: enc_rid hb r') with ([22%N] ++ enc_rid hb r').
    rewrite ble_app_prefix. reflexivity.
  Qed.

  (* ---- active markers of one binding: expiration height, then request id ---- *)

  Theorem K_order_active_request (bech : bytes -> bytes) sn p (a b : ReqId * Req) :
    nn_rid (fst a) -> nn_rid (fst b) ->
    0 <= r_exp (snd a) < 2 ^ 63 -> 0 <= r_exp (snd b) < 2 ^ 63 ->
    (act_leb a b = true
     <-> ble (GetActiveRequestKey bech sn p (r_exp (snd a)) (enc_rid hb (fst a)))
             (GetActiveRequestKey bech sn p (r_exp (snd b)) (enc_rid hb (fst b)))).
  Proof.
    destruct a as [r q], b as [r' q']. cbn [fst snd]. intros Hr Hr' He He'.
    set (e := r_exp q) in *. set (e' := r_exp q') in *.
    unfold act_leb. cbn [fst snd]. fold e e'. kred.
    assert (Hshape : forall u v : bytes,
              20%N :: sn ++ 0%N :: bech p ++ 0%N :: u ++ v
              = (20%N :: sn ++ 0%N :: bech p ++ [0%N]) ++ u ++ v).
    { intros u v. cbn [app]. f_equal. rewrite <- app_assoc. cbn [app]. f_equal. f_equal.
      rewrite <- app_assoc. reflexivity. }
    rewrite !Hshape.
    rewrite ble_app_prefix, ble_iff, blt_app_len by apply be64_len_eq.
    rewrite be64_u64_lt_iff by assumption.
    assert (Eh : be64 (u64 e) = be64 (u64 e') <-> e = e').
    { split; [|now intros ->]. intros E.
      apply be64_u64_inj in E; [exact E| |]; unfold is_int64;
        change (2 ^ 63) with 9223372036854775808 in *; lia. }
    rewrite Eh.
    destruct (Z.eqb_spec e e') as [->|Ne]; cbn [negb].
    - rewrite (enc_rid_le r r' Hr Hr'), ble_iff. split.
      + intros [H|E]; [left; right; auto|right; now rewrite E].
      + intros [[H|[_ H]]|E]; [lia|left; exact H|right]. now apply app_inv_head in E.
    - rewrite Z.ltb_lt. split.
      + intros H. left. left. exact H.
      + intros [[H|[E _]]|E]; [exact H|contradiction|].
        exfalso. apply Ne. apply Eh.
        pose proof (f_equal (firstn 8) E) as F.
        rewrite !firstn_app_exact in F by apply be64_length. exact F.
  Qed.
End Ord.

(* the hash written as 32 big-endian bytes is monotone: no hypothesis left *)
Lemma hash_bytes_mono a b : hash_ok a -> hash_ok b -> a < b -> blt (hash_bytes a) (hash_bytes b).
Proof.
  unfold hash_ok, hash_bytes. intros Ha Hb Hab.
  apply be_mono; [lia|]. rewrite pow256_32. lia.
Qed.

Theorem K_order_expired_batch_hash c c' h : nn_cid c -> nn_cid c' ->
  (ctxid_leb c c' = true
   <-> ble (GetExpiredRequestBatchKey (enc_ctx hash_bytes c) h)
           (GetExpiredRequestBatchKey (enc_ctx hash_bytes c') h)).
Proof. exact (K_order_expired_batch hash_bytes hash_bytes_len hash_bytes_mono c c' h). Qed.

Theorem K_order_new_batch_hash c c' h : nn_cid c -> nn_cid c' ->
  (ctxid_leb c c' = true
   <-> ble (GetNewRequestBatchKey (enc_ctx hash_bytes c) h)
           (GetNewRequestBatchKey (enc_ctx hash_bytes c') h)).
Proof. exact (K_order_new_batch hash_bytes hash_bytes_len hash_bytes_mono c c' h). Qed.

Theorem K_order_request_hash r r' : nn_rid r -> nn_rid r' ->
  (rid_leb r r' = true
   <-> ble (GetRequestKey (enc_rid hash_bytes r)) (GetRequestKey (enc_rid hash_bytes r'))).
Proof. exact (K_order_request hash_bytes hash_bytes_len hash_bytes_mono r r'). Qed.

(* with a negative message index the model's order and the store's order DISAGREE:
   (1, -1) is below (1, 0) for [ctxid_leb] but its key sorts after *)
Theorem ctxid_order_refuted : exists c c' : CtxId,
  cid_ok c /\ cid_ok c' /\ ctxid_leb c c' = true
  /\ blt (GetNewRequestBatchKey (enc_ctx hash_bytes c') 1) (GetNewRequestBatchKey (enc_ctx hash_bytes c) 1).
Proof.
  exists (1, -1), (1, 0). unfold cid_ok, hash_ok, is_int64. cbn [fst snd].
  change (2 ^ 63) with 9223372036854775808. change (2 ^ 256) with (Z.pow_pos 2 256).
  split; [split; [split; [lia|reflexivity]|lia]|].
  split; [split; [split; [lia|reflexivity]|lia]|].
  split; [reflexivity|]. vm_compute. reflexivity.
Qed.

(* ================================================================== *)
(* 4. the order in which EndBlock processes the due contexts ([due], Model/EndBlock.v) is the
   order in which the store iterator of the queue sub-space yields their keys *)

From Coq Require Import Sorting.Sorted.
From SVC Require Import Model.EndBlock Proofs.Lemmas Proofs.QueryProofs.

Lemma Sorted_impl_in {A} (R R' : A -> A -> Prop) (l : list A) :
  (forall a b, In a l -> In b l -> R a b -> R' a b) -> Sorted R l -> Sorted R' l.
Proof.
  induction l as [|x l IH]; intros Himp Hs; [constructor|].
  inversion Hs as [|? ? Hs' Hhd]; subst. constructor.
  - apply IH; [|exact Hs']. intros a b Ha Hb. apply Himp; now right.
  - destruct l as [|y l]; constructor. inversion Hhd; subst.
    apply Himp; [now left|right; now left|assumption].
Qed.

Section OrdDue.
  Variable hb : Z -> bytes.
  Hypothesis hb_len : forall a, hash_ok a -> length (hb a) = 32%nat.
  Hypothesis hb_mono : forall a b, hash_ok a -> hash_ok b -> a < b -> blt (hb a) (hb b).

  Theorem due_new_in_store_order (q : list (Z * CtxId)) (h : Z) :
    (forall e, In e q -> nn_cid (snd e)) ->
    Sorted (fun c c' => ble (GetNewRequestBatchKey (enc_ctx hb c) h)
                            (GetNewRequestBatchKey (enc_ctx hb c') h)) (due q h).
  Proof.
    intros Hq. unfold due.
    eapply Sorted_impl_in; [|apply (isort_sorted ctxid_leb ctxid_leb_total)].
    assert (Hin : forall c, In c (isort ctxid_leb (map snd (filter (fun e => fst e =? h) q))) -> nn_cid c).
    { intros c Hc. apply isort_In in Hc. apply in_map_iff in Hc. destruct Hc as (e & <- & He).
      apply filter_In in He. apply Hq, He. }
    intros a b Ha Hb Hab. unfold le_of in Hab.
    apply (K_order_new_batch hb hb_len hb_mono a b h); auto.
  Qed.

  Theorem due_expired_in_store_order (q : list (Z * CtxId)) (h : Z) :
    (forall e, In e q -> nn_cid (snd e)) ->
    Sorted (fun c c' => ble (GetExpiredRequestBatchKey (enc_ctx hb c) h)
                            (GetExpiredRequestBatchKey (enc_ctx hb c') h)) (due q h).
  Proof.
    intros Hq. unfold due.
    eapply Sorted_impl_in; [|apply (isort_sorted ctxid_leb ctxid_leb_total)].
    assert (Hin : forall c, In c (isort ctxid_leb (map snd (filter (fun e => fst e =? h) q))) -> nn_cid c).
    { intros c Hc. apply isort_In in Hc. apply in_map_iff in Hc. destruct Hc as (e & <- & He).
      apply filter_In in He. apply Hq, He. }
    intros a b Ha Hb Hab. unfold le_of in Hab.
    apply (K_order_expired_batch hb hb_len hb_mono a b h); auto.
  Qed.
End OrdDue.
