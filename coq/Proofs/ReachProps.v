(* The invariant, conjunct by conjunct and spelled out, for every reachable state:
   the statements the property files restate. *)
From Coq Require Import List ZArith Bool Lia Permutation.
From SVC Require Import Base.AMap Base.Res Base.Dec Model.Types Model.Pricing
  Model.Handlers Model.EndBlock Model.Step Model.Queries Proofs.Inv Proofs.Lemmas Proofs.ReqLemmas
  Proofs.InvEscrow Proofs.InvReq Proofs.InvAll.
Import ListNotations.
Open Scope Z_scope.

Section Reachable.
Variable cfg : Params.
Variable s : State.
Hypothesis Hcfg : wf_cfg cfg.
Hypothesis Hreach : Reach cfg s.

Let Hinv : Inv cfg s := Reach_Inv cfg s Hcfg Hreach.

(* C01 *)
Theorem escrow_backed :
  bal s Escrow = msum fee_active (reqs s) + msum vid (earned s).
Proof. exact (inv_escrow _ _ Hinv). Qed.

(* C03 *)
Theorem deposit_backed :
  bal s Deposit = msum dep_of (binds s)
  /\ (forall k b, get k (binds s) = Some b -> 0 <= b_deposit b)
  /\ (forall a, 0 <= bal s a)
  /\ supply s = msum vid (bank s).
Proof.
  destruct (inv_deposit _ _ Hinv) as (D1 & D2). destruct (inv_bank _ _ Hinv) as (B1 & B2).
  split; [assumption|]. split; [intros k b G; apply (D2 k), get_In, G|].
  split; [intros a; apply get0_nonneg; exact B1|assumption].
Qed.

(* C11 *)
Theorem sched_consistent :
  (forall h c, In (h, c) (expq s) <-> get c (expq_h s) = Some h)
  /\ (forall h c, In (h, c) (newq s) <-> get c (newq_h s) = Some h)
  /\ (forall c, has c (expq_h s) = true -> has c (newq_h s) = true -> False)
  /\ (forall c, has c (expq_h s) = true \/ has c (newq_h s) = true -> has c (ctxs s) = true)
  /\ (forall c h, get c (expq_h s) = Some h -> height s <= h)
  /\ (forall c h, get c (newq_h s) = Some h -> height s <= h)
  /\ (forall c rc, get c (ctxs s) = Some rc -> c_state rc = Running ->
        has c (expq_h s) = true \/ has c (newq_h s) = true).
Proof. exact (inv_sched _ _ Hinv). Qed.

Theorem pending_request_scheduled r q :
  get r (reqs s) = Some q ->
  exists rc, get (rid_ctx r) (ctxs s) = Some rc
    /\ rid_batch r = c_counter rc
    /\ get (rid_ctx r) (expq_h s) = Some (r_exp q)
    /\ In (r_exp q, rid_ctx r) (expq s)
    /\ height s <= r_exp q.
Proof.
  intros G. apply get_In in G. destruct (inv_req _ _ Hinv) as (R1 & _).
  destruct (R1 _ _ G) as (rc & A1 & A2 & A3 & _). exists rc.
  destruct (inv_sched _ _ Hinv) as (S1 & _ & _ & _ & S5 & _).
  split; [assumption|]. split; [assumption|]. split; [assumption|].
  split; [now apply S1|]. now apply (S5 (rid_ctx r)).
Qed.

(* C13 *)
Theorem owner_earnings_sum :
  (forall p e, get p (earned s) = Some e -> 0 < e /\ exists o, get p (owner_of s) = Some o)
  /\ (forall o e, get o (own_earned s) = Some e -> 0 < e)
  /\ (forall o, get0 o (own_earned s) = msum (owned_by s o) (earned s)).
Proof.
  destruct (inv_earn _ _ Hinv) as (E1 & E2 & E3).
  split; [intros p e G; apply E1, get_In, G|]. split; [intros o e G; apply (E2 o), get_In, G|assumption].
Qed.

(* C14 *)
Theorem available_has_min_deposit k b :
  get k (binds s) = Some b -> b_avail b = true ->
  Z.max (pr_price (pricing_of s k) * p_multiple cfg) (p_min_deposit cfg) <= b_deposit b
  /\ pricing_of s k = parse_pricing (b_raw b).
Proof.
  intros G Ha. pose proof (get_In _ _ _ G) as Hin. split; [exact (inv_min _ _ Hinv k b Hin Ha)|].
  destruct (inv_index _ _ Hinv) as (I1 & _). destruct (I1 _ _ Hin) as (_ & _ & _ & Gp & _).
  unfold pricing_of. now rewrite Gp.
Qed.

(* C15 *)
Theorem index_consistent :
  (forall k b, get k (binds s) = Some b ->
     has (fst k) (defs s) = true
     /\ get (snd k) (owner_of s) = Some (b_owner b)
     /\ In (b_owner b, fst k, snd k) (own_bind s)
     /\ get k (pricing s) = Some (parse_pricing (b_raw b))
     /\ validate_pricing (parse_pricing (b_raw b)) = true
     /\ schema_pricing (parse_pricing (b_raw b)) = true)
  /\ (forall o svc p, In (o, svc, p) (own_bind s) <->
        exists b, get (svc, p) (binds s) = Some b /\ b_owner b = o)
  /\ (forall o p, In (o, p) (own_prov s) <-> get p (owner_of s) = Some o)
  /\ (forall k, has k (pricing s) = true -> has k (binds s) = true)
  /\ NoDup (own_bind s) /\ NoDup (own_prov s).
Proof.
  destruct (inv_index _ _ Hinv) as (I1 & I2 & I3 & I4).
  pose proof (inv_wf _ _ Hinv) as W.
  split.
  { intros k b G. destruct (I1 _ _ (get_In _ _ _ G)) as (A1 & A2 & A3 & A4 & A5 & A6 & _). repeat split; assumption. }
  split.
  { intros o svc p. split; [apply I2|]. intros (b & G & <-).
    destruct (I1 _ _ (get_In _ _ _ G)) as (_ & _ & A3 & _). exact A3. }
  split; [assumption|]. split; [assumption|]. split; apply W.
Qed.

(* C12 / C16: requests, responses, counts *)
Theorem request_records_sound :
  (forall r q, get r (reqs s) = Some q ->
     exists rc, get (rid_ctx r) (ctxs s) = Some rc
       /\ rid_batch r = c_counter rc
       /\ get (rid_ctx r) (expq_h s) = Some (r_exp q)
       /\ 0 <= r_fee q /\ 0 <= rid_index r < c_breq rc /\ rid_height r < r_exp q
       /\ has (r_prov q) (owner_of s) = true
       /\ has (c_svc rc, r_prov q) (binds s) = true
       /\ (c_super rc = true -> r_fee q = 0))
  /\ (forall r x, get r (resps s) = Some x ->
        exists q, get r (reqs s) = Some q /\ r_active q = false)
  /\ (forall c rc, get c (ctxs s) = Some rc ->
        0 <= c_bresp rc <= c_breq rc
        /\ msum (active_in c) (reqs s)
           = (if has c (expq_h s) && negb (c_bdone rc) then c_breq rc - c_bresp rc else 0)
        /\ (has c (expq_h s) = true -> c_bdone rc = true -> 1 <= c_breq rc /\ c_bresp rc = c_breq rc)
        /\ (has c (expq_h s) = false -> c_bdone rc = true)).
Proof.
  destruct (inv_req _ _ Hinv) as (R1 & R2 & R3).
  split; [intros r q G; apply R1, get_In, G|]. split; [intros r x G; apply (R2 r x), get_In, G|assumption].
Qed.

(* C09 / C10: shape of every context record *)
Theorem context_shape c rc :
  get c (ctxs s) = Some rc ->
    1 <= c_timeout rc <= p_max_timeout cfg
    /\ 0 <= c_counter rc
    /\ (c_rep rc = true -> c_timeout rc <= c_freq rc)
    /\ (c_rep rc = true -> 0 < c_total rc -> c_counter rc <= c_total rc)
    /\ (c_rep rc = false ->
          (c_counter rc = 0 /\ has c (expq_h s) = false)
          \/ (c_counter rc = 1 /\ c_state rc = Running /\ has c (expq_h s) = true))
    /\ (c_mod rc = 0 \/ c_mod rc = p_cbmod cfg)
    /\ 0 < c_cap rc.
Proof.
  intros G. destruct (inv_ctx _ _ Hinv c rc G) as (A1 & A2 & _ & A4 & A5 & A6 & A7 & A8 & _).
  repeat split; auto; lia.
Qed.

(* C17: the index-consistency hypotheses of the query theorems *)
Theorem query_hypotheses :
  idx_own_bind_ok s /\ reqs_have_ctx s
  /\ wf (defs s) /\ wf (binds s) /\ wf (ctxs s) /\ wf (reqs s) /\ wf (resps s)
  /\ wf (wdaddr s) /\ wf (earned s) /\ NoDup (own_bind s).
Proof.
  pose proof (inv_wf _ _ Hinv) as W.
  split.
  { unfold idx_own_bind_ok. intros o svc p. destruct index_consistent as (_ & I2 & _). apply I2. }
  split.
  { unfold reqs_have_ctx. intros r q G. destruct request_records_sound as (R1 & _).
    destruct (R1 _ _ G) as (rc & A & _). eauto. }
  repeat split; apply W.
Qed.

End Reachable.

(* C01 inside EndBlock: after each per-context handler of either phase *)
Theorem escrow_backed_inside_end_block cfg s :
  wf_cfg cfg -> Reach cfg s -> height s < HEIGHT_BOUND ->
  forall k,
    let s1 := fold_left (expire_one cfg) (firstn k (due (expq s) (height s))) s in
    bal s1 Escrow = msum fee_active (reqs s1) + msum vid (earned s1).
Proof.
  intros Hcfg Hr Hb k. cbv zeta.
  apply (inv_escrow cfg). apply Inv_inside_end_block; auto using Reach_Inv.
Qed.
