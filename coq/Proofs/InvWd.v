(* I_wd (repair D11; supports C01, C03, C13): a stored withdrawal address is never a
   module account. Only MsgSetWithdrawAddress writes the map, and it rejects blocked
   addresses; every other operation leaves the map untouched. The conjunct needs no
   other part of the invariant. *)
From Coq Require Import List ZArith Bool Lia.
From SVC Require Import Base.AMap Base.Res Base.Dec Model.Types Model.Pricing
  Model.Handlers Model.EndBlock Model.Step Proofs.Inv Proofs.Lemmas Proofs.InvWf Proofs.CtxOps
  Proofs.PFrame Proofs.WdLemmas.
Import ListNotations.
Open Scope Z_scope.

Lemma I_wd_handle cfg s o s' : handle cfg s o = Ok s' -> I_wd s -> I_wd s'.
Proof.
  intros H Hwd. destruct (is_setwd o) eqn:E.
  - destruct o; try discriminate. cbn [handle] in H.
    pose proof (setwd_unblocked _ _ _ _ _ H) as Hb.
    apply setwd_inv in H. destruct H as [_ ->].
    unfold I_wd. sproj. intros o w Hg. rewrite get_set in Hg.
    destruct (eqb o owner); [injection Hg as <-; exact Hb|eauto].
  - eapply I_wd_frame; [|exact Hwd]. eapply wdaddr_msg; eauto.
Qed.

Lemma I_wd_step cfg s o : I_wd s -> I_wd (fst (step cfg s o)).
Proof.
  intros Hwd. unfold step. destruct (handle cfg s o) as [s'| |] eqn:E; cbn [fst]; try assumption.
  eapply I_wd_handle; eauto.
Qed.

Lemma I_wd_init h0 t0 f : 1 <= h0 -> 0 <= t0 -> wf_funding f -> I_wd (init h0 t0 f).
Proof. intros _ _ _. unfold I_wd, init. sproj. intros o w Hg. discriminate Hg. Qed.

Lemma I_wd_msg cfg s o s' : wf_cfg cfg -> Inv cfg s -> wf_op s o -> (forall dt, o <> OEndBlock dt) ->
  handle cfg s o = Ok s' -> I_wd s'.
Proof. intros _ HI _ _ H. eapply I_wd_handle; eauto. apply HI. Qed.

Lemma I_wd_expire_one cfg s c : wf_cfg cfg -> Inv cfg s -> In (height s, c) (expq s) -> height s < HEIGHT_BOUND ->
  I_wd (expire_one cfg s c).
Proof.
  intros _ HI _ _. eapply I_wd_frame; [|apply HI].
  destruct (ff_expire_one cfg s c) as [[] _]. assumption.
Qed.

Lemma I_wd_new_one cfg s c : wf_cfg cfg -> Inv cfg s -> In (height s, c) (newq s) -> height s < HEIGHT_BOUND ->
  I_wd (new_one cfg s c).
Proof.
  intros _ HI _ _. eapply I_wd_frame; [|apply HI].
  destruct (ff_new_one cfg s c) as [[] _]. assumption.
Qed.

Lemma I_wd_tick s dt : I_wd s -> I_wd (set_time (set_height s (height s + 1)) (time s + dt)).
Proof. intros H. eapply I_wd_frame; [|exact H]. reflexivity. Qed.

Theorem Reach_I_wd cfg s : Reach cfg s -> I_wd s.
Proof.
  induction 1 as [h0 t0 f H1 H2 Hf|s o _ IH _]; [now apply I_wd_init|now apply I_wd_step].
Qed.

Lemma I_wd_run cfg ops s : I_wd s -> I_wd (run cfg s ops).
Proof. intros H. unfold run. apply fold_inv; [intros; now apply I_wd_step|assumption]. Qed.
