(* C09: the whole-EndBlock transition relation and its lifts to histories. *)
From Coq Require Import List ZArith Bool Lia.
From SVC Require Import Base.AMap Base.Res Base.Dec Model.Types Model.Pricing
  Model.Handlers Model.EndBlock Model.Step Proofs.Inv Proofs.Lemmas Proofs.CtxOps
  Proofs.InvSched Proofs.InvCtx Proofs.InvAll Proofs.ReachRun Proofs.StepSpecs_ctx
  Proofs.StepSpecs_batch Proofs.GapOrigin Proofs.GapC09 Proofs.BatchEx.
Import ListNotations.
Open Scope Z_scope.

(* ------------------------------------------------------------------ *)
(* D. one whole EndBlock *)

(* what a context record may look like after an EndBlock, relative to before: terms and static
   fields equal; counter equal or + 1 (only while Running, and it stays Running); state equal or
   Running -> Paused (funds; never in super mode; no batch was started) *)
Definition eb_rel (rc rc' : Ctx) : Prop :=
  terms_eq rc rc'
  /\ (c_counter rc' = c_counter rc
      \/ (c_counter rc' = c_counter rc + 1 /\ c_state rc = Running /\ c_state rc' = Running))
  /\ (c_state rc' = c_state rc
      \/ (c_state rc = Running /\ c_state rc' = Paused /\ c_super rc = false
          /\ c_counter rc' = c_counter rc)).

Lemma eb_rel_refl rc : eb_rel rc rc.
Proof. split; [apply terms_eq_refl|auto]. Qed.

(* the expiry phase changes at most the batch-completed flag *)
Definition r1 (rc rc1 : Ctx) : Prop := rc1 = rc \/ rc1 = setc_bdone rc true.

Lemma r1_eb rc rc1 rc' : r1 rc rc1 -> eb_rel rc1 rc' -> eb_rel rc rc'.
Proof.
  intros [->| ->]; [auto|]. unfold eb_rel, terms_eq, static_eq. cbn. tauto.
Qed.

Lemma r1_d5 rc rc1 : r1 rc rc1 -> d5 rc1 = d5 rc.
Proof. intros [->| ->]; reflexivity. Qed.

Definition exp_out (rc : Ctx) (o : option Ctx) : Prop :=
  (o = None /\ (c_state rc = Completed \/ (c_state rc = Running /\ more rc = false)))
  \/ (exists rc1, o = Some rc1 /\ r1 rc rc1).

Lemma fold_expire_ctx cfg l s c :
  wf_cfg cfg -> Inv cfg s -> height s < HEIGHT_BOUND -> NoDup l ->
  (forall a, In a l -> In (height s, a) (expq s)) ->
  (~ In c l -> get c (ctxs (fold_left (expire_one cfg) l s)) = get c (ctxs s))
  /\ (In c l -> exists rc, get c (ctxs s) = Some rc
                 /\ exp_out rc (get c (ctxs (fold_left (expire_one cfg) l s)))).
Proof.
  intros Hcfg. revert s. induction l as [|a l IH]; intros s Hi Hb Hn Hl; cbn [fold_left].
  { split; [reflexivity|intros []]. }
  inversion Hn as [|? ? Hna Hn']; subst.
  assert (Hda : In (height s, a) (expq s)) by (apply Hl; now left).
  pose proof (Inv_expire_one cfg s a Hcfg Hi Hda Hb) as Hi1.
  pose proof (height_expire_one cfg s a Hcfg Hi Hda Hb) as Eh.
  pose proof (expq_after_expire_one cfg s a Hcfg Hi Hda Hb) as Eq.
  destruct (transition_expire_one cfg s a Hcfg Hi Hda Hb) as (rc & Grc & Ho & Hcase).
  destruct (IH (expire_one cfg s a) Hi1) as (K1 & K2); try assumption.
  - now rewrite Eh.
  - intros c0 Hc0. rewrite Eh. apply Eq. split; [apply Hl; now right|]. intros ->. contradiction.
  - split.
    + intros Hni. rewrite K1 by (intros E; apply Hni; now right).
      apply Ho. intros E. apply Hni. now left.
    + intros [E|Hin].
      * subst a. exists rc. split; [exact Grc|]. rewrite (K1 Hna).
        destruct Hcase as [(E & H)|(rc1 & E & H & _)]; [left; auto|right].
        exists rc1. split; [exact E|]. unfold r1. tauto.
      * assert (Hne : c <> a) by (intros ->; contradiction).
        destruct (K2 Hin) as (rc0 & G0 & H0). exists rc0. split; [|exact H0].
        now rewrite <- (Ho _ Hne).
Qed.

Lemma fold_new_ctx cfg l s c :
  wf_cfg cfg -> Inv cfg s -> height s < HEIGHT_BOUND -> NoDup l ->
  (forall a, In a l -> In (height s, a) (newq s)) ->
  (~ In c l -> get c (ctxs (fold_left (new_one cfg) l s)) = get c (ctxs s))
  /\ (In c l -> exists rc, get c (ctxs s) = Some rc
        /\ match get c (ctxs (fold_left (new_one cfg) l s)) with
           | None => d5 rc = true
           | Some rc' => eb_rel rc rc'
           end).
Proof.
  intros Hcfg. revert s. induction l as [|a l IH]; intros s Hi Hb Hn Hl; cbn [fold_left].
  { split; [reflexivity|intros []]. }
  inversion Hn as [|? ? Hna Hn']; subst.
  assert (Hda : In (height s, a) (newq s)) by (apply Hl; now left).
  pose proof (Inv_new_one cfg s a Hcfg Hi Hda Hb) as Hi1.
  pose proof (height_new_one cfg s a Hcfg Hi Hda Hb) as Eh.
  pose proof (newq_after_new_one cfg s a Hcfg Hi Hda Hb) as Eq.
  destruct (transition_new_one cfg s a Hcfg Hi Hda Hb) as (rc & Grc & Ho & Hcase). cbv zeta in Hcase.
  destruct (IH (new_one cfg s a) Hi1) as (K1 & K2); try assumption.
  - now rewrite Eh.
  - intros c0 Hc0. rewrite Eh. apply Eq. split; [apply Hl; now right|]. intros ->. contradiction.
  - split.
    + intros Hni. rewrite K1 by (intros E; apply Hni; now right).
      apply Ho. intros E. apply Hni. now left.
    + intros [E|Hin].
      * subst a. exists rc. split; [exact Grc|]. rewrite (K1 Hna).
        destruct (get c (ctxs (new_one cfg s c))) as [rc'|] eqn:G'.
        -- exact (new_one_terms cfg s c c rc rc' Hcfg Hi Hda Hb Grc G').
        -- destruct Hcase as [(_ & E)|[(_ & Hd & _)|[(_ & _ & _ & E)|[(_ & _ & _ & _ & _ & _ & E)|(_ & _ & _ & _ & _ & E)]]]];
             try congruence.
      * assert (Hne : c <> a) by (intros ->; contradiction).
        destruct (K2 Hin) as (rc0 & G0 & H0). exists rc0. split; [|exact H0].
        now rewrite <- (Ho _ Hne).
Qed.

(* C09_transition_end_block *)
Theorem transition_end_block cfg s dt c rc :
  wf_cfg cfg -> Inv cfg s -> height s < HEIGHT_BOUND -> get c (ctxs s) = Some rc ->
  match get c (ctxs (end_block cfg s dt)) with
  | None => c_state rc = Completed
            \/ (c_state rc = Running
                /\ (c_rep rc = false \/ (0 <= c_total rc /\ c_total rc <= c_counter rc)))
  | Some rc' => eb_rel rc rc'
  end.
Proof.
  intros Hcfg Hi Hb Grc. unfold end_block, end_blocker. sproj.
  set (l1 := due (expq s) (height s)).
  assert (Hn1 : NoDup l1) by (apply NoDup_due; apply (inv_wf _ _ Hi)).
  assert (Hl1 : forall c, In c l1 -> In (height s, c) (expq s)) by (intros c0; apply In_due).
  destruct (fold_expire_phase cfg l1 s Hcfg Hi Hb Hn1 Hl1) as (I1 & H1 & _).
  destruct (fold_expire_ctx cfg l1 s c Hcfg Hi Hb Hn1 Hl1) as (P1 & P2).
  set (sx := fold_left (expire_one cfg) l1 s) in *.
  set (l2 := due (newq sx) (height sx)).
  assert (Hn2 : NoDup l2) by (apply NoDup_due; apply (inv_wf _ _ I1)).
  assert (Hl2 : forall c, In c l2 -> In (height sx, c) (newq sx)) by (intros c0; apply In_due).
  assert (Hb1 : height sx < HEIGHT_BOUND) by now rewrite H1.
  destruct (fold_new_ctx cfg l2 sx c Hcfg I1 Hb1 Hn2 Hl2) as (N1 & N2).
  set (sf := fold_left (new_one cfg) l2 sx) in *.
  (* after the expiry phase *)
  assert (Hx : exp_out rc (get c (ctxs sx))).
  { destruct (mem c l1) eqn:M.
    - apply mem_In in M. destruct (P2 M) as (rc0 & G0 & H0). assert (rc0 = rc) by congruence. now subst.
    - apply mem_nIn in M. rewrite (P1 M), Grc. right. exists rc. split; [reflexivity|now left]. }
  destruct Hx as [(Ex & Hst)|(rc1 & Ex & Hr1)].
  - (* removed by the expiry phase: not due for a new batch *)
    assert (Hni : ~ In c l2).
    { intros Hin. destruct (due_new cfg sx c I1 (Hl2 _ Hin)) as (rc0 & G0 & _). congruence. }
    rewrite (N1 Hni), Ex.
    destruct Hst as [Hst|(Hst & Hm)]; [now left|right]. split; [exact Hst|]. now apply more_false.
  - destruct (mem c l2) eqn:M.
    + apply mem_In in M. destruct (N2 M) as (rc0 & G0 & H0).
      assert (rc0 = rc1) by congruence. subst rc0.
      destruct (get c (ctxs sf)) as [rc'|].
      * eapply r1_eb; eauto.
      * rewrite (r1_d5 _ _ Hr1) in H0. apply d5_true in H0. destruct H0 as (A & B & C & D).
        right. split; [exact A|]. right. lia.
    + apply mem_nIn in M. rewrite (N1 M), Ex. eapply r1_eb; [exact Hr1|apply eb_rel_refl].
Qed.

(* EndBlock never creates a context *)
Theorem end_block_creates_no_ctx cfg s dt c :
  wf_cfg cfg -> Inv cfg s -> height s < HEIGHT_BOUND ->
  get c (ctxs s) = None -> get c (ctxs (end_block cfg s dt)) = None.
Proof.
  intros Hcfg Hi Hb G. unfold end_block, end_blocker. sproj.
  set (l1 := due (expq s) (height s)).
  assert (Hn1 : NoDup l1) by (apply NoDup_due; apply (inv_wf _ _ Hi)).
  assert (Hl1 : forall c, In c l1 -> In (height s, c) (expq s)) by (intros c0; apply In_due).
  destruct (fold_expire_phase cfg l1 s Hcfg Hi Hb Hn1 Hl1) as (I1 & H1 & _).
  destruct (fold_expire_ctx cfg l1 s c Hcfg Hi Hb Hn1 Hl1) as (P1 & _).
  set (sx := fold_left (expire_one cfg) l1 s) in *.
  set (l2 := due (newq sx) (height sx)).
  assert (Hn2 : NoDup l2) by (apply NoDup_due; apply (inv_wf _ _ I1)).
  assert (Hl2 : forall c, In c l2 -> In (height sx, c) (newq sx)) by (intros c0; apply In_due).
  assert (Hb1 : height sx < HEIGHT_BOUND) by now rewrite H1.
  destruct (fold_new_ctx cfg l2 sx c Hcfg I1 Hb1 Hn2 Hl2) as (N1 & _).
  assert (Hni1 : ~ In c l1).
  { intros Hin. destruct (due_exp cfg s c Hi (Hl1 _ Hin)) as (rc0 & G0 & _). congruence. }
  assert (Gx : get c (ctxs sx) = None) by (rewrite (P1 Hni1); exact G).
  assert (Hni2 : ~ In c l2).
  { intros Hin. destruct (due_new cfg sx c I1 (Hl2 _ Hin)) as (rc0 & G0 & _). congruence. }
  rewrite (N1 Hni2). exact Gx.
Qed.

(* Completed is final through EndBlock: the record is removed or stays Completed with its
   terms, threshold and counter frozen (only the batch bookkeeping may be closed) *)
Corollary completed_final_end_block cfg s dt c rc :
  wf_cfg cfg -> Inv cfg s -> height s < HEIGHT_BOUND -> get c (ctxs s) = Some rc ->
  c_state rc = Completed ->
  match get c (ctxs (end_block cfg s dt)) with
  | None => True
  | Some rc' => c_state rc' = Completed /\ c_counter rc' = c_counter rc /\ terms_eq rc rc'
  end.
Proof.
  intros Hcfg Hi Hb G Hc. pose proof (transition_end_block cfg s dt c rc Hcfg Hi Hb G) as H.
  destruct (get c (ctxs (end_block cfg s dt))) as [rc'|]; [|exact I].
  destruct H as (Ht & Hcnt & Hst). split; [|split; [|exact Ht]].
  - destruct Hst as [E|(E & _)]; congruence.
  - destruct Hcnt as [E|(_ & E & _)]; congruence.
Qed.

(* ------------------------------------------------------------------ *)
(* E. histories *)

(* Completed by a message: everything but the batch bookkeeping is frozen, threshold included *)
Theorem completed_final_msg_thr cfg s o s' c rc rc' :
  wf_cfg cfg -> Inv cfg s -> wf_op s o -> (forall dt, o <> OEndBlock dt) ->
  handle cfg s o = Ok s' -> get c (ctxs s) = Some rc -> get c (ctxs s') = Some rc' ->
  c_state rc = Completed ->
  c_state rc' = Completed /\ c_counter rc' = c_counter rc /\ terms_eq rc rc'
  /\ c_bthr rc' = c_bthr rc.
Proof.
  intros Hcfg Hi Ho Hne H G G' Hc.
  assert (Hok : forall x, x = rc \/ x = setc_state rc Completed
            \/ x = setc_bresp rc (c_bresp rc + 1) \/ x = setc_bdone (setc_bresp rc (c_bresp rc + 1)) true ->
          c_state x = Completed /\ c_counter x = c_counter rc /\ terms_eq rc x /\ c_bthr x = c_bthr rc).
  { intros x [->|[->|[->| ->]]]; unfold terms_eq, static_eq; cbn; auto 20. }
  destruct (msg_ctx_change cfg s o s' c rc rc' Hcfg Hi Ho Hne H G G')
    as [E|who ok Eo Ew Em Hrep Hr E|who ok Eo Ew Em Hp E|who ok Eo Ew Em Hrep E
       |who provs cap timeout freq total ok capo Eo Ew Em Hn E|r who code out ov ok q Eo Ec Eq E
       |who provs thr cap timeout freq total capo Eo Ew Em Hn Hthr E|who Eo Ew Em Hrep Hr E
       |who Eo Ew Em Hp E|who Eo Ew Em Hrep E]; try congruence; apply Hok; tauto.
Qed.

(* the relation between the records of one context at two points of a history *)
Definition hist_rel (rc rc' : Ctx) : Prop :=
  static_eq rc rc' /\ c_counter rc <= c_counter rc'
  /\ (c_state rc = Completed ->
        c_state rc' = Completed /\ c_counter rc' = c_counter rc /\ terms_eq rc rc').

Lemma static_eq_trans a b c : static_eq a b -> static_eq b c -> static_eq a c.
Proof. unfold static_eq. intuition congruence. Qed.

Lemma hist_rel_refl rc : hist_rel rc rc.
Proof. split; [apply static_eq_refl|]. split; [lia|]. intros Hc. split; [exact Hc|]. split; [reflexivity|apply terms_eq_refl]. Qed.

Lemma hist_rel_trans a b c : hist_rel a b -> hist_rel b c -> hist_rel a c.
Proof.
  intros (S1 & C1 & F1) (S2 & C2 & F2). split; [eapply static_eq_trans; eauto|]. split; [lia|].
  intros Hc. destruct (F1 Hc) as (A1 & A2 & A3). destruct (F2 A1) as (B1 & B2 & B3).
  split; [exact B1|]. split; [congruence|eapply terms_eq_trans; eauto].
Qed.

Lemma eb_rel_hist rc rc' : eb_rel rc rc' -> hist_rel rc rc'.
Proof.
  intros (Ht & Hcnt & Hst). split; [apply Ht|]. split; [destruct Hcnt as [E|(E & _)]; lia|].
  intros Hc. split; [destruct Hst as [E|(E & _)]; congruence|].
  split; [destruct Hcnt as [E|(_ & E & _)]; congruence|exact Ht].
Qed.

(* one step of the machine *)
Theorem step_hist cfg s o c rc rc' :
  wf_cfg cfg -> Inv cfg s -> wf_op s o ->
  get c (ctxs s) = Some rc -> get c (ctxs (fst (step cfg s o))) = Some rc' -> hist_rel rc rc'.
Proof.
  intros Hcfg Hi Ho G. unfold step. destruct (handle cfg s o) as [s'| |] eqn:E; cbn [fst]; intros G';
    try (assert (rc' = rc) by congruence; subst; apply hist_rel_refl).
  assert (Hmsg : (forall dt, o <> OEndBlock dt) -> hist_rel rc rc').
  { intros Hne. split; [exact (C09_static_msg cfg s o s' c rc rc' Hcfg Hi Ho Hne E G G')|].
    split; [rewrite (C10_counter_msg cfg s o s' c rc rc' Hcfg Hi Ho Hne E G G'); lia|].
    intros Hc. destruct (completed_final_msg_thr cfg s o s' c rc rc' Hcfg Hi Ho Hne E G G' Hc)
      as (A & B & C & _). auto. }
  destruct o; try (apply Hmsg; discriminate).
  cbn [handle] in E. injection E as <-. cbn [wf_op] in Ho. destruct Ho as (_ & Hb).
  pose proof (transition_end_block cfg s dt c rc Hcfg Hi Hb G) as H. rewrite G' in H.
  now apply eb_rel_hist.
Qed.

(* a context id is never re-created: once its creation is in the log and the context is gone,
   it stays gone *)
Theorem never_recreated cfg s ops c :
  wf_cfg cfg -> Reach cfg s -> In (EvCtxCreated c) (log s) -> get c (ctxs s) = None ->
  wf_run cfg s ops -> get c (ctxs (run cfg s ops)) = None.
Proof.
  intros Hcfg. revert s. induction ops as [|o t IH]; intros s HR Hlog G Hw; [exact G|].
  destruct Hw as (Ho & Ht). unfold run. cbn [fold_left]. fold (run cfg (fst (step cfg s o)) t).
  pose proof (Reach_Inv cfg s Hcfg HR) as Hi.
  apply IH; [now apply Reach_step|apply (log_step_incl cfg s o (inv_wd _ _ Hi)), Hlog| |exact Ht].
  unfold step. destruct (handle cfg s o) as [s'| |] eqn:E; cbn [fst]; try exact G.
  assert (Hmsg : (forall dt, o <> OEndBlock dt) -> get c (ctxs s') = None).
  { intros Hne. destruct (get c (ctxs s')) as [rc'|] eqn:G'; [|reflexivity]. exfalso.
    destruct (msg_creates_ctx cfg s o s' c rc' E Hne G G') as (Hc & _).
    destruct o; cbn [creates] in Hc; try contradiction; subst; cbn [wf_op] in Ho;
      destruct Ho as (Hf & _); exact (Hf Hlog). }
  destruct o; try (apply Hmsg; discriminate).
  cbn [handle] in E. injection E as <-. cbn [wf_op] in Ho. destruct Ho as (_ & Hb).
  now apply end_block_creates_no_ctx.
Qed.

(* C09_history: along any history, as long as the context exists: static fields constant,
   counter monotone, Completed is final with frozen terms and counter *)
Theorem history cfg s ops c rc rc' :
  wf_cfg cfg -> Reach cfg s -> wf_run cfg s ops ->
  get c (ctxs s) = Some rc -> get c (ctxs (run cfg s ops)) = Some rc' -> hist_rel rc rc'.
Proof.
  intros Hcfg. revert s rc. induction ops as [|o t IH]; intros s rc HR Hw G G'.
  { unfold run in G'. cbn [fold_left] in G'. assert (rc' = rc) by congruence. subst. apply hist_rel_refl. }
  destruct Hw as (Ho & Ht). unfold run in G'. cbn [fold_left] in G'. fold (run cfg (fst (step cfg s o)) t) in G'.
  pose proof (Reach_Inv cfg s Hcfg HR) as Hi.
  pose proof (Reach_step cfg s o HR Ho) as HR1.
  destruct (get c (ctxs (fst (step cfg s o)))) as [rc1|] eqn:G1.
  - eapply hist_rel_trans; [exact (step_hist cfg s o c rc rc1 Hcfg Hi Ho G G1)|].
    exact (IH _ rc1 HR1 Ht G1 G').
  - exfalso.
    assert (Hlog : In (EvCtxCreated c) (log s)).
    { destruct (inv_ctx _ _ Hi c rc G) as (_ & _ & _ & _ & _ & _ & _ & _ & H). exact H. }
    pose proof (never_recreated cfg _ t c Hcfg HR1
                  (log_step_incl cfg s o (inv_wd _ _ Hi) _ Hlog) G1 Ht) as Hn.
    congruence.
Qed.

(* a context that exists at the end of a history that started with it existed all along *)
Theorem present_throughout cfg s ops1 ops2 c rc rc' :
  wf_cfg cfg -> Reach cfg s -> wf_run cfg s (ops1 ++ ops2) ->
  get c (ctxs s) = Some rc -> get c (ctxs (run cfg s (ops1 ++ ops2))) = Some rc' ->
  exists rc1, get c (ctxs (run cfg s ops1)) = Some rc1 /\ hist_rel rc rc1 /\ hist_rel rc1 rc'.
Proof.
  intros Hcfg HR Hw G G'.
  assert (Hsplit : wf_run cfg s ops1 /\ wf_run cfg (run cfg s ops1) ops2).
  { clear G G' HR. revert s Hw. induction ops1 as [|o t IH]; intros s Hw; [split; [exact I|exact Hw]|].
    cbn [app wf_run] in Hw. destruct Hw as (Ho & Ht). destruct (IH _ Ht) as (A & B).
    split; [split; assumption|exact B]. }
  destruct Hsplit as (W1 & W2).
  assert (Erun : run cfg s (ops1 ++ ops2) = run cfg (run cfg s ops1) ops2)
    by (unfold run; now rewrite fold_left_app).
  rewrite Erun in G'.
  pose proof (reach_run cfg s ops1 HR W1) as HR1.
  destruct (get c (ctxs (run cfg s ops1))) as [rc1|] eqn:G1.
  - exists rc1. split; [reflexivity|].
    split; [exact (history cfg s ops1 c rc rc1 Hcfg HR W1 G G1)|exact (history cfg _ ops2 c rc1 rc' Hcfg HR1 W2 G1 G')].
  - exfalso.
    assert (Hlog : In (EvCtxCreated c) (log s)).
    { destruct (inv_ctx _ _ (Reach_Inv cfg s Hcfg HR) c rc G) as (_ & _ & _ & _ & _ & _ & _ & _ & H). exact H. }
    pose proof (never_recreated cfg _ ops2 c Hcfg HR1 (log_run_incl cfg s ops1 Hcfg HR W1 _ Hlog) G1 W2).
    congruence.
Qed.

(* ------------------------------------------------------------------ *)
(* the hypotheses are satisfiable: the histories of Proofs/BatchEx.v *)
Module ExH.
  Import BEx.
  Definition rest : list Op := skipn (length ops_c) ops_p3.

  (* the third batch of the repeated context c2 is due at height 21 and its consumer cannot pay:
     Running -> Paused through EndBlock, counter unchanged *)
  Example end_block_funds_pause :
    wf_cfg cfg0 /\ Reach cfg0 s_n3 /\ height s_n3 < HEIGHT_BOUND
    /\ exists rc, get c2 (ctxs s_n3) = Some rc /\ c_state rc = Running /\ c_super rc = false
         /\ c_counter rc = 2
         /\ get c2 (ctxs (end_block cfg0 s_n3 1)) = Some (paused_ctx rc).
  Proof.
    split; [exact wf_cfg0|]. split; [exact reach_n3|]. split; [vm_compute; reflexivity|].
    eexists. split; [vm_compute; reflexivity|]. vm_compute. auto.
  Qed.

  (* the one-shot context c1 is removed by the EndBlock of its expiry height *)
  Example end_block_removes_oneshot :
    Reach cfg0 s_e /\ height s_e < HEIGHT_BOUND
    /\ (exists rc, get c1 (ctxs s_e) = Some rc /\ c_state rc = Running /\ c_rep rc = false)
    /\ get c1 (ctxs (end_block cfg0 s_e 1)) = None.
  Proof.
    split; [exact reach_e|]. split; [vm_compute; reflexivity|].
    split; [eexists; split; [vm_compute; reflexivity|vm_compute; auto]|vm_compute; reflexivity].
  Qed.

  (* the life of c2 from its creation (height 1) to its funds pause (height 22) *)
  Example history_hyps :
    wf_cfg cfg0 /\ Reach cfg0 s_c /\ wf_run cfg0 s_c rest /\ run cfg0 s_c rest = s_p3
    /\ exists rc rc', get c2 (ctxs s_c) = Some rc /\ get c2 (ctxs (run cfg0 s_c rest)) = Some rc'
         /\ c_counter rc = 0 /\ c_state rc = Running /\ c_counter rc' = 2 /\ c_state rc' = Paused.
  Proof.
    split; [exact wf_cfg0|]. split; [exact reach_c|]. split; [comp|]. split; [vm_compute; reflexivity|].
    eexists. eexists. split; [vm_compute; reflexivity|]. split; [vm_compute; reflexivity|].
    vm_compute. auto.
  Qed.

  Example history_applies :
    forall rc rc', get c2 (ctxs s_c) = Some rc -> get c2 (ctxs (run cfg0 s_c rest)) = Some rc' ->
    static_eq rc rc' /\ c_counter rc <= c_counter rc'.
  Proof.
    intros rc rc' G G'. destruct history_hyps as (Hc & HR & Hw & _).
    destruct (history cfg0 s_c rest c2 rc rc' Hc HR Hw G G') as (A & B & _). auto.
  Qed.
End ExH.
