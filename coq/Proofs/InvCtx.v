(* placeholder *)
