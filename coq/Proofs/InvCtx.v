(* I_ctx (properties C09/C10: static shape of every context record) and I_time are
   preserved by every operation. *)
From Coq Require Import List ZArith Bool Lia Permutation.
From SVC Require Import Base.AMap Base.Res Base.Dec Model.Types Model.Pricing
  Model.Handlers Model.EndBlock Model.Step Proofs.Inv Proofs.Lemmas Proofs.CtxOps
  Proofs.InvSched.
Import ListNotations.
Open Scope Z_scope.

(* ------------------------------------------------------------------ *)
(* ctx_ok under the record changes the handlers make *)

(* every field I_ctx reads is unchanged, except possibly state / pending expiry *)
Lemma ctx_ok_eq cfg rc rc' e e' :
  ctx_ok cfg rc e ->
  c_timeout rc' = c_timeout rc -> c_counter rc' = c_counter rc -> c_freq rc' = c_freq rc ->
  c_rep rc' = c_rep rc -> c_total rc' = c_total rc -> c_mod rc' = c_mod rc -> c_cap rc' = c_cap rc ->
  (c_rep rc = false ->
     ((c_counter rc = 0 /\ e = false) \/ (c_counter rc = 1 /\ c_state rc = Running /\ e = true)) ->
     (c_counter rc = 0 /\ e' = false) \/ (c_counter rc = 1 /\ c_state rc' = Running /\ e' = true)) ->
  ctx_ok cfg rc' e'.
Proof.
  unfold ctx_ok. intros (A & B & C & D & E & F & G & I) -> -> -> -> -> -> -> Hn.
  repeat split; tauto.
Qed.

Lemma new_ctx_ok cfg svc provs cons input capv timeout super rep freq total thr md :
  wf_cfg cfg -> valid_request provs timeout rep freq total = true ->
  timeout <= p_max_timeout cfg -> 0 < capv -> 0 <= freq < HEIGHT_BOUND ->
  (md = 0 \/ md = p_cbmod cfg) ->
  ctx_ok cfg (new_ctx svc provs cons input capv timeout super rep freq total thr md) false.
Proof.
  intros Hcfg Hv Ht Hc Hf Hm. unfold wf_cfg in Hcfg. unfold valid_request in Hv.
  unfold ctx_ok, new_ctx. cbn [c_timeout c_counter c_freq c_rep c_total c_state c_mod c_cap].
  destruct rep.
  - b2p.
    match goal with Hx : (_ || _) = true |- _ => apply orb_prop in Hx; destruct Hx as [Hx|Hx] end;
    match goal with Hx : (_ || _) = true |- _ => apply orb_prop in Hx; destruct Hx as [Hx|Hx] end;
    b2p; destruct (freq =? 0) eqn:Ef; b2p; repeat split; intros; try discriminate; try lia; auto.
  - b2p. repeat split; intros; try discriminate; try lia; auto.
Qed.

Lemma upd_ctx_ok cfg rc provs capo timeout freq total e :
  ctx_ok cfg rc e ->
  (capo = None \/ exists capv, capo = Some capv /\ 0 < capv) ->
  0 <= timeout <= p_max_timeout cfg -> -1 <= total -> 0 <= freq < HEIGHT_BOUND ->
  (if timeout =? 0 then c_timeout rc else timeout) <= (if freq =? 0 then c_freq rc else freq) ->
  ~ (1 <= total < c_counter rc) ->
  ctx_ok cfg (upd_ctx rc provs capo timeout freq total) e.
Proof.
  intros Hok Hcap Ht Htot Hf Htf Hcnt.
  pose proof (upd_ctx_fixed rc provs capo timeout freq total) as Hfix.
  pose proof (upd_ctx_terms rc provs capo timeout freq total) as Hterm.
  cbv zeta in Hfix, Hterm.
  destruct Hfix as (_ & _ & _ & _ & Er & En & _ & _ & _ & _ & Es & _ & Em).
  destruct Hterm as (Eti & Efr & Eto & Eca).
  unfold ctx_ok in *. rewrite Er, En, Es, Em, Eti, Efr, Eto, Eca.
  destruct Hok as (A & B & C & D & E & F & G & I).
  assert (Hcap' : 0 < match capo with Some v => v | None => c_cap rc end).
  { destruct Hcap as [->|(v & -> & Hv)]; assumption. }
  destruct (timeout =? 0) eqn:E1, (freq =? 0) eqn:E2, (total =? 0) eqn:E3; b2p;
  repeat match goal with |- context [?a <? ?b] => destruct (a <? b) eqn:?; b2p end;
  repeat split; intros; try assumption; try lia; auto.
Qed.

Lemma bump_ok cfg rc n :
  ctx_ok cfg rc false -> d5 rc = false -> c_state rc = Running -> ctx_ok cfg (bump rc n) true.
Proof.
  unfold ctx_ok, bump, d5. cbn [c_timeout c_counter c_freq c_rep c_total c_state c_mod c_cap
    setc_bthr setc_breq setc_bresp setc_bdone setc_counter].
  intros (A & B & C & D & E & F & G & I) Hd Hr.
  apply is_state_true in Hr. rewrite Hr in Hd. apply is_state_true in Hr.
  repeat split; try tauto; try lia.
  - intros Hrep Htot. rewrite Hrep in Hd. cbn [andb] in Hd.
    destruct (0 <? c_total rc) eqn:E1; b2p; [|lia]. cbn [andb] in Hd. b2p. lia.
  - intros Hrep. right. destruct (F Hrep) as [[Hc _]|[_ [_ Hx]]]; [|discriminate]. auto with zarith.
Qed.

(* ------------------------------------------------------------------ *)
(* I_ctx *)

Lemma I_ctx_init cfg h0 t0 f : 1 <= h0 -> 0 <= t0 -> wf_funding f -> I_ctx cfg (init h0 t0 f).
Proof. intros _ _ _ c rc E. cbn in E. discriminate. Qed.

Lemma I_ctx_created cfg s c rc : Inv cfg s -> ctx_fresh s c -> ctx_ok cfg rc false ->
  I_ctx cfg (created s c rc).
Proof.
  intros HI Hf Hok. destruct (fresh_none _ _ _ HI Hf) as (Ex & Ee & En).
  apply (I_ctx_local cfg c s); [exact (inv_ctx _ _ HI)|unfold created; touch_auto|].
  unfold created. sproj. rewrite get_set_eq. intros rc0 E. injection E as <-.
  apply has_false in Ee. rewrite Ee. split; [exact Hok|now left].
Qed.

Lemma I_ctx_put cfg s sm c rc rc' :
  Inv cfg s -> SEq s sm -> get c (ctxs s) = Some rc ->
  (ctx_ok cfg rc (has c (expq_h s)) -> ctx_ok cfg rc' (has c (expq_h s))) ->
  I_ctx cfg (put_ctx sm c rc').
Proof.
  intros HI Hsm Erc Hok.
  destruct (I_ctx_get _ _ _ _ (inv_ctx _ _ HI) Erc) as (Hok0 & Hlog).
  apply (I_ctx_local cfg c s); [exact (inv_ctx _ _ HI)| |].
  - eapply Touch_trans; [apply SEq_Touch, Hsm|apply Touch_put_ctx].
  - sproj. destruct Hsm as [Eh1 Et1 Ec1 Eq1 Eqh1 En1 Enh1 El1]. rewrite Eqh1, get_set_eq.
    intros rc0 E. injection E as <-. split; [auto|]. apply El1, Hlog.
Qed.

Lemma I_ctx_started cfg s c rc :
  Inv cfg s -> get c (ctxs s) = Some rc -> c_state rc = Paused -> I_ctx cfg (started s c rc).
Proof.
  intros HI Erc Hp.
  destruct (I_ctx_get _ _ _ _ (inv_ctx _ _ HI) Erc) as (Hok0 & Hlog).
  assert (Hok : ctx_ok cfg (setc_state rc Running) (has c (expq_h s))).
  { eapply ctx_ok_eq; [exact Hok0|reflexivity..|].
    intros _ [Hx|(_ & Hx & _)]; [now left|congruence]. }
  apply (I_ctx_local cfg c s); [exact (inv_ctx _ _ HI)| |]; unfold started;
    destruct (negb (has c (expq_h s)) && negb (has c (newq_h s))).
  - touch_auto.
  - touch_auto.
  - sproj. rewrite get_set_eq. intros rc0 E. injection E as <-. auto.
  - sproj. rewrite get_set_eq. intros rc0 E. injection E as <-. auto.
Qed.

Lemma I_ctx_msg cfg s o s' : wf_cfg cfg -> Inv cfg s -> wf_op s o -> (forall dt, o <> OEndBlock dt) ->
  handle cfg s o = Ok s' -> I_ctx cfg s'.
Proof.
  intros Hcfg HI Hwf Hne H.
  destruct (ctx_op o) eqn:Hk.
  2:{ eapply I_ctx_SEq; [eapply msg_SEq; eauto|exact (inv_ctx _ _ HI)]. }
  destruct o; cbn [ctx_op] in Hk; try discriminate; cbn [handle] in H; cbn [wf_op] in Hwf.
  - (* call *) unfold h_call in H. inv_ok H. apply create_context_spec in H.
    destruct H as (capv & Hcap & Hto & _ & ->). destruct Hwf as (Hfr & Hfq).
    apply I_ctx_created; [assumption|assumption|].
    apply new_ctx_ok; auto.
  - (* modcall *) apply create_context_spec in H.
    destruct H as (capv & Hcap & Hto & Hmd & ->). destruct Hwf as (Hfr & Hfq & Hmd0).
    apply I_ctx_created; [assumption|assumption|].
    destruct Hmd as [Hmd|(Hmd & Hv)]; [contradiction|].
    apply new_ctx_ok; auto.
  - (* respond *) apply respond_spec in H.
    destruct H as (q & rc & sm & rc' & _ & Erc & Hsm & -> & Hrc').
    eapply I_ctx_put; eauto. intros Hok.
    destruct Hrc' as [->| ->]; (eapply ctx_ok_eq; [exact Hok|reflexivity..|tauto]).
  - (* pause *) apply h_pause_spec in H. destruct H as (rc & Erc & _ & _ & Hrep & Hr & ->).
    eapply I_ctx_put; eauto using SEq_refl. intros Hok.
    eapply ctx_ok_eq; [exact Hok|reflexivity..|]. intros; congruence.
  - (* start *) apply h_start_spec in H. destruct H as (rc & Erc & _ & _ & Hp & ->).
    eapply I_ctx_started; eauto.
  - (* kill *) apply h_kill_spec in H. destruct H as (rc & Erc & _ & _ & Hrep & ->).
    eapply I_ctx_put; eauto using SEq_refl. intros Hok.
    eapply ctx_ok_eq; [exact Hok|reflexivity..|]. intros; congruence.
  - (* update ctx *) apply h_update_ctx_spec in H.
    destruct H as (rc & capo & Erc & _ & _ & _ & Hcap & Hto & Htot & Htf & Hcnt & ->).
    eapply I_ctx_put; eauto using SEq_refl. intros Hok.
    apply upd_ctx_ok; assumption.
  - (* end block *) exfalso. eapply Hne. reflexivity.
  - (* module update *) destruct Hwf as (Hfq & Hown). apply h_mod_update_spec in H; [|exact Hown].
    destruct H as (rc & capo & Erc & _ & _ & _ & Hcap & Hto & Htot & Htf & Hcnt & _ & ->).
    eapply I_ctx_put; eauto using SEq_refl. intros Hok.
    set (t := if thr =? 0 then c_thr rc else thr).
    destruct (with_thr_fixed rc t)
      as (_ & _ & _ & _ & F5 & F6 & _ & F8 & F9 & F10 & F11 & _ & _ & _ & _ & F16 & F17).
    apply upd_ctx_ok; try assumption; rewrite ?F6, ?F9, ?F11; try assumption.
    eapply ctx_ok_eq; [exact Hok|assumption..|]. rewrite F16. tauto.
  - (* module pause *) apply h_mod_pause_spec in H. destruct H as (rc & Erc & _ & Hrep & Hr & ->).
    eapply I_ctx_put; eauto using SEq_refl. intros Hok.
    eapply ctx_ok_eq; [exact Hok|reflexivity..|]. intros; congruence.
  - (* module start *) apply h_mod_start_spec in H. destruct H as (rc & Erc & _ & Hp & ->).
    eapply I_ctx_started; eauto.
  - (* module kill *) apply h_mod_kill_spec in H. destruct H as (rc & Erc & _ & Hrep & ->).
    eapply I_ctx_put; eauto using SEq_refl. intros Hok.
    eapply ctx_ok_eq; [exact Hok|reflexivity..|]. intros; congruence.
Qed.

Lemma rc1_fields rc rc1 : rc1 = rc \/ (c_bdone rc = false /\ rc1 = setc_bdone rc true) ->
  c_timeout rc1 = c_timeout rc /\ c_counter rc1 = c_counter rc /\ c_freq rc1 = c_freq rc
  /\ c_rep rc1 = c_rep rc /\ c_total rc1 = c_total rc /\ c_mod rc1 = c_mod rc
  /\ c_cap rc1 = c_cap rc /\ c_state rc1 = c_state rc.
Proof. intros [->|[_ ->]]; repeat split; reflexivity. Qed.

Lemma I_ctx_expire_one cfg s c : wf_cfg cfg -> Inv cfg s -> In (height s, c) (expq s) ->
  height s < HEIGHT_BOUND -> I_ctx cfg (expire_one cfg s c).
Proof.
  intros Hcfg HI Hdue Hb.
  destruct (expire_one_spec cfg s c Hcfg HI Hdue Hb)
    as (rc & rc1 & Erc & Ee & En & Hrc1 & Ht & Q1 & Q2 & Ee' & Hcase).
  destruct (I_ctx_get _ _ _ _ (inv_ctx _ _ HI) Erc) as (Hok & Hlog).
  rewrite (has_of_get _ _ _ Ee) in Hok.
  destruct (rc1_fields _ _ Hrc1) as (F1 & F2 & F3 & F4 & F5 & F6 & F7 & F8).
  apply (I_ctx_local cfg c s); [exact (inv_ctx _ _ HI)|exact Ht|].
  apply has_false in Ee'. rewrite Ee'. intros rc0 E0.
  split; [|apply (t_log _ _ _ Ht), Hlog].
  destruct Hcase as [(Ex & _)|[(Ex & _ & Hr & Hm)|(Ex & _ & Hp)]]; rewrite Ex in E0;
    [discriminate| |]; injection E0 as <-.
  - eapply ctx_ok_eq; [exact Hok|assumption..|]. apply more_rep in Hm. intros; congruence.
  - eapply ctx_ok_eq; [exact Hok|assumption..|].
    intros _ [(_ & Hx)|(_ & Hx & _)]; congruence.
Qed.

Lemma I_ctx_new_one cfg s c : wf_cfg cfg -> Inv cfg s -> In (height s, c) (newq s) ->
  height s < HEIGHT_BOUND -> I_ctx cfg (new_one cfg s c).
Proof.
  intros Hcfg HI Hdue Hb.
  destruct (new_one_spec cfg s c HI Hdue)
    as (rc & Erc & En & Ee & Ht & Q1 & Q2 & En' & Hcase).
  destruct (I_ctx_get _ _ _ _ (inv_ctx _ _ HI) Erc) as (Hok & Hlog).
  apply has_false in Ee. rewrite Ee in Hok.
  apply (I_ctx_local cfg c s); [exact (inv_ctx _ _ HI)|exact Ht|].
  intros rc0 E0. split; [|apply (t_log _ _ _ Ht), Hlog].
  destruct Hcase as [(_ & Ex & Ee')|[(Hd & Hr & Ee' & n & Ex)|[(Hd & Hr & Ee' & Ex)|(Hr & Ee' & Ex)]]];
    rewrite Ex in E0; try discriminate; injection E0 as <-.
  - rewrite (has_of_get _ _ _ Ee'). apply bump_ok; assumption.
  - apply has_false in Ee'. rewrite Ee'.
    eapply ctx_ok_eq; [exact Hok|reflexivity..|].
    intros _ [Hx|(_ & _ & Hx)]; [now left|discriminate].
  - apply has_false in Ee'. rewrite Ee'. exact Hok.
Qed.

Lemma I_ctx_tick cfg s dt : I_ctx cfg s -> 0 <= dt ->
  I_ctx cfg (set_time (set_height s (height s + 1)) (time s + dt)).
Proof. intros H _. exact H. Qed.

(* ------------------------------------------------------------------ *)
(* I_time *)

Lemma msg_height_time cfg s o s' : (forall dt, o <> OEndBlock dt) -> handle cfg s o = Ok s' ->
  height s' = height s /\ time s' = time s.
Proof.
  intros Hne H.
  destruct (ctx_op o) eqn:Hk.
  2:{ destruct (msg_SEq _ _ _ _ H Hk). auto. }
  destruct o; cbn [ctx_op] in Hk; try discriminate; cbn [handle] in H.
  - unfold h_call in H. inv_ok H. apply create_context_spec in H.
    destruct H as (capv & _ & _ & _ & ->). split; reflexivity.
  - apply create_context_spec in H. destruct H as (capv & _ & _ & _ & ->). split; reflexivity.
  - apply respond_spec in H. destruct H as (q & rc & sm & rc' & _ & _ & [] & -> & _). sproj. auto.
  - apply h_pause_spec in H. destruct H as (rc & _ & _ & _ & _ & _ & ->). split; reflexivity.
  - apply h_start_spec in H. destruct H as (rc & _ & _ & _ & _ & ->). unfold started.
    destruct (negb (has c (expq_h s)) && negb (has c (newq_h s))); split; reflexivity.
  - apply h_kill_spec in H. destruct H as (rc & _ & _ & _ & _ & ->). split; reflexivity.
  - apply h_update_ctx_spec in H.
    destruct H as (rc & capo & _ & _ & _ & _ & _ & _ & _ & _ & _ & ->). split; reflexivity.
  - exfalso. eapply Hne. reflexivity.
  - mod_shape H; split; reflexivity.
  - mod_shape H; split; reflexivity.
  - mod_shape H; split; reflexivity.
  - mod_shape H; split; reflexivity.
Qed.

Lemma I_time_init h0 t0 f : 1 <= h0 -> 0 <= t0 -> wf_funding f -> I_time (init h0 t0 f).
Proof. intros H1 H2 _. split; assumption. Qed.

Lemma I_time_msg cfg s o s' : wf_cfg cfg -> Inv cfg s -> wf_op s o -> (forall dt, o <> OEndBlock dt) ->
  handle cfg s o = Ok s' -> I_time s'.
Proof.
  intros _ HI _ Hne H. destruct (msg_height_time _ _ _ _ Hne H) as (Eh & Et).
  unfold I_time. rewrite Eh, Et. exact (inv_time _ _ HI).
Qed.

Lemma I_time_expire_one cfg s c : wf_cfg cfg -> Inv cfg s -> In (height s, c) (expq s) ->
  height s < HEIGHT_BOUND -> I_time (expire_one cfg s c).
Proof.
  intros Hcfg HI Hdue Hb. unfold I_time.
  rewrite (height_expire_one cfg s c Hcfg HI Hdue Hb), (time_expire_one cfg s c Hcfg HI Hdue Hb).
  exact (inv_time _ _ HI).
Qed.

Lemma I_time_new_one cfg s c : wf_cfg cfg -> Inv cfg s -> In (height s, c) (newq s) ->
  height s < HEIGHT_BOUND -> I_time (new_one cfg s c).
Proof.
  intros Hcfg HI Hdue Hb. unfold I_time.
  rewrite (height_new_one cfg s c Hcfg HI Hdue Hb), (time_new_one cfg s c Hcfg HI Hdue Hb).
  exact (inv_time _ _ HI).
Qed.

Lemma I_time_tick s dt : I_time s -> 0 <= dt ->
  I_time (set_time (set_height s (height s + 1)) (time s + dt)).
Proof. intros [H1 H2] Hd. unfold I_time. sproj. lia. Qed.
