(* C19 gaps, second part: rebuilt indexes equal the originals; a plain export with a batch in
   flight is rejected; instances and refuting witnesses. *)
From Coq Require Import List ZArith Bool Lia Permutation.
From SVC Require Import Base.AMap Base.Res Base.Dec Model.Types Model.Pricing Model.Handlers
  Model.EndBlock Model.Step Model.Genesis Proofs.Inv Proofs.Lemmas Proofs.CtxOps Proofs.PFrame
  Proofs.InvAll Proofs.ReachRun Proofs.GenesisProofs Proofs.GapDBase Proofs.GapC19.
Import ListNotations.
Open Scope Z_scope.

(* ------------------------------------------------------------------ *)
(* an owner record exists only for a provider that has a binding (bindings are never deleted);
   not a conjunct of Inv, proved here over Reach *)

Definition owner_has_binding (s : State) : Prop :=
  forall p o, get p (owner_of s) = Some o -> exists svc b, get (svc, p) (binds s) = Some b.

Lemma ohb_keys s s' :
  owner_of s' = owner_of s ->
  (forall k b, get k (binds s) = Some b -> exists b', get k (binds s') = Some b') ->
  owner_has_binding s -> owner_has_binding s'.
Proof.
  intros Eo Hk H p o G. rewrite Eo in G. destruct (H _ _ G) as (svc & b & Gb).
  destruct (Hk _ _ Gb) as (b' & Gb'). eauto.
Qed.

Lemma keys_kept_set {V} (k : BKey) (v : V) (m : amap BKey V) k0 b :
  get k0 m = Some b -> exists b', get k0 (set k v m) = Some b'.
Proof. intros G. rewrite get_set. destruct (eqb k0 k); eauto. Qed.

Lemma ohb_step cfg s o : owner_has_binding s -> owner_has_binding (fst (step cfg s o)).
Proof.
  intros H. unfold step. destruct (handle cfg s o) as [s'| |] eqn:E; cbn [fst]; try exact H.
  destruct (static_op o) eqn:Hst.
  { pose proof (sframe_msg _ _ _ _ E Hst) as [_ Eo _ _ _ _ Hb].
    eapply ohb_keys; [exact Eo| |exact H].
    intros k b G. destruct (bsim_get _ _ _ _ Hb G) as (b' & G' & _). eauto. }
  destruct o; try discriminate; cbn [handle] in E.
  - apply define_inv in E. destruct E as (_ & _ & ->). exact H.
  - apply bind_inv in E.
    destruct E as (amt & raw & _ & _ & _ & _ & _ & _ & _ & _ & Eb & _ & _ & _ & _ & _ & Eo & _).
    intros p o G. rewrite Eb. rewrite Eo in G.
    destruct (get prov (owner_of s)) eqn:Gp.
    + destruct (H _ _ G) as (svc0 & b & Gb). exists svc0. eapply keys_kept_set; eauto.
    + rewrite get_set in G. destruct (eqb_spec p prov) as [->|Hn].
      * exists svc. rewrite get_set_eq. eauto.
      * destruct (H _ _ G) as (svc0 & b & Gb). exists svc0. eapply keys_kept_set; eauto.
  - apply update_inv in E. destruct E as (b & b' & _ & _ & _ & _ & [Eb|Eb] & _ & _ & Eo & _).
    + eapply ohb_keys; [exact Eo| |exact H]. intros k x G. rewrite Eb. eauto.
    + eapply ohb_keys; [exact Eo| |exact H]. intros k x G. rewrite Eb. eapply keys_kept_set; eauto.
  - apply enable_inv in E. destruct E as (b & amt & md & _ & _ & _ & _ & _ & Eb & _ & _ & Eo & _).
    eapply ohb_keys; [exact Eo| |exact H]. intros k x G. rewrite Eb. eapply keys_kept_set; eauto.
  - apply setwd_inv in E. destruct E as (_ & ->). exact H.
Qed.

Lemma Reach_owner_has_binding cfg s : Reach cfg s -> owner_has_binding s.
Proof.
  induction 1 as [h0 t0 f H1 H2 H3|s o H IH Ho].
  - intros p o G. discriminate G.
  - now apply ohb_step.
Qed.

(* ------------------------------------------------------------------ *)
(* the rebuilt indexes of the imported state equal the indexes of the exporting state *)

Theorem C19_indexes_rebuilt cfg h t s : wf_cfg cfg -> Reach cfg s ->
  let si := import_genesis h t (export_genesis cfg s) in
  (forall k, get k (pricing si) = get k (pricing s))
  /\ (forall p, get p (owner_of si) = get p (owner_of s))
  /\ (forall e, In e (own_bind si) <-> In e (own_bind s))
  /\ (forall e, In e (own_prov si) <-> In e (own_prov s)).
Proof.
  intros Hcfg Hr si. pose proof (Reach_Inv _ _ Hcfg Hr) as HI.
  pose proof (Reach_owner_has_binding _ _ Hr) as Hohb.
  destruct (C19_reach_hyps cfg s Hcfg Hr) as (_ & _ & _ & Hw & Hso).
  pose proof (C19_import_indexes h t _ (export_wf cfg s Hw) Hso) as (X1 & X2 & X3 & X4 & _ & _).
  fold si in X1, X2, X3, X4.
  destruct (import_families h t _ (export_wf cfg s Hw)) as (_ & Eb & _ & _ & _).
  fold si in Eb. cbn [export_genesis g_binds] in Eb.
  destruct (inv_index _ _ HI) as (I1 & I2 & I3 & I4).
  assert (Wb : wf (binds s)) by apply (inv_wf _ _ HI).
  assert (Hown : forall p, get p (owner_of si) = get p (owner_of s)).
  { intros p. destruct (get p (owner_of s)) as [o|] eqn:G.
    - apply X2. destruct (Hohb _ _ G) as (svc & b & Gb). exists svc, b. rewrite Eb.
      split; [exact Gb|]. destruct (I1 _ _ (get_In _ _ _ Gb)) as (_ & Go & _). cbn [snd] in Go. congruence.
    - destruct (get p (owner_of si)) as [o|] eqn:G'; [|reflexivity]. exfalso.
      apply X2 in G'. destruct G' as (svc & b & Gb & _). rewrite Eb in Gb.
      destruct (I1 _ _ (get_In _ _ _ Gb)) as (_ & Go & _). cbn [snd] in Go. congruence. }
  split; [|split; [exact Hown|split]].
  - intros k. rewrite X4, Eb. destruct (get k (binds s)) as [b|] eqn:G; cbn [option_map].
    + destruct (I1 _ _ (get_In _ _ _ G)) as (_ & _ & _ & Gp & _). now rewrite Gp.
    + destruct (get k (pricing s)) as [p|] eqn:Gp; [|reflexivity]. exfalso.
      assert (Hh : has k (pricing s) = true) by (unfold has; now rewrite Gp).
      apply I4 in Hh. unfold has in Hh. rewrite G in Hh. discriminate.
  - intros [[o svc] p]. rewrite X1, Eb. split.
    + intros (b & G & <-). destruct (I1 _ _ (get_In _ _ _ G)) as (_ & _ & A & _). exact A.
    + apply I2.
  - intros [o p]. rewrite X3, Hown. symmetry. apply I3.
Qed.

(* ------------------------------------------------------------------ *)
(* a plain export (no preparation) with a context that is not paused or has a batch in flight
   does not validate: the genesis of a live chain cannot be imported as it is *)

Theorem C19_plain_export_rejected cfg s c rc : In (c, rc) (ctxs s) ->
  (c_state rc <> Paused \/ c_bdone rc = false) -> validate_genesis (export_genesis cfg s) = false.
Proof.
  intros Hin Hns. unfold validate_genesis. cbn [export_genesis g_ctxs g_binds g_params].
  match goal with |- _ && ?x = false => destruct x eqn:E end; [|apply andb_false_r].
  exfalso. rewrite forallb_forall in E. specialize (E _ Hin). cbn [snd] in E.
  apply andb_prop in E. destruct E as [_ E]. unfold ctx_settled in E. apply andb_prop in E.
  destruct E as [E1 E2]. destruct Hns as [Hn|Hn]; [|congruence].
  apply Hn. destruct (c_state rc); cbn in E1; congruence.
Qed.

(* ------------------------------------------------------------------ *)
(* instances *)

Fixpoint wfv_run (cfg : Params) (s : State) (ops : list Op) : Prop :=
  match ops with
  | [] => True
  | o :: t => wf_op s o /\ args_valid o /\ wfv_run cfg (fst (step cfg s o)) t
  end.

Lemma reachV_run cfg s ops : ReachV cfg s -> wfv_run cfg s ops -> ReachV cfg (run cfg s ops).
Proof.
  revert s. induction ops as [|o t IH]; intros s Hr Hw; [exact Hr|].
  destruct Hw as (Ho & Ha & Ht). unfold run. cbn [fold_left].
  apply IH; [|exact Ht]. now apply ReachV_step.
Qed.

Ltac wfv_run_tac :=
  cbn [wfv_run]; repeat match goal with |- _ /\ _ => split end;
  try exact I;
  try (match goal with |- args_valid _ => cbn [args_valid]; try exact I; try (intros _); repeat split; zc end);
  try (unfold wf_op, ctx_fresh; repeat match goal with |- _ /\ _ => split end; zc).

Lemma wf_cfg_ex : wf_cfg ex_cfg.
Proof. unfold wf_cfg, ex_cfg, HEIGHT_BOUND, ONE. cbn. repeat split; try lia; discriminate. Qed.

Lemma params_ok_ex : params_ok ex_cfg.
Proof. reflexivity. Qed.

Lemma ex_funding_wf : wf_funding [(101, 1000); (111, 500); (112, 500)].
Proof. wf_funding_tac. Qed.

(* the example state of GenesisProofs is reachable in the validated domain: all theorems of
   this file apply to it *)
Example reachV_ex_state : ReachV ex_cfg ex_state.
Proof.
  unfold ex_state. apply reachV_run.
  - apply ReachV_init; [lia|lia|exact ex_funding_wf].
  - unfold ex_ops. wfv_run_tac.
Qed.

Example C19_reach_zero_height_roundtrip_ex :
  exists s' si, prep_zero_height ex_state = Some s' /\ bal s' Escrow = 0
    /\ init_genesis 0 0 (export_genesis ex_cfg s') = Ok si
    /\ export_genesis ex_cfg si = export_genesis ex_cfg s' /\ index_consistent si.
Proof. exact (C19_reach_zero_height_roundtrip ex_cfg 0 0 ex_state wf_cfg_ex params_ok_ex reachV_ex_state). Qed.

(* refuting witnesses: reachable states (wf_op only) whose prepared export does not validate *)

(* (i) a binding with qos 0: MsgBindService with QoS 0 is rejected by ValidateBasic in the code,
   but `OBind .. 0 .. true` is a well-formed operation of the model *)
Definition ops_qos0 : list Op :=
  [ODefine 1 1 true; OBind 1 121 (CBase 100) (Some (ex_raw 10)) 0 101 true].
Definition s_qos0 : State := run ex_cfg (init 10 0 [(101, 1000)]) ops_qos0.

(* (ii) a context without consumer *)
Definition ops_cons0 : list Op :=
  [ODefine 1 1 true; OCall (77, 0) 1 [121] 0 1 (CBase 1000) 2 false false 0 0 true true].
Definition s_cons0 : State := run ex_cfg (init 10 0 [(101, 1000)]) ops_cons0.

Lemma reach_qos0 : Reach ex_cfg s_qos0.
Proof.
  unfold s_qos0. apply reach_init_run; [lia|lia|wf_funding_tac|]. unfold ops_qos0. wf_run_tac.
Qed.

Lemma reach_cons0 : Reach ex_cfg s_cons0.
Proof.
  unfold s_cons0. apply reach_init_run; [lia|lia|wf_funding_tac|]. unfold ops_cons0. wf_run_tac.
Qed.

Theorem C19_export_valid_refuted :
  exists cfg s s', wf_cfg cfg /\ params_ok cfg /\ Reach cfg s
    /\ prep_zero_height s = Some s' /\ validate_genesis (export_genesis cfg s') = false
    /\ ~ bindings_ok s.
Proof.
  exists ex_cfg, s_qos0. eexists. split; [exact wf_cfg_ex|]. split; [exact params_ok_ex|].
  split; [exact reach_qos0|]. split; [vm_compute; reflexivity|]. split; [vm_compute; reflexivity|].
  intros Hb. assert (Hin : exists kb, In kb (binds s_qos0) /\ binding_valid kb = false).
  { eexists. split; [vm_compute; left; reflexivity|vm_compute; reflexivity]. }
  destruct Hin as (kb & Hin & Hf). rewrite (Hb _ Hin) in Hf. discriminate.
Qed.

Theorem C19_export_valid_refuted_ctx :
  exists cfg s s', wf_cfg cfg /\ params_ok cfg /\ Reach cfg s
    /\ prep_zero_height s = Some s' /\ validate_genesis (export_genesis cfg s') = false
    /\ bindings_ok s /\ ~ contexts_ok s.
Proof.
  exists ex_cfg, s_cons0. eexists. split; [exact wf_cfg_ex|]. split; [exact params_ok_ex|].
  split; [exact reach_cons0|]. split; [vm_compute; reflexivity|]. split; [vm_compute; reflexivity|].
  split; [intros kb Hin; vm_compute in Hin; destruct Hin|].
  intros Hc. assert (Hin : exists c rc, In (c, rc) (ctxs s_cons0) /\ ctx_struct_valid rc = false).
  { eexists. eexists. split; [vm_compute; left; reflexivity|vm_compute; reflexivity]. }
  destruct Hin as (c & rc & Hin & Hf). rewrite (Hc _ _ Hin) in Hf. discriminate.
Qed.

(* the plain export of the example state (a batch is in flight) is rejected *)
Example C19_plain_export_rejected_ex : validate_genesis (export_genesis ex_cfg ex_state) = false.
Proof.
  assert (H : exists c rc, In (c, rc) (ctxs ex_state) /\ (c_state rc <> Paused \/ c_bdone rc = false)).
  { eexists. eexists. split; [vm_compute; left; reflexivity|left; vm_compute; discriminate]. }
  destruct H as (c & rc & Hin & Hns). exact (C19_plain_export_rejected ex_cfg ex_state c rc Hin Hns).
Qed.

Example C19_indexes_rebuilt_ex :
  let si := import_genesis 0 0 (export_genesis ex_cfg ex_state) in
  (forall k, get k (pricing si) = get k (pricing ex_state))
  /\ (forall p, get p (owner_of si) = get p (owner_of ex_state)).
Proof.
  destruct (C19_indexes_rebuilt ex_cfg 0 0 ex_state wf_cfg_ex (ReachV_Reach _ _ reachV_ex_state))
    as (A & B & _). split; assumption.
Qed.

(* ------------------------------------------------------------------ *)
(* The code walks the by-binding marker index 0x14 (keeper/fees.go:213, invocation.go:768-770:
   order service, provider text, expiry, id), the model refunds in request-id order: for a
   reachable state ANY order of the same refunds succeeds and gives the same balances. *)
Theorem C19_refund_order_irrelevant cfg s l' : wf_cfg cfg -> Reach cfg s ->
  Permutation (refund_list s ++ earned_list s) l' ->
  exists s1 s1', pay_all (refund_list s ++ earned_list s) s = Some s1 /\ pay_all l' s = Some s1'
    /\ forall x, bal s1' x = bal s1 x.
Proof.
  intros Hcfg Hr P. set (l := refund_list s ++ earned_list s) in *.
  destruct (C19_reach_hyps cfg s Hcfg Hr) as (Hb & Hc & (Hq & He) & _).
  assert (Hnn : forall x, In x l -> 0 <= snd x).
  { intros x Hin. unfold l in Hin. apply in_app_or in Hin as [Hin|Hin].
    - unfold refund_list in Hin. apply in_flat_map in Hin as ([r q] & Hin & Hx).
      unfold active_reqs in Hin. apply (Permutation_in _ (isort_perm _ _)) in Hin.
      apply filter_In in Hin as [Hin Ha]. cbn [snd] in Ha.
      unfold refund_item in Hx. cbn [fst snd] in Hx.
      destruct (get (rid_ctx r) (ctxs s)); [|contradiction].
      destruct Hx as [<-|[]]. cbn [snd]. eauto.
    - destruct x as [p e]. cbn [snd]. eapply He. exact Hin. }
  assert (Htot : total l <= bal s Escrow).
  { unfold l. rewrite total_app, total_refund_list, total_earned_list by assumption.
    unfold escrow_backed in Hb. lia. }
  destruct (pay_all_ok l s Hnn Htot) as (s1 & E1).
  assert (Hnn' : forall x, In x l' -> 0 <= snd x).
  { intros x Hin. apply Hnn. eapply Permutation_in; [apply Permutation_sym; exact P|exact Hin]. }
  assert (Htot' : total l' <= bal s Escrow).
  { unfold total in *. now rewrite <- (lsum_perm snd l l' P). }
  destruct (pay_all_ok l' s Hnn' Htot') as (s1' & E1').
  exists s1, s1'. split; [exact E1|]. split; [exact E1'|].
  destruct (pay_all_bal _ _ _ E1) as (U1 & X1 & D1 & F1).
  destruct (pay_all_bal _ _ _ E1') as (U2 & X2 & D2 & F2).
  intros [a| | |].
  - rewrite U1, U2. unfold owed_to. now rewrite (lsum_perm _ l l' P).
  - rewrite X1, X2. unfold total. now rewrite (lsum_perm snd l l' P).
  - congruence.
  - congruence.
Qed.

(* ------------------------------------------------------------------ *)
(* "State survives": what does NOT survive.  The preparation pauses every context and forgets
   the batch in flight, but keeps the batch counter.  A ONE-SHOT context whose only batch was in
   flight at the export comes back Paused with counter 1 and no pending expiry: the imported state
   violates the shape invariant of one-shot contexts (I_ctx: counter 1 => running with a pending
   expiry), the consumer can start it (StartRequestContext has no `repeated` test,
   keeper/invocation.go:264-294) and the next EndBlock issues a SECOND batch for it. *)

(* the imported store, continued with the bank of the prepared state *)
Definition resume (sp si : State) : State := set_supply (set_bank si (bank sp)) (supply sp).

Definition ex_si : State := import_genesis 20 0 (export_genesis ex_cfg ex_prep).
Definition ex_resumed : State := resume ex_prep ex_si.

Theorem C19_oneshot_not_preserved_by_import :
  ReachV ex_cfg ex_state /\ prep_zero_height ex_state = Some ex_prep
  /\ init_genesis 20 0 (export_genesis ex_cfg ex_prep) = Ok ex_si
  /\ (exists rc, get (78, 0) (ctxs ex_state) = Some rc /\ c_rep rc = false /\ c_counter rc = 1
        /\ c_state rc = Running)
  /\ (exists rc, get (78, 0) (ctxs ex_si) = Some rc /\ c_rep rc = false /\ c_counter rc = 1
        /\ c_state rc = Paused /\ has (78, 0) (expq_h ex_si) = false)
  /\ ~ I_ctx ex_cfg ex_resumed
  (* the consumer starts it; one block later it has a request of batch 2 *)
  /\ keys (reqs (run ex_cfg ex_resumed [OStart (78, 0) 112 true; OEndBlock 1]))
     = [((78, 0), 2, 20, 0)].
Proof.
  split; [exact reachV_ex_state|]. split; [exact ex_prep_eq|].
  split; [vm_compute; reflexivity|].
  split; [eexists; split; [vm_compute; reflexivity|repeat split]|].
  split; [eexists; split; [vm_compute; reflexivity|repeat split]|].
  split; [|vm_compute; reflexivity].
  intros H.
  assert (G : exists rc, get (78, 0) (ctxs ex_resumed) = Some rc /\ c_rep rc = false /\ c_counter rc = 1
                /\ c_state rc = Paused /\ has (78, 0) (expq_h ex_resumed) = false).
  { eexists. split; [vm_compute; reflexivity|repeat split]. }
  destruct G as (rc & G & Hr & Hc & Hs & He).
  destruct (H _ _ G) as (_ & _ & _ & _ & _ & H6 & _).
  destruct (H6 Hr) as [(X & _)|(_ & X & _)]; [lia|congruence].
Qed.

(* the same reset un-kills: a context killed by its consumer (Completed, kept only until its
   in-flight batch expires) is Paused after the preparation, i.e. can be started again after the
   import (ResetRequestContextsStateAndBatch, keeper/invocation.go:1145-1161, sets PAUSED
   unconditionally) *)
Theorem C19_prep_unkills s s' c rc : prep_zero_height s = Some s' ->
  get c (ctxs s) = Some rc -> c_state rc = Completed ->
  exists rc', get c (ctxs s') = Some rc' /\ c_state rc' = Paused /\ c_counter rc' = c_counter rc.
Proof.
  intros E G _. destruct (C19_prep_contexts s s' E) as (_ & Hg & _).
  exists (reset_ctx rc). rewrite Hg, G. repeat split.
Qed.

(* args_valid spelled out (the statement of Properties/C19.v) *)
Lemma args_valid_def : forall o, args_valid o <->
  match o with
  | OBind _ prov _ _ qos owner ok => ok = true -> 0 < qos /\ prov <> 0 /\ owner <> 0
  | OUpdate _ _ _ _ qos _ ok => ok = true -> 0 <= qos
  | OCall _ _ _ cs _ _ _ _ _ _ _ _ ok => ok = true -> cs <> 0
  | OModCall _ _ _ cs _ _ _ _ _ _ _ _ _ _ => cs <> 0
  | _ => True
  end.
Proof. intros o. destruct o; cbn [args_valid]; tauto. Qed.
