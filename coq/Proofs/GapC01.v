(* Gap closing for C01:
     * per-step custody: the escrow balance and the recorded obligations (pending fees +
       unwithdrawn earnings) move by the same amount in every step, and that amount is the sum of
       the escrow effects of the ledger events the step appended;
     * the escrow balance moves only with a debit, tax, refund or withdraw event;
     * the invariant holds at every prefix of the new-batch phase of EndBlock as well (the
       hypothesis of C02_debit_exact / C05_new_one_debit_issued can be discharged there). *)
From Coq Require Import List ZArith Bool Lia.
From SVC Require Import Base.AMap Base.Res Base.Dec Model.Types Model.Pricing
  Model.Handlers Model.EndBlock Model.Step Proofs.Inv Proofs.Lemmas Proofs.InvEscrow Proofs.InvAll
  Proofs.ReachRun Proofs.TraceLemmas Proofs.TraceSettle Proofs.TraceMoney.
Import ListNotations.
Open Scope Z_scope.

(* the obligations the escrow account backs *)
Definition oblig (s : State) : Z := msum fee_active (reqs s) + msum vid (earned s).

(* the events that move escrow coins *)
Definition escrow_event (e : Event) : Prop :=
  match e with
  | EvDebit _ _ a | EvTax _ a | EvRefund _ _ a | EvWithdraw _ _ a => a <> 0
  | _ => False
  end.

Lemma evs_delta_nonzero d x : evs_delta d x <> 0 -> exists e, In e d /\ ev_delta e x <> 0.
Proof.
  induction d as [|e d IH]; intros H; [cbn in H; lia|].
  rewrite evs_delta_cons in H.
  destruct (Z.eq_dec (ev_delta e x) 0) as [E|E].
  - destruct IH as (e' & Hin & He'); [lia|]. exists e'. split; [now right|exact He'].
  - exists e. split; [now left|exact E].
Qed.

Lemma ev_delta_escrow e : ev_delta e Escrow <> 0 -> escrow_event e.
Proof.
  destruct e; cbn [ev_delta escrow_event]; unfold into; cbn [eqb EqDec_Acct acct_eqb]; intros H; lia.
Qed.

(* every successful operation, the plain bank send included *)
Lemma MV_any cfg s o s' : I_wd s -> handle cfg s o = Ok s' ->
  exists d, log s' = d ++ log s /\ bal s' Escrow = bal s Escrow + evs_delta d Escrow.
Proof.
  intros Hwd H. destruct o;
    try (destruct (only_events_move_money cfg s _ s' Hwd H) as (d & El & Hb); [discriminate|];
         exists d; split; [exact El|apply Hb]).
  destruct (transfer_moves cfg s from to amt s' H) as (El & Hb).
  exists []. split; [exact El|]. rewrite Hb. unfold into. cbn. lia.
Qed.

Theorem escrow_moves_only_by cfg s o s' :
  I_wd s -> handle cfg s o = Ok s' -> bal s' Escrow <> bal s Escrow ->
  exists d e, log s' = d ++ log s /\ bal s' Escrow = bal s Escrow + evs_delta d Escrow
    /\ In e d /\ escrow_event e.
Proof.
  intros Hwd H Hne. destruct (MV_any cfg s o s' Hwd H) as (d & El & Hb).
  destruct (evs_delta_nonzero d Escrow) as (e & Hin & He); [lia|].
  exists d, e. repeat split; try assumption. now apply ev_delta_escrow.
Qed.

(* per-step custody *)
Theorem custody_step cfg s o :
  wf_cfg cfg -> Reach cfg s -> wf_op s o ->
  let s' := fst (step cfg s o) in
  bal s' Escrow - bal s Escrow
    = (msum fee_active (reqs s') - msum fee_active (reqs s)) + (msum vid (earned s') - msum vid (earned s))
  /\ exists d, log s' = d ++ log s
       /\ bal s' Escrow - bal s Escrow = evs_delta d Escrow
       /\ oblig s' - oblig s = evs_delta d Escrow.
Proof.
  intros Hcfg HR Ho s'.
  pose proof (Reach_Inv cfg s Hcfg HR) as HI.
  assert (HR' : Reach cfg s') by (apply Reach_step; assumption).
  pose proof (Reach_Inv cfg s' Hcfg HR') as HI'.
  pose proof (inv_escrow _ _ HI) as E. pose proof (inv_escrow _ _ HI') as E'. unfold I_escrow in E, E'.
  split; [lia|].
  assert (Hd : exists d, log s' = d ++ log s /\ bal s' Escrow = bal s Escrow + evs_delta d Escrow).
  { unfold s', step. destruct (handle cfg s o) as [x| |] eqn:H; cbn [fst].
    - apply (MV_any cfg s o x (inv_wd _ _ HI) H).
    - exists []. cbn. split; [reflexivity|lia].
    - exists []. cbn. split; [reflexivity|lia]. }
  destruct Hd as (d & El & Hb). exists d. split; [exact El|]. unfold oblig. split; lia.
Qed.

(* history level: the escrow balance, and with it the recorded obligations, is the sum of the
   escrow effects of all ledger events of the history: debits in, taxes / refunds /
   withdrawals out *)
Theorem escrow_ledger cfg s : wf_cfg cfg -> Reach cfg s ->
  bal s Escrow = evs_delta (log s) Escrow /\ oblig s = evs_delta (log s) Escrow.
Proof.
  intros Hcfg HR.
  assert (H : bal s Escrow = evs_delta (log s) Escrow).
  { induction HR as [h0 t0 f H1 H2 H3|s o HR IH Ho].
    - pose proof (I_escrow_init h0 t0 f) as E. unfold I_escrow in E. rewrite E. reflexivity.
    - pose proof (Reach_Inv cfg s Hcfg HR) as HI.
      unfold step. destruct (handle cfg s o) as [s'| |] eqn:E; cbn [fst]; try exact IH.
      destruct (MV_any cfg s o s' (inv_wd _ _ HI) E) as (d & El & Hb).
      rewrite Hb, El, evs_delta_app, IH. lia. }
  split; [exact H|]. pose proof (inv_escrow _ _ (Reach_Inv cfg s Hcfg HR)) as E.
  unfold I_escrow in E. unfold oblig. lia.
Qed.

(* ------------------------------------------------------------------ *)
(* inside EndBlock, new-batch phase *)

Lemma nth_error_split {A} (l : list A) k c :
  nth_error l k = Some c -> l = firstn k l ++ c :: skipn (S k) l.
Proof.
  revert l. induction k as [|k IH]; intros [|a l] H; cbn in H; try discriminate.
  - injection H as ->. reflexivity.
  - cbn [firstn skipn app]. f_equal. now apply IH.
Qed.

Theorem Inv_inside_new_phase cfg s :
  wf_cfg cfg -> Inv cfg s -> height s < HEIGHT_BOUND ->
  let s1 := fold_left (expire_one cfg) (due (expq s) (height s)) s in
  forall k,
    let s2 := fold_left (new_one cfg) (firstn k (due (newq s1) (height s1))) s1 in
    Inv cfg s1 /\ Inv cfg s2 /\ height s2 = height s /\ time s2 = time s
    /\ forall c, nth_error (due (newq s1) (height s1)) k = Some c -> In (height s2, c) (newq s2).
Proof.
  intros Hcfg Hi Hb s1 k s2.
  set (l1 := due (expq s) (height s)) in *.
  assert (Hn1 : NoDup l1) by (apply NoDup_due; apply (inv_wf _ _ Hi)).
  assert (Hl1 : forall c, In c l1 -> In (height s, c) (expq s)) by (intros c; apply In_due).
  destruct (fold_expire_phase cfg l1 s Hcfg Hi Hb Hn1 Hl1) as (I1 & H1 & T1 & _).
  fold s1 in I1, H1, T1.
  set (l2 := due (newq s1) (height s1)) in *.
  assert (Hn2 : NoDup l2) by (apply NoDup_due; apply (inv_wf _ _ I1)).
  assert (Hb1 : height s1 < HEIGHT_BOUND) by now rewrite H1.
  assert (Hnk : NoDup (firstn k l2)).
  { rewrite <- (firstn_skipn k l2) in Hn2. now apply NoDup_app_remove_r' in Hn2. }
  assert (Hlk : forall c, In c (firstn k l2) -> In (height s1, c) (newq s1)).
  { intros c Hc. apply In_due. fold l2. rewrite <- (firstn_skipn k l2). apply in_or_app. now left. }
  destruct (fold_new_phase cfg (firstn k l2) s1 Hcfg I1 Hb1 Hnk Hlk) as (I2 & H2 & T2 & Q2 & _).
  fold s2 in I2, H2, T2, Q2.
  split; [exact I1|]. split; [exact I2|]. split; [congruence|]. split; [congruence|].
  intros c Hc. rewrite H2. apply Q2. split.
  - apply In_due. fold l2. eapply nth_error_In; eauto.
  - apply nth_error_split in Hc. rewrite Hc in Hn2. apply NoDup_remove_2 in Hn2.
    intros Hin. apply Hn2. apply in_or_app. now left.
Qed.

Theorem escrow_backed_inside_new_phase cfg s :
  wf_cfg cfg -> Reach cfg s -> height s < HEIGHT_BOUND ->
  let s1 := fold_left (expire_one cfg) (due (expq s) (height s)) s in
  forall k,
    let s2 := fold_left (new_one cfg) (firstn k (due (newq s1) (height s1))) s1 in
    bal s2 Escrow = msum fee_active (reqs s2) + msum vid (earned s2).
Proof.
  intros Hcfg HR Hb s1 k s2.
  destruct (Inv_inside_new_phase cfg s Hcfg (Reach_Inv cfg s Hcfg HR) Hb k) as (_ & I2 & _).
  exact (inv_escrow _ _ I2).
Qed.

(* the steps of the example history of Proofs/TraceSettle.v that move escrow: the first EndBlock
   (debit 200) and the valid response (tax 10) *)
Example tx_custody :
  let s := run tx_cfg tx_s0 (firstn 4 tx_ops) in
  let s' := fst (step tx_cfg s (OEndBlock 5)) in
  let s'' := fst (step tx_cfg s' (ORespond tx_r1 11 0 5 true true)) in
  (bal s Escrow, oblig s) = (0, 0) /\ (bal s' Escrow, oblig s') = (200, 200)
  /\ (bal s'' Escrow, oblig s'') = (190, 190)
  /\ evs_delta (firstn 4 (log s')) Escrow = 200 /\ evs_delta (firstn 3 (log s'')) Escrow = -10.
Proof. vm_compute. repeat split. Qed.
