(* The response threshold of a module context and its per-batch copy (properties C06 / C12).
   ResponseThreshold (c_thr) is a term of the context: only keeper.UpdateRequestContext called by
   the owning module (OModUpdate) changes it.  BatchResponseThreshold (c_bthr) belongs to the batch:
   it is written only when a batch is started (issued or skipped), as a copy of the threshold in
   force at that moment, which is also the threshold that decides between issuing and skipping;
   the response callback of the batch is judged by the copy (TraceBatch.v: done_events). *)
From Coq Require Import List ZArith Bool Lia Permutation.
From SVC Require Import Base.AMap Base.Res Base.Dec Model.Types Model.Pricing
  Model.Handlers Model.EndBlock Model.Step Proofs.Inv Proofs.Lemmas Proofs.CtxOps
  Proofs.InvSched Proofs.InvCtx Proofs.StepSpecs_ctx Proofs.StepSpecs_batch.
Import ListNotations.
Open Scope Z_scope.

(* the new-batch handler decides with the CURRENT threshold of the stored record and makes it the
   threshold of the batch it starts *)
Theorem C06_batch_threshold cfg s c :
  wf_cfg cfg -> Inv cfg s -> In (height s, c) (newq s) -> height s < HEIGHT_BOUND ->
  exists rc, get c (ctxs s) = Some rc /\
    let E := filter_providers s rc (c_provs rc) in
    forall rc', get c (ctxs (new_one cfg s c)) = Some rc' -> c_counter rc' <> c_counter rc ->
      c_counter rc' = c_counter rc + 1 /\ c_thr rc' = c_thr rc /\ c_bthr rc' = c_thr rc
      /\ c_bresp rc' = 0 /\ c_bdone rc' = false
      /\ (   ((len E = 0 \/ len E < c_thr rc) /\ c_breq rc' = 0)
          \/ (0 < len E /\ c_thr rc <= len E /\ c_breq rc' = len E)).
Proof.
  intros Hcfg HI Hdue Hb.
  destruct (C06_batch_spec_flat cfg s c Hcfg HI Hdue Hb) as (rc & Erc & Hspec).
  exists rc. split; [exact Erc|]. cbv zeta in Hspec |- *.
  destruct Hspec as (Ha & Hb5 & Hc & Hd & He).
  set (E := filter_providers s rc (c_provs rc)) in *.
  intros rc' Erc' Hcnt.
  destruct (cstate_eqb (c_state rc) Running) eqn:Hr.
  2:{ assert (Hn : c_state rc <> Running) by (apply is_state_false; exact Hr).
      destruct (Ha Hn) as (_ & Ex & _). rewrite Ex in Erc'. injection Erc' as <-. contradiction. }
  assert (Hrun : c_state rc = Running) by (apply is_state_true; exact Hr).
  destruct (d5 rc) eqn:Hd5.
  { destruct (Hb5 eq_refl) as (_ & Ex & _). rewrite Ex in Erc'. discriminate. }
  assert (Hbump : forall n, rc' = bump rc n ->
            c_counter rc' = c_counter rc + 1 /\ c_thr rc' = c_thr rc /\ c_bthr rc' = c_thr rc
            /\ c_bresp rc' = 0 /\ c_bdone rc' = false /\ c_breq rc' = n).
  { intros n ->. repeat split. }
  destruct (Z_lt_le_dec 0 (len E)) as [Hpos|Hz].
  2:{ assert (Hl : len E = 0) by (unfold len in *; lia).
      destruct (Hc Hrun eq_refl (or_introl Hl)) as (_ & Ex & _).
      rewrite Ex in Erc'. injection Erc' as <-.
      destruct (Hbump 0 eq_refl) as (A & B & C & D & F & G). auto 10. }
  destruct (Z_lt_le_dec (len E) (c_thr rc)) as [Ht|Ht].
  { destruct (Hc Hrun eq_refl (or_intror Ht)) as (_ & Ex & _).
    rewrite Ex in Erc'. injection Erc' as <-.
    destruct (Hbump 0 eq_refl) as (A & B & C & D & F & G). auto 10. }
  destruct (c_super rc) eqn:Hs.
  { destruct (He Hrun eq_refl Hpos Ht (or_introl eq_refl)) as (_ & _ & _ & _ & _ & _ & _ & _ & _ & _ & Ex & _).
    rewrite Ex in Erc'. injection Erc' as <-.
    destruct (Hbump (len E) eq_refl) as (A & B & C & D & F & G). auto 10. }
  destruct (Z_lt_le_dec (bal s (User (c_cons rc))) (sum_prices E)) as [Hp|Hp].
  { destruct (Hd Hrun eq_refl Hpos Ht eq_refl Hp) as (_ & Ex & _).
    rewrite Ex in Erc'. injection Erc' as <-. exfalso. apply Hcnt. reflexivity. }
  destruct (He Hrun eq_refl Hpos Ht (or_intror Hp)) as (_ & _ & _ & _ & _ & _ & _ & _ & _ & _ & Ex & _).
  rewrite Ex in Erc'. injection Erc' as <-.
  destruct (Hbump (len E) eq_refl) as (A & B & C & D & F & G). auto 10.
Qed.

(* no message and no keeper call touches the threshold recorded for the current batch; the
   threshold of the context changes only by the owning module's update, to the positive value it
   asks for, which is at most the number of providers the context has afterwards *)
Theorem C12_batch_threshold_msg cfg s o s' c rc rc' :
  wf_cfg cfg -> Inv cfg s -> wf_op s o -> (forall dt, o <> OEndBlock dt) ->
  handle cfg s o = Ok s' ->
  get c (ctxs s) = Some rc -> get c (ctxs s') = Some rc' ->
  c_bthr rc' = c_bthr rc
  /\ (c_thr rc' <> c_thr rc ->
        exists provs thr cap timeout freq total,
          o = OModUpdate c (c_cons rc) provs thr cap timeout freq total /\ c_mod rc <> 0
          /\ c_thr rc' = thr /\ 1 <= thr <= len (c_provs rc')).
Proof.
  intros Hcfg HI Hwf Hne H Erc Erc'.
  destruct (msg_ctx_change _ _ _ _ _ _ _ Hcfg HI Hwf Hne H Erc Erc')
    as [->|who ok _ _ _ _ _ ->|who ok _ _ _ _ ->|who ok _ _ _ _ ->
        |who provs cap timeout freq total ok capo _ _ _ _ ->|r who code out ov ok q _ _ _ [->| ->]
        |who provs thr cap timeout freq total capo -> -> Hm _ Hthr ->
        |who _ _ _ _ _ ->|who _ _ _ _ ->|who _ _ _ _ ->];
    try (split; [reflexivity|intros Hx; exfalso; apply Hx; reflexivity]).
  - pose proof (upd_ctx_fixed rc provs capo timeout freq total) as Hf. cbv zeta in Hf.
    destruct Hf as (_ & _ & _ & _ & _ & _ & _ & _ & F9 & _ & _ & F12 & _).
    split; [exact F9|]. intros Hx. contradiction.
  - set (t := if thr =? 0 then c_thr rc else thr) in *.
    pose proof (upd_thr_fixed rc t provs capo timeout freq total) as Hf. cbv zeta in Hf.
    destruct Hf as (_ & _ & _ & _ & _ & _ & _ & _ & F9 & _ & _ & F12 & _).
    split; [exact F9|]. intros Hx. rewrite F12 in Hx |- *.
    exists provs, thr, cap, timeout, freq, total.
    split; [reflexivity|]. split; [exact Hm|].
    assert (Hp : c_provs (upd_ctx (with_thr rc t) provs capo timeout freq total)
                 = match provs with [] => c_provs rc | _ => provs end).
    { unfold upd_ctx, with_thr. destruct capo, provs, (0 <? t), (total =? 0);
        repeat match goal with |- context [if ?b then _ else _] => destruct b end; reflexivity. }
    rewrite Hp. subst t. destruct (thr =? 0) eqn:E0.
    + exfalso. apply Hx. destruct (0 <? c_thr rc); reflexivity.
    + destruct (0 <? thr) eqn:E1; b2p; [|contradiction]. split; [reflexivity|lia].
Qed.

(* the two per-context EndBlock handlers: the expiry handler touches neither threshold; the
   new-batch handler never changes the threshold of the context *)
Theorem C12_batch_threshold_expire_one cfg s c c' rc rc' :
  wf_cfg cfg -> Inv cfg s -> In (height s, c) (expq s) -> height s < HEIGHT_BOUND ->
  get c' (ctxs s) = Some rc -> get c' (ctxs (expire_one cfg s c)) = Some rc' ->
  c_thr rc' = c_thr rc /\ c_bthr rc' = c_bthr rc.
Proof.
  intros Hcfg HI Hdue Hb Erc Erc'.
  destruct (expire_one_spec cfg s c Hcfg HI Hdue Hb)
    as (rc0 & rc1 & Erc0 & Ee & En & Hrc1 & Ht & Q1 & Q2 & Ee' & Hcase).
  destruct (eqb_spec c' c) as [->|Hn].
  - assert (rc0 = rc) by congruence. subst rc0.
    assert (rc' = rc1).
    { destruct Hcase as [(Ex & _)|[(Ex & _)|(Ex & _)]]; congruence. }
    subst rc'. destruct Hrc1 as [->|[_ ->]]; split; reflexivity.
  - rewrite (t_ctxs _ _ _ Ht) in Erc' by assumption.
    assert (rc' = rc) by congruence. subst. split; reflexivity.
Qed.

Theorem C12_threshold_new_one cfg s c c' rc rc' :
  wf_cfg cfg -> Inv cfg s -> In (height s, c) (newq s) -> height s < HEIGHT_BOUND ->
  get c' (ctxs s) = Some rc -> get c' (ctxs (new_one cfg s c)) = Some rc' ->
  c_thr rc' = c_thr rc
  /\ (c_bthr rc' <> c_bthr rc -> c' = c /\ c_counter rc' = c_counter rc + 1 /\ c_bthr rc' = c_thr rc).
Proof.
  intros Hcfg HI Hdue Hb Erc Erc'.
  destruct (new_one_spec cfg s c HI Hdue)
    as (rc0 & Erc0 & En & Ee & Ht & Q1 & Q2 & En' & Hcase).
  destruct (eqb_spec c' c) as [->|Hn].
  - assert (rc0 = rc) by congruence. subst rc0.
    destruct Hcase as [(_ & Ex & _)|[(_ & _ & _ & n & Ex)|[(_ & _ & _ & Ex)|(_ & _ & Ex)]]];
      rewrite Ex in Erc'; try discriminate; injection Erc' as <-;
      (split; [reflexivity|]); intros Hx; try (exfalso; apply Hx; reflexivity).
    repeat split.
  - rewrite (t_ctxs _ _ _ Ht) in Erc' by assumption.
    assert (rc' = rc) by congruence. subst. split; [reflexivity|]. intros Hx. exfalso. apply Hx. reflexivity.
Qed.

(* ------------------------------------------------------------------ *)
(* a concrete history (everything by computation): module 77 owns the context c0, providers 10
   (bound, eligible) and 11 (not bound), threshold 1, timeout = frequency = 5.
   Batch 1 is issued with its own threshold 1 and answered: callback ([1], no error).  The module
   raises the threshold to 2: the record shows thr 2, bthr still 1.  Batch 2 is SKIPPED (1 eligible
   < 2) with its own threshold 2; the module lowers the threshold to 1 again; batch 2 expires:
   callback ([], error) -- judged by 2.  Batch 3 is issued with its own threshold 1 and answered:
   callback ([2], no error). *)
Module ExT.
  Import StepSpecs_ctx.Ex.
  Definition blocks (n : nat) : list Op := repeat (OEndBlock 1) n.
  Definition ops1 : list Op :=
    [ODefine 5 1 true; OBind 5 10 (CBase 100) (Some (mkRaw 10 [] [])) 5 7 true;
     OModCall c0 5 [10; 11] 2 0 (CBase 50) 5 false true 5 (-1) 1 77 true;
     OEndBlock 1;                                       (* height 1: batch 1 *)
     ORespond (c0, 1, 1, 0) 10 200 1 true true;
     OModUpdate c0 2 [] 2 CEmpty 0 0 0].
  Definition ops2 : list Op := ops1 ++ blocks 5.        (* height 6: batch 1 expires, batch 2 skipped *)
  Definition ops3 : list Op :=
    ops2 ++ [OModUpdate c0 2 [] 1 CEmpty 0 0 0] ++ blocks 5     (* height 11: batch 2 expires, batch 3 *)
         ++ [ORespond (c0, 3, 11, 0) 10 200 2 true true].
  Definition s1 : State := run cfg0 s_init ops1.
  Definition s2 : State := run cfg0 s_init ops2.
  Definition s3 : State := run cfg0 s_init ops3.

  Definition thr_view (s : State) : option (Z * Z * Z * Z) :=
    match get c0 (ctxs s) with
    | Some rc => Some (c_counter rc, c_breq rc, c_thr rc, c_bthr rc)
    | None => None
    end.
  Definition callbacks (s : State) : list Event :=
    filter (fun e => match e with EvCbResp _ _ _ _ => true | _ => false end) (rev (log s)).

  Example reach_s3 : Reach cfg0 s3.
  Proof. apply Reach_run; [exact reach_init|comp_own]. Qed.

  Example thr_history :
    thr_view s1 = Some (1, 1, 2, 1)          (* threshold raised while batch 1 (threshold 1) is current *)
    /\ thr_view s2 = Some (2, 0, 2, 2)       (* batch 2 skipped: 0 requests, its own threshold 2 *)
    /\ thr_view s3 = Some (3, 1, 1, 1)       (* batch 3 issued with its own threshold 1 *)
    /\ callbacks s3 = [EvCbResp c0 1 [1] false; EvCbResp c0 2 [] true; EvCbResp c0 3 [2] false].
  Proof. vm_compute. repeat split. Qed.
End ExT.
