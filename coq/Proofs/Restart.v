(* Property C19, "state survives": the state a NEW chain starts in after the
   zero-height pipeline (prepare, export, import into an empty store), the global
   invariant for it, and reachability from an arbitrary start state.

   MODELLED (not proved, it is the definition `restart`):
   * the service store of the new chain is `import_genesis h t (export_genesis cfg s')`
     where `prep_zero_height s = Some s'` (genesis.go InitGenesis on what
     ExportGenesis wrote after PrepForZeroHeightGenesis);
   * the coins are NOT part of the service genesis. They travel in the bank
     module's own genesis (balances and supply), which the zero-height export of
     the application writes from the same prepared store. So the restarted state
     has `bank := bank s'` and `supply := supply s'`: the bank is CARRIED OVER by
     definition; nothing here proves that the application exports the bank module
     after (and not before) the service preparation ran;
   * the parameters of the new chain are the exported ones (`g_params = cfg`; the
     state has no parameter field);
   * the ghost event log restarts as exactly one `EvCtxCreated c` per imported
     context. This is what `ctx_fresh` (wf_op, H-txid) needs in order to keep
     rejecting the re-use of an imported context id, and the only thing `Inv` asks
     of the log (last clause of I_ctx);
   * the new chain starts at any height `1 <= h` and any time `0 <= t`. No relation
     to the old height / time is needed by `Inv` (it does not mention the disabled
     times of the bindings).

   PROVED:
   * every hypothesis of the C19 theorems that follows from the invariant does
     (`Inv_escrow_backed`, `Inv_active_has_ctx`, `Inv_fees_nonneg`,
     `Inv_state_wf_exported`, `Inv_single_owner`), so the preparation succeeds in
     every reachable state and empties the escrow (`Reach_prep`);
   * `restart_Inv_partial`: all of `Inv` EXCEPT the one-shot clause of I_ctx holds of
     the restarted state, with no side condition at all;
   * the one-shot clause of I_ctx is FALSE of the restarted state exactly when a
     non-repeated context had its (only) batch in flight when the chain was
     stopped (`restart_Inv_iff`; `restart_Inv_refuted` in Proofs/RestartEx.v): the reset leaves it paused
     with counter 1, and on the new chain its consumer can start it again and it
     gets a SECOND batch (`RestartEx.restart_oneshot_second_batch`; abci.go
     newRequestBatchHandler has no test on the counter of a non-repeated context,
     keeper/invocation.go StartRequestContext no test on Repeated);
   * `restart_Inv`: the full invariant under that single side condition
     (`no_oneshot_inflight s`);
   * `ReachFrom_Inv`, `restart_reach_Inv`: the invariant in every state reachable
     from a restarted state, hence C01 C03 C11 C13 C14 C15 C16 on the new chain
     (`restart_reach_props`). *)
From Coq Require Import List ZArith Bool Lia Permutation.
From SVC Require Import Base.AMap Base.Res Base.Dec Model.Types Model.Pricing Model.Handlers
  Model.EndBlock Model.Step Model.Genesis Proofs.Inv Proofs.Lemmas Proofs.InvAll Proofs.ReachRun
  Proofs.GenesisProofs.
Import ListNotations.
Open Scope Z_scope.

(* ------------------------------------------------------------------ *)
(* the restarted state *)

Definition created_log (cs : list (CtxId * Ctx)) : list Event :=
  map (fun kc => EvCtxCreated (fst kc)) cs.

(* s' is the prepared state of the old chain, h t the first height / time of the new one *)
Definition restart (cfg : Params) (s' : State) (h t : Z) : State :=
  let g := export_genesis cfg s' in
  set_log (set_supply (set_bank (import_genesis h t g) (bank s')) (supply s'))
          (created_log (g_ctxs g)).

(* no non-repeated context has its batch in flight (by I_ctx: counter 1, running,
   expiry pending) *)
Definition no_oneshot_inflight (s : State) : Prop :=
  forall c rc, get c (ctxs s) = Some rc -> c_rep rc = false -> c_counter rc = 0.

(* ------------------------------------------------------------------ *)
(* reachability from an arbitrary start state *)

Inductive ReachFrom (cfg : Params) (s0 : State) : State -> Prop :=
| RF_start : ReachFrom cfg s0 s0
| RF_step s o : ReachFrom cfg s0 s -> wf_op s o -> ReachFrom cfg s0 (fst (step cfg s o)).

Theorem ReachFrom_Inv cfg s0 s : wf_cfg cfg -> Inv cfg s0 -> ReachFrom cfg s0 s -> Inv cfg s.
Proof.
  intros Hcfg H0 Hr. induction Hr as [|s o Hr IH Ho]; [exact H0|]. now apply Inv_step.
Qed.

Lemma ReachFrom_trans cfg s0 s1 s2 :
  ReachFrom cfg s0 s1 -> ReachFrom cfg s1 s2 -> ReachFrom cfg s0 s2.
Proof. intros H1 H2. induction H2 as [|s o H2 IH Ho]; [exact H1|]. now apply RF_step. Qed.

(* Reach is ReachFrom an initial state, and ReachFrom a reachable state stays in Reach *)
Lemma Reach_ReachFrom cfg s : Reach cfg s ->
  exists h0 t0 f, 1 <= h0 /\ 0 <= t0 /\ wf_funding f /\ ReachFrom cfg (init h0 t0 f) s.
Proof.
  induction 1 as [h0 t0 f H1 H2 H3|s o Hr IH Ho].
  - exists h0, t0, f. repeat split; try assumption. constructor.
  - destruct IH as (h0 & t0 & f & H1 & H2 & H3 & Hf). exists h0, t0, f.
    repeat split; try assumption. now apply RF_step.
Qed.

Lemma ReachFrom_Reach cfg s0 s : Reach cfg s0 -> ReachFrom cfg s0 s -> Reach cfg s.
Proof. intros H0 Hr. induction Hr as [|s o Hr IH Ho]; [exact H0|]. now apply Reach_step. Qed.

Lemma ReachFrom_run cfg s0 ops : wf_run cfg s0 ops -> ReachFrom cfg s0 (run cfg s0 ops).
Proof.
  assert (G : forall s, ReachFrom cfg s0 s -> wf_run cfg s ops -> ReachFrom cfg s0 (run cfg s ops)).
  { induction ops as [|o t IH]; intros s Hr Hw; [exact Hr|].
    destruct Hw as [Ho Ht]. unfold run. cbn [fold_left]. apply IH; [|exact Ht]. now apply RF_step. }
  apply G. constructor.
Qed.

(* ------------------------------------------------------------------ *)
(* the named hypotheses of GenesisProofs.v follow from the invariant *)

Lemma Inv_escrow_backed cfg s : Inv cfg s -> escrow_backed s.
Proof. intros HI. exact (inv_escrow _ _ HI). Qed.

Lemma Inv_active_has_ctx cfg s : Inv cfg s -> active_has_ctx s.
Proof.
  intros HI r q Hin _. destruct (inv_req _ _ HI) as (Hq & _).
  destruct (Hq r q Hin) as (rc & G & _). eauto.
Qed.

Lemma Inv_fees_nonneg cfg s : Inv cfg s -> fees_nonneg s.
Proof.
  intros HI. split.
  - intros r q Hin _. destruct (inv_req _ _ HI) as (Hq & _).
    destruct (Hq r q Hin) as (rc & _ & _ & _ & Hf & _). exact Hf.
  - intros p e Hin. destruct (inv_earn _ _ HI) as (He & _). destruct (He p e Hin). lia.
Qed.

Lemma Inv_state_wf_exported cfg s : Inv cfg s -> state_wf_exported s.
Proof.
  intros HI. destruct (inv_wf _ _ HI) as (W1 & W2 & _ & _ & W5 & W6 & _). repeat split; assumption.
Qed.

Lemma Inv_single_owner cfg cfg' s : Inv cfg s -> single_owner (export_genesis cfg' s).
Proof.
  intros HI k1 b1 k2 b2 H1 H2 Hk. cbn [export_genesis g_binds] in H1, H2.
  destruct (inv_index _ _ HI) as (Hb & _).
  destruct (Hb _ _ H1) as (_ & O1 & _). destruct (Hb _ _ H2) as (_ & O2 & _).
  rewrite Hk in O1. congruence.
Qed.

(* audit C19 (d)1 *)
Theorem Inv_hyps cfg s : Inv cfg s ->
  escrow_backed s /\ active_has_ctx s /\ fees_nonneg s /\ state_wf_exported s
  /\ single_owner (export_genesis cfg s).
Proof.
  intros HI. split; [eapply Inv_escrow_backed; eauto|]. split; [eapply Inv_active_has_ctx; eauto|].
  split; [eapply Inv_fees_nonneg; eauto|]. split; [eapply Inv_state_wf_exported; eauto|].
  eapply Inv_single_owner; eauto.
Qed.

Theorem Inv_prep cfg s : Inv cfg s ->
  exists s', prep_zero_height s = Some s' /\ bal s' Escrow = 0
    /\ (forall a, bal s' (User a) = bal s (User a) + pending_of s a + earned_of s a)
    /\ bal s' Deposit = bal s Deposit /\ bal s' FeeColl = bal s FeeColl /\ supply s' = supply s
    /\ (forall c rc', In (c, rc') (ctxs s') ->
          c_state rc' = Paused /\ c_bdone rc' = true /\ c_breq rc' = 0 /\ c_bresp rc' = 0).
Proof.
  intros HI. destruct (Inv_hyps _ _ HI) as (Hb & Hc & Hf & _).
  destruct (C19_prep_succeeds s Hb Hc Hf) as [s' E]. exists s'.
  split; [exact E|]. split; [exact (C19_prep_escrow_empty _ _ Hb Hc E)|].
  destruct (C19_prep_refunds _ _ E) as (Hu & Hd & Hfc & Hs).
  destruct (C19_prep_contexts _ _ E) as (_ & _ & Hx). repeat split; try assumption; eapply Hx; eauto.
Qed.

Theorem Reach_prep cfg s : wf_cfg cfg -> Reach cfg s ->
  exists s', prep_zero_height s = Some s' /\ bal s' Escrow = 0
    /\ (forall a, bal s' (User a) = bal s (User a) + pending_of s a + earned_of s a)
    /\ bal s' Deposit = bal s Deposit /\ bal s' FeeColl = bal s FeeColl /\ supply s' = supply s
    /\ (forall c rc', In (c, rc') (ctxs s') ->
          c_state rc' = Paused /\ c_bdone rc' = true /\ c_breq rc' = 0 /\ c_bresp rc' = 0).
Proof. intros Hcfg Hr. eapply Inv_prep, Reach_Inv; eauto. Qed.

(* ------------------------------------------------------------------ *)
(* the bank after the preparation *)

Lemma pay_all_bank l : forall s s1, pay_all l s = Some s1 ->
  wf (bank s) -> nonneg (bank s) ->
  wf (bank s1) /\ nonneg (bank s1) /\ msum vid (bank s1) = msum vid (bank s) /\ supply s1 = supply s.
Proof.
  induction l as [|[a amt] t IH]; cbn [pay_all]; intros s s1 E Hw Hn.
  - injection E as <-. repeat split; assumption.
  - destruct (transfer Escrow (User a) amt s) as [s2|] eqn:Et; [|discriminate].
    destruct (Lemmas.transfer_inv _ _ _ _ _ Et Hw Hn) as (bk & -> & Hw2 & Hn2 & Hs2 & _).
    destruct (IH _ _ E Hw2 Hn2) as (W & N & S & U). cbn [bank set_bank supply] in *.
    repeat split; try assumption. congruence.
Qed.

Lemma prep_bank cfg s s' : Inv cfg s -> prep_zero_height s = Some s' ->
  wf (bank s') /\ nonneg (bank s') /\ supply s' = msum vid (bank s').
Proof.
  intros HI E. apply prep_inv in E as (s1 & Ep & ->).
  destruct (inv_bank _ _ HI) as (Hn & Hs).
  assert (Hw : wf (bank s)) by apply (inv_wf _ _ HI).
  destruct (pay_all_bank _ _ _ Ep Hw Hn) as (W & N & S & U).
  cbn [reset_contexts bank supply set_ctxs]. repeat split; try assumption. congruence.
Qed.

(* ------------------------------------------------------------------ *)
(* the fields of the restarted state *)

Lemma restart_fields cfg s' h t : state_wf_exported s' ->
  let R := restart cfg s' h t in
  height R = h /\ time R = t
  /\ defs R = defs s' /\ binds R = binds s' /\ wdaddr R = wdaddr s' /\ ctxs R = ctxs s'
  /\ pricing R = map (fun kb => (fst kb, parse_pricing (b_raw (snd kb)))) (binds s')
  /\ expq R = [] /\ expq_h R = [] /\ newq R = [] /\ newq_h R = []
  /\ reqs R = [] /\ resps R = [] /\ vols R = [] /\ earned R = [] /\ own_earned R = []
  /\ bank R = bank s' /\ supply R = supply s' /\ log R = created_log (ctxs s').
Proof.
  intros Hwf R.
  destruct (import_families h t (export_genesis cfg s') (export_wf cfg s' Hwf)) as (Hd & Hb & Hw & Hc & Hp).
  repeat split; try reflexivity; assumption.
Qed.

Lemma fold_set_wf {K V X} `{EqDec K} (kf : X -> K) (vf : X -> V) (l : list X) : forall m,
  wf m -> wf (fold_left (fun m x => set (kf x) (vf x) m) l m).
Proof.
  induction l as [|x l IH]; intros m Hm; cbn [fold_left]; [exact Hm|]. apply IH. now apply wf_set.
Qed.

Lemma restart_index cfg cfg0 s' h t :
  state_wf_exported s' -> single_owner (export_genesis cfg s') ->
  index_consistent (restart cfg s' h t) /\ wf (owner_of (restart cfg0 s' h t)).
Proof.
  intros Hwf Hso. split.
  - exact (C19_import_indexes h t (export_genesis cfg s') (export_wf cfg s' Hwf) Hso).
  - unfold restart, import_genesis. cbn [owner_of set_log set_supply set_bank export_genesis g_binds].
    apply fold_set_wf, wf_nil.
Qed.

Lemma In_created_log c cs : In (EvCtxCreated c) (created_log cs) <-> In c (keys cs).
Proof.
  unfold created_log, keys. rewrite !in_map_iff. split.
  - intros (x & E & Hin). injection E as <-. eauto.
  - intros (x & <- & Hin). eauto.
Qed.

(* the new chain still refuses the id of an imported context, and only those *)
Lemma restart_ctx_fresh cfg s s' h t : state_wf_exported s -> prep_zero_height s = Some s' ->
  forall c, ctx_fresh (restart cfg s' h t) c <-> get c (ctxs s) = None.
Proof.
  intros Hwf E c. pose proof (prep_wf _ _ Hwf E) as Hwf'.
  destruct (restart_fields cfg s' h t Hwf') as (_&_&_&_&_&_&_&_&_&_&_&_&_&_&_&_&_&_&Hl).
  unfold ctx_fresh. rewrite Hl, In_created_log.
  destruct (C19_prep_contexts _ _ E) as (_ & Hg & _).
  rewrite <- (get_None_notin c (ctxs s')), Hg.
  destruct (get c (ctxs s)); cbn [option_map]; split; congruence.
Qed.

(* ------------------------------------------------------------------ *)
(* the invariant without the one-shot clause of I_ctx *)

Definition I_ctx_but_oneshot (cfg : Params) (s : State) : Prop :=
  forall c rc, get c (ctxs s) = Some rc ->
    1 <= c_timeout rc <= p_max_timeout cfg
    /\ 0 <= c_counter rc
    /\ 0 <= c_freq rc < HEIGHT_BOUND
    /\ (c_rep rc = true -> c_timeout rc <= c_freq rc)
    /\ (c_rep rc = true -> 0 < c_total rc -> c_counter rc <= c_total rc)
    /\ (c_mod rc = 0 \/ c_mod rc = p_cbmod cfg)
    /\ 0 < c_cap rc
    /\ In (EvCtxCreated c) (log s).

(* the clause left out (Inv.v, I_ctx, sixth conjunct) *)
Definition I_ctx_oneshot (s : State) : Prop :=
  forall c rc, get c (ctxs s) = Some rc -> c_rep rc = false ->
    (c_counter rc = 0 /\ has c (expq_h s) = false)
    \/ (c_counter rc = 1 /\ c_state rc = Running /\ has c (expq_h s) = true).

Record Inv_partial (cfg : Params) (s : State) : Prop := mkInvPartial {
  invp_wf : I_wf s;
  invp_bank : I_bank s;
  invp_deposit : I_deposit s;
  invp_escrow : I_escrow s;
  invp_earn : I_earn s;
  invp_min : I_min cfg s;
  invp_index : I_index cfg s;
  invp_sched : I_sched s;
  invp_ctx : I_ctx_but_oneshot cfg s;
  invp_req : I_req s;
  invp_time : I_time s;
  invp_wd : I_wd s
}.

Lemma Inv_split cfg s : Inv cfg s <-> Inv_partial cfg s /\ I_ctx_oneshot s.
Proof.
  split.
  - intros HI. split.
    + constructor; try apply HI.
      intros c rc G. destruct (inv_ctx _ _ HI c rc G) as (A1&A2&A3&A4&A5&_&A7&A8&A9).
      repeat split; assumption || apply A1 || apply A3.
    + intros c rc G. destruct (inv_ctx _ _ HI c rc G) as (_&_&_&_&_&A6&_). exact A6.
  - intros [HP H1]. constructor; try apply HP.
    intros c rc G. destruct (invp_ctx _ _ HP c rc G) as (A1&A2&A3&A4&A5&A7&A8&A9).
    repeat split; try assumption; try apply A1; try apply A3. exact (H1 c rc G).
Qed.

(* ------------------------------------------------------------------ *)
(* the restarted state satisfies the invariant *)

Section Restarted.
  Variables (cfg : Params) (s s' : State) (h t : Z).
  Hypothesis HI : Inv cfg s.
  Hypothesis E : prep_zero_height s = Some s'.
  Hypothesis Hh : 1 <= h.
  Hypothesis Ht : 0 <= t.

  Let R := restart cfg s' h t.

  Let Hwf' : state_wf_exported s'.
  Proof. exact (prep_wf _ _ (Inv_state_wf_exported _ _ HI) E). Qed.

  Let Hso' : single_owner (export_genesis cfg s').
  Proof.
    intros k1 b1 k2 b2 H1 H2. cbn [export_genesis g_binds] in H1, H2.
    destruct (prep_frame _ _ E) as (_ & Hb & _). rewrite Hb in H1, H2.
    exact (Inv_single_owner cfg cfg s HI k1 b1 k2 b2 H1 H2).
  Qed.

  Lemma R_fields :
    height R = h /\ time R = t
    /\ defs R = defs s' /\ binds R = binds s' /\ wdaddr R = wdaddr s' /\ ctxs R = ctxs s'
    /\ pricing R = map (fun kb => (fst kb, parse_pricing (b_raw (snd kb)))) (binds s')
    /\ expq R = [] /\ expq_h R = [] /\ newq R = [] /\ newq_h R = []
    /\ reqs R = [] /\ resps R = [] /\ vols R = [] /\ earned R = [] /\ own_earned R = []
    /\ bank R = bank s' /\ supply R = supply s' /\ log R = created_log (ctxs s').
  Proof. exact (restart_fields cfg s' h t Hwf'). Qed.

  Lemma R_index : index_consistent R /\ wf (owner_of R).
  Proof. exact (restart_index cfg cfg s' h t Hwf' Hso'). Qed.

  Lemma restart_binds : binds R = binds s.
  Proof.
    destruct R_fields as (_&_&_&Hb&_).
    destruct (prep_frame _ _ E) as (_ & Hb' & _). congruence.
  Qed.

  Lemma restart_get_ctx c rc' : get c (ctxs R) = Some rc' ->
    exists rc, get c (ctxs s) = Some rc /\ rc' = reset_ctx rc.
  Proof.
    destruct R_fields as (_&_&_&_&_&Hc&_). rewrite Hc.
    destruct (C19_prep_contexts _ _ E) as (_ & Hg & _). rewrite Hg.
    destruct (get c (ctxs s)) as [rc|]; cbn [option_map]; [|discriminate].
    intros Eq. injection Eq as <-. eauto.
  Qed.

  Lemma restart_pricing k b : In (k, b) (binds s) ->
    get k (pricing R) = Some (parse_pricing (b_raw b)) /\ pricing_of R k = pricing_of s k.
  Proof.
    intros Hin.
    destruct R_fields as (_&_&_&_&_&_&Hp&_).
    destruct (prep_frame _ _ E) as (_ & Hb' & _). rewrite Hb' in Hp.
    assert (G : get k (pricing R) = Some (parse_pricing (b_raw b))).
    { rewrite Hp, (get_map_val (fun b => parse_pricing (b_raw b))).
      rewrite (In_get k b (binds s)); [reflexivity| apply (inv_wf _ _ HI) | assumption]. }
    split; [exact G|]. unfold pricing_of. rewrite G.
    destruct (inv_index _ _ HI) as (Hb & _). destruct (Hb _ _ Hin) as (_&_&_&Gp&_). now rewrite Gp.
  Qed.

  Lemma restart_I_wf : I_wf R.
  Proof.
    destruct R_fields
      as (_&_&Hd&Hb&Hw&Hc&Hp&Q1&Q2&Q3&Q4&Q5&Q6&Q7&Q8&Q9&Hbk&_&_).
    destruct Hwf' as (W1 & W2 & W3 & W4).
    destruct R_index as ((_&_&_&_&N1&N2) & Wo).
    destruct (prep_bank _ _ _ HI E) as (Wb & _).
    unfold I_wf. rewrite Hd, Hb, Hw, Hc, Q1, Q2, Q3, Q4, Q5, Q6, Q7, Q8, Q9, Hbk.
    repeat split; try assumption; try apply wf_nil; try constructor.
    rewrite Hp. unfold wf, keys. rewrite map_map. exact W2.
  Qed.

  Lemma restart_I_bank : I_bank R.
  Proof.
    destruct R_fields as (_&_&_&_&_&_&_&_&_&_&_&_&_&_&_&_&Hbk&Hs&_).
    destruct (prep_bank _ _ _ HI E) as (_ & N & S).
    unfold I_bank. rewrite Hbk, Hs. split; assumption.
  Qed.

  Lemma restart_bal a : bal R a = bal s' a.
  Proof. reflexivity. Qed.

  Lemma restart_I_deposit : I_deposit R.
  Proof.
    unfold I_deposit. rewrite restart_binds, restart_bal.
    destruct (C19_prep_refunds _ _ E) as (_ & Hd & _). rewrite Hd. exact (inv_deposit _ _ HI).
  Qed.

  Lemma restart_I_escrow : I_escrow R.
  Proof.
    unfold I_escrow. rewrite restart_bal.
    rewrite (C19_prep_escrow_empty s s' (Inv_escrow_backed _ _ HI) (Inv_active_has_ctx _ _ HI) E).
    reflexivity.
  Qed.

  Lemma restart_I_earn : I_earn R.
  Proof.
    unfold I_earn. change (earned R) with (@nil (Z * Z)). change (own_earned R) with (@nil (Z * Z)).
    split; [intros p e []|]. split; [intros o e []|]. intros o. reflexivity.
  Qed.

  Lemma restart_I_wd : I_wd R.
  Proof.
    destruct R_fields as (_&_&_&_&Hw&_).
    destruct (prep_frame _ _ E) as (_&_&_&_&_&_&Hw'&_).
    unfold I_wd. rewrite Hw, Hw'. exact (inv_wd _ _ HI).
  Qed.

  Lemma restart_I_min : I_min cfg R.
  Proof.
    unfold I_min. rewrite restart_binds. intros k b Hin Ha.
    destruct (restart_pricing k b Hin) as (_ & ->). exact (inv_min _ _ HI k b Hin Ha).
  Qed.

  Lemma restart_I_index : I_index cfg R.
  Proof.
    destruct R_index as ((X1&X2&X3&X4&_) & _).
    destruct R_fields as (_&_&Hd&_).
    destruct (prep_frame _ _ E) as (Hd' & _).
    destruct (inv_index _ _ HI) as (Hb & _).
    assert (Wb : wf (binds s)) by apply (inv_wf _ _ HI).
    unfold I_index. repeat split.
    - rewrite Hd, Hd'. rewrite restart_binds in H. now destruct (Hb _ _ H).
    - apply X2. exists (fst k), b. rewrite restart_binds in *. split; [|reflexivity].
      destruct k. now apply In_get.
    - destruct k as [svc p]. apply X1. exists b. rewrite restart_binds in *.
      split; [now apply In_get|reflexivity].
    - rewrite restart_binds in H. now destruct (restart_pricing _ _ H).
    - rewrite restart_binds in H. now destruct (Hb _ _ H) as (_&_&_&_&V&_).
    - rewrite restart_binds in H. now destruct (Hb _ _ H) as (_&_&_&_&_&V&_).
    - rewrite restart_binds in H. now destruct (Hb _ _ H) as (_&_&_&_&_&_&V).
    - intros o svc p Hin. now apply X1.
    - apply X3.
    - apply X3.
    - intros k Hk. unfold has in *. rewrite X4 in Hk.
      destruct (get k (binds R)); [reflexivity|discriminate].
  Qed.

  Lemma restart_I_sched : I_sched R.
  Proof.
    unfold I_sched.
    change (expq R) with (@nil (Z * CtxId)). change (newq R) with (@nil (Z * CtxId)).
    change (expq_h R) with (@nil (CtxId * Z)). change (newq_h R) with (@nil (CtxId * Z)).
    split; [intros h0 c; cbn [In get]; split; [intros []|discriminate]|].
    split; [intros h0 c; cbn [In get]; split; [intros []|discriminate]|].
    split; [intros c Hc; discriminate|].
    split; [intros c [Hc|Hc]; discriminate|].
    split; [intros c h0 Hc; discriminate|].
    split; [intros c h0 Hc; discriminate|].
    intros c rc' G Hrun. exfalso.
    destruct (restart_get_ctx c rc' G) as (rc & _ & ->). discriminate.
  Qed.

  Lemma restart_I_ctx_but_oneshot : I_ctx_but_oneshot cfg R.
  Proof.
    intros c rc' G. pose proof G as G0.
    destruct (restart_get_ctx c rc' G) as (rc & Gs & ->).
    destruct (inv_ctx _ _ HI c rc Gs) as (A1&A2&A3&A4&A5&_&A7&A8&_).
    cbn [reset_ctx c_timeout c_counter c_freq c_rep c_total c_mod c_cap
         setc_bresp setc_breq setc_bdone setc_state].
    repeat split; try assumption; try apply A1; try apply A3.
    destruct R_fields as (_&_&_&_&_&Hc&_&_&_&_&_&_&_&_&_&_&_&_&Hl).
    rewrite Hl, In_created_log, <- Hc. eapply get_Some_in; eauto.
  Qed.

  Lemma restart_I_req : I_req R.
  Proof.
    unfold I_req.
    change (reqs R) with (@nil (ReqId * Req)). change (resps R) with (@nil (ReqId * Resp)).
    change (expq_h R) with (@nil (CtxId * Z)).
    split; [intros r q []|]. split; [intros r x []|].
    intros c rc' G. destruct (restart_get_ctx c rc' G) as (rc & _ & ->).
    cbn [reset_ctx c_bresp c_breq c_bdone setc_bresp setc_breq setc_bdone setc_state has get andb msum].
    repeat split; try lia; discriminate.
  Qed.

  Lemma restart_I_time : I_time R.
  Proof. split; assumption. Qed.

  Theorem restart_Inv_partial_sec : Inv_partial cfg R.
  Proof.
    constructor.
    - exact restart_I_wf.
    - exact restart_I_bank.
    - exact restart_I_deposit.
    - exact restart_I_escrow.
    - exact restart_I_earn.
    - exact restart_I_min.
    - exact restart_I_index.
    - exact restart_I_sched.
    - exact restart_I_ctx_but_oneshot.
    - exact restart_I_req.
    - exact restart_I_time.
    - exact restart_I_wd.
  Qed.

  (* the clause left out holds of the restarted state exactly when no one-shot
     context was in flight *)
  Lemma restart_oneshot_iff_sec : I_ctx_oneshot R <-> no_oneshot_inflight s.
  Proof.
    destruct R_fields as (_&_&_&_&_&Hc&_).
    destruct (C19_prep_contexts _ _ E) as (_ & Hg & _).
    split.
    - intros H1 c rc G Hrep.
      assert (G' : get c (ctxs R) = Some (reset_ctx rc)) by (rewrite Hc, Hg, G; reflexivity).
      destruct (H1 c _ G' Hrep) as [[H0 _]|(_ & Hrun & _)]; [exact H0|discriminate].
    - intros Hno c rc' G Hrep. destruct (restart_get_ctx c rc' G) as (rc & Gs & ->).
      left. split; [exact (Hno c rc Gs Hrep)|reflexivity].
  Qed.
End Restarted.

(* all of Inv except the one-shot clause of I_ctx: no side condition *)
Theorem restart_Inv_partial cfg s s' h t :
  wf_cfg cfg -> Reach cfg s -> prep_zero_height s = Some s' -> 1 <= h -> 0 <= t ->
  Inv_partial cfg (restart cfg s' h t).
Proof. intros Hcfg Hr E Hh Ht. apply (restart_Inv_partial_sec cfg s s' h t); auto using Reach_Inv. Qed.

(* the same from any state satisfying the invariant (e.g. a state of a chain that
   itself started from a restart) *)
Theorem restart_Inv_partial_from_Inv cfg s s' h t :
  Inv cfg s -> prep_zero_height s = Some s' -> 1 <= h -> 0 <= t ->
  Inv_partial cfg (restart cfg s' h t).
Proof. intros. now apply (restart_Inv_partial_sec cfg s s' h t). Qed.

(* the full invariant holds of the restarted state if and only if no one-shot
   context was in flight when the old chain stopped *)
Theorem restart_Inv_iff cfg s s' h t :
  Inv cfg s -> prep_zero_height s = Some s' -> 1 <= h -> 0 <= t ->
  (Inv cfg (restart cfg s' h t) <-> no_oneshot_inflight s).
Proof.
  intros HI E Hh Ht. rewrite Inv_split, (restart_oneshot_iff_sec cfg s s' h t HI E).
  split; [tauto|]. intros Hno. split; [|exact Hno]. now apply (restart_Inv_partial_sec cfg s s' h t).
Qed.

Theorem restart_Inv_from_Inv cfg s s' h t :
  Inv cfg s -> prep_zero_height s = Some s' -> no_oneshot_inflight s -> 1 <= h -> 0 <= t ->
  Inv cfg (restart cfg s' h t).
Proof. intros HI E Hno Hh Ht. now apply (restart_Inv_iff cfg s s' h t). Qed.

Theorem restart_Inv cfg s s' h t :
  wf_cfg cfg -> Reach cfg s -> prep_zero_height s = Some s' -> no_oneshot_inflight s ->
  1 <= h -> 0 <= t -> Inv cfg (restart cfg s' h t).
Proof. intros Hcfg Hr. apply restart_Inv_from_Inv. now apply Reach_Inv. Qed.

(* every state of the new chain *)
Theorem restart_reach_Inv cfg s s' h t s2 :
  wf_cfg cfg -> Reach cfg s -> prep_zero_height s = Some s' -> no_oneshot_inflight s ->
  1 <= h -> 0 <= t -> ReachFrom cfg (restart cfg s' h t) s2 -> Inv cfg s2.
Proof.
  intros Hcfg Hr E Hno Hh Ht Hf. apply (ReachFrom_Inv cfg (restart cfg s' h t)); [assumption| |assumption].
  now apply (restart_Inv cfg s).
Qed.

(* ... and of a chain restarted any number of times *)
Inductive ReachR (cfg : Params) : State -> Prop :=
| RR_init h0 t0 f : 1 <= h0 -> 0 <= t0 -> wf_funding f -> ReachR cfg (init h0 t0 f)
| RR_step s o : ReachR cfg s -> wf_op s o -> ReachR cfg (fst (step cfg s o))
| RR_restart s s' h t : ReachR cfg s -> prep_zero_height s = Some s' -> no_oneshot_inflight s ->
    1 <= h -> 0 <= t -> ReachR cfg (restart cfg s' h t).

Theorem ReachR_Inv cfg s : wf_cfg cfg -> ReachR cfg s -> Inv cfg s.
Proof.
  intros Hcfg H. induction H.
  - now apply Inv_init.
  - now apply Inv_step.
  - now apply (restart_Inv_from_Inv cfg s).
Qed.

Lemma Reach_ReachR cfg s : Reach cfg s -> ReachR cfg s.
Proof. induction 1; [now apply RR_init|now apply RR_step]. Qed.

(* the properties carried by the invariant, spelled out for the new chain *)
Theorem restart_reach_props cfg s s' h t s2 :
  wf_cfg cfg -> Reach cfg s -> prep_zero_height s = Some s' -> no_oneshot_inflight s ->
  1 <= h -> 0 <= t -> ReachFrom cfg (restart cfg s' h t) s2 ->
  (* C01 *) bal s2 Escrow = msum fee_active (reqs s2) + msum vid (earned s2)
  (* C03 *) /\ bal s2 Deposit = msum dep_of (binds s2)
  (* C11 *) /\ (forall c rc, get c (ctxs s2) = Some rc -> c_state rc = Running ->
                 has c (expq_h s2) = true \/ has c (newq_h s2) = true)
  (* C13 *) /\ (forall o, get0 o (own_earned s2) = msum (owned_by s2 o) (earned s2))
  (* C14 *) /\ (forall k b, In (k, b) (binds s2) -> b_avail b = true ->
                 min_dep_val cfg (pricing_of s2 k) <= b_deposit b)
  (* C15 *) /\ I_index cfg s2
  (* C16 *) /\ I_req s2.
Proof.
  intros Hcfg Hr E Hno Hh Ht Hf.
  pose proof (restart_reach_Inv cfg s s' h t s2 Hcfg Hr E Hno Hh Ht Hf) as HI.
  split; [exact (inv_escrow _ _ HI)|]. split; [exact (proj1 (inv_deposit _ _ HI))|].
  split; [exact (proj2 (proj2 (proj2 (proj2 (proj2 (proj2 (inv_sched _ _ HI)))))))|].
  split; [exact (proj2 (proj2 (inv_earn _ _ HI)))|]. split; [exact (inv_min _ _ HI)|].
  split; [exact (inv_index _ _ HI)|exact (inv_req _ _ HI)].
Qed.

(* the rebuilt indexes are the old ones (audit C19 (d)3, for the prepared state) *)
Theorem restart_indexes_rebuilt cfg s s' h t :
  Inv cfg s -> prep_zero_height s = Some s' ->
  let R := restart cfg s' h t in
  (forall k, get k (pricing R) = get k (pricing s))
  /\ (forall e, In e (own_bind R) <-> In e (own_bind s)).
Proof.
  intros HI E R.
  pose proof (prep_wf _ _ (Inv_state_wf_exported _ _ HI) E) as Hwf'.
  assert (Hso' : single_owner (export_genesis cfg s')).
  { intros k1 b1 k2 b2 H1 H2. cbn [export_genesis g_binds] in H1, H2.
    destruct (prep_frame _ _ E) as (_ & Hb & _). rewrite Hb in H1, H2.
    exact (Inv_single_owner cfg cfg s HI k1 b1 k2 b2 H1 H2). }
  destruct (restart_index cfg cfg s' h t Hwf' Hso') as ((X1&_&_&X4&_) & _). fold R in X1, X4.
  pose proof (restart_binds cfg s s' h t HI E) as Hb. fold R in Hb.
  destruct (inv_index _ _ HI) as (I1 & I2 & _ & I4).
  assert (Wb : wf (binds s)) by apply (inv_wf _ _ HI).
  split.
  - intros k. rewrite X4, Hb. destruct (get k (binds s)) as [b|] eqn:G; cbn [option_map].
    + apply get_In in G. destruct (I1 _ _ G) as (_&_&_&Gp&_). now rewrite Gp.
    + destruct (get k (pricing s)) eqn:Gp; [|reflexivity].
      assert (Hh : has k (pricing s) = true) by (unfold has; now rewrite Gp).
      apply I4 in Hh. unfold has in Hh. rewrite G in Hh. discriminate.
  - intros [[o svc] p]. rewrite X1, Hb. split.
    + intros (b & G & <-). apply get_In in G. now destruct (I1 _ _ G) as (_&_&Hin&_).
    + intros Hin. exact (I2 _ _ _ Hin).
Qed.

(* ------------------------------------------------------------------ *)
(* Boolean checker for the side condition (sound and complete on wf maps) *)

Definition no_oneshot_inflight_b (s : State) : bool :=
  forallb (fun kc => c_rep (snd kc) || (c_counter (snd kc) =? 0)) (ctxs s).

Lemma no_oneshot_inflight_b_sound s : no_oneshot_inflight_b s = true -> no_oneshot_inflight s.
Proof.
  unfold no_oneshot_inflight_b, no_oneshot_inflight. intros Hb c rc G Hrep.
  rewrite forallb_forall in Hb. specialize (Hb _ (get_In _ _ _ G)). cbn [snd] in Hb.
  rewrite Hrep in Hb. cbn [orb] in Hb. now apply Z.eqb_eq.
Qed.

(* ------------------------------------------------------------------ *)
(* statements over Reach, for Properties/C19.v *)

Theorem Reach_hyps cfg s : wf_cfg cfg -> Reach cfg s ->
  escrow_backed s /\ active_has_ctx s /\ fees_nonneg s /\ state_wf_exported s
  /\ single_owner (export_genesis cfg s).
Proof. intros Hcfg Hr. apply Inv_hyps. now apply Reach_Inv. Qed.

Theorem restart_Inv_iff_reach cfg s s' h t :
  wf_cfg cfg -> Reach cfg s -> prep_zero_height s = Some s' -> 1 <= h -> 0 <= t ->
  (Inv cfg (restart cfg s' h t) <-> no_oneshot_inflight s).
Proof. intros Hcfg Hr. apply restart_Inv_iff. now apply Reach_Inv. Qed.

(* what the new chain starts with, in terms of the state the old chain stopped in *)
Theorem restart_state cfg s s' h t :
  wf_cfg cfg -> Reach cfg s -> prep_zero_height s = Some s' ->
  let R := restart cfg s' h t in
  height R = h /\ time R = t
  /\ defs R = defs s /\ binds R = binds s /\ wdaddr R = wdaddr s
  /\ ctxs R = map (fun kv => (fst kv, reset_ctx (snd kv))) (ctxs s)
  /\ (forall k, get k (pricing R) = get k (pricing s))
  /\ (forall e, In e (own_bind R) <-> In e (own_bind s))
  /\ (forall o p, In (o, p) (own_prov R) <-> get p (owner_of R) = Some o)
  /\ (forall p o, get p (owner_of R) = Some o
        <-> exists svc b, get (svc, p) (binds s) = Some b /\ b_owner b = o)
  /\ expq R = [] /\ newq R = [] /\ expq_h R = [] /\ newq_h R = []
  /\ reqs R = [] /\ resps R = [] /\ vols R = [] /\ earned R = [] /\ own_earned R = []
  /\ bal R Escrow = 0 /\ bal R Deposit = bal s Deposit /\ bal R FeeColl = bal s FeeColl
  /\ (forall a, bal R (User a) = bal s (User a) + pending_of s a + earned_of s a)
  /\ supply R = supply s
  /\ (forall c, In (EvCtxCreated c) (log R) <-> has c (ctxs s) = true).
Proof.
  intros Hcfg Hr E R. pose proof (Reach_Inv _ _ Hcfg Hr) as HI.
  pose proof (prep_wf _ _ (Inv_state_wf_exported _ _ HI) E) as Hwf'.
  destruct (restart_fields cfg s' h t Hwf')
    as (F1&F2&Hd&Hb&Hw&Hc&_&Q1&Q2&Q3&Q4&Q5&Q6&Q7&Q8&Q9&_&Hs&Hl).
  fold R in F1, F2, Hd, Hb, Hw, Hc, Q1, Q2, Q3, Q4, Q5, Q6, Q7, Q8, Q9, Hs, Hl.
  destruct (prep_frame _ _ E) as (Hd'&Hb'&_&_&_&_&Hw'&_).
  destruct (C19_prep_contexts _ _ E) as (Hc' & Hg & _).
  destruct (C19_prep_refunds _ _ E) as (Hu & Hdep & Hfc & Hsup).
  destruct (restart_indexes_rebuilt cfg s s' h t HI E) as (Xp & Xb). fold R in Xp, Xb.
  assert (Hso' : single_owner (export_genesis cfg s')).
  { intros k1 b1 k2 b2 H1 H2. cbn [export_genesis g_binds] in H1, H2. rewrite Hb' in H1, H2.
    exact (Inv_single_owner cfg cfg s HI k1 b1 k2 b2 H1 H2). }
  destruct (restart_index cfg cfg s' h t Hwf' Hso') as ((_&X2&X3&_) & _). fold R in X2, X3.
  split; [exact F1|]. split; [exact F2|]. split; [congruence|]. split; [congruence|].
  split; [congruence|]. split; [congruence|]. split; [exact Xp|]. split; [exact Xb|].
  split; [exact X3|]. split; [intros p o; rewrite X2, Hb, Hb'; reflexivity|].
  split; [exact Q1|]. split; [exact Q3|]. split; [exact Q2|]. split; [exact Q4|].
  split; [exact Q5|]. split; [exact Q6|]. split; [exact Q7|]. split; [exact Q8|]. split; [exact Q9|].
  split; [exact (C19_prep_escrow_empty s s' (Inv_escrow_backed _ _ HI) (Inv_active_has_ctx _ _ HI) E)|].
  split; [exact Hdep|]. split; [exact Hfc|]. split; [exact Hu|]. split; [congruence|].
  intros c. rewrite Hl, In_created_log. unfold has.
  split.
  - intros Hin. apply in_keys_get in Hin as [rc' G]. rewrite Hg in G.
    destruct (get c (ctxs s)); [reflexivity|discriminate].
  - intros Hh. destruct (get c (ctxs s)) as [rc|] eqn:G; [|discriminate].
    apply (get_Some_in c (reset_ctx rc)). rewrite Hg, G. reflexivity.
Qed.
