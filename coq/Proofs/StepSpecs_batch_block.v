(* Property C06 at the level of a whole EndBlock: every request record that appears during
   an EndBlocker was issued by the new-batch handler of its own context, to a provider that is
   eligible against the state after the expiry phase of that EndBlocker. *)
From Coq Require Import List ZArith Bool Lia Permutation.
From SVC Require Import Base.AMap Base.Res Base.Dec Model.Types Model.Pricing
  Model.Handlers Model.EndBlock Model.Step Proofs.Inv Proofs.Lemmas Proofs.ReqLemmas
  Proofs.PFrame Proofs.CtxOps Proofs.InvSched Proofs.InvEscrow Proofs.InvReq Proofs.InvAll
  Proofs.ReachRun Proofs.StepSpecs_batch Proofs.StepSpecs_window.
Import ListNotations.
Open Scope Z_scope.

(* what eligibility reads besides the context record *)
Definition elig_view (s s1 : State) : Prop :=
  height s1 = height s /\ time s1 = time s /\ binds s1 = binds s /\ pricing s1 = pricing s
  /\ vols s1 = vols s.

Lemma elig_view_refl s : elig_view s s.
Proof. repeat split. Qed.

Lemma elig_view_trans a b c : elig_view a b -> elig_view b c -> elig_view a c.
Proof. unfold elig_view. intros (A1 & A2 & A3 & A4 & A5) (B1 & B2 & B3 & B4 & B5). repeat split; congruence. Qed.

Lemma eligible_view s s1 rc p : elig_view s s1 -> eligible s1 rc p = eligible s rc p.
Proof.
  intros (_ & E2 & E3 & E4 & E5). unfold eligible, pricing_of, vol_of. now rewrite E2, E3, E4, E5.
Qed.

Lemma filter_providers_view s s1 rc provs :
  elig_view s s1 -> filter_providers s1 rc provs = filter_providers s rc provs.
Proof.
  intros Hv. induction provs as [|p t IH]; cbn [filter_providers]; [reflexivity|].
  now rewrite (eligible_view s s1 rc p Hv), IH.
Qed.

Lemma new_one_view cfg s c :
  wf_cfg cfg -> Inv cfg s -> In (height s, c) (newq s) -> height s < HEIGHT_BOUND ->
  elig_view s (new_one cfg s c)
  /\ (forall c', c' <> c -> get c' (ctxs (new_one cfg s c)) = get c' (ctxs s)).
Proof.
  intros Hcfg Hinv Hdue Hh.
  pose proof (height_new_one cfg s c Hcfg Hinv Hdue Hh) as Eh.
  pose proof (time_new_one cfg s c Hcfg Hinv Hdue Hh) as Et.
  pose proof (ff_new_one cfg s c) as ([_ _ _ _ Ep _ _] & _).
  destruct (new_one_cases cfg s c Hcfg Hinv Hdue Hh) as [(_ & _ & _ & _ & Eb & Ev & Ec)|(rc & _ & HI)].
  - split; [repeat split; assumption|exact Ec].
  - destruct HI as (_ & _ & _ & _ & _ & _ & _ & Eb & Ev & Ec & _).
    split; [repeat split; assumption|exact Ec].
Qed.

(* a request record that appears during the new-batch phase was issued by the handler of its
   own context, from an intermediate state that satisfies the invariant, shows the same
   bindings, prices, volumes and time as the state the phase started from, and still holds
   the context record as it stood then *)
Lemma fold_new_origin cfg l s r q :
  wf_cfg cfg -> Inv cfg s -> height s < HEIGHT_BOUND -> NoDup l ->
  (forall c, In c l -> In (height s, c) (newq s)) ->
  get r (reqs s) = None -> get r (reqs (fold_left (new_one cfg) l s)) = Some q ->
  exists s1, Inv cfg s1 /\ elig_view s s1 /\ In (rid_ctx r) l
    /\ In (height s1, rid_ctx r) (newq s1)
    /\ get (rid_ctx r) (ctxs s1) = get (rid_ctx r) (ctxs s)
    /\ get r (reqs s1) = None /\ get r (reqs (new_one cfg s1 (rid_ctx r))) = Some q.
Proof.
  intros Hcfg. revert s. induction l as [|a l IH]; intros s Hi Hb Hn Hl Hold Hnew; cbn [fold_left] in Hnew.
  - congruence.
  - inversion Hn as [|? ? Hna Hn']; subst.
    assert (Hda : In (height s, a) (newq s)) by (apply Hl; now left).
    pose proof (Inv_new_one cfg s a Hcfg Hi Hda Hb) as Hi1.
    pose proof (height_new_one cfg s a Hcfg Hi Hda Hb) as Eh.
    pose proof (newq_after_new_one cfg s a Hcfg Hi Hda Hb) as Eq.
    destruct (new_one_view cfg s a Hcfg Hi Hda Hb) as (Hv & Hc).
    assert (Hb1 : height (new_one cfg s a) < HEIGHT_BOUND) by now rewrite Eh.
    assert (Hl1 : forall c, In c l -> In (height (new_one cfg s a), c) (newq (new_one cfg s a))).
    { intros c Hc'. rewrite Eh. apply Eq. split; [apply Hl; now right|]. intros ->. contradiction. }
    destruct (get r (reqs (new_one cfg s a))) as [q'|] eqn:G.
    + (* issued at this step *)
      destruct (fold_new_records cfg l (new_one cfg s a) r Hcfg Hi1 Hb1 Hn' Hl1) as (K1 & _).
      cbv zeta in K1. rewrite (K1 q' G) in Hnew. injection Hnew as <-.
      destruct (C06_new_request cfg s a r q' Hcfg Hi Hda Hb Hold G) as (rc & k & p & price & _ & _ & Er & _).
      assert (Ec : rid_ctx r = a) by (rewrite Er; reflexivity).
      exists s. rewrite Ec. split; [exact Hi|]. split; [apply elig_view_refl|]. split; [now left|].
      auto.
    + destruct (IH (new_one cfg s a) Hi1 Hb1 Hn' Hl1 G Hnew) as (s1 & I1 & V1 & L1 & D1 & C1 & O1 & N1).
      exists s1. split; [exact I1|]. split; [eapply elig_view_trans; eauto|]. split; [now right|].
      split; [exact D1|]. split; [|auto].
      rewrite C1. apply Hc. intros E. apply Hna. now rewrite <- E.
Qed.

(* C06 at the level of a whole EndBlock: every request record that appears during an
   EndBlocker is the k-th request of a batch of its context, for the k-th provider found
   eligible against the context record and the bindings, prices, volumes and time of the
   state [sx] after the expiry phase; its fee is within the cap of that record *)
Theorem C06_end_block cfg s dt r q :
  wf_cfg cfg -> Inv cfg s -> height s < HEIGHT_BOUND ->
  get r (reqs s) = None -> get r (reqs (end_block cfg s dt)) = Some q ->
  let sx := fold_left (expire_one cfg) (due (expq s) (height s)) s in
  let c := rid_ctx r in
  exists rc k p price,
    In (height s, c) (newq sx) /\ get c (ctxs sx) = Some rc
    /\ nth_error (filter_providers sx rc (c_provs rc)) k = Some (p, price)
    /\ r = (c, c_counter rc + 1, height s, Z.of_nat k)
    /\ q = mkReq p (if c_super rc then 0 else price) (height s + c_timeout rc) true
    /\ In p (c_provs rc) /\ eligible sx rc p = Some price /\ 0 <= r_fee q <= c_cap rc.
Proof.
  intros Hcfg Hi Hb Hold Hnew. cbv zeta.
  unfold end_block, end_blocker in Hnew. sproj.
  set (l1 := due (expq s) (height s)) in *.
  assert (Hn1 : NoDup l1) by (apply NoDup_due; apply (inv_wf _ _ Hi)).
  assert (Hl1 : forall c, In c l1 -> In (height s, c) (expq s)) by (intros c; apply In_due).
  destruct (fold_expire_phase cfg l1 s Hcfg Hi Hb Hn1 Hl1) as (I1 & H1 & _).
  set (sx := fold_left (expire_one cfg) l1 s) in *.
  assert (Hx : get r (reqs sx) = None).
  { destruct (fold_expire_records cfg l1 s r Hcfg Hi Hb Hn1 Hl1) as (P1 & P2). cbv zeta in P1, P2.
    destruct (mem (rid_ctx r) l1) eqn:M.
    - apply mem_In in M. apply (P2 M).
    - apply mem_nIn in M. destruct (P1 M) as (E & _). exact (eq_trans E Hold). }
  set (l2 := due (newq sx) (height sx)) in *.
  assert (Hn2 : NoDup l2) by (apply NoDup_due; apply (inv_wf _ _ I1)).
  assert (Hl2 : forall c, In c l2 -> In (height sx, c) (newq sx)) by (intros c; apply In_due).
  assert (Hb1 : height sx < HEIGHT_BOUND) by now rewrite H1.
  destruct (fold_new_origin cfg l2 sx r q Hcfg I1 Hb1 Hn2 Hl2 Hx Hnew)
    as (s1 & Is1 & V1 & L1 & D1 & C1 & O1 & N1).
  pose proof V1 as (Eh1 & _).
  assert (Hb2 : height s1 < HEIGHT_BOUND) by (rewrite Eh1; exact Hb1).
  destruct (C06_new_request cfg s1 (rid_ctx r) r q Hcfg Is1 D1 Hb2 O1 N1)
    as (rc & k & p & price & Grc & Hk & Er & Eq & Hin & Hel).
  destruct (C06_fee_le_cap cfg s1 (rid_ctx r) r q Hcfg Is1 D1 Hb2 O1 N1) as (rc' & Grc' & _ & Hfee).
  assert (rc' = rc) by congruence. subst rc'.
  rewrite (filter_providers_view sx s1 rc _ V1) in Hk. rewrite (eligible_view sx s1 rc p V1) in Hel.
  rewrite Eh1, H1 in Er, Eq. rewrite C1 in Grc.
  exists rc, k, p, price. split; [rewrite <- H1; apply Hl2, L1|]. auto 10.
Qed.

(* ---- the converse direction: what the EndBlock leaves for a context that was due ---- *)

Lemma new_one_other cfg s a r :
  wf_cfg cfg -> Inv cfg s -> In (height s, a) (newq s) -> height s < HEIGHT_BOUND ->
  rid_ctx r <> a -> get r (reqs (new_one cfg s a)) = get r (reqs s).
Proof.
  intros Hcfg Hi Hda Hb Hne. destruct (new_one_reqs cfg s a Hcfg Hi Hda Hb) as (N1 & _).
  destruct (get r (reqs s)) as [q|] eqn:G; [now apply N1|].
  destruct (get r (reqs (new_one cfg s a))) as [q|] eqn:G'; [|reflexivity].
  destruct (C06_new_request cfg s a r q Hcfg Hi Hda Hb G G') as (rc & k & p & price & _ & _ & Er & _).
  exfalso. apply Hne. rewrite Er. reflexivity.
Qed.

Lemma fold_new_other cfg l s :
  wf_cfg cfg -> Inv cfg s -> height s < HEIGHT_BOUND -> NoDup l ->
  (forall c, In c l -> In (height s, c) (newq s)) ->
  (forall r, ~ In (rid_ctx r) l -> get r (reqs (fold_left (new_one cfg) l s)) = get r (reqs s))
  /\ (forall c, ~ In c l -> get c (ctxs (fold_left (new_one cfg) l s)) = get c (ctxs s)).
Proof.
  intros Hcfg. revert s. induction l as [|a l IH]; intros s Hi Hb Hn Hl; cbn [fold_left]; [auto|].
  inversion Hn as [|? ? Hna Hn']; subst.
  assert (Hda : In (height s, a) (newq s)) by (apply Hl; now left).
  pose proof (Inv_new_one cfg s a Hcfg Hi Hda Hb) as Hi1.
  pose proof (height_new_one cfg s a Hcfg Hi Hda Hb) as Eh.
  pose proof (newq_after_new_one cfg s a Hcfg Hi Hda Hb) as Eq.
  destruct (new_one_view cfg s a Hcfg Hi Hda Hb) as (_ & Hc).
  destruct (IH (new_one cfg s a) Hi1) as (K1 & K2); try assumption.
  - now rewrite Eh.
  - intros c Hc'. rewrite Eh. apply Eq. split; [apply Hl; now right|]. intros ->. contradiction.
  - split.
    + intros r Hni. rewrite K1 by (intros E; apply Hni; now right).
      apply new_one_other; auto. intros E. apply Hni. now left.
    + intros c Hni. rewrite K2 by (intros E; apply Hni; now right).
      apply Hc. intros E. apply Hni. now left.
Qed.

Lemma fold_new_forward cfg l s c :
  wf_cfg cfg -> Inv cfg s -> height s < HEIGHT_BOUND -> NoDup l ->
  (forall c, In c l -> In (height s, c) (newq s)) -> In c l ->
  exists s1, Inv cfg s1 /\ elig_view s s1 /\ In (height s1, c) (newq s1)
    /\ get c (ctxs s1) = get c (ctxs s)
    /\ (forall r, rid_ctx r = c ->
          get r (reqs (fold_left (new_one cfg) l s)) = get r (reqs (new_one cfg s1 c)))
    /\ get c (ctxs (fold_left (new_one cfg) l s)) = get c (ctxs (new_one cfg s1 c)).
Proof.
  intros Hcfg. revert s. induction l as [|a l IH]; intros s Hi Hb Hn Hl Hin; [destruct Hin|].
  cbn [fold_left]. inversion Hn as [|? ? Hna Hn']; subst.
  assert (Hda : In (height s, a) (newq s)) by (apply Hl; now left).
  pose proof (Inv_new_one cfg s a Hcfg Hi Hda Hb) as Hi1.
  pose proof (height_new_one cfg s a Hcfg Hi Hda Hb) as Eh.
  pose proof (newq_after_new_one cfg s a Hcfg Hi Hda Hb) as Eq.
  destruct (new_one_view cfg s a Hcfg Hi Hda Hb) as (Hv & Hc).
  assert (Hb1 : height (new_one cfg s a) < HEIGHT_BOUND) by now rewrite Eh.
  assert (Hl1 : forall c0, In c0 l -> In (height (new_one cfg s a), c0) (newq (new_one cfg s a))).
  { intros c0 Hc'. rewrite Eh. apply Eq. split; [apply Hl; now right|]. intros ->. contradiction. }
  destruct (eqb_spec c a) as [->|Hne].
  - exists s. split; [exact Hi|]. split; [apply elig_view_refl|]. split; [exact Hda|]. split; [reflexivity|].
    destruct (fold_new_other cfg l (new_one cfg s a) Hcfg Hi1 Hb1 Hn' Hl1) as (K1 & K2).
    split; [intros r Hr; apply K1; now rewrite Hr|now apply K2].
  - destruct Hin as [E|Hin]; [congruence|].
    destruct (IH (new_one cfg s a) Hi1 Hb1 Hn' Hl1 Hin) as (s1 & I1 & V1 & D1 & C1 & R1 & X1).
    exists s1. split; [exact I1|]. split; [eapply elig_view_trans; eauto|]. split; [exact D1|].
    split; [rewrite C1; now apply Hc|]. auto.
Qed.

(* what an EndBlock leaves of a context c that is due for a new batch after the expiry phase:
   its record and its request records are exactly those produced by the handler of c from an
   intermediate state s1 that satisfies the invariant and shows the same context record,
   bindings, prices, volumes and time as the post-expiry state sx.  (Only the bank of s1 may
   differ from that of sx: by the debits of the contexts handled before c, in id order.)
   C06_batch_spec applied to s1 then says which of the five cases it is. *)
Theorem C06_end_block_handler cfg s dt c :
  wf_cfg cfg -> Inv cfg s -> height s < HEIGHT_BOUND ->
  let sx := fold_left (expire_one cfg) (due (expq s) (height s)) s in
  let sf := end_block cfg s dt in
  In (height s, c) (newq sx) ->
  exists s1, Inv cfg s1 /\ In (height s1, c) (newq s1) /\ height s1 = height s
    /\ time s1 = time sx /\ binds s1 = binds sx /\ pricing s1 = pricing sx /\ vols s1 = vols sx
    /\ get c (ctxs s1) = get c (ctxs sx)
    /\ (forall r, rid_ctx r = c -> get r (reqs sf) = get r (reqs (new_one cfg s1 c)))
    /\ get c (ctxs sf) = get c (ctxs (new_one cfg s1 c)).
Proof.
  intros Hcfg Hi Hb. cbv zeta. intros Hdue.
  unfold end_block, end_blocker. sproj.
  set (l1 := due (expq s) (height s)) in *.
  assert (Hn1 : NoDup l1) by (apply NoDup_due; apply (inv_wf _ _ Hi)).
  assert (Hl1 : forall c, In c l1 -> In (height s, c) (expq s)) by (intros c0; apply In_due).
  destruct (fold_expire_phase cfg l1 s Hcfg Hi Hb Hn1 Hl1) as (I1 & H1 & _).
  set (sx := fold_left (expire_one cfg) l1 s) in *.
  set (l2 := due (newq sx) (height sx)) in *.
  assert (Hn2 : NoDup l2) by (apply NoDup_due; apply (inv_wf _ _ I1)).
  assert (Hl2 : forall c, In c l2 -> In (height sx, c) (newq sx)) by (intros c0; apply In_due).
  assert (Hb1 : height sx < HEIGHT_BOUND) by now rewrite H1.
  assert (Hin : In c l2) by (apply In_due; now rewrite H1).
  destruct (fold_new_forward cfg l2 sx c Hcfg I1 Hb1 Hn2 Hl2 Hin)
    as (s1 & Is1 & (V1 & V2 & V3 & V4 & V5) & D1 & C1 & R1 & X1).
  exists s1. split; [exact Is1|]. split; [exact D1|]. split; [congruence|]. auto 10.
Qed.

(* Example: the hypotheses on the history of StepSpecs_batch.ExB (seven contexts due in the same
   EndBlock: two issue, two are skipped, one is paused for funds, one was paused by the consumer) *)
Module ExE.
  Import ExB.
  Example C06_end_block_ex :
    wf_cfg cfg /\ Reach cfg s_a /\ height s_a < HEIGHT_BOUND
    /\ reqs s_a = []
    /\ reqs (end_block cfg s_a 1)
       = [((c1, 1, 1, 0), mkReq 7 10 21 true); ((c1, 1, 1, 1), mkReq 11 30 21 true);
          ((c6, 1, 1, 0), mkReq 7 0 21 true); ((c6, 1, 1, 1), mkReq 11 0 21 true)]
    /\ bal (end_block cfg s_a 1) (User 50) = 60 /\ bal (end_block cfg s_a 1) (User 51) = 5
    /\ bal (end_block cfg s_a 1) Escrow = 40.
  Proof.
    split; [exact wf_cfg_ex|]. split; [exact reach_a|]. vm_compute. auto 10.
  Qed.

  Example C06_end_block_applies :
    exists rc k p price, get c1 (ctxs s_a) = Some rc
      /\ nth_error (filter_providers s_a rc (c_provs rc)) k = Some (p, price)
      /\ mkReq 11 30 21 true = mkReq p (if c_super rc then 0 else price) (height s_a + c_timeout rc) true.
  Proof.
    destruct C06_end_block_ex as (H1 & H2 & H3 & H4 & H5 & _).
    assert (G0 : get (c1, 1, 1, 1) (reqs s_a) = None) by (rewrite H4; reflexivity).
    assert (G1 : get (c1, 1, 1, 1) (reqs (end_block cfg s_a 1)) = Some (mkReq 11 30 21 true))
      by (rewrite H5; reflexivity).
    destruct (C06_end_block cfg s_a 1 _ _ H1 (Reach_Inv _ _ H1 H2) H3 G0 G1)
      as (rc & k & p & price & _ & A2 & A3 & _ & A5 & _).
    assert (Ex : fold_left (expire_one cfg) (due (expq s_a) (height s_a)) s_a = s_a)
      by (vm_compute; reflexivity).
    rewrite Ex in A2, A3. exists rc, k, p, price. auto.
  Qed.

  Example C06_end_block_handler_ex :
    wf_cfg cfg /\ Reach cfg s_a /\ height s_a < HEIGHT_BOUND
    /\ In (height s_a, c3) (newq (fold_left (expire_one cfg) (due (expq s_a) (height s_a)) s_a))
    /\ exists rc, get c3 (ctxs s_a) = Some rc
         /\ get c3 (ctxs (end_block cfg s_a 1)) = Some (paused_ctx rc)
         /\ get c1 (ctxs (end_block cfg s_a 1)) = option_map (fun x => bump x 2) (get c1 (ctxs s_a))
         /\ get c2 (ctxs (end_block cfg s_a 1)) = option_map (fun x => bump x 0) (get c2 (ctxs s_a)).
  Proof.
    split; [exact wf_cfg_ex|]. split; [exact reach_a|]. split; [vm_compute; reflexivity|].
    split; [vm_compute; tauto|]. eexists. split; [vm_compute; reflexivity|]. vm_compute. auto.
  Qed.
End ExE.
