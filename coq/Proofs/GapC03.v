(* Gap closing for C03 (and C04 facet "several failures of one provider in one block"),
   part 1: during an accepted response and during EndBlock the recorded deposits move ONLY by
   slashes: with d the events the step appended,
       deposit(k) after = deposit(k) before - (sum of the amounts of the EvSlash _ k _ of d)
       supply after     = supply before     - (sum of the amounts of all EvSlash of d)
       custody account likewise,
   no binding appears or disappears, owner / published pricing / qos of every binding are kept,
   and d contains no EvDepositIn / EvDepositOut.  Needs no invariant. *)
From Coq Require Import List ZArith Bool Lia.
From SVC Require Import Base.AMap Base.Res Base.Dec Model.Types Model.Pricing
  Model.Handlers Model.EndBlock Model.Step Proofs.Inv Proofs.Lemmas Proofs.ReqLemmas
  Proofs.CtxOps Proofs.BankLemmas Proofs.PFrame Proofs.StepSpecs_deposit
  Proofs.TraceLemmas Proofs.TraceSettle Proofs.GapC02.
Import ListNotations.
Open Scope Z_scope.

(* ------------------------------------------------------------------ *)
(* sums over a list of events *)

(* the amount an event takes from binding k by a slash *)
Definition slash_amt (k : BKey) (e : Event) : Z :=
  match e with EvSlash _ k' a => if eqb k' k then a else 0 | _ => 0 end.
Definition slashed (k : BKey) (d : list Event) : Z := fold_right (fun e z => slash_amt k e + z) 0 d.
(* the amount an event burns *)
Definition slash_any (e : Event) : Z := match e with EvSlash _ _ a => a | _ => 0 end.
Definition slashed_all (d : list Event) : Z := fold_right (fun e z => slash_any e + z) 0 d.

Definition is_dep_move (e : Event) : bool :=
  match e with EvDepositIn _ _ _ | EvDepositOut _ _ _ => true | _ => false end.
(* neither a slash nor a deposit movement *)
Definition inert (e : Event) : Prop := is_any_slash e = false /\ is_dep_move e = false.
(* what a respond / EndBlock step may append: slashes of non-negative amounts, no deposit moves *)
Definition slash_ok (e : Event) : Prop := 0 <= slash_any e /\ is_dep_move e = false.

Lemma slashed_cons k e d : slashed k (e :: d) = slash_amt k e + slashed k d.
Proof. reflexivity. Qed.
Lemma slashed_app k d1 d2 : slashed k (d1 ++ d2) = slashed k d1 + slashed k d2.
Proof. induction d1 as [|e d IH]; [reflexivity|]. cbn [app]. rewrite !slashed_cons, IH. lia. Qed.
Lemma slashed_all_cons e d : slashed_all (e :: d) = slash_any e + slashed_all d.
Proof. reflexivity. Qed.
Lemma slashed_all_app d1 d2 : slashed_all (d1 ++ d2) = slashed_all d1 + slashed_all d2.
Proof. induction d1 as [|e d IH]; [reflexivity|]. cbn [app]. rewrite !slashed_all_cons, IH. lia. Qed.

Lemma inert_slash_ok e : inert e -> slash_ok e.
Proof. intros (H1 & H2). split; [|exact H2]. destruct e; cbn in *; try lia; discriminate. Qed.

Lemma inert_sums d : Forall inert d -> (forall k, slashed k d = 0) /\ slashed_all d = 0.
Proof.
  induction 1 as [|e d (He & _) Hd (I1 & I2)]; [split; reflexivity|].
  split; [intros k; rewrite slashed_cons, I1|rewrite slashed_all_cons, I2];
    destruct e; cbn in *; try reflexivity; discriminate.
Qed.

Lemma slash_ok_bounds d : Forall slash_ok d ->
  forall k, 0 <= slashed k d <= slashed_all d.
Proof.
  induction 1 as [|e d (He & _) Hd IH]; intros k; [cbn; lia|].
  rewrite slashed_cons, slashed_all_cons. specialize (IH k).
  unfold slash_ok in He. destruct e; cbn [slash_amt slash_any] in *; try lia. destruct (eqb k0 k); lia.
Qed.

Lemma quiet_inert_not e : quiet e -> is_any_slash e = false.
Proof. destruct e; cbn; try reflexivity; discriminate. Qed.

(* ------------------------------------------------------------------ *)
(* Generic part: a reflexive, transitive relation that holds for every slash and for every
   step that leaves bindings, supply, block time and the custody balance alone while appending
   only inert events holds for the whole EndBlocker and for every accepted response. *)

Ltac ie_auto :=
  sproj; repeat (first [apply ext_refl | assumption | apply ext_cons; [split; reflexivity|]]).

Section SlashOnly.
Variable cfg : Params.
Variable R : State -> State -> Prop.
Hypothesis R_refl : forall s, R s s.
Hypothesis R_trans : forall s1 s2 s3, R s1 s2 -> R s2 s3 -> R s1 s3.
Hypothesis R_slash : forall s r s1, slash cfg s r = Ok s1 -> R s s1.
Hypothesis R_inert : forall s s',
  binds s' = binds s -> supply s' = supply s -> time s' = time s ->
  bal s' Deposit = bal s Deposit -> ext inert (log s) (log s') -> R s s'.

Ltac g_frame := apply R_inert; [reflexivity|reflexivity|reflexivity|reflexivity|ie_auto].

Lemma G_emit e s : inert e -> R s (emit e s).
Proof. intros He. apply R_inert; try reflexivity. sproj. apply ext_cons; [exact He|apply ext_refl]. Qed.

Lemma G_fold {A} (f : State -> A -> State) (l : list A) s :
  (forall s a, R s (f s a)) -> R s (fold_left f l s).
Proof.
  intros Hf. revert s. induction l as [|a l IH]; cbn [fold_left]; intros s; [apply R_refl|].
  eapply R_trans; [apply Hf|apply IH].
Qed.

(* a bank send between two accounts other than the custody account *)
Lemma G_transfer a b amt s s1 :
  transfer a b amt s = Some s1 -> a <> Deposit -> b <> Deposit -> R s s1.
Proof.
  intros Et Ha Hb. pose proof (transfer_keeps_deposit _ _ _ _ _ Et Ha Hb) as Ed.
  pose proof (transfer_frame _ _ _ _ _ Et) as Ef.
  apply R_inert; try (rewrite Ef; reflexivity); [exact Ed|]. rewrite Ef. apply ext_refl.
Qed.

Lemma G_refund s r cons fee s1 : refund_fee s r cons fee = Some s1 -> R s s1.
Proof.
  intros H. apply refund_fee_inv in H. destruct H as (s0 & Et & ->).
  eapply R_trans; [eapply G_transfer; [exact Et|discriminate|discriminate]|].
  apply G_emit. split; reflexivity.
Qed.

Lemma G_add_earned s r prov fee s1 : add_earned_fee cfg s r prov fee = Ok s1 -> R s s1.
Proof.
  intros H. apply add_earned_fee_inv in H. destruct H as (s0 & o & Et & _ & _ & ->).
  eapply R_trans; [eapply G_transfer; [exact Et|discriminate|discriminate]|]. g_frame.
Qed.

Lemma G_deactivate s r : R s (deactivate s r).
Proof. unfold deactivate. destruct (get r (reqs s)); [g_frame|apply R_refl]. Qed.

Lemma G_callback s c : R s (callback s c).
Proof. unfold callback. destruct (get c (ctxs s)); [g_frame|apply R_refl]. Qed.

Lemma G_complete_batch s c rc : R s (fst (complete_batch s c rc)).
Proof.
  unfold complete_batch. cbn [fst]. eapply R_trans; [|apply G_emit; split; reflexivity].
  destruct (c_mod rc =? 0); [apply R_refl|apply G_callback].
Qed.

Lemma G_clean_batch s c n : R s (clean_batch s c n).
Proof. unfold clean_batch. g_frame. Qed.

Lemma G_expire_req s r : R s (expire_req cfg s r).
Proof.
  unfold expire_req.
  destruct (get r (reqs s)) as [q|]; [|apply R_refl].
  destruct (get (rid_ctx r) (ctxs s)) as [rc|]; [|apply R_refl].
  eapply R_trans; [|apply G_emit; split; reflexivity].
  eapply R_trans; [|apply G_deactivate].
  destruct (c_super rc); [apply R_refl|].
  assert (Hsa : R s (match slash cfg s r with Ok x => x | _ => s end)).
  { destruct (slash cfg s r) eqn:Es; try apply R_refl. eapply R_slash; eauto. }
  destruct (refund_fee _ r (c_cons rc) (r_fee q)) eqn:Er; [|assumption].
  eapply R_trans; [exact Hsa|]. eapply G_refund; eauto.
Qed.

Lemma G_expire_one s c : R s (expire_one cfg s c).
Proof.
  unfold expire_one. set (rc := ctx_or_zero s c).
  assert (Hp : R s (fst (if c_bdone rc then (s, rc)
             else complete_batch (fold_left (expire_req cfg) (active_rids s c (c_counter rc)) s) c rc))).
  { destruct (c_bdone rc); cbn [fst]; [apply R_refl|].
    eapply R_trans; [|apply G_complete_batch]. apply G_fold. intros; apply G_expire_req. }
  destruct (if c_bdone rc then (s, rc) else _) as [s1 rc1]. cbn [fst] in Hp.
  eapply R_trans; [exact Hp|]. eapply R_trans; [|apply G_clean_batch].
  destruct (c_state rc1); [destruct (c_rep rc1 && _)| |]; g_frame.
Qed.

Lemma G_issue_all s c rc n i provs : R s (issue_all s c rc n i provs).
Proof.
  revert s i. induction provs as [|p t IH]; cbn [issue_all]; intros s i; [apply R_refl|].
  eapply R_trans; [|apply IH]. rewrite issue_one_eq. g_frame.
Qed.

Lemma G_initiate s c provs : R s (initiate_requests s c provs).
Proof.
  unfold initiate_requests. eapply R_trans; [apply G_issue_all|]. g_frame.
Qed.

Lemma G_new_one s c : R s (new_one cfg s c).
Proof.
  unfold new_one. set (rc := ctx_or_zero s c).
  destruct (is_state rc Running && c_rep rc && (0 <? c_total rc) && (c_total rc <=? c_counter rc)).
  { g_frame. }
  match goal with |- R s (del_newq ?x c ?h) => apply (R_trans s x); [|g_frame] end.
  destruct (is_state rc Running); [|apply R_refl].
  set (el := filter_providers s rc (c_provs rc)).
  destruct ((0 <? len el) && (c_thr rc <=? len el)).
  2:{ unfold skip_batch. g_frame. }
  assert (Hp : R s (on_paused s c rc)).
  { unfold on_paused. destruct (c_mod rc =? 0); g_frame. }
  destruct (c_super rc).
  - eapply R_trans; [apply G_initiate|g_frame].
  - destruct (transfer (User (c_cons rc)) Escrow (sum_prices el) s) as [x|] eqn:Et; [|exact Hp].
    eapply R_trans; [eapply G_transfer; [exact Et|discriminate|discriminate]|].
    eapply R_trans; [apply (G_emit (EvDebit c (c_cons rc) (sum_prices el))); split; reflexivity|].
    eapply R_trans; [apply G_initiate|]. g_frame.
Qed.

Lemma G_end_blocker s : R s (end_blocker cfg s).
Proof.
  unfold end_blocker.
  eapply R_trans; cycle 1; [apply G_fold; intros; apply G_new_one|].
  apply G_fold. intros; apply G_expire_one.
Qed.

Lemma G_resp_tail s1 r who rc0 code out c rc :
  R s1 (resp_finish (resp_mid s1 r who rc0 code out) c rc).
Proof.
  eapply (R_trans _ (resp_mid s1 r who rc0 code out)).
  - unfold resp_mid. eapply R_trans; [|apply G_emit; split; reflexivity].
    eapply (R_trans _ (deactivate (set_resps s1 (set r (mkResp who (c_cons rc0) code out) (resps s1))) r)).
    + eapply R_trans; [|apply G_deactivate]. g_frame.
    + g_frame.
  - unfold resp_finish.
    destruct (c_bresp (setc_bresp rc (c_bresp rc + 1)) =? c_breq (setc_bresp rc (c_bresp rc + 1))).
    + eapply R_trans; [apply G_complete_batch|]. g_frame.
    + g_frame.
Qed.

Lemma G_respond s r who code out ov ok s' :
  h_respond cfg s r who code out ov ok = Ok s' -> R s s'.
Proof.
  intros H. apply respond_inv in H.
  destruct H as (q & rc0 & s1 & rc & _ & _ & _ & _ & _ & Hset & _ & ->).
  eapply R_trans; [|apply G_resp_tail].
  destruct Hset as [[_ (sa & Es & Er)]|[_ Ea]].
  - eapply R_trans; [eapply R_slash; eauto|eapply G_refund; eauto].
  - eapply G_add_earned; eauto.
Qed.

End SlashOnly.

(* ------------------------------------------------------------------ *)
(* instance 1: the amounts *)

Definition DS (s s' : State) : Prop :=
  exists d, log s' = d ++ log s /\ Forall slash_ok d
    /\ (forall k, dep_at s' k = dep_at s k - slashed k d)
    /\ supply s' = supply s - slashed_all d
    /\ bal s' Deposit = bal s Deposit - slashed_all d.

Lemma DS_refl s : DS s s.
Proof. exists []. cbn. repeat split; try constructor; intros; lia. Qed.

Lemma DS_trans s1 s2 s3 : DS s1 s2 -> DS s2 s3 -> DS s1 s3.
Proof.
  intros (d1 & E1 & F1 & D1 & S1 & B1) (d2 & E2 & F2 & D2 & S2 & B2). exists (d2 ++ d1).
  split; [now rewrite E2, E1, app_assoc|]. split; [apply Forall_app; auto|].
  split; [intros k; rewrite D2, D1, slashed_app; lia|].
  rewrite S2, S1, B2, B1, slashed_all_app. split; lia.
Qed.

Lemma DS_same s s' :
  binds s' = binds s -> supply s' = supply s ->
  bal s' Deposit = bal s Deposit -> ext inert (log s) (log s') -> DS s s'.
Proof.
  intros Eb Es Ek (d & El & Hd). destruct (inert_sums d Hd) as (Z1 & Z2).
  exists d. split; [exact El|]. split; [eapply Forall_impl; [apply inert_slash_ok|exact Hd]|].
  split; [intros k; unfold dep_at; rewrite Eb, Z1; lia|].
  rewrite Z2. split; lia.
Qed.

Lemma DS_inert s s' :
  binds s' = binds s -> supply s' = supply s -> time s' = time s ->
  bal s' Deposit = bal s Deposit -> ext inert (log s) (log s') -> DS s s'.
Proof. intros Eb Es _. now apply DS_same. Qed.

Lemma DS_slash cfg s r s1 : slash cfg s r = Ok s1 -> DS s s1.
Proof.
  intros H. destruct (C04_slash_fields cfg s r s1 H) as (q & rc & b & b' & F). cbv zeta in F.
  destruct F as (_ & _ & Gb & Gb' & Hamt & Hd & _ & _ & _ & Hbal & _ & Hsup & Hoth & _ & _ & _ & _ & _ & Hlog).
  remember (mul_trunc (b_deposit b) (p_slash cfg)) as amt eqn:Eamt.
  exists [EvSlash r (c_svc rc, r_prov q) amt]. split; [exact Hlog|].
  split; [repeat constructor; cbn; lia|].
  split.
  - intros k. cbn [slashed fold_right slash_amt].
    destruct (eqb_spec k (c_svc rc, r_prov q)) as [->|Hn].
    + rewrite (dep_at_get _ _ _ Gb), (dep_at_get _ _ _ Gb'), eqb_refl. lia.
    + pose proof (Hoth k Hn) as EE. unfold dep_at, fget. unfold BKey in *.
      rewrite EE, (neq_eqb _ _ (not_eq_sym Hn)). lia.
  - cbn [slashed_all fold_right slash_any]. split; lia.
Qed.

Lemma DS_end_block cfg s dt : DS s (end_block cfg s dt).
Proof.
  unfold end_block. eapply DS_trans; [apply (G_end_blocker cfg DS DS_refl DS_trans (DS_slash cfg) DS_inert)|].
  apply DS_same; try reflexivity. sproj. apply ext_refl.
Qed.

Lemma DS_respond cfg s r who code out ov ok s' :
  h_respond cfg s r who code out ov ok = Ok s' -> DS s s'.
Proof. apply (G_respond cfg DS DS_refl DS_trans (DS_slash cfg) DS_inert). Qed.

(* ------------------------------------------------------------------ *)
(* instance 2: availability and disabling time.  Within a response or an EndBlocker run (block
   time t throughout) a binding can only go from available to unavailable, it then gets t as
   its disabling time, and a binding whose availability is unchanged keeps its disabling time *)

Definition AV (s s' : State) : Prop :=
  time s' = time s /\ bsim (binds s) (binds s')
  /\ forall k b b', get k (binds s) = Some b -> get k (binds s') = Some b' ->
       (b_avail b = true -> b_avail b' = false -> b_dtime b' = time s)
       /\ (b_avail b' = true -> b_avail b = true)
       /\ (b_avail b' = b_avail b -> b_dtime b' = b_dtime b).

Lemma AV_refl s : AV s s.
Proof.
  split; [reflexivity|]. split; [apply bsim_refl|]. intros k b b' G G'. rewrite G in G'. injection G' as <-.
  repeat split; auto. intros A B. congruence.
Qed.

Lemma AV_trans s1 s2 s3 : AV s1 s2 -> AV s2 s3 -> AV s1 s3.
Proof.
  intros (T1 & B1 & H1) (T2 & B2 & H2). split; [congruence|]. split; [eapply bsim_trans; eauto|].
  intros k b1 b3 G1 G3. destruct (bsim_get _ _ _ _ B1 G1) as (b2 & G2 & _).
  destruct (H1 _ _ _ G1 G2) as (A1 & A2 & A3). destruct (H2 _ _ _ G2 G3) as (C1 & C2 & C3).
  rewrite T1 in C1. split; [|split].
  - intros Ha Hb. destruct (b_avail b2) eqn:E2.
    + now apply C1.
    + rewrite C3 by congruence. now apply A1.
  - auto.
  - intros E. destruct (b_avail b2) eqn:E2.
    + destruct (b_avail b1) eqn:E1; [|specialize (A2 eq_refl); discriminate].
      rewrite C3, A3; congruence.
    + destruct (b_avail b3) eqn:E3; [specialize (C2 eq_refl); discriminate|].
      rewrite C3, A3; congruence.
Qed.

Lemma AV_inert s s' :
  binds s' = binds s -> supply s' = supply s -> time s' = time s ->
  bal s' Deposit = bal s Deposit -> ext inert (log s) (log s') -> AV s s'.
Proof.
  intros Eb _ Et _ _. split; [exact Et|]. rewrite Eb. split; [apply bsim_refl|].
  intros k b b' G G'. rewrite G in G'. injection G' as <-. repeat split; auto. intros A B. congruence.
Qed.

Lemma AV_slash cfg s r s1 : slash cfg s r = Ok s1 -> AV s s1.
Proof.
  intros H. pose proof (sf_binds _ _ (proj1 (ff_slash _ _ _ _ H))) as Hsim.
  destruct (C04_slash_fields cfg s r s1 H) as (q0 & rc0 & b0 & b0' & F0). cbv zeta in F0.
  destruct F0 as (Gq0 & Grc0 & _ & _ & _ & _ & _ & _ & _ & _ & _ & _ & Hoth & _ & _ & _ & Ht & _).
  destruct (C14_slash_disables cfg s r s1 H) as (q & rc & b & b' & F). cbv zeta in F.
  destruct F as (Gq & Grc & Gb & Gb' & _ & _ & Hdis & Hkeep).
  rewrite Gq0 in Gq. injection Gq as <-. rewrite Grc0 in Grc. injection Grc as <-.
  split; [exact Ht|]. split; [exact Hsim|].
  intros k x x' G G'. unfold BKey in *. destruct (eqb_spec k (c_svc rc0, r_prov q0)) as [->|Hn].
  - rewrite Gb in G. injection G as <-. rewrite Gb' in G'. injection G' as <-.
    split; [exact Hdis|]. split; [|exact Hkeep].
    destruct (bsim_get _ _ _ _ Hsim Gb) as (y & Gy & _ & _ & Hav & _). unfold BKey in *. rewrite Gb' in Gy. injection Gy as <-.
    exact Hav.
  - pose proof (Hoth k Hn) as EE. rewrite EE, G in G'. injection G' as <-.
    repeat split; auto. intros A B. congruence.
Qed.

Lemma AV_end_blocker cfg s : AV s (end_blocker cfg s).
Proof. apply (G_end_blocker cfg AV AV_refl AV_trans (AV_slash cfg) AV_inert). Qed.

Lemma AV_respond cfg s r who code out ov ok s' :
  h_respond cfg s r who code out ov ok = Ok s' -> AV s s'.
Proof. apply (G_respond cfg AV AV_refl AV_trans (AV_slash cfg) AV_inert). Qed.

(* ------------------------------------------------------------------ *)
(* the theorem *)

Theorem deposit_falls_only_by_slash cfg s o s' :
  handle cfg s o = Ok s' ->
  ((exists dt, o = OEndBlock dt) \/ (exists r w c out v ok, o = ORespond r w c out v ok)) ->
  exists d, log s' = d ++ log s
    /\ Forall (fun e => 0 <= slash_any e /\ is_dep_move e = false) d
    /\ (forall k, dep_at s' k = dep_at s k - slashed k d /\ 0 <= slashed k d <= slashed_all d)
    /\ (forall k, has k (binds s') = has k (binds s))
    /\ (forall k b, get k (binds s) = Some b ->
          exists b', get k (binds s') = Some b' /\ b_owner b' = b_owner b /\ b_raw b' = b_raw b
                     /\ b_qos b' = b_qos b /\ (b_avail b' = true -> b_avail b = true))
    /\ supply s' = supply s - slashed_all d
    /\ bal s' Deposit = bal s Deposit - slashed_all d.
Proof.
  intros H Ho.
  assert (HD : DS s s' /\ bsim (binds s) (binds s')).
  { destruct Ho as [(dt & ->)|(r & w & c & out & v & ok & ->)]; cbn [handle] in H.
    - injection H as <-. split; [apply DS_end_block|]. apply (sf_binds _ _ (proj1 (ff_end_block cfg s dt))).
    - split; [eapply DS_respond; eauto|]. apply (sf_binds _ _ (sframe_respond _ _ _ _ _ _ _ _ _ H)). }
  destruct HD as ((d & El & Hd & Hk & Hs & Hb) & Hsim).
  exists d. split; [exact El|]. split; [exact Hd|].
  split; [intros k; split; [apply Hk|apply (slash_ok_bounds d Hd)]|].
  split; [intros k; now apply bsim_has|].
  split.
  { intros k b G. destruct (bsim_get _ _ _ _ Hsim G) as (b' & G' & A & B & C & D). exists b'. auto. }
  auto.
Qed.

(* several failures of the same provider in one block: on the example history of
   Proofs/TraceSettle.v the EndBlock of height 21 slashes (1,11) by 100 and (1,12) by 75 *)
Example tx_block_slashes :
  let s := run tx_cfg tx_s0 (firstn 26 tx_ops) in
  let s' := end_block tx_cfg s 5 in
  exists d, log s' = d ++ log s
    /\ slashed (1, 11) d = 100 /\ slashed (1, 12) d = 75 /\ slashed_all d = 175
    /\ dep_at s (1, 11) = 400 /\ dep_at s' (1, 11) = 300
    /\ dep_at s (1, 12) = 300 /\ dep_at s' (1, 12) = 225
    /\ supply s' = supply s - 175.
Proof. eexists (firstn 8 (log (end_block tx_cfg (run tx_cfg tx_s0 (firstn 26 tx_ops)) 5))). vm_compute. repeat split. Qed.
