(* Shared support for the gap files of C16 / C17 / C19 / C20: lifting a reflexive, transitive
   relation between states from the two per-context EndBlock handlers to a whole phase, to the
   EndBlocker, to one step and to a run. *)
From Coq Require Import List ZArith Bool Lia Permutation.
From SVC Require Import Base.AMap Base.Res Base.Dec Model.Types Model.Pricing
  Model.Handlers Model.EndBlock Model.Step Proofs.Inv Proofs.Lemmas Proofs.CtxOps
  Proofs.InvSched Proofs.InvAll Proofs.ReachRun.
Import ListNotations.
Open Scope Z_scope.

Section PhaseRel.
  Variable cfg : Params.
  Variable R : State -> State -> Prop.
  Hypothesis Hcfg : wf_cfg cfg.
  Hypothesis R_refl : forall s, R s s.
  Hypothesis R_trans : forall a b c, R a b -> R b c -> R a c.

  (* the handler hypothesis is needed only for the contexts of the list *)
  Lemma fold_expire_rel_on l :
    (forall s c, In c l -> Inv cfg s -> In (height s, c) (expq s) -> height s < HEIGHT_BOUND ->
       R s (expire_one cfg s c)) ->
    forall s, Inv cfg s -> height s < HEIGHT_BOUND -> NoDup l ->
      (forall c, In c l -> In (height s, c) (expq s)) ->
      R s (fold_left (expire_one cfg) l s).
  Proof.
    induction l as [|a l IH]; intros Hone s Hi Hb Hn Hl; cbn [fold_left]; [apply R_refl|].
    inversion Hn as [|? ? Hna Hn']; subst.
    assert (Hda : In (height s, a) (expq s)) by (apply Hl; now left).
    pose proof (Inv_expire_one cfg s a Hcfg Hi Hda Hb) as Hi1.
    pose proof (height_expire_one cfg s a Hcfg Hi Hda Hb) as Eh.
    pose proof (expq_after_expire_one cfg s a Hcfg Hi Hda Hb) as Eq.
    apply (R_trans _ (expire_one cfg s a)); [apply Hone; try assumption; now left|].
    apply IH; try assumption.
    - intros s0 c Hc. apply Hone. now right.
    - now rewrite Eh.
    - intros c Hc. rewrite Eh. apply Eq. split; [apply Hl; now right|]. intros ->. contradiction.
  Qed.

  Lemma fold_new_rel_on l :
    (forall s c, In c l -> Inv cfg s -> In (height s, c) (newq s) -> height s < HEIGHT_BOUND ->
       R s (new_one cfg s c)) ->
    forall s, Inv cfg s -> height s < HEIGHT_BOUND -> NoDup l ->
      (forall c, In c l -> In (height s, c) (newq s)) ->
      R s (fold_left (new_one cfg) l s).
  Proof.
    induction l as [|a l IH]; intros Hone s Hi Hb Hn Hl; cbn [fold_left]; [apply R_refl|].
    inversion Hn as [|? ? Hna Hn']; subst.
    assert (Hda : In (height s, a) (newq s)) by (apply Hl; now left).
    pose proof (Inv_new_one cfg s a Hcfg Hi Hda Hb) as Hi1.
    pose proof (height_new_one cfg s a Hcfg Hi Hda Hb) as Eh.
    pose proof (newq_after_new_one cfg s a Hcfg Hi Hda Hb) as Eq.
    apply (R_trans _ (new_one cfg s a)); [apply Hone; try assumption; now left|].
    apply IH; try assumption.
    - intros s0 c Hc. apply Hone. now right.
    - now rewrite Eh.
    - intros c Hc. rewrite Eh. apply Eq. split; [apply Hl; now right|]. intros ->. contradiction.
  Qed.

  Lemma fold_expire_rel :
    (forall s c, Inv cfg s -> In (height s, c) (expq s) -> height s < HEIGHT_BOUND ->
       R s (expire_one cfg s c)) ->
    forall l s, Inv cfg s -> height s < HEIGHT_BOUND -> NoDup l ->
      (forall c, In c l -> In (height s, c) (expq s)) ->
      R s (fold_left (expire_one cfg) l s).
  Proof. intros Hone l. apply fold_expire_rel_on. intros s c _. apply Hone. Qed.

  Lemma fold_new_rel :
    (forall s c, Inv cfg s -> In (height s, c) (newq s) -> height s < HEIGHT_BOUND ->
       R s (new_one cfg s c)) ->
    forall l s, Inv cfg s -> height s < HEIGHT_BOUND -> NoDup l ->
      (forall c, In c l -> In (height s, c) (newq s)) ->
      R s (fold_left (new_one cfg) l s).
  Proof. intros Hone l. apply fold_new_rel_on. intros s c _. apply Hone. Qed.

  Hypothesis R_expire : forall s c, Inv cfg s -> In (height s, c) (expq s) ->
    height s < HEIGHT_BOUND -> R s (expire_one cfg s c).
  Hypothesis R_new : forall s c, Inv cfg s -> In (height s, c) (newq s) ->
    height s < HEIGHT_BOUND -> R s (new_one cfg s c).

  (* the state between the two phases *)
  Definition mid_state (s : State) : State :=
    fold_left (expire_one cfg) (due (expq s) (height s)) s.

  Lemma mid_state_facts s : Inv cfg s -> height s < HEIGHT_BOUND ->
    Inv cfg (mid_state s) /\ height (mid_state s) = height s /\ time (mid_state s) = time s
    /\ (forall h c, In (h, c) (expq (mid_state s)) <->
          (In (h, c) (expq s) /\ ~ In c (due (expq s) (height s))))
    /\ R s (mid_state s).
  Proof.
    intros Hi Hb. unfold mid_state. set (l1 := due (expq s) (height s)).
    assert (Hn1 : NoDup l1) by (apply NoDup_due; apply (inv_wf _ _ Hi)).
    assert (Hl1 : forall c, In c l1 -> In (height s, c) (expq s)) by (intros c; apply In_due).
    destruct (fold_expire_phase cfg l1 s Hcfg Hi Hb Hn1 Hl1) as (I1 & H1 & T1 & Q1).
    split; [exact I1|]. split; [exact H1|]. split; [exact T1|]. split; [exact Q1|].
    apply fold_expire_rel; assumption.
  Qed.

  Lemma end_blocker_eq s :
    end_blocker cfg s
    = fold_left (new_one cfg) (due (newq (mid_state s)) (height (mid_state s))) (mid_state s).
  Proof. reflexivity. Qed.

  Lemma end_blocker_rel s : Inv cfg s -> height s < HEIGHT_BOUND -> R s (end_blocker cfg s).
  Proof.
    intros Hi Hb. rewrite end_blocker_eq.
    destruct (mid_state_facts s Hi Hb) as (I1 & H1 & _ & _ & R1).
    set (s1 := mid_state s) in *. set (l2 := due (newq s1) (height s1)).
    assert (Hn2 : NoDup l2) by (apply NoDup_due; apply (inv_wf _ _ I1)).
    assert (Hl2 : forall c, In c l2 -> In (height s1, c) (newq s1)) by (intros c; apply In_due).
    eapply R_trans; [exact R1|]. apply fold_new_rel; try assumption. now rewrite H1.
  Qed.

  Hypothesis R_tick : forall s h t, R s (set_time (set_height s h) t).

  Lemma end_block_rel s dt : Inv cfg s -> height s < HEIGHT_BOUND -> R s (end_block cfg s dt).
  Proof.
    intros Hi Hb. unfold end_block. eapply R_trans; [apply end_blocker_rel; assumption|apply R_tick].
  Qed.

  Hypothesis R_msg : forall s o s', Inv cfg s -> wf_op s o -> (forall dt, o <> OEndBlock dt) ->
    handle cfg s o = Ok s' -> R s s'.

  Lemma step_rel s o : Inv cfg s -> wf_op s o -> R s (fst (step cfg s o)).
  Proof.
    intros Hi Ho. unfold step. destruct (handle cfg s o) as [s'| |] eqn:E; cbn [fst]; try apply R_refl.
    destruct o; try (eapply R_msg; [exact Hi|exact Ho|discriminate|exact E]).
    cbn [handle] in E. injection E as <-. cbn [wf_op] in Ho. destruct Ho. now apply end_block_rel.
  Qed.

  Lemma run_rel ops : forall s, Inv cfg s -> wf_run cfg s ops -> R s (run cfg s ops).
  Proof.
    induction ops as [|o ops IH]; intros s Hi Hw; [apply R_refl|].
    cbn [wf_run] in Hw. destruct Hw as [Ho Hw]. unfold run. cbn [fold_left].
    eapply R_trans; [apply step_rel; eassumption|].
    apply IH; [now apply Inv_step|exact Hw].
  Qed.
End PhaseRel.
