(* Property C06: requests go only to eligible providers, within the consumer's fee cap.
   The exact specification of the new-batch handler (abci.go newRequestBatchHandler,
   keeper.FilterServiceProviders, InitiateRequests, SkipCurrentRequestBatch,
   OnRequestContextPaused) on a state satisfying the global invariant.
   The state [s] of [new_one cfg s c] is the state AFTER the expiry phase of the same
   EndBlock (phase 2 of end_blocker; that is how Proofs/InvAll.v fold_new_phase feeds it). *)
From Coq Require Import List ZArith Bool Lia Permutation.
From SVC Require Import Base.AMap Base.Res Base.Dec Model.Types Model.Pricing
  Model.Handlers Model.EndBlock Model.Step Proofs.Inv Proofs.Lemmas Proofs.ReqLemmas
  Proofs.DecProofs Proofs.PricingProofs Proofs.CtxOps Proofs.InvSched Proofs.InvEscrow Proofs.InvReq
  Proofs.InvAll Proofs.ReachRun.
Import ListNotations.
Open Scope Z_scope.

(* ------------------------------------------------------------------ *)
(* the eligibility filter *)

Definition is_some {A} (o : option A) : bool := match o with Some _ => true | None => false end.

Definition price_at (s : State) (rc : Ctx) (p : Z) : Z :=
  exchanged_price (pricing_of s (c_svc rc, p)) (time s) (vol_of s (c_cons rc) (c_svc rc) p).

Lemma eligible_spec s rc p price :
  eligible s rc p = Some price <->
  exists b, get (c_svc rc, p) (binds s) = Some b /\ b_avail b = true /\ b_qos b <= c_timeout rc
    /\ price = exchanged_price (pricing_of s (c_svc rc, p)) (time s)
                 (vol_of s (c_cons rc) (c_svc rc) p)
    /\ price <= c_cap rc.
Proof.
  unfold eligible. split.
  - destruct (get (c_svc rc, p) (binds s)) as [b|]; [|discriminate].
    destruct (b_avail b) eqn:Ea; cbn [andb]; [|discriminate].
    destruct (b_qos b <=? c_timeout rc) eqn:Eq; [|discriminate].
    destruct (_ <=? c_cap rc) eqn:Ec; [|discriminate].
    intros H. injection H as <-. b2p. exists b. auto.
  - intros (b & -> & -> & Hq & -> & Hc). cbn [andb].
    apply Z.leb_le in Hq. rewrite Hq. apply Z.leb_le in Hc. now rewrite Hc.
Qed.

Lemma filter_providers_spec s rc provs :
  map fst (filter_providers s rc provs) = filter (fun p => is_some (eligible s rc p)) provs.
Proof.
  induction provs as [|p t IH]; cbn [filter_providers filter]; [reflexivity|].
  destruct (eligible s rc p) as [price|]; cbn [is_some map fst]; [now rewrite IH|exact IH].
Qed.

Lemma In_filter_providers_iff s rc provs p price :
  In (p, price) (filter_providers s rc provs) <-> In p provs /\ eligible s rc p = Some price.
Proof.
  induction provs as [|a t IH]; cbn [filter_providers In]; [tauto|].
  destruct (eligible s rc a) as [pa|] eqn:E; cbn [In]; rewrite IH; split.
  - intros [H|[H1 H2]]; [injection H as <- <-; auto|auto].
  - intros [[->|H1] H2]; [left; congruence|auto].
  - intros [H1 H2]; auto.
  - intros [[->|H1] H2]; [congruence|auto].
Qed.

Lemma nth_filter_providers s rc provs k p price :
  nth_error (filter_providers s rc provs) k = Some (p, price) ->
  In p provs /\ eligible s rc p = Some price.
Proof. intros H. apply nth_error_In in H. now apply In_filter_providers_iff in H. Qed.

Lemma eligible_price_ge_1 s rc p price : eligible s rc p = Some price -> 1 <= price.
Proof.
  intros H. apply eligible_spec in H. destruct H as (b & _ & _ & _ & -> & _).
  rewrite C07_charged_is_stored. apply C07_fee_ge_1.
Qed.

Lemma sum_prices_nonneg s rc provs : 0 <= sum_prices (filter_providers s rc provs).
Proof.
  induction provs as [|p t IH]; cbn [filter_providers]; [cbn; lia|].
  destruct (eligible s rc p) as [price|] eqn:E; [|exact IH].
  apply eligible_price_ge_1 in E. cbn [sum_prices fold_right snd].
  fold (sum_prices (filter_providers s rc t)). lia.
Qed.

Lemma len_map {A B} (f : A -> B) l : len (map f l) = len l.
Proof. unfold len. now rewrite map_length. Qed.

(* the fee stored on a request issued to an eligible provider is the price it was
   found eligible at (0 in super mode) *)
Lemma fee_of_eligible s rc p price :
  eligible s rc p = Some price -> fee_of s rc p = if c_super rc then 0 else price.
Proof.
  intros H. apply eligible_spec in H. destruct H as (b & _ & _ & _ & -> & _).
  unfold fee_of. destruct (c_super rc); [reflexivity|]. symmetry. apply C07_charged_is_stored.
Qed.

(* ------------------------------------------------------------------ *)
(* issue_all: the k-th new key is present (converse of ReqLemmas.issue_all_get) *)

Lemma issue_all_get_other s c rc n i provs r :
  (forall j, i <= j -> r <> (c, n, height s, j)) ->
  get r (reqs (issue_all s c rc n i provs)) = get r (reqs s).
Proof.
  revert s i. induction provs as [|p t IH]; intros s i Hne; cbn [issue_all]; [reflexivity|].
  rewrite IH.
  - rewrite issue_one_eq. sproj. apply get_set_neq. apply Hne. lia.
  - intros j Hj. rewrite issue_one_eq. sproj. apply Hne. lia.
Qed.

Lemma issue_all_nth s c rc n i provs k p :
  nth_error provs k = Some p ->
  get (c, n, height s, i + Z.of_nat k) (reqs (issue_all s c rc n i provs)) = Some (new_req s rc p).
Proof.
  revert s i k. induction provs as [|a t IH]; intros s i k Hn; [destruct k; discriminate|].
  cbn [issue_all]. set (s1 := issue_one s c rc n i a).
  pose proof (issue_one_frame s c rc n i a) as F. fold s1 in F.
  destruct F as (F1 & F2 & _ & _ & F5 & _ & _ & _ & _ & _ & _ & _ & _ & _ & _ & F16 & _).
  destruct k as [|k]; cbn [nth_error] in Hn.
  - injection Hn as ->. rewrite Z.add_0_r. rewrite issue_all_get_other.
    + unfold s1. rewrite issue_one_eq. sproj. apply get_set_eq.
    + intros j Hj. rewrite F1. apply rid_neq_index. lia.
  - specialize (IH s1 (i + 1) k Hn). rewrite F1 in IH.
    rewrite (new_req_stable s s1) in IH by assumption.
    replace (i + Z.of_nat (S k)) with (i + 1 + Z.of_nat k) by lia. exact IH.
Qed.

(* ------------------------------------------------------------------ *)
(* new_one, with the stored record substituted *)

Definition paid_state (s : State) (c : CtxId) (rc : Ctx) (el : list (Z * Z)) : option State :=
  if c_super rc then Some s
  else match transfer (User (c_cons rc)) Escrow (sum_prices el) s with
       | Some x => Some (emit (EvDebit c (c_cons rc) (sum_prices el)) x)
       | None => None
       end.

Lemma new_one_eq cfg s c rc : get c (ctxs s) = Some rc ->
  new_one cfg s c =
  if d5 rc then del_newq (del_ctx s c) c (height s)
  else del_newq
         (if is_state rc Running then
            let el := filter_providers s rc (c_provs rc) in
            if (0 <? len el) && (c_thr rc <=? len el) then
              match paid_state s c rc el with
              | Some sp => add_expq (initiate_requests sp c (map fst el)) c (height s + c_timeout rc)
              | None => on_paused s c rc
              end
            else skip_batch s c rc
          else s) c (height s).
Proof.
  intros Erc. unfold new_one, paid_state, d5.
  assert (Ez : ctx_or_zero s c = rc) by (unfold ctx_or_zero; now rewrite Erc).
  rewrite Ez. reflexivity.
Qed.

(* what "nothing is issued, nobody is charged, no other context is touched" means *)
Definition no_issue (c : CtxId) (s s' : State) : Prop :=
  reqs s' = reqs s /\ resps s' = resps s /\ bank s' = bank s /\ supply s' = supply s
  /\ binds s' = binds s /\ vols s' = vols s
  /\ (forall c', c' <> c -> get c' (ctxs s') = get c' (ctxs s)).

(* the requests of a batch: for the k-th eligible provider *)
Definition batch_req (s : State) (rc : Ctx) (pp : Z * Z) : Req :=
  mkReq (fst pp) (if c_super rc then 0 else snd pp) (height s + c_timeout rc) true.

Definition batch_key (s : State) (c : CtxId) (rc : Ctx) (k : nat) : ReqId :=
  (c, c_counter rc + 1, height s, Z.of_nat k).

Lemma d5_spec rc :
  d5 rc = true <-> c_state rc = Running /\ c_rep rc = true /\ 0 < c_total rc <= c_counter rc.
Proof.
  unfold d5. rewrite !andb_true_iff, is_state_true, Z.ltb_lt, Z.leb_le. tauto.
Qed.

(* what "the batch is issued" means: E is the list of (provider, price) found eligible *)
Definition issued (c : CtxId) (rc : Ctx) (E : list (Z * Z)) (s s' : State) : Prop :=
  let charge := if c_super rc then 0 else sum_prices E in
  (* the k-th eligible provider gets the k-th request of the batch *)
  (forall k pp, nth_error E k = Some pp ->
     get (batch_key s c rc k) (reqs s') = Some (batch_req s rc pp))
  (* nothing else is new *)
  /\ (forall r q, get r (reqs s') = Some q ->
        get r (reqs s) = Some q
        \/ exists k pp, nth_error E k = Some pp /\ r = batch_key s c rc k /\ q = batch_req s rc pp)
  (* every old record is kept *)
  /\ (forall r q, get r (reqs s) = Some q -> get r (reqs s') = Some q)
  (* the consumer pays the total into escrow, nobody else is touched *)
  /\ (forall a, bal s' a = bal s a - (if eqb a (User (c_cons rc)) then charge else 0)
                                   + (if eqb a Escrow then charge else 0))
  /\ 0 <= charge <= bal s (User (c_cons rc))
  /\ supply s' = supply s /\ resps s' = resps s /\ binds s' = binds s /\ vols s' = vols s
  /\ (forall c', c' <> c -> get c' (ctxs s') = get c' (ctxs s))
  (* the batch bookkeeping: counter + 1, len E requests, none answered, running *)
  /\ get c (ctxs s') = Some (bump rc (len E))
  /\ get c (expq_h s') = Some (height s + c_timeout rc).

Lemma nth_error_map_fst {A B} (l : list (A * B)) k a :
  nth_error (map fst l) k = Some a <-> exists b, nth_error l k = Some (a, b).
Proof.
  rewrite nth_error_map. destruct (nth_error l k) as [[a' b']|]; cbn [option_map fst]; split.
  - intros H. injection H as <-. eauto.
  - intros (b & H). now injection H as -> ->.
  - discriminate.
  - intros (b & H). discriminate.
Qed.

(* the issuing branch, from any state [sp] that differs from [s] in bank and log only *)
Lemma issue_branch cfg s c rc sp :
  Inv cfg s -> get c (ctxs s) = Some rc -> get c (expq_h s) = None ->
  reqs sp = reqs s -> resps sp = resps s -> ctxs sp = ctxs s -> expq_h sp = expq_h s ->
  height sp = height s -> time sp = time s -> pricing sp = pricing s -> vols sp = vols s ->
  binds sp = binds s -> supply sp = supply s ->
  let E := filter_providers s rc (c_provs rc) in
  let s' := del_newq (add_expq (initiate_requests sp c (map fst E)) c (height s + c_timeout rc))
              c (height s) in
  (forall k pp, nth_error E k = Some pp ->
     get (batch_key s c rc k) (reqs s') = Some (batch_req s rc pp))
  /\ (forall r q, get r (reqs s') = Some q ->
        get r (reqs s) = Some q
        \/ exists k pp, nth_error E k = Some pp /\ r = batch_key s c rc k /\ q = batch_req s rc pp)
  /\ (forall r q, get r (reqs s) = Some q -> get r (reqs s') = Some q)
  /\ bank s' = bank sp
  /\ supply s' = supply s /\ resps s' = resps s /\ binds s' = binds s /\ vols s' = vols s
  /\ (forall c', c' <> c -> get c' (ctxs s') = get c' (ctxs s))
  /\ get c (ctxs s') = Some (bump rc (len E))
  /\ get c (expq_h s') = Some (height s + c_timeout rc).
Proof.
  intros Hinv Grc Gexp P1 P2 P3 P4 P5 P6 P7 P8 P9 P10 E s'.
  assert (Ez : ctx_or_zero sp c = rc) by (unfold ctx_or_zero; now rewrite P3, Grc).
  set (n := c_counter rc + 1).
  set (s1 := issue_all sp c rc n 0 (map fst E)).
  assert (Es' : s' = del_newq (add_expq
            (emit (EvBatchStart c n (height sp) (len (map fst E)))
               (put_ctx s1 c (bump rc (len (map fst E))))) c (height s + c_timeout rc)) c (height s)).
  { unfold s', initiate_requests. rewrite Ez. reflexivity. }
  pose proof (issue_all_frame sp c rc n 0 (map fst E)) as F. fold s1 in F. unfold same_but_reqs in F.
  destruct F as (F1 & F2 & F3 & F4 & F5 & F6 & F7 & F8 & F9 & F10 & F11 & F12 & F13 & F14 & F15
                 & F16 & F17 & F18 & F19 & F20).
  assert (Hnoreq : forall r, rid_ctx r = c -> get r (reqs sp) = None).
  { intros r Hc. rewrite P1. eapply no_expiry_no_reqs; eauto. }
  assert (Hnew : forall p, new_req sp rc p = new_req s rc p) by (intros p; now apply new_req_stable).
  assert (Hreq : forall k pp, nth_error E k = Some pp -> new_req s rc (fst pp) = batch_req s rc pp).
  { intros k [p price] Hk. apply nth_filter_providers in Hk. destruct Hk as (_ & He).
    unfold new_req, batch_req. cbn [fst snd]. now rewrite (fee_of_eligible _ _ _ _ He). }
  assert (R : reqs s' = reqs s1) by (rewrite Es'; reflexivity).
  split; [|split; [|split]].
  - intros k [p price] Hk. rewrite R. unfold s1, batch_key.
    assert (Hm : nth_error (map fst E) k = Some p) by (apply nth_error_map_fst; eauto).
    pose proof (issue_all_nth sp c rc n 0 (map fst E) k p Hm) as G.
    rewrite P5, Z.add_0_l, Hnew in G. etransitivity; [exact G|]. f_equal. exact (Hreq k (p, price) Hk).
  - intros r q G. rewrite R in G. unfold s1 in G. apply issue_all_get in G.
    destruct G as [G|(k & p & Hm & -> & ->)]; [left; now rewrite <- P1|right].
    apply nth_error_map_fst in Hm. destruct Hm as (price & Hk).
    exists k, (p, price). split; [exact Hk|]. rewrite P5, Z.add_0_l, Hnew.
    split; [reflexivity|]. exact (Hreq k (p, price) Hk).
  - intros r q G. rewrite R. unfold s1. rewrite issue_all_get_other; [now rewrite P1|].
    intros j _ ->. rewrite <- P1, Hnoreq in G by reflexivity. discriminate.
  - rewrite Es'. sproj. rewrite len_map.
    rewrite F19, F20, F15, F4, F16, F10, F12, P2, P3, P4, P8, P9, P10.
    split; [reflexivity|]. split; [reflexivity|]. split; [reflexivity|]. split; [reflexivity|].
    split; [reflexivity|]. split; [intros c' Hc'; now apply get_set_neq|].
    split; apply get_set_eq.
Qed.

Ltac no_issue_tac :=
  unfold no_issue; sproj; repeat split; try reflexivity;
  intros; repeat first [rewrite get_set_neq by assumption | rewrite get_del_neq by assumption];
  reflexivity.

(* C06: the exact case analysis of the new-batch handler *)
Theorem C06_batch_spec cfg s c :
  wf_cfg cfg -> Inv cfg s -> In (height s, c) (newq s) -> height s < HEIGHT_BOUND ->
  exists rc, get c (ctxs s) = Some rc /\
    let E := filter_providers s rc (c_provs rc) in
    let s' := new_one cfg s c in
    (* (a) the context is not running: nothing happens *)
    (c_state rc <> Running ->
       no_issue c s s' /\ get c (ctxs s') = Some rc /\ get c (expq_h s') = None)
    (* (b) repeated context whose total was reached: the context is removed *)
    /\ (d5 rc = true ->
          no_issue c s s' /\ get c (ctxs s') = None /\ get c (expq_h s') = None)
    (* (c) no eligible provider, or fewer than the response threshold: the batch is skipped *)
    /\ (c_state rc = Running -> d5 rc = false -> len E = 0 \/ len E < c_thr rc ->
          no_issue c s s' /\ get c (ctxs s') = Some (bump rc 0)
          /\ get c (expq_h s') = Some (height s + c_timeout rc))
    (* (d) the consumer cannot pay the total: the context is paused *)
    /\ (c_state rc = Running -> d5 rc = false -> 0 < len E -> c_thr rc <= len E ->
        c_super rc = false -> bal s (User (c_cons rc)) < sum_prices E ->
          no_issue c s s' /\ get c (ctxs s') = Some (paused_ctx rc) /\ get c (expq_h s') = None)
    (* (e) otherwise the batch is issued *)
    /\ (c_state rc = Running -> d5 rc = false -> 0 < len E -> c_thr rc <= len E ->
        c_super rc = true \/ sum_prices E <= bal s (User (c_cons rc)) ->
          issued c rc E s s').
Proof.
  intros Hcfg Hinv Hdue Hh. destruct (due_new_ctx _ _ _ Hinv Hdue) as (rc & Grc & Gnew & Gexp).
  exists rc. split; [exact Grc|]. intros E s'.
  pose proof (inv_wf _ _ Hinv) as Hwf. assert (Hwc : wf (ctxs s)) by apply Hwf.
  assert (Es' : s' = new_one cfg s c) by reflexivity. clearbody s'.
  rewrite (new_one_eq cfg s c rc Grc) in Es'.
  fold E in Es'. cbv zeta in Es'.
  split; [|split; [|split; [|split]]].
  - (* a *) intros Hst. assert (Hd : d5 rc = false).
    { destruct (d5 rc) eqn:Hd; [|reflexivity]. apply d5_spec in Hd. tauto. }
    apply is_state_false in Hst. rewrite Hd, Hst in Es'. subst s'.
    split; [no_issue_tac|]. sproj. auto.
  - (* b *) intros Hd. rewrite Hd in Es'. subst s'.
    split; [no_issue_tac|]. sproj. split; [now apply get_del_eq|exact Gexp].
  - (* c *) intros Hst Hd Hlen. apply is_state_true in Hst. rewrite Hd, Hst in Es'.
    assert (Hb : (0 <? len E) && (c_thr rc <=? len E) = false).
    { apply andb_false_iff. destruct Hlen as [H0|Hlt]; [left; apply Z.ltb_ge; lia|right; apply Z.leb_gt; lia]. }
    rewrite Hb in Es'. subst s'. unfold skip_batch.
    split; [no_issue_tac|]. sproj. split; apply get_set_eq.
  - (* d *) intros Hst Hd H0 Hthr Hsup Hbal. apply is_state_true in Hst. rewrite Hd, Hst in Es'.
    assert (Hb : (0 <? len E) && (c_thr rc <=? len E) = true).
    { apply andb_true_intro. split; [apply Z.ltb_lt|apply Z.leb_le]; assumption. }
    rewrite Hb in Es'. unfold paid_state in Es'. rewrite Hsup in Es'.
    assert (Ht : transfer (User (c_cons rc)) Escrow (sum_prices E) s = None).
    { unfold transfer. assert (Hx : (bal s (User (c_cons rc)) <? sum_prices E) = true) by (apply Z.ltb_lt; exact Hbal).
      rewrite Hx, orb_true_r. reflexivity. }
    rewrite Ht in Es'. subst s'. unfold on_paused.
    destruct (c_mod rc =? 0); (split; [no_issue_tac|]); sproj; (split; [apply get_set_eq|exact Gexp]).
  - (* e *) intros Hst Hd H0 Hthr Hpay. apply is_state_true in Hst. rewrite Hd, Hst in Es'.
    assert (Hb : (0 <? len E) && (c_thr rc <=? len E) = true).
    { apply andb_true_intro. split; [apply Z.ltb_lt|apply Z.leb_le]; assumption. }
    rewrite Hb in Es'. unfold paid_state in Es'.
    pose proof (sum_prices_nonneg s rc (c_provs rc)) as Hnn. fold E in Hnn.
    unfold issued. cbv zeta.
    destruct (c_super rc) eqn:Hsup.
    + pose proof (issue_branch cfg s c rc s Hinv Grc Gexp) as B. cbv zeta in B. fold E in B.
      rewrite <- Es' in B.
      destruct B as (B1 & B2 & B3 & B4 & B5 & B6 & B7 & B8 & B9 & B10 & B11); try reflexivity.
      split; [exact B1|]. split; [exact B2|]. split; [exact B3|].
      split; [intros a; unfold bal; rewrite B4; destruct (eqb a (User (c_cons rc))), (eqb a Escrow); lia|].
      split; [split; [lia|]; apply get0_nonneg; apply (inv_bank _ _ Hinv)|].
      auto 10.
    + destruct Hpay as [Hx|Hpay]; [discriminate|].
      destruct (transfer (User (c_cons rc)) Escrow (sum_prices E) s) as [x|] eqn:Et.
      2:{ exfalso. unfold transfer in Et.
          destruct ((sum_prices E <? 0) || (bal s (User (c_cons rc)) <? sum_prices E)) eqn:Eb; [|discriminate].
          apply orb_true_iff in Eb. destruct Eb; b2p; lia. }
      pose proof (transfer_frame _ _ _ _ _ Et) as Hf.
      set (sp := emit (EvDebit c (c_cons rc) (sum_prices E)) x) in *.
      pose proof (issue_branch cfg s c rc sp Hinv Grc Gexp) as B. cbv zeta in B. fold E in B.
      rewrite <- Es' in B.
      destruct B as (B1 & B2 & B3 & B4 & B5 & B6 & B7 & B8 & B9 & B10 & B11);
        try (unfold sp; rewrite Hf; reflexivity).
      split; [exact B1|]. split; [exact B2|]. split; [exact B3|].
      split.
      { intros a. unfold bal at 1. rewrite B4. unfold sp. sproj. fold (bal x a).
        rewrite (transfer_bal _ _ _ _ _ a Et). reflexivity. }
      split; [split; [exact Hnn|exact Hpay]|].
      auto 10.
Qed.

(* every request record that new_one adds is the k-th request of the batch it issues *)
Theorem C06_new_request cfg s c r q :
  wf_cfg cfg -> Inv cfg s -> In (height s, c) (newq s) -> height s < HEIGHT_BOUND ->
  get r (reqs s) = None -> get r (reqs (new_one cfg s c)) = Some q ->
  exists rc k p price,
    get c (ctxs s) = Some rc
    /\ nth_error (filter_providers s rc (c_provs rc)) k = Some (p, price)
    /\ r = (c, c_counter rc + 1, height s, Z.of_nat k)
    /\ q = mkReq p (if c_super rc then 0 else price) (height s + c_timeout rc) true
    /\ In p (c_provs rc) /\ eligible s rc p = Some price.
Proof.
  intros Hcfg Hinv Hdue Hh Hold Hnew.
  destruct (C06_batch_spec cfg s c Hcfg Hinv Hdue Hh) as (rc & Grc & HS). cbv zeta in HS.
  destruct HS as (Ha & Hb & Hc & Hd & He).
  set (E := filter_providers s rc (c_provs rc)) in *.
  assert (Hno : no_issue c s (new_one cfg s c) -> False).
  { intros (R & _). rewrite R in Hnew. congruence. }
  destruct (d5 rc) eqn:Ed5; [exfalso; apply Hno, Hb; reflexivity|].
  destruct (is_state rc Running) eqn:Est.
  2:{ exfalso. apply is_state_false in Est. apply Hno, Ha, Est. }
  apply is_state_true in Est.
  destruct (Z_lt_le_dec 0 (len E)) as [H0|H0].
  2:{ exfalso. apply Hno, (Hc Est eq_refl). left. unfold len in *. lia. }
  destruct (Z_lt_le_dec (len E) (c_thr rc)) as [Ht|Ht].
  { exfalso. apply Hno, (Hc Est eq_refl). now right. }
  assert (Hiss : issued c rc E s (new_one cfg s c)).
  { destruct (c_super rc) eqn:Esup; [apply He; auto|].
    destruct (Z_lt_le_dec (bal s (User (c_cons rc))) (sum_prices E)) as [Hb'|Hb'].
    - exfalso. apply Hno, (Hd Est eq_refl H0 Ht eq_refl Hb').
    - apply He; auto. }
  destruct Hiss as (_ & I2 & _).
  destruct (I2 _ _ Hnew) as [G|(k & [p price] & Hk & -> & ->)]; [congruence|].
  exists rc, k, p, price. destruct (nth_filter_providers _ _ _ _ _ _ Hk) as (Hin & Hel).
  repeat split; assumption.
Qed.

(* no request carries a fee above the cap in force when it was issued *)
Theorem C06_fee_le_cap cfg s c r q :
  wf_cfg cfg -> Inv cfg s -> In (height s, c) (newq s) -> height s < HEIGHT_BOUND ->
  get r (reqs s) = None -> get r (reqs (new_one cfg s c)) = Some q ->
  exists rc, get c (ctxs s) = Some rc /\ rid_ctx r = c /\ 0 <= r_fee q <= c_cap rc.
Proof.
  intros Hcfg Hinv Hdue Hh Hold Hnew.
  destruct (C06_new_request cfg s c r q Hcfg Hinv Hdue Hh Hold Hnew)
    as (rc & k & p & price & Grc & _ & -> & -> & _ & Hel).
  exists rc. split; [exact Grc|]. split; [reflexivity|]. cbn [r_fee].
  destruct (inv_ctx _ _ Hinv c rc Grc) as (_ & _ & _ & _ & _ & _ & _ & Hcap & _).
  pose proof (eligible_price_ge_1 _ _ _ _ Hel) as H1.
  apply eligible_spec in Hel. destruct Hel as (b & _ & _ & _ & _ & Hle).
  destruct (c_super rc); lia.
Qed.

(* a request goes only to a provider named in the context that is eligible at that block:
   bound to the service, available, fast enough, and not above the cap *)
Theorem C06_provider_in_list cfg s c r q :
  wf_cfg cfg -> Inv cfg s -> In (height s, c) (newq s) -> height s < HEIGHT_BOUND ->
  get r (reqs s) = None -> get r (reqs (new_one cfg s c)) = Some q ->
  exists rc b, get c (ctxs s) = Some rc /\ In (r_prov q) (c_provs rc)
    /\ get (c_svc rc, r_prov q) (binds s) = Some b /\ b_avail b = true /\ b_qos b <= c_timeout rc
    /\ exchanged_price (pricing_of s (c_svc rc, r_prov q)) (time s)
         (vol_of s (c_cons rc) (c_svc rc) (r_prov q)) <= c_cap rc
    /\ r_fee q = (if c_super rc then 0
                  else get_price (pricing_of s (c_svc rc, r_prov q)) (time s)
                         (vol_of s (c_cons rc) (c_svc rc) (r_prov q)))
    /\ r_exp q = height s + c_timeout rc /\ rid_height r = height s /\ r_active q = true.
Proof.
  intros Hcfg Hinv Hdue Hh Hold Hnew.
  destruct (C06_new_request cfg s c r q Hcfg Hinv Hdue Hh Hold Hnew)
    as (rc & k & p & price & Grc & _ & -> & -> & Hin & Hel).
  apply eligible_spec in Hel. destruct Hel as (b & Gb & Hav & Hq & -> & Hle).
  exists rc, b. cbn [r_prov r_fee r_exp r_active rid_height fst snd].
  repeat split; try assumption.
Qed.

(* ------------------------------------------------------------------ *)
(* Examples: the hypotheses of the theorems above hold on concrete reachable histories and
   every branch (a)-(e) is taken; everything by computation.  [Reach cfg s] stands for
   [Inv cfg s] (Proofs/InvAll.v Reach_Inv).
   Service 1; providers 7 (price 10), 8 (price 60: above the cap 50), 9 (response time 30:
   above the timeout 20), 10 (price 20, disabled), 11 (price 30), 12 (not bound). *)
Module ExB.
  Definition cfg : Params := mkParams 100 2 10 0 (ONE / 10) 0 0 77 99.
  Definition raw (p : Z) : RawPricing := mkRaw (p * ONE) [] [].
  Definition ops_common : list Op :=
    [ ODefine 1 5 true;
      OBind 1 7 (CBase 1000) (Some (raw 10)) 5 42 true;
      OBind 1 8 (CBase 1000) (Some (raw 60)) 5 42 true;
      OBind 1 9 (CBase 1000) (Some (raw 20)) 30 43 true;
      OBind 1 10 (CBase 1000) (Some (raw 20)) 5 43 true;
      OBind 1 11 (CBase 1000) (Some (raw 30)) 5 43 true;
      ODisable 1 10 43 true ].
  Definition c1 : CtxId := (1001, 0).   (* issued: E = [(7,10); (11,30)] *)
  Definition c2 : CtxId := (1002, 0).   (* skipped: no eligible provider *)
  Definition c3 : CtxId := (1003, 0).   (* paused: consumer 51 holds 5 < 40 *)
  Definition c4 : CtxId := (1004, 0).   (* skipped: one eligible provider, threshold 2 *)
  Definition c5 : CtxId := (1005, 0).   (* paused by the consumer before the batch *)
  Definition c6 : CtxId := (1006, 0).   (* super mode: issued with fee 0, consumer 52 holds 0 *)
  Definition c7 : CtxId := (1007, 0).   (* repeated, total lowered to the counter: removed *)
  Definition ops_a : list Op := ops_common ++
    [ OCall c1 1 [7; 8; 9; 10; 11; 12] 50 0 (CBase 50) 20 false false 0 0 true true;
      OCall c2 1 [8; 9; 10; 12] 50 0 (CBase 50) 20 false false 0 0 true true;
      OCall c3 1 [7; 11] 51 0 (CBase 50) 20 false false 0 0 true true;
      OModCall c4 1 [7; 8] 50 0 (CBase 50) 20 false false 0 0 2 99 true;
      OCall c5 1 [7; 11] 50 0 (CBase 50) 20 false true 30 3 true true;
      OPause c5 50 true;
      OCall c6 1 [7; 11] 52 0 (CBase 50) 20 true false 0 0 true true ].
  Definition ops_b : list Op := ops_common ++
    [ OCall c7 1 [7] 50 0 (CBase 50) 1 false true 3 3 true true;
      OEndBlock 1; OEndBlock 1;
      OUpdateCtx c7 50 [] CEmpty 0 0 1 true;
      OEndBlock 1 ].
  Definition funding : list (Z * Z) := [(42, 10000); (43, 10000); (50, 100); (51, 5)].
  Definition s0 : State := init 1 0 funding.
  Definition s_a : State := run cfg s0 ops_a.
  Definition s_b : State := run cfg s0 ops_b.

  Example wf_cfg_ex : wf_cfg cfg.
  Proof. unfold wf_cfg. repeat match goal with |- _ /\ _ => split end; zc. Qed.

  Example all_ok_a :
    map (fun n => snd (step cfg (run cfg s0 (firstn n ops_a)) (nth n ops_a (OEndBlock 0)))) (seq 0 14)
    = repeat ROk 14.
  Proof. vm_compute. reflexivity. Qed.
  Example all_ok_b :
    map (fun n => snd (step cfg (run cfg s0 (firstn n ops_b)) (nth n ops_b (OEndBlock 0)))) (seq 0 12)
    = repeat ROk 12.
  Proof. vm_compute. reflexivity. Qed.

  Example reach_a : Reach cfg s_a.
  Proof.
    apply reach_init_run; [lia|lia|unfold funding; wf_funding_tac|].
    unfold ops_a, ops_common. cbn [app]. wf_run_tac.
  Qed.
  Example reach_b : Reach cfg s_b.
  Proof.
    apply reach_init_run; [lia|lia|unfold funding; wf_funding_tac|].
    unfold ops_b, ops_common. cbn [app]. wf_run_tac.
  Qed.

  Definition hyps (s : State) (c : CtxId) : Prop :=
    wf_cfg cfg /\ Reach cfg s /\ In (height s, c) (newq s) /\ height s < HEIGHT_BOUND.

  Ltac hyps_tac Hreach :=
    split; [exact wf_cfg_ex|]; split; [exact Hreach|]; split; [vm_compute; tauto|vm_compute; reflexivity].

  Example eligible_spec_ex :
    exists rc, get c1 (ctxs s_a) = Some rc
      /\ map (eligible s_a rc) [7; 8; 9; 10; 11; 12] = [Some 10; None; None; None; Some 30; None]
      /\ filter_providers s_a rc (c_provs rc) = [(7, 10); (11, 30)].
  Proof. eexists. split; [vm_compute; reflexivity|]. vm_compute. auto. Qed.

  (* (e) issued *)
  Example C06_batch_spec_ex_issue :
    hyps s_a c1
    /\ exists rc, get c1 (ctxs s_a) = Some rc /\ c_state rc = Running /\ d5 rc = false
         /\ filter_providers s_a rc (c_provs rc) = [(7, 10); (11, 30)] /\ c_thr rc = 0
         /\ c_super rc = false /\ bal s_a (User 50) = 100
         /\ reqs (new_one cfg s_a c1)
            = [((c1, 1, 1, 0), mkReq 7 10 21 true); ((c1, 1, 1, 1), mkReq 11 30 21 true)]
         /\ bal (new_one cfg s_a c1) (User 50) = 60 /\ bal (new_one cfg s_a c1) Escrow = 40
         /\ get c1 (ctxs (new_one cfg s_a c1)) = Some (bump rc 2).
  Proof.
    split; [hyps_tac reach_a|]. eexists. split; [vm_compute; reflexivity|]. vm_compute. auto 12.
  Qed.

  (* (e) issued in super mode: fee 0, no debit *)
  Example C06_batch_spec_ex_super :
    hyps s_a c6
    /\ exists rc, get c6 (ctxs s_a) = Some rc /\ c_state rc = Running /\ d5 rc = false
         /\ filter_providers s_a rc (c_provs rc) = [(7, 10); (11, 30)]
         /\ c_super rc = true /\ bal s_a (User 52) = 0
         /\ reqs (new_one cfg s_a c6)
            = [((c6, 1, 1, 0), mkReq 7 0 21 true); ((c6, 1, 1, 1), mkReq 11 0 21 true)]
         /\ bank (new_one cfg s_a c6) = bank s_a.
  Proof.
    split; [hyps_tac reach_a|]. eexists. split; [vm_compute; reflexivity|]. vm_compute. auto 12.
  Qed.

  (* (c) skipped: nobody eligible / below the threshold *)
  Example C06_batch_spec_ex_skip_empty :
    hyps s_a c2
    /\ exists rc, get c2 (ctxs s_a) = Some rc /\ c_state rc = Running /\ d5 rc = false
         /\ filter_providers s_a rc (c_provs rc) = []
         /\ reqs (new_one cfg s_a c2) = [] /\ bank (new_one cfg s_a c2) = bank s_a
         /\ get c2 (ctxs (new_one cfg s_a c2)) = Some (bump rc 0)
         /\ get c2 (expq_h (new_one cfg s_a c2)) = Some 21.
  Proof.
    split; [hyps_tac reach_a|]. eexists. split; [vm_compute; reflexivity|]. vm_compute. auto 12.
  Qed.
  Example C06_batch_spec_ex_skip_threshold :
    hyps s_a c4
    /\ exists rc, get c4 (ctxs s_a) = Some rc /\ c_state rc = Running /\ d5 rc = false
         /\ filter_providers s_a rc (c_provs rc) = [(7, 10)] /\ c_thr rc = 2
         /\ reqs (new_one cfg s_a c4) = [] /\ bank (new_one cfg s_a c4) = bank s_a
         /\ get c4 (ctxs (new_one cfg s_a c4)) = Some (bump rc 0).
  Proof.
    split; [hyps_tac reach_a|]. eexists. split; [vm_compute; reflexivity|]. vm_compute. auto 12.
  Qed.

  (* (d) paused for funds *)
  Example C06_batch_spec_ex_funds :
    hyps s_a c3
    /\ exists rc, get c3 (ctxs s_a) = Some rc /\ c_state rc = Running /\ d5 rc = false
         /\ filter_providers s_a rc (c_provs rc) = [(7, 10); (11, 30)] /\ c_super rc = false
         /\ bal s_a (User 51) = 5
         /\ reqs (new_one cfg s_a c3) = [] /\ bank (new_one cfg s_a c3) = bank s_a
         /\ get c3 (ctxs (new_one cfg s_a c3)) = Some (paused_ctx rc).
  Proof.
    split; [hyps_tac reach_a|]. eexists. split; [vm_compute; reflexivity|]. vm_compute. auto 12.
  Qed.

  (* (a) not running *)
  Example C06_batch_spec_ex_not_running :
    hyps s_a c5
    /\ exists rc, get c5 (ctxs s_a) = Some rc /\ c_state rc = Paused
         /\ reqs (new_one cfg s_a c5) = [] /\ bank (new_one cfg s_a c5) = bank s_a
         /\ get c5 (ctxs (new_one cfg s_a c5)) = Some rc.
  Proof.
    split; [hyps_tac reach_a|]. eexists. split; [vm_compute; reflexivity|]. vm_compute. auto 12.
  Qed.

  (* (b) total reached *)
  Example C06_batch_spec_ex_d5 :
    hyps s_b c7
    /\ exists rc, get c7 (ctxs s_b) = Some rc /\ d5 rc = true /\ c_counter rc = 1 /\ c_total rc = 1
         /\ reqs (new_one cfg s_b c7) = [] /\ bank (new_one cfg s_b c7) = bank s_b
         /\ get c7 (ctxs (new_one cfg s_b c7)) = None.
  Proof.
    split; [hyps_tac reach_b|]. eexists. split; [vm_compute; reflexivity|]. vm_compute. auto 12.
  Qed.

  (* the theorems applied to the example: their conclusions, computed *)
  Example C06_new_request_ex :
    hyps s_a c1 /\ get (c1, 1, 1, 1) (reqs s_a) = None
    /\ get (c1, 1, 1, 1) (reqs (new_one cfg s_a c1)) = Some (mkReq 11 30 21 true).
  Proof. split; [hyps_tac reach_a|]. vm_compute. auto. Qed.

  Example C06_fee_le_cap_ex :
    exists rc, get c1 (ctxs s_a) = Some rc /\ rid_ctx (c1, 1, 1, 1) = c1
      /\ 0 <= r_fee (mkReq 11 30 21 true) <= c_cap rc.
  Proof.
    destruct C06_new_request_ex as ((H1 & H2 & H3 & H4) & H5 & H6).
    exact (C06_fee_le_cap cfg s_a c1 _ _ H1 (Reach_Inv _ _ H1 H2) H3 H4 H5 H6).
  Qed.

  Example C06_provider_in_list_ex :
    exists rc b, get c1 (ctxs s_a) = Some rc /\ In 11 (c_provs rc)
      /\ get (c_svc rc, 11) (binds s_a) = Some b /\ b_avail b = true /\ b_qos b <= c_timeout rc.
  Proof.
    destruct C06_new_request_ex as ((H1 & H2 & H3 & H4) & H5 & H6).
    destruct (C06_provider_in_list cfg s_a c1 _ _ H1 (Reach_Inv _ _ H1 H2) H3 H4 H5 H6)
      as (rc & b & A1 & A2 & A3 & A4 & A5 & _).
    exists rc, b. cbn [r_prov] in A2, A3. exact (conj A1 (conj A2 (conj A3 (conj A4 A5)))).
  Qed.
End ExB.

(* C06_batch_spec with [no_issue], [issued], [batch_key], [batch_req] written out
   (the form restated in Properties/C06.v) *)
Theorem C06_batch_spec_flat cfg s c :
  wf_cfg cfg -> Inv cfg s -> In (height s, c) (newq s) -> height s < HEIGHT_BOUND ->
  exists rc, get c (ctxs s) = Some rc /\
    let E := filter_providers s rc (c_provs rc) in
    let s' := new_one cfg s c in
    let charge := if c_super rc then 0 else sum_prices E in
    let untouched :=
      reqs s' = reqs s /\ resps s' = resps s /\ bank s' = bank s /\ supply s' = supply s
      /\ binds s' = binds s /\ vols s' = vols s
      /\ (forall c', c' <> c -> get c' (ctxs s') = get c' (ctxs s)) in
    (c_state rc <> Running ->
       untouched /\ get c (ctxs s') = Some rc /\ get c (expq_h s') = None)
    /\ (d5 rc = true ->
          untouched /\ get c (ctxs s') = None /\ get c (expq_h s') = None)
    /\ (c_state rc = Running -> d5 rc = false -> len E = 0 \/ len E < c_thr rc ->
          untouched /\ get c (ctxs s') = Some (bump rc 0)
          /\ get c (expq_h s') = Some (height s + c_timeout rc))
    /\ (c_state rc = Running -> d5 rc = false -> 0 < len E -> c_thr rc <= len E ->
        c_super rc = false -> bal s (User (c_cons rc)) < sum_prices E ->
          untouched /\ get c (ctxs s') = Some (paused_ctx rc) /\ get c (expq_h s') = None)
    /\ (c_state rc = Running -> d5 rc = false -> 0 < len E -> c_thr rc <= len E ->
        c_super rc = true \/ sum_prices E <= bal s (User (c_cons rc)) ->
          (forall k p price, nth_error E k = Some (p, price) ->
             get (c, c_counter rc + 1, height s, Z.of_nat k) (reqs s')
             = Some (mkReq p (if c_super rc then 0 else price) (height s + c_timeout rc) true))
          /\ (forall r q, get r (reqs s') = Some q ->
                get r (reqs s) = Some q
                \/ exists k p price, nth_error E k = Some (p, price)
                     /\ r = (c, c_counter rc + 1, height s, Z.of_nat k)
                     /\ q = mkReq p (if c_super rc then 0 else price) (height s + c_timeout rc) true)
          /\ (forall r q, get r (reqs s) = Some q -> get r (reqs s') = Some q)
          /\ (forall a, bal s' a = bal s a - (if eqb a (User (c_cons rc)) then charge else 0)
                                           + (if eqb a Escrow then charge else 0))
          /\ 0 <= charge <= bal s (User (c_cons rc))
          /\ supply s' = supply s /\ resps s' = resps s /\ binds s' = binds s /\ vols s' = vols s
          /\ (forall c', c' <> c -> get c' (ctxs s') = get c' (ctxs s))
          /\ get c (ctxs s') = Some (bump rc (len E))
          /\ get c (expq_h s') = Some (height s + c_timeout rc)).
Proof.
  intros Hcfg Hinv Hdue Hh.
  destruct (C06_batch_spec cfg s c Hcfg Hinv Hdue Hh) as (rc & Grc & HS). cbv zeta in HS.
  destruct HS as (Ha & Hb & Hc & Hd & He).
  exists rc. split; [exact Grc|]. cbv zeta.
  split; [exact Ha|]. split; [exact Hb|]. split; [exact Hc|]. split; [exact Hd|].
  intros H1 H2 H3 H4 H5. destruct (He H1 H2 H3 H4 H5) as (I1 & I2 & I3).
  split; [|split; [|exact I3]].
  - intros k p price Hk. exact (I1 k (p, price) Hk).
  - intros r q G. destruct (I2 r q G) as [G0|(k & [p price] & Hk & Hr & Hq)]; [now left|right].
    exists k, p, price. auto.
Qed.

(* ------------------------------------------------------------------ *)
(* the new-batch phase of a whole EndBlock *)

(* what the new-batch handler does to the request and response records *)
Lemma new_one_cases cfg s c :
  wf_cfg cfg -> Inv cfg s -> In (height s, c) (newq s) -> height s < HEIGHT_BOUND ->
  no_issue c s (new_one cfg s c)
  \/ exists rc, get c (ctxs s) = Some rc
       /\ issued c rc (filter_providers s rc (c_provs rc)) s (new_one cfg s c).
Proof.
  intros Hcfg Hinv Hdue Hh.
  destruct (C06_batch_spec cfg s c Hcfg Hinv Hdue Hh) as (rc & Grc & HS). cbv zeta in HS.
  destruct HS as (Ha & Hb & Hc & Hd & He).
  set (E := filter_providers s rc (c_provs rc)) in *.
  destruct (d5 rc) eqn:Ed5; [left; apply Hb; reflexivity|].
  destruct (is_state rc Running) eqn:Est.
  2:{ left. apply is_state_false in Est. apply Ha, Est. }
  apply is_state_true in Est.
  destruct (Z_lt_le_dec 0 (len E)) as [H0|H0].
  2:{ left. apply (Hc Est eq_refl). left. unfold len in *. lia. }
  destruct (Z_lt_le_dec (len E) (c_thr rc)) as [Ht|Ht].
  { left. apply (Hc Est eq_refl). now right. }
  destruct (c_super rc) eqn:Esup; [right; exists rc; split; [exact Grc|]; apply He; auto|].
  destruct (Z_lt_le_dec (bal s (User (c_cons rc))) (sum_prices E)) as [Hb'|Hb'].
  - left. apply (Hd Est eq_refl H0 Ht eq_refl Hb').
  - right. exists rc. split; [exact Grc|]. apply He; auto.
Qed.

Lemma new_one_reqs cfg s c :
  wf_cfg cfg -> Inv cfg s -> In (height s, c) (newq s) -> height s < HEIGHT_BOUND ->
  (forall r q, get r (reqs s) = Some q -> get r (reqs (new_one cfg s c)) = Some q)
  /\ (forall r, get r (reqs s) = None -> rid_height r <> height s ->
        get r (reqs (new_one cfg s c)) = None)
  /\ resps (new_one cfg s c) = resps s.
Proof.
  intros Hcfg Hinv Hdue Hh.
  destruct (new_one_cases cfg s c Hcfg Hinv Hdue Hh) as [(R & P & _)|(rc & Grc & HI)].
  - rewrite R, P. auto.
  - destruct HI as (_ & I2 & I3 & _ & _ & _ & I7 & _).
    split; [exact I3|]. split; [|exact I7].
    intros r Hn Hh'. destruct (get r (reqs (new_one cfg s c))) as [q|] eqn:G; [|reflexivity].
    destruct (I2 _ _ G) as [G0|(k & pp & _ & -> & _)]; [congruence|].
    exfalso. apply Hh'. reflexivity.
Qed.

Lemma fold_new_records cfg l s r :
  wf_cfg cfg -> Inv cfg s -> height s < HEIGHT_BOUND -> NoDup l ->
  (forall c, In c l -> In (height s, c) (newq s)) ->
  let s' := fold_left (new_one cfg) l s in
  (forall q, get r (reqs s) = Some q -> get r (reqs s') = Some q)
  /\ (get r (reqs s) = None -> rid_height r <> height s -> get r (reqs s') = None)
  /\ resps s' = resps s.
Proof.
  intros Hcfg. revert s. induction l as [|a l IH]; intros s Hi Hb Hn Hl; cbn [fold_left]; cbv zeta.
  - auto.
  - inversion Hn as [|? ? Hna Hn']; subst.
    assert (Hda : In (height s, a) (newq s)) by (apply Hl; now left).
    pose proof (Inv_new_one cfg s a Hcfg Hi Hda Hb) as Hi1.
    pose proof (height_new_one cfg s a Hcfg Hi Hda Hb) as Eh.
    pose proof (newq_after_new_one cfg s a Hcfg Hi Hda Hb) as Eq.
    destruct (new_one_reqs cfg s a Hcfg Hi Hda Hb) as (N1 & N2 & N3).
    destruct (IH (new_one cfg s a) Hi1) as (K1 & K2 & K3); try assumption.
    + now rewrite Eh.
    + intros c Hc. rewrite Eh. apply Eq. split; [apply Hl; now right|]. intros ->. contradiction.
    + cbv zeta in K1, K2, K3. split; [|split].
      * intros q G. apply K1, N1, G.
      * intros G Hh'. apply K2; [now apply N2|now rewrite Eh].
      * now rewrite K3.
Qed.

