(* I_bank, I_deposit (C03), I_min (C14): preserved by every operation.
   The three conjuncts are proved jointly as BDM (with the two well-formedness facts
   they need); the named interface lemmas are projections at the end. *)
From Coq Require Import List ZArith Bool Lia.
From SVC Require Import Base.AMap Base.Res Base.Dec Model.Types Model.Pricing
  Model.Handlers Model.EndBlock Model.Step Proofs.Inv Proofs.Lemmas Proofs.InvWf
  Proofs.DecProofs Proofs.BankLemmas Proofs.CtxOps Proofs.WdLemmas Proofs.InvWd.
Import ListNotations.
Open Scope Z_scope.

Definition BDM (cfg : Params) (s : State) : Prop :=
  wf (bank s) /\ wf (binds s) /\ I_bank s /\ I_deposit s /\ I_min cfg s.

Lemma Inv_BDM cfg s : Inv cfg s -> BDM cfg s.
Proof.
  intros HI. destruct HI. unfold BDM. unfold I_wf in inv_wf.
  repeat split; try assumption; try tauto; try apply inv_bank; try apply inv_deposit.
Qed.

(* BDM only reads the core *)
Lemma BDM_core cfg s s' : core s' = core s -> BDM cfg s -> BDM cfg s'.
Proof.
  intros E HB. pose proof (core_fields _ _ E) as (Eb & Es & Ei & Ep).
  unfold BDM, I_bank, I_deposit, I_min, bal, pricing_of in *.
  rewrite Eb, Es, Ei, Ep. exact HB.
Qed.

(* only the bank changes, custody untouched *)
Lemma BDM_bank_only cfg s s' :
  BDM cfg s ->
  binds s' = binds s -> pricing s' = pricing s ->
  wf (bank s') -> nonneg (bank s') -> supply s' = msum vid (bank s') ->
  bal s' Deposit = bal s Deposit ->
  BDM cfg s'.
Proof.
  intros (Hwb & Hwi & Hbk & Hdp & Hmin) Ei Ep Hw Hn Hs Hd.
  unfold BDM, I_bank, I_deposit, I_min, pricing_of in *.
  rewrite Ei, Ep, Hd. repeat split; try assumption; try apply Hdp.
Qed.

Lemma BDM_transfer cfg a b amt s s1 :
  transfer a b amt s = Some s1 -> a <> Deposit -> b <> Deposit -> BDM cfg s -> BDM cfg s1.
Proof.
  intros E Ha Hb HB.
  pose proof (transfer_keeps_deposit _ _ _ _ _ E Ha Hb) as Hd.
  pose proof HB as (Hwb & _ & (Hnn & Hsup) & _).
  destruct (transfer_inv _ _ _ _ _ E Hwb Hnn) as (bk & -> & Hw & Hn & Hsum & _ & _).
  apply (BDM_bank_only cfg s); sproj; try assumption; try reflexivity. lia.
Qed.

(* one binding and the custody balance change together *)
Lemma BDM_update cfg s s' k b' d :
  BDM cfg s ->
  wf (bank s') -> nonneg (bank s') -> supply s' = msum vid (bank s') ->
  bal s' Deposit = bal s Deposit + d ->
  binds s' = set k b' (binds s) ->
  b_deposit b' = fget dep_of k (binds s) + d -> 0 <= b_deposit b' ->
  (forall k', k' <> k -> pricing_of s' k' = pricing_of s k') ->
  (b_avail b' = true -> min_dep_val cfg (pricing_of s' k) <= b_deposit b') ->
  BDM cfg s'.
Proof.
  intros (Hwb & Hwi & Hbk & (Hdp & Hdn) & Hmin) Hw Hn Hs Hd Ei Eb Hb0 Hpo Hmk.
  unfold BDM, I_bank, I_deposit, I_min.
  rewrite Ei. repeat split; try assumption.
  - now apply wf_set.
  - rewrite Hd, msum_set, Hdp. change (dep_of k b') with (b_deposit b'). lia.
  - intros k0 b0 Hin. apply In_set_inv in Hin; [|assumption].
    destruct Hin as [[-> ->]|[_ Hin]]; [assumption|eauto].
  - intros k0 b0 Hin Hav. apply In_set_inv in Hin; [|assumption].
    destruct Hin as [[-> ->]|[Hne Hin]]; [auto|].
    rewrite Hpo by assumption. eauto.
Qed.

(* same, when the binding is known *)
Lemma fget_dep_of k b (m : amap BKey Binding) : get k m = Some b -> fget dep_of k m = b_deposit b.
Proof. intros E. unfold fget. now rewrite E. Qed.

Lemma fget_dep_of_none k (m : amap BKey Binding) : has k m = false -> fget dep_of k m = 0.
Proof. unfold has, fget. destruct (get k m); [discriminate|reflexivity]. Qed.

Lemma BDM_dep_nonneg cfg s k b : BDM cfg s -> get k (binds s) = Some b -> 0 <= b_deposit b.
Proof. intros (_ & _ & _ & (_ & Hdn) & _) E. apply get_In in E. eauto. Qed.

Lemma BDM_min cfg s k b : BDM cfg s -> get k (binds s) = Some b -> b_avail b = true ->
  min_dep_val cfg (pricing_of s k) <= b_deposit b.
Proof. intros (_ & _ & _ & _ & Hmin) E. apply get_In in E. eauto. Qed.

Lemma BDM_dep_le_custody cfg s k b : BDM cfg s -> get k (binds s) = Some b ->
  b_deposit b <= bal s Deposit.
Proof.
  intros (_ & _ & _ & (Hdp & Hdn) & _) E. rewrite Hdp.
  rewrite <- (fget_dep_of _ _ _ E). apply msum_ge_fget. exact Hdn.
Qed.

(* ------------------------------------------------------------------ *)
(* helpers used by several handlers *)

Lemma BDM_emit cfg e s : BDM cfg s -> BDM cfg (emit e s).
Proof. apply BDM_core. reflexivity. Qed.

(* paying amt into custody together with crediting it to binding k *)
Lemma BDM_pay_deposit cfg s k owner amt s1 b' s' :
  pay_deposit s k owner amt = Ok s1 -> BDM cfg s ->
  bank s' = bank s1 -> supply s' = supply s1 ->
  binds s' = set k b' (binds s) ->
  b_deposit b' = fget dep_of k (binds s) + amt ->
  (forall k', k' <> k -> pricing_of s' k' = pricing_of s k') ->
  (b_avail b' = true -> min_dep_val cfg (pricing_of s' k) <= b_deposit b') ->
  BDM cfg s'.
Proof.
  intros Hp HB Ebk Esu Ei Eb Hpo Hmk.
  apply pay_deposit_inv in Hp. destruct Hp as (s0 & Et & ->).
  pose proof HB as (Hwb & _ & (Hnn & Hsup) & (_ & Hdn) & _).
  destruct (transfer_inv _ _ _ _ _ Et Hwb Hnn) as (bk & -> & Hw & Hn & Hsum & Hget & Hamt).
  sproj.
  assert (0 <= fget dep_of k (binds s)).
  { unfold fget. destruct (get k (binds s)) eqn:E; [|lia]. apply get_In in E. unfold dep_of. eauto. }
  apply (BDM_update cfg s s' k b' amt); try assumption.
  - now rewrite Ebk.
  - now rewrite Ebk.
  - rewrite Esu, Ebk. lia.
  - unfold bal. rewrite Ebk, Hget. cbn [eqb EqDec_Acct acct_eqb]. unfold bal. lia.
  - lia.
Qed.

(* the optional top-up of h_update / h_enable *)
Lemma opt_pay_frame s k owner (dep : Coins) amt s1 :
  (if coins_empty dep then Ok s else pay_deposit s k owner amt) = Ok s1 ->
  supply s1 = supply s /\ binds s1 = binds s /\ pricing s1 = pricing s /\ time s1 = time s.
Proof.
  destruct (coins_empty dep); intros E; [inv_ok E; subst; auto|].
  now apply pay_deposit_frame in E.
Qed.

Lemma opt_amt_nonneg (dep : Coins) amt :
  (if coins_empty dep then Ok 0 else one_base_coin dep) = Ok amt -> 0 <= amt.
Proof.
  destruct (coins_empty dep); intros E; [inv_ok E; lia|]. apply one_base_coin_pos in E. lia.
Qed.

Lemma BDM_opt_pay cfg s k owner dep amt s1 b' s' :
  (if coins_empty dep then Ok 0 else one_base_coin dep) = Ok amt ->
  (if coins_empty dep then Ok s else pay_deposit s k owner amt) = Ok s1 ->
  BDM cfg s ->
  bank s' = bank s1 -> supply s' = supply s1 ->
  binds s' = set k b' (binds s) ->
  b_deposit b' = fget dep_of k (binds s) + amt ->
  (forall k', k' <> k -> pricing_of s' k' = pricing_of s k') ->
  (b_avail b' = true -> min_dep_val cfg (pricing_of s' k) <= b_deposit b') ->
  BDM cfg s'.
Proof.
  intros Ea Es HB Ebk Esu Ei Eb Hpo Hmk.
  destruct (coins_empty dep); [|eapply BDM_pay_deposit; eauto].
  inv_ok Ea. inv_ok Es. subst amt s1.
  pose proof HB as (Hwb & _ & (Hnn & Hsup) & (_ & Hdn) & _).
  assert (0 <= fget dep_of k (binds s)).
  { unfold fget. destruct (get k (binds s)) eqn:E; [|lia]. apply get_In in E. unfold dep_of. eauto. }
  apply (BDM_update cfg s s' k b' 0); try assumption.
  - now rewrite Ebk.
  - now rewrite Ebk.
  - now rewrite Esu, Ebk.
  - unfold bal. rewrite Ebk. lia.
  - lia.
Qed.

(* ------------------------------------------------------------------ *)
(* slash, refund, earned fee *)

Lemma BDM_slash cfg s r s1 : slash cfg s r = Ok s1 -> BDM cfg s -> BDM cfg s1.
Proof.
  intros H HB. apply slash_core_fields in H.
  destruct H as (k & b & amt & Hb & -> & Hamt & Hbal & Ebk & Esu & Ei & Ep).
  pose proof HB as (Hwb & _ & (Hnn & Hsup) & _).
  pose proof (slashed_binding_fields cfg s k b) as (Fd & _ & _ & _ & Fa & _).
  apply (BDM_update cfg s s1 k (slashed_binding cfg s k b) (- mul_trunc (b_deposit b) (p_slash cfg)));
    try assumption.
  - rewrite Ebk. now apply wf_set.
  - rewrite Ebk. intros x v Hin. apply In_set_inv in Hin; [|assumption].
    destruct Hin as [[-> ->]|[_ Hin]]; [lia|eauto].
  - rewrite Esu, Ebk, msum_set, fget_vid. unfold vid, bal in *. lia.
  - unfold bal at 1. rewrite Ebk, get0_set. cbn [eqb EqDec_Acct acct_eqb]. lia.
  - rewrite Fd, (fget_dep_of _ _ _ Hb). lia.
  - rewrite Fd. lia.
  - intros k' _. now apply pricing_of_same.
  - rewrite Fa, Fd. intros Hav. b2p. rewrite (pricing_of_same s s1) by assumption. lia.
Qed.

Lemma BDM_refund_fee cfg s r cons fee s1 : refund_fee s r cons fee = Some s1 -> BDM cfg s -> BDM cfg s1.
Proof.
  intros H HB. apply refund_fee_inv in H. destruct H as (s0 & Et & ->).
  apply BDM_emit. eapply BDM_transfer; eauto; discriminate.
Qed.

Lemma BDM_add_earned_fee cfg s r prov fee s1 :
  add_earned_fee cfg s r prov fee = Ok s1 -> BDM cfg s -> BDM cfg s1.
Proof.
  intros H HB. apply core_add_earned_fee in H. destruct H as (s0 & Et & Ec).
  apply (BDM_core cfg s0); [assumption|]. eapply BDM_transfer; eauto; discriminate.
Qed.

(* ------------------------------------------------------------------ *)
(* messages *)

Lemma BDM_msg cfg s o s' :
  handle cfg s o = Ok s' -> (forall dt, o <> OEndBlock dt) -> I_wd s -> BDM cfg s -> BDM cfg s'.
Proof.
  intros H Hne Hwd HB. destruct o; cbn [handle] in H; try (exfalso; eapply Hne; reflexivity).
  - (* define *) unfold h_define in H. inv_ok H. destruct (get svc (defs s)); inv_ok H. subst.
    eapply BDM_core; [|exact HB]. reflexivity.
  - (* bind *) unfold h_bind in H. inv_ok H. sproj.
    match goal with Hm : min_deposit _ _ = Ok _ |- _ => apply min_deposit_ok in Hm; rename Hm into Hmd end.
    match goal with Hp : pay_deposit _ _ _ _ = Ok ?x |- _ => rename Hp into Hpay; rename x into sp end.
    b2p.
    match type of H with match _ with Some _ => Ok ?t | None => _ end = _ => set (s4 := t) in * end.
    assert (Ec : core s' = core s4) by (destruct (get prov (owner_of sp)); inv_ok H; subst s'; reflexivity).
    apply (BDM_core cfg s4); [exact Ec|].
    pose proof (pay_deposit_frame _ _ _ _ _ Hpay) as (_ & Ei0 & Ep0 & _).
    eapply (BDM_pay_deposit cfg s (svc, prov) owner a sp _ s4);
      [exact Hpay | exact HB | reflexivity | reflexivity | ..].
    + subst s4. sproj. rewrite Ei0. reflexivity.
    + cbn [b_deposit]. rewrite fget_dep_of_none by assumption. lia.
    + intros k' Hk'. rewrite (pricing_of_set s s4 (svc, prov) (parse_pricing a0)).
      * now rewrite (neq_eqb _ _ Hk').
      * subst s4. sproj. now rewrite Ep0.
    + intros _. cbn [b_deposit]. rewrite (pricing_of_set s s4 (svc, prov) (parse_pricing a0)).
      * rewrite eqb_refl. lia.
      * subst s4. sproj. now rewrite Ep0.
  - (* update *) unfold h_update in H. inv_ok H.
    rename a into b, a0 into amt, a1 into newp, a3 into s1.
    rename Ha into Hb, Ha0 into Hamt, Ha1 into Hnewp, Ha2 into Hchk, Ha3 into Hpay.
    apply opt_amt_bridge in Hamt.
    set (b1 := if qos =? 0 then b else setb_qos b qos) in *.
    assert (Hb1 : b_deposit b1 = b_deposit b /\ b_avail b1 = b_avail b)
      by (subst b1; destruct (qos =? 0); auto).
    destruct Hb1 as [Hb1d Hb1a].
    set (upd := negb (qos =? 0) || negb (coins_empty dep)
                || match pr with Some _ => true | None => false end) in *.
    destruct upd eqn:Eupd.
    2:{ inv_ok H. subst upd. b2p.
        match goal with Hce : coins_empty dep = true |- _ => rewrite Hce in Hpay end.
        inv_ok Hpay. now subst. }
    rewrite andb_true_r in Hchk.
    pose proof (opt_pay_frame _ _ _ _ _ _ Hpay) as (_ & Ei0 & Ep0 & _).
    pose proof (fget_dep_of _ _ _ Hb) as Hfg.
    destruct newp as [[raw p]|]; inv_ok H; subst s'.
    + destruct pr as [[raw'|]|]; inv_ok Hnewp; try discriminate.
      subst raw' p.
      eapply (BDM_opt_pay cfg s (svc, prov) owner dep amt s1); try eassumption; sproj; try reflexivity.
      * now rewrite Ei0.
      * cbn [b_deposit setb_raw setb_deposit]. lia.
      * intros k' Hk'. unfold pricing_of. sproj. rewrite get_set, (neq_eqb _ _ Hk'), Ep0. reflexivity.
      * cbn [b_deposit b_avail setb_raw setb_deposit]. rewrite Hb1a. intros Hav. rewrite Hav in Hchk.
        inv_ok Hchk. b2p.
        match goal with Hm : min_deposit _ _ = Ok _ |- _ => apply min_deposit_ok in Hm; subst end.
        unfold pricing_of. sproj. rewrite get_set, eqb_refl.
        match goal with Hle : _ <= b_deposit (setb_deposit _ _) |- _ => cbn [b_deposit setb_deposit] in Hle end.
        lia.
    + eapply (BDM_opt_pay cfg s (svc, prov) owner dep amt s1); try eassumption; sproj; try reflexivity.
      * now rewrite Ei0.
      * cbn [b_deposit setb_deposit]. lia.
      * intros k' Hk'. apply pricing_of_same. sproj. assumption.
      * cbn [b_deposit b_avail setb_deposit]. rewrite Hb1a. intros Hav. rewrite Hav in Hchk.
        inv_ok Hchk. b2p.
        match goal with Hm : min_deposit _ _ = Ok _ |- _ => apply min_deposit_ok in Hm; subst end.
        rewrite (pricing_of_same s) by (sproj; assumption).
        match goal with Hle : _ <= b_deposit (setb_deposit _ _) |- _ => cbn [b_deposit setb_deposit] in Hle end.
        lia.
  - (* disable *) unfold h_disable in H. inv_ok H. subst s'. rename a into b.
    pose proof HB as (Hwb & _ & (Hnn & Hsup) & _).
    apply (BDM_update cfg s _ (svc, prov) (setb_dtime (setb_avail b false) (time s)) 0);
      sproj; try assumption; try reflexivity.
    + unfold bal. sproj. lia.
    + cbn [b_deposit setb_dtime setb_avail]. rewrite (fget_dep_of _ _ _ Ha). lia.
    + cbn [b_deposit setb_dtime setb_avail]. eapply BDM_dep_nonneg; eauto.
    + cbn [b_avail setb_dtime setb_avail]. discriminate.
  - (* enable *) unfold h_enable in H. inv_ok H. subst s'.
    rename a into b, a0 into amt, a1 into md, a2 into s1.
    rename Ha into Hb, Ha0 into Hamt, Ha1 into Hmd, Ha2 into Hpay.
    apply opt_amt_bridge in Hamt.
    pose proof (opt_pay_frame _ _ _ _ _ _ Hpay) as (_ & Ei0 & Ep0 & _).
    apply min_deposit_ok in Hmd. subst md. b2p.
    eapply (BDM_opt_pay cfg s (svc, prov) owner dep amt s1); try eassumption; sproj; try reflexivity.
    + now rewrite Ei0.
    + cbn [b_deposit setb_deposit setb_dtime setb_avail]. rewrite (fget_dep_of _ _ _ Hb). lia.
    + intros k' Hk'. apply pricing_of_same. sproj. assumption.
    + intros _. rewrite (pricing_of_same s) by (sproj; assumption).
      cbn [b_deposit setb_deposit setb_dtime setb_avail] in *. lia.
  - (* refund deposit *) unfold h_refund_deposit in H. inv_ok H. subst s'.
    rename a into b, a0 into s1. rename Ha into Hb, Ha0 into Et.
    apply BDM_emit.
    pose proof HB as (Hwb & _ & (Hnn & Hsup) & _).
    destruct (transfer_inv _ _ _ _ _ Et Hwb Hnn) as (bk & -> & Hw & Hn & Hsum & Hget & Hamt).
    apply (BDM_update cfg s _ (svc, prov) (setb_deposit b 0) (- b_deposit b));
      sproj; try assumption; try reflexivity.
    + lia.
    + unfold bal at 1. sproj. rewrite Hget. cbn [eqb EqDec_Acct acct_eqb]. lia.
    + cbn [b_deposit setb_deposit]. rewrite (fget_dep_of _ _ _ Hb). lia.
    + cbn [b_avail setb_deposit]. b2p. congruence.
  - (* set withdraw *) unfold h_set_withdraw in H. inv_ok H. subst.
    eapply BDM_core; [|exact HB]. reflexivity.
  - (* call *) unfold h_call, create_context in H. inv_ok H. subst.
    eapply BDM_core; [|exact HB]. reflexivity.
  - (* modcall *) unfold create_context in H. inv_ok H. subst.
    eapply BDM_core; [|exact HB]. reflexivity.
  - (* respond *) apply respond_inv in H.
    destruct H as (q & rc0 & s1 & rc & _ & Hq & Hrc0 & _ & _ & Hset & Hrc & ->).
    assert (HB1 : BDM cfg s1).
    { destruct Hset as [[_ (sa & Es & Er)]|[_ Ea]].
      - eapply BDM_refund_fee; eauto. eapply BDM_slash; eauto.
      - eapply BDM_add_earned_fee; eauto. }
    eapply BDM_core; [|exact HB1].
    unfold resp_finish, resp_mid.
    destruct (c_bresp (setc_bresp rc (c_bresp rc + 1)) =? c_breq (setc_bresp rc (c_bresp rc + 1)));
      autorewrite with core; reflexivity.
  - (* pause *) unfold h_pause, authorized in H. inv_ok H. subst.
    eapply BDM_core; [|exact HB]. reflexivity.
  - (* start *) unfold h_start, authorized in H. inv_ok H.
    match type of H with (if ?b then _ else _) = _ => destruct b end; inv_ok H; subst;
      (eapply BDM_core; [|exact HB]); reflexivity.
  - (* kill *) unfold h_kill, authorized in H. inv_ok H. subst.
    eapply BDM_core; [|exact HB]. reflexivity.
  - (* update ctx *) unfold h_update_ctx, update_ctx_tail, authorized in H. inv_ok H. subst.
    eapply BDM_core; [|exact HB]. reflexivity.
  - (* withdraw *) unfold h_withdraw in H. rewrite (withdraw_dacct s owner Hwd) in H. inv_ok H.
    destruct (prov =? 0).
    + inv_ok H. subst. apply BDM_emit. eapply BDM_transfer; eauto; discriminate.
    + inv_ok H. subst. apply BDM_emit. eapply (BDM_transfer cfg Escrow); [eassumption|discriminate|discriminate|].
      destruct (get0 prov (earned s) =? get0 owner (own_earned s)); [|destruct (_ <? 0)]; inv_ok Ha; subst;
        (eapply BDM_core; [|exact HB]); reflexivity.
  - (* transfer *) unfold h_transfer in H. inv_ok H. eapply BDM_transfer; eauto; discriminate.
  - (* module update *) mod_shape H; (eapply BDM_core; [|exact HB]); reflexivity.
  - (* module pause *) mod_shape H; (eapply BDM_core; [|exact HB]); reflexivity.
  - (* module start *) mod_shape H; (eapply BDM_core; [|exact HB]); reflexivity.
  - (* module kill *) mod_shape H; (eapply BDM_core; [|exact HB]); reflexivity.
Qed.

(* ------------------------------------------------------------------ *)
(* EndBlock *)

Lemma BDM_expire_req cfg s r : BDM cfg s -> BDM cfg (expire_req cfg s r).
Proof.
  intros HB.
  destruct (core_expire_req cfg s r) as [Ec|(q & rc & _ & _ & _ & Ec)];
    (eapply BDM_core; [exact Ec|]); [assumption|].
  unfold expire_money. destruct (c_super rc); [assumption|].
  assert (Hsa : BDM cfg (match slash cfg s r with Ok x => x | _ => s end)).
  { destruct (slash cfg s r) eqn:Es; try assumption. eapply BDM_slash; eauto. }
  destruct (refund_fee _ r (c_cons rc) (r_fee q)) eqn:Er; [|assumption].
  eapply BDM_refund_fee; eauto.
Qed.

Lemma BDM_expire_one cfg s c : BDM cfg s -> BDM cfg (expire_one cfg s c).
Proof.
  intros HB. unfold expire_one.
  set (rc := ctx_or_zero s c).
  assert (Hp : BDM cfg (fst (if c_bdone rc then (s, rc)
             else complete_batch (fold_left (expire_req cfg) (active_rids s c (c_counter rc)) s) c rc))).
  { destruct (c_bdone rc); [assumption|].
    eapply BDM_core; [apply core_complete_batch|].
    apply fold_inv; [intros; now apply BDM_expire_req|assumption]. }
  destruct (if c_bdone rc then (s, rc) else _) as [s1 rc1]. cbn [fst] in Hp.
  eapply BDM_core; [|exact Hp].
  rewrite core_clean_batch.
  destruct (c_state rc1); [| |reflexivity]; try reflexivity.
  destruct (c_rep rc1 && _); reflexivity.
Qed.

Lemma BDM_new_one cfg s c : BDM cfg s -> BDM cfg (new_one cfg s c).
Proof.
  intros HB. unfold new_one.
  set (rc := ctx_or_zero s c).
  destruct (is_state rc Running && c_rep rc && (0 <? c_total rc) && (c_total rc <=? c_counter rc)).
  { eapply BDM_core; [|exact HB]. reflexivity. }
  eapply BDM_core; [apply core_del_newq|].
  destruct (is_state rc Running); [|assumption].
  destruct ((0 <? len _) && _).
  - match goal with |- BDM cfg (match ?p with _ => _ end) => destruct p as [sp|] eqn:Ep end.
    + assert (Hsp : BDM cfg sp).
      { destruct (c_super rc); [injection Ep as <-; assumption|].
        destruct (transfer _ _ _ s) eqn:Et; [|discriminate]. injection Ep as <-.
        apply BDM_emit. eapply BDM_transfer; eauto; discriminate. }
      eapply BDM_core; [|exact Hsp]. now autorewrite with core.
    + eapply BDM_core; [apply core_on_paused|assumption].
  - eapply BDM_core; [apply core_skip_batch|assumption].
Qed.

Lemma BDM_tick cfg s dt : BDM cfg s -> BDM cfg (set_time (set_height s (height s + 1)) (time s + dt)).
Proof. intros HB. exact HB. Qed.

Lemma BDM_end_block cfg s dt : BDM cfg s -> BDM cfg (end_block cfg s dt).
Proof.
  intros HB. unfold end_block, end_blocker. apply BDM_tick.
  apply fold_inv; [intros; now apply BDM_new_one|].
  apply fold_inv; [intros; now apply BDM_expire_one|assumption].
Qed.

Theorem BDM_step cfg s o : I_wd s -> BDM cfg s -> BDM cfg (fst (step cfg s o)).
Proof.
  intros Hwd HB. unfold step. destruct (handle cfg s o) as [s'| |] eqn:E; cbn [fst]; try assumption.
  destruct o; try (eapply BDM_msg; [exact E|discriminate|assumption|assumption]).
  cbn [handle] in E. injection E as <-. now apply BDM_end_block.
Qed.

(* ------------------------------------------------------------------ *)
(* initial state *)

Definition fund (l : list (Z * Z)) (m : amap Acct Z) : amap Acct Z :=
  fold_left (fun m af => set (User (fst af)) (get0 (User (fst af)) m + snd af) m) l m.

Lemma fund_ok (l : list (Z * Z)) (m : amap Acct Z) :
  (forall a v, In (a, v) l -> 0 <= v) -> wf m -> nonneg m -> get0 Deposit m = 0 ->
  wf (fund l m) /\ nonneg (fund l m)
  /\ msum vid (fund l m) = msum vid m + fold_right (fun af a => snd af + a) 0 l
  /\ get0 Deposit (fund l m) = 0.
Proof.
  unfold fund. revert m.
  induction l as [|[a v] t IH]; cbn [fold_left fold_right fst snd]; intros m Hl Hw Hn Hd.
  - repeat split; try assumption. lia.
  - assert (Hv : 0 <= v) by (apply (Hl a); now left).
    pose proof (get0_nonneg (User a) m Hn) as Hg.
    destruct (IH (set (User a) (get0 (User a) m + v) m)) as (I1 & I2 & I3 & I4).
    + intros a' v' Hin. apply (Hl a'). now right.
    + now apply wf_set.
    + intros x y Hin. apply In_set_inv in Hin; [|assumption].
      destruct Hin as [[-> ->]|[_ Hin]]; [lia|eauto].
    + rewrite get0_set. cbn [eqb EqDec_Acct acct_eqb]. assumption.
    + repeat split; try assumption.
      rewrite I3, msum_set, fget_vid. unfold vid. lia.
Qed.

Lemma init_bank_ok (f : list (Z * Z)) : wf_funding f ->
  wf (fund f []) /\ nonneg (fund f [])
  /\ msum vid (fund f []) = fold_right (fun af a => snd af + a) 0 f
  /\ get0 Deposit (fund f []) = 0.
Proof.
  intros Hf. destruct (fund_ok f [] Hf) as (G1 & G2 & G3 & G4); try reflexivity.
  - apply wf_nil.
  - intros a v [].
  - repeat split; assumption.
Qed.

Lemma BDM_init cfg h0 t0 f : wf_funding f -> BDM cfg (init h0 t0 f).
Proof.
  intros Hf. destruct (init_bank_ok f Hf) as (G1 & G2 & G3 & G4).
  unfold BDM, I_bank, I_deposit, I_min, init, bal.
  cbn [bank supply binds pricing msum]. fold (fund f []).
  repeat split; try assumption; try apply wf_nil; try (intros ? ? []).
  now rewrite G3.
Qed.

(* ------------------------------------------------------------------ *)
(* the interface of PROOF_GUIDE.md *)

Lemma BDM_bank cfg s : BDM cfg s -> I_bank s.
Proof. intros H. apply H. Qed.
Lemma BDM_deposit cfg s : BDM cfg s -> I_deposit s.
Proof. intros H. apply H. Qed.
Lemma BDM_I_min cfg s : BDM cfg s -> I_min cfg s.
Proof. intros H. apply H. Qed.

Definition cfg0 : Params := mkParams 1 1 0 0 0 0 0 0 1.

Lemma I_bank_init h0 t0 f : 1 <= h0 -> 0 <= t0 -> wf_funding f -> I_bank (init h0 t0 f).
Proof. intros _ _ Hf. exact (BDM_bank cfg0 _ (BDM_init cfg0 h0 t0 f Hf)). Qed.
Lemma I_deposit_init h0 t0 f : 1 <= h0 -> 0 <= t0 -> wf_funding f -> I_deposit (init h0 t0 f).
Proof. intros _ _ Hf. exact (BDM_deposit cfg0 _ (BDM_init cfg0 h0 t0 f Hf)). Qed.
Lemma I_min_init cfg h0 t0 f : 1 <= h0 -> 0 <= t0 -> wf_funding f -> I_min cfg (init h0 t0 f).
Proof. intros _ _ Hf. exact (BDM_I_min cfg _ (BDM_init cfg h0 t0 f Hf)). Qed.

Lemma BDM_of_msg cfg s o s' : wf_cfg cfg -> Inv cfg s -> wf_op s o -> (forall dt, o <> OEndBlock dt) ->
  handle cfg s o = Ok s' -> BDM cfg s'.
Proof. intros _ HI _ Hne H. eapply BDM_msg; eauto; [apply HI|now apply Inv_BDM]. Qed.

Lemma I_bank_msg cfg s o s' : wf_cfg cfg -> Inv cfg s -> wf_op s o -> (forall dt, o <> OEndBlock dt) ->
  handle cfg s o = Ok s' -> I_bank s'.
Proof. intros. eapply BDM_bank, BDM_of_msg; eauto. Qed.
Lemma I_deposit_msg cfg s o s' : wf_cfg cfg -> Inv cfg s -> wf_op s o -> (forall dt, o <> OEndBlock dt) ->
  handle cfg s o = Ok s' -> I_deposit s'.
Proof. intros. eapply BDM_deposit, BDM_of_msg; eauto. Qed.
Lemma I_min_msg cfg s o s' : wf_cfg cfg -> Inv cfg s -> wf_op s o -> (forall dt, o <> OEndBlock dt) ->
  handle cfg s o = Ok s' -> I_min cfg s'.
Proof. intros. eapply BDM_I_min, BDM_of_msg; eauto. Qed.

Lemma I_bank_expire_one cfg s c : wf_cfg cfg -> Inv cfg s -> In (height s, c) (expq s) ->
  height s < HEIGHT_BOUND -> I_bank (expire_one cfg s c).
Proof. intros _ HI _ _. eapply BDM_bank, BDM_expire_one, Inv_BDM, HI. Qed.
Lemma I_deposit_expire_one cfg s c : wf_cfg cfg -> Inv cfg s -> In (height s, c) (expq s) ->
  height s < HEIGHT_BOUND -> I_deposit (expire_one cfg s c).
Proof. intros _ HI _ _. eapply BDM_deposit, BDM_expire_one, Inv_BDM, HI. Qed.
Lemma I_min_expire_one cfg s c : wf_cfg cfg -> Inv cfg s -> In (height s, c) (expq s) ->
  height s < HEIGHT_BOUND -> I_min cfg (expire_one cfg s c).
Proof. intros _ HI _ _. eapply BDM_I_min, BDM_expire_one, Inv_BDM, HI. Qed.

Lemma I_bank_new_one cfg s c : wf_cfg cfg -> Inv cfg s -> In (height s, c) (newq s) ->
  height s < HEIGHT_BOUND -> I_bank (new_one cfg s c).
Proof. intros _ HI _ _. eapply BDM_bank, BDM_new_one, Inv_BDM, HI. Qed.
Lemma I_deposit_new_one cfg s c : wf_cfg cfg -> Inv cfg s -> In (height s, c) (newq s) ->
  height s < HEIGHT_BOUND -> I_deposit (new_one cfg s c).
Proof. intros _ HI _ _. eapply BDM_deposit, BDM_new_one, Inv_BDM, HI. Qed.
Lemma I_min_new_one cfg s c : wf_cfg cfg -> Inv cfg s -> In (height s, c) (newq s) ->
  height s < HEIGHT_BOUND -> I_min cfg (new_one cfg s c).
Proof. intros _ HI _ _. eapply BDM_I_min, BDM_new_one, Inv_BDM, HI. Qed.

Lemma I_bank_tick s dt : I_bank s -> 0 <= dt ->
  I_bank (set_time (set_height s (height s + 1)) (time s + dt)).
Proof. intros H _. exact H. Qed.
Lemma I_deposit_tick s dt : I_deposit s -> 0 <= dt ->
  I_deposit (set_time (set_height s (height s + 1)) (time s + dt)).
Proof. intros H _. exact H. Qed.
Lemma I_min_tick cfg s dt : I_min cfg s -> 0 <= dt ->
  I_min cfg (set_time (set_height s (height s + 1)) (time s + dt)).
Proof. intros H _. exact H. Qed.

(* ------------------------------------------------------------------ *)
(* every reachable state: needs no assumption on the configuration or the operations *)

Lemma BDM_expire_fold cfg l s : BDM cfg s -> BDM cfg (fold_left (expire_req cfg) l s).
Proof. intros HB. apply fold_inv; [intros; now apply BDM_expire_req|assumption]. Qed.

Theorem Reach_BDM cfg s : Reach cfg s -> BDM cfg s.
Proof.
  induction 1 as [h0 t0 f _ _ Hf|s o Hr IH _]; [now apply BDM_init|].
  apply BDM_step; [eapply Reach_I_wd; eauto|assumption].
Qed.

Corollary Reach_I_bank cfg s : Reach cfg s -> I_bank s.
Proof. intros H. eapply BDM_bank, Reach_BDM, H. Qed.
(* C03: the custody account holds exactly the sum of the binding deposits *)
Corollary Reach_I_deposit cfg s : Reach cfg s -> I_deposit s.
Proof. intros H. eapply BDM_deposit, Reach_BDM, H. Qed.
(* C14: an available binding holds at least the minimum deposit for its price *)
Corollary Reach_I_min cfg s : Reach cfg s -> I_min cfg s.
Proof. intros H. eapply BDM_I_min, Reach_BDM, H. Qed.

(* slash never panics on a state satisfying BDM whose available bindings have a price within
   the 255-bit limit (I_index gives that); used by the no-panic results for h_respond and
   to see that expire_req drops only returned errors *)
Lemma slash_no_panic cfg s r :
  0 <= p_slash cfg <= ONE -> BDM cfg s ->
  (forall k b, get k (binds s) = Some b -> b_avail b = true ->
     pr_price (pricing_of s k) * p_multiple cfg < INT_LIMIT) ->
  slash cfg s r <> Panic.
Proof.
  intros Hsl HB Hlim.
  destruct (get r (reqs s)) as [q|] eqn:Hq.
  2:{ unfold slash. rewrite Hq. discriminate. }
  destruct (get (rid_ctx r) (ctxs s)) as [rc|] eqn:Hrc.
  2:{ unfold slash. rewrite Hq, Hrc. discriminate. }
  destruct (get (c_svc rc, r_prov q) (binds s)) as [b|] eqn:Hb.
  2:{ unfold slash. rewrite Hq, Hrc. cbn [of_opt bind]. rewrite Hb. discriminate. }
  destruct (slash_ok cfg s r q rc b Hsl Hq Hrc Hb) as (s1 & ->); [| | |discriminate].
  - eapply BDM_dep_nonneg; eauto.
  - eapply BDM_dep_le_custody; eauto.
  - intros Hav. eapply Hlim; eauto.
Qed.
