(* I_req (properties C12, C16, C08): request and response records belong to the
   current batch of an existing context with a pending expiry; responses only for
   answered requests; batch counts agree with the records. *)
From Coq Require Import List ZArith Bool Lia Permutation.
From SVC Require Import Base.AMap Base.Res Base.Dec Model.Types Model.Pricing
  Model.Handlers Model.EndBlock Model.Step Proofs.Inv Proofs.Lemmas Proofs.ReqLemmas
  Proofs.DecProofs Proofs.PricingProofs Proofs.InvEscrow Proofs.CtxOps.
Import ListNotations.
Open Scope Z_scope.

Lemma has_set_mono {K V} `{EqDec K} (k k' : K) (v : V) (m : amap K V) :
  has k' m = true -> has k' (set k v m) = true.
Proof. unfold has. rewrite get_set. destruct (eqb k' k); [reflexivity|auto]. Qed.

Lemma has_get {K V} `{EqDec K} (k : K) (m : amap K V) : has k m = true <-> exists v, get k m = Some v.
Proof. unfold has. destruct (get k m); split; eauto; try discriminate. intros [v E]; discriminate. Qed.

Lemma has_false {K V} `{EqDec K} (k : K) (m : amap K V) : has k m = false <-> get k m = None.
Proof. unfold has. destruct (get k m); split; congruence. Qed.

Lemma I_req_frame s s' :
  reqs s' = reqs s -> resps s' = resps s -> ctxs s' = ctxs s -> expq_h s' = expq_h s ->
  (forall k, has k (owner_of s) = true -> has k (owner_of s') = true) ->
  (forall k, has k (binds s) = true -> has k (binds s') = true) ->
  I_req s -> I_req s'.
Proof.
  intros E1 E2 E3 E4 Ho Hb (R1 & R2 & R3). unfold I_req. rewrite E1, E2, E3, E4.
  split; [|split; assumption].
  intros r q Hin. destruct (R1 r q Hin) as (rc & A1 & A2 & A3 & A4 & A5 & A6 & A7 & A8 & A9).
  exists rc. repeat split; auto; lia.
Qed.

Ltac fin_simple := sproj; repeat split; auto; try (intros; repeat apply has_set_mono; assumption).

(* ops that do not touch contexts, requests or responses *)
Lemma req_msg_simple cfg s o s' :
  handle cfg s o = Ok s' ->
  match o with
  | ODefine _ _ _ | OBind _ _ _ _ _ _ _ | OUpdate _ _ _ _ _ _ _ | ODisable _ _ _ _
  | OEnable _ _ _ _ _ | ORefundDep _ _ _ _ | OSetWd _ _ _ | OWithdraw _ _ _ | OTransfer _ _ _ => True
  | _ => False end ->
  reqs s' = reqs s /\ resps s' = resps s /\ ctxs s' = ctxs s /\ expq_h s' = expq_h s
  /\ (forall k, has k (owner_of s) = true -> has k (owner_of s') = true)
  /\ (forall k, has k (binds s) = true -> has k (binds s') = true).
Proof.
  intros H Hk. destruct o; cbn [handle] in H; cbn in Hk; try contradiction.
  - unfold h_define in H. inv_ok H. destruct (get svc (defs s)); inv_ok H. subst. repeat split; auto.
  - unfold h_bind in H. inv_ok H. sproj.
    apply pay_deposit_inv in Ha2. destruct Ha2 as (s0 & Et & ->).
    pose proof (transfer_frame _ _ _ _ _ Et) as Hf. rewrite Hf in H. sproj.
    destruct (get prov (owner_of s)); inv_ok H; subst; sproj; fin_simple.
  - unfold h_update in H. inv_ok H.
    assert (E : a3 = s \/ exists bk e, a3 = emit e (set_bank s bk)).
    { destruct (coins_empty dep); inv_ok Ha3; [now left|]. right.
      apply pay_deposit_inv in Ha3. destruct Ha3 as (s0 & Et & ->).
      pose proof (transfer_frame _ _ _ _ _ Et) as Hf. rewrite Hf. eauto. }
    destruct (negb (qos =? 0) || negb (coins_empty dep) || match pr with Some _ => true | None => false end).
    + destruct a1 as [[raw p]|]; inv_ok H; subst s';
        destruct E as [->|(bk & e & ->)]; sproj; fin_simple.
    + inv_ok H. subst s'. destruct E as [->|(bk & e & ->)]; sproj; repeat split; auto.
  - unfold h_disable in H. inv_ok H. subst. sproj. fin_simple.
  - unfold h_enable in H. inv_ok H. subst.
    assert (E : a2 = s \/ exists bk e, a2 = emit e (set_bank s bk)).
    { destruct (coins_empty dep); inv_ok Ha2; [now left|]. right.
      apply pay_deposit_inv in Ha2. destruct Ha2 as (s0 & Et & ->).
      pose proof (transfer_frame _ _ _ _ _ Et) as Hf. rewrite Hf. eauto. }
    destruct E as [->|(bk & e & ->)]; sproj; fin_simple.
  - unfold h_refund_deposit in H. inv_ok H. subst.
    pose proof (transfer_frame _ _ _ _ _ Ha0) as Hf. rewrite Hf. sproj. fin_simple.
  - unfold h_set_withdraw in H. inv_ok H. subst. repeat split; auto.
  - unfold h_withdraw in H. inv_ok H. destruct (prov =? 0).
    + inv_ok H. subst. pose proof (transfer_frame _ _ _ _ _ Ha) as Hf. rewrite Hf. sproj. repeat split; auto.
    + inv_ok H. subst. pose proof (transfer_frame _ _ _ _ _ Ha0) as Hf. rewrite Hf. sproj.
      destruct (get0 prov (earned s) =? get0 owner (own_earned s)); [|destruct (_ <? 0)]; inv_ok Ha; subst a;
        sproj; repeat split; auto.
  - unfold h_transfer in H. inv_ok H. pose proof (transfer_frame _ _ _ _ _ H) as Hf. rewrite Hf. sproj.
    repeat split; auto.
Qed.

(* a context record is rewritten without touching its batch bookkeeping *)
Lemma I_req_put_ctx s s' c rc rc' :
  I_req s -> get c (ctxs s) = Some rc ->
  reqs s' = reqs s -> resps s' = resps s -> expq_h s' = expq_h s ->
  owner_of s' = owner_of s -> binds s' = binds s ->
  ctxs s' = set c rc' (ctxs s) ->
  c_counter rc' = c_counter rc -> c_breq rc' = c_breq rc -> c_bresp rc' = c_bresp rc ->
  c_bdone rc' = c_bdone rc -> c_svc rc' = c_svc rc -> c_super rc' = c_super rc ->
  I_req s'.
Proof.
  intros (R1 & R2 & R3) G E1 E2 E3 E4 E5 E6 F1 F2 F3 F4 F5 F6.
  unfold I_req. rewrite E1, E2, E3, E4, E5, E6. split; [|split; [assumption|]].
  - intros r q Hin. destruct (R1 r q Hin) as (rc0 & A1 & A2 & A3 & A4 & A5 & A6 & A7 & A8 & A9).
    rewrite get_set. destruct (eqb_spec (rid_ctx r) c) as [Ec|Hne].
    + rewrite Ec in A1. assert (rc0 = rc) by congruence. subst rc0.
      exists rc'. rewrite F1, F2, F5, F6. repeat split; auto; lia.
    + exists rc0. repeat split; auto; lia.
  - intros c' rc1 G1. rewrite get_set in G1. destruct (eqb_spec c' c) as [->|Hne].
    + injection G1 as <-. rewrite F2, F3, F4. apply (R3 _ _ G).
    + apply (R3 _ _ G1).
Qed.

(* a brand-new context with an idle batch *)
Lemma I_req_new_ctx cfg s s' c rc' :
  Inv cfg s -> get c (ctxs s) = None ->
  reqs s' = reqs s -> resps s' = resps s -> expq_h s' = expq_h s ->
  owner_of s' = owner_of s -> binds s' = binds s ->
  ctxs s' = set c rc' (ctxs s) ->
  c_breq rc' = 0 -> c_bresp rc' = 0 -> c_bdone rc' = true ->
  I_req s'.
Proof.
  intros Hinv G E1 E2 E3 E4 E5 E6 F1 F2 F3.
  destruct (inv_req _ _ Hinv) as (R1 & R2 & R3).
  assert (Hnoexp : get c (expq_h s) = None).
  { destruct (get c (expq_h s)) eqn:Ge; [|reflexivity]. exfalso.
    destruct (inv_sched _ _ Hinv) as (_ & _ & _ & S4 & _).
    assert (Hh : has c (ctxs s) = true) by (apply S4; left; unfold has; now rewrite Ge).
    unfold has in Hh. now rewrite G in Hh. }
  unfold I_req. rewrite E1, E2, E3, E4, E5, E6. split; [|split; [assumption|]].
  - intros r q Hin. destruct (R1 r q Hin) as (rc0 & A1 & A).
    exists rc0. split; [|exact A]. rewrite get_set_neq; [assumption|]. intros Ec. rewrite Ec in A1. congruence.
  - intros c' rc1 G1. rewrite get_set in G1. destruct (eqb_spec c' c) as [->|Hne].
    + injection G1 as <-. rewrite F1, F2, F3. unfold has. rewrite Hnoexp. cbn [andb].
      split; [lia|]. split; [|split; [discriminate|reflexivity]].
      apply msum_zero. intros r q Hin. destruct (R1 r q Hin) as (rc0 & A1 & _).
      unfold active_in. destruct (eqb_spec (rid_ctx r) c) as [Ec|]; [|reflexivity].
      rewrite Ec in A1. congruence.
    + apply (R3 _ _ G1).
Qed.

Lemma fresh_no_ctx cfg s c : Inv cfg s -> ctx_fresh s c -> get c (ctxs s) = None.
Proof.
  intros Hinv Hf. destruct (get c (ctxs s)) as [rc|] eqn:G; [|reflexivity].
  exfalso. apply Hf. destruct (inv_ctx _ _ Hinv c rc G) as (_ & _ & _ & _ & _ & _ & _ & _ & Hlog). exact Hlog.
Qed.

Lemma authorized_inv s c who rc :
  authorized s c who = Ok rc -> get c (ctxs s) = Some rc /\ c_cons rc = who /\ c_mod rc = 0.
Proof. unfold authorized. intros H. inv_ok H. subst. b2p. auto. Qed.

Ltac auth_inv :=
  match goal with H : authorized _ _ _ = Ok _ |- _ =>
    apply authorized_inv in H; destruct H as (? & ? & ?) end.

Ltac put_ctx_tac :=
  match goal with
  | G : get ?c (ctxs ?s) = Some ?rc, HR : I_req ?s |- I_req _ =>
      eapply (I_req_put_ctx s _ c rc _ HR G); try reflexivity
  end.

Lemma I_req_ctx_ops cfg s o s' :
  wf_cfg cfg -> Inv cfg s -> wf_op s o -> handle cfg s o = Ok s' ->
  match o with
  | OCall _ _ _ _ _ _ _ _ _ _ _ _ _ | OModCall _ _ _ _ _ _ _ _ _ _ _ _ _ _
  | OPause _ _ _ | OStart _ _ _ | OKill _ _ _ | OUpdateCtx _ _ _ _ _ _ _ _
  | OModUpdate _ _ _ _ _ _ _ _ | OModPause _ _ | OModStart _ _ | OModKill _ _ => True
  | _ => False end ->
  I_req s'.
Proof.
  intros Hcfg Hinv Hop H Hk. pose proof (inv_req _ _ Hinv) as HR.
  destruct o; cbn [handle] in H; cbn in Hk; try contradiction; cbn [wf_op] in Hop.
  - unfold h_call, create_context in H. inv_ok H. subst s'. destruct Hop as (Hfr & _).
    eapply (I_req_new_ctx cfg s); try reflexivity; eauto using fresh_no_ctx.
  - unfold create_context in H. inv_ok H. subst s'. destruct Hop as (Hfr & _).
    eapply (I_req_new_ctx cfg s); try reflexivity; eauto using fresh_no_ctx.
  - unfold h_pause in H. inv_ok H. auth_inv. subst s'.
    put_ctx_tac.
  - unfold h_start in H. inv_ok H. auth_inv.
    cbv zeta in H.
    match type of H with (if ?b then _ else _) = _ => destruct b end; inv_ok H; subst s';
      put_ctx_tac.
  - unfold h_kill in H. inv_ok H. auth_inv. subst s'.
    put_ctx_tac.
  - unfold h_update_ctx, update_ctx_tail in H. inv_ok H. auth_inv. subst s'.
    match goal with Hx : (if coins_empty cap then _ else _) = Ok ?rc1 |- _ =>
      assert (Hrc1 : c_counter rc1 = c_counter a /\ c_breq rc1 = c_breq a /\ c_bresp rc1 = c_bresp a
                     /\ c_bdone rc1 = c_bdone a /\ c_svc rc1 = c_svc a /\ c_super rc1 = c_super a)
        by (destruct (coins_empty cap); inv_ok Hx; subst; repeat split);
      destruct Hrc1 as (U1 & U2 & U3 & U4 & U5 & U6) end.
    put_ctx_tac.
    all: repeat match goal with |- context [if ?b then _ else _] => destruct b end;
         try destruct provs; cbn; assumption.
  - (* module update *) apply h_mod_update_gen in H. destruct H as (rc & t & capo & G & _ & _ & ->).
    pose proof (upd_thr_fixed rc t provs capo timeout freq total) as Hf. cbv zeta in Hf.
    destruct Hf as (F1 & _ & _ & F4 & _ & F6 & F7 & F8 & _ & F10 & _).
    put_ctx_tac; assumption.
  - (* module pause *) apply h_mod_pause_spec in H. destruct H as (rc & G & _ & _ & _ & ->). put_ctx_tac.
  - (* module start *) apply h_mod_start_spec in H. destruct H as (rc & G & _ & _ & ->). unfold started.
    destruct (negb (has c (expq_h s)) && negb (has c (newq_h s))); put_ctx_tac.
  - (* module kill *) apply h_mod_kill_spec in H. destruct H as (rc & G & _ & _ & ->). put_ctx_tac.
Qed.

(* ---- respond ---- *)

Definition req_core (s s1 : State) : Prop :=
  reqs s1 = reqs s /\ resps s1 = resps s /\ ctxs s1 = ctxs s /\ expq_h s1 = expq_h s
  /\ owner_of s1 = owner_of s.

Lemma settle_core cfg s r q rc0 out ov s1 :
  resp_settle cfg s r q rc0 out ov s1 ->
  req_core s s1 /\ (forall k, has k (binds s) = true -> has k (binds s1) = true).
Proof.
  intros [[_ (sa & Es & Er)]|[_ Ea]].
  - apply slash_shape in Es. destruct Es as (q' & rc & b & amt & b2 & _ & _ & _ & _ & _ & _ & _ & _ & _ & _ & _ & ->).
    apply refund_shape in Er. destruct Er as (_ & _ & ->). unfold req_core. sproj.
    repeat split. intros k Hk. now apply has_set_mono.
  - apply add_earned_shape in Ea. destruct Ea as (o & s0 & Et & _ & _ & ->). cbv zeta.
    unfold req_core. sproj. repeat split. auto.
Qed.

Lemma snd_complete_batch s c rc : snd (complete_batch s c rc) = setc_bdone rc true.
Proof. reflexivity. Qed.

Lemma resp_tail_req s1 r who rc0 code out c rc :
  let s' := resp_finish (resp_mid s1 r who rc0 code out) c rc in
  let rc1 := setc_bresp rc (c_bresp rc + 1) in
  reqs s' = reqs (deactivate s1 r)
  /\ resps s' = set r (mkResp who (c_cons rc0) code out) (resps s1)
  /\ expq_h s' = expq_h s1 /\ owner_of s' = owner_of s1 /\ binds s' = binds s1
  /\ ctxs s' = set c (if c_bresp rc1 =? c_breq rc1 then setc_bdone rc1 true else rc1) (ctxs s1).
Proof.
  cbv zeta. unfold resp_finish.
  set (sm := resp_mid s1 r who rc0 code out).
  assert (Hm : reqs sm = reqs (deactivate s1 r)
               /\ resps sm = set r (mkResp who (c_cons rc0) code out) (resps s1)
               /\ expq_h sm = expq_h s1 /\ owner_of sm = owner_of s1 /\ binds sm = binds s1
               /\ ctxs sm = ctxs s1).
  { unfold sm, resp_mid. sproj. unfold deactivate. sproj.
    destruct (get r (reqs s1)); sproj; repeat split. }
  destruct Hm as (M1 & M2 & M3 & M4 & M5 & M6).
  destruct (c_bresp (setc_bresp rc (c_bresp rc + 1)) =? c_breq (setc_bresp rc (c_bresp rc + 1))).
  - pose proof (complete_batch_frame sm c (setc_bresp rc (c_bresp rc + 1))) as F. cbv zeta in F.
    destruct F as (F1 & F2 & _ & _ & _ & _ & F7 & F8 & _ & F10 & _ & _ & _ & F14 & _).
    sproj. rewrite F1, F2, F7, F8, F10, F14, snd_complete_batch. repeat split; congruence.
  - sproj. repeat split; congruence.
Qed.

Lemma msum_active_deact s c r q :
  get r (reqs s) = Some q -> r_active q = true ->
  msum (active_in c) (set r (deact q) (reqs s))
  = msum (active_in c) (reqs s) - (if eqb (rid_ctx r) c then 1 else 0).
Proof.
  intros G Ha. rewrite msum_set. unfold fget. rewrite G. unfold active_in. cbn [r_active deact setr_active].
  rewrite Ha. destruct (eqb (rid_ctx r) c); cbn [andb]; lia.
Qed.

Lemma I_req_respond cfg s r who code out ov ok s' :
  wf_cfg cfg -> Inv cfg s -> h_respond cfg s r who code out ov ok = Ok s' -> I_req s'.
Proof.
  intros Hcfg Hinv H. apply respond_inv in H.
  destruct H as (q & rc0 & s1 & rc & _ & Hq & Hrc0 & Hwho & Hact & Hset & Hrc & ->).
  destruct (settle_core _ _ _ _ _ _ _ _ Hset) as ((C1 & C2 & C3 & C4 & C5) & Cb).
  pose proof (resp_tail_req s1 r who rc0 code out (rid_ctx r) rc) as T. cbv zeta in T.
  destruct T as (T1 & T2 & T3 & T4 & T5 & T6).
  assert (Erc : rc = rc0).
  { unfold resp_mid in Hrc. sproj. unfold deactivate in Hrc. sproj.
    destruct (get r (reqs s1)); sproj; rewrite C3 in Hrc; congruence. }
  subst rc0.
  set (c := rid_ctx r) in *.
  set (rc1 := setc_bresp rc (c_bresp rc + 1)) in *.
  set (rcF := if c_bresp rc1 =? c_breq rc1 then setc_bdone rc1 true else rc1) in *.
  destruct (inv_req _ _ Hinv) as (R1 & R2 & R3).
  pose proof (inv_wf _ _ Hinv) as Hwf. assert (Hwr : wf (reqs s)) by apply Hwf.
  assert (Hreqs : reqs (resp_finish (resp_mid s1 r who rc code out) c rc) = set r (deact q) (reqs s)).
  { rewrite T1, deactivate_reqs, C1, Hq. reflexivity. }
  pose proof (get_In _ _ _ Hq) as Hqin.
  destruct (R1 _ _ Hqin) as (rc' & G1 & Q2 & Q3 & Q4 & Q5 & Q6 & Q7 & Q8 & Q9).
  fold c in G1, Q3. assert (rc' = rc) by congruence. subst rc'.
  assert (HrcF : c_counter rcF = c_counter rc /\ c_breq rcF = c_breq rc /\ c_svc rcF = c_svc rc
                 /\ c_super rcF = c_super rc /\ c_bresp rcF = c_bresp rc + 1).
  { unfold rcF, rc1. destruct (_ =? _); repeat split. }
  destruct HrcF as (F1 & F2 & F3 & F4 & F5).
  destruct (R3 _ _ Hrc0) as (B1 & B2 & B3 & B4).
  assert (Hexp : has c (expq_h s) = true) by (unfold has; now rewrite Q3).
  rewrite Hexp in B2. cbn [andb] in B2.
  (* the answered request was active, so the batch is not completed and has room *)
  assert (Hpos : 1 <= msum (active_in c) (reqs s)).
  { assert (E : active_in c r q = fget (active_in c) r (reqs s)) by (unfold fget; now rewrite Hq).
    assert (L : fget (active_in c) r (reqs s) <= msum (active_in c) (reqs s)).
    { apply msum_ge_fget. intros k v _. unfold active_in. destruct (_ && _); lia. }
    rewrite <- E in L. unfold active_in in L. unfold c in L at 1. rewrite eqb_refl, Hact in L. cbn [andb] in L. exact L. }
  assert (Hnd : c_bdone rc = false).
  { destruct (c_bdone rc); [|reflexivity]. cbn [negb] in B2. lia. }
  rewrite Hnd in B2. cbn [negb] in B2.
  unfold I_req. rewrite Hreqs, T2, T3, T4, T5, T6, C2, C3, C4, C5.
  split; [|split].
  - intros r' q' Hin. apply In_set_inv in Hin; [|assumption].
    destruct Hin as [[-> ->]|[Hne Hin]].
    + exists rcF. fold c. rewrite get_set_eq. cbn [deact setr_active r_exp r_fee r_prov].
      rewrite F1, F2, F3, F4. repeat split; auto; lia.
    + destruct (R1 _ _ Hin) as (rc' & A1 & A2 & A3 & A4 & A5 & A6 & A7 & A8 & A9).
      rewrite get_set. destruct (eqb_spec (rid_ctx r') c) as [Ec|Hnc].
      * rewrite Ec in A1. assert (rc' = rc) by congruence. subst rc'.
        exists rcF. rewrite F1, F2, F3, F4. repeat split; auto; lia.
      * exists rc'. repeat split; auto; lia.
  - intros r' x Hin. apply In_set_inv in Hin; [|apply Hwf].
    destruct Hin as [[-> ->]|[Hne Hin]].
    + exists (deact q). rewrite get_set_eq. split; reflexivity.
    + destruct (R2 _ _ Hin) as (q' & G' & I'). exists q'. rewrite get_set_neq by assumption. auto.
  - intros c' rcx Gx. rewrite get_set in Gx. rewrite (msum_active_deact s c' r q Hq Hact). fold c.
    destruct (eqb_spec c' c) as [->|Hnc].
    + injection Gx as <-. rewrite eqb_refl, Hexp. cbn [andb].
      unfold rcF, rc1. destruct (c_bresp (setc_bresp rc (c_bresp rc + 1)) =? c_breq (setc_bresp rc (c_bresp rc + 1))) eqn:Eq;
        cbn [c_bresp c_breq c_bdone setc_bresp setc_bdone negb] in *; b2p.
      * repeat split; try lia; try discriminate; intros; try discriminate; try lia.
      * rewrite Hnd. cbn [negb]. repeat split; try lia; try discriminate; intros; try discriminate; try lia.
    + destruct (eqb_spec c c') as [E|_]; [congruence|]. rewrite Z.sub_0_r. apply (R3 _ _ Gx).
Qed.

Theorem I_req_msg cfg s o s' :
  wf_cfg cfg -> Inv cfg s -> wf_op s o -> (forall dt, o <> OEndBlock dt) ->
  handle cfg s o = Ok s' -> I_req s'.
Proof.
  intros Hcfg Hinv Hop Hne H.
  destruct o;
    try (destruct (req_msg_simple _ _ _ _ H I) as (E1 & E2 & E3 & E4 & E5 & E6);
         exact (I_req_frame _ _ E1 E2 E3 E4 E5 E6 (inv_req _ _ Hinv)));
    try (exact (I_req_ctx_ops _ _ _ _ Hcfg Hinv Hop H I)).
  - cbn [handle] in H. eapply I_req_respond; eauto.
  - exfalso. eapply Hne. reflexivity.
Qed.

(* ---- EndBlock: expiry ---- *)

Lemma has_binds_slash cfg s r s1 k :
  slash cfg s r = Ok s1 -> has k (binds s) = true -> has k (binds s1) = true.
Proof.
  intros Es Hk. apply slash_shape in Es.
  destruct Es as (q' & rc & b & amt & b2 & _ & _ & _ & _ & _ & _ & _ & _ & _ & _ & _ & ->).
  sproj. now apply has_set_mono.
Qed.

Lemma has_binds_expire_req cfg s r k :
  has k (binds s) = true -> has k (binds (expire_req cfg s r)) = true.
Proof.
  intros Hk. unfold expire_req.
  destruct (get r (reqs s)) as [q|]; [|assumption].
  destruct (get (rid_ctx r) (ctxs s)) as [rc|]; [|assumption].
  rewrite deactivate_other. sproj.
  destruct (c_super rc); [assumption|].
  assert (Hsa : has k (binds (match slash cfg s r with Ok x => x | _ => s end)) = true).
  { destruct (slash cfg s r) eqn:Es; try assumption. eapply has_binds_slash; eauto. }
  destruct (refund_fee _ r (c_cons rc) (r_fee q)) eqn:Er; [|assumption].
  apply refund_shape in Er. destruct Er as (_ & _ & ->). sproj. assumption.
Qed.

Lemma has_binds_fold_expire cfg l s k :
  has k (binds s) = true -> has k (binds (fold_left (expire_req cfg) l s)) = true.
Proof.
  revert s. induction l as [|a l IH]; intros s Hk; cbn [fold_left]; [assumption|].
  apply IH. now apply has_binds_expire_req.
Qed.

Lemma fold_expire_msum_other cfg l s c c' :
  wf (reqs s) -> c' <> c -> (forall r, In r l -> rid_ctx r = c) ->
  msum (active_in c') (reqs (fold_left (expire_req cfg) l s)) = msum (active_in c') (reqs s).
Proof.
  revert s. induction l as [|a l IH]; intros s Hw Hne Hl; cbn [fold_left]; [reflexivity|].
  assert (Hw1 : wf (reqs (expire_req cfg s a))).
  { rewrite expire_req_reqs. destruct (get a (reqs s)); [|assumption].
    destruct (get (rid_ctx a) (ctxs s)); [now apply wf_set|assumption]. }
  rewrite IH; [|assumption|assumption|intros r Hr; apply Hl; now right].
  rewrite expire_req_reqs. destruct (get a (reqs s)) as [q|] eqn:G; [|reflexivity].
  destruct (get (rid_ctx a) (ctxs s)); [|reflexivity].
  rewrite msum_set. unfold fget. rewrite G. unfold active_in.
  rewrite (Hl a (or_introl eq_refl)). destruct (eqb_spec c c'); [congruence|]. cbn [andb]. lia.
Qed.

Lemma I_req_expire_one cfg s c :
  wf_cfg cfg -> Inv cfg s -> In (height s, c) (expq s) -> height s < HEIGHT_BOUND ->
  I_req (expire_one cfg s c).
Proof.
  intros Hcfg Hinv Hdue Hh. destruct (due_ctx _ _ _ Hinv Hdue) as (rc & Grc & Gexp).
  pose proof (expire_one_settled cfg s c rc Hinv Grc Gexp) as HS. cbv zeta in HS.
  destruct (inv_req _ _ Hinv) as (R1 & R2 & R3).
  pose proof (inv_wf _ _ Hinv) as Hwf. assert (Hwr : wf (reqs s)) by apply Hwf.
  assert (Hwp : wf (resps s)) by apply Hwf. assert (Hwc : wf (ctxs s)) by apply Hwf.
  assert (Hwe : wf (expq_h s)) by apply Hwf.
  (* facts about the settled state that expire_one_settled does not give *)
  assert (HX : let p := (if c_bdone rc then (s, rc)
                 else complete_batch (fold_left (expire_req cfg) (active_rids s c (c_counter rc)) s) c rc) in
      resps (fst p) = resps s /\ expq_h (fst p) = expq_h s /\ owner_of (fst p) = owner_of s
      /\ (forall k, has k (binds s) = true -> has k (binds (fst p)) = true)
      /\ (forall r, rid_ctx r <> c -> get r (reqs (fst p)) = get r (reqs s))
      /\ (forall c', c' <> c -> msum (active_in c') (reqs (fst p)) = msum (active_in c') (reqs s))
      /\ c_bdone (snd p) = true /\ c_counter (snd p) = c_counter rc /\ c_bresp (snd p) = c_bresp rc
      /\ c_breq (snd p) = c_breq rc /\ wf (reqs (fst p))).
  { cbv zeta. destruct (c_bdone rc) eqn:Ebd; cbn [fst snd]; [repeat split; auto|].
    set (l := active_rids s c (c_counter rc)). set (sf := fold_left (expire_req cfg) l s).
    assert (Hlc : forall r, In r l -> rid_ctx r = c).
    { intros r Hr. apply In_active_rids in Hr; [|assumption]. destruct Hr as (? & _ & Hc & _). exact Hc. }
    pose proof (complete_batch_frame sf c rc) as F. cbv zeta in F.
    destruct F as (F1 & F2 & _ & _ & _ & _ & _ & F8 & _ & F10 & _ & _ & _ & F14 & _).
    pose proof (fold_expire_core cfg l s) as C. cbv zeta in C. fold sf in C.
    destruct C as (C1 & C2 & _ & _ & _ & C6 & _ & _ & C9 & _).
    destruct (fold_expire_reqs cfg l s Hwr) as (Hwsf & Hg).
    { intros r Hr. rewrite (Hlc r Hr). eauto. }
    fold sf in Hg, Hwsf.
    rewrite F1, F2, F8, F10, F14. repeat split; try congruence.
    - intros k Hk. now apply has_binds_fold_expire.
    - intros r Hr. rewrite Hg. destruct (mem r l) eqn:M; [|reflexivity].
      apply mem_In in M. apply Hlc in M. contradiction.
    - intros c' Hc'. now apply (fold_expire_msum_other cfg l s c c'). }
  cbv zeta in HX.
  unfold expire_one, ctx_or_zero. rewrite Grc.
  destruct (if c_bdone rc then (s, rc) else complete_batch _ c rc) as [s1 rc1] eqn:Epair.
  cbn [fst snd] in HS, HX.
  destruct HS as (_ & _ & Hctx1 & Hinact & Hkeys).
  destruct HX as (X1 & X2 & X3 & X4 & X5 & X6 & X7 & X8 & X9 & X10 & Hw1).
  set (n := c_counter rc1).
  match goal with |- I_req (clean_batch ?x c n) => set (s3 := x) end.
  assert (H3 : reqs s3 = reqs s1 /\ resps s3 = resps s /\ expq_h s3 = del c (expq_h s)
               /\ owner_of s3 = owner_of s /\ binds s3 = binds s1
               /\ (ctxs s3 = set c rc1 (ctxs s) \/ ctxs s3 = del c (set c rc1 (ctxs s)))).
  { unfold s3. destruct (c_state rc1); [destruct (c_rep rc1 && _)| |]; sproj;
      rewrite ?X1, ?X2, ?X3, ?Hctx1; repeat split; auto. }
  destruct H3 as (H31 & H32 & H33 & H34 & H35 & H36).
  destruct (clean_batch_fields s3 c n) as (Cr & Cp & Cs). cbv zeta in Cr, Cp, Cs.
  set (s' := clean_batch s3 c n) in *.
  assert (E4 : expq_h s' = del c (expq_h s)) by (rewrite Cs; sproj; exact H33).
  assert (E5 : owner_of s' = owner_of s) by (rewrite Cs; sproj; exact H34).
  assert (E6 : binds s' = binds s1) by (rewrite Cs; sproj; exact H35).
  assert (E7 : ctxs s' = ctxs s3) by (rewrite Cs; reflexivity).
  (* membership in the cleaned batch *)
  assert (Hbatch : forall r, In r (keys (reqs s)) -> rid_ctx r = c -> In r (batch_rids s3 c n)).
  { intros r Hk Hc. apply In_batch_rids. rewrite H31. split; [|split; [assumption|]].
    - apply in_keys_get in Hk. destruct Hk as (q & G).
      destruct (get r (reqs s1)) eqn:G1; [eapply get_Some_in; eauto|].
      apply Hkeys in G1. congruence.
    - apply in_keys_get in Hk. destruct Hk as (q & G). apply get_In in G.
      destruct (R1 _ _ G) as (rc' & A1 & A2 & _). rewrite Hc in A1.
      assert (rc' = rc) by congruence. subst rc'. unfold n. congruence. }
  assert (Hget : forall r q, get r (reqs s') = Some q -> rid_ctx r <> c /\ get r (reqs s) = Some q).
  { intros r q G. rewrite Cr, H31, get_fold_del in G by assumption.
    destruct (mem r (batch_rids s3 c n)) eqn:M; [discriminate|]. apply mem_nIn in M.
    assert (Hnc : rid_ctx r <> c).
    { intros Hc. apply M. apply Hbatch; [|assumption].
      destruct (get r (reqs s)) eqn:G0; [eapply get_Some_in; eauto|]. apply Hkeys in G0. congruence. }
    split; [assumption|]. rewrite <- X5; assumption. }
  assert (Hctx_other : forall c', c' <> c -> get c' (ctxs s') = get c' (ctxs s)).
  { intros c' Hc'. rewrite E7. destruct H36 as [->| ->].
    - now rewrite get_set_neq.
    - rewrite get_del_neq by assumption. now rewrite get_set_neq. }
  assert (Hws' : wf (reqs s')) by (rewrite Cr, H31; now apply fold_del_wf).
  unfold I_req. split; [|split].
  - intros r q Hin. apply In_get in Hin; [|assumption]. destruct (Hget _ _ Hin) as (Hnc & G0).
    apply get_In in G0. destruct (R1 _ _ G0) as (rc' & A1 & A2 & A3 & A4 & A5 & A6 & A7 & A8 & A9).
    exists rc'. rewrite Hctx_other, E4, E5, E6 by assumption. rewrite get_del_neq by assumption.
    repeat split; auto; lia.
  - intros r x Hin.
    assert (Hwp' : wf (resps s')) by (rewrite Cp, H32; now apply fold_del_wf).
    apply In_get in Hin; [|assumption]. rewrite Cp, H32, get_fold_del in Hin by assumption.
    destruct (mem r (batch_rids s3 c n)) eqn:M; [discriminate|]. apply mem_nIn in M.
    apply get_In in Hin. destruct (R2 _ _ Hin) as (q & G & Hia).
    assert (Hnc : rid_ctx r <> c).
    { intros Hc. apply M. apply Hbatch; [eapply get_Some_in; eauto|assumption]. }
    exists q. split; [|assumption].
    rewrite Cr, H31, get_fold_del by assumption.
    destruct (mem r (batch_rids s3 c n)) eqn:M2; [apply mem_In in M2; contradiction|].
    rewrite X5 by assumption. exact G.
  - intros c' rcx Gx. destruct (eqb_spec c' c) as [->|Hnc].
    + (* the expired context itself, if it survives *)
      assert (Ercx : rcx = rc1).
      { rewrite E7 in Gx. destruct H36 as [E|E]; rewrite E in Gx.
        - rewrite get_set_eq in Gx. congruence.
        - rewrite get_del_eq in Gx by now apply wf_set. discriminate. }
      subst rcx. rewrite E4. unfold has. rewrite get_del_eq by assumption. cbn [andb].
      destruct (R3 _ _ Grc) as (B1 & _). rewrite X9, X10.
      split; [assumption|]. split; [|split; [discriminate|intros _; exact X7]].
      apply msum_zero. intros r q Hin. apply In_get in Hin; [|assumption].
      destruct (Hget _ _ Hin) as (Hnc & _). unfold active_in.
      destruct (eqb_spec (rid_ctx r) c); [contradiction|reflexivity].
    + rewrite Hctx_other in Gx by assumption. rewrite E4.
      assert (Eh : has c' (del c (expq_h s)) = has c' (expq_h s)) by (unfold has; now rewrite get_del_neq).
      rewrite Eh.
      assert (Em : msum (active_in c') (reqs s') = msum (active_in c') (reqs s)).
      { rewrite Cr, H31. rewrite msum_fold_del_zero; [now apply X6|assumption|].
        intros r Hr. apply In_batch_rids in Hr. destruct Hr as (_ & Hc & _).
        unfold fget. destruct (get r (reqs s1)); [|reflexivity]. unfold active_in.
        rewrite Hc. destruct (eqb_spec c c'); [congruence|reflexivity]. }
      rewrite Em. apply (R3 _ _ Gx).
Qed.

(* ---- EndBlock: new batch ---- *)

Lemma I_req_idle cfg s s' c rc :
  Inv cfg s -> get c (ctxs s) = Some rc -> get c (expq_h s) = None ->
  reqs s' = reqs s -> resps s' = resps s -> owner_of s' = owner_of s -> binds s' = binds s ->
  (forall c', c' <> c -> get c' (ctxs s') = get c' (ctxs s)) ->
  (forall c', c' <> c -> get c' (expq_h s') = get c' (expq_h s)) ->
  (forall rc', get c (ctxs s') = Some rc' ->
      0 <= c_bresp rc' <= c_breq rc'
      /\ (if has c (expq_h s') then c_bdone rc' = false /\ c_breq rc' = c_bresp rc'
          else c_bdone rc' = true)) ->
  I_req s'.
Proof.
  intros Hinv Grc Gexp E1 E2 E3 E4 Hc He Hrc.
  destruct (inv_req _ _ Hinv) as (R1 & R2 & R3).
  assert (Hnoreq : forall r q, In (r, q) (reqs s) -> rid_ctx r <> c).
  { intros r q Hin Ec. destruct (R1 _ _ Hin) as (rc' & _ & _ & A3 & _). rewrite Ec in A3. congruence. }
  unfold I_req. rewrite E1, E2, E3, E4. split; [|split; [assumption|]].
  - intros r q Hin. pose proof (Hnoreq _ _ Hin) as Hnc.
    destruct (R1 _ _ Hin) as (rc' & A). exists rc'. rewrite Hc, He by assumption. exact A.
  - intros c' rcx Gx. destruct (eqb_spec c' c) as [->|Hnc].
    + destruct (Hrc _ Gx) as (B1 & B2). split; [assumption|].
      assert (Ez : msum (active_in c) (reqs s) = 0).
      { apply msum_zero. intros r q Hin. unfold active_in.
        destruct (eqb_spec (rid_ctx r) c) as [Ec|]; [|reflexivity]. exfalso. eapply Hnoreq; eauto. }
      rewrite Ez. destruct (has c (expq_h s')).
      * destruct B2 as (B2 & B3). rewrite B2. cbn [andb negb].
        repeat split; try lia; try discriminate.
      * cbn [andb]. repeat split; try discriminate; auto.
    + rewrite Hc in Gx by assumption.
      assert (Eh : has c' (expq_h s') = has c' (expq_h s)) by (unfold has; now rewrite He).
      rewrite Eh. apply (R3 _ _ Gx).
Qed.

Lemma I_req_new_one cfg s c :
  wf_cfg cfg -> Inv cfg s -> In (height s, c) (newq s) -> height s < HEIGHT_BOUND ->
  I_req (new_one cfg s c).
Proof.
  intros Hcfg Hinv Hdue Hh. destruct (due_new_ctx _ _ _ Hinv Hdue) as (rc & Grc & Gnew & Gexp).
  destruct (inv_req _ _ Hinv) as (R1 & R2 & R3).
  pose proof (inv_wf _ _ Hinv) as Hwf. assert (Hwr : wf (reqs s)) by apply Hwf.
  assert (Hwc : wf (ctxs s)) by apply Hwf. assert (Hwe : wf (expq_h s)) by apply Hwf.
  destruct (R3 _ _ Grc) as (B1 & B2 & B3 & B4).
  assert (Hnexp : has c (expq_h s) = false) by (unfold has; now rewrite Gexp).
  pose proof (B4 Hnexp) as Hbd.
  unfold new_one, ctx_or_zero. rewrite Grc.
  destruct (is_state rc Running && c_rep rc && (0 <? c_total rc) && (c_total rc <=? c_counter rc)).
  { (* total reached: the context is removed *)
    eapply (I_req_idle cfg s _ c rc); eauto; sproj; try reflexivity.
    - intros c' Hc'. now rewrite get_del_neq.
    - intros rc' G. rewrite get_del_eq in G by assumption. discriminate. }
  destruct (is_state rc Running).
  2:{ eapply (I_req_idle cfg s _ c rc); eauto; sproj; try reflexivity.
      intros rc' G. rewrite Grc in G. injection G as <-. rewrite Hnexp. auto. }
  set (el := filter_providers s rc (c_provs rc)).
  destruct ((0 <? len el) && (c_thr rc <=? len el)).
  2:{ (* skipped batch *)
      unfold skip_batch. eapply (I_req_idle cfg s _ c rc); eauto; sproj; try reflexivity.
      - intros c' Hc'. now rewrite get_set_neq.
      - intros c' Hc'. now rewrite get_set_neq.
      - intros rc' G. rewrite get_set_eq in G. injection G as <-.
        unfold has. rewrite get_set_eq. cbn. repeat split; lia. }
  assert (Hpaused : I_req (del_newq (on_paused s c rc) c (height s))).
  { unfold on_paused. eapply (I_req_idle cfg s _ c rc); eauto;
      destruct (c_mod rc =? 0); sproj; try reflexivity;
      try (intros c' Hc'; now rewrite get_set_neq);
      (intros rc' G; rewrite get_set_eq in G; injection G as <-; rewrite Hnexp; cbn; auto). }
  assert (Hissue : forall sp, reqs sp = reqs s -> resps sp = resps s -> ctxs sp = ctxs s ->
            expq_h sp = expq_h s -> owner_of sp = owner_of s -> binds sp = binds s ->
            height sp = height s ->
            I_req (del_newq (add_expq (initiate_requests sp c (map fst el)) c (height s + c_timeout rc)) c (height s))).
  { intros sp P1 P2 P3 P4 P5 P6 P7.
    unfold initiate_requests, ctx_or_zero. rewrite P3, Grc.
    set (n := c_counter rc + 1). set (provs := map fst el).
    set (s1 := issue_all sp c rc n 0 provs).
    set (rc1 := setc_bthr (setc_breq (setc_bresp (setc_bdone (setc_counter rc n) false) 0) (len provs)) (c_thr rc)).
    assert (Hnoreq : forall r, rid_ctx r = c -> get r (reqs sp) = None).
    { intros r Hc. rewrite P1. eapply no_expiry_no_reqs; eauto. }
    assert (Hwsp : wf (reqs sp)) by (rewrite P1; assumption).
    assert (Hfresh : forall j, 0 <= j -> get (c, n, height sp, j) (reqs sp) = None).
    { intros j _. now apply Hnoreq. }
    pose proof (issue_all_frame sp c rc n 0 provs) as F. fold s1 in F. unfold same_but_reqs in F.
    destruct F as (_ & _ & _ & F4 & _ & F6 & _ & _ & _ & F10 & _ & F12 & _ & _ & F15 & _).
    destruct (inv_ctx _ _ Hinv c rc Grc) as ((Ht1 & _) & _).
    sproj. unfold I_req. sproj. rewrite F4, F6, F10, F12, F15, P2, P3, P4, P5, P6.
    split; [|split].
    - intros r q Hin.
      destruct (issue_all_reqs fee_active sp c rc n 0 provs Hwsp Hfresh) as (Hws1 & _ & _). fold s1 in Hws1.
      apply In_get in Hin; [|assumption]. apply issue_all_get in Hin.
      destruct Hin as [G0|(k & p & Hn & -> & ->)].
      + rewrite P1 in G0. assert (Hnc : rid_ctx r <> c).
        { intros Ec. rewrite <- P1 in G0. rewrite (Hnoreq r Ec) in G0. discriminate. }
        apply get_In in G0. destruct (R1 _ _ G0) as (rc' & A). exists rc'.
        rewrite !get_set_neq by assumption. exact A.
      + exists rc1. cbn [rid_ctx rid_batch rid_index rid_height fst snd].
        rewrite !get_set_eq. unfold new_req, fee_of. cbn [r_exp r_fee r_prov].
        unfold rc1. cbn [c_counter c_breq c_svc c_super setc_bthr setc_breq setc_bresp setc_bdone setc_counter].
        pose proof (nth_error_len _ _ _ Hn) as Hk.
        assert (Hp : In p (map fst (filter_providers s rc (c_provs rc)))) by (eapply nth_error_In; eauto).
        destruct (In_filter_providers _ _ _ _ Hp) as (b & Gb).
        destruct (inv_index _ _ Hinv) as (I1 & _). apply get_In in Gb.
        destruct (I1 _ _ Gb) as (_ & Go & _). cbn [fst snd] in Go.
        split; [reflexivity|]. split; [reflexivity|]. split; [now rewrite P7|]. split.
        { destruct (c_super rc); [lia|]. pose proof (C07_fee_ge_1 (pricing_of sp (c_svc rc, p)) (time sp)
             (vol_of sp (c_cons rc) (c_svc rc) p)). lia. }
        split; [lia|]. split; [lia|]. split; [unfold has; now rewrite Go|].
        split; [apply has_get; apply In_get in Gb; [eauto|apply Hwf]|].
        intros Hs. now rewrite Hs.
    - intros r x Hin. destruct (R2 _ _ Hin) as (q & G & Hia). exists q. split; [|assumption].
      destruct (issue_all_reqs fee_active sp c rc n 0 provs Hwsp Hfresh) as (_ & _ & Ho). fold s1 in Ho.
      rewrite Ho, P1; [assumption|]. intros Ec. rewrite <- P1 in G. rewrite (Hnoreq r Ec) in G. discriminate.
    - intros c' rcx Gx.
      destruct (issue_all_reqs (active_in c') sp c rc n 0 provs Hwsp Hfresh) as (_ & Hs & _). fold s1 in Hs.
      rewrite Hs, sum_new_active, P1.
      rewrite get_set in Gx. destruct (eqb_spec c' c) as [->|Hnc].
      + injection Gx as <-. rewrite eqb_refl. unfold has. rewrite get_set_eq.
        unfold rc1. cbn [c_bresp c_breq c_bdone setc_bthr setc_breq setc_bresp setc_bdone setc_counter andb negb].
        rewrite Hnexp in B2. cbn [andb] in B2. rewrite B2.
        assert (0 <= len provs) by (unfold len; lia).
        repeat split; try lia; try discriminate.
      + destruct (eqb_spec c c'); [congruence|]. rewrite Z.add_0_r.
        assert (Eh : has c' (set c (height s + c_timeout rc) (expq_h s)) = has c' (expq_h s))
          by (unfold has; now rewrite get_set_neq).
        rewrite Eh. apply (R3 _ _ Gx). }
  destruct (c_super rc).
  - apply Hissue; reflexivity.
  - destruct (transfer (User (c_cons rc)) Escrow (sum_prices el) s) as [x|] eqn:Et.
    + pose proof (transfer_frame _ _ _ _ _ Et) as Hf.
      apply Hissue; sproj; rewrite Hf; reflexivity.
    + exact Hpaused.
Qed.

Lemma I_req_tick s dt :
  I_req s -> I_req (set_time (set_height s (height s + 1)) (time s + dt)).
Proof. intros H. exact H. Qed.

Lemma I_req_init h0 t0 f : I_req (init h0 t0 f).
Proof.
  unfold I_req, init. cbn [reqs resps ctxs]. split; [|split]; intros ? ? Hin; try contradiction.
  discriminate.
Qed.
