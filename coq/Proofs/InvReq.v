(* I_req (properties C12, C16, C08): request and response records belong to the
   current batch of an existing context with a pending expiry; responses only for
   answered requests; batch counts agree with the records. *)
From Coq Require Import List ZArith Bool Lia Permutation.
From SVC Require Import Base.AMap Base.Res Base.Dec Model.Types Model.Pricing
  Model.Handlers Model.EndBlock Model.Step Proofs.Inv Proofs.Lemmas Proofs.ReqLemmas
  Proofs.DecProofs Proofs.PricingProofs Proofs.InvEscrow.
Import ListNotations.
Open Scope Z_scope.

Lemma has_set_mono {K V} `{EqDec K} (k k' : K) (v : V) (m : amap K V) :
  has k' m = true -> has k' (set k v m) = true.
Proof. unfold has. rewrite get_set. destruct (eqb k' k); [reflexivity|auto]. Qed.

Lemma has_get {K V} `{EqDec K} (k : K) (m : amap K V) : has k m = true <-> exists v, get k m = Some v.
Proof. unfold has. destruct (get k m); split; eauto; try discriminate. intros [v E]; discriminate. Qed.

Lemma has_false {K V} `{EqDec K} (k : K) (m : amap K V) : has k m = false <-> get k m = None.
Proof. unfold has. destruct (get k m); split; congruence. Qed.

Lemma I_req_frame s s' :
  reqs s' = reqs s -> resps s' = resps s -> ctxs s' = ctxs s -> expq_h s' = expq_h s ->
  (forall k, has k (owner_of s) = true -> has k (owner_of s') = true) ->
  (forall k, has k (binds s) = true -> has k (binds s') = true) ->
  I_req s -> I_req s'.
Proof.
  intros E1 E2 E3 E4 Ho Hb (R1 & R2 & R3). unfold I_req. rewrite E1, E2, E3, E4.
  split; [|split; assumption].
  intros r q Hin. destruct (R1 r q Hin) as (rc & A1 & A2 & A3 & A4 & A5 & A6 & A7 & A8 & A9).
  exists rc. repeat split; auto; lia.
Qed.

Ltac fin_simple := sproj; repeat split; auto; try (intros; repeat apply has_set_mono; assumption).

(* ops that do not touch contexts, requests or responses *)
Lemma req_msg_simple cfg s o s' :
  handle cfg s o = Ok s' ->
  match o with
  | ODefine _ _ _ | OBind _ _ _ _ _ _ _ | OUpdate _ _ _ _ _ _ _ | ODisable _ _ _ _
  | OEnable _ _ _ _ _ | ORefundDep _ _ _ _ | OSetWd _ _ _ | OWithdraw _ _ _ | OTransfer _ _ _ => True
  | _ => False end ->
  reqs s' = reqs s /\ resps s' = resps s /\ ctxs s' = ctxs s /\ expq_h s' = expq_h s
  /\ (forall k, has k (owner_of s) = true -> has k (owner_of s') = true)
  /\ (forall k, has k (binds s) = true -> has k (binds s') = true).
Proof.
  intros H Hk. destruct o; cbn [handle] in H; cbn in Hk; try contradiction.
  - unfold h_define in H. inv_ok H. destruct (get svc (defs s)); inv_ok H. subst. repeat split; auto.
  - unfold h_bind in H. inv_ok H. sproj.
    apply pay_deposit_inv in Ha2. destruct Ha2 as (s0 & Et & ->).
    pose proof (transfer_frame _ _ _ _ _ Et) as Hf. rewrite Hf in H. sproj.
    destruct (get prov (owner_of s)); inv_ok H; subst; sproj; fin_simple.
  - unfold h_update in H. inv_ok H.
    assert (E : a3 = s \/ exists bk e, a3 = emit e (set_bank s bk)).
    { destruct (coins_empty dep); inv_ok Ha3; [now left|]. right.
      apply pay_deposit_inv in Ha3. destruct Ha3 as (s0 & Et & ->).
      pose proof (transfer_frame _ _ _ _ _ Et) as Hf. rewrite Hf. eauto. }
    destruct (negb (qos =? 0) || negb (coins_empty dep) || match pr with Some _ => true | None => false end).
    + destruct a1 as [[raw p]|]; inv_ok H; subst s';
        destruct E as [->|(bk & e & ->)]; sproj; fin_simple.
    + inv_ok H. subst s'. destruct E as [->|(bk & e & ->)]; sproj; repeat split; auto.
  - unfold h_disable in H. inv_ok H. subst. sproj. fin_simple.
  - unfold h_enable in H. inv_ok H. subst.
    assert (E : a2 = s \/ exists bk e, a2 = emit e (set_bank s bk)).
    { destruct (coins_empty dep); inv_ok Ha2; [now left|]. right.
      apply pay_deposit_inv in Ha2. destruct Ha2 as (s0 & Et & ->).
      pose proof (transfer_frame _ _ _ _ _ Et) as Hf. rewrite Hf. eauto. }
    destruct E as [->|(bk & e & ->)]; sproj; fin_simple.
  - unfold h_refund_deposit in H. inv_ok H. subst.
    pose proof (transfer_frame _ _ _ _ _ Ha0) as Hf. rewrite Hf. sproj. fin_simple.
  - unfold h_set_withdraw in H. inv_ok H. subst. repeat split; auto.
  - unfold h_withdraw in H. inv_ok H. destruct (prov =? 0).
    + inv_ok H. subst. pose proof (transfer_frame _ _ _ _ _ Ha) as Hf. rewrite Hf. sproj. repeat split; auto.
    + inv_ok H. subst. pose proof (transfer_frame _ _ _ _ _ Ha0) as Hf. rewrite Hf. sproj.
      destruct (get0 prov (earned s) =? get0 owner (own_earned s)); [|destruct (_ <? 0)]; inv_ok Ha; subst a;
        sproj; repeat split; auto.
  - unfold h_transfer in H. inv_ok H. pose proof (transfer_frame _ _ _ _ _ H) as Hf. rewrite Hf. sproj.
    repeat split; auto.
Qed.

(* a context record is rewritten without touching its batch bookkeeping *)
Lemma I_req_put_ctx s s' c rc rc' :
  I_req s -> get c (ctxs s) = Some rc ->
  reqs s' = reqs s -> resps s' = resps s -> expq_h s' = expq_h s ->
  owner_of s' = owner_of s -> binds s' = binds s ->
  ctxs s' = set c rc' (ctxs s) ->
  c_counter rc' = c_counter rc -> c_breq rc' = c_breq rc -> c_bresp rc' = c_bresp rc ->
  c_bdone rc' = c_bdone rc -> c_svc rc' = c_svc rc -> c_super rc' = c_super rc ->
  I_req s'.
Proof.
  intros (R1 & R2 & R3) G E1 E2 E3 E4 E5 E6 F1 F2 F3 F4 F5 F6.
  unfold I_req. rewrite E1, E2, E3, E4, E5, E6. split; [|split; [assumption|]].
  - intros r q Hin. destruct (R1 r q Hin) as (rc0 & A1 & A2 & A3 & A4 & A5 & A6 & A7 & A8 & A9).
    rewrite get_set. destruct (eqb_spec (rid_ctx r) c) as [Ec|Hne].
    + rewrite Ec in A1. assert (rc0 = rc) by congruence. subst rc0.
      exists rc'. rewrite F1, F2, F5, F6. repeat split; auto; lia.
    + exists rc0. repeat split; auto; lia.
  - intros c' rc1 G1. rewrite get_set in G1. destruct (eqb_spec c' c) as [->|Hne].
    + injection G1 as <-. rewrite F2, F3, F4. apply (R3 _ _ G).
    + apply (R3 _ _ G1).
Qed.

(* a brand-new context with an idle batch *)
Lemma I_req_new_ctx cfg s s' c rc' :
  Inv cfg s -> get c (ctxs s) = None ->
  reqs s' = reqs s -> resps s' = resps s -> expq_h s' = expq_h s ->
  owner_of s' = owner_of s -> binds s' = binds s ->
  ctxs s' = set c rc' (ctxs s) ->
  c_breq rc' = 0 -> c_bresp rc' = 0 -> c_bdone rc' = true ->
  I_req s'.
Proof.
  intros Hinv G E1 E2 E3 E4 E5 E6 F1 F2 F3.
  destruct (inv_req _ _ Hinv) as (R1 & R2 & R3).
  assert (Hnoexp : get c (expq_h s) = None).
  { destruct (get c (expq_h s)) eqn:Ge; [|reflexivity]. exfalso.
    destruct (inv_sched _ _ Hinv) as (_ & _ & _ & S4 & _).
    assert (Hh : has c (ctxs s) = true) by (apply S4; left; unfold has; now rewrite Ge).
    unfold has in Hh. now rewrite G in Hh. }
  unfold I_req. rewrite E1, E2, E3, E4, E5, E6. split; [|split; [assumption|]].
  - intros r q Hin. destruct (R1 r q Hin) as (rc0 & A1 & A).
    exists rc0. split; [|exact A]. rewrite get_set_neq; [assumption|]. intros Ec. rewrite Ec in A1. congruence.
  - intros c' rc1 G1. rewrite get_set in G1. destruct (eqb_spec c' c) as [->|Hne].
    + injection G1 as <-. rewrite F1, F2, F3. unfold has. rewrite Hnoexp. cbn [andb].
      split; [lia|]. split; [|split; [discriminate|reflexivity]].
      apply msum_zero. intros r q Hin. destruct (R1 r q Hin) as (rc0 & A1 & _).
      unfold active_in. destruct (eqb_spec (rid_ctx r) c) as [Ec|]; [|reflexivity].
      rewrite Ec in A1. congruence.
    + apply (R3 _ _ G1).
Qed.

Lemma fresh_no_ctx cfg s c : Inv cfg s -> ctx_fresh s c -> get c (ctxs s) = None.
Proof.
  intros Hinv Hf. destruct (get c (ctxs s)) as [rc|] eqn:G; [|reflexivity].
  exfalso. apply Hf. destruct (inv_ctx _ _ Hinv c rc G) as (_ & _ & _ & _ & _ & _ & _ & _ & Hlog). exact Hlog.
Qed.

Lemma authorized_inv s c who rc :
  authorized s c who = Ok rc -> get c (ctxs s) = Some rc /\ c_cons rc = who /\ c_mod rc = 0.
Proof. unfold authorized. intros H. inv_ok H. subst. b2p. auto. Qed.

Ltac auth_inv :=
  match goal with H : authorized _ _ _ = Ok _ |- _ =>
    apply authorized_inv in H; destruct H as (? & ? & ?) end.

Ltac put_ctx_tac :=
  match goal with
  | G : get ?c (ctxs ?s) = Some ?rc, HR : I_req ?s |- I_req _ =>
      eapply (I_req_put_ctx s _ c rc _ HR G); try reflexivity
  end.

Lemma I_req_ctx_ops cfg s o s' :
  wf_cfg cfg -> Inv cfg s -> wf_op s o -> handle cfg s o = Ok s' ->
  match o with
  | OCall _ _ _ _ _ _ _ _ _ _ _ _ _ | OModCall _ _ _ _ _ _ _ _ _ _ _ _ _ _
  | OPause _ _ _ | OStart _ _ _ | OKill _ _ _ | OUpdateCtx _ _ _ _ _ _ _ _ => True
  | _ => False end ->
  I_req s'.
Proof.
  intros Hcfg Hinv Hop H Hk. pose proof (inv_req _ _ Hinv) as HR.
  destruct o; cbn [handle] in H; cbn in Hk; try contradiction; cbn [wf_op] in Hop.
  - unfold h_call, create_context in H. inv_ok H. subst s'. destruct Hop as (Hfr & _).
    eapply (I_req_new_ctx cfg s); try reflexivity; eauto using fresh_no_ctx.
  - unfold create_context in H. inv_ok H. subst s'. destruct Hop as (Hfr & _).
    eapply (I_req_new_ctx cfg s); try reflexivity; eauto using fresh_no_ctx.
  - unfold h_pause in H. inv_ok H. auth_inv. subst s'.
    put_ctx_tac.
  - unfold h_start in H. inv_ok H. auth_inv.
    cbv zeta in H.
    match type of H with (if ?b then _ else _) = _ => destruct b end; inv_ok H; subst s';
      put_ctx_tac.
  - unfold h_kill in H. inv_ok H. auth_inv. subst s'.
    put_ctx_tac.
  - unfold h_update_ctx in H. inv_ok H. auth_inv. subst s'.
    match goal with Hx : (if coins_empty cap then _ else _) = Ok ?rc1 |- _ =>
      assert (Hrc1 : c_counter rc1 = c_counter a /\ c_breq rc1 = c_breq a /\ c_bresp rc1 = c_bresp a
                     /\ c_bdone rc1 = c_bdone a /\ c_svc rc1 = c_svc a /\ c_super rc1 = c_super a)
        by (destruct (coins_empty cap); inv_ok Hx; subst; repeat split);
      destruct Hrc1 as (U1 & U2 & U3 & U4 & U5 & U6) end.
    put_ctx_tac.
    all: repeat match goal with |- context [if ?b then _ else _] => destruct b end;
         try destruct provs; cbn; assumption.
Qed.
