(* The state-invariant theorems of the property files, for histories WITH governance
   parameter changes (Proofs/ParamChange.v, ReachP): operations under the parameters in
   force, interleaved with changes to a well-formed parameter set that does not raise the
   minimum-deposit terms nor lower the maximum request timeout (tax, slash fraction,
   arbitration and complaint periods change freely).

   Every conclusion below is literally the conclusion of the corresponding theorem stated for
   `Reach cfg s` (fixed parameters); the premise `wf_cfg cfg -> Reach cfg s` is replaced by
   `ReachP cfg s` (which carries wf_cfg of the parameters in force: ReachP_wf_cfg).

   Two kinds of proof:
   * from ReachP_Inv and the lemma that derives the conclusion from `Inv cfg s`;
   * for the facts that rest on an extra invariant proved by its own induction over Reach
     (I_cnt, I_started, PR, PV, I_dtime, I_qos), the induction is redone over ReachP with the
     SAME per-handler lemmas (ReachP_ind_inv below); a parameter change does not touch the
     state, so a parameter-free extra invariant is kept trivially, and I_qos (the only one that
     mentions a parameter: qos <= max timeout) is kept because the maximum timeout only grows.

   Trace theorems (about `log s`) are not touched here. *)
From Coq Require Import List ZArith Bool Lia Permutation.
From SVC Require Import Base.AMap Base.Res Base.Dec Model.Types Model.Pricing
  Model.Handlers Model.EndBlock Model.Step Model.ParamStep Proofs.Inv Proofs.Lemmas Proofs.ReqLemmas
  Proofs.CtxOps Proofs.InvSched Proofs.InvEscrow Proofs.InvReq Proofs.InvAll Proofs.InvCount
  Proofs.StepSpecs_ctx Proofs.StepSpecs_window Proofs.TraceBase Proofs.TraceBatch
  Proofs.C10Proofs Proofs.C12Proofs Proofs.C16Proofs Proofs.GapDBase
  Proofs.GapC03b Proofs.GapC15 Proofs.GapC16 Proofs.GapC18Trace Proofs.ParamChange.
Import ListNotations.
Open Scope Z_scope.

(* ------------------------------------------------------------------ *)
(* induction over ReachP for an extra, parameter-free invariant P: the same five obligations
   as TraceBase.Reach_ind_inv, for every well-formed parameter set *)

Section ReachPInd.
  Variable P : State -> Prop.
  Hypothesis P_init : forall h0 t0 f, 1 <= h0 -> 0 <= t0 -> wf_funding f -> P (init h0 t0 f).
  Hypothesis P_msg : forall cfg s o s', wf_cfg cfg -> Inv cfg s -> P s -> wf_op s o ->
    (forall dt, o <> OEndBlock dt) -> handle cfg s o = Ok s' -> P s'.
  Hypothesis P_expire_one : forall cfg s c, wf_cfg cfg -> Inv cfg s -> P s ->
    In (height s, c) (expq s) -> height s < HEIGHT_BOUND -> P (expire_one cfg s c).
  Hypothesis P_new_one : forall cfg s c, wf_cfg cfg -> Inv cfg s -> P s ->
    In (height s, c) (newq s) -> height s < HEIGHT_BOUND -> P (new_one cfg s c).
  Hypothesis P_tick : forall cfg s dt, wf_cfg cfg -> Inv cfg s -> P s -> 0 <= dt ->
    (forall c h, get c (expq_h s) = Some h -> height s < h) ->
    (forall c h, get c (newq_h s) = Some h -> height s < h) ->
    P (tick s dt).

  Lemma step_P cfg s o :
    wf_cfg cfg -> Inv cfg s -> P s -> wf_op s o -> P (fst (step cfg s o)).
  Proof.
    intros Hcfg Hi Hp Ho.
    unfold step. destruct (handle cfg s o) as [s'| |] eqn:E; cbn [fst]; try assumption.
    destruct o; try (eapply P_msg; [exact Hcfg|exact Hi|exact Hp|exact Ho|discriminate|exact E]).
    cbn [handle] in E. injection E as <-. cbn [wf_op] in Ho. destruct Ho as [Hdt Hb].
    apply (end_block_P cfg P Hcfg); try assumption.
    - intros s0 c. now apply P_expire_one.
    - intros s0 c. now apply P_new_one.
    - intros s0 dt0. now apply P_tick.
  Qed.

  Theorem ReachP_ind_inv cfg s : ReachP cfg s -> P s.
  Proof.
    induction 1 as [cfg h0 t0 f Hc H1 H2 H3|cfg s o H IH Ho|cfg cfg' s H IH Hc Hr].
    - now apply P_init.
    - apply step_P; [exact (ReachP_wf_cfg _ _ H)|exact (ReachP_Inv _ _ H)|exact IH|exact Ho].
    - exact IH.
  Qed.
End ReachPInd.

(* the extra invariants *)

Theorem ReachP_I_cnt cfg s : ReachP cfg s -> I_cnt s.
Proof.
  apply (ReachP_ind_inv I_cnt).
  - intros. apply I_cnt_init.
  - intros. eapply I_cnt_msg; eauto.
  - intros. now apply I_cnt_expire_one.
  - intros. now apply I_cnt_new_one.
  - intros. now apply I_cnt_tick.
Qed.

Theorem ReachP_I_started cfg s : ReachP cfg s -> I_started s.
Proof.
  apply (ReachP_ind_inv I_started).
  - intros h0 t0 f _ _ _ c rc G. discriminate.
  - intros. eapply I_started_msg; eauto.
  - intros. now apply I_started_expire_one.
  - intros. now apply I_started_new_one.
  - intros cfg0 s0 dt _ _ H _ _ _. exact H.
Qed.

Theorem ReachP_PR cfg s : ReachP cfg s -> PR s.
Proof.
  apply (ReachP_ind_inv PR).
  - intros h0 t0 f _ _ _. split; [intros c rc G; discriminate|intros r q G; discriminate].
  - intros cfg0 s0 o s' Hcfg HI HP Hwf Hne H. eapply PR_msg; eauto.
  - intros cfg0 s0 c Hcfg HI HP Hd Hb. now apply PR_expire_one.
  - intros cfg0 s0 c Hcfg HI HP Hd Hb. now apply PR_new_one.
  - intros cfg0 s0 dt _ _ HP _ _ _. now apply PR_tick.
Qed.

Theorem ReachP_PV cfg s : ReachP cfg s -> PV s.
Proof.
  apply (ReachP_ind_inv PV).
  - intros h0 t0 f _ _ _ c rc G. discriminate.
  - intros cfg0 s0 o s' Hcfg HI HP Hwf Hne H. eapply PV_msg; eauto.
  - intros cfg0 s0 c Hcfg HI HP Hd Hb. now apply PV_expire_one.
  - intros cfg0 s0 c Hcfg HI HP Hd Hb. now apply PV_new_one.
  - intros cfg0 s0 dt _ _ HP _ _ _. exact HP.
Qed.

(* an unavailable binding carries a real disabling time: the step case of
   GapC03b.unavailable_has_dtime, under the parameters in force at that step *)
Theorem ReachP_I_dtime cfg s : ReachP cfg s -> I_dtime s.
Proof.
  induction 1 as [cfg h0 t0 f Hc H1 H2 H3|cfg s o HR IH Ho|cfg cfg' s HR IH Hc Hr].
  - intros k b G. discriminate G.
  - pose proof (ReachP_Inv cfg s HR) as HI. destruct (inv_time _ _ HI) as (_ & Ht).
    unfold step. destruct (handle cfg s o) as [s'| |] eqn:E; cbn [fst]; try assumption.
    intros k b' G' Hav. destruct (get k (binds s)) as [b|] eqn:G.
    + destruct (dtime_rule cfg s o s' k b b' E G G') as (R1 & R2 & R3).
      destruct (b_avail b) eqn:Eb.
      * destruct (R1 eq_refl Hav) as (-> & _). exact Ht.
      * rewrite R3 by congruence. now apply (IH k b).
    + destruct (new_binding_available cfg s o s' k b' E G G') as (A & _). congruence.
  - exact IH.
Qed.

(* the promised response time of a stored binding is at most the maximum timeout IN FORCE:
   kept by a relaxing change because the maximum timeout does not shrink *)
Theorem ReachP_I_qos cfg s : ReachP cfg s -> I_qos cfg s.
Proof.
  induction 1 as [cfg h0 t0 f Hc H1 H2 H3|cfg s o HR IH Ho|cfg cfg' s HR IH Hc Hr].
  - intros k b G. discriminate.
  - now apply I_qos_step.
  - destruct Hr as (Ht & _). intros k b G. pose proof (IH k b G). lia.
Qed.

(* ------------------------------------------------------------------ *)
(* the statements *)

Section ReachableP.
Variable cfg : Params.
Variable s : State.
Hypothesis HreachP : ReachP cfg s.

Let Hinv : Inv cfg s := ReachP_Inv cfg s HreachP.
Let Hcfg : wf_cfg cfg := ReachP_wf_cfg cfg s HreachP.

(* ---- C03 ---- *)
Theorem deposit_backed_P :
  bal s Deposit = msum dep_of (binds s)
  /\ (forall k b, get k (binds s) = Some b -> 0 <= b_deposit b)
  /\ (forall a, 0 <= bal s a)
  /\ supply s = msum vid (bank s).
Proof.
  destruct (inv_deposit _ _ Hinv) as (D1 & D2). destruct (inv_bank _ _ Hinv) as (B1 & B2).
  split; [assumption|]. split; [intros k b G; apply (D2 k), get_In, G|].
  split; [intros a; apply get0_nonneg; exact B1|assumption].
Qed.

Theorem unavailable_has_dtime_P :
  forall k b, get k (binds s) = Some b -> b_avail b = false -> 0 <= b_dtime b.
Proof. exact (ReachP_I_dtime cfg s HreachP). Qed.

Theorem refund_time_real_P svc prov b :
  get (svc, prov) (binds s) = Some b -> b_avail b = false ->
  b_dtime b <> TIME0 /\ 0 <= b_dtime b + p_arb cfg + p_compl cfg.
Proof.
  intros G Hav. pose proof (unavailable_has_dtime_P _ _ G Hav) as H.
  destruct Hcfg as (_ & _ & _ & _ & _ & Ha & Hc & _). unfold TIME0. lia.
Qed.

(* ---- C08 ---- *)
Theorem accept_P r q code out out_valid :
  get r (reqs s) = Some q -> r_active q = true ->
  exists s', handle cfg s (ORespond r (r_prov q) code out out_valid true) = Ok s'.
Proof. intros G Ha. exact (C08_accept cfg s r q code out out_valid Hcfg Hinv G Ha). Qed.

Theorem window_inv_P r q :
  get r (reqs s) = Some q ->
  height s <= r_exp q /\ rid_height r < r_exp q /\ In (r_exp q, rid_ctx r) (expq s).
Proof. intros G. exact (C08_window_inv cfg s r q Hinv G). Qed.

(* ---- C09 / C10 ---- *)
Theorem context_shape_P c rc :
  get c (ctxs s) = Some rc ->
    1 <= c_timeout rc <= p_max_timeout cfg
    /\ 0 <= c_counter rc
    /\ (c_rep rc = true -> c_timeout rc <= c_freq rc)
    /\ (c_rep rc = true -> 0 < c_total rc -> c_counter rc <= c_total rc)
    /\ (c_rep rc = false ->
          (c_counter rc = 0 /\ has c (expq_h s) = false)
          \/ (c_counter rc = 1 /\ c_state rc = Running /\ has c (expq_h s) = true))
    /\ (c_mod rc = 0 \/ c_mod rc = p_cbmod cfg)
    /\ 0 < c_cap rc.
Proof.
  intros G. destruct (inv_ctx _ _ Hinv c rc G) as (A1 & A2 & _ & A4 & A5 & A6 & A7 & A8 & _).
  repeat split; auto; lia.
Qed.

Theorem oneshot_le_1_P c rc :
  get c (ctxs s) = Some rc -> c_rep rc = false ->
  (c_counter rc = 0 /\ has c (expq_h s) = false)
  \/ (c_counter rc = 1 /\ c_state rc = Running /\ has c (expq_h s) = true).
Proof. exact (C10_oneshot cfg s c rc Hinv). Qed.

Theorem total_bound_P c rc :
  get c (ctxs s) = Some rc ->
  c_rep rc = true -> 0 < c_total rc -> 0 <= c_counter rc <= c_total rc.
Proof. exact (C10_total_bound cfg s c rc Hinv). Qed.

Theorem first_batch_inv_P c rc :
  get c (ctxs s) = Some rc -> c_counter rc = 0 ->
  get c (expq_h s) = None
  /\ (c_state rc = Running ->
        exists h, get c (newq_h s) = Some h /\ In (h, c) (newq s) /\ height s <= h).
Proof.
  intros G Hc.
  pose proof (ReachP_I_started cfg s HreachP c rc G) as Hs.
  assert (He : get c (expq_h s) = None).
  { destruct (get c (expq_h s)) eqn:E; [|reflexivity].
    assert (1 <= c_counter rc) by (apply Hs; unfold has; now rewrite E). lia. }
  split; [exact He|]. intros Hrun.
  destruct (inv_sched _ _ Hinv) as (_ & S2 & _ & _ & _ & S6 & S7).
  destruct (S7 _ _ G Hrun) as [Hx|Hx]; [unfold has in Hx; rewrite He in Hx; discriminate|].
  unfold has in Hx. destruct (get c (newq_h s)) as [h|] eqn:En; [|discriminate].
  exists h. split; [reflexivity|]. split; [now apply S2|]. eapply S6; eauto.
Qed.

(* ---- C11 ---- *)
Theorem sched_consistent_P :
  (forall h c, In (h, c) (expq s) <-> get c (expq_h s) = Some h)
  /\ (forall h c, In (h, c) (newq s) <-> get c (newq_h s) = Some h)
  /\ (forall c, has c (expq_h s) = true -> has c (newq_h s) = true -> False)
  /\ (forall c, has c (expq_h s) = true \/ has c (newq_h s) = true -> has c (ctxs s) = true)
  /\ (forall c h, get c (expq_h s) = Some h -> height s <= h)
  /\ (forall c h, get c (newq_h s) = Some h -> height s <= h)
  /\ (forall c rc, get c (ctxs s) = Some rc -> c_state rc = Running ->
        has c (expq_h s) = true \/ has c (newq_h s) = true).
Proof. exact (inv_sched _ _ Hinv). Qed.

Theorem pending_request_scheduled_P r q :
  get r (reqs s) = Some q ->
  exists rc, get (rid_ctx r) (ctxs s) = Some rc
    /\ rid_batch r = c_counter rc
    /\ get (rid_ctx r) (expq_h s) = Some (r_exp q)
    /\ In (r_exp q, rid_ctx r) (expq s)
    /\ height s <= r_exp q.
Proof.
  intros G. apply get_In in G. destruct (inv_req _ _ Hinv) as (R1 & _).
  destruct (R1 _ _ G) as (rc & A1 & A2 & A3 & _). exists rc.
  destruct (inv_sched _ _ Hinv) as (S1 & _ & _ & _ & S5 & _).
  split; [assumption|]. split; [assumption|]. split; [assumption|].
  split; [now apply S1|]. now apply (S5 (rid_ctx r)).
Qed.

Theorem sched_nodup_P : NoDup (expq s) /\ NoDup (newq s).
Proof. pose proof (inv_wf _ _ Hinv) as W. split; apply W. Qed.

Theorem unfinished_batch_has_expiry_P c rc :
  get c (ctxs s) = Some rc -> c_bdone rc = false ->
  exists h, get c (expq_h s) = Some h /\ In (h, c) (expq s) /\ height s <= h
    /\ get c (newq_h s) = None.
Proof.
  intros G Hd.
  destruct (inv_req _ _ Hinv) as (_ & _ & R3). destruct (R3 c rc G) as (_ & _ & _ & R4).
  destruct (inv_sched _ _ Hinv) as (S1 & _ & S3 & _ & S5 & _).
  destruct (get c (expq_h s)) as [h|] eqn:Ge.
  - exists h. split; [reflexivity|]. split; [now apply S1|]. split; [now apply (S5 c)|].
    destruct (get c (newq_h s)) as [h'|] eqn:Gn; [exfalso|reflexivity].
    apply (S3 c); unfold has; [now rewrite Ge|now rewrite Gn].
  - exfalso. assert (Hh : has c (expq_h s) = false) by (unfold has; now rewrite Ge).
    rewrite (R4 Hh) in Hd. discriminate.
Qed.

(* ---- C12 ---- *)
Theorem counts_P c rc :
  get c (ctxs s) = Some rc ->
  0 <= c_bresp rc <= c_breq rc
  /\ (has c (expq_h s) = true ->
        len (batch_rids s c (c_counter rc)) = c_breq rc
        /\ len (filter (in_batch c (c_counter rc)) (keys (resps s))) = c_bresp rc
        /\ len (active_rids s c (c_counter rc)) = c_breq rc - c_bresp rc)
  /\ (has c (expq_h s) = false ->
        c_bdone rc = true
        /\ forall r, rid_ctx r = c -> get r (reqs s) = None /\ get r (resps s) = None).
Proof.
  intros Grc. pose proof Hinv as HI.
  pose proof (ReachP_I_cnt cfg s HreachP) as Hc.
  destruct (inv_req _ _ HI) as (R1 & R2 & R3).
  destruct (R3 _ _ Grc) as (B1 & B2 & B3 & B4).
  split; [exact B1|]. split.
  - intros He. destruct (Hc _ _ Grc He) as (A1 & A2).
    assert (Hb : forall r q, In (r, q) (reqs s) ->
              in_batch c (c_counter rc) r = eqb (rid_ctx r) c).
    { intros r q Hin. unfold in_batch. destruct (eqb_spec (rid_ctx r) c) as [E|]; [|reflexivity].
      destruct (R1 _ _ Hin) as (rc' & G & Eb & _). rewrite E in G.
      assert (rc' = rc) by congruence. subst rc'. rewrite Eb. cbn [andb]. apply Z.eqb_refl. }
    split; [|split].
    + unfold batch_rids. rewrite len_isort, len_filter_keys, <- A1.
      apply msum_ext. intros r q Hin. unfold of_ctx. now rewrite (Hb r q Hin).
    + rewrite len_filter_keys, <- A2.
      apply msum_ext. intros r x Hin. unfold of_ctx.
      destruct (R2 _ _ Hin) as (q & Gq & _). apply get_In in Gq. now rewrite (Hb r q Gq).
    + unfold active_rids. rewrite len_isort, len_filter_pairs.
      assert (E : msum (fun k v => if in_batch c (c_counter rc) (fst (k, v)) && r_active (snd (k, v))
                                   then 1 else 0) (reqs s) = msum (active_in c) (reqs s)).
      { apply msum_ext. intros r q Hin. cbn [fst snd]. unfold active_in. now rewrite (Hb r q Hin). }
      rewrite E, B2, He. cbn [andb]. destruct (c_bdone rc) eqn:Ed; cbn [negb]; [|reflexivity].
      destruct (B3 He eq_refl). lia.
  - intros He. split; [now apply B4|]. intros r Ec.
    destruct (Inv_no_orphans _ _ HI) as (_ & _ & N3 & _). apply (N3 c r); [|exact Ec].
    now apply has_false.
Qed.

(* C12 / C16: the record-shape conjuncts of inv_req *)
Theorem request_records_sound_P :
  (forall r q, get r (reqs s) = Some q ->
     exists rc, get (rid_ctx r) (ctxs s) = Some rc
       /\ rid_batch r = c_counter rc
       /\ get (rid_ctx r) (expq_h s) = Some (r_exp q)
       /\ 0 <= r_fee q /\ 0 <= rid_index r < c_breq rc /\ rid_height r < r_exp q
       /\ has (r_prov q) (owner_of s) = true
       /\ has (c_svc rc, r_prov q) (binds s) = true
       /\ (c_super rc = true -> r_fee q = 0))
  /\ (forall r x, get r (resps s) = Some x ->
        exists q, get r (reqs s) = Some q /\ r_active q = false)
  /\ (forall c rc, get c (ctxs s) = Some rc ->
        0 <= c_bresp rc <= c_breq rc
        /\ msum (active_in c) (reqs s)
           = (if has c (expq_h s) && negb (c_bdone rc) then c_breq rc - c_bresp rc else 0)
        /\ (has c (expq_h s) = true -> c_bdone rc = true -> 1 <= c_breq rc /\ c_bresp rc = c_breq rc)
        /\ (has c (expq_h s) = false -> c_bdone rc = true)).
Proof.
  destruct (inv_req _ _ Hinv) as (R1 & R2 & R3).
  split; [intros r q G; apply R1, get_In, G|]. split; [intros r x G; apply (R2 r x), get_In, G|assumption].
Qed.

(* ---- C13 ---- *)
Theorem owner_earnings_sum_P :
  (forall p e, get p (earned s) = Some e -> 0 < e /\ exists o, get p (owner_of s) = Some o)
  /\ (forall o e, get o (own_earned s) = Some e -> 0 < e)
  /\ (forall o, get0 o (own_earned s) = msum (owned_by s o) (earned s)).
Proof.
  destruct (inv_earn _ _ Hinv) as (E1 & E2 & E3).
  split; [intros p e G; apply E1, get_In, G|]. split; [intros o e G; apply (E2 o), get_In, G|assumption].
Qed.

(* ---- C15 ---- *)
Theorem index_consistent_P :
  (forall k b, get k (binds s) = Some b ->
     has (fst k) (defs s) = true
     /\ get (snd k) (owner_of s) = Some (b_owner b)
     /\ In (b_owner b, fst k, snd k) (own_bind s)
     /\ get k (pricing s) = Some (parse_pricing (b_raw b))
     /\ validate_pricing (parse_pricing (b_raw b)) = true
     /\ schema_pricing (parse_pricing (b_raw b)) = true)
  /\ (forall o svc p, In (o, svc, p) (own_bind s) <->
        exists b, get (svc, p) (binds s) = Some b /\ b_owner b = o)
  /\ (forall o p, In (o, p) (own_prov s) <-> get p (owner_of s) = Some o)
  /\ (forall k, has k (pricing s) = true -> has k (binds s) = true)
  /\ NoDup (own_bind s) /\ NoDup (own_prov s).
Proof.
  destruct (inv_index _ _ Hinv) as (I1 & I2 & I3 & I4).
  pose proof (inv_wf _ _ Hinv) as W.
  split.
  { intros k b G. destruct (I1 _ _ (get_In _ _ _ G)) as (A1 & A2 & A3 & A4 & A5 & A6 & _). repeat split; assumption. }
  split.
  { intros o svc p. split; [apply I2|]. intros (b & G & <-).
    destruct (I1 _ _ (get_In _ _ _ G)) as (_ & _ & A3 & _). exact A3. }
  split; [assumption|]. split; [assumption|]. split; apply W.
Qed.

Theorem valid_P k b : get k (binds s) = Some b ->
  has (fst k) (defs s) = true
  /\ get (snd k) (owner_of s) = Some (b_owner b)
  /\ get k (pricing s) = Some (parse_pricing (b_raw b))
  /\ validate_pricing (parse_pricing (b_raw b)) = true
  /\ schema_pricing (parse_pricing (b_raw b)) = true
  /\ 0 <= b_deposit b
  /\ b_qos b <= p_max_timeout cfg
  /\ (b_avail b = true ->
        pr_price (parse_pricing (b_raw b)) * p_multiple cfg < INT_LIMIT
        /\ Z.max (pr_price (parse_pricing (b_raw b)) * p_multiple cfg) (p_min_deposit cfg) <= b_deposit b).
Proof.
  intros G. pose proof Hinv as HI. pose proof (get_In _ _ _ G) as Hin.
  destruct (inv_index _ _ HI) as (I1 & _). destruct (I1 _ _ Hin) as (A1 & A2 & _ & A4 & A5 & A6 & A7).
  destruct (inv_deposit _ _ HI) as (_ & D2).
  split; [exact A1|]. split; [exact A2|]. split; [exact A4|]. split; [exact A5|]. split; [exact A6|].
  split; [exact (D2 _ _ Hin)|]. split; [exact (ReachP_I_qos cfg s HreachP k b G)|].
  intros Ha. split; [exact (A7 Ha)|].
  pose proof (inv_min _ _ HI k b Hin Ha) as Hm. unfold min_dep_val, pricing_of in Hm.
  now rewrite A4 in Hm.
Qed.

(* ---- C16 ---- *)
Theorem no_orphans_P : no_orphans s.
Proof. exact (Inv_no_orphans cfg s Hinv). Qed.

Theorem no_orphans_inside_end_block_P :
  height s < HEIGHT_BOUND ->
  (forall k, no_orphans (fold_left (expire_one cfg) (firstn k (due (expq s) (height s))) s))
  /\ (let sx := fold_left (expire_one cfg) (due (expq s) (height s)) s in
      forall k, no_orphans (fold_left (new_one cfg) (firstn k (due (newq sx) (height sx))) sx)).
Proof.
  intros Hb. pose proof Hinv as Hi. split.
  - intros k. eapply Inv_no_orphans. now apply Inv_inside_end_block.
  - cbv zeta. intros k.
    destruct (mid_facts cfg Hcfg s Hi Hb) as (I1 & H1). unfold mid_state in *.
    set (sx := fold_left (expire_one cfg) (due (expq s) (height s)) s) in *.
    set (l := firstn k (due (newq sx) (height sx))).
    assert (Hn : NoDup l) by (apply NoDup_firstn, NoDup_due; apply (inv_wf _ _ I1)).
    assert (Hl : forall c, In c l -> In (height sx, c) (newq sx)).
    { intros c Hc. apply In_due. eapply In_firstn; eauto. }
    assert (Hbx : height sx < HEIGHT_BOUND) by now rewrite H1.
    eapply Inv_no_orphans. exact (proj1 (fold_new_phase cfg l sx Hcfg I1 Hbx Hn Hl)).
Qed.

(* ---- C18: ranges of the request identifier ---- *)
Theorem rid_ranges_P r q :
  get r (reqs s) = Some q ->
  1 <= rid_batch r <= rid_height r
  /\ 1 <= rid_height r <= height s /\ rid_height r < HEIGHT_BOUND
  /\ 0 <= rid_index r < 10
  /\ exists rc, get (rid_ctx r) (ctxs s) = Some rc
       /\ rid_batch r = c_counter rc /\ 0 <= rid_index r < c_breq rc /\ c_breq rc <= 10.
Proof.
  intros G. pose proof Hinv as HI.
  destruct (ReachP_PR cfg s HreachP) as (_ & HR). destruct (HR r q G) as (A & B & C).
  destruct (inv_req _ _ HI) as (R1 & _).
  destruct (R1 _ _ (get_In _ _ _ G)) as (rc & Grc & Eb & _ & _ & Hi & _).
  destruct (ReachP_PV cfg s HreachP _ _ Grc) as (_ & Hq).
  split; [exact A|]. split; [lia|]. split; [exact C|]. split; [lia|].
  exists rc. auto.
Qed.

Theorem counter_le_height_P c rc :
  get c (ctxs s) = Some rc -> 0 <= c_counter rc <= height s.
Proof.
  intros G. pose proof Hinv as HI.
  destruct (ReachP_PR cfg s HreachP) as (HC & _).
  split; [eapply counter_nonneg; eauto|]. destruct (HC c rc G) as [H|(H & _)]; lia.
Qed.

End ReachableP.

(* ---- C18: consequences for the byte identifiers and the store order ---- *)
From SVC Require Import Base.Bytes gen.KeysGen Model.Ids Proofs.GapC18 Proofs.GapC18Order.

Theorem rid_ok_P cfg s r q :
  ReachP cfg s -> get r (reqs s) = Some q -> cid_ok (rid_ctx r) -> rid_ok r.
Proof.
  intros Hr G Hc.
  destruct (rid_ranges_P cfg s Hr r q G) as (A & B & C & D & _).
  unfold rid_ok, is_int64, is_int16. unfold HEIGHT_BOUND in C.
  change (2 ^ 64) with 18446744073709551616. change (2 ^ 63) with 9223372036854775808.
  change (2 ^ 15) with 32768.
  split; [exact Hc|]. repeat split; lia.
Qed.

Theorem nn_rid_P cfg s r q :
  ReachP cfg s -> get r (reqs s) = Some q -> nn_cid (rid_ctx r) -> nn_rid r.
Proof.
  intros Hr G Hc.
  destruct (rid_ranges_P cfg s Hr r q G) as (A & B & C & D & _).
  unfold nn_rid. unfold HEIGHT_BOUND in C.
  change (2 ^ 64) with 18446744073709551616. change (2 ^ 63) with 9223372036854775808.
  change (2 ^ 15) with 32768.
  split; [exact Hc|]. repeat split; lia.
Qed.

Theorem enc_rid_inj_P cfg s (hb : Z -> bytes) r q r' q' :
  (forall a, hash_ok a -> length (hb a) = 32%nat) ->
  (forall a b, hash_ok a -> hash_ok b -> hb a = hb b -> a = b) ->
  ReachP cfg s -> get r (reqs s) = Some q -> get r' (reqs s) = Some q' ->
  cid_ok (rid_ctx r) -> cid_ok (rid_ctx r') ->
  GetRequestKey (enc_rid hb r) = GetRequestKey (enc_rid hb r') -> r = r'.
Proof.
  intros Hl Hi Hr G G' Hc Hc' E.
  apply (enc_rid_key_inj hb Hl Hi); eauto using rid_ok_P.
Qed.

Theorem request_order_P cfg s (hb : Z -> bytes) r q r' q' :
  (forall a, hash_ok a -> length (hb a) = 32%nat) ->
  (forall a b, hash_ok a -> hash_ok b -> a < b -> blt (hb a) (hb b)) ->
  ReachP cfg s -> get r (reqs s) = Some q -> get r' (reqs s) = Some q' ->
  nn_cid (rid_ctx r) -> nn_cid (rid_ctx r') ->
  (rid_leb r r' = true <-> ble (GetRequestKey (enc_rid hb r)) (GetRequestKey (enc_rid hb r'))).
Proof.
  intros Hl Hm Hr G G' Hc Hc'.
  apply (K_order_request hb Hl Hm); eauto using nn_rid_P.
Qed.
