(* Repair D11: under I_wd a stored withdrawal address denotes an ordinary account, so the
   destination account of h_withdraw is `User dest`. *)
From Coq Require Import List ZArith Bool Lia.
From SVC Require Import Base.AMap Base.Res Base.Dec Model.Types Model.Pricing Model.Handlers Model.EndBlock Model.Step Proofs.Inv Proofs.Lemmas.
Import ListNotations.
Open Scope Z_scope.

Lemma withdraw_dacct s owner : I_wd s ->
  match get owner (wdaddr s) with Some a => acct_of a | None => User owner end
  = User (match get owner (wdaddr s) with Some a => a | None => owner end).
Proof.
  intros Hwd. destruct (get owner (wdaddr s)) as [a|] eqn:G; [|reflexivity].
  apply acct_of_unblocked. apply (Hwd owner a). exact G.
Qed.

Lemma I_wd_frame s s' : wdaddr s' = wdaddr s -> I_wd s -> I_wd s'.
Proof. unfold I_wd. intros E H. rewrite E. exact H. Qed.
