(* A further facet of known finding K1 (Int overflow in getMinDeposit): the pricing of a
   DISABLED binding can be updated to a price whose minimum deposit exceeds 255 bits
   (update-binding consults getMinDeposit only for an available binding); the overflow
   then surfaces as a panic in MsgEnableServiceBinding.  Witness by computation. *)
From Coq Require Import List ZArith Bool Lia.
From SVC Require Import Base.AMap Base.Res Base.Dec Model.Types Model.Pricing
  Model.Handlers Model.EndBlock Model.Step Proofs.Inv Proofs.ReachRun.
Import ListNotations.
Open Scope Z_scope.

Definition k1_cfg : Params := mkParams 100 1000 1000 (ONE / 20) (ONE / 1000) 10 10 77 99.
Definition k1_ops : list Op :=
  [ ODefine 1 5 true;
    OBind 1 7 (CBase 5000) (Some (mkRaw (2 * ONE) [] [])) 10 42 true;
    ODisable 1 7 42 true;
    OUpdate 1 7 CEmpty (Some (Some (mkRaw (2 ^ 250 * ONE) [] []))) 0 42 true ].
Definition k1_s : State := run k1_cfg (init 1 0 [(42, 100000)]) k1_ops.

Lemma k1_cfg_wf : wf_cfg k1_cfg.
Proof. unfold wf_cfg. repeat match goal with |- _ /\ _ => split end; zc. Qed.

Lemma k1_reach : Reach k1_cfg k1_s.
Proof.
  apply reach_init_run; [lia|lia|wf_funding_tac|]. unfold k1_ops. wf_run_tac.
Qed.

(* all four messages of the history succeed *)
Lemma k1_all_ok :
  map (fun n => snd (step k1_cfg (run k1_cfg (init 1 0 [(42, 100000)]) (firstn n k1_ops))
                       (nth n k1_ops (OEndBlock 0)))) (seq 0 4) = repeat ROk 4.
Proof. vm_compute. reflexivity. Qed.

(* "a reachable state never makes a valid MsgEnableServiceBinding panic" is refuted *)
Theorem K1_enable_panics_refuted :
  exists cfg s svc prov owner,
    wf_cfg cfg /\ Reach cfg s
    /\ handle cfg s (OEnable svc prov CEmpty owner true) = Panic.
Proof.
  exists k1_cfg, k1_s, 1, 7, 42.
  split; [exact k1_cfg_wf|]. split; [exact k1_reach|]. vm_compute. reflexivity.
Qed.

(* the same state violates the unguarded form of the price bound of I_index *)
Lemma K1_update_disabled_unbounded :
  exists b, get (1, 7) (binds k1_s) = Some b /\ b_avail b = false
    /\ INT_LIMIT <= pr_price (parse_pricing (b_raw b)) * p_multiple k1_cfg.
Proof. eexists. split; [vm_compute; reflexivity|]. split; [reflexivity|]. vm_compute. discriminate. Qed.
