(* Reusable facts for the bank / deposit / minimum-deposit invariants:
   getMinDeposit, the "core" of a state (bank, supply, bindings, pricing)
   and what every helper does to it, exact characterisation of slash. *)
From Coq Require Import List ZArith Bool Lia.
From SVC Require Import Base.AMap Base.Res Base.Dec Model.Types Model.Pricing
  Model.Handlers Model.EndBlock Model.Step Proofs.Inv Proofs.Lemmas Proofs.DecProofs.
Import ListNotations.
Open Scope Z_scope.

(* ------------------------------------------------------------------ *)
(* getMinDeposit *)

Lemma min_deposit_ok cfg p m : min_deposit cfg p = Ok m -> m = min_dep_val cfg p.
Proof.
  unfold min_deposit, min_dep_val.
  destruct (INT_LIMIT <=? pr_price p * p_multiple cfg); [discriminate|].
  intros E. now injection E as <-.
Qed.

Lemma min_deposit_ok_iff cfg p m :
  min_deposit cfg p = Ok m <-> (pr_price p * p_multiple cfg < INT_LIMIT /\ m = min_dep_val cfg p).
Proof.
  unfold min_deposit, min_dep_val.
  destruct (INT_LIMIT <=? pr_price p * p_multiple cfg) eqn:E; b2p.
  - split; [discriminate|]. intros [Hlt _]. lia.
  - split; [intros E1; injection E1 as <-; split; [lia|reflexivity] | intros [_ ->]; reflexivity].
Qed.

Lemma min_deposit_cases cfg p :
  (INT_LIMIT <= pr_price p * p_multiple cfg /\ min_deposit cfg p = Panic)
  \/ (pr_price p * p_multiple cfg < INT_LIMIT /\ min_deposit cfg p = Ok (min_dep_val cfg p)).
Proof.
  unfold min_deposit, min_dep_val.
  destruct (INT_LIMIT <=? pr_price p * p_multiple cfg) eqn:E; b2p; [left|right]; split; auto.
Qed.

Lemma min_dep_val_nonneg cfg p : 0 <= p_min_deposit cfg -> 0 <= min_dep_val cfg p.
Proof. unfold min_dep_val. lia. Qed.

(* ------------------------------------------------------------------ *)
(* pricing_of *)

Lemma pricing_of_set s s' k p k' :
  pricing s' = set k p (pricing s) ->
  pricing_of s' k' = if eqb k' k then p else pricing_of s k'.
Proof. intros E. unfold pricing_of. rewrite E, get_set. now destruct (eqb k' k). Qed.

Lemma pricing_of_same s s' k : pricing s' = pricing s -> pricing_of s' k = pricing_of s k.
Proof. intros E. unfold pricing_of. now rewrite E. Qed.

(* ------------------------------------------------------------------ *)
(* the core of a state: the only fields I_bank, I_deposit, I_min speak about *)

Definition core (s : State) : amap Acct Z * Z * amap BKey Binding * amap BKey Pricing :=
  (bank s, supply s, binds s, pricing s).

Lemma core_fields s s' : core s' = core s ->
  bank s' = bank s /\ supply s' = supply s /\ binds s' = binds s /\ pricing s' = pricing s.
Proof. unfold core. intros E. injection E as E1 E2 E3 E4. auto. Qed.

Lemma core_bal s s' a : core s' = core s -> bal s' a = bal s a.
Proof. intros E. apply core_fields in E. destruct E as (E & _). unfold bal. now rewrite E. Qed.

Lemma core_pricing_of s s' k : core s' = core s -> pricing_of s' k = pricing_of s k.
Proof. intros E. apply core_fields in E. destruct E as (_ & _ & _ & E). now apply pricing_of_same. Qed.

Lemma core_emit e s : core (emit e s) = core s.
Proof. reflexivity. Qed.
Lemma core_put_ctx s c rc : core (put_ctx s c rc) = core s.
Proof. reflexivity. Qed.
Lemma core_del_ctx s c : core (del_ctx s c) = core s.
Proof. reflexivity. Qed.
Lemma core_add_newq s c h : core (add_newq s c h) = core s.
Proof. reflexivity. Qed.
Lemma core_del_newq s c h : core (del_newq s c h) = core s.
Proof. reflexivity. Qed.
Lemma core_add_expq s c h : core (add_expq s c h) = core s.
Proof. reflexivity. Qed.
Lemma core_del_expq s c h : core (del_expq s c h) = core s.
Proof. reflexivity. Qed.
Lemma core_set_time s t : core (set_time s t) = core s.
Proof. reflexivity. Qed.
Lemma core_set_height s h : core (set_height s h) = core s.
Proof. reflexivity. Qed.
Lemma core_set_reqs s m : core (set_reqs s m) = core s.
Proof. reflexivity. Qed.
Lemma core_set_resps s m : core (set_resps s m) = core s.
Proof. reflexivity. Qed.
Lemma core_set_vols s m : core (set_vols s m) = core s.
Proof. reflexivity. Qed.
Lemma core_set_earned s m : core (set_earned s m) = core s.
Proof. reflexivity. Qed.
Lemma core_set_own_earned s m : core (set_own_earned s m) = core s.
Proof. reflexivity. Qed.
Lemma core_set_defs s m : core (set_defs s m) = core s.
Proof. reflexivity. Qed.
Lemma core_set_wdaddr s m : core (set_wdaddr s m) = core s.
Proof. reflexivity. Qed.
Lemma core_set_owner_of s m : core (set_owner_of s m) = core s.
Proof. reflexivity. Qed.
Lemma core_set_own_prov s m : core (set_own_prov s m) = core s.
Proof. reflexivity. Qed.
Lemma core_set_own_bind s m : core (set_own_bind s m) = core s.
Proof. reflexivity. Qed.

Lemma core_deactivate s r : core (deactivate s r) = core s.
Proof. unfold deactivate. now destruct (get r (reqs s)). Qed.

Lemma core_callback s c : core (callback s c) = core s.
Proof. unfold callback. now destruct (get c (ctxs s)). Qed.

Lemma core_complete_batch s c rc : core (fst (complete_batch s c rc)) = core s.
Proof.
  unfold complete_batch. cbn [fst]. rewrite core_emit.
  destruct (c_mod rc =? 0); [reflexivity|apply core_callback].
Qed.

Lemma core_clean_batch s c n : core (clean_batch s c n) = core s.
Proof. reflexivity. Qed.

Lemma core_issue_one s c rc n i p : core (issue_one s c rc n i p) = core s.
Proof. reflexivity. Qed.

Lemma core_issue_all s c rc n i provs : core (issue_all s c rc n i provs) = core s.
Proof.
  revert s i. induction provs as [|p t IH]; cbn [issue_all]; intros s i; [reflexivity|].
  rewrite IH. apply core_issue_one.
Qed.

Lemma core_initiate_requests s c provs : core (initiate_requests s c provs) = core s.
Proof. unfold initiate_requests. rewrite core_emit, core_put_ctx. apply core_issue_all. Qed.

Lemma core_skip_batch s c rc : core (skip_batch s c rc) = core s.
Proof. reflexivity. Qed.

Lemma core_on_paused s c rc : core (on_paused s c rc) = core s.
Proof. unfold on_paused. now destruct (c_mod rc =? 0). Qed.

#[export] Hint Rewrite core_emit core_put_ctx core_del_ctx core_add_newq core_del_newq
  core_add_expq core_del_expq core_set_time core_set_height core_set_reqs core_set_resps
  core_set_vols core_set_earned core_set_own_earned core_set_defs core_set_wdaddr
  core_set_owner_of core_set_own_prov core_set_own_bind
  core_deactivate core_callback core_complete_batch core_clean_batch core_issue_one
  core_issue_all core_initiate_requests core_skip_batch core_on_paused : core.

(* ------------------------------------------------------------------ *)
(* fee movements: exact shape *)

Lemma refund_fee_inv s r cons fee s1 :
  refund_fee s r cons fee = Some s1 ->
  exists s0, transfer Escrow (User cons) fee s = Some s0 /\ s1 = emit (EvRefund r cons fee) s0.
Proof.
  unfold refund_fee. destruct (transfer Escrow (User cons) fee s) as [s0|]; [|discriminate].
  intros E. injection E as <-. eauto.
Qed.

Lemma add_earned_fee_inv cfg s r prov fee s1 :
  add_earned_fee cfg s r prov fee = Ok s1 ->
  exists s0 o,
    transfer Escrow FeeColl (mul_trunc fee (p_tax cfg)) s = Some s0
    /\ mul_trunc fee (p_tax cfg) <= fee
    /\ get prov (owner_of s) = Some o
    /\ s1 = emit (EvEarn r prov (fee - mul_trunc fee (p_tax cfg)))
             (emit (EvTax r (mul_trunc fee (p_tax cfg)))
                (set_own_earned
                   (set_earned s0 (add_to prov (fee - mul_trunc fee (p_tax cfg)) (earned s0)))
                   (add_to o (fee - mul_trunc fee (p_tax cfg)) (own_earned s0)))).
Proof.
  unfold add_earned_fee. intros H. inv_ok H. rename a into s0.
  pose proof (transfer_frame _ _ _ _ _ Ha) as Hf.
  sproj. destruct (get prov (owner_of s0)) as [o|] eqn:Eo; inv_ok H.
  exists s0, o. b2p. repeat split; try assumption.
  - rewrite Hf in Eo. exact Eo.
  - now subst s1.
Qed.

Lemma core_add_earned_fee cfg s r prov fee s1 :
  add_earned_fee cfg s r prov fee = Ok s1 ->
  exists s0, transfer Escrow FeeColl (mul_trunc fee (p_tax cfg)) s = Some s0 /\ core s1 = core s0.
Proof.
  intros H. apply add_earned_fee_inv in H. destruct H as (s0 & o & Et & _ & _ & ->).
  exists s0. split; [assumption|reflexivity].
Qed.

(* a transfer between two accounts other than Deposit keeps the custody balance *)
Lemma transfer_keeps_deposit a b amt s s1 :
  transfer a b amt s = Some s1 -> a <> Deposit -> b <> Deposit -> bal s1 Deposit = bal s Deposit.
Proof.
  intros E Ha Hb. rewrite (transfer_bal _ _ _ _ _ Deposit E).
  destruct (eqb_spec Deposit a), (eqb_spec Deposit b); congruence || lia.
Qed.

Lemma transfer_core a b amt s s1 :
  transfer a b amt s = Some s1 ->
  supply s1 = supply s /\ binds s1 = binds s /\ pricing s1 = pricing s /\ time s1 = time s.
Proof. intros E. apply transfer_frame in E. rewrite E. auto. Qed.

Lemma pay_deposit_frame s k owner amt s1 :
  pay_deposit s k owner amt = Ok s1 ->
  supply s1 = supply s /\ binds s1 = binds s /\ pricing s1 = pricing s /\ time s1 = time s.
Proof.
  intros E. apply pay_deposit_inv in E. destruct E as (s0 & Et & ->).
  apply transfer_core in Et. sproj. exact Et.
Qed.

(* ------------------------------------------------------------------ *)
(* keeper.Slash: exact effect (property C04) *)

Definition slashed_binding (cfg : Params) (s : State) (k : BKey) (b : Binding) : Binding :=
  let amt := mul_trunc (b_deposit b) (p_slash cfg) in
  let b1 := setb_deposit b (b_deposit b - amt) in
  if b_avail b && (b_deposit b - amt <? min_dep_val cfg (pricing_of s k))
  then setb_dtime (setb_avail b1 false) (time s) else b1.

Lemma slash_inv cfg s r s1 :
  slash cfg s r = Ok s1 ->
  exists q rc b,
    get r (reqs s) = Some q /\ get (rid_ctx r) (ctxs s) = Some rc
    /\ get (c_svc rc, r_prov q) (binds s) = Some b
    /\ 0 <= mul_trunc (b_deposit b) (p_slash cfg) <= b_deposit b
    /\ mul_trunc (b_deposit b) (p_slash cfg) <= bal s Deposit
    /\ (b_avail b = true -> pr_price (pricing_of s (c_svc rc, r_prov q)) * p_multiple cfg < INT_LIMIT)
    /\ s1 = emit (EvSlash r (c_svc rc, r_prov q) (mul_trunc (b_deposit b) (p_slash cfg)))
             (put_binding
                (set_supply
                   (set_bank s (set Deposit (bal s Deposit - mul_trunc (b_deposit b) (p_slash cfg)) (bank s)))
                   (supply s - mul_trunc (b_deposit b) (p_slash cfg)))
                (c_svc rc, r_prov q)
                (slashed_binding cfg s (c_svc rc, r_prov q) b)).
Proof.
  unfold slash. intros H. inv_ok H. rename a into q, a0 into rc, a1 into b, a2 into sb.
  apply burn_some in Ha2. destruct Ha2 as (H0 & Hle & ->). b2p.
  exists q, rc, b. repeat split; try assumption.
  - cbn [b_avail setb_deposit b_deposit] in Ha3. intros Eav. rewrite Eav in Ha3.
    inv_ok Ha3.
    match goal with Hm : min_deposit _ _ = Ok _ |- _ => apply min_deposit_ok_iff in Hm; destruct Hm as [Hm _] end.
    unfold pricing_of in *. sproj. assumption.
  - unfold slashed_binding.
    cbn [b_avail setb_deposit b_deposit] in Ha3.
    destruct (b_avail b) eqn:Eav; cbn [andb].
    + inv_ok Ha3.
      match goal with Hm : min_deposit _ _ = Ok _ |- _ => apply min_deposit_ok in Hm; rename Hm into Hmd end.
      unfold pricing_of in *. sproj. subst. reflexivity.
    + inv_ok Ha3. now subst.
Qed.

(* the converse: when slash succeeds (used to show h_respond does not panic) *)
Lemma slash_ok cfg s r q rc b :
  0 <= p_slash cfg <= ONE ->
  get r (reqs s) = Some q -> get (rid_ctx r) (ctxs s) = Some rc ->
  get (c_svc rc, r_prov q) (binds s) = Some b ->
  0 <= b_deposit b -> b_deposit b <= bal s Deposit ->
  (b_avail b = true -> pr_price (pricing_of s (c_svc rc, r_prov q)) * p_multiple cfg < INT_LIMIT) ->
  exists s1, slash cfg s r = Ok s1.
Proof.
  intros Hsl Hq Hrc Hb Hd Hbal Hlim.
  pose proof (mul_trunc_bounds (b_deposit b) (p_slash cfg) Hd Hsl) as [Hm0 Hm1].
  unfold slash. rewrite Hq, Hrc. cbn [of_opt bind]. rewrite Hb. cbn [of_opt bind].
  assert (E1 : (mul_trunc (b_deposit b) (p_slash cfg) <=? b_deposit b) = true) by (apply Z.leb_le; lia).
  rewrite E1. cbn [guard].
  unfold burn_deposit.
  assert (E2 : (mul_trunc (b_deposit b) (p_slash cfg) <? 0)
               || (bal s Deposit <? mul_trunc (b_deposit b) (p_slash cfg)) = false).
  { apply orb_false_intro; apply Z.ltb_ge; lia. }
  rewrite E2. cbn [of_opt bind].
  cbn [b_avail setb_deposit].
  destruct (b_avail b) eqn:Eav; [|cbn [bind]; eauto].
  match goal with |- context [min_deposit cfg ?p] =>
    destruct (min_deposit_cases cfg p) as [[Hge _]|[_ ->]] end.
  - exfalso. unfold pricing_of in Hge. sproj. specialize (Hlim eq_refl). unfold pricing_of in Hlim. lia.
  - cbn [bind]. eauto.
Qed.

(* what slash does to the core, the only part the deposit invariants need *)
Lemma slash_core_fields cfg s r s1 :
  slash cfg s r = Ok s1 ->
  exists k b amt,
    get k (binds s) = Some b /\ amt = mul_trunc (b_deposit b) (p_slash cfg)
    /\ 0 <= amt <= b_deposit b /\ amt <= bal s Deposit
    /\ bank s1 = set Deposit (bal s Deposit - amt) (bank s)
    /\ supply s1 = supply s - amt
    /\ binds s1 = set k (slashed_binding cfg s k b) (binds s)
    /\ pricing s1 = pricing s.
Proof.
  intros H. apply slash_inv in H. destruct H as (q & rc & b & _ & _ & Hb & Hamt & Hbal & _ & ->).
  exists (c_svc rc, r_prov q), b, (mul_trunc (b_deposit b) (p_slash cfg)).
  repeat split; try assumption; lia.
Qed.

Lemma slashed_binding_fields cfg s k b :
  b_deposit (slashed_binding cfg s k b) = b_deposit b - mul_trunc (b_deposit b) (p_slash cfg)
  /\ b_owner (slashed_binding cfg s k b) = b_owner b
  /\ b_raw (slashed_binding cfg s k b) = b_raw b
  /\ b_qos (slashed_binding cfg s k b) = b_qos b
  /\ b_avail (slashed_binding cfg s k b)
     = b_avail b && negb (b_deposit b - mul_trunc (b_deposit b) (p_slash cfg)
                          <? min_dep_val cfg (pricing_of s k))
  /\ b_dtime (slashed_binding cfg s k b)
     = if b_avail b && (b_deposit b - mul_trunc (b_deposit b) (p_slash cfg)
                        <? min_dep_val cfg (pricing_of s k))
       then time s else b_dtime b.
Proof.
  unfold slashed_binding.
  destruct (b_avail b) eqn:Eav; cbn [andb];
    [destruct (_ <? _)|]; cbn; rewrite ?Eav; repeat split; reflexivity.
Qed.

(* ------------------------------------------------------------------ *)
(* expire_req: slash and refund errors are dropped *)

Definition expire_money (cfg : Params) (s : State) (r : ReqId) (q : Req) (rc : Ctx) : State :=
  if c_super rc then s
  else
    let sa := match slash cfg s r with Ok x => x | _ => s end in
    match refund_fee sa r (c_cons rc) (r_fee q) with Some x => x | None => sa end.

Lemma expire_req_eq cfg s r :
  expire_req cfg s r =
  match get r (reqs s), get (rid_ctx r) (ctxs s) with
  | Some q, Some rc => emit (EvExpire r) (deactivate (expire_money cfg s r q rc) r)
  | _, _ => s
  end.
Proof. reflexivity. Qed.

Lemma core_expire_req cfg s r :
  core (expire_req cfg s r) = core s
  \/ exists q rc, get r (reqs s) = Some q /\ get (rid_ctx r) (ctxs s) = Some rc
       /\ c_super rc = false
       /\ core (expire_req cfg s r) = core (expire_money cfg s r q rc).
Proof.
  rewrite expire_req_eq.
  destruct (get r (reqs s)) as [q|]; [|now left].
  destruct (get (rid_ctx r) (ctxs s)) as [rc|]; [|now left].
  autorewrite with core.
  destruct (c_super rc) eqn:Es.
  - left. unfold expire_money. now rewrite Es.
  - right. exists q, rc. auto.
Qed.
