(* C18, identifiers: fixed length, decode back to what they were built from,
   distinct inputs give distinct ids.  Over Model/Ids.v (hand-written models of
   types/invocation.go, tied to the code by the pure-keys stream). *)
From Coq Require Import List NArith ZArith Lia.
From SVC Require Import Base.Bytes Model.Ids.
Import ListNotations.

Lemma slice_mid : forall (a b c : bytes) lo hi,
  length a = lo -> length b + lo = hi -> slice lo hi (a ++ b ++ c) = b.
Proof.
  intros a b c lo hi Ha Hb. unfold slice.
  rewrite skipn_app, <- Ha, skipn_all, Nat.sub_diag. cbn [skipn app].
  replace (hi - length a) with (length b) by lia.
  rewrite firstn_app, Nat.sub_diag, firstn_all. cbn [firstn]. apply app_nil_r.
Qed.

Lemma slice_head : forall (b c : bytes) hi, length b = hi -> slice 0 hi (b ++ c) = b.
Proof. intros b c hi H. apply (slice_mid [] b c 0 hi); [reflexivity | lia]. Qed.

Lemma slice_last : forall (a b : bytes) lo hi,
  length a = lo -> length b + lo = hi -> slice lo hi (a ++ b) = b.
Proof.
  intros a b lo hi Ha Hb. rewrite <- (app_nil_r b) at 1. apply slice_mid; assumption.
Qed.

Lemma slice_length : forall lo hi (l : bytes), hi <= length l -> length (slice lo hi l) = hi - lo.
Proof. intros lo hi l H. unfold slice. rewrite firstn_length, skipn_length. lia. Qed.

Lemma slice_wf : forall lo hi l, wf_bytes l -> wf_bytes (slice lo hi l).
Proof. intros lo hi l H. unfold slice. apply wf_bytes_firstn, wf_bytes_skipn, H. Qed.

Lemma skipn_plus : forall (A : Type) a b (l : list A), skipn (a + b) l = skipn b (skipn a l).
Proof.
  induction a as [|a IH]; intros b l; [reflexivity|].
  destruct l as [|x l]; [cbn [Nat.add skipn]; destruct b; reflexivity | cbn [Nat.add skipn]; apply IH].
Qed.

Lemma firstn_plus : forall (A : Type) a b (l : list A),
  firstn (a + b) l = firstn a l ++ firstn b (skipn a l).
Proof.
  induction a as [|a IH]; intros b l; [reflexivity|].
  destruct l as [|x l]; [cbn [Nat.add firstn skipn app]; destruct b; reflexivity|].
  cbn [Nat.add firstn skipn app]. rewrite IH. reflexivity.
Qed.

(* consecutive slices glue back together *)
Lemma slice_glue : forall lo mid hi (l : bytes),
  lo <= mid -> mid <= hi -> slice lo mid l ++ slice mid hi l = slice lo hi l.
Proof.
  intros lo mid hi l H1 H2. unfold slice.
  assert (E : skipn mid l = skipn (mid - lo) (skipn lo l))
    by (rewrite <- skipn_plus; f_equal; lia).
  rewrite E.
  replace (hi - lo) with ((mid - lo) + (hi - mid)) by lia.
  rewrite firstn_plus. reflexivity.
Qed.

Lemma slice_all : forall (l : bytes), slice 0 (length l) l = l.
Proof. intros l. unfold slice. cbn [skipn]. rewrite Nat.sub_0_r. apply firstn_all. Qed.

(* ------------------------------------------------------------------ *)
(* request-context id                                                  *)

Theorem ctxid_len : forall h i, length h = 32 -> length (gen_ctx_id h i) = 40.
Proof.
  intros h i Hh. unfold gen_ctx_id. rewrite app_length, be64_length, Hh. reflexivity.
Qed.

Theorem ctxid_roundtrip : forall h i,
  length h = 32 -> is_int64 i -> split_ctx_id (gen_ctx_id h i) = Some (h, i).
Proof.
  intros h i Hh Hi. unfold split_ctx_id. rewrite (ctxid_len h i Hh).
  change (Nat.eqb 40 ContextIDLen) with true. cbv iota. unfold gen_ctx_id.
  rewrite (slice_head h _ 32 Hh).
  rewrite (slice_last h (be64 (u64 i)) 32 40 Hh) by (rewrite be64_length, ?Hh; reflexivity).
  rewrite de_be64 by apply u64_lt. rewrite (i64_u64 i Hi). reflexivity.
Qed.

(* injectivity needs only that the two hashes have the same length *)
Theorem ctxid_inj : forall h i h' i',
  length h = length h' -> is_int64 i -> is_int64 i' ->
  gen_ctx_id h i = gen_ctx_id h' i' -> h = h' /\ i = i'.
Proof.
  intros h i h' i' Hl Hi Hi' H. unfold gen_ctx_id in H.
  destruct (len_inj _ _ _ _ Hl H) as [-> Hb]. split; [reflexivity|].
  apply be64_u64_inj; assumption.
Qed.

(* the other direction: whatever SplitRequestContextID accepts is the id of what it returns *)
Theorem ctxid_split_gen : forall id h i,
  wf_bytes id -> split_ctx_id id = Some (h, i) ->
  gen_ctx_id h i = id /\ length h = 32 /\ is_int64 i.
Proof.
  intros id h i Hwf H. unfold split_ctx_id in H.
  destruct (Nat.eqb_spec (length id) ContextIDLen) as [Hl|]; [|discriminate].
  unfold ContextIDLen in Hl. injection H as <- <-.
  split; [|split].
  - unfold gen_ctx_id. rewrite u64_i64.
    + rewrite be64_de.
      * rewrite slice_glue by lia. rewrite <- Hl. apply slice_all.
      * apply slice_wf, Hwf.
      * rewrite slice_length by lia. reflexivity.
    + apply de_lt64; [apply slice_wf, Hwf | rewrite slice_length by lia; reflexivity].
  - rewrite slice_length by lia. reflexivity.
  - apply i64_range.
Qed.

Theorem ctxid_split_none : forall id, split_ctx_id id = None <-> length id <> 40.
Proof.
  intros id. unfold split_ctx_id, ContextIDLen.
  destruct (Nat.eqb_spec (length id) 40) as [E|E]; split; intros H.
  - discriminate.
  - contradiction.
  - exact E.
  - reflexivity.
Qed.

(* ------------------------------------------------------------------ *)
(* request id                                                          *)

Theorem reqid_len : forall c b h i, length c = 40 -> length (gen_request_id c b h i) = 58.
Proof.
  intros c b h i Hc. unfold gen_request_id.
  rewrite !app_length, !be64_length, be16_length, Hc. reflexivity.
Qed.

Theorem reqid_roundtrip : forall c b h i,
  length c = 40 -> is_uint64 b -> is_int64 h -> is_int16 i ->
  split_request_id (gen_request_id c b h i) = Some (c, b, h, i).
Proof.
  intros c b h i Hc Hb Hh Hi. unfold split_request_id. rewrite (reqid_len c b h i Hc).
  change (Nat.eqb 58 RequestIDLen) with true. cbv iota. unfold gen_request_id.
  rewrite (slice_head c _ 40 Hc).
  rewrite (slice_mid c (be64 b) _ 40 48 Hc) by (rewrite be64_length; reflexivity).
  assert (Hcb : length (c ++ be64 b) = 48) by (rewrite app_length, be64_length, Hc; reflexivity).
  rewrite (app_assoc c (be64 b)).
  rewrite (slice_mid (c ++ be64 b) (be64 (u64 h)) _ 48 56 Hcb) by (rewrite be64_length; reflexivity).
  assert (Hcbh : length ((c ++ be64 b) ++ be64 (u64 h)) = 56)
    by (rewrite app_length, be64_length, Hcb; reflexivity).
  rewrite (app_assoc (c ++ be64 b)).
  rewrite (slice_last _ (be16 (u16 i)) 56 58 Hcbh) by (rewrite be16_length; reflexivity).
  rewrite (de_be64 b Hb), (de_be64 _ (u64_lt h)), (de_be16 _ (u16_lt i)).
  rewrite (i64_u64 h Hh), (i16_u16 i Hi). reflexivity.
Qed.

Theorem reqid_inj : forall c b h i c' b' h' i',
  length c = length c' ->
  is_uint64 b -> is_int64 h -> is_int16 i -> is_uint64 b' -> is_int64 h' -> is_int16 i' ->
  gen_request_id c b h i = gen_request_id c' b' h' i' ->
  c = c' /\ b = b' /\ h = h' /\ i = i'.
Proof.
  intros c b h i c' b' h' i' Hl Hb Hh Hi Hb' Hh' Hi' H. unfold gen_request_id in H.
  destruct (len_inj _ _ _ _ Hl H) as [-> H1].
  destruct (len_inj _ _ _ _ (eq_trans (be64_length _) (eq_sym (be64_length _))) H1) as [E1 H2].
  destruct (len_inj _ _ _ _ (eq_trans (be64_length _) (eq_sym (be64_length _))) H2) as [E2 E3].
  split; [reflexivity|]. split; [apply be64_inj; assumption|].
  split; [apply be64_u64_inj; assumption|].
  apply u16_inj; try assumption. apply be16_inj; [apply u16_lt | apply u16_lt | exact E3].
Qed.

Theorem reqid_split_gen : forall id c b h i,
  wf_bytes id -> split_request_id id = Some (c, b, h, i) ->
  gen_request_id c b h i = id /\ length c = 40 /\ is_uint64 b /\ is_int64 h /\ is_int16 i.
Proof.
  intros id c b h i Hwf H. unfold split_request_id in H.
  destruct (Nat.eqb_spec (length id) RequestIDLen) as [Hl|]; [|discriminate].
  unfold RequestIDLen in Hl. injection H as <- <- <- <-.
  assert (W : forall lo hi, wf_bytes (slice lo hi id)) by (intros; apply slice_wf, Hwf).
  assert (L1 : length (slice 40 48 id) = 8) by (rewrite slice_length by lia; reflexivity).
  assert (L2 : length (slice 48 56 id) = 8) by (rewrite slice_length by lia; reflexivity).
  assert (L3 : length (slice 56 58 id) = 2) by (rewrite slice_length by lia; reflexivity).
  split; [|split; [|split; [|split]]].
  - unfold gen_request_id.
    rewrite (u64_i64 _ (de_lt64 _ (W 48 56) L2)), (u16_i16 _ (de_lt16 _ (W 56 58) L3)).
    rewrite (be64_de _ (W 40 48) L1), (be64_de _ (W 48 56) L2), (be16_de _ (W 56 58) L3).
    rewrite (slice_glue 48 56 58) by lia. rewrite (slice_glue 40 48 58) by lia.
    rewrite (slice_glue 0 40 58) by lia. rewrite <- Hl. apply slice_all.
  - rewrite slice_length by lia. reflexivity.
  - apply de_lt64; [apply W | exact L1].
  - apply i64_range.
  - apply i16_range.
Qed.

Theorem reqid_split_none : forall id, split_request_id id = None <-> length id <> 58.
Proof.
  intros id. unfold split_request_id, RequestIDLen.
  destruct (Nat.eqb_spec (length id) 58) as [E|E]; split; intros H.
  - discriminate.
  - contradiction.
  - exact E.
  - reflexivity.
Qed.

(* a request id starts with its context id followed by the batch counter: what the
   context+batch scans of KProofs.v rely on *)
Lemma reqid_shape : forall c b h i,
  gen_request_id c b h i = c ++ be64 b ++ (be64 (u64 h) ++ be16 (u16 i)).
Proof. reflexivity. Qed.
