(* The total supply never increases, and what that bounds.

   The only operation of the model that writes [supply] is burn_deposit (the burn of
   keeper.Slash), and it subtracts a non-negative amount; every other movement of money is a
   transfer between accounts.  Hence [supply_step_le]: no operation increases the supply,
   with no hypothesis at all (no invariant, no well-formedness), and [ReachS cfg S0 s]
   (reachability that remembers the supply S0 of the genesis state) gives supply s <= S0.

   With I_bank and I_deposit of Proofs/Inv.v every balance is at most the supply and every
   binding deposit is at most the balance of the Deposit account: [Inv_bal_le_supply],
   [Inv_deposit_le_supply].  These are the facts behind the input-only form of the exclusion
   X-K6 in Proofs/NoPanic.v and behind Proofs/AmountBounds.v. *)
From Coq Require Import List ZArith Bool Lia.
From SVC Require Import Base.AMap Base.Res Base.Dec Model.Types Model.Pricing
  Model.Handlers Model.EndBlock Model.Step Proofs.Inv Proofs.Lemmas Proofs.InvWf
  Proofs.DecProofs Proofs.BankLemmas Proofs.CtxOps Proofs.InvBank Proofs.InvAll
  Proofs.ReachRun.
Import ListNotations.
Open Scope Z_scope.

Definition sle (s s' : State) : Prop := supply s' <= supply s.

Lemma sle_refl s : sle s s.
Proof. unfold sle. lia. Qed.

Lemma sle_trans s1 s2 s3 : sle s1 s2 -> sle s2 s3 -> sle s1 s3.
Proof. unfold sle. lia. Qed.

Lemma sle_eq s s' : supply s' = supply s -> sle s s'.
Proof. unfold sle. lia. Qed.

Lemma sle_core s s' : core s' = core s -> sle s s'.
Proof. intros E. apply core_fields in E. apply sle_eq. tauto. Qed.

Lemma sle_core_r s s1 s' : core s' = core s1 -> sle s s1 -> sle s s'.
Proof. intros E H. eapply sle_trans; [exact H|now apply sle_core]. Qed.

Lemma sle_fold {A} (f : State -> A -> State) (l : list A) (s : State) :
  (forall s a, sle s (f s a)) -> sle s (fold_left f l s).
Proof.
  intros Hf. revert s. induction l as [|a l IH]; cbn [fold_left]; intros s; [apply sle_refl|].
  eapply sle_trans; [apply Hf|apply IH].
Qed.

(* ------------------------------------------------------------------ *)
(* helpers *)

Lemma sle_transfer a b amt s s1 : transfer a b amt s = Some s1 -> sle s s1.
Proof. intros E. apply transfer_core in E. apply sle_eq. tauto. Qed.

Lemma sle_emit e s : sle s (emit e s).
Proof. apply sle_core. reflexivity. Qed.

Lemma sle_pay_deposit s k o amt s1 : pay_deposit s k o amt = Ok s1 -> sle s s1.
Proof. intros E. apply pay_deposit_frame in E. apply sle_eq. tauto. Qed.

Lemma sle_opt_pay s k o (dep : Coins) amt s1 :
  (if coins_empty dep then Ok s else pay_deposit s k o amt) = Ok s1 -> sle s s1.
Proof. intros E. apply opt_pay_frame in E. apply sle_eq. tauto. Qed.

(* the burn: the one place where the supply moves *)
Lemma sle_slash cfg s r s1 : slash cfg s r = Ok s1 -> sle s s1.
Proof.
  intros H. apply slash_core_fields in H.
  destruct H as (k & b & amt & _ & _ & Hamt & _ & _ & Esu & _). unfold sle. lia.
Qed.

Lemma sle_refund_fee s r cons fee s1 : refund_fee s r cons fee = Some s1 -> sle s s1.
Proof.
  intros H. apply refund_fee_inv in H. destruct H as (s0 & Et & ->).
  eapply sle_trans; [eapply sle_transfer; eauto|apply sle_emit].
Qed.

Lemma sle_add_earned_fee cfg s r prov fee s1 : add_earned_fee cfg s r prov fee = Ok s1 -> sle s s1.
Proof.
  intros H. apply core_add_earned_fee in H. destruct H as (s0 & Et & Ec).
  eapply sle_core_r; [exact Ec|]. eapply sle_transfer; eauto.
Qed.

(* ------------------------------------------------------------------ *)
(* messages *)

Ltac sle_triv := apply sle_eq; sproj; reflexivity.


Lemma sle_msg cfg s o s' :
  handle cfg s o = Ok s' -> (forall dt, o <> OEndBlock dt) -> sle s s'.
Proof.
  intros H Hne. destruct o; cbn [handle] in H; try (exfalso; eapply Hne; reflexivity).
  - (* define *) unfold h_define in H. inv_ok H. destruct (get svc (defs s)); inv_ok H. subst.
    sle_triv.
  - (* bind *) unfold h_bind in H. inv_ok H. sproj.
    match goal with Hp : pay_deposit _ _ _ _ = Ok ?x |- _ => rename Hp into Hpay; rename x into sp end.
    eapply sle_trans; [eapply sle_pay_deposit; exact Hpay|].
    destruct (get prov (owner_of sp)); inv_ok H; subst s'; sle_triv.
  - (* update *) unfold h_update in H. inv_ok H.
    rename a3 into s1, Ha3 into Hpay.
    eapply sle_trans; [eapply sle_opt_pay; exact Hpay|].
    match type of H with (if ?u then _ else _) = _ => destruct u end.
    2:{ inv_ok H. subst. apply sle_refl. }
    destruct a1 as [[raw p]|]; inv_ok H; subst s'; sle_triv.
  - (* disable *) unfold h_disable in H. inv_ok H. subst s'. sle_triv.
  - (* enable *) unfold h_enable in H. inv_ok H. subst s'.
    eapply sle_trans; [eapply sle_opt_pay; eassumption|]. sle_triv.
  - (* refund deposit *) unfold h_refund_deposit in H. inv_ok H. subst s'.
    eapply sle_trans; [eapply sle_transfer; eassumption|]. sle_triv.
  - (* set withdraw *) unfold h_set_withdraw in H. inv_ok H. subst. apply sle_core. reflexivity.
  - (* call *) unfold h_call, create_context in H. inv_ok H. subst. apply sle_core. reflexivity.
  - (* modcall *) unfold create_context in H. inv_ok H. subst. apply sle_core. reflexivity.
  - (* respond *) apply respond_inv in H.
    destruct H as (q & rc0 & s1 & rc & _ & Hq & Hrc0 & _ & _ & Hset & Hrc & ->).
    assert (H1 : sle s s1).
    { destruct Hset as [[_ (sa & Es & Er)]|[_ Ea]].
      - eapply sle_trans; [eapply sle_slash; eauto|eapply sle_refund_fee; eauto].
      - eapply sle_add_earned_fee; eauto. }
    eapply sle_core_r; [|exact H1].
    unfold resp_finish, resp_mid.
    destruct (c_bresp (setc_bresp rc (c_bresp rc + 1)) =? c_breq (setc_bresp rc (c_bresp rc + 1)));
      autorewrite with core; reflexivity.
  - (* pause *) unfold h_pause, authorized in H. inv_ok H. subst. apply sle_core. reflexivity.
  - (* start *) unfold h_start, authorized in H. inv_ok H.
    match type of H with (if ?b then _ else _) = _ => destruct b end; inv_ok H; subst;
      apply sle_core; reflexivity.
  - (* kill *) unfold h_kill, authorized in H. inv_ok H. subst. apply sle_core. reflexivity.
  - (* update ctx *) unfold h_update_ctx, update_ctx_tail, authorized in H. inv_ok H. subst.
    apply sle_core. reflexivity.
  - (* withdraw *) unfold h_withdraw in H. inv_ok H.
    destruct (prov =? 0).
    + inv_ok H. subst. eapply sle_trans; [|apply sle_emit].
      eapply sle_trans; [|eapply sle_transfer; eassumption]. apply sle_core. reflexivity.
    + inv_ok H. subst. eapply sle_trans; [|apply sle_emit].
      eapply sle_trans; [|eapply sle_transfer; eassumption].
      destruct (get0 prov (earned s) =? get0 owner (own_earned s)); [|destruct (_ <? 0)]; inv_ok Ha; subst;
        apply sle_core; reflexivity.
  - (* transfer *) unfold h_transfer in H. inv_ok H. eapply sle_transfer; eauto.
  - (* module update *) mod_shape H; apply sle_core; reflexivity.
  - (* module pause *) mod_shape H; apply sle_core; reflexivity.
  - (* module start *) mod_shape H; apply sle_core; reflexivity.
  - (* module kill *) mod_shape H; apply sle_core; reflexivity.
Qed.

(* ------------------------------------------------------------------ *)
(* EndBlock *)

Lemma sle_expire_req cfg s r : sle s (expire_req cfg s r).
Proof.
  destruct (core_expire_req cfg s r) as [Ec|(q & rc & _ & _ & _ & Ec)];
    [now apply sle_core|]. eapply sle_core_r; [exact Ec|].
  unfold expire_money. destruct (c_super rc); [apply sle_refl|].
  assert (Hsa : sle s (match slash cfg s r with Ok x => x | _ => s end)).
  { destruct (slash cfg s r) eqn:Es; try apply sle_refl. eapply sle_slash; eauto. }
  destruct (refund_fee _ r (c_cons rc) (r_fee q)) eqn:Er; [|assumption].
  eapply sle_trans; [exact Hsa|eapply sle_refund_fee; eauto].
Qed.

Lemma sle_expire_one cfg s c : sle s (expire_one cfg s c).
Proof.
  unfold expire_one.
  set (rc := ctx_or_zero s c).
  assert (Hp : sle s (fst (if c_bdone rc then (s, rc)
             else complete_batch (fold_left (expire_req cfg) (active_rids s c (c_counter rc)) s) c rc))).
  { destruct (c_bdone rc); [apply sle_refl|].
    eapply sle_core_r; [apply core_complete_batch|].
    apply sle_fold. intros. apply sle_expire_req. }
  destruct (if c_bdone rc then (s, rc) else _) as [s1 rc1]. cbn [fst] in Hp.
  eapply sle_core_r; [|exact Hp].
  rewrite core_clean_batch.
  destruct (c_state rc1); [| |reflexivity]; try reflexivity.
  destruct (c_rep rc1 && _); reflexivity.
Qed.

Lemma sle_new_one cfg s c : sle s (new_one cfg s c).
Proof.
  unfold new_one.
  set (rc := ctx_or_zero s c).
  destruct (is_state rc Running && c_rep rc && (0 <? c_total rc) && (c_total rc <=? c_counter rc)).
  { apply sle_core. reflexivity. }
  eapply sle_core_r; [apply core_del_newq|].
  destruct (is_state rc Running); [|apply sle_refl].
  destruct ((0 <? len _) && _).
  - match goal with |- sle s (match ?p with _ => _ end) => destruct p as [sp|] eqn:Ep end.
    + assert (Hsp : sle s sp).
      { destruct (c_super rc); [injection Ep as <-; apply sle_refl|].
        destruct (transfer _ _ _ s) eqn:Et; [|discriminate]. injection Ep as <-.
        eapply sle_trans; [eapply sle_transfer; eauto|apply sle_emit]. }
      eapply sle_core_r; [|exact Hsp]. now autorewrite with core.
    + apply sle_core. apply core_on_paused.
  - apply sle_core. apply core_skip_batch.
Qed.

Lemma sle_end_block cfg s dt : sle s (end_block cfg s dt).
Proof.
  unfold end_block, end_blocker.
  eapply sle_core_r; [reflexivity|].
  eapply sle_trans; [|apply sle_fold; intros; apply sle_new_one].
  apply sle_fold. intros. apply sle_expire_one.
Qed.

(* no operation increases the supply; no hypothesis is needed *)
Theorem supply_step_le cfg s o : supply (fst (step cfg s o)) <= supply s.
Proof.
  fold (sle s (fst (step cfg s o))).
  unfold step. destruct (handle cfg s o) as [s'| |] eqn:E; cbn [fst]; try apply sle_refl.
  destruct o; try (eapply sle_msg; [exact E|discriminate]).
  cbn [handle] in E. injection E as <-. apply sle_end_block.
Qed.

(* the form asked for by the users of Inv *)
Corollary Inv_supply_step_le cfg s o :
  wf_cfg cfg -> Inv cfg s -> wf_op s o -> supply (fst (step cfg s o)) <= supply s.
Proof. intros _ _ _. apply supply_step_le. Qed.

Lemma supply_run_le cfg ops s : supply (run cfg s ops) <= supply s.
Proof.
  revert s. induction ops as [|o t IH]; intros s; [unfold run; cbn [fold_left]; lia|].
  unfold run. cbn [fold_left]. fold (run cfg (fst (step cfg s o)) t).
  pose proof (IH (fst (step cfg s o))). pose proof (supply_step_le cfg s o). lia.
Qed.

(* ------------------------------------------------------------------ *)
(* reachability that remembers the supply of the genesis state *)

Inductive ReachS (cfg : Params) (S0 : Z) : State -> Prop :=
| ReachS_init h0 t0 f : 1 <= h0 -> 0 <= t0 -> wf_funding f -> supply (init h0 t0 f) = S0 ->
    ReachS cfg S0 (init h0 t0 f)
| ReachS_step s o : ReachS cfg S0 s -> wf_op s o -> ReachS cfg S0 (fst (step cfg s o)).

Lemma ReachS_Reach cfg S0 s : ReachS cfg S0 s -> Reach cfg s.
Proof. induction 1; [now apply Reach_init|now apply Reach_step]. Qed.

Lemma Reach_ReachS cfg s : Reach cfg s -> exists S0, ReachS cfg S0 s.
Proof.
  induction 1 as [h0 t0 f H1 H2 H3|s o _ [S0 IH] Ho].
  - exists (supply (init h0 t0 f)). now apply ReachS_init.
  - exists S0. now apply ReachS_step.
Qed.

Theorem ReachS_supply_le cfg S0 s : ReachS cfg S0 s -> supply s <= S0.
Proof.
  induction 1 as [h0 t0 f _ _ _ E|s o _ IH _]; [lia|].
  pose proof (supply_step_le cfg s o). lia.
Qed.

Lemma reachS_run cfg S0 s ops : ReachS cfg S0 s -> wf_run cfg s ops -> ReachS cfg S0 (run cfg s ops).
Proof.
  revert s. induction ops as [|o t IH]; intros s Hr Hw; [exact Hr|].
  destruct Hw as [Ho Ht]. unfold run. cbn [fold_left].
  apply IH; [|exact Ht]. now apply ReachS_step.
Qed.

(* the supply of the genesis state is the total of the funding *)
Lemma supply_init h0 t0 f : supply (init h0 t0 f) = fold_right (fun af a => snd af + a) 0 f.
Proof. reflexivity. Qed.

(* ------------------------------------------------------------------ *)
(* what the supply bounds *)

Lemma BDM_bal_le_supply cfg s a : BDM cfg s -> 0 <= bal s a <= supply s.
Proof.
  intros (_ & _ & (Hnn & Hsup) & _). unfold bal. split.
  - now apply get0_nonneg.
  - rewrite Hsup. now apply get0_le_msum.
Qed.

Lemma BDM_deposit_le_supply cfg s k b :
  BDM cfg s -> get k (binds s) = Some b -> 0 <= b_deposit b <= bal s Deposit /\ bal s Deposit <= supply s.
Proof.
  intros HB G. split; [split|].
  - eapply BDM_dep_nonneg; eauto.
  - eapply BDM_dep_le_custody; eauto.
  - apply (BDM_bal_le_supply cfg s Deposit HB).
Qed.

Theorem Inv_bal_le_supply cfg s a : Inv cfg s -> 0 <= bal s a <= supply s.
Proof. intros HI. apply (BDM_bal_le_supply cfg). now apply Inv_BDM. Qed.

Theorem Inv_deposit_le_supply cfg s k b :
  Inv cfg s -> get k (binds s) = Some b ->
  0 <= b_deposit b <= bal s Deposit /\ bal s Deposit <= supply s.
Proof. intros HI. apply (BDM_deposit_le_supply cfg). now apply Inv_BDM. Qed.

(* BDM is known for every reachable state without wf_cfg (InvBank.Reach_BDM) *)
Theorem ReachS_deposit_le cfg S0 s k b :
  ReachS cfg S0 s -> get k (binds s) = Some b -> 0 <= b_deposit b <= S0.
Proof.
  intros Hr G. pose proof (ReachS_supply_le _ _ _ Hr) as Hs.
  pose proof (BDM_deposit_le_supply cfg s k b (Reach_BDM _ _ (ReachS_Reach _ _ _ Hr)) G). lia.
Qed.

Theorem ReachS_bal_le cfg S0 s a : ReachS cfg S0 s -> 0 <= bal s a <= S0.
Proof.
  intros Hr. pose proof (ReachS_supply_le _ _ _ Hr) as Hs.
  pose proof (BDM_bal_le_supply cfg s a (Reach_BDM _ _ (ReachS_Reach _ _ _ Hr))). lia.
Qed.
