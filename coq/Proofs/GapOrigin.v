(* Every request record stored in a reachable state was created by the EndBlock of an earlier
   reachable state, and has kept its provider, fee and expiry height since.  This turns the
   per-EndBlock theorems about newly issued requests (C06_end_block, C07 request fee) into
   facts about EVERY stored request of EVERY reachable state. *)
From Coq Require Import List ZArith Bool Lia.
From SVC Require Import Base.AMap Base.Res Base.Dec Model.Types Model.Pricing
  Model.Handlers Model.EndBlock Model.Step Proofs.Inv Proofs.Lemmas Proofs.InvCtx Proofs.InvAll
  Proofs.ReachRun Proofs.StepSpecs_window Proofs.TraceMoney.
Import ListNotations.
Open Scope Z_scope.

Lemma end_block_height_time cfg s dt :
  wf_cfg cfg -> Inv cfg s -> height s < HEIGHT_BOUND ->
  height (end_block cfg s dt) = height s + 1 /\ time (end_block cfg s dt) = time s + dt.
Proof.
  intros Hcfg HI Hb. unfold end_block. sproj. unfold end_blocker.
  set (l1 := due (expq s) (height s)).
  assert (Hn1 : NoDup l1) by (apply NoDup_due; apply (inv_wf _ _ HI)).
  assert (Hl1 : forall c, In c l1 -> In (height s, c) (expq s)) by (intros c; apply In_due).
  destruct (fold_expire_phase cfg l1 s Hcfg HI Hb Hn1 Hl1) as (I1 & Eh1 & Et1 & _).
  set (s1 := fold_left (expire_one cfg) l1 s) in *.
  set (l2 := due (newq s1) (height s1)).
  assert (Hn2 : NoDup l2) by (apply NoDup_due; apply (inv_wf _ _ I1)).
  assert (Hl2 : forall c, In c l2 -> In (height s1, c) (newq s1)) by (intros c; apply In_due).
  assert (Hb1 : height s1 < HEIGHT_BOUND) by now rewrite Eh1.
  destruct (fold_new_phase cfg l2 s1 Hcfg I1 Hb1 Hn2 Hl2) as (_ & Eh2 & Et2 & _).
  rewrite Eh2, Eh1, Et2, Et1. split; reflexivity.
Qed.

(* every reachable state is the end of a well-formed run from an initial state *)
Lemma run_snoc cfg s ops o : run cfg s (ops ++ [o]) = fst (step cfg (run cfg s ops) o).
Proof. unfold run. now rewrite fold_left_app. Qed.

Lemma wf_run_snoc cfg s ops o :
  wf_run cfg s ops -> wf_op (run cfg s ops) o -> wf_run cfg s (ops ++ [o]).
Proof.
  revert s. induction ops as [|a t IH]; intros s Hw Ho; cbn [app wf_run].
  - split; [exact Ho|exact I].
  - destruct Hw as (Ha & Ht). split; [exact Ha|]. apply IH; [exact Ht|exact Ho].
Qed.

Lemma Reach_is_run cfg s : Reach cfg s ->
  exists h0 t0 f ops, 1 <= h0 /\ 0 <= t0 /\ wf_funding f
    /\ wf_run cfg (init h0 t0 f) ops /\ s = run cfg (init h0 t0 f) ops.
Proof.
  induction 1 as [h0 t0 f H1 H2 H3|s o HR IH Ho].
  - exists h0, t0, f, []. repeat split; assumption.
  - destruct IH as (h0 & t0 & f & ops & A1 & A2 & A3 & A4 & ->).
    exists h0, t0, f, (ops ++ [o]). repeat split; try assumption.
    + now apply wf_run_snoc.
    + now rewrite run_snoc.
Qed.

Definition same_terms (q0 q : Req) : Prop :=
  r_prov q0 = r_prov q /\ r_fee q0 = r_fee q /\ r_exp q0 = r_exp q.

Theorem request_origin cfg s r q :
  wf_cfg cfg -> Reach cfg s -> get r (reqs s) = Some q ->
  exists s0 dt q0,
    Reach cfg s0 /\ 0 <= dt /\ height s0 < HEIGHT_BOUND
    /\ get r (reqs s0) = None /\ get r (reqs (end_block cfg s0 dt)) = Some q0
    /\ same_terms q0 q /\ height s0 < height s.
Proof.
  intros Hcfg HR. revert q. induction HR as [h0 t0 f H1 H2 H3|s o HR IH Ho]; intros q G.
  - unfold init in G. cbn [reqs get] in G. discriminate.
  - pose proof (Reach_Inv cfg s Hcfg HR) as HI.
    unfold step in G |- *. destruct (handle cfg s o) as [s'| |] eqn:E; cbn [fst] in G |- *; try (now apply IH).
    assert (Hmsg : (forall dt, o <> OEndBlock dt) ->
      exists s0 dt q0, Reach cfg s0 /\ 0 <= dt /\ height s0 < HEIGHT_BOUND
        /\ get r (reqs s0) = None /\ get r (reqs (end_block cfg s0 dt)) = Some q0
        /\ same_terms q0 q /\ height s0 < height s').
    { intros Hne. destruct (get r (reqs s)) as [q1|] eqn:G1.
      - destruct (C08_msg_keeps_requests cfg s o s' r q1 E Hne G1) as (q' & G' & A1 & A2 & A3 & _).
        assert (q' = q) by congruence. subst q'.
        destruct (IH q1 eq_refl) as (s0 & dt & q0 & B1 & B2 & B3 & B4 & B5 & (C1 & C2 & C3) & B6).
        exists s0, dt, q0. repeat split; try assumption; try congruence.
        pose proof (msg_height_time cfg s o s' Hne E) as (Eh & _). lia.
      - rewrite (C08_msg_no_new_requests cfg s o s' r E Hne G1) in G. discriminate. }
    destruct o; try (apply Hmsg; discriminate).
    cbn [handle] in E. injection E as <-. cbn [wf_op] in Ho. destruct Ho as (Hdt & Hb).
    pose proof (end_block_height_time cfg s dt Hcfg HI Hb) as (Hh & _).
    destruct (get r (reqs s)) as [q1|] eqn:G1.
    + destruct (C08_window_inv cfg s r q1 HI G1) as (Hle & _).
      destruct (Z.eq_dec (r_exp q1) (height s)) as [Ee|Hn].
      * destruct (C08_end_block_expires cfg s dt r q1 Hcfg HI Hb G1 Ee) as (Hnone & _).
        rewrite Hnone in G. discriminate.
      * destruct (C08_end_block_keeps cfg s dt r q1 Hcfg HI Hb G1 ltac:(lia)) as (Hk & _).
        assert (q1 = q) by congruence. subst q1.
        destruct (IH q eq_refl) as (s0 & dt0 & q0 & B1 & B2 & B3 & B4 & B5 & B6 & B7).
        exists s0, dt0, q0. repeat split; try assumption; try apply B6. lia.
    + exists s, dt, q. repeat split; try assumption; try reflexivity. lia.
Qed.

(* ------------------------------------------------------------------ *)
(* the log only grows *)

Lemma log_handle_incl cfg s o s' : I_wd s -> handle cfg s o = Ok s' -> incl (log s) (log s').
Proof.
  intros Hwd H.
  assert (Hd : (forall f t a, o <> OTransfer f t a) -> incl (log s) (log s')).
  { intros Hnt. destruct (only_events_move_money cfg s o s' Hwd H Hnt) as (d & E & _).
    rewrite E. intros e He. apply in_or_app. now right. }
  destruct o; try (apply Hd; discriminate).
  cbn [handle] in H. unfold h_transfer in H. inv_ok H.
  apply transfer_frame in H. rewrite H. sproj. apply incl_refl.
Qed.

Lemma log_step_incl cfg s o : I_wd s -> incl (log s) (log (fst (step cfg s o))).
Proof.
  intros Hwd. unfold step. destruct (handle cfg s o) as [s'| |] eqn:E; cbn [fst]; try apply incl_refl.
  eapply log_handle_incl; eauto.
Qed.

Lemma log_run_incl cfg s ops :
  wf_cfg cfg -> Reach cfg s -> wf_run cfg s ops -> incl (log s) (log (run cfg s ops)).
Proof.
  intros Hcfg. revert s. induction ops as [|o t IH]; intros s HR Hw; [apply incl_refl|].
  destruct Hw as (Ho & Ht). unfold run. cbn [fold_left]. fold (run cfg (fst (step cfg s o)) t).
  eapply incl_tran; [apply log_step_incl, (inv_wd cfg), Reach_Inv; assumption|].
  apply IH; [now apply Reach_step|exact Ht].
Qed.

(* heights never decrease *)
Lemma height_step_mono cfg s o :
  wf_cfg cfg -> Inv cfg s -> wf_op s o ->
  height s <= height (fst (step cfg s o)) <= height s + 1.
Proof.
  intros Hcfg HI Ho. unfold step. destruct (handle cfg s o) as [s'| |] eqn:E; cbn [fst]; try lia.
  assert (Hm : (forall dt, o <> OEndBlock dt) -> height s <= height s' <= height s + 1).
  { intros Hne. destruct (msg_height_time cfg s o s' Hne E) as (Eh & _). lia. }
  destruct o; try (apply Hm; discriminate).
  cbn [handle] in E. injection E as <-. cbn [wf_op] in Ho. destruct Ho as (_ & Hb).
  destruct (end_block_height_time cfg s dt Hcfg HI Hb) as (Eh & _). lia.
Qed.

Lemma height_run_mono cfg s ops :
  wf_cfg cfg -> Reach cfg s -> wf_run cfg s ops -> height s <= height (run cfg s ops).
Proof.
  intros Hcfg. revert s. induction ops as [|o t IH]; intros s HR Hw; [unfold run; cbn [fold_left]; lia|].
  destruct Hw as (Ho & Ht). unfold run. cbn [fold_left]. fold (run cfg (fst (step cfg s o)) t).
  pose proof (height_step_mono cfg s o Hcfg (Reach_Inv cfg s Hcfg HR) Ho).
  specialize (IH (fst (step cfg s o)) (Reach_step cfg s o HR Ho) Ht). lia.
Qed.
