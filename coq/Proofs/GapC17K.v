(* C17 / C18 bridge: the byte-level prefix scans that the two binding listings perform select
   exactly the records the model's listings select (filter on atoms), also for service names that
   are prefixes of one another.  Names and addresses of the model are atoms; [nb] / [ab] are their
   byte forms (Section hypotheses: injective, names zero-free - ValidateServiceName accepts only
   [a-zA-Z0-9_-] - and owners of the account length 20 for the owner-prefixed index, cf. K5). *)
From Coq Require Import List NArith ZArith Bool Lia.
From SVC Require Import Base.AMap Base.Bytes gen.KeysGen Model.Types Model.Handlers Model.Queries
  Proofs.KProofs.
Import ListNotations.

Section KS.
  Variable bech : bytes -> bytes.
  Variable nb : Z -> bytes.     (* service name atom -> its bytes *)
  Variable ab : Z -> bytes.     (* address atom -> its bytes *)
  Hypothesis nb_inj : forall a b, nb a = nb b -> a = b.
  Hypothesis nb_zero_free : forall a, zero_free (nb a).
  Hypothesis ab_inj : forall a b, ab a = ab b -> a = b.

  (* ServiceBindingsIterator(svc): prefix scan of 0x02 *)
  Theorem bindings_scan_is_filter (s : State) svc k b : In (k, b) (binds s) ->
    (is_prefix (GetBindingsSubspace (nb svc)) (GetServiceBindingKey bech (nb (fst k)) (ab (snd k)))
     <-> In (k, b) (bindings_of_service s svc)).
  Proof.
    intros Hin. rewrite (K_scan_exact_bindings_by_service bech (nb svc) (nb (fst k)) (ab (snd k)))
      by apply nb_zero_free.
    unfold bindings_of_service. rewrite filter_In. cbn [fst]. rewrite Z.eqb_eq. split.
    - intros E. apply nb_inj in E. auto.
    - intros [_ E]. now rewrite E.
  Qed.

  (* GetOwnerServiceBindings(owner, svc): prefix scan of the owner index 0x03 *)
  Theorem owner_bindings_scan_is_filter owner svc o sv p :
    length (ab owner) = 20%nat -> length (ab o) = 20%nat ->
    (is_prefix (GetOwnerBindingsSubspace (ab owner) (nb svc))
               (GetOwnerServiceBindingKey (ab o) (nb sv) (ab p))
     <-> ((o =? owner)%Z && (sv =? svc)%Z = true)).
  Proof.
    intros H1 H2.
    rewrite (K_scan_exact_bindings_by_owner_service_20 (ab owner) (nb svc) (ab o) (nb sv) (ab p))
      by (try assumption; apply nb_zero_free).
    rewrite andb_true_iff, !Z.eqb_eq. split.
    - intros [E1 E2]. apply ab_inj in E1. apply nb_inj in E2. auto.
    - intros [-> ->]. auto.
  Qed.
End KS.
