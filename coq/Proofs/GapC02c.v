(* Gap closing for C02 / C04, part 3: per-step attribution of every event that mentions a
   request.  For a step of a reachable state, an event e about request r among the events the
   step appended is
     - in EndBlock: an EvIssue of a request stamped with the height of this block, or one of the
       expiry events of a request that was stored, still active and at its expiry height when
       the block ended: EvExpire r, and outside super mode EvRefund r (consumer of the context)
       (its fee) and EvSlash r (service of the context, its provider) _;
     - in an accepted response to r: EvRespond r, and EvRefund / EvSlash (malformed output) or
       EvEarn / EvTax (otherwise);
     - in no other operation.
   Hence: EvExpire appears only at the EndBlock of the expiry height of a still-active request
   ("in time"), a time-out in super mode is never slashed, EndBlock never earns. *)
From Coq Require Import List ZArith Bool Lia.
From SVC Require Import Base.AMap Base.Res Base.Dec Model.Types Model.Pricing
  Model.Handlers Model.EndBlock Model.Step Proofs.Inv Proofs.Lemmas Proofs.ReqLemmas
  Proofs.CtxOps Proofs.BankLemmas Proofs.InvBank Proofs.InvSched Proofs.InvEscrow Proofs.InvReq
  Proofs.InvAll Proofs.ReachRun Proofs.StepSpecs_window Proofs.StepSpecs_deposit
  Proofs.TraceLemmas Proofs.TraceSettle
  Proofs.GapC02 Proofs.GapC02b Proofs.GapC04.
Import ListNotations.
Open Scope Z_scope.

(* the expiry events of request r, read in state s *)
Definition expiry_event (s : State) (r : ReqId) (e : Event) : Prop :=
  exists q rc, get r (reqs s) = Some q /\ r_active q = true /\ r_exp q = height s
    /\ get (rid_ctx r) (ctxs s) = Some rc
    /\ (e = EvExpire r
        \/ (c_super rc = false
            /\ (e = EvRefund r (c_cons rc) (r_fee q)
                \/ exists amt, e = EvSlash r (c_svc rc, r_prov q) amt))).

(* an issue event of this block *)
Definition issue_now (h : Z) (r : ReqId) (e : Event) : Prop :=
  exists p c f, e = EvIssue r p c f /\ rid_height r = h.

(* ------------------------------------------------------------------ *)
(* the expiry loop: only the events of its requests *)

Lemma fold_expire_only cfg l : forall s,
  wf_cfg cfg -> NoDup l -> LI cfg s ->
  (forall r', In r' l -> exists q' rc', get r' (reqs s) = Some q' /\ r_active q' = true
      /\ get (rid_ctx r') (ctxs s) = Some rc' /\ (c_super rc' = true -> r_fee q' = 0)
      /\ has (c_svc rc', r_prov q') (binds s) = true) ->
  exists d, log (fold_left (expire_req cfg) l s) = d ++ log s
    /\ forall e, In e d -> exists r q rc, In r l /\ get r (reqs s) = Some q /\ r_active q = true
         /\ get (rid_ctx r) (ctxs s) = Some rc
         /\ (e = EvExpire r
             \/ (c_super rc = false
                 /\ (e = EvRefund r (c_cons rc) (r_fee q)
                     \/ exists amt, e = EvSlash r (c_svc rc, r_prov q) amt))).
Proof.
  induction l as [|a l IH]; intros s Hcfg Hn HL Hl; cbn [fold_left].
  { exists []. split; [reflexivity|]. intros e []. }
  inversion Hn as [|? ? Hni Hn']; subst.
  destruct (Hl a (or_introl eq_refl)) as (qa & rca & Ga & Haa & Grca & Hsa & Hba).
  pose proof (expire_req_core cfg s a) as C. cbv zeta in C. destruct C as (_ & C2 & _).
  assert (Hl' : forall r', In r' l -> exists q' rc', get r' (reqs (expire_req cfg s a)) = Some q'
            /\ r_active q' = true /\ get (rid_ctx r') (ctxs (expire_req cfg s a)) = Some rc'
            /\ (c_super rc' = true -> r_fee q' = 0)
            /\ has (c_svc rc', r_prov q') (binds (expire_req cfg s a)) = true).
  { intros r' Hr'. destruct (Hl r' (or_intror Hr')) as (q' & rc' & G1' & Ha' & G2' & Hs' & Hb').
    exists q', rc'. rewrite C2, expire_req_reqs, Ga, Grca.
    rewrite get_set_neq; [|intros ->; contradiction].
    repeat split; auto. now apply has_binds_expire_req. }
  destruct (IH (expire_req cfg s a) Hcfg Hn' (expire_req_LI cfg s a qa rca Hcfg HL Ga Haa Grca Hsa Hba) Hl')
    as (d' & Ed' & Hd').
  destruct HL as (_ & Hbdm & Hidx & HJ & _).
  pose proof (expire_req_log cfg s a qa rca Hcfg Hbdm Hidx HJ Ga Haa Grca Hba) as Hlog.
  assert (Hold : forall e, In e d' -> exists r q rc, In r (a :: l) /\ get r (reqs s) = Some q
             /\ r_active q = true /\ get (rid_ctx r) (ctxs s) = Some rc
             /\ (e = EvExpire r \/ (c_super rc = false
                 /\ (e = EvRefund r (c_cons rc) (r_fee q)
                     \/ exists amt, e = EvSlash r (c_svc rc, r_prov q) amt)))).
  { intros e He. destruct (Hd' e He) as (r & q & rc & Hr & G & Hact & Grc & Hev).
    exists r, q, rc. split; [now right|].
    rewrite expire_req_reqs, Ga, Grca, get_set_neq in G by (intros ->; contradiction).
    rewrite C2 in Grc. auto. }
  destruct (c_super rca) eqn:Es.
  - exists (d' ++ [EvExpire a]). split; [rewrite Ed', Hlog, <- app_assoc; reflexivity|].
    intros e He. apply in_app_or in He. destruct He as [He|[<-|[]]]; [now apply Hold|].
    exists a, qa, rca. split; [now left|]. auto.
  - destruct Hlog as (k & amt & sa & Esl & Elsa & Hlog).
    apply slash_inv in Esl. destruct Esl as (q2 & rc2 & b & Hq2 & Hrc2 & _ & _ & _ & _ & Esa).
    rewrite Ga in Hq2. injection Hq2 as <-. rewrite Grca in Hrc2. injection Hrc2 as <-.
    rewrite Esa in Elsa. sproj. injection Elsa as Ek Eamt. subst k.
    exists (d' ++ [EvExpire a; EvRefund a (c_cons rca) (r_fee qa); EvSlash a (c_svc rca, r_prov qa) amt]).
    split; [rewrite Ed', Hlog, <- app_assoc; reflexivity|].
    intros e He. apply in_app_or in He. destruct He as [He|He]; [now apply Hold|].
    exists a, qa, rca. split; [now left|]. repeat (split; [assumption|]).
    destruct He as [<-|[<-|[<-|[]]]]; [now left|right; split; [exact Es|now left]|right; split; [exact Es|right; eauto]].
Qed.

(* the part of expire_one after the loop appends only quiet events *)
Lemma expire_one_Q_from cfg s c rc :
  get c (ctxs s) = Some rc ->
  Q (if c_bdone rc then s else fold_left (expire_req cfg) (active_rids s c (c_counter rc)) s)
    (expire_one cfg s c).
Proof.
  intros G. unfold expire_one, ctx_or_zero. rewrite G.
  destruct (c_bdone rc).
  - eapply Q_trans; [|apply Q_clean_batch].
    destruct (c_state rc); [destruct (c_rep rc && _)| |]; ext_auto.
  - set (sf := fold_left (expire_req cfg) (active_rids s c (c_counter rc)) s).
    pose proof (Q_complete_batch sf c rc) as Hq.
    destruct (complete_batch sf c rc) as [s1 rc1]. cbn [fst] in Hq.
    eapply Q_trans; [exact Hq|]. eapply Q_trans; [|apply Q_clean_batch].
    destruct (c_state rc1); [destruct (c_rep rc1 && _)| |]; ext_auto.
Qed.

(* one run of the expiry handler *)
Lemma expire_one_only cfg s c :
  wf_cfg cfg -> Inv cfg s -> T cfg s -> In (height s, c) (expq s) ->
  exists d, log (expire_one cfg s c) = d ++ log s
    /\ forall e r, In e d -> ev_rid e = Some r -> rid_ctx r = c /\ expiry_event s r e.
Proof.
  intros Hcfg HI HT Hdue. destruct (due_ctx _ _ _ HI Hdue) as (rc & Grc & Gexp).
  destruct (expire_one_Q_from cfg s c rc Grc) as (dq & Eq & Hdq).
  assert (Hquiet : forall e r, In e dq -> ev_rid e = Some r -> False).
  { intros e r He Hr. rewrite Forall_forall in Hdq. specialize (Hdq e He). unfold quiet in Hdq. congruence. }
  destruct (c_bdone rc) eqn:Ebd.
  { exists dq. split; [exact Eq|]. intros e r He Hr. exfalso. eauto. }
  pose proof (inv_wf _ _ HI) as Hwf. assert (Hwr : wf (reqs s)) by apply Hwf.
  destruct (inv_req _ _ HI) as (R1 & _).
  assert (Hall : forall r', In r' (active_rids s c (c_counter rc)) ->
            exists q' rc', get r' (reqs s) = Some q' /\ r_active q' = true
              /\ get (rid_ctx r') (ctxs s) = Some rc' /\ (c_super rc' = true -> r_fee q' = 0)
              /\ has (c_svc rc', r_prov q') (binds s) = true).
  { intros r' Hr'. apply In_active_rids in Hr'; [|assumption].
    destruct Hr' as (q' & G' & _ & _ & Ha'). exists q'.
    destruct (R1 _ _ (get_In _ _ _ G')) as (rc' & G2 & _ & _ & _ & _ & _ & _ & Hb' & Hs').
    exists rc'. repeat split; assumption. }
  destruct (fold_expire_only cfg _ s Hcfg (NoDup_active_rids s c (c_counter rc) Hwr)
              (Inv_LI cfg s HI HT) Hall) as (d & Ed & Hd).
  exists (dq ++ d). split; [rewrite Eq, Ed, app_assoc; reflexivity|].
  intros e r He Hr. apply in_app_or in He. destruct He as [He|He]; [exfalso; eauto|].
  destruct (Hd e He) as (r' & q & rc' & Hr' & G & Hact & Grc' & Hev).
  assert (r' = r).
  { destruct Hev as [->|(_ & [->|(amt & ->)])]; cbn [ev_rid] in Hr; congruence. }
  subst r'. apply In_active_rids in Hr'; [|assumption]. destruct Hr' as (_ & _ & Hc & _).
  split; [exact Hc|]. exists q, rc'. split; [exact G|]. split; [exact Hact|].
  split; [|split; [exact Grc'|exact Hev]].
  destruct (active_req_facts cfg s r q rc' HI G Hact Grc') as (_ & _ & _ & _ & _ & Ge).
  rewrite Hc, Gexp in Ge. now injection Ge as <-.
Qed.

(* the whole expiry phase, relative to the state s0 in which the block started *)
Lemma fold_expire_phase_only cfg s0 l : forall s,
  wf_cfg cfg -> Inv cfg s -> T cfg s -> height s < HEIGHT_BOUND -> height s = height s0 ->
  NoDup l -> (forall c, In c l -> In (height s, c) (expq s)) ->
  (forall c r, In c l -> rid_ctx r = c -> get r (reqs s) = get r (reqs s0)) ->
  (forall c, In c l -> get c (ctxs s) = get c (ctxs s0)) ->
  exists d, log (fold_left (expire_one cfg) l s) = d ++ log s
    /\ forall e r, In e d -> ev_rid e = Some r -> expiry_event s0 r e.
Proof.
  induction l as [|a l IH]; intros s Hcfg Hi HT Hb Hh Hn Hl Hreq Hctx; cbn [fold_left].
  { exists []. split; [reflexivity|]. intros e r []. }
  inversion Hn as [|? ? Hna Hn']; subst.
  assert (Hda : In (height s, a) (expq s)) by (apply Hl; now left).
  pose proof (Inv_expire_one cfg s a Hcfg Hi Hda Hb) as Hi1.
  pose proof (T_expire_one cfg s a Hcfg Hi HT Hda Hb) as HT1.
  pose proof (height_expire_one cfg s a Hcfg Hi Hda Hb) as Eh.
  pose proof (expq_after_expire_one cfg s a Hcfg Hi Hda Hb) as Eq.
  destruct (expire_one_only cfg s a Hcfg Hi HT Hda) as (d1 & Ed1 & Hd1).
  destruct (IH (expire_one cfg s a)) as (d2 & Ed2 & Hd2); try assumption.
  - now rewrite Eh.
  - now rewrite Eh.
  - intros c Hc. rewrite Eh. apply Eq. split; [apply Hl; now right|]. intros ->. contradiction.
  - intros c r Hc Hrc. rewrite <- (Hreq c r (or_intror Hc) Hrc).
    apply (expire_one_other cfg s a r Hcfg Hi Hda Hb). rewrite Hrc. intros ->. contradiction.
  - intros c Hc. rewrite <- (Hctx c (or_intror Hc)).
    destruct (expire_one_spec cfg s a Hcfg Hi Hda Hb) as (rc & rc1 & _ & _ & _ & _ & Ht & _).
    apply (t_ctxs _ _ _ Ht). intros ->. contradiction.
  - exists (d2 ++ d1). split; [rewrite Ed2, Ed1, app_assoc; reflexivity|].
    intros e r He Hr. apply in_app_or in He. destruct He as [He|He]; [eapply Hd2; eauto|].
    destruct (Hd1 e r He Hr) as (Hc & q & rc & G & Hact & Hexp & Grc & Hev).
    exists q, rc. rewrite <- (Hreq a r (or_introl eq_refl) Hc), <- Hh.
    rewrite Hc in Grc |- *. rewrite <- (Hctx a (or_introl eq_refl)). auto.
Qed.

(* ------------------------------------------------------------------ *)
(* the new-batch phase: only issue events stamped with the height of the block *)

Definition new_issue (h : Z) (e : Event) : Prop :=
  quiet e \/ exists r p c f, e = EvIssue r p c f /\ rid_height r = h.

Lemma NQ_issue_all s c rc n i provs :
  ext (new_issue (height s)) (log s) (log (issue_all s c rc n i provs)).
Proof.
  rewrite issue_all_log. exists (issue_evs s c rc n i provs). split; [reflexivity|].
  apply Forall_forall. intros e He. apply In_issue_evs in He. destruct He as (j & p & -> & _).
  right. do 4 eexists. split; reflexivity.
Qed.

Lemma NQ_new_one cfg s c : ext (new_issue (height s)) (log s) (log (new_one cfg s c)).
Proof.
  assert (Hq : forall l, ext quiet (log s) l -> ext (new_issue (height s)) (log s) l).
  { intros l. apply ext_weaken. intros e He. now left. }
  unfold new_one. set (rc := ctx_or_zero s c).
  destruct (is_state rc Running && c_rep rc && (0 <? c_total rc) && (c_total rc <=? c_counter rc)).
  { apply Hq. ext_auto. }
  match goal with |- ext _ _ (log (del_newq ?x c ?h)) => change (log (del_newq x c h)) with (log x) end.
  destruct (is_state rc Running); [|apply ext_refl].
  set (el := filter_providers s rc (c_provs rc)).
  destruct ((0 <? len el) && (c_thr rc <=? len el)).
  2:{ apply Hq. unfold skip_batch. ext_auto. }
  assert (Hinit : forall sp, height sp = height s -> ext (new_issue (height s)) (log s) (log sp) ->
            ext (new_issue (height s)) (log s)
              (log (add_expq (initiate_requests sp c (map fst el)) c (height s + c_timeout rc)))).
  { intros sp Eh Hsp. unfold initiate_requests. sproj.
    apply ext_cons; [left; reflexivity|]. eapply ext_trans; [exact Hsp|].
    rewrite <- Eh. apply NQ_issue_all. }
  destruct (c_super rc).
  - apply Hinit; [reflexivity|apply ext_refl].
  - destruct (transfer (User (c_cons rc)) Escrow (sum_prices el) s) as [x|] eqn:Et.
    + pose proof (transfer_frame _ _ _ _ _ Et) as Hf. apply Hinit.
      * sproj. now rewrite Hf.
      * apply Hq. sproj. rewrite Hf. ext_auto.
    + apply Hq. unfold on_paused. destruct (c_mod rc =? 0); ext_auto.
Qed.

Lemma fold_new_only cfg h l : forall s,
  wf_cfg cfg -> Inv cfg s -> height s = h -> h < HEIGHT_BOUND -> NoDup l ->
  (forall c, In c l -> In (height s, c) (newq s)) ->
  ext (new_issue h) (log s) (log (fold_left (new_one cfg) l s)).
Proof.
  induction l as [|a l IH]; intros s Hcfg Hi Hh Hb Hn Hl; cbn [fold_left]; [apply ext_refl|].
  inversion Hn as [|? ? Hna Hn']; subst.
  assert (Hb' : height s < HEIGHT_BOUND) by assumption.
  assert (Hda : In (height s, a) (newq s)) by (apply Hl; now left).
  pose proof (Inv_new_one cfg s a Hcfg Hi Hda Hb') as Hi1.
  pose proof (height_new_one cfg s a Hcfg Hi Hda Hb') as Eh.
  pose proof (newq_after_new_one cfg s a Hcfg Hi Hda Hb') as Eq.
  eapply ext_trans; [apply NQ_new_one|].
  apply IH; try assumption.
  intros c Hc. rewrite Eh. apply Eq. split; [apply Hl; now right|]. intros ->. contradiction.
Qed.

(* ------------------------------------------------------------------ *)
(* EndBlock *)

Theorem endblock_request_events cfg s dt :
  wf_cfg cfg -> Reach cfg s -> wf_op s (OEndBlock dt) ->
  exists d, log (end_block cfg s dt) = d ++ log s
    /\ forall e r, In e d -> ev_rid e = Some r ->
         issue_now (height s) r e \/ expiry_event s r e.
Proof.
  intros Hcfg HR (Hdt & Hb).
  pose proof (Reach_Inv cfg s Hcfg HR) as HI. pose proof (Reach_T cfg s Hcfg HR) as HT.
  unfold end_block, end_blocker.
  set (l1 := due (expq s) (height s)).
  assert (Hn1 : NoDup l1) by (apply NoDup_due; apply (inv_wf _ _ HI)).
  assert (Hl1 : forall c, In c l1 -> In (height s, c) (expq s)) by (intros c; apply In_due).
  destruct (fold_expire_phase cfg l1 s Hcfg HI Hb Hn1 Hl1) as (I1 & H1 & _).
  destruct (fold_expire_phase_only cfg s l1 s Hcfg HI HT Hb eq_refl Hn1 Hl1) as (d1 & Ed1 & Hd1); auto.
  set (s1 := fold_left (expire_one cfg) l1 s) in *.
  set (l2 := due (newq s1) (height s1)).
  assert (Hn2 : NoDup l2) by (apply NoDup_due; apply (inv_wf _ _ I1)).
  assert (Hl2 : forall c, In c l2 -> In (height s1, c) (newq s1)) by (intros c; apply In_due).
  destruct (fold_new_only cfg (height s) l2 s1 Hcfg I1 H1 Hb Hn2 Hl2) as (d2 & Ed2 & Hd2).
  exists (d2 ++ d1). sproj. split; [rewrite Ed2, Ed1, app_assoc; reflexivity|].
  intros e r He Hr. apply in_app_or in He. destruct He as [He|He]; [left|right; eapply Hd1; eauto].
  rewrite Forall_forall in Hd2. destruct (Hd2 e He) as [Hq|(r' & p & c & f & -> & Hh)].
  - unfold quiet in Hq. congruence.
  - cbn [ev_rid] in Hr. injection Hr as ->. exists p, c, f. auto.
Qed.

(* ------------------------------------------------------------------ *)
(* every step *)

Definition respond_event (cfg : Params) (s : State) (r : ReqId) (out : Z) (ov : bool) (e : Event) : Prop :=
  exists q rc, get r (reqs s) = Some q /\ r_active q = true /\ get (rid_ctx r) (ctxs s) = Some rc
    /\ (e = EvRespond r
        \/ if negb (out =? 0) && negb ov
           then e = EvRefund r (c_cons rc) (r_fee q)
                \/ e = EvSlash r (c_svc rc, r_prov q) (mul_trunc (dep_at s (c_svc rc, r_prov q)) (p_slash cfg))
           else e = EvEarn r (r_prov q) (r_fee q - mul_trunc (r_fee q) (p_tax cfg))
                \/ e = EvTax r (mul_trunc (r_fee q) (p_tax cfg))).

Theorem step_request_events cfg s o s' d e r :
  wf_cfg cfg -> Reach cfg s -> wf_op s o -> handle cfg s o = Ok s' ->
  log s' = d ++ log s -> In e d -> ev_rid e = Some r ->
  ((exists dt, o = OEndBlock dt) /\ (issue_now (height s) r e \/ expiry_event s r e))
  \/ (exists w c out v, o = ORespond r w c out v true /\ respond_event cfg s r out v e).
Proof.
  intros Hcfg HR Hwf H El Hin Hr.
  destruct (request_events_only_by cfg s o s' d e r H El Hin Hr) as [(dt & ->)|(w & c & out & v & ->)].
  - left. split; [eauto|]. cbn [handle] in H. injection H as <-.
    destruct (endblock_request_events cfg s dt Hcfg HR Hwf) as (d' & El' & Hd').
    rewrite El in El'. apply app_inv_tail in El'. subst d'. eauto.
  - right. exists w, c, out, v. split; [reflexivity|].
    cbn [handle] in H. apply respond_effect in H.
    destruct H as (q & rc & dq & _ & Gq & Grc & Hw & Hact & Hdq & H).
    exists q, rc. repeat (split; [assumption|]).
    assert (Hcase : forall ev3, log s' = dq ++ ev3 ++ log s -> In e ev3).
    { intros ev3 E3. rewrite El, app_assoc in E3. apply app_inv_tail in E3. subst d.
      apply in_app_or in Hin. destruct Hin as [Hin|Hin]; [|exact Hin].
      rewrite Forall_forall in Hdq. specialize (Hdq e Hin). unfold quiet in Hdq. congruence. }
    destruct (negb (out =? 0) && negb v).
    + destruct H as (sa & b & _ & Gb & E3 & _). rewrite (dep_at_get _ _ _ Gb).
      destruct (Hcase _ E3) as [<-|[<-|[<-|[]]]]; auto.
    + destruct H as (E3 & _). destruct (Hcase _ E3) as [<-|[<-|[<-|[]]]]; auto.
Qed.

(* "in time": an expiry event appears only in the EndBlock of the expiry height of a request
   that was still active *)
Corollary expire_only_at_expiry cfg s o s' d r :
  wf_cfg cfg -> Reach cfg s -> wf_op s o -> handle cfg s o = Ok s' ->
  log s' = d ++ log s -> In (EvExpire r) d ->
  (exists dt, o = OEndBlock dt)
  /\ exists q, get r (reqs s) = Some q /\ r_active q = true /\ r_exp q = height s.
Proof.
  intros Hcfg HR Hwf H El Hin.
  destruct (step_request_events cfg s o s' d _ r Hcfg HR Hwf H El Hin eq_refl)
    as [(Ho & [(p & c & f & E & _)|(q & rc & G & Ha & He & _)])|(w & c & out & v & _ & q & rc & _ & _ & _ & Hev)].
  - discriminate E.
  - split; [exact Ho|eauto].
  - exfalso. destruct Hev as [E|Hev]; [discriminate E|].
    destruct (negb (out =? 0) && negb v); destruct Hev as [E|E]; discriminate E.
Qed.

(* instance: the block in which r3 and r4 of the example history expire *)
Example tx_expiry_block_events :
  let s := run tx_cfg tx_s0 (firstn 26 tx_ops) in
  filter (fun e => match ev_rid e with Some _ => true | None => false end)
         (firstn 8 (log (end_block tx_cfg s 5)))
  = [EvExpire tx_r4; EvRefund tx_r4 20 100; EvSlash tx_r4 (1, 12) 75;
     EvExpire tx_r3; EvRefund tx_r3 20 100; EvSlash tx_r3 (1, 11) 100]
  /\ height s = 21 /\ option_map r_exp (get tx_r3 (reqs s)) = Some 21
  /\ option_map r_exp (get tx_r4 (reqs s)) = Some 21.
Proof. vm_compute. repeat split. Qed.
