(* Governance parameter changes inside a history (Model/ParamStep.v).

   What is proved:
   * a parameter set accepted by Params.Validate is a well-formed configuration
     (wf_cfg), given the one bound validation does not give (the maximum request
     timeout is a height difference: below 2^62, exclusion X-K2);
   * the invariant is preserved by every parameter change that RELAXES the two
     conjuncts that bound stored records by the parameters (I_min: the minimum
     deposit does not grow; I_ctx: the maximum request timeout does not shrink);
     tax, slash fraction, arbitration and complaint limits may change freely;
   * hence the invariant holds in every state reachable by operations and
     relaxing parameter changes, under the parameters in force (ReachP_Inv);
   * TIGHTENING is not an oversight of the proof: a reachable state and a legal
     tighter parameter set are exhibited for which I_min (resp. I_ctx) is false.
     The module, like the model, does not revisit stored bindings and contexts
     when its parameters change: they are grandfathered. *)
From Coq Require Import List ZArith Bool Lia.
From SVC Require Import Base.AMap Base.Res Base.Dec Model.Types Model.Pricing
  Model.Handlers Model.EndBlock Model.Step Model.ParamStep Proofs.Inv Proofs.Lemmas
  Proofs.InvAll.
Import ListNotations.
Open Scope Z_scope.

(* ------------------------------------------------------------------ *)
(* validation gives the domain *)

Lemma valid_params_spec c :
  valid_params c = true <->
  (0 < p_max_timeout c /\ 0 < p_multiple c /\ 0 <= p_min_deposit c
   /\ 0 <= p_slash c <= ONE /\ 0 <= p_tax c < ONE /\ 0 < p_compl c /\ 0 < p_arb c).
Proof.
  unfold valid_params. rewrite !andb_true_iff, !Z.ltb_lt, !Z.leb_le. tauto.
Qed.

(* the two premises beyond validation: the timeout bound (X-K2) and the harness constant *)
Theorem valid_params_wf_cfg c :
  valid_params c = true -> p_max_timeout c < HEIGHT_BOUND -> p_cbmod c <> 0 -> wf_cfg c.
Proof.
  intros V Hb Hm. apply valid_params_spec in V. unfold wf_cfg. intuition lia.
Qed.

Lemma keep_consts_fields old c :
  p_max_timeout (keep_consts old c) = p_max_timeout c
  /\ p_multiple (keep_consts old c) = p_multiple c
  /\ p_min_deposit (keep_consts old c) = p_min_deposit c
  /\ p_tax (keep_consts old c) = p_tax c
  /\ p_slash (keep_consts old c) = p_slash c
  /\ p_arb (keep_consts old c) = p_arb c
  /\ p_compl (keep_consts old c) = p_compl c
  /\ p_modsvc (keep_consts old c) = p_modsvc old
  /\ p_cbmod (keep_consts old c) = p_cbmod old.
Proof. unfold keep_consts. cbn. repeat split. Qed.

Theorem valid_params_keep_wf_cfg old c :
  wf_cfg old -> valid_params c = true -> p_max_timeout c < HEIGHT_BOUND ->
  wf_cfg (keep_consts old c).
Proof.
  intros Ho V Hb. apply valid_params_spec in V. unfold wf_cfg in *.
  unfold keep_consts. cbn [p_max_timeout p_multiple p_min_deposit p_tax p_slash p_arb p_compl p_cbmod].
  intuition lia.
Qed.

(* what pstep does *)
Lemma pstep_op cfg s o :
  pstep (cfg, s) (PO o) = ((cfg, fst (step cfg s o)), snd (step cfg s o)).
Proof. unfold pstep. now destruct (step cfg s o). Qed.

Lemma pstep_set_valid cfg s c :
  valid_params c = true -> pstep (cfg, s) (PSet c) = ((keep_consts cfg c, s), ROk).
Proof. intros V. unfold pstep. now rewrite V. Qed.

Lemma pstep_set_invalid cfg s c :
  valid_params c = false -> pstep (cfg, s) (PSet c) = ((cfg, s), RErr).
Proof. intros V. unfold pstep. now rewrite V. Qed.

(* a parameter change never touches the state, and never panics *)
Theorem pstep_set_state cfg s c :
  snd (fst (pstep (cfg, s) (PSet c))) = s /\ snd (pstep (cfg, s) (PSet c)) <> RPanic.
Proof.
  unfold pstep. destruct (valid_params c); cbn [fst snd]; split; try reflexivity; discriminate.
Qed.

(* ------------------------------------------------------------------ *)
(* relaxing changes preserve the invariant *)

Definition relaxes (cfg cfg' : Params) : Prop :=
  p_max_timeout cfg <= p_max_timeout cfg'
  /\ p_multiple cfg' <= p_multiple cfg
  /\ p_min_deposit cfg' <= p_min_deposit cfg
  /\ p_cbmod cfg' = p_cbmod cfg.

Lemma relaxes_refl cfg : relaxes cfg cfg.
Proof. unfold relaxes. repeat split; lia. Qed.

Lemma relaxes_trans a b c : relaxes a b -> relaxes b c -> relaxes a c.
Proof. unfold relaxes. intros (A1 & A2 & A3 & A4) (B1 & B2 & B3 & B4). repeat split; lia. Qed.

(* the base price of a stored binding is not negative (schema of the pricing text) *)
Lemma bound_price_nonneg cfg s k b :
  I_index cfg s -> In (k, b) (binds s) ->
  pricing_of s k = parse_pricing (b_raw b) /\ 0 <= pr_price (parse_pricing (b_raw b)).
Proof.
  intros (I1 & _) Hin. destruct (I1 _ _ Hin) as (_ & _ & _ & Gp & _ & Hs & _).
  split; [unfold pricing_of; now rewrite Gp|].
  unfold schema_pricing in Hs. apply andb_true_iff in Hs. destruct Hs as [_ Hs]. now apply Z.leb_le in Hs.
Qed.

Lemma I_min_relax cfg cfg' s :
  relaxes cfg cfg' -> I_index cfg s -> I_min cfg s -> I_min cfg' s.
Proof.
  intros (_ & Hm & Hd & _) Hidx Hmin k b Hin Ha.
  pose proof (Hmin k b Hin Ha) as Hle.
  destruct (bound_price_nonneg cfg s k b Hidx Hin) as [Ep Hp].
  unfold min_dep_val in *. rewrite Ep in *.
  assert (pr_price (parse_pricing (b_raw b)) * p_multiple cfg'
          <= pr_price (parse_pricing (b_raw b)) * p_multiple cfg)
    by (apply Z.mul_le_mono_nonneg_l; assumption).
  lia.
Qed.

Lemma I_index_relax cfg cfg' s :
  relaxes cfg cfg' -> I_index cfg s -> I_index cfg' s.
Proof.
  intros (_ & Hm & _ & _) Hidx. pose proof Hidx as (I1 & I2 & I3 & I4).
  split; [|split; [exact I2|split; [exact I3|exact I4]]].
  intros k b Hin. destruct (I1 k b Hin) as (A1 & A2 & A3 & A4 & A5 & A6 & A7).
  repeat (split; [assumption|]).
  intros Ha. specialize (A7 Ha).
  destruct (bound_price_nonneg cfg s k b Hidx Hin) as [_ Hp].
  assert (pr_price (parse_pricing (b_raw b)) * p_multiple cfg'
          <= pr_price (parse_pricing (b_raw b)) * p_multiple cfg)
    by (apply Z.mul_le_mono_nonneg_l; assumption).
  lia.
Qed.

Lemma I_ctx_relax cfg cfg' s :
  relaxes cfg cfg' -> I_ctx cfg s -> I_ctx cfg' s.
Proof.
  intros (Ht & _ & _ & Hc) Hctx c rc G.
  destruct (Hctx c rc G) as (A1 & A2 & A3 & A4 & A5 & A6 & A7 & A8 & A9).
  split; [lia|]. repeat (split; [assumption|]).
  split; [|split; assumption]. rewrite Hc. exact A7.
Qed.

(* No premise on cfg' other than `relaxes` is needed: the remaining parameters (tax, slash
   fraction, arbitration and complaint limits, the module-service atom) do not occur in Inv. *)
Theorem Inv_relax cfg cfg' s : relaxes cfg cfg' -> Inv cfg s -> Inv cfg' s.
Proof.
  intros Hr Hi. constructor; try apply Hi.
  - exact (I_min_relax cfg cfg' s Hr (inv_index _ _ Hi) (inv_min _ _ Hi)).
  - exact (I_index_relax cfg cfg' s Hr (inv_index _ _ Hi)).
  - exact (I_ctx_relax cfg cfg' s Hr (inv_ctx _ _ Hi)).
Qed.

(* ------------------------------------------------------------------ *)
(* reachability with parameter changes *)

Inductive ReachP : Params -> State -> Prop :=
| ReachP_init cfg h0 t0 f :
    wf_cfg cfg -> 1 <= h0 -> 0 <= t0 -> wf_funding f -> ReachP cfg (init h0 t0 f)
| ReachP_step cfg s o :
    ReachP cfg s -> wf_op s o -> ReachP cfg (fst (step cfg s o))
| ReachP_set cfg cfg' s :
    ReachP cfg s -> wf_cfg cfg' -> relaxes cfg cfg' -> ReachP cfg' s.

Lemma ReachP_wf_cfg cfg s : ReachP cfg s -> wf_cfg cfg.
Proof. induction 1; assumption. Qed.

Theorem ReachP_Inv cfg s : ReachP cfg s -> Inv cfg s.
Proof.
  induction 1 as [cfg h0 t0 f Hc H1 H2 H3|cfg s o H IH Ho|cfg cfg' s H IH Hc Hr].
  - now apply Inv_init.
  - apply Inv_step; [exact (ReachP_wf_cfg _ _ H)|exact IH|exact Ho].
  - exact (Inv_relax cfg cfg' s Hr IH).
Qed.

(* the form with the explicit premise on the parameters in force *)
Corollary ReachP_Inv' cfg s : ReachP cfg s -> wf_cfg cfg -> Inv cfg s.
Proof. intros H _. now apply ReachP_Inv. Qed.

(* fixed-parameter histories are the special case without a change *)
Theorem Reach_ReachP cfg s : wf_cfg cfg -> Reach cfg s -> ReachP cfg s.
Proof.
  intros Hc H. induction H as [h0 t0 f H1 H2 H3|s o H IH Ho].
  - now apply ReachP_init.
  - now apply ReachP_step.
Qed.

(* the executable parameter machine stays inside ReachP: the domain of a change is
   "accepted by validation => timeout bound and relaxing"; a rejected set changes nothing *)
Definition wf_pop (cfg : Params) (s : State) (o : POp) : Prop :=
  match o with
  | PO o' => wf_op s o'
  | PSet c => valid_params c = true ->
              p_max_timeout c < HEIGHT_BOUND /\ relaxes cfg (keep_consts cfg c)
  end.

Theorem ReachP_pstep cfg s o :
  ReachP cfg s -> wf_pop cfg s o ->
  ReachP (fst (fst (pstep (cfg, s) o))) (snd (fst (pstep (cfg, s) o))).
Proof.
  intros H Ho. destruct o as [o'|c].
  - rewrite pstep_op. cbn [fst snd]. now apply ReachP_step.
  - destruct (valid_params c) eqn:V.
    + rewrite (pstep_set_valid _ _ _ V). cbn [fst snd]. cbn [wf_pop] in Ho.
      destruct (Ho V) as [Hb Hr].
      apply ReachP_set with (cfg := cfg); [exact H| |exact Hr].
      apply valid_params_keep_wf_cfg; [exact (ReachP_wf_cfg _ _ H)|exact V|exact Hb].
    + rewrite (pstep_set_invalid _ _ _ V). cbn [fst snd]. exact H.
Qed.

Fixpoint wf_pops (cfg : Params) (s : State) (ops : list POp) : Prop :=
  match ops with
  | [] => True
  | o :: t => wf_pop cfg s o
              /\ wf_pops (fst (fst (pstep (cfg, s) o))) (snd (fst (pstep (cfg, s) o))) t
  end.

Theorem ReachP_prun ops : forall cfg s,
  ReachP cfg s -> wf_pops cfg s ops ->
  ReachP (fst (prun (cfg, s) ops)) (snd (prun (cfg, s) ops)).
Proof.
  induction ops as [|o t IH]; intros cfg s H Hw; cbn [prun fold_left fst snd]; [exact H|].
  destruct Hw as [Ho Ht]. pose proof (ReachP_pstep cfg s o H Ho) as H1.
  destruct (pstep (cfg, s) o) as [[cfg1 s1] r]. cbn [fst snd] in *.
  exact (IH cfg1 s1 H1 Ht).
Qed.

(* ------------------------------------------------------------------ *)
(* the properties, under the parameters in force *)

(* C01 *)
Theorem escrow_backed_P cfg s :
  ReachP cfg s -> bal s Escrow = msum fee_active (reqs s) + msum vid (earned s).
Proof. intros H. exact (inv_escrow _ _ (ReachP_Inv cfg s H)). Qed.

(* C14 *)
Theorem available_has_min_deposit_P cfg s k b :
  ReachP cfg s -> get k (binds s) = Some b -> b_avail b = true ->
  Z.max (pr_price (pricing_of s k) * p_multiple cfg) (p_min_deposit cfg) <= b_deposit b
  /\ pricing_of s k = parse_pricing (b_raw b).
Proof.
  intros H G Ha. pose proof (ReachP_Inv cfg s H) as Hinv.
  pose proof (get_In _ _ _ G) as Hin. split; [exact (inv_min _ _ Hinv k b Hin Ha)|].
  exact (proj1 (bound_price_nonneg cfg s k b (inv_index _ _ Hinv) Hin)).
Qed.

Theorem I_min_P cfg s : ReachP cfg s -> I_min cfg s.
Proof. intros H. exact (inv_min _ _ (ReachP_Inv cfg s H)). Qed.

(* ------------------------------------------------------------------ *)
(* why tightening is excluded: concrete refutations *)

Module Tighten.
  (* parameters: timeout <= 5, deposit >= max (price * 1, 10) *)
  Definition cfg0 : Params := mkParams 5 1 10 0 0 1 1 99 7.
  (* a legal tighter set: the minimum deposit raised to 20 *)
  Definition cfg_dep : Params := mkParams 5 1 20 0 0 1 1 99 7.
  (* a legal tighter set: the multiple raised to 50 *)
  Definition cfg_mul : Params := mkParams 5 50 10 0 0 1 1 99 7.
  (* a legal tighter set: the maximum request timeout lowered to 4 *)
  Definition cfg_tmo : Params := mkParams 4 1 10 0 0 1 1 99 7.

  Definition raw1 : RawPricing := mkRaw ONE [] [].       (* price 1 *)
  Definition ops_bind : list Op :=
    [ODefine 1 0 true; OBind 1 2 (CBase 10) (Some raw1) 1 3 true].
  Definition ops_call : list Op :=
    [ODefine 1 0 true;
     OCall (7, 0) 1 [2] 4 0 (CBase 10) 5 false false 0 0 true true].
  Definition s0 : State := init 1 0 [(3, 1000); (4, 1000)].
  Definition s_bind : State := run cfg0 s0 ops_bind.
  Definition s_call : State := run cfg0 s0 ops_call.

  Lemma wf_cfg0 : wf_cfg cfg0.
  Proof. unfold wf_cfg, cfg0, HEIGHT_BOUND, ONE, PREC. cbn. lia. Qed.
  Lemma wf_cfg_dep : wf_cfg cfg_dep.
  Proof. unfold wf_cfg, cfg_dep, HEIGHT_BOUND, ONE, PREC. cbn. lia. Qed.
  Lemma wf_cfg_mul : wf_cfg cfg_mul.
  Proof. unfold wf_cfg, cfg_mul, HEIGHT_BOUND, ONE, PREC. cbn. lia. Qed.
  Lemma wf_cfg_tmo : wf_cfg cfg_tmo.
  Proof. unfold wf_cfg, cfg_tmo, HEIGHT_BOUND, ONE, PREC. cbn. lia. Qed.

  Lemma valid_all :
    valid_params cfg0 = true /\ valid_params cfg_dep = true
    /\ valid_params cfg_mul = true /\ valid_params cfg_tmo = true.
  Proof. repeat split; vm_compute; reflexivity. Qed.

  Lemma reach_s0 : Reach cfg0 s0.
  Proof.
    apply Reach_init; [lia|lia|]. intros a v Hin. cbn [In] in Hin.
    destruct Hin as [E|[E|[]]]; injection E as <- <-; lia.
  Qed.

  Lemma reach_bind : Reach cfg0 s_bind.
  Proof.
    unfold s_bind, ops_bind, run. cbn [fold_left].
    apply Reach_step; [apply Reach_step; [exact reach_s0|exact I]|exact I].
  Qed.

  Lemma reach_call : Reach cfg0 s_call.
  Proof.
    unfold s_call, ops_call, run. cbn [fold_left].
    apply Reach_step; [apply Reach_step; [exact reach_s0|exact I]|].
    cbn [wf_op]. split.
    - unfold ctx_fresh. vm_compute. intros [].
    - unfold HEIGHT_BOUND. lia.
  Qed.

  (* the binding made at the old minimum: deposit 10, price 1, available *)
  Definition b10 : Binding := mkBinding 10 raw1 1 true TIME0 3.

  Lemma bind_stored : get (1, 2) (binds s_bind) = Some b10.
  Proof. vm_compute. reflexivity. Qed.

  Lemma I_min_old : I_min cfg0 s_bind.
  Proof. exact (inv_min _ _ (Reach_Inv cfg0 s_bind wf_cfg0 reach_bind)). Qed.

  Lemma not_I_min_dep : ~ I_min cfg_dep s_bind.
  Proof.
    intros H. pose proof (H (1, 2) b10 (get_In _ _ _ bind_stored) eq_refl) as Hle.
    vm_compute in Hle. apply Hle. reflexivity.
  Qed.

  Lemma not_I_min_mul : ~ I_min cfg_mul s_bind.
  Proof.
    intros H. pose proof (H (1, 2) b10 (get_In _ _ _ bind_stored) eq_refl) as Hle.
    vm_compute in Hle. apply Hle. reflexivity.
  Qed.

  (* the context created with the old maximum timeout *)
  Lemma ctx_stored : exists rc, get (7, 0) (ctxs s_call) = Some rc /\ c_timeout rc = 5.
  Proof. eexists. split; [vm_compute; reflexivity|reflexivity]. Qed.

  Lemma not_I_ctx_tmo : ~ I_ctx cfg_tmo s_call.
  Proof.
    intros H. destruct ctx_stored as (rc & G & Et).
    destruct (H _ _ G) as ((_ & Hle) & _). rewrite Et in Hle. cbn in Hle. lia.
  Qed.
End Tighten.

(* raising the minimum deposit (or the multiple) breaks I_min for a binding made at the old minimum *)
Theorem tighten_breaks_I_min :
  exists cfg cfg' s,
    wf_cfg cfg /\ Reach cfg s /\ I_min cfg s
    /\ wf_cfg cfg' /\ valid_params cfg' = true
    /\ p_min_deposit cfg < p_min_deposit cfg' /\ p_multiple cfg' = p_multiple cfg
    /\ p_max_timeout cfg' = p_max_timeout cfg
    /\ ~ I_min cfg' s.
Proof.
  exists Tighten.cfg0, Tighten.cfg_dep, Tighten.s_bind.
  split; [exact Tighten.wf_cfg0|]. split; [exact Tighten.reach_bind|].
  split; [exact Tighten.I_min_old|]. split; [exact Tighten.wf_cfg_dep|].
  split; [apply Tighten.valid_all|]. split; [cbn; lia|]. split; [reflexivity|]. split; [reflexivity|].
  exact Tighten.not_I_min_dep.
Qed.

Theorem tighten_multiple_breaks_I_min :
  exists cfg cfg' s,
    wf_cfg cfg /\ Reach cfg s /\ I_min cfg s
    /\ wf_cfg cfg' /\ valid_params cfg' = true
    /\ p_multiple cfg < p_multiple cfg' /\ p_min_deposit cfg' = p_min_deposit cfg
    /\ p_max_timeout cfg' = p_max_timeout cfg
    /\ ~ I_min cfg' s.
Proof.
  exists Tighten.cfg0, Tighten.cfg_mul, Tighten.s_bind.
  split; [exact Tighten.wf_cfg0|]. split; [exact Tighten.reach_bind|].
  split; [exact Tighten.I_min_old|]. split; [exact Tighten.wf_cfg_mul|].
  split; [apply Tighten.valid_all|]. split; [cbn; lia|]. split; [reflexivity|]. split; [reflexivity|].
  exact Tighten.not_I_min_mul.
Qed.

(* lowering the maximum request timeout breaks I_ctx for a context created with the old maximum *)
Theorem tighten_breaks_I_ctx :
  exists cfg cfg' s,
    wf_cfg cfg /\ Reach cfg s /\ I_ctx cfg s
    /\ wf_cfg cfg' /\ valid_params cfg' = true
    /\ p_max_timeout cfg' < p_max_timeout cfg
    /\ p_multiple cfg' = p_multiple cfg /\ p_min_deposit cfg' = p_min_deposit cfg
    /\ ~ I_ctx cfg' s.
Proof.
  exists Tighten.cfg0, Tighten.cfg_tmo, Tighten.s_call.
  split; [exact Tighten.wf_cfg0|]. split; [exact Tighten.reach_call|].
  split; [exact (inv_ctx _ _ (Reach_Inv _ _ Tighten.wf_cfg0 Tighten.reach_call))|].
  split; [exact Tighten.wf_cfg_tmo|].
  split; [apply Tighten.valid_all|]. split; [cbn; lia|]. split; [reflexivity|]. split; [reflexivity|].
  exact Tighten.not_I_ctx_tmo.
Qed.

(* a history with a relaxing change, inside the executable parameter machine *)
Module ExP.
  Definition cfg_relaxed : Params := mkParams 9 1 5 (ONE / 2) ONE 3 4 0 0.
  Definition hist : list POp :=
    [PO (ODefine 1 0 true);
     PO (OBind 1 2 (CBase 10) (Some Tighten.raw1) 1 3 true);
     PSet cfg_relaxed;                                   (* accepted: relaxing *)
     PSet (mkParams 0 1 5 0 0 1 1 0 0);                  (* rejected: timeout 0 *)
     PSet (mkParams 9 1 5 ONE 0 1 1 0 0);                (* rejected: tax = 1 *)
     PO (OBind 1 5 (CBase 5) (Some Tighten.raw1) 9 3 true)].  (* legal only under the new set *)

  Example hist_results :
    map snd (let step1 := fun acc o => let '(cs, rs) := acc in
                                       let '(cs', r) := pstep cs o in (cs', rs ++ [(0, r)]) in
             snd (fold_left step1 hist ((Tighten.cfg0, Tighten.s0), [])))
    = [ROk; ROk; ROk; RErr; RErr; ROk].
  Proof. vm_compute. reflexivity. Qed.

  (* the harness constants survive the change *)
  Example consts_kept :
    p_modsvc (fst (prun (Tighten.cfg0, Tighten.s0) hist)) = 99
    /\ p_cbmod (fst (prun (Tighten.cfg0, Tighten.s0) hist)) = 7
    /\ p_max_timeout (fst (prun (Tighten.cfg0, Tighten.s0) hist)) = 9.
  Proof. vm_compute. repeat split. Qed.

  Example hist_reach :
    ReachP (fst (prun (Tighten.cfg0, Tighten.s0) hist)) (snd (prun (Tighten.cfg0, Tighten.s0) hist)).
  Proof.
    apply ReachP_prun; [exact (Reach_ReachP _ _ Tighten.wf_cfg0 Tighten.reach_s0)|].
    unfold hist. cbn [wf_pops].
    split; [exact I|]. split; [exact I|].
    split.
    { cbn [wf_pop]. intros _. split; [vm_compute; reflexivity|].
      vm_compute. repeat split; first [discriminate|reflexivity]. }
    split; [cbn [wf_pop]; intros V; vm_compute in V; discriminate|].
    split; [cbn [wf_pop]; intros V; vm_compute in V; discriminate|].
    split; exact I.
  Qed.
End ExP.
