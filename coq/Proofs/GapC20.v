(* C20 gap: representation independence of EndBlock.

   The model keeps the two EndBlock queues (0x09 expiry entries, 0x10 new-batch entries) as
   LISTS (expq, newq); the store of the implementation has no such order.  Here: two states
   that differ only by a permutation of these lists are taken by end_block to states that
   again differ only by a permutation of these lists - every other field (contexts, requests,
   responses, bank, log of events, ...) is EQUAL.  So nothing observable depends on the order
   in which the model happens to keep the queue entries (C20_end_block_queue_order_irrelevant);
   the processing order is the canonical one of the set of due entries (due_canonical).

   "grouping irrelevant": the provider->requests grouping of abci.go:55,130-144 (a Go map that
   is only ranged over to emit the new_batch_request_provider events) is not in the model; as a
   theorem: ANY function that post-processes the EndBlock result by only adding events leaves
   every other field, in particular all balances, untouched (C20_grouping_irrelevant). *)
From Coq Require Import List ZArith Bool Lia Permutation Sorted.
From SVC Require Import Base.AMap Base.Res Base.Dec Model.Types Model.Pricing
  Model.Handlers Model.EndBlock Model.Step Proofs.Lemmas Proofs.QueryProofs Proofs.CtxOps.
Import ListNotations.
Open Scope Z_scope.

(* ------------------------------------------------------------------ *)
(* the canonical processing order (re-proved here: Proofs/NoPanic.v is not imported) *)

Lemma ctxid_leb_trans a b c : ctxid_leb a b = true -> ctxid_leb b c = true -> ctxid_leb a c = true.
Proof. unfold ctxid_leb. destruct a, b, c; cbn [fst snd]. lia. Qed.

Lemma ctxid_leb_antisym a b : ctxid_leb a b = true -> ctxid_leb b a = true -> a = b.
Proof.
  unfold ctxid_leb. destruct a as [a1 a2], b as [b1 b2]; cbn [fst snd]. intros H1 H2.
  assert (a1 = b1 /\ a2 = b2) as [-> ->] by lia. reflexivity.
Qed.

Lemma sorted_perm_unique {A} (le : A -> A -> Prop) :
  (forall a b, le a b -> le b a -> a = b) ->
  forall l1 l2, StronglySorted le l1 -> StronglySorted le l2 -> Permutation l1 l2 -> l1 = l2.
Proof.
  intros Hanti. induction l1 as [|a t IH]; intros l2 S1 S2 P.
  - apply Permutation_nil in P. now subst.
  - destruct l2 as [|b t2]; [apply Permutation_sym, Permutation_nil in P; discriminate|].
    inversion S1 as [|? ? S1t F1]; subst. inversion S2 as [|? ? S2t F2]; subst.
    assert (E : a = b).
    { assert (Ha : In a (b :: t2)) by (eapply Permutation_in; [exact P|now left]).
      assert (Hb : In b (a :: t)) by (eapply Permutation_in; [apply Permutation_sym; exact P|now left]).
      destruct Ha as [->|Ha]; [reflexivity|]. destruct Hb as [->|Hb]; [reflexivity|].
      rewrite Forall_forall in F1, F2. apply Hanti; [now apply F1|now apply F2]. }
    subst b. f_equal. apply IH; try assumption. eapply Permutation_cons_inv; eauto.
Qed.

Lemma filter_perm {A} (f : A -> bool) l l' : Permutation l l' -> Permutation (filter f l) (filter f l').
Proof.
  induction 1 as [|x l l' P IH|x y l|l l' l'' P1 IH1 P2 IH2]; cbn [filter].
  - constructor.
  - destruct (f x); [now constructor|assumption].
  - destruct (f x), (f y); try apply Permutation_refl. apply perm_swap.
  - eapply Permutation_trans; eauto.
Qed.

Theorem due_canonical (q q' : list (Z * CtxId)) h : Permutation q q' -> due q h = due q' h.
Proof.
  intros P.
  assert (Tr : Relations_1.Transitive (fun a b => ctxid_leb a b = true))
    by (intros a b c; apply ctxid_leb_trans).
  assert (Hs : forall x, Sorted (fun a b => ctxid_leb a b = true) (due x h)).
  { intros x. unfold due. exact (isort_sorted ctxid_leb ctxid_leb_total _). }
  apply (sorted_perm_unique (fun a b => ctxid_leb a b = true) ctxid_leb_antisym).
  - apply Sorted_StronglySorted; [exact Tr|apply Hs].
  - apply Sorted_StronglySorted; [exact Tr|apply Hs].
  - unfold due. rewrite !isort_perm. apply Permutation_map. now apply filter_perm.
Qed.

(* ------------------------------------------------------------------ *)
(* states up to the order of the two queue lists *)

Definition reseat (s : State) (e n : list (Z * CtxId)) : State := set_newq (set_expq s e) n.

Lemma reseat_id s : reseat s (expq s) (newq s) = s.
Proof. destruct s; reflexivity. Qed.

Lemma reseat_reseat s e n e' n' : reseat (reseat s e n) e' n' = reseat s e' n'.
Proof. reflexivity. Qed.

Lemma expq_reseat s e n : expq (reseat s e n) = e.
Proof. reflexivity. Qed.
Lemma newq_reseat s e n : newq (reseat s e n) = n.
Proof. reflexivity. Qed.

(* same state up to a permutation of each queue list *)
Record QEq (s s' : State) : Prop := mkQEq {
  q_others : reseat s' (expq s) (newq s) = s;
  q_expq : Permutation (expq s) (expq s');
  q_newq : Permutation (newq s) (newq s')
}.

Lemma QEq_refl s : QEq s s.
Proof. constructor; [apply reseat_id|reflexivity|reflexivity]. Qed.

Lemma QEq_reseat s e n : Permutation (expq s) e -> Permutation (newq s) n -> QEq s (reseat s e n).
Proof. intros He Hn. constructor; [exact (reseat_id s)|exact He|exact Hn]. Qed.

Lemma QEq_inv s s' : QEq s s' -> s' = reseat s (expq s') (newq s').
Proof. intros [E _ _]. rewrite <- E at 1. rewrite reseat_reseat. symmetry. apply reseat_id. Qed.

Lemma QEq_sym s s' : QEq s s' -> QEq s' s.
Proof.
  intros H. pose proof (QEq_inv _ _ H) as E. destruct H as [_ P1 P2].
  constructor; [|now symmetry|now symmetry]. rewrite E at 3. reflexivity.
Qed.

Lemma QEq_trans a b c : QEq a b -> QEq b c -> QEq a c.
Proof.
  intros H1 H2. pose proof (QEq_inv _ _ H1) as E1. pose proof (QEq_inv _ _ H2) as E2.
  destruct H1 as [_ P1 P2], H2 as [_ P3 P4].
  constructor; [|eapply Permutation_trans; eauto|eapply Permutation_trans; eauto].
  rewrite E2, E1. rewrite !reseat_reseat. apply reseat_id.
Qed.

(* every field other than the two lists is equal *)
Lemma QEq_fields s s' : QEq s s' ->
  height s' = height s /\ time s' = time s /\ defs s' = defs s /\ binds s' = binds s
  /\ pricing s' = pricing s /\ owner_of s' = owner_of s /\ own_prov s' = own_prov s
  /\ own_bind s' = own_bind s /\ wdaddr s' = wdaddr s /\ ctxs s' = ctxs s
  /\ expq_h s' = expq_h s /\ newq_h s' = newq_h s /\ reqs s' = reqs s /\ resps s' = resps s
  /\ vols s' = vols s /\ earned s' = earned s /\ own_earned s' = own_earned s
  /\ bank s' = bank s /\ supply s' = supply s /\ log s' = log s.
Proof. intros H. rewrite (QEq_inv _ _ H). repeat split. Qed.

(* ------------------------------------------------------------------ *)
(* list operations respect permutations *)

Definition PermFun (g : list (Z * CtxId) -> list (Z * CtxId)) : Prop :=
  forall l l', Permutation l l' -> Permutation (g l) (g l').

Lemma mem_perm (a : Z * CtxId) l l' : Permutation l l' -> mem a l = mem a l'.
Proof.
  intros P. destruct (mem a l) eqn:E1, (mem a l') eqn:E2; try reflexivity.
  - apply mem_In in E1. apply mem_nIn in E2. exfalso. apply E2. eapply Permutation_in; eauto.
  - apply mem_In in E2. apply mem_nIn in E1. exfalso. apply E1.
    eapply Permutation_in; [apply Permutation_sym|]; eauto.
Qed.

Lemma PermFun_id : PermFun (fun l => l).
Proof. intros l l' P. exact P. Qed.

Lemma PermFun_ladd a : PermFun (ladd a).
Proof.
  intros l l' P. unfold ladd. rewrite (mem_perm a l l' P). destruct (mem a l'); [exact P|].
  now apply Permutation_app_tail.
Qed.

Lemma PermFun_lrem a : PermFun (lrem a).
Proof.
  intros l l' P. induction P as [|x l l' P IH|x y l|l l' l'' P1 IH1 P2 IH2]; cbn [lrem].
  - constructor.
  - destruct (eqb a x); [assumption|now constructor].
  - destruct (eqb a x), (eqb a y); try apply Permutation_refl. apply perm_swap.
  - eapply Permutation_trans; eauto.
Qed.

Lemma PermFun_comp f g : PermFun f -> PermFun g -> PermFun (fun l => g (f l)).
Proof. intros Hf Hg l l' P. apply Hg, Hf, P. Qed.

(* ------------------------------------------------------------------ *)
(* the primitives do not look at the queue lists *)

Definition omap {A B} (f : A -> B) (o : option A) : option B :=
  match o with Some a => Some (f a) | None => None end.
Definition rmap {A B} (f : A -> B) (r : Res A) : Res B :=
  match r with Ok a => Ok (f a) | Err => Err | Panic => Panic end.

Section Blind.
  Variables (e n : list (Z * CtxId)).
  Notation rs := (fun x => reseat x e n).

  Lemma emit_rs ev s : emit ev (rs s) = rs (emit ev s).
  Proof. reflexivity. Qed.

  Lemma put_ctx_rs s c rc : put_ctx (rs s) c rc = rs (put_ctx s c rc).
  Proof. reflexivity. Qed.

  Lemma del_ctx_rs s c : del_ctx (rs s) c = rs (del_ctx s c).
  Proof. reflexivity. Qed.

  Lemma put_binding_rs s k b : put_binding (rs s) k b = rs (put_binding s k b).
  Proof. reflexivity. Qed.

  Lemma transfer_rs a b amt s : transfer a b amt (rs s) = omap rs (transfer a b amt s).
  Proof.
    unfold transfer, bal, reseat. sproj. destruct ((amt <? 0) || (get0 a (bank s) <? amt)); reflexivity.
  Qed.

  Lemma burn_rs amt s : burn_deposit amt (rs s) = omap rs (burn_deposit amt s).
  Proof.
    unfold burn_deposit, bal, reseat. sproj.
    destruct ((amt <? 0) || (get0 Deposit (bank s) <? amt)); reflexivity.
  Qed.

  Lemma deactivate_rs s r : deactivate (rs s) r = rs (deactivate s r).
  Proof. unfold deactivate, reseat. sproj. destruct (get r (reqs s)); reflexivity. Qed.

  Lemma refund_fee_rs s r cons fee : refund_fee (rs s) r cons fee = omap rs (refund_fee s r cons fee).
  Proof.
    unfold refund_fee. rewrite transfer_rs. destruct (transfer Escrow (User cons) fee s); reflexivity.
  Qed.

  Lemma slash_rs cfg s r : slash cfg (rs s) r = rmap rs (slash cfg s r).
  Proof.
    unfold slash. cbv beta. change (reqs (reseat s e n)) with (reqs s). change (ctxs (reseat s e n)) with (ctxs s).
    change (binds (reseat s e n)) with (binds s).
    destruct (get r (reqs s)) as [q|]; cbn [of_opt bind rmap]; [|reflexivity].
    destruct (get (rid_ctx r) (ctxs s)) as [rc|]; cbn [of_opt bind rmap]; [|reflexivity].
    destruct (get (c_svc rc, r_prov q) (binds s)) as [b|]; cbn [of_opt bind rmap]; [|reflexivity].
    unfold guard. destruct (mul_trunc (b_deposit b) (p_slash cfg) <=? b_deposit b); [|reflexivity].
    rewrite burn_rs. destruct (burn_deposit (mul_trunc (b_deposit b) (p_slash cfg)) s) as [s1|];
      cbn [omap of_opt bind rmap]; [|reflexivity].
    change (pricing_of (reseat s1 e n)) with (pricing_of s1). change (time (reseat s1 e n)) with (time s1).
    match goal with |- context [if ?c then _ else _] => destruct c end; cbn [bind rmap].
    - destruct (min_deposit cfg (pricing_of s1 (c_svc rc, r_prov q))); cbn [bind rmap]; reflexivity.
    - reflexivity.
  Qed.

  Lemma expire_req_rs cfg s r : expire_req cfg (rs s) r = rs (expire_req cfg s r).
  Proof.
    unfold expire_req. cbv beta. change (reqs (reseat s e n)) with (reqs s). change (ctxs (reseat s e n)) with (ctxs s).
    destruct (get r (reqs s)) as [q|]; [|reflexivity].
    destruct (get (rid_ctx r) (ctxs s)) as [rc|]; [|reflexivity].
    destruct (c_super rc); [now rewrite deactivate_rs|].
    rewrite slash_rs. destruct (slash cfg s r) as [sa| |]; cbn [rmap];
      rewrite refund_fee_rs;
      match goal with |- context [refund_fee ?x r _ _] => destruct (refund_fee x r (c_cons rc) (r_fee q)) end;
      cbn [omap]; now rewrite deactivate_rs.
  Qed.

  Lemma fold_expire_req_rs cfg l : forall s,
    fold_left (expire_req cfg) l (rs s) = rs (fold_left (expire_req cfg) l s).
  Proof.
    induction l as [|r l IH]; intros s; cbn [fold_left]; [reflexivity|].
    now rewrite expire_req_rs, IH.
  Qed.

  Lemma callback_rs s c : callback (rs s) c = rs (callback s c).
  Proof. unfold callback. cbv beta. change (ctxs (reseat s e n)) with (ctxs s). destruct (get c (ctxs s)); reflexivity. Qed.

  Lemma complete_batch_rs s c rc :
    complete_batch (rs s) c rc = (rs (fst (complete_batch s c rc)), snd (complete_batch s c rc)).
  Proof.
    unfold complete_batch. cbn [fst snd]. destruct (c_mod rc =? 0); [reflexivity|].
    now rewrite callback_rs.
  Qed.

  Lemma clean_batch_rs s c k : clean_batch (rs s) c k = rs (clean_batch s c k).
  Proof. reflexivity. Qed.

  Lemma issue_one_rs s c rc k i p : issue_one (rs s) c rc k i p = rs (issue_one s c rc k i p).
  Proof. reflexivity. Qed.

  Lemma issue_all_rs c rc k provs : forall s i,
    issue_all (rs s) c rc k i provs = rs (issue_all s c rc k i provs).
  Proof.
    induction provs as [|p t IH]; intros s i; cbn [issue_all]; [reflexivity|].
    now rewrite issue_one_rs, IH.
  Qed.

  Lemma on_paused_rs s c rc : on_paused (rs s) c rc = rs (on_paused s c rc).
  Proof. unfold on_paused. destruct (c_mod rc =? 0); reflexivity. Qed.

  Lemma filter_providers_rs s rc provs : filter_providers (rs s) rc provs = filter_providers s rc provs.
  Proof. induction provs as [|p t IH]; cbn [filter_providers]; [reflexivity|]. rewrite IH. reflexivity. Qed.
End Blind.

(* the four queue primitives *)
Lemma add_newq_rs s e n c h : add_newq (reseat s e n) c h = reseat (add_newq s c h) e (ladd (h, c) n).
Proof. reflexivity. Qed.
Lemma del_newq_rs s e n c h : del_newq (reseat s e n) c h = reseat (del_newq s c h) e (lrem (h, c) n).
Proof. reflexivity. Qed.
Lemma add_expq_rs s e n c h : add_expq (reseat s e n) c h = reseat (add_expq s c h) (ladd (h, c) e) n.
Proof. reflexivity. Qed.
Lemma del_expq_rs s e n c h : del_expq (reseat s e n) c h = reseat (del_expq s c h) (lrem (h, c) e) n.
Proof. reflexivity. Qed.

(* ------------------------------------------------------------------ *)
(* the two per-context handlers *)

Definition exp_pre (cfg : Params) (s : State) (c : CtxId) : State * Ctx :=
  let rc := ctx_or_zero s c in
  if c_bdone rc then (s, rc)
  else complete_batch (fold_left (expire_req cfg) (active_rids s c (c_counter rc)) s) c rc.

Lemma expire_one_eq cfg s c :
  expire_one cfg s c
  = clean_batch (expire_tail (fst (exp_pre cfg s c)) c (height s) (snd (exp_pre cfg s c))) c
      (c_counter (snd (exp_pre cfg s c))).
Proof.
  unfold expire_one, exp_pre, expire_tail, more.
  destruct (c_bdone (ctx_or_zero s c)); reflexivity.
Qed.

Lemma exp_pre_rs cfg s c e n :
  exp_pre cfg (reseat s e n) c = (reseat (fst (exp_pre cfg s c)) e n, snd (exp_pre cfg s c)).
Proof.
  unfold exp_pre. change (ctx_or_zero (reseat s e n) c) with (ctx_or_zero s c).
  destruct (c_bdone (ctx_or_zero s c)); [reflexivity|].
  change (active_rids (reseat s e n) c) with (active_rids s c).
  rewrite fold_expire_req_rs. apply complete_batch_rs.
Qed.

Definition tail_newq (c : CtxId) (H : Z) (rc1 : Ctx) (n : list (Z * CtxId)) : list (Z * CtxId) :=
  match c_state rc1 with
  | Running => if more rc1 then ladd (wrap_i64 (H - c_timeout rc1 + to_i64 (c_freq rc1)), c) n else n
  | _ => n
  end.

Lemma PermFun_tail_newq c H rc1 : PermFun (tail_newq c H rc1).
Proof.
  unfold tail_newq. destruct (c_state rc1); [destruct (more rc1)| |];
    try apply PermFun_id. apply PermFun_ladd.
Qed.

Lemma expire_tail_rs s1 c H rc1 e n :
  expire_tail (reseat s1 e n) c H rc1
  = reseat (expire_tail s1 c H rc1) (lrem (H, c) e) (tail_newq c H rc1 n).
Proof.
  unfold expire_tail, tail_newq. destruct (c_state rc1); [destruct (more rc1)| |]; reflexivity.
Qed.

(* expire_one on a re-seated state: the same result, re-seated *)
Lemma expire_one_rs cfg s c : exists gn, PermFun gn /\ forall e n,
  expire_one cfg (reseat s e n) c = reseat (expire_one cfg s c) (lrem (height s, c) e) (gn n).
Proof.
  exists (tail_newq c (height s) (snd (exp_pre cfg s c))). split; [apply PermFun_tail_newq|].
  intros e n. rewrite !expire_one_eq, exp_pre_rs. cbn [fst snd].
  change (height (reseat s e n)) with (height s).
  rewrite expire_tail_rs. apply clean_batch_rs.
Qed.

Lemma initiate_requests_rs s c provs e n :
  initiate_requests (reseat s e n) c provs = reseat (initiate_requests s c provs) e n.
Proof.
  unfold initiate_requests. change (ctx_or_zero (reseat s e n) c) with (ctx_or_zero s c).
  rewrite issue_all_rs. reflexivity.
Qed.

Lemma skip_batch_rs s c rc e n :
  skip_batch (reseat s e n) c rc
  = reseat (skip_batch s c rc) (ladd (height s + c_timeout rc, c) e) n.
Proof. reflexivity. Qed.

Lemma new_one_rs cfg s c : exists ge, PermFun ge /\ forall e n,
  new_one cfg (reseat s e n) c = reseat (new_one cfg s c) (ge e) (lrem (height s, c) n).
Proof.
  unfold new_one.
  set (rc := ctx_or_zero s c).
  destruct (is_state rc Running && c_rep rc && (0 <? c_total rc) && (c_total rc <=? c_counter rc)) eqn:Ed.
  { exists (fun l => l). split; [apply PermFun_id|]. intros e n.
    change (ctx_or_zero (reseat s e n) c) with rc. rewrite Ed. reflexivity. }
  destruct (is_state rc Running) eqn:Er.
  2:{ exists (fun l => l). split; [apply PermFun_id|]. intros e n.
      change (ctx_or_zero (reseat s e n) c) with rc. rewrite Er. cbn [andb]. reflexivity. }
  set (el := filter_providers s rc (c_provs rc)).
  destruct ((0 <? len el) && (c_thr rc <=? len el)) eqn:Eel.
  2:{ exists (ladd (height s + c_timeout rc, c)). split; [apply PermFun_ladd|]. intros e n.
      change (ctx_or_zero (reseat s e n) c) with rc. rewrite Er, Ed.
      rewrite filter_providers_rs. fold el. rewrite Eel. reflexivity. }
  destruct (c_super rc) eqn:Es.
  { exists (ladd (height s + c_timeout rc, c)). split; [apply PermFun_ladd|]. intros e n.
    change (ctx_or_zero (reseat s e n) c) with rc. rewrite Er, Ed.
    rewrite filter_providers_rs. fold el. rewrite Eel, Es.
    rewrite initiate_requests_rs. reflexivity. }
  destruct (transfer (User (c_cons rc)) Escrow (sum_prices el) s) as [x|] eqn:Et.
  - exists (ladd (height s + c_timeout rc, c)). split; [apply PermFun_ladd|]. intros e n.
    change (ctx_or_zero (reseat s e n) c) with rc. rewrite Er, Ed.
    rewrite filter_providers_rs. fold el. rewrite Eel, Es, transfer_rs, Et. cbn [omap].
    rewrite emit_rs, initiate_requests_rs. reflexivity.
  - exists (fun l => l). split; [apply PermFun_id|]. intros e n.
    change (ctx_or_zero (reseat s e n) c) with rc. rewrite Er, Ed.
    rewrite filter_providers_rs. fold el. rewrite Eel, Es, transfer_rs, Et. cbn [omap].
    rewrite on_paused_rs. reflexivity.
Qed.

(* ------------------------------------------------------------------ *)
(* phases: folding a handler over the same list of contexts *)

Lemma QEq_expire_one cfg s s' c : QEq s s' -> QEq (expire_one cfg s c) (expire_one cfg s' c).
Proof.
  intros H. pose proof (QEq_inv _ _ H) as E. destruct H as [_ P1 P2].
  destruct (expire_one_rs cfg s c) as (gn & Hgn & Hrs).
  rewrite E, Hrs.
  pose proof (Hrs (expq s) (newq s)) as H0. rewrite reseat_id in H0.
  rewrite H0 at 1. apply QEq_sym. constructor; cbn [expq_reseat]; rewrite ?expq_reseat, ?newq_reseat.
  - rewrite reseat_reseat. reflexivity.
  - apply PermFun_lrem. now symmetry.
  - apply Hgn. now symmetry.
Qed.

Lemma QEq_new_one cfg s s' c : QEq s s' -> QEq (new_one cfg s c) (new_one cfg s' c).
Proof.
  intros H. pose proof (QEq_inv _ _ H) as E. destruct H as [_ P1 P2].
  destruct (new_one_rs cfg s c) as (ge & Hge & Hrs).
  rewrite E, Hrs.
  pose proof (Hrs (expq s) (newq s)) as H0. rewrite reseat_id in H0.
  rewrite H0 at 1. apply QEq_sym. constructor; rewrite ?expq_reseat, ?newq_reseat.
  - rewrite reseat_reseat. reflexivity.
  - apply Hge. now symmetry.
  - apply PermFun_lrem. now symmetry.
Qed.

Lemma QEq_fold (f : State -> CtxId -> State) l :
  (forall s s' c, QEq s s' -> QEq (f s c) (f s' c)) ->
  forall s s', QEq s s' -> QEq (fold_left f l s) (fold_left f l s').
Proof.
  intros Hf. induction l as [|c l IH]; intros s s' H; cbn [fold_left]; [exact H|].
  apply IH. now apply Hf.
Qed.

Theorem QEq_end_blocker cfg s s' : QEq s s' -> QEq (end_blocker cfg s) (end_blocker cfg s').
Proof.
  intros H. unfold end_blocker.
  destruct (QEq_fields _ _ H) as (Hh & _).
  rewrite (due_canonical (expq s') (expq s) (height s')) by (symmetry; apply (q_expq _ _ H)).
  rewrite Hh.
  set (l1 := due (expq s) (height s)).
  pose proof (QEq_fold (expire_one cfg) l1 (QEq_expire_one cfg) s s' H) as H1.
  set (s1 := fold_left (expire_one cfg) l1 s) in *.
  set (s1' := fold_left (expire_one cfg) l1 s') in *.
  destruct (QEq_fields _ _ H1) as (Hh1 & _).
  rewrite (due_canonical (newq s1') (newq s1) (height s1')) by (symmetry; apply (q_newq _ _ H1)).
  rewrite Hh1.
  apply QEq_fold; [apply QEq_new_one|exact H1].
Qed.

Lemma QEq_tick s s' h t h' t' : QEq s s' -> h = h' -> t = t' ->
  QEq (set_time (set_height s h) t) (set_time (set_height s' h') t').
Proof.
  intros H <- <-. pose proof (QEq_inv _ _ H) as E. destruct H as [_ P1 P2].
  constructor; [|exact P1|exact P2]. rewrite E. destruct s; reflexivity.
Qed.

(* The order of the queue lists is irrelevant: EndBlock takes states that are equal up to it to
   states that are equal up to it. *)
Theorem C20_end_block_queue_order_irrelevant cfg s s' dt :
  QEq s s' -> QEq (end_block cfg s dt) (end_block cfg s' dt).
Proof.
  intros H. unfold end_block. pose proof (QEq_end_blocker cfg s s' H) as H1.
  destruct (QEq_fields _ _ H1) as (Hh & Ht & _).
  apply QEq_tick; [exact H1|now rewrite Hh|now rewrite Ht].
Qed.

(* the same for the strongest reading: re-order the queues any way you like before EndBlock;
   after it every record, every balance and the event log are the same *)
Corollary C20_end_block_permuted cfg s dt e n :
  Permutation (expq s) e -> Permutation (newq s) n ->
  let a := end_block cfg s dt in let b := end_block cfg (set_newq (set_expq s e) n) dt in
  ctxs b = ctxs a /\ reqs b = reqs a /\ resps b = resps a /\ binds b = binds a
  /\ bank b = bank a /\ supply b = supply a /\ earned b = earned a /\ own_earned b = own_earned a
  /\ vols b = vols a /\ expq_h b = expq_h a /\ newq_h b = newq_h a /\ log b = log a
  /\ height b = height a /\ time b = time a
  /\ Permutation (expq a) (expq b) /\ Permutation (newq a) (newq b).
Proof.
  intros He Hn a b.
  assert (H : QEq a b).
  { apply C20_end_block_queue_order_irrelevant. now apply QEq_reseat. }
  destruct (QEq_fields _ _ H) as (F1 & F2 & F3 & F4 & F5 & F6 & F7 & F8 & F9 & F10 & F11 & F12 & F13
    & F14 & F15 & F16 & F17 & F18 & F19 & F20).
  repeat split; try assumption; apply H.
Qed.

(* ------------------------------------------------------------------ *)
(* grouping irrelevant: an event emitter cannot change the state *)

(* what abci.go:55,130-144 does with the provider->requests map: after the two phases it emits
   one event per provider, in Go map order.  Model: any list of events, in any order, appended to
   the log *)
Definition emit_all (evs : list Event) (s : State) : State := fold_right emit s evs.

Lemma emit_all_fields evs s :
  log (emit_all evs s) = evs ++ log s /\ set_log (emit_all evs s) (log s) = s.
Proof.
  induction evs as [|ev t IH]; cbn [emit_all fold_right app].
  - split; [reflexivity|]. destruct s; reflexivity.
  - destruct IH as (L & E). fold (emit_all t s). split.
    + unfold emit. sproj. now rewrite L.
    + exact E.
Qed.

Theorem C20_grouping_irrelevant cfg s dt evs evs' :
  Permutation evs evs' ->
  let a := emit_all evs (end_block cfg s dt) in let b := emit_all evs' (end_block cfg s dt) in
  set_log a (log (end_block cfg s dt)) = end_block cfg s dt
  /\ set_log b (log (end_block cfg s dt)) = end_block cfg s dt
  /\ (forall x, bal a x = bal b x) /\ bank a = bank b /\ ctxs a = ctxs b /\ reqs a = reqs b
  /\ Permutation (log a) (log b).
Proof.
  intros P a b. destruct (emit_all_fields evs (end_block cfg s dt)) as (L1 & E1).
  destruct (emit_all_fields evs' (end_block cfg s dt)) as (L2 & E2). fold a in L1, E1. fold b in L2, E2.
  split; [exact E1|]. split; [exact E2|].
  assert (Hb : bank a = bank b).
  { rewrite <- E1 in E2. apply (f_equal bank) in E2. cbn in E2. congruence. }
  split; [intros x; unfold bal; now rewrite Hb|]. split; [exact Hb|].
  split; [rewrite <- E1 in E2; apply (f_equal ctxs) in E2; cbn in E2; congruence|].
  split; [rewrite <- E1 in E2; apply (f_equal reqs) in E2; cbn in E2; congruence|].
  rewrite L1, L2. now apply Permutation_app_tail.
Qed.

(* ------------------------------------------------------------------ *)
(* InitGenesis ranges over two Go maps (genesis.go:33,38: withdrawal addresses, request contexts).
   The writes go to distinct keys, so the imported store does not depend on the order: *)
From SVC Require Import Model.Genesis Proofs.GenesisProofs.

Lemma get_perm {K V} `{EqDec K} (l l' : list (K * V)) k :
  NoDup (map fst l) -> Permutation l l' -> get k l = get k l'.
Proof.
  intros Hn P.
  assert (Hn' : NoDup (map fst l')) by (eapply Permutation_NoDup; [apply Permutation_map; exact P|exact Hn]).
  destruct (get k l) as [v|] eqn:G.
  - symmetry. apply In_get; [exact Hn'|]. eapply Permutation_in; [exact P|]. now apply get_In.
  - destruct (get k l') as [v|] eqn:G'; [|reflexivity]. exfalso.
    apply get_In in G'. apply (Permutation_in _ (Permutation_sym P)) in G'.
    apply (In_get _ _ _ Hn) in G'. congruence.
Qed.

Theorem C20_import_order_irrelevant h t g g' :
  genesis_wf g -> g_params g' = g_params g -> g_defs g' = g_defs g -> g_binds g' = g_binds g ->
  Permutation (g_wd g) (g_wd g') -> Permutation (g_ctxs g) (g_ctxs g') ->
  let a := import_genesis h t g in let b := import_genesis h t g' in
  (forall o, get o (wdaddr b) = get o (wdaddr a))
  /\ (forall c, get c (ctxs b) = get c (ctxs a))
  /\ defs b = defs a /\ binds b = binds a /\ pricing b = pricing a /\ owner_of b = owner_of a
  /\ own_prov b = own_prov a /\ own_bind b = own_bind a.
Proof.
  intros Hwf Ep Ed Eb Pw Pc a b.
  assert (Hwf' : genesis_wf g').
  { destruct Hwf as (W1 & W2 & W3 & W4). unfold genesis_wf. rewrite Ed, Eb.
    split; [exact W1|]. split; [exact W2|]. split.
    - eapply Permutation_NoDup; [apply Permutation_map; exact Pw|exact W3].
    - eapply Permutation_NoDup; [apply Permutation_map; exact Pc|exact W4]. }
  destruct (import_families h t g Hwf) as (A1 & A2 & A3 & A4 & A5).
  destruct (import_families h t g' Hwf') as (B1 & B2 & B3 & B4 & B5).
  fold a in A1, A2, A3, A4, A5. fold b in B1, B2, B3, B4, B5.
  destruct Hwf as (W1 & W2 & W3 & W4).
  split; [intros o; rewrite A3, B3; symmetry; now apply get_perm|].
  split; [intros c; rewrite A4, B4; symmetry; now apply get_perm|].
  split; [congruence|]. split; [congruence|]. split; [rewrite A5, B5, Eb; reflexivity|].
  unfold a, b, import_genesis. cbn [owner_of own_prov own_bind]. rewrite Eb. auto.
Qed.

(* ------------------------------------------------------------------ *)
(* instance: the block at height 6 of Proofs/BatchEx.v, where two expiry entries are due; with
   the list reversed the result is the same (and the hypotheses of the corollary hold) *)
From SVC Require Import Proofs.Inv Proofs.BatchEx.

Example C20_end_block_permuted_ex :
  let s := BEx.s_e in
  expq s = [(6, BEx.c1); (6, BEx.c2)]
  /\ Permutation (expq s) [(6, BEx.c2); (6, BEx.c1)]
  /\ log (end_block BEx.cfg0 (set_newq (set_expq s [(6, BEx.c2); (6, BEx.c1)]) (newq s)) 1)
     = log (end_block BEx.cfg0 s 1)
  /\ bank (end_block BEx.cfg0 (set_newq (set_expq s [(6, BEx.c2); (6, BEx.c1)]) (newq s)) 1)
     = bank (end_block BEx.cfg0 s 1).
Proof.
  cbv zeta. split; [vm_compute; reflexivity|].
  assert (P : Permutation (expq BEx.s_e) [(6, BEx.c2); (6, BEx.c1)]).
  { replace (expq BEx.s_e) with [(6, BEx.c1); (6, BEx.c2)] by (vm_compute; reflexivity). apply perm_swap. }
  split; [exact P|].
  destruct (C20_end_block_permuted BEx.cfg0 BEx.s_e 1 _ (newq BEx.s_e) P (Permutation_refl _))
    as (_ & _ & _ & _ & Hb & _ & _ & _ & _ & _ & _ & Hl & _).
  split; assumption.
Qed.

Print Assumptions due_canonical.
Print Assumptions C20_end_block_queue_order_irrelevant.
Print Assumptions C20_end_block_permuted.
Print Assumptions C20_grouping_irrelevant.
Print Assumptions C20_import_order_irrelevant.
