(* Instances by computation for Proofs/Restart.v: the hypotheses of restart_Inv are
   satisfiable on a concrete reachable state (two bindings of one owner, a
   withdrawal address, a repeated context in its second batch with two pending
   requests, an unwithdrawn earning), further operations run on the restarted
   state, and the counterexample for the one-shot clause. *)
From Coq Require Import List ZArith Bool Lia.
From SVC Require Import Base.AMap Base.Res Base.Dec Model.Types Model.Pricing Model.Handlers
  Model.EndBlock Model.Step Model.Genesis Proofs.Inv Proofs.InvAll Proofs.ReachRun
  Proofs.GenesisProofs Proofs.Restart.
Import ListNotations.
Open Scope Z_scope.

Definition rx_funding : list (Z * Z) := [(101, 1000); (111, 500); (112, 500)].

Lemma rx_cfg_wf : wf_cfg ex_cfg.
Proof. unfold wf_cfg, ex_cfg, HEIGHT_BOUND, ONE; cbn. repeat split; try lia; discriminate. Qed.

Lemma rx_funding_wf : wf_funding rx_funding.
Proof. unfold rx_funding. wf_funding_tac. Qed.

(* ---- the state of GenesisProofs.v (a one-shot context in flight) is reachable ---- *)
Lemma ex_state_reach : Reach ex_cfg ex_state.
Proof.
  unfold ex_state. apply reach_init_run; [lia|lia|exact rx_funding_wf|]. unfold ex_ops. wf_run_tac.
Qed.

(* ---- three blocks later: the one-shot context has expired and is gone ---- *)
Definition rx_ops : list Op := [OEndBlock 5; OEndBlock 5; OEndBlock 5].
Definition rx_state : State := run ex_cfg ex_state rx_ops.
Definition rx_prep : State := match prep_zero_height rx_state with Some s => s | None => rx_state end.

Lemma rx_reach : Reach ex_cfg rx_state.
Proof. unfold rx_state. apply reach_run; [exact ex_state_reach|]. unfold rx_ops. wf_run_tac. Qed.

Example rx_shape :
  height rx_state = 14 /\ length (binds rx_state) = 2%nat /\ keys (ctxs rx_state) = [(77, 0)]
  /\ active_total rx_state = 17 /\ earned rx_state = [(121, 9)] /\ bal rx_state Escrow = 26
  /\ bal rx_state Deposit = 200 /\ wdaddr rx_state = [(101, 131)].
Proof. vm_compute. repeat split. Qed.

Lemma rx_prep_eq : prep_zero_height rx_state = Some rx_prep.
Proof. vm_compute. reflexivity. Qed.

Lemma rx_no_oneshot : no_oneshot_inflight rx_state.
Proof. apply no_oneshot_inflight_b_sound. vm_compute. reflexivity. Qed.

(* the new chain starts at height 1, time 0 *)
Definition rx_new : State := restart ex_cfg rx_prep 1 0.

Example rx_new_Inv : Inv ex_cfg rx_new.
Proof.
  apply (restart_Inv ex_cfg rx_state rx_prep 1 0 rx_cfg_wf rx_reach rx_prep_eq rx_no_oneshot); lia.
Qed.

Example rx_new_shape :
  bal rx_new Escrow = 0 /\ bal rx_new Deposit = 200
  /\ bal rx_new (User 111) = bal rx_state (User 111) + 17 /\ bal rx_new (User 121) = 9
  /\ binds rx_new = binds rx_state /\ pricing rx_new = pricing rx_state
  /\ owner_of rx_new = owner_of rx_state /\ own_prov rx_new = own_prov rx_state
  /\ own_bind rx_new = own_bind rx_state /\ wdaddr rx_new = wdaddr rx_state
  /\ reqs rx_new = [] /\ earned rx_new = [] /\ expq rx_new = [] /\ newq rx_new = []
  /\ log rx_new = [EvCtxCreated (77, 0)]
  /\ supply rx_new = supply rx_state.
Proof. vm_compute. repeat split. Qed.

(* the id of the imported context cannot be handed out again *)
Example rx_ctx_id_refused :
  ~ wf_op rx_new (OCall (77, 0) 1 [121] 112 3 (CBase 1000) 2 false false 0 0 true true).
Proof. intros [Hf _]. apply Hf. vm_compute. now left. Qed.

(* the new chain runs: the owner disables and re-enables a binding, the consumer
   starts the imported context, a new one-shot call is made, the block ends (both
   contexts issue a batch), a provider answers *)
Definition rx_more : list Op := [
  ODisable 1 126 101 true;
  OEnable 1 126 (CBase 10) 101 true;
  OStart (77, 0) 111 true;
  OCall (90, 0) 1 [126] 112 3 (CBase 1000) 2 false false 0 0 true true;
  OEndBlock 5000000000;
  ORespond (77, 0, 3, 1, 0) 121 200 1 true true
].
Definition rx_end : State := run ex_cfg rx_new rx_more.

Lemma rx_more_wf : wf_run ex_cfg rx_new rx_more.
Proof. unfold rx_more. wf_run_tac. Qed.

Example rx_more_all_ok :
  map (fun k => snd (step ex_cfg (run ex_cfg rx_new (firstn k rx_more)) (nth k rx_more (OEndBlock 0))))
      [0; 1; 2; 3; 4; 5]%nat = [ROk; ROk; ROk; ROk; ROk; ROk].
Proof. vm_compute. reflexivity. Qed.

Example rx_end_shape :
  height rx_end = 2
  /\ (exists rc, get (77, 0) (ctxs rx_end) = Some rc /\ c_state rc = Running /\ c_counter rc = 3
                 /\ c_breq rc = 2 /\ c_bresp rc = 1)
  /\ (exists rc, get (90, 0) (ctxs rx_end) = Some rc /\ c_rep rc = false /\ c_counter rc = 1)
  /\ length (reqs rx_end) = 3%nat /\ active_total rx_end = 14 /\ earned rx_end = [(121, 9)]
  /\ bal rx_end Escrow = 23 /\ bal rx_end Deposit = 210.
Proof. vm_compute. repeat split; eexists; repeat split. Qed.

Example rx_end_Inv : Inv ex_cfg rx_end.
Proof.
  apply (restart_reach_Inv ex_cfg rx_state rx_prep 1 0 rx_end rx_cfg_wf rx_reach rx_prep_eq rx_no_oneshot);
    [lia|lia|]. apply ReachFrom_run. exact rx_more_wf.
Qed.

(* ------------------------------------------------------------------ *)
(* the counterexample: ex_state has the one-shot context (78,0) in flight *)

Theorem restart_Inv_refuted :
  exists cfg s s' h t, wf_cfg cfg /\ Reach cfg s /\ prep_zero_height s = Some s' /\ 1 <= h /\ 0 <= t
    /\ ~ I_ctx cfg (restart cfg s' h t) /\ ~ Inv cfg (restart cfg s' h t).
Proof.
  exists ex_cfg, ex_state, ex_prep, 1, 0.
  split; [exact rx_cfg_wf|]. split; [exact ex_state_reach|]. split; [exact ex_prep_eq|].
  split; [lia|]. split; [lia|].
  assert (Hn : ~ I_ctx ex_cfg (restart ex_cfg ex_prep 1 0)).
  { intros HI.
    assert (G : exists rc, get (78, 0) (ctxs (restart ex_cfg ex_prep 1 0)) = Some rc
                           /\ c_rep rc = false /\ c_counter rc = 1 /\ c_state rc = Paused).
    { vm_compute. eexists. repeat split. }
    destruct G as (rc & G & Hrep & Hcnt & Hst).
    destruct (HI _ _ G) as (_&_&_&_&_&H6&_).
    destruct (H6 Hrep) as [[H0 _]|(_ & Hrun & _)]; [lia|congruence]. }
  split; [exact Hn|]. intros HI. apply Hn. exact (inv_ctx _ _ HI).
Qed.

(* ... and what it means on the new chain: the consumer starts the paused one-shot
   context again and it gets a second batch *)
Theorem restart_oneshot_second_batch :
  exists cfg s s' h t s2, wf_cfg cfg /\ Reach cfg s /\ prep_zero_height s = Some s' /\ 1 <= h /\ 0 <= t
    /\ ReachFrom cfg (restart cfg s' h t) s2
    /\ exists c rc0 rc r q, get c (ctxs s) = Some rc0 /\ c_rep rc0 = false /\ c_counter rc0 = 1
         /\ get c (ctxs s2) = Some rc /\ c_rep rc = false /\ c_counter rc = 2
         /\ get r (reqs s2) = Some q /\ rid_ctx r = c /\ rid_batch r = 2 /\ r_active q = true.
Proof.
  exists ex_cfg, ex_state, ex_prep, 1, 0.
  exists (run ex_cfg (restart ex_cfg ex_prep 1 0) [OStart (78, 0) 112 true; OEndBlock 5]).
  split; [exact rx_cfg_wf|]. split; [exact ex_state_reach|]. split; [exact ex_prep_eq|].
  split; [lia|]. split; [lia|]. split.
  - apply ReachFrom_run. wf_run_tac.
  - exists (78, 0). vm_compute. do 2 eexists. exists (78, 0, 2, 1, 0). eexists. repeat split.
Qed.

(* ------------------------------------------------------------------ *)
(* a second observation (C09, "completed is final"): the reset pauses EVERY stored
   context (keeper/invocation.go:1149, no test on the state), so a context that was
   killed while its batch was in flight (completed, not yet removed) is a paused
   context of the new chain; its consumer can start it and it issues batches again.
   The invariant does not exclude this (no clause of Inv mentions Completed). *)
Definition rk_state : State := run ex_cfg rx_state [OKill (77, 0) 111 true].
Definition rk_prep : State := match prep_zero_height rk_state with Some s => s | None => rk_state end.

Theorem restart_killed_resurrected :
  exists cfg s s' h t s2 c rc0 rc,
    wf_cfg cfg /\ Reach cfg s /\ prep_zero_height s = Some s' /\ no_oneshot_inflight s
    /\ 1 <= h /\ 0 <= t /\ Inv cfg (restart cfg s' h t)
    /\ get c (ctxs s) = Some rc0 /\ c_state rc0 = Completed
    /\ ReachFrom cfg (restart cfg s' h t) s2
    /\ get c (ctxs s2) = Some rc /\ c_state rc = Running /\ c_counter rc = c_counter rc0 + 1
    /\ has c (expq_h s2) = true.
Proof.
  assert (Hr : Reach ex_cfg rk_state).
  { unfold rk_state. apply reach_run; [exact rx_reach|]. wf_run_tac. }
  assert (Ep : prep_zero_height rk_state = Some rk_prep) by (vm_compute; reflexivity).
  assert (Hno : no_oneshot_inflight rk_state).
  { apply no_oneshot_inflight_b_sound. vm_compute. reflexivity. }
  exists ex_cfg, rk_state, rk_prep, 1, 0.
  exists (run ex_cfg (restart ex_cfg rk_prep 1 0) [OStart (77, 0) 111 true; OEndBlock 5]).
  exists (77, 0).
  assert (G0 : exists rc0, get (77, 0) (ctxs rk_state) = Some rc0 /\ c_state rc0 = Completed
                           /\ c_counter rc0 = 2).
  { vm_compute. eexists. repeat split. }
  destruct G0 as (rc0 & G0 & Hst & Hcnt). exists rc0.
  assert (G2 : exists rc, get (77, 0) (ctxs (run ex_cfg (restart ex_cfg rk_prep 1 0)
                 [OStart (77, 0) 111 true; OEndBlock 5])) = Some rc
               /\ c_state rc = Running /\ c_counter rc = 3).
  { vm_compute. eexists. repeat split. }
  destruct G2 as (rc & G2 & Hst2 & Hcnt2). exists rc.
  split; [exact rx_cfg_wf|]. split; [exact Hr|]. split; [exact Ep|]. split; [exact Hno|].
  split; [lia|]. split; [lia|].
  split; [apply (restart_Inv ex_cfg rk_state rk_prep 1 0 rx_cfg_wf Hr Ep Hno); lia|].
  split; [exact G0|]. split; [exact Hst|].
  split; [apply ReachFrom_run; wf_run_tac|].
  split; [exact G2|]. split; [exact Hst2|]. split; [lia|]. vm_compute. reflexivity.
Qed.
