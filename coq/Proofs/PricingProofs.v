(* The pure pricing theorems: discount selection (C07_time_spec,
   C07_volume_spec), the fee formula and its bounds (C07_fee_formula,
   C07_charged_is_stored, C07_fee_bounds, C07_exact_floor and variants), the minimum deposit
   (C14_min_deposit_spec etc.) and price parsing.  All statements are about the
   executable definitions of Model/Pricing.v, which are extracted and compared
   with the real code by the pure price stream (tools/pure_price.sh). *)
From Coq Require Import List ZArith Lia ZifyBool Bool.
From SVC Require Import Base.AMap Base.Res Base.Dec Model.Types Model.Pricing Proofs.DecProofs.
Import ListNotations.
Open Scope Z_scope.

Ltac Zify.zify_post_hook ::= Z.div_mod_to_equations.

(* ================================================================== *)
(* Time promotions *)

(* the block time t lies in the window of w: start <= t < end *)
Definition in_window (w : PromoT) (t : Z) : Prop := pt_start w <= t < pt_end w.

Lemma valid_time_cons : forall pe w l, valid_time pe (w :: l) = true ->
  pt_start w < pt_end w
  /\ (forall e, pe = Some e -> e <= pt_start w)
  /\ valid_time (Some (pt_end w)) l = true.
Proof.
  intros pe w l H. cbn [valid_time] in H.
  apply andb_prop in H as [H H3]. apply andb_prop in H as [H1 H2].
  split; [lia |]. split; [| exact H3]. intros e ->. lia.
Qed.

Lemma valid_time_after : forall l e w, valid_time (Some e) l = true -> In w l ->
  e <= pt_start w /\ pt_start w < pt_end w.
Proof.
  induction l as [| a l IH]; intros e w H Hin; [contradiction |].
  apply valid_time_cons in H as (H1 & H2 & H3).
  specialize (H2 e eq_refl).
  destruct Hin as [-> | Hin].
  - lia.
  - specialize (IH _ _ H3 Hin). lia.
Qed.

(* ValidatePricing makes the windows non-empty and pairwise disjoint, in order *)
Lemma valid_time_windows_nonempty : forall l pe w, valid_time pe l = true -> In w l ->
  pt_start w < pt_end w.
Proof.
  induction l as [| a l IH]; intros pe w H Hin; [contradiction |].
  apply valid_time_cons in H as (H1 & H2 & H3).
  destruct Hin as [-> | Hin]; [exact H1 | eapply IH; eassumption].
Qed.

Lemma disc_time_spec_gen : forall l pe t, valid_time pe l = true ->
  (forall w, In w l -> in_window w t ->
     disc_time l t = pt_disc w /\ (forall w', In w' l -> in_window w' t -> w' = w))
  /\ ((forall w, In w l -> ~ in_window w t) -> disc_time l t = ONE).
Proof.
  unfold in_window.
  induction l as [| a l IH]; intros pe t H.
  - split; [intros w [] | reflexivity].
  - apply valid_time_cons in H as (H1 & H2 & H3).
    destruct (IH _ t H3) as [IHa IHb]. clear IH.
    cbn [disc_time].
    destruct ((pt_start a <=? t) && (t <? pt_end a)) eqn:E.
    + (* a is the window; nothing later can contain t *)
      assert (Hlater : forall x, In x l -> pt_start x <= t < pt_end x -> False).
      { intros x Hx Hw. destruct (valid_time_after _ _ _ H3 Hx). lia. }
      split.
      * intros w [<- | Hin] Hw.
        -- split; [reflexivity |].
           intros w' [<- | Hin'] Hw'; [reflexivity | exfalso; eauto].
        -- exfalso; eauto.
      * intros Hnone. exfalso. apply (Hnone a); [left; reflexivity | lia].
    + split.
      * intros w [<- | Hin] Hw; [lia |].
        destruct (IHa w Hin Hw) as [Hd Hu]. split; [exact Hd |].
        intros w' [<- | Hin'] Hw'; [lia | apply Hu; assumption].
      * intros Hnone. apply IHb. intros w Hin. apply Hnone. right. exact Hin.
Qed.

(* C07_time_spec: under ValidatePricing, the time discount is the discount of
   THE window containing the block time (there is at most one), else 1. *)
Theorem C07_time_spec : forall l t, valid_time None l = true ->
  (forall w, In w l -> pt_start w <= t < pt_end w ->
     disc_time l t = pt_disc w
     /\ (forall w', In w' l -> pt_start w' <= t < pt_end w' -> w' = w))
  /\ ((~ exists w, In w l /\ pt_start w <= t < pt_end w) -> disc_time l t = ONE).
Proof.
  intros l t H. destruct (disc_time_spec_gen l None t H) as [Ha Hb].
  split; [exact Ha |].
  intros Hne. apply Hb. intros w Hin Hw. apply Hne. exists w. split; assumption.
Qed.

(* the two cases of C07_time_spec are exhaustive (no validity needed) *)
Lemma time_window_cases : forall l t,
  (exists w, In w l /\ pt_start w <= t < pt_end w)
  \/ (~ exists w, In w l /\ pt_start w <= t < pt_end w).
Proof.
  induction l as [| a l IH]; intros t.
  - right. intros (w & [] & _).
  - destruct (Z_le_dec (pt_start a) t) as [H1 | H1];
    [destruct (Z_lt_dec t (pt_end a)) as [H2 | H2] |].
    + left. exists a. split; [left; reflexivity | lia].
    + destruct (IH t) as [(w & Hin & Hw) | Hn].
      * left. exists w. split; [right; exact Hin | exact Hw].
      * right. intros (w & [<- | Hin] & Hw); [lia | apply Hn; eauto].
    + destruct (IH t) as [(w & Hin & Hw) | Hn].
      * left. exists w. split; [right; exact Hin | exact Hw].
      * right. intros (w & [<- | Hin] & Hw); [lia | apply Hn; eauto].
Qed.

(* without validity the selector still returns the FIRST window containing t *)
Lemma disc_time_first : forall l1 w l2 t,
  (forall x, In x l1 -> ~ in_window x t) -> in_window w t ->
  disc_time (l1 ++ w :: l2) t = pt_disc w.
Proof.
  unfold in_window. induction l1 as [| a l1 IH]; intros w l2 t Hn Hw; cbn [app disc_time].
  - destruct ((pt_start w <=? t) && (t <? pt_end w)) eqn:E; [reflexivity | lia].
  - pose proof (Hn a (or_introl eq_refl)).
    destruct ((pt_start a <=? t) && (t <? pt_end a)) eqn:E; [lia |].
    apply IH; [| exact Hw]. intros x Hx. apply Hn. right. exact Hx.
Qed.

Definition ex_windows : list PromoT :=
  [ mkPromoT 100 200 500000000000000000;
    mkPromoT 200 300 100000000000000000;
    mkPromoT 400 500 999999999999999999 ].

Example ex_time_valid : valid_time None ex_windows = true.
Proof. vm_compute. reflexivity. Qed.
Example ex_time_points :
  map (disc_time ex_windows) [99; 100; 199; 200; 299; 300; 399; 400; 499; 500]
  = [ONE; 500000000000000000; 500000000000000000; 100000000000000000; 100000000000000000;
     ONE; ONE; 999999999999999999; 999999999999999999; ONE].
Proof. vm_compute. reflexivity. Qed.
(* C07_time_spec applied: 250 lies in the second window only; 350 in none *)
Example ex_time_spec_instance :
  disc_time ex_windows 250 = 100000000000000000 /\ disc_time ex_windows 350 = ONE.
Proof.
  destruct (C07_time_spec ex_windows 250 ex_time_valid) as [Hin _].
  destruct (C07_time_spec ex_windows 350 ex_time_valid) as [_ Hout].
  split.
  - apply (Hin (mkPromoT 200 300 100000000000000000)).
    + right. left. reflexivity.
    + cbn [pt_start pt_end]. lia.
  - apply Hout. intros (w & Hw & Ht).
    repeat (destruct Hw as [<- | Hw]; [cbn [pt_start pt_end] in Ht; lia |]). exact Hw.
Qed.
(* the hypothesis matters: with overlapping windows the first one wins *)
Example ex_time_overlap_first_wins :
  let l := [mkPromoT 100 300 1; mkPromoT 200 400 2] in
  valid_time None l = false /\ disc_time l 250 = 1.
Proof. vm_compute. split; reflexivity. Qed.

(* ================================================================== *)
(* Volume promotions *)

Lemma valid_vol_cons : forall pv w l, valid_vol pv (w :: l) = true ->
  (forall v0, pv = Some v0 -> v0 <= pv_vol w) /\ valid_vol (Some (pv_vol w)) l = true.
Proof.
  intros pv w l H. cbn [valid_vol] in H. apply andb_prop in H as [H1 H2].
  split; [| exact H2]. intros v0 ->. lia.
Qed.

Lemma valid_vol_after : forall l v0 w, valid_vol (Some v0) l = true -> In w l -> v0 <= pv_vol w.
Proof.
  induction l as [| a l IH]; intros v0 w H Hin; [contradiction |].
  apply valid_vol_cons in H as (H1 & H2). specialize (H1 v0 eq_refl).
  destruct Hin as [-> | Hin]; [exact H1 |].
  specialize (IH _ _ H2 Hin). lia.
Qed.

(* non-descending: everything before a tier is at most that tier *)
Lemma valid_vol_app_le : forall l1 pv w l2, valid_vol pv (l1 ++ w :: l2) = true ->
  forall x, In x l1 -> pv_vol x <= pv_vol w.
Proof.
  induction l1 as [| a l1 IH]; intros pv w l2 H x Hin; [contradiction |].
  cbn [app] in H. apply valid_vol_cons in H as (_ & H2).
  destruct Hin as [<- | Hin].
  - apply (valid_vol_after _ _ _ H2). apply in_or_app. right. left. reflexivity.
  - eapply IH; eassumption.
Qed.

Lemma disc_vol_aux_none : forall l prev v,
  (forall x, In x l -> v < pv_vol x) -> disc_vol_aux prev l v = prev.
Proof.
  intros [| a l] prev v H; [reflexivity |]. cbn [disc_vol_aux].
  specialize (H a (or_introl eq_refl)).
  destruct (v <? pv_vol a) eqn:E; [reflexivity | lia].
Qed.

Lemma disc_vol_aux_split : forall l1 prev w l2 v,
  (forall x, In x l1 -> pv_vol x <= v) -> pv_vol w <= v ->
  (forall x, In x l2 -> v < pv_vol x) ->
  disc_vol_aux prev (l1 ++ w :: l2) v = pv_disc w.
Proof.
  induction l1 as [| a l1 IH]; intros prev w l2 v H1 Hw H2; cbn [app disc_vol_aux].
  - destruct (v <? pv_vol w) eqn:E; [lia |]. apply disc_vol_aux_none. exact H2.
  - pose proof (H1 a (or_introl eq_refl)).
    destruct (v <? pv_vol a) eqn:E; [lia |].
    apply IH; try assumption. intros x Hx. apply H1. right. exact Hx.
Qed.

(* the tier w, everything after which is above v *)
Lemma disc_vol_split : forall l1 w l2 v, valid_vol None (l1 ++ w :: l2) = true ->
  pv_vol w <= v -> (forall x, In x l2 -> v < pv_vol x) ->
  disc_vol (l1 ++ w :: l2) v = pv_disc w.
Proof.
  intros l1 w l2 v Hv Hw H2. unfold disc_vol.
  apply disc_vol_aux_split; try assumption.
  intros x Hx. pose proof (valid_vol_app_le _ _ _ _ Hv x Hx). lia.
Qed.

Lemma nth_after_split : forall (l1 : list PromoV) w l2 d k,
  nth (length l1 + S k) (l1 ++ w :: l2) d = nth k l2 d.
Proof.
  intros l1 w l2 d k. rewrite app_nth2 by lia.
  replace (length l1 + S k - length l1)%nat with (S k) by lia. reflexivity.
Qed.

(* C07_volume_spec: under ValidatePricing (volumes non-descending) the volume
   discount is 1 when every tier is above v, and otherwise the discount of the
   tier at the largest index i with vol_i <= v. *)
Theorem C07_volume_spec : forall l v, valid_vol None l = true ->
  ((forall w, In w l -> v < pv_vol w) -> disc_vol l v = ONE)
  /\ (forall i d, (i < length l)%nat ->
        pv_vol (nth i l d) <= v ->
        (forall j, (i < j < length l)%nat -> v < pv_vol (nth j l d)) ->
        disc_vol l v = pv_disc (nth i l d)).
Proof.
  intros l v Hv. split.
  - intros H. unfold disc_vol. apply disc_vol_aux_none. exact H.
  - intros i d Hi Hle Hgt.
    destruct (nth_split l d Hi) as (l1 & l2 & Hl & Hlen).
    set (w := nth i l d) in *.
    assert (Hl2 : forall x, In x l2 -> v < pv_vol x).
    { intros x Hx. destruct (In_nth _ _ d Hx) as (k & Hk & <-).
      rewrite <- (nth_after_split l1 w l2 d k), <- Hl, Hlen.
      apply Hgt. rewrite Hl, app_length. cbn [length]. lia. }
    rewrite Hl in Hv |- *. apply disc_vol_split; assumption.
Qed.

(* the two cases of C07_volume_spec are exhaustive *)
Lemma volume_tier_cases : forall l v d,
  (forall w, In w l -> v < pv_vol w)
  \/ (exists i, (i < length l)%nat /\ pv_vol (nth i l d) <= v
        /\ forall j, (i < j < length l)%nat -> v < pv_vol (nth j l d)).
Proof.
  induction l as [| a l IH]; intros v d.
  - left. intros w [].
  - destruct (IH v d) as [Hall | (i & Hi & Hle & Hgt)].
    + destruct (Z_lt_dec v (pv_vol a)) as [Ha | Ha].
      * left. intros w [<- | Hin]; [exact Ha | apply Hall; exact Hin].
      * right. exists 0%nat. cbn [length nth]. split; [lia |]. split; [lia |].
        intros [| j] Hj; [lia |]. cbn [nth]. apply Hall. apply nth_In. lia.
    + right. exists (S i). cbn [length nth]. split; [lia |]. split; [exact Hle |].
      intros [| j] Hj; [lia |]. cbn [nth]. apply Hgt. lia.
Qed.

(* said on volumes only: v lies in [vol_i, vol_{i+1}) *)
Corollary C07_volume_between : forall l1 w w' l2 v,
  valid_vol None (l1 ++ w :: w' :: l2) = true ->
  pv_vol w <= v < pv_vol w' -> disc_vol (l1 ++ w :: w' :: l2) v = pv_disc w.
Proof.
  intros l1 w w' l2 v Hv Hr. apply disc_vol_split; [exact Hv | lia |].
  intros x Hx.
  assert (pv_vol w' <= pv_vol x); [| lia].
  destruct Hx as [<- | Hx]; [lia |].
  replace (l1 ++ w :: w' :: l2) with ((l1 ++ [w]) ++ w' :: l2) in Hv
    by (rewrite <- app_assoc; reflexivity).
  clear Hr. revert Hv. generalize (l1 ++ [w]). generalize (@None Z).
  intros pv l0. revert pv. induction l0 as [| a l0 IH]; intros pv Hv.
  - cbn [app] in Hv. apply valid_vol_cons in Hv as (_ & Hv).
    apply (valid_vol_after _ _ _ Hv Hx).
  - cbn [app] in Hv. apply valid_vol_cons in Hv as (_ & Hv). eapply IH; eassumption.
Qed.

Definition ex_tiers : list PromoV :=
  [ mkPromoV 1 900000000000000000;
    mkPromoV 3 500000000000000000;
    mkPromoV 3 400000000000000000;
    mkPromoV 5 100000000000000000 ].

Example ex_vol_valid : valid_vol None ex_tiers = true.
Proof. vm_compute. reflexivity. Qed.
(* equal volumes: the later tier wins *)
Example ex_vol_points :
  map (disc_vol ex_tiers) [0; 1; 2; 3; 4; 5; 6]
  = [ONE; 900000000000000000; 900000000000000000; 400000000000000000; 400000000000000000;
     100000000000000000; 100000000000000000].
Proof. vm_compute. reflexivity. Qed.
(* C07_volume_spec applied: for v = 4 the largest index with vol_i <= 4 is 2 (the second 3) *)
Example ex_vol_spec_instance : disc_vol ex_tiers 4 = 400000000000000000.
Proof.
  destruct (C07_volume_spec ex_tiers 4 ex_vol_valid) as [_ H].
  apply (H 2%nat (mkPromoV 0 0)).
  - cbn [length ex_tiers]. lia.
  - cbn [nth ex_tiers pv_vol]. lia.
  - intros j Hj. cbn [length ex_tiers] in Hj. assert (j = 3%nat) as -> by lia.
    cbn [nth ex_tiers pv_vol]. lia.
Qed.
(* the hypothesis matters: descending volumes give the tier before the first
   one above v, not the last one at or below v *)
Example ex_vol_descending :
  let l := [mkPromoV 5 1; mkPromoV 2 2] in
  valid_vol None l = false /\ disc_vol l 3 = ONE /\ pv_vol (nth 1 l (mkPromoV 0 0)) <= 3.
Proof. vm_compute. repeat split; discriminate. Qed.

(* ================================================================== *)
(* Discount ranges under the schema *)

Lemma disc_time_range : forall l t,
  forallb (fun x => disc_ok (pt_disc x)) l = true -> 0 < disc_time l t <= ONE.
Proof.
  induction l as [| a l IH]; intros t H; cbn [disc_time].
  - rewrite ONE_val. pose proof PREC_pos. lia.
  - cbn [forallb] in H. apply andb_prop in H as [Ha Hl].
    destruct ((pt_start a <=? t) && (t <? pt_end a)).
    + unfold disc_ok in Ha. lia.
    + apply IH. exact Hl.
Qed.

Lemma disc_vol_aux_range : forall l prev v,
  forallb (fun x => disc_ok (pv_disc x) && (1 <=? pv_vol x)) l = true ->
  0 < prev <= ONE -> 0 < disc_vol_aux prev l v <= ONE.
Proof.
  induction l as [| a l IH]; intros prev v H Hp; cbn [disc_vol_aux]; [exact Hp |].
  cbn [forallb] in H. apply andb_prop in H as [Ha Hl].
  destruct (v <? pv_vol a); [exact Hp |].
  apply IH; [exact Hl |]. unfold disc_ok in Ha. lia.
Qed.

Lemma disc_vol_range : forall l v,
  forallb (fun x => disc_ok (pv_disc x) && (1 <=? pv_vol x)) l = true ->
  0 < disc_vol l v <= ONE.
Proof.
  intros l v H. unfold disc_vol. apply disc_vol_aux_range; [exact H |].
  rewrite ONE_val. pose proof PREC_pos. lia.
Qed.

(* a consumer with no delivered responses gets no volume discount
   (the schema requires volume thresholds of at least 1) *)
Lemma disc_vol_zero_volume : forall l,
  forallb (fun x => disc_ok (pv_disc x) && (1 <=? pv_vol x)) l = true -> disc_vol l 0 = ONE.
Proof.
  intros [| a l] H; [reflexivity |]. unfold disc_vol. cbn [disc_vol_aux].
  cbn [forallb] in H. apply andb_prop in H as [Ha _].
  destruct (0 <? pv_vol a) eqn:E; [reflexivity | lia].
Qed.

Lemma schema_pricing_parts : forall p, schema_pricing p = true ->
  forallb (fun x => disc_ok (pt_disc x)) (pr_time p) = true
  /\ forallb (fun x => disc_ok (pv_disc x) && (1 <=? pv_vol x)) (pr_vol p) = true
  /\ 0 <= pr_price p.
Proof.
  intros p H. unfold schema_pricing in H.
  apply andb_prop in H as [H H3]. apply andb_prop in H as [H1 H2].
  repeat split; try assumption; lia.
Qed.

(* ================================================================== *)
(* The fee *)

(* the exact product base * dT * dV, scaled by 10^36 *)
Definition exact_num (p : Pricing) (t v : Z) : Z :=
  pr_price p * disc_time (pr_time p) t * disc_vol (pr_vol p) v.

(* the first multiplication is exact, only the second rounds *)
Lemma price_dec_eq : forall p t v, price_dec p t v = chop_round (exact_num p t v).
Proof.
  intros p t v. unfold price_dec, exact_num. rewrite dmul_dec_of_int. reflexivity.
Qed.

Lemma dtrunc_below_ONE : forall x, x < ONE -> dtrunc x <= 0.
Proof.
  intros x Hx. destruct (Z_lt_le_dec x 0) as [Hn | Hn].
  - apply dtrunc_nonpos. lia.
  - rewrite dtrunc_nonneg_eq by lia. rewrite ONE_val in Hx.
    rewrite Z.div_small; lia.
Qed.

Lemma dtrunc_from_ONE : forall x, ONE <= x -> 1 <= dtrunc x.
Proof.
  intros x Hx. rewrite <- dtrunc_ONE. apply dtrunc_mono_nonneg.
  rewrite ONE_val in *. pose proof PREC_pos. lia.
Qed.

(* C07_fee_formula: the fee of a non-super request, for EVERY pricing (no
   hypothesis): truncate base*dT*dV (two sdk.Dec multiplications), at least 1. *)
Theorem C07_fee_formula : forall p t v,
  get_price p t v = Z.max 1 (dtrunc (price_dec p t v)).
Proof.
  intros p t v. unfold get_price. cbv zeta.
  set (x := price_dec p t v).
  destruct (x <? ONE) eqn:E.
  - apply Z.ltb_lt in E. pose proof (dtrunc_below_ONE x E). rewrite dtrunc_ONE. lia.
  - apply Z.ltb_ge in E. pose proof (dtrunc_from_ONE x E). lia.
Qed.

Corollary C07_fee_formula_expanded : forall p t v,
  get_price p t v =
  Z.max 1 (dtrunc (dmul (dmul (pr_price p * PREC) (disc_time (pr_time p) t))
                        (disc_vol (pr_vol p) v))).
Proof. intros. apply C07_fee_formula. Qed.

(* what the consumer is charged (GetExchangedPrice, base denom) is exactly the
   fee stored on the request (GetPrice): the repair of D2 *)
Theorem C07_charged_is_stored : forall p t v, exchanged_price p t v = get_price p t v.
Proof. intros p t v. reflexivity. Qed.

Theorem C07_fee_ge_1 : forall p t v, 1 <= get_price p t v.
Proof. intros p t v. rewrite C07_fee_formula. lia. Qed.

Lemma price_dec_bounds : forall p t v, schema_pricing p = true ->
  0 <= price_dec p t v <= pr_price p * PREC.
Proof.
  intros p t v H. apply schema_pricing_parts in H as (Ht & Hv & Hp).
  pose proof (disc_time_range _ t Ht) as HT.
  pose proof (disc_vol_range _ v Hv) as HV.
  unfold price_dec. rewrite dmul_dec_of_int.
  set (dT := disc_time (pr_time p) t) in *. set (dV := disc_vol (pr_vol p) v) in *.
  assert (Ha : 0 <= pr_price p * dT) by nia.
  pose proof (dmul_discount_bounds (pr_price p * dT) dV Ha ltac:(lia)) as Hb.
  rewrite ONE_val in HT. nia.
Qed.

(* C07_fee_bounds: with every discount strictly between 0 and 1 and a
   non-negative base price, the fee is between 1 and max(base, 1). *)
Theorem C07_fee_bounds : forall p t v, schema_pricing p = true ->
  1 <= get_price p t v <= Z.max (pr_price p) 1.
Proof.
  intros p t v H. split; [apply C07_fee_ge_1 |].
  rewrite C07_fee_formula.
  pose proof (price_dec_bounds p t v H) as Hb.
  assert (dtrunc (price_dec p t v) <= pr_price p).
  { rewrite <- (dtrunc_mult (pr_price p)). apply dtrunc_mono_nonneg. exact Hb. }
  lia.
Qed.

(* the name used in DESIGN.md *)
Corollary C07_fee_le : forall p t v, schema_pricing p = true ->
  get_price p t v <= Z.max (pr_price p) 1.
Proof. intros p t v H. apply C07_fee_bounds. exact H. Qed.

(* no discount applies: the fee is the base price (1 if the base price is 0) *)
Theorem C07_exact_no_discount : forall p t v,
  disc_time (pr_time p) t = ONE -> disc_vol (pr_vol p) v = ONE ->
  get_price p t v = Z.max 1 (pr_price p).
Proof.
  intros p t v HT HV. rewrite C07_fee_formula. unfold price_dec.
  rewrite HT, HV, !dmul_ONE_r. unfold dec_of_int. rewrite dtrunc_mult. reflexivity.
Qed.

Corollary C07_exact_no_discount_pos : forall p t v,
  disc_time (pr_time p) t = ONE -> disc_vol (pr_vol p) v = ONE -> 1 <= pr_price p ->
  get_price p t v = pr_price p.
Proof. intros p t v HT HV Hp. rewrite C07_exact_no_discount by assumption. lia. Qed.

(* only one discount applies: a single rounding-free product, the fee is its exact floor *)
Theorem C07_exact_one_discount_time : forall p t v,
  disc_vol (pr_vol p) v = ONE -> 0 <= pr_price p -> 0 <= disc_time (pr_time p) t ->
  get_price p t v = Z.max 1 ((pr_price p * disc_time (pr_time p) t) / PREC).
Proof.
  intros p t v HV Hp HT. rewrite C07_fee_formula. unfold price_dec.
  rewrite HV, dmul_ONE_r, dmul_dec_of_int, dtrunc_nonneg_eq by nia. reflexivity.
Qed.

Theorem C07_exact_one_discount_volume : forall p t v,
  disc_time (pr_time p) t = ONE -> 0 <= pr_price p -> 0 <= disc_vol (pr_vol p) v ->
  get_price p t v = Z.max 1 ((pr_price p * disc_vol (pr_vol p) v) / PREC).
Proof.
  intros p t v HT Hp HV. rewrite C07_fee_formula. unfold price_dec.
  rewrite HT, dmul_ONE_r. unfold dec_of_int. rewrite dmul_int_exact, dtrunc_nonneg_eq by nia.
  reflexivity.
Qed.

Lemma exact_num_nonneg : forall p t v, schema_pricing p = true -> 0 <= exact_num p t v.
Proof.
  intros p t v H. apply schema_pricing_parts in H as (Ht & Hv & Hp).
  pose proof (disc_time_range _ t Ht). pose proof (disc_vol_range _ v Hv).
  unfold exact_num. nia.
Qed.

(* C07_exact_floor: both discounts apply.  X = base*dT*dV*10^36 is the exact
   product; X / 10^36 its floor.  The fee is max 1 floor unless the exact
   product lies within 5*10^-19 below an integer (X mod 10^36 >= 10^36 -
   5*10^17); in that case, and only then, the second Mul rounds up to the
   integer and the fee is max 1 (floor + 1).  This is the whole effect of
   18-digit rounding. *)
Theorem C07_exact_floor : forall p t v, schema_pricing p = true ->
  exact_num p t v mod PREC2 < PREC2 - HALF ->
  get_price p t v = Z.max 1 (exact_num p t v / PREC2).
Proof.
  intros p t v H Hm. rewrite C07_fee_formula, price_dec_eq.
  rewrite round_then_trunc_exact; [reflexivity | apply exact_num_nonneg; exact H | exact Hm].
Qed.

Theorem C07_exact_floor_up : forall p t v, schema_pricing p = true ->
  PREC2 - HALF <= exact_num p t v mod PREC2 ->
  get_price p t v = Z.max 1 (exact_num p t v / PREC2 + 1).
Proof.
  intros p t v H Hm. rewrite C07_fee_formula, price_dec_eq.
  rewrite round_then_trunc_up; [reflexivity | apply exact_num_nonneg; exact H | exact Hm].
Qed.

(* in every case the fee is the floored exact price or one more *)
Theorem C07_fee_within_1 : forall p t v, schema_pricing p = true ->
  Z.max 1 (exact_num p t v / PREC2) <= get_price p t v
  <= Z.max 1 (exact_num p t v / PREC2) + 1.
Proof.
  intros p t v H. rewrite C07_fee_formula, price_dec_eq.
  pose proof (round_then_trunc_bounds _ (exact_num_nonneg p t v H)). lia.
Qed.

(* the fee is monotone in the base price (same promotions) *)
Theorem C07_fee_mono_price : forall b1 b2 lt lv t v,
  0 <= b1 <= b2 -> 0 <= disc_time lt t -> 0 <= disc_vol lv v ->
  get_price (mkPricing b1 lt lv) t v <= get_price (mkPricing b2 lt lv) t v.
Proof.
  intros b1 b2 lt lv t v Hb HT HV. rewrite !C07_fee_formula.
  unfold price_dec. cbn [pr_price pr_time pr_vol]. rewrite !dmul_dec_of_int.
  set (dT := disc_time lt t) in *. set (dV := disc_vol lv v) in *.
  assert (dtrunc (dmul (b1 * dT) dV) <= dtrunc (dmul (b2 * dT) dV)); [| lia].
  apply dtrunc_mono_nonneg. split.
  - apply dmul_nonneg; nia.
  - apply dmul_mono_l; nia.
Qed.

Definition ex_pricing : Pricing := mkPricing 1000 ex_windows ex_tiers.

Example ex_schema : schema_pricing ex_pricing = true /\ validate_pricing ex_pricing = true.
Proof. vm_compute. split; reflexivity. Qed.
Example ex_fees :
  get_price ex_pricing 50 0 = 1000          (* no discount *)
  /\ get_price ex_pricing 150 0 = 500       (* 0.5 by time *)
  /\ get_price ex_pricing 150 3 = 200       (* 0.5 * 0.4 *)
  /\ get_price ex_pricing 450 5 = 99        (* 1000 * 0.999999999999999999 * 0.1 = 99.9999999999999999 *)
  /\ get_price (mkPricing 1 ex_windows ex_tiers) 250 5 = 1  (* 0.01 -> floor 1 *)
  /\ get_price (mkPricing 0 [] []) 0 0 = 1.
Proof. vm_compute. repeat split. Qed.
Example ex_no_discount_hyp :
  disc_time (pr_time ex_pricing) 50 = ONE /\ disc_vol (pr_vol ex_pricing) 0 = ONE
  /\ 1 <= pr_price ex_pricing /\ get_price ex_pricing 50 0 = pr_price ex_pricing.
Proof. vm_compute. repeat split; discriminate. Qed.
Example ex_fee_bounds_instance :     (* price 0 under the schema: fee exactly 1 = max(0,1) *)
  schema_pricing (mkPricing 0 ex_windows ex_tiers) = true
  /\ get_price (mkPricing 0 ex_windows ex_tiers) 150 3 = 1.
Proof. vm_compute. split; reflexivity. Qed.
Example ex_exact_floor_hyp :
  exact_num ex_pricing 450 5 mod PREC2 < PREC2 - HALF /\ exact_num ex_pricing 450 5 / PREC2 = 99.
Proof. vm_compute. split; reflexivity. Qed.
(* the rounding case is inhabited under the schema: exact price 1.99999...992, fee 2 *)
Definition ex_round_pricing : Pricing :=
  mkPricing 6 [mkPromoT 0 10 333333333333333334] [mkPromoV 1 999999999999999998].
Example ex_exact_floor_up_hyp :
  schema_pricing ex_round_pricing = true
  /\ PREC2 - HALF <= exact_num ex_round_pricing 5 1 mod PREC2
  /\ exact_num ex_round_pricing 5 1 / PREC2 = 1
  /\ get_price ex_round_pricing 5 1 = 2.
Proof. vm_compute. repeat split; discriminate. Qed.
(* hence "fee = max 1 floor(exact product)" without the side condition is false *)
Example C07_fee_is_floor_refuted :
  exists p t v, schema_pricing p = true /\ validate_pricing p = true
    /\ get_price p t v <> Z.max 1 (exact_num p t v / PREC2).
Proof. exists ex_round_pricing, 5, 1. vm_compute. repeat split; discriminate. Qed.
(* the bound max(base,1) needs the schema: a discount above 1 breaks it *)
Example ex_fee_bound_needs_schema :
  let p := mkPricing 10 [mkPromoT 0 10 (2 * PREC)] [] in
  schema_pricing p = false /\ get_price p 5 0 = 20.
Proof. vm_compute. split; reflexivity. Qed.

(* ================================================================== *)
(* Minimum deposit (C14 arithmetic; K1: panic on a 255-bit overflow) *)

Lemma INT_LIMIT_val : INT_LIMIT = 2 ^ 255.
Proof. reflexivity. Qed.

Theorem C14_min_deposit_spec : forall cfg p m, min_deposit cfg p = Ok m ->
  m = Z.max (pr_price p * p_multiple cfg) (p_min_deposit cfg)
  /\ pr_price p * p_multiple cfg < 2 ^ 255.
Proof.
  intros cfg p m H. unfold min_deposit in H. cbv zeta in H.
  destruct (INT_LIMIT <=? pr_price p * p_multiple cfg) eqn:E; [discriminate |].
  apply Z.leb_gt in E. rewrite INT_LIMIT_val in E.
  injection H as <-. split; [reflexivity | exact E].
Qed.

Theorem C14_min_deposit_ok : forall cfg p, pr_price p * p_multiple cfg < 2 ^ 255 ->
  min_deposit cfg p = Ok (Z.max (pr_price p * p_multiple cfg) (p_min_deposit cfg)).
Proof.
  intros cfg p H. unfold min_deposit. cbv zeta.
  destruct (INT_LIMIT <=? pr_price p * p_multiple cfg) eqn:E; [| reflexivity].
  apply Z.leb_le in E. rewrite INT_LIMIT_val in E. lia.
Qed.

Theorem C14_min_deposit_panic_iff : forall cfg p,
  min_deposit cfg p = Panic <-> 2 ^ 255 <= pr_price p * p_multiple cfg.
Proof.
  intros cfg p. unfold min_deposit. cbv zeta. rewrite <- INT_LIMIT_val.
  destruct (INT_LIMIT <=? pr_price p * p_multiple cfg) eqn:E.
  - apply Z.leb_le in E. split; [intros _; exact E | reflexivity].
  - apply Z.leb_gt in E. split; [discriminate | lia].
Qed.

Theorem C14_min_deposit_never_err : forall cfg p, min_deposit cfg p <> Err.
Proof.
  intros cfg p. unfold min_deposit. cbv zeta.
  destruct (INT_LIMIT <=? pr_price p * p_multiple cfg); discriminate.
Qed.

Corollary C14_min_deposit_ge : forall cfg p m, min_deposit cfg p = Ok m ->
  p_min_deposit cfg <= m /\ pr_price p * p_multiple cfg <= m.
Proof. intros cfg p m H. apply C14_min_deposit_spec in H as [-> _]. lia. Qed.

Definition ex_cfg : Params := mkParams 100 1000 5000 50000000000000000 1000000000000000 0 0 0 0.

Example ex_min_deposit :
  min_deposit ex_cfg (mkPricing 4 [] []) = Ok 5000
  /\ min_deposit ex_cfg (mkPricing 5 [] []) = Ok 5000
  /\ min_deposit ex_cfg (mkPricing 6 [] []) = Ok 6000.
Proof. vm_compute. repeat split. Qed.

(* K1: a price the schema accepts makes getMinDeposit panic *)
Example C20_K1_min_deposit_panics :
  exists price, 0 <= price /\ schema_pricing (mkPricing price [] []) = true
    /\ price < 2 ^ 255      (* the price itself fits an sdk.Int *)
    /\ min_deposit ex_cfg (mkPricing price [] []) = Panic.
Proof. exists (2 ^ 246). vm_compute. repeat split; discriminate. Qed.

(* and the largest price that does not, for multiple 1000 *)
Example ex_K1_threshold :
  min_deposit ex_cfg (mkPricing ((2 ^ 255 - 1) / 1000) [] []) <> Panic
  /\ min_deposit ex_cfg (mkPricing ((2 ^ 255 - 1) / 1000 + 1) [] []) = Panic.
Proof. vm_compute. split; [discriminate | reflexivity]. Qed.

(* ================================================================== *)
(* Parsing the published price *)

Theorem parse_pricing_price : forall r, pr_price (parse_pricing r) = dtrunc (raw_price r).
Proof. intros r. reflexivity. Qed.

Theorem parse_pricing_floor : forall r, 0 <= raw_price r ->
  pr_price (parse_pricing r) = raw_price r / PREC.
Proof. intros r H. cbn [parse_pricing pr_price]. apply dtrunc_nonneg_eq. exact H. Qed.

Theorem parse_pricing_promotions : forall r,
  pr_time (parse_pricing r) = raw_time r /\ pr_vol (parse_pricing r) = raw_vol r.
Proof. intros r. split; reflexivity. Qed.

Corollary parse_pricing_nonneg : forall r, 0 <= raw_price r -> 0 <= pr_price (parse_pricing r).
Proof. intros r H. rewrite parse_pricing_price. apply dtrunc_nonneg. exact H. Qed.

(* "0.5stake" parses to 0 (witness W2 of D2) *)
Example ex_parse_half : pr_price (parse_pricing (mkRaw 500000000000000000 [] [])) = 0.
Proof. vm_compute. reflexivity. Qed.
Example ex_parse_floor_hyp :
  let r := mkRaw 2999999999999999999 [] [] in 0 <= raw_price r /\ pr_price (parse_pricing r) = 2.
Proof. vm_compute. split; [discriminate | reflexivity]. Qed.
