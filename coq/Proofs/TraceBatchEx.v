(* Examples (vm_compute) for the trace theorems of Proofs/TraceBatch.v on the histories of
   Proofs/BatchEx.v: a one-shot module context (threshold 2, three providers, one valid and
   one malformed response, the third request expires) and a repeated module context. *)
From Coq Require Import List ZArith Bool Lia.
From SVC Require Import Base.AMap Base.Res Base.Dec Model.Types Model.Pricing
  Model.Handlers Model.EndBlock Model.Step Proofs.Inv Proofs.CtxOps Proofs.TraceBase
  Proofs.ReachRun Proofs.BatchEx Proofs.C12Proofs Proofs.TraceBatch.
Import ListNotations.
Open Scope Z_scope.

Module ExT.
  Import BEx.

  (* the whole batch-level log after the expiry block of height 6 (newest first): c2's batch
     (no response: callback with no output, error flag set since 0 < threshold 1), then c1's
     (outputs 1 and 2 in request order; 2 >= threshold 2: no error), c1 removed *)
  Example blog_x :
    blog s_x =
    [EvBatchDone c2 1; EvCbResp c2 1 [] true;
     EvCtxRemoved c1; EvBatchDone c1 1; EvCbResp c1 1 [1; 2] false;
     EvBatchStart c2 1 1 2; EvBatchStart c1 1 1 3; EvCtxCreated c2; EvCtxCreated c1].
  Proof. vm_compute. reflexivity. Qed.

  (* C12_callback_once on that state: exactly one callback per completed batch *)
  Example C12_callback_once_ex :
    Reach cfg0 s_x
    /\ count (is_cbresp c1 1) (log s_x) = 1 /\ count (is_done c1 1) (log s_x) = 1
    /\ count (is_start c1 1) (log s_x) = 1
    /\ count (is_cbresp c2 1) (log s_x) = 1 /\ count (is_done c2 1) (log s_x) = 1
    /\ count (is_cbresp c2 2) (log s_x) = 0 /\ count (is_done c2 2) (log s_x) = 0.
  Proof. split; [exact reach_x|]. comp. Qed.

  (* before the expiry no callback yet, although two responses are in *)
  Example C12_callback_once_ex_before :
    Reach cfg0 s_e /\ count (is_cbresp c1 1) (log s_e) = 0 /\ count (is_done c1 1) (log s_e) = 0
    /\ exists rc, get c1 (ctxs s_e) = Some rc /\ c_mod rc <> 0 /\ c_bdone rc = false.
  Proof. split; [exact reach_e|]. split; [reflexivity|]. split; [reflexivity|].
         eexists. split; [vm_compute; reflexivity|]. comp. Qed.

  (* C12_callback_expire_one: hypotheses and the events it predicts, for c1 at height 6 *)
  Example C12_callback_expire_one_ex :
    exists rc, get c1 (ctxs s_e) = Some rc /\ fin_b rc = true /\ c_bdone rc = false
      /\ batch_outputs s_e c1 (c_counter rc) = [1; 2] /\ c_bthr rc = 2
      /\ blog (expire_one cfg0 s_e c1)
         = [EvCtxRemoved c1; EvBatchDone c1 1; EvCbResp c1 1 [1; 2] false] ++ blog s_e.
  Proof. eexists. split; [vm_compute; reflexivity|]. comp. Qed.

  (* C12_callback_respond: the response that completes the batch of c2 (both requests answered) *)
  Example C12_callback_respond_ex :
    exists s', handle cfg0 Ex12.s_f1 Ex12.o_f2 = Ok s'
      /\ blog s' = [EvBatchDone c2 1; EvCbResp c2 1 [1; 4] false] ++ blog Ex12.s_f1.
  Proof. eexists. split; vm_compute; reflexivity. Qed.

  (* a non-module context gets no callback: c3 of the D5 history *)
  Example C12_no_callback_nonmodule_ex :
    Reach cfg0 s_d5 /\ (exists rc, get c3 (ctxs s_d5) = Some rc /\ c_mod rc = 0)
    /\ count (is_done c3 1) (log s_d5) = 1 /\ count (is_cbresp c3 1) (log s_d5) = 0.
  Proof. split; [exact reach_d5|]. split; [eexists; split; [vm_compute; reflexivity|reflexivity]|]. comp. Qed.

  (* C12_state_callback: at height 21 the consumer of the module context c2 cannot pay *)
  Example C12_state_callback_ex :
    Reach cfg0 s_n3 /\ In (height s_n3, c2) (newq s_n3)
    /\ ncbstate c2 s_n3 = 0 /\ ncbstate c2 (new_one cfg0 s_n3 c2) = 1
    /\ exists rc rc', get c2 (ctxs s_n3) = Some rc /\ c_state rc = Running /\ c_mod rc <> 0
         /\ get c2 (ctxs (new_one cfg0 s_n3 c2)) = Some rc' /\ c_state rc' = Paused.
  Proof.
    split; [exact reach_n3|]. split; [vm_compute; auto|]. split; [reflexivity|]. split; [reflexivity|].
    eexists; eexists. split; [vm_compute; reflexivity|]. split; [reflexivity|]. split; [discriminate|].
    split; [vm_compute; reflexivity|reflexivity].
  Qed.

  Example blog_p3 :
    blog s_p3 =
    [EvCbState c2; EvBatchDone c2 2; EvCbResp c2 2 [] true; EvBatchStart c2 2 11 2;
     EvBatchDone c2 1; EvCbResp c2 1 [] true;
     EvCtxRemoved c1; EvBatchDone c1 1; EvCbResp c1 1 [1; 2] false;
     EvBatchStart c2 1 1 2; EvBatchStart c1 1 1 3; EvCtxCreated c2; EvCtxCreated c1].
  Proof. vm_compute. reflexivity. Qed.
End ExT.
