(* Property C19: theorems about Model/Genesis.v.

   Hypotheses are small named predicates over states / genesis values, stated
   here; they are meant to be discharged from the global invariant:
     escrow_backed s    the escrow balance is the pending fees plus the earnings (C01)
     active_has_ctx s   every pending request belongs to a stored context (C11 / C16)
     fees_nonneg s      pending fees and earnings are not negative
     params_ok cfg, bindings_ok s, contexts_ok s    record-wise validity (C15, C09)
     genesis_wf g       the four exported families have duplicate-free keys (map wf)
     single_owner g     a provider has the same owner in all its bindings (C15)        *)
From Coq Require Import List ZArith Bool Lia Permutation.
From SVC Require Import Base.AMap Base.Res Base.Dec Model.Types Model.Pricing Model.Handlers
  Model.EndBlock Model.Step Model.Genesis.
Import ListNotations.
Open Scope Z_scope.

(* ------------------------------------------------------------------ *)
(* sums over lists *)

Definition lsum {A} (f : A -> Z) (l : list A) : Z := fold_right (fun x a => f x + a) 0 l.

Lemma lsum_cons {A} (f : A -> Z) x l : lsum f (x :: l) = f x + lsum f l.
Proof. reflexivity. Qed.

Lemma lsum_app {A} (f : A -> Z) l1 l2 : lsum f (l1 ++ l2) = lsum f l1 + lsum f l2.
Proof.
  induction l1 as [|x t IH]; [reflexivity|].
  cbn [app]. rewrite !lsum_cons, IH. lia.
Qed.

Lemma lsum_ext {A} (f g : A -> Z) l : (forall x, In x l -> f x = g x) -> lsum f l = lsum g l.
Proof.
  induction l as [|x t IH]; intros Hfg; [reflexivity|].
  rewrite !lsum_cons, IH, (Hfg x); [reflexivity|now left|]. intros; apply Hfg; now right.
Qed.

Lemma lsum_perm {A} (f : A -> Z) l l' : Permutation l l' -> lsum f l = lsum f l'.
Proof. induction 1; rewrite ?lsum_cons in *; lia. Qed.

Lemma lsum_filter {A} (f : A -> Z) p l : lsum f (filter p l) = lsum (fun x => if p x then f x else 0) l.
Proof.
  induction l as [|x t IH]; [reflexivity|]. cbn [filter]. rewrite lsum_cons.
  destruct (p x); rewrite ?lsum_cons, IH; lia.
Qed.

Lemma lsum_flat_map {A B} (f : B -> Z) (g : A -> list B) l :
  lsum f (flat_map g l) = lsum (fun x => lsum f (g x)) l.
Proof.
  induction l as [|x t IH]; [reflexivity|]. cbn [flat_map]. rewrite lsum_app, lsum_cons, IH. reflexivity.
Qed.

Lemma msum_lsum {K V} (f : K -> V -> Z) (m : list (K * V)) :
  msum f m = lsum (fun kv => f (fst kv) (snd kv)) m.
Proof. induction m as [|[k v] t IH]; [reflexivity|]. cbn [msum]. rewrite lsum_cons, IH. reflexivity. Qed.

Lemma insert_perm {A} (leb : A -> A -> bool) a l : Permutation (insert leb a l) (a :: l).
Proof.
  induction l as [|b t IH]; cbn [insert]; [reflexivity|].
  destruct (leb a b); [reflexivity|].
  rewrite IH. apply perm_swap.
Qed.

Lemma isort_perm {A} (leb : A -> A -> bool) l : Permutation (isort leb l) l.
Proof.
  induction l as [|a t IH]; cbn [isort]; [reflexivity|].
  rewrite insert_perm. now constructor.
Qed.

(* ------------------------------------------------------------------ *)
(* the bank *)

Lemma get0_set {K} `{EqDec K} (k k' : K) v (m : amap K Z) :
  get0 k' (set k v m) = if eqb k' k then v else get0 k' m.
Proof. unfold get0. rewrite get_set. now destruct (eqb k' k). Qed.

Lemma transfer_frame from to amt s s' :
  transfer from to amt s = Some s' -> exists b, s' = set_bank s b.
Proof.
  unfold transfer. destruct (_ || _); [discriminate|]. intros E; injection E as <-. eauto.
Qed.

Lemma transfer_bal from to amt s s' :
  transfer from to amt s = Some s' ->
  forall x, bal s' x = bal s x - (if eqb x from then amt else 0) + (if eqb x to then amt else 0).
Proof.
  unfold transfer. destruct (_ || _); [discriminate|]. intros E; injection E as <-. intros x.
  unfold bal. cbn [bank set_bank]. rewrite !get0_set.
  destruct (eqb_spec x to) as [E1|E1], (eqb_spec x from) as [E2|E2],
    (eqb_spec to from) as [E3|E3]; subst; try congruence; lia.
Qed.

Lemma transfer_ok from to amt s :
  0 <= amt -> amt <= bal s from -> exists s', transfer from to amt s = Some s'.
Proof.
  intros H0 H1. unfold transfer.
  destruct (amt <? 0) eqn:E1; [apply Z.ltb_lt in E1; lia|].
  destruct (bal s from <? amt) eqn:E2; [apply Z.ltb_lt in E2; lia|].
  cbn [orb]. eauto.
Qed.

Definition owed_to (a : Z) (l : list (Z * Z)) : Z := lsum (fun x => if a =? fst x then snd x else 0) l.
Definition total (l : list (Z * Z)) : Z := lsum snd l.

Lemma set_bank_twice s b b' : set_bank (set_bank s b) b' = set_bank s b'.
Proof. reflexivity. Qed.

Lemma pay_all_frame l : forall s s', pay_all l s = Some s' -> exists b, s' = set_bank s b.
Proof.
  induction l as [|[a amt] t IH]; cbn [pay_all]; intros s s' E.
  - injection E as <-. exists (bank s). now destruct s.
  - destruct (transfer Escrow (User a) amt s) as [s1|] eqn:Et; [|discriminate].
    apply transfer_frame in Et as [b ->]. apply IH in E as [b' ->].
    exists b'. apply set_bank_twice.
Qed.

Lemma pay_all_bal l : forall s s', pay_all l s = Some s' ->
  (forall a, bal s' (User a) = bal s (User a) + owed_to a l)
  /\ bal s' Escrow = bal s Escrow - total l
  /\ bal s' Deposit = bal s Deposit
  /\ bal s' FeeColl = bal s FeeColl.
Proof.
  induction l as [|[r amt] t IH]; cbn [pay_all]; intros s s' E.
  - injection E as <-. unfold owed_to, total. cbn [lsum fold_right]. repeat split; intros; lia.
  - destruct (transfer Escrow (User r) amt s) as [s1|] eqn:Et; [|discriminate].
    pose proof (transfer_bal _ _ _ _ _ Et) as Hb.
    destruct (IH _ _ E) as (Hu & He & Hd & Hf).
    unfold owed_to, total in *. repeat split.
    + intros a. rewrite Hu, Hb, lsum_cons. cbn [fst snd eqb EqDec_Acct acct_eqb]. lia.
    + rewrite He, Hb, lsum_cons. cbn [fst snd eqb EqDec_Acct acct_eqb]. lia.
    + rewrite Hd, Hb. cbn [eqb EqDec_Acct acct_eqb]. lia.
    + rewrite Hf, Hb. cbn [eqb EqDec_Acct acct_eqb]. lia.
Qed.

Lemma pay_all_ok l : forall s,
  (forall x, In x l -> 0 <= snd x) -> total l <= bal s Escrow -> exists s', pay_all l s = Some s'.
Proof.
  induction l as [|[r amt] t IH]; cbn [pay_all]; intros s Hnn Htot; [eauto|].
  unfold total in Htot. rewrite lsum_cons in Htot. cbn [snd] in Htot.
  assert (H0 : 0 <= amt) by (apply (Hnn (r, amt)); now left).
  assert (Ht : 0 <= lsum snd t).
  { clear -Hnn. induction t as [|y u IHu]; [cbn; lia|]. rewrite lsum_cons.
    assert (0 <= snd y) by (apply Hnn; right; now left).
    assert (0 <= lsum snd u) by (apply IHu; intros x [E|Hin]; apply Hnn; [now left|right; now right]). lia. }
  destruct (transfer_ok Escrow (User r) amt s H0) as [s1 Et]; [lia|].
  rewrite Et. apply IH.
  - intros; apply Hnn; now right.
  - rewrite (transfer_bal _ _ _ _ _ Et). cbn [eqb EqDec_Acct acct_eqb]. unfold total. lia.
Qed.

(* ------------------------------------------------------------------ *)
(* what is owed: specification-level sums over the state *)

(* fee of a pending request whose context names consumer a *)
Definition pending_fee_to (s : State) (a : Z) (r : ReqId) (q : Req) : Z :=
  if r_active q then
    match get (rid_ctx r) (ctxs s) with
    | Some rc => if a =? c_cons rc then r_fee q else 0
    | None => 0
    end
  else 0.

Definition pending_of (s : State) (a : Z) : Z := msum (pending_fee_to s a) (reqs s).
Definition earned_of (s : State) (a : Z) : Z := msum (fun p e => if a =? p then e else 0) (earned s).
Definition active_total (s : State) : Z := msum (fun _ q => if r_active q then r_fee q else 0) (reqs s).
Definition earned_total (s : State) : Z := msum (fun _ e => e) (earned s).

(* ---- the named hypotheses ---- *)
Definition escrow_backed (s : State) : Prop := bal s Escrow = active_total s + earned_total s.

Definition active_has_ctx (s : State) : Prop :=
  forall r q, In (r, q) (reqs s) -> r_active q = true -> exists rc, get (rid_ctx r) (ctxs s) = Some rc.

Definition fees_nonneg (s : State) : Prop :=
  (forall r q, In (r, q) (reqs s) -> r_active q = true -> 0 <= r_fee q)
  /\ (forall p e, In (p, e) (earned s) -> 0 <= e).

Lemma earned_of_get0 s a : wf (earned s) -> earned_of s a = get0 a (earned s).
Proof.
  unfold earned_of, get0, wf, keys. induction (earned s) as [|[p e] t IH]; cbn [msum get map fst]; [reflexivity|].
  intros Hnd. inversion Hnd as [|? ? Hni Hnd']; subst.
  change (eqb a p) with (a =? p). destruct (Z.eqb_spec a p) as [->|Hn].
  - assert (E : msum (fun p0 e0 : Z => if p =? p0 then e0 else 0) t = 0).
    { apply msum_zero. intros k v Hin. destruct (Z.eqb_spec p k) as [->|]; [|reflexivity].
      exfalso. apply Hni. now apply (in_map fst) in Hin. }
    rewrite E. lia.
  - rewrite IH by assumption. lia.
Qed.

Lemma owed_refund_list s a : owed_to a (refund_list s) = pending_of s a.
Proof.
  unfold owed_to, refund_list, active_reqs, pending_of.
  rewrite lsum_flat_map, (lsum_perm _ _ _ (isort_perm _ _)), lsum_filter, msum_lsum.
  apply lsum_ext. intros [r q] _. cbn [fst snd]. unfold pending_fee_to, refund_item. cbn [fst snd].
  destruct (r_active q); [|reflexivity].
  destruct (get (rid_ctx r) (ctxs s)); cbn [lsum fold_right fst snd]; [|reflexivity]. lia.
Qed.

Lemma owed_earned_list s a : owed_to a (earned_list s) = earned_of s a.
Proof. unfold owed_to, earned_list, earned_of. rewrite msum_lsum. reflexivity. Qed.

Lemma total_refund_list s : active_has_ctx s -> total (refund_list s) = active_total s.
Proof.
  intros Hc. unfold total, refund_list, active_reqs, active_total.
  rewrite lsum_flat_map, (lsum_perm _ _ _ (isort_perm _ _)), lsum_filter, msum_lsum.
  apply lsum_ext. intros [r q] Hin. cbn [fst snd]. unfold refund_item. cbn [fst snd].
  destruct (r_active q) eqn:Ea; [|reflexivity].
  destruct (Hc r q Hin Ea) as [rc ->]. cbn [lsum fold_right snd]. lia.
Qed.

Lemma total_earned_list s : total (earned_list s) = earned_total s.
Proof. unfold total, earned_list, earned_total. rewrite msum_lsum. reflexivity. Qed.

Lemma owed_to_app a l1 l2 : owed_to a (l1 ++ l2) = owed_to a l1 + owed_to a l2.
Proof. apply lsum_app. Qed.

Lemma total_app l1 l2 : total (l1 ++ l2) = total l1 + total l2.
Proof. apply lsum_app. Qed.

(* ------------------------------------------------------------------ *)
(* the preparation *)

Lemma prep_inv s s' : prep_zero_height s = Some s' ->
  exists s1, pay_all (refund_list s ++ earned_list s) s = Some s1 /\ s' = reset_contexts s1.
Proof.
  unfold prep_zero_height. destruct (pay_all _ s) as [s1|]; [|discriminate].
  intros E; injection E as <-. eauto.
Qed.

Lemma bal_reset_contexts s x : bal (reset_contexts s) x = bal s x.
Proof. reflexivity. Qed.

(* every pending fee to its consumer, every earning to its provider, nobody else *)
Theorem C19_prep_refunds s s' : prep_zero_height s = Some s' ->
  (forall a, bal s' (User a) = bal s (User a) + pending_of s a + earned_of s a)
  /\ bal s' Deposit = bal s Deposit
  /\ bal s' FeeColl = bal s FeeColl
  /\ supply s' = supply s.
Proof.
  intros E. apply prep_inv in E as (s1 & Ep & ->).
  destruct (pay_all_bal _ _ _ Ep) as (Hu & _ & Hd & Hf).
  repeat split; rewrite ?bal_reset_contexts.
  - intros a. rewrite bal_reset_contexts, Hu, owed_to_app, owed_refund_list, owed_earned_list. lia.
  - exact Hd.
  - exact Hf.
  - apply pay_all_frame in Ep as [b ->]. reflexivity.
Qed.

Corollary C19_prep_untouched s s' a : prep_zero_height s = Some s' ->
  pending_of s a = 0 -> earned_of s a = 0 -> bal s' (User a) = bal s (User a).
Proof. intros E H1 H2. destruct (C19_prep_refunds _ _ E) as (Hu & _). rewrite Hu. lia. Qed.

Theorem C19_prep_escrow_empty s s' :
  escrow_backed s -> active_has_ctx s -> prep_zero_height s = Some s' -> bal s' Escrow = 0.
Proof.
  intros Hb Hc E. apply prep_inv in E as (s1 & Ep & ->).
  destruct (pay_all_bal _ _ _ Ep) as (_ & He & _).
  rewrite bal_reset_contexts, He, total_app, total_refund_list, total_earned_list by assumption.
  unfold escrow_backed in Hb. lia.
Qed.

(* the preparation does not panic *)
Theorem C19_prep_succeeds s :
  escrow_backed s -> active_has_ctx s -> fees_nonneg s -> exists s', prep_zero_height s = Some s'.
Proof.
  intros Hb Hc [Hq He]. unfold prep_zero_height.
  destruct (pay_all_ok (refund_list s ++ earned_list s) s) as [s1 ->]; [| |eauto].
  - intros x Hin. apply in_app_or in Hin as [Hin|Hin].
    + unfold refund_list in Hin. apply in_flat_map in Hin as ([r q] & Hin & Hx).
      unfold active_reqs in Hin. apply (Permutation_in _ (isort_perm _ _)) in Hin.
      apply filter_In in Hin as [Hin Ha]. cbn [snd] in Ha.
      unfold refund_item in Hx. cbn [fst snd] in Hx.
      destruct (get (rid_ctx r) (ctxs s)); [|contradiction].
      destruct Hx as [<-|[]]. cbn [snd]. eauto.
    + destruct x as [p e]. cbn [snd]. eapply He. exact Hin.
  - rewrite total_app, total_refund_list, total_earned_list by assumption.
    unfold escrow_backed in Hb. lia.
Qed.

(* only the bank and the contexts change *)
Lemma prep_frame s s' : prep_zero_height s = Some s' ->
  defs s' = defs s /\ binds s' = binds s /\ pricing s' = pricing s /\ owner_of s' = owner_of s
  /\ own_prov s' = own_prov s /\ own_bind s' = own_bind s /\ wdaddr s' = wdaddr s
  /\ reqs s' = reqs s /\ earned s' = earned s /\ height s' = height s /\ time s' = time s.
Proof.
  intros E. apply prep_inv in E as (s1 & Ep & ->). apply pay_all_frame in Ep as [b ->].
  repeat split.
Qed.

(* every context paused, no batch in flight, counts 0, nothing else touched *)
Theorem C19_prep_contexts s s' : prep_zero_height s = Some s' ->
  ctxs s' = map (fun kv => (fst kv, reset_ctx (snd kv))) (ctxs s)
  /\ (forall c, get c (ctxs s') = option_map reset_ctx (get c (ctxs s)))
  /\ (forall c rc', In (c, rc') (ctxs s') ->
        c_state rc' = Paused /\ c_bdone rc' = true /\ c_breq rc' = 0 /\ c_bresp rc' = 0).
Proof.
  intros E. apply prep_inv in E as (s1 & Ep & ->). apply pay_all_frame in Ep as [b ->].
  cbn [reset_contexts ctxs set_ctxs set_bank].
  split; [reflexivity|]. split.
  - intros c. induction (ctxs s) as [|[k v] t IH]; cbn [map get fst snd option_map]; [reflexivity|].
    destruct (eqb c k); [reflexivity|exact IH].
  - intros c rc' Hin. apply in_map_iff in Hin as ([k v] & Hx & _). cbn [fst snd] in Hx.
    injection Hx as _ <-. repeat split.
Qed.

Lemma reset_ctx_spec rc :
  reset_ctx rc = mkCtx (c_svc rc) (c_provs rc) (c_cons rc) (c_input rc) (c_cap rc) (c_timeout rc)
    (c_super rc) (c_rep rc) (c_freq rc) (c_total rc) (c_counter rc) 0 0 (c_bthr rc) true Paused
    (c_thr rc) (c_mod rc).
Proof. reflexivity. Qed.

(* ------------------------------------------------------------------ *)
(* validity of the exported genesis *)

Definition params_ok (cfg : Params) : Prop := params_valid cfg = true.
Definition bindings_ok (s : State) : Prop := forall kb, In kb (binds s) -> binding_valid kb = true.
Definition contexts_ok (s : State) : Prop := forall c rc, In (c, rc) (ctxs s) -> ctx_struct_valid rc = true.

Theorem C19_export_valid cfg s s' :
  params_ok cfg -> bindings_ok s -> contexts_ok s ->
  prep_zero_height s = Some s' -> validate_genesis (export_genesis cfg s') = true.
Proof.
  intros Hp Hb Hc E.
  destruct (C19_prep_contexts _ _ E) as (Hctx & _ & _).
  destruct (prep_frame _ _ E) as (_ & Hbinds & _).
  unfold validate_genesis, export_genesis. cbn [g_params g_binds g_ctxs].
  rewrite Hp, Hbinds, Hctx. cbn [andb].
  apply andb_true_intro. split.
  - apply forallb_forall. exact Hb.
  - apply forallb_forall. intros [c rc'] Hin. cbn [snd].
    apply in_map_iff in Hin as ([k v] & Hx & Hin). cbn [fst snd] in Hx. injection Hx as -> <-.
    apply andb_true_intro. split; [|reflexivity].
    rewrite <- (Hc _ _ Hin). reflexivity.
Qed.

(* ------------------------------------------------------------------ *)
(* export after import *)

Definition genesis_wf (g : Genesis) : Prop :=
  NoDup (map fst (g_defs g)) /\ NoDup (map fst (g_binds g))
  /\ NoDup (map fst (g_wd g)) /\ NoDup (map fst (g_ctxs g)).

Definition single_owner (g : Genesis) : Prop :=
  forall k1 b1 k2 b2, In (k1, b1) (g_binds g) -> In (k2, b2) (g_binds g) ->
    snd k1 = snd k2 -> b_owner b1 = b_owner b2.

Section Folds.
  Context {K V X : Type} `{EqDec K}.

  Lemma set_notin (k : K) (v : V) m : ~ In k (keys m) -> set k v m = m ++ [(k, v)].
  Proof.
    unfold keys. induction m as [|[k0 v0] t IH]; cbn [set map fst In app]; [reflexivity|].
    intros Hni. destruct (eqb_spec k k0) as [->|Hn]; [tauto|]. rewrite IH; tauto.
  Qed.

  (* writing records with distinct keys one after the other stores exactly them, in order *)
  Lemma fold_set_distinct (kf : X -> K) (vf : X -> V) (l : list X) : forall m,
    NoDup (keys m ++ map kf l) ->
    fold_left (fun m x => set (kf x) (vf x) m) l m = m ++ map (fun x => (kf x, vf x)) l.
  Proof.
    induction l as [|x t IH]; intros m Hnd; cbn [fold_left map]; [now rewrite app_nil_r|].
    cbn [map] in Hnd.
    assert (Hni : ~ In (kf x) (keys m)).
    { apply NoDup_remove_2 in Hnd. intros Hin. apply Hnd. apply in_or_app. now left. }
    rewrite set_notin by assumption. rewrite IH.
    - now rewrite <- app_assoc.
    - unfold keys. rewrite map_app. cbn [map fst]. rewrite <- app_assoc. exact Hnd.
  Qed.

  Lemma fold_set_distinct_nil (kf : X -> K) (vf : X -> V) (l : list X) :
    NoDup (map kf l) ->
    fold_left (fun m x => set (kf x) (vf x) m) l [] = map (fun x => (kf x, vf x)) l.
  Proof. intros Hnd. now rewrite fold_set_distinct. Qed.

  (* a key written by nobody keeps its value *)
  Lemma fold_set_other (kf : X -> K) (vf : X -> V) (l : list X) k : forall m,
    (forall x, In x l -> kf x <> k) ->
    get k (fold_left (fun m x => set (kf x) (vf x) m) l m) = get k m.
  Proof.
    induction l as [|x t IH]; intros m Hno; cbn [fold_left]; [reflexivity|].
    rewrite IH by (intros; apply Hno; now right).
    apply get_set_neq. intros ->. apply (Hno x); [now left|reflexivity].
  Qed.

  (* a stored value was there before or was written by some record *)
  Lemma fold_set_sound (kf : X -> K) (vf : X -> V) (l : list X) k v : forall m,
    get k (fold_left (fun m x => set (kf x) (vf x) m) l m) = Some v ->
    get k m = Some v \/ exists x, In x l /\ kf x = k /\ vf x = v.
  Proof.
    induction l as [|x t IH]; intros m E; cbn [fold_left] in E; [now left|].
    apply IH in E as [E|(y & Hin & Hk & Hv)].
    - rewrite get_set in E. destruct (eqb_spec k (kf x)) as [->|Hn].
      + injection E as <-. right. exists x. split; [now left|split; reflexivity].
      + now left.
    - right. exists y. split; [now right|split; assumption].
  Qed.

  (* if all records writing k agree on v and there is one, k holds v *)
  Lemma fold_set_complete (kf : X -> K) (vf : X -> V) (l : list X) k v : forall m,
    (exists x, In x l /\ kf x = k) ->
    (forall x, In x l -> kf x = k -> vf x = v) ->
    get k (fold_left (fun m x => set (kf x) (vf x) m) l m) = Some v.
  Proof.
    induction l as [|x t IH]; intros m [y [Hin Hk]] Hall; [destruct Hin|]. cbn [fold_left].
    destruct (existsb (fun z => eqb (kf z) k) t) eqn:Ex.
    - apply existsb_exists in Ex as (z & Hz & Ez). apply eqb_true in Ez.
      apply IH; [eauto|]. intros; apply Hall; [now right|assumption].
    - assert (Hno : forall z, In z t -> kf z <> k).
      { intros z Hz Ez. assert (existsb (fun z => eqb (kf z) k) t = true); [|congruence].
        apply existsb_exists. exists z. split; [assumption|]. rewrite Ez. apply eqb_refl. }
      rewrite fold_set_other by assumption.
      destruct Hin as [->|Hin]; [|exfalso; now apply (Hno y)].
      rewrite <- Hk. rewrite get_set_eq. f_equal. apply Hall; [now left|assumption].
  Qed.
End Folds.

Section LFolds.
  Context {A X : Type} `{EqDec A}.

  Lemma fold_ladd_In (f : X -> A) (l : list X) a : forall l0,
    In a (fold_left (fun acc x => ladd (f x) acc) l l0) <-> In a l0 \/ exists x, In x l /\ f x = a.
  Proof.
    induction l as [|x t IH]; intros l0; cbn [fold_left].
    - split; [now left|]. intros [?|(x & [] & _)]; assumption.
    - rewrite IH, In_ladd. split.
      + intros [[->|Hin]|(y & Hin & Hy)].
        * right. exists x. split; [now left|reflexivity].
        * now left.
        * right. exists y. split; [now right|assumption].
      + intros [Hin|(y & [->|Hin] & Hy)].
        * left. now right.
        * left. left. now symmetry.
        * right. eauto.
  Qed.

  Lemma fold_ladd_NoDup (f : X -> A) (l : list X) : forall l0,
    NoDup l0 -> NoDup (fold_left (fun acc x => ladd (f x) acc) l l0).
  Proof.
    induction l as [|x t IH]; intros l0 Hnd; cbn [fold_left]; [assumption|].
    apply IH. now apply NoDup_ladd.
  Qed.
End LFolds.

Lemma map_pair_id {A B} (l : list (A * B)) : map (fun x => (fst x, snd x)) l = l.
Proof. induction l as [|[a b] t IH]; cbn [map fst snd]; [reflexivity|now rewrite IH]. Qed.

Lemma import_families h t g : genesis_wf g ->
  defs (import_genesis h t g) = g_defs g
  /\ binds (import_genesis h t g) = g_binds g
  /\ wdaddr (import_genesis h t g) = g_wd g
  /\ ctxs (import_genesis h t g) = g_ctxs g
  /\ pricing (import_genesis h t g)
     = map (fun kb => (fst kb, parse_pricing (b_raw (snd kb)))) (g_binds g).
Proof.
  intros (Hd & Hb & Hw & Hc). unfold import_genesis.
  cbn [defs binds wdaddr ctxs pricing].
  rewrite !fold_set_distinct_nil by assumption.
  rewrite !map_pair_id. repeat split.
Qed.

(* exporting what was imported gives the genesis back *)
Theorem C19_import_export h t g : genesis_wf g ->
  export_genesis (g_params g) (import_genesis h t g) = g.
Proof.
  intros Hwf. destruct (import_families h t g Hwf) as (Hd & Hb & Hw & Hc & _).
  unfold export_genesis. rewrite Hd, Hb, Hw, Hc. now destruct g.
Qed.

Definition state_wf_exported (s : State) : Prop :=
  wf (defs s) /\ wf (binds s) /\ wf (wdaddr s) /\ wf (ctxs s).

Lemma export_wf cfg s : state_wf_exported s -> genesis_wf (export_genesis cfg s).
Proof. intros H. exact H. Qed.

(* the property's round trip: export, import into a fresh chain, export again *)
Theorem C19_roundtrip cfg h t s : state_wf_exported s ->
  export_genesis cfg (import_genesis h t (export_genesis cfg s)) = export_genesis cfg s.
Proof.
  intros Hwf. apply (C19_import_export h t (export_genesis cfg s)). now apply export_wf.
Qed.

Lemma prep_wf s s' : state_wf_exported s -> prep_zero_height s = Some s' -> state_wf_exported s'.
Proof.
  intros (W1 & W2 & W3 & W4) E.
  destruct (C19_prep_contexts _ _ E) as (Hctx & _).
  destruct (prep_frame _ _ E) as (Hd & Hbi & _ & _ & _ & _ & Hw & _).
  unfold state_wf_exported. rewrite Hd, Hbi, Hw. repeat split; try assumption.
  unfold wf, keys in *. rewrite Hctx, map_map. cbn [fst]. exact W4.
Qed.

(* InitGenesis accepts the zero-height export and the re-export is identical *)
Corollary C19_zero_height_roundtrip cfg h t s s' :
  params_ok cfg -> bindings_ok s -> contexts_ok s -> state_wf_exported s ->
  prep_zero_height s = Some s' ->
  exists si, init_genesis h t (export_genesis cfg s') = Ok si
             /\ export_genesis cfg si = export_genesis cfg s'.
Proof.
  intros Hp Hb Hc Hwf E. unfold init_genesis.
  rewrite (C19_export_valid cfg s s' Hp Hb Hc E).
  eexists. split; [reflexivity|]. apply C19_roundtrip. exact (prep_wf _ _ Hwf E).
Qed.

(* ------------------------------------------------------------------ *)
(* the imported indexes are exactly those determined by the bindings *)

Definition index_consistent (s : State) : Prop :=
  (forall o svc p, In (o, svc, p) (own_bind s)
      <-> exists b, get (svc, p) (binds s) = Some b /\ b_owner b = o)
  /\ (forall p o, get p (owner_of s) = Some o
      <-> exists svc b, get (svc, p) (binds s) = Some b /\ b_owner b = o)
  /\ (forall o p, In (o, p) (own_prov s) <-> get p (owner_of s) = Some o)
  /\ (forall k, get k (pricing s) = option_map (fun b => parse_pricing (b_raw b)) (get k (binds s)))
  /\ NoDup (own_bind s) /\ NoDup (own_prov s).

Lemma get_map_val {K V W} `{EqDec K} (F : V -> W) (m : list (K * V)) k :
  get k (map (fun kv => (fst kv, F (snd kv))) m) = option_map F (get k m).
Proof.
  induction m as [|[k0 v0] t IH]; cbn [map get fst snd option_map]; [reflexivity|].
  destruct (eqb k k0); [reflexivity|exact IH].
Qed.

Theorem C19_import_indexes h t g : genesis_wf g -> single_owner g ->
  index_consistent (import_genesis h t g).
Proof.
  intros Hwf Hso.
  destruct (import_families h t g Hwf) as (_ & Hb & _ & _ & Hpr).
  destruct Hwf as (_ & Hnd & _ & _).
  assert (Hget : forall k b, get k (g_binds g) = Some b <-> In (k, b) (g_binds g)).
  { intros k b. split; [apply get_In|apply In_get; exact Hnd]. }
  set (si := import_genesis h t g) in *.
  assert (Hown : forall p o, get p (owner_of si) = Some o
      <-> exists svc b, In ((svc, p), b) (g_binds g) /\ b_owner b = o).
  { intros p o. unfold si, import_genesis. cbn [owner_of]. split.
    - intros E. apply fold_set_sound in E as [E|([[svc p'] b] & Hin & Hk & Hv)]; [discriminate|].
      cbn [fst snd] in Hk, Hv. subst p' o. eauto.
    - intros (svc & b & Hin & <-).
      apply fold_set_complete.
      + exists ((svc, p), b). split; [assumption|reflexivity].
      + intros [[svc' p'] b'] Hin' Hk. cbn [fst snd] in *. subst p'.
        apply (Hso _ _ _ _ Hin' Hin). reflexivity. }
  unfold index_consistent. rewrite Hb. repeat split.
  - intros Hin. unfold si, import_genesis in Hin. cbn [own_bind] in Hin.
    apply fold_ladd_In in Hin as [[]|([[svc' p'] b] & Hin & Hx)].
    cbn [fst snd] in Hx. injection Hx as <- <- <-. exists b. split; [now apply Hget|reflexivity].
  - intros (b & E & <-). unfold si, import_genesis. cbn [own_bind].
    apply fold_ladd_In. right. exists ((svc, p), b). split; [now apply Hget|reflexivity].
  - intros E. apply Hown in E as (svc & b & Hin & Ho). exists svc, b. split; [now apply Hget|assumption].
  - intros (svc & b & E & Ho). apply Hown. exists svc, b. split; [now apply Hget|assumption].
  - intros Hin. unfold si, import_genesis in Hin. cbn [own_prov] in Hin.
    apply fold_ladd_In in Hin as [[]|([[svc p'] b] & Hin & Hx)].
    cbn [fst snd] in Hx. injection Hx as <- <-. apply Hown. eauto.
  - intros E. apply Hown in E as (svc & b & Hin & <-). unfold si, import_genesis. cbn [own_prov].
    apply fold_ladd_In. right. exists ((svc, p), b). split; [assumption|reflexivity].
  - intros k. rewrite Hpr. apply (get_map_val (fun b => parse_pricing (b_raw b))).
  - unfold si, import_genesis. cbn [own_bind]. apply fold_ladd_NoDup. constructor.
  - unfold si, import_genesis. cbn [own_prov]. apply fold_ladd_NoDup. constructor.
Qed.

(* ------------------------------------------------------------------ *)
(* Instances by computation: a state reached by the model on a W7-like history
   (two bindings of one owner, a withdrawal address, a repeated and a one-shot
   context, one request answered - earnings 9 after 10 % tax - one pending). *)

Definition ex_cfg : Params := mkParams 3 1 50 100000000000000000 1000000000000000 5000000000 5000000000 5 7001.
Definition ex_raw (price : Z) : RawPricing := mkRaw (price * PREC) [] [].
Definition ex_ops : list Op := [
  ODefine 1 1 true;
  OBind 1 121 (CBase 100) (Some (ex_raw 10)) 1 101 true;
  OBind 1 126 (CBase 100) (Some (ex_raw 7)) 1 101 true;
  OSetWd 101 131 true;
  OCall (77, 0) 1 [121; 126] 111 1 (CBase 1000) 2 false true 2 (-1) true true;
  OCall (78, 0) 1 [126] 112 2 (CBase 1000) 3 false false 0 0 true true;
  OEndBlock 5000000000;
  ORespond (77, 0, 1, 10, 0) 121 200 1 true true
].
Definition ex_state : State := run ex_cfg (init 10 0 [(101, 1000); (111, 500); (112, 500)]) ex_ops.
Definition ex_prep : State := match prep_zero_height ex_state with Some s => s | None => ex_state end.

Example ex_reached :
  bal ex_state Escrow = 23 /\ active_total ex_state = 14 /\ earned_total ex_state = 9
  /\ bal ex_state FeeColl = 1 /\ length (ctxs ex_state) = 2%nat.
Proof. vm_compute. repeat split. Qed.

Example ex_escrow_backed : escrow_backed ex_state.
Proof. vm_compute. reflexivity. Qed.

Example ex_prep_refunds :
  prep_zero_height ex_state <> None
  /\ bal ex_prep (User 111) = bal ex_state (User 111) + 7       (* pending request of provider 126 *)
  /\ bal ex_prep (User 112) = bal ex_state (User 112) + 7
  /\ bal ex_prep (User 121) = bal ex_state (User 121) + 9       (* earning of provider 121 *)
  /\ bal ex_prep (User 101) = bal ex_state (User 101)
  /\ pending_of ex_state 111 = 7 /\ earned_of ex_state 121 = 9.
Proof. vm_compute. repeat split; discriminate. Qed.

Example ex_prep_escrow_empty : bal ex_prep Escrow = 0.
Proof. vm_compute. reflexivity. Qed.

Example ex_prep_contexts :
  forallb (fun kc => ctx_settled (snd kc) && (c_breq (snd kc) =? 0) && (c_bresp (snd kc) =? 0)) (ctxs ex_prep) = true
  /\ forallb (fun kc => ctx_settled (snd kc)) (ctxs ex_state) = false.
Proof. vm_compute. split; reflexivity. Qed.

Example ex_export_valid :
  validate_genesis (export_genesis ex_cfg ex_prep) = true
  /\ validate_genesis (export_genesis ex_cfg ex_state) = false.
Proof. vm_compute. split; reflexivity. Qed.

Example ex_roundtrip :
  export_genesis ex_cfg (import_genesis 0 0 (export_genesis ex_cfg ex_prep)) = export_genesis ex_cfg ex_prep.
Proof. vm_compute. reflexivity. Qed.

Example ex_import_indexes :
  let si := import_genesis 0 0 (export_genesis ex_cfg ex_prep) in
  own_bind si = own_bind ex_state /\ own_prov si = own_prov ex_state
  /\ owner_of si = owner_of ex_state /\ pricing si = pricing ex_state
  /\ reqs si = [] /\ earned si = [].
Proof. vm_compute. repeat split. Qed.

(* ------------------------------------------------------------------ *)
(* Boolean checkers for the named hypotheses (sound; used for the instances below
   and available for checking corpus states by computation) *)

Fixpoint nodup_b {A} `{EqDec A} (l : list A) : bool :=
  match l with [] => true | a :: t => negb (mem a t) && nodup_b t end.

Lemma nodup_b_sound {A} `{EqDec A} (l : list A) : nodup_b l = true -> NoDup l.
Proof.
  induction l as [|a t IH]; cbn [nodup_b]; intros E; [constructor|].
  apply andb_prop in E as [E1 E2]. constructor; [|auto].
  apply negb_true_iff in E1. now apply mem_nIn.
Qed.

Definition active_has_ctx_b (s : State) : bool :=
  forallb (fun kv => negb (r_active (snd kv)) || has (rid_ctx (fst kv)) (ctxs s)) (reqs s).

Lemma active_has_ctx_b_sound s : active_has_ctx_b s = true -> active_has_ctx s.
Proof.
  unfold active_has_ctx_b, active_has_ctx. intros E r q Hin Ha.
  rewrite forallb_forall in E. specialize (E _ Hin). cbn [fst snd] in E. rewrite Ha in E.
  cbn [negb orb] in E. unfold has in E. destruct (get (rid_ctx r) (ctxs s)); [eauto|discriminate].
Qed.

Definition fees_nonneg_b (s : State) : bool :=
  forallb (fun kv => negb (r_active (snd kv)) || (0 <=? r_fee (snd kv))) (reqs s)
  && forallb (fun pe => 0 <=? snd pe) (earned s).

Lemma fees_nonneg_b_sound s : fees_nonneg_b s = true -> fees_nonneg s.
Proof.
  unfold fees_nonneg_b, fees_nonneg. intros E. apply andb_prop in E as [E1 E2].
  rewrite forallb_forall in E1, E2. split.
  - intros r q Hin Ha. specialize (E1 _ Hin). cbn [snd] in E1. rewrite Ha in E1.
    cbn [negb orb] in E1. now apply Z.leb_le.
  - intros p e Hin. specialize (E2 _ Hin). cbn [snd] in E2. now apply Z.leb_le.
Qed.

Definition records_ok_b (cfg : Params) (s : State) : bool :=
  params_valid cfg && forallb binding_valid (binds s)
  && forallb (fun kc => ctx_struct_valid (snd kc)) (ctxs s).

Lemma records_ok_b_sound cfg s : records_ok_b cfg s = true ->
  params_ok cfg /\ bindings_ok s /\ contexts_ok s.
Proof.
  unfold records_ok_b. intros E. apply andb_prop in E as [E E3]. apply andb_prop in E as [E1 E2].
  rewrite forallb_forall in E2, E3. repeat split; [assumption|exact E2|].
  intros c rc Hin. exact (E3 _ Hin).
Qed.

Definition state_wf_exported_b (s : State) : bool :=
  nodup_b (keys (defs s)) && nodup_b (keys (binds s)) && nodup_b (keys (wdaddr s)) && nodup_b (keys (ctxs s)).

Lemma state_wf_exported_b_sound s : state_wf_exported_b s = true -> state_wf_exported s.
Proof.
  unfold state_wf_exported_b. intros E.
  apply andb_prop in E as [E E4]. apply andb_prop in E as [E E3]. apply andb_prop in E as [E1 E2].
  repeat split; now apply nodup_b_sound.
Qed.

Definition single_owner_b (g : Genesis) : bool :=
  forallb (fun x => forallb (fun y =>
    negb (snd (fst x) =? snd (fst y)) || (b_owner (snd x) =? b_owner (snd y))) (g_binds g)) (g_binds g).

Lemma single_owner_b_sound g : single_owner_b g = true -> single_owner g.
Proof.
  unfold single_owner_b, single_owner. intros E k1 b1 k2 b2 H1 H2 Hk.
  rewrite forallb_forall in E. specialize (E _ H1). rewrite forallb_forall in E. specialize (E _ H2).
  cbn [fst snd] in E. rewrite Hk, Z.eqb_refl in E. cbn [negb orb] in E. now apply Z.eqb_eq.
Qed.

(* the named hypotheses hold of the example state, so the theorems apply to it *)
Example ex_active_has_ctx : active_has_ctx ex_state.
Proof. apply active_has_ctx_b_sound. vm_compute. reflexivity. Qed.

Example ex_fees_nonneg : fees_nonneg ex_state.
Proof. apply fees_nonneg_b_sound. vm_compute. reflexivity. Qed.

Example ex_records_ok : params_ok ex_cfg /\ bindings_ok ex_state /\ contexts_ok ex_state.
Proof. apply records_ok_b_sound. vm_compute. reflexivity. Qed.

Example ex_state_wf : state_wf_exported ex_state.
Proof. apply state_wf_exported_b_sound. vm_compute. reflexivity. Qed.

Example ex_single_owner : single_owner (export_genesis ex_cfg ex_prep).
Proof. apply single_owner_b_sound. vm_compute. reflexivity. Qed.

Example ex_prep_eq : prep_zero_height ex_state = Some ex_prep.
Proof. vm_compute. reflexivity. Qed.

Example ex_theorems_apply :
  (exists s', prep_zero_height ex_state = Some s')
  /\ bal ex_prep Escrow = 0
  /\ validate_genesis (export_genesis ex_cfg ex_prep) = true
  /\ index_consistent (import_genesis 0 0 (export_genesis ex_cfg ex_prep)).
Proof.
  destruct ex_records_ok as (Hp & Hb & Hc).
  split; [exact (C19_prep_succeeds _ ex_escrow_backed ex_active_has_ctx ex_fees_nonneg)|].
  split; [exact (C19_prep_escrow_empty _ _ ex_escrow_backed ex_active_has_ctx ex_prep_eq)|].
  split; [exact (C19_export_valid _ _ _ Hp Hb Hc ex_prep_eq)|].
  apply C19_import_indexes; [|exact ex_single_owner].
  apply export_wf. exact (prep_wf _ _ ex_state_wf ex_prep_eq).
Qed.
