(* Trace theorems about batches (C12 callbacks, support for C10 cadence).
   `blog s` is the sub-log of the batch-level events (start, done, response callback,
   state callback, context created / removed).  For every operation the new batch-level
   events are given EXACTLY (blog s' = new ++ blog s); the instrumented invariant TC
   relates the number of such events per (context, batch) to the context record. *)
From Coq Require Import List ZArith Bool Lia Permutation.
From SVC Require Import Base.AMap Base.Res Base.Dec Model.Types Model.Pricing
  Model.Handlers Model.EndBlock Model.Step Proofs.Inv Proofs.Lemmas Proofs.ReqLemmas
  Proofs.CtxOps Proofs.InvSched Proofs.InvCtx Proofs.InvEscrow Proofs.InvReq Proofs.InvAll
  Proofs.StepSpecs_ctx Proofs.TraceBase Proofs.C16Proofs Proofs.InvCount Proofs.C10Proofs.
Import ListNotations.
Open Scope Z_scope.

(* ------------------------------------------------------------------ *)
(* batch-level events *)

Definition tracked (e : Event) : bool :=
  match e with
  | EvBatchStart _ _ _ _ | EvBatchDone _ _ | EvCbResp _ _ _ _ | EvCbState _
  | EvCtxCreated _ | EvCtxRemoved _ => true
  | _ => false
  end.

Definition blog (s : State) : list Event := filter tracked (log s).

Definition ev_ctx (e : Event) : option CtxId :=
  match e with
  | EvBatchStart c _ _ _ | EvBatchDone c _ | EvCbResp c _ _ _ | EvCbState c
  | EvCtxCreated c | EvCtxRemoved c => Some c
  | _ => None
  end.

Definition is_start (c : CtxId) (n : Z) (e : Event) : bool :=
  match e with EvBatchStart c' n' _ _ => eqb c' c && (n' =? n) | _ => false end.
Definition is_done (c : CtxId) (n : Z) (e : Event) : bool :=
  match e with EvBatchDone c' n' => eqb c' c && (n' =? n) | _ => false end.
Definition is_cbresp (c : CtxId) (n : Z) (e : Event) : bool :=
  match e with EvCbResp c' n' _ _ => eqb c' c && (n' =? n) | _ => false end.
Definition is_cbstate (c : CtxId) (e : Event) : bool :=
  match e with EvCbState c' => eqb c' c | _ => false end.
Definition is_created (c : CtxId) (e : Event) : bool :=
  match e with EvCtxCreated c' => eqb c' c | _ => false end.

(* a predicate on events that only holds of batch-level events of context c *)
Definition about (c : CtxId) (f : Event -> bool) : Prop :=
  forall e, f e = true -> tracked e = true /\ ev_ctx e = Some c.

Lemma about_start c n : about c (is_start c n).
Proof. intros [] H; cbn [is_start] in H; try discriminate. apply andb_prop in H. destruct H as [H _]. apply eqb_true in H. subst. auto. Qed.
Lemma about_done c n : about c (is_done c n).
Proof. intros [] H; cbn [is_done] in H; try discriminate. apply andb_prop in H. destruct H as [H _]. apply eqb_true in H. subst. auto. Qed.
Lemma about_cbresp c n : about c (is_cbresp c n).
Proof. intros [] H; cbn [is_cbresp] in H; try discriminate. apply andb_prop in H. destruct H as [H _]. apply eqb_true in H. subst. auto. Qed.
Lemma about_cbstate c : about c (is_cbstate c).
Proof. intros [] H; cbn [is_cbstate] in H; try discriminate. apply eqb_true in H. subst. auto. Qed.
Lemma about_created c : about c (is_created c).
Proof. intros [] H; cbn [is_created] in H; try discriminate. apply eqb_true in H. subst. auto. Qed.

(* counting in the log = counting in blog *)
Lemma count_blog c f s : about c f -> count f (log s) = count f (blog s).
Proof.
  intros Ha. unfold blog. induction (log s) as [|e l IH]; [reflexivity|].
  cbn [filter]. rewrite count_cons. destruct (tracked e) eqn:Et.
  - rewrite count_cons, IH. reflexivity.
  - rewrite IH. destruct (f e) eqn:Ef; [|lia]. destruct (Ha e Ef). congruence.
Qed.

(* new events about another context do not count *)
Lemma count_other c c0 f (l : list Event) :
  about c f -> c <> c0 -> (forall e, In e l -> ev_ctx e = Some c0) -> count f l = 0.
Proof.
  intros Ha Hn Hl. apply count_zero_notIn. intros e Hin. destruct (f e) eqn:Ef; [|reflexivity].
  destruct (Ha e Ef) as (_ & E). rewrite (Hl e Hin) in E. congruence.
Qed.

Lemma In_created_blog c s : In (EvCtxCreated c) (log s) <-> In (EvCtxCreated c) (blog s).
Proof. unfold blog. rewrite filter_In. cbn. tauto. Qed.

(* ------------------------------------------------------------------ *)
(* Q: same batch-level log *)

Definition Q (s s1 : State) : Prop := blog s1 = blog s.

Ltac blog_tac := unfold Q, blog; sproj; cbn [filter tracked]; try reflexivity.

Lemma Q_refl s : Q s s. Proof. reflexivity. Qed.
Lemma Q_trans a b c : Q a b -> Q b c -> Q a c. Proof. unfold Q. congruence. Qed.

Lemma Q_transfer a b amt s s1 : transfer a b amt s = Some s1 -> Q s s1.
Proof. intros E. rewrite (transfer_frame _ _ _ _ _ E). blog_tac. Qed.

Lemma Q_slash cfg s r s1 : slash cfg s r = Ok s1 -> Q s s1.
Proof.
  intros H. apply slash_shape in H.
  destruct H as (q & rc & b & amt & b2 & _ & _ & _ & _ & _ & _ & _ & _ & _ & _ & _ & ->). blog_tac.
Qed.

Lemma Q_refund s r cons fee s1 : refund_fee s r cons fee = Some s1 -> Q s s1.
Proof. intros H. apply refund_shape in H. destruct H as (_ & _ & ->). blog_tac. Qed.

Lemma Q_add_earned cfg s r prov fee s1 : add_earned_fee cfg s r prov fee = Ok s1 -> Q s s1.
Proof.
  intros H. apply add_earned_shape in H. destruct H as (o & s0 & _ & _ & _ & ->). blog_tac.
Qed.

Lemma Q_deactivate s r : Q s (deactivate s r).
Proof. unfold deactivate. destruct (get r (reqs s)); blog_tac. Qed.

Lemma Q_expire_req cfg s r : Q s (expire_req cfg s r).
Proof.
  unfold expire_req.
  destruct (get r (reqs s)) as [q|]; [|apply Q_refl].
  destruct (get (rid_ctx r) (ctxs s)) as [rc|]; [|apply Q_refl].
  assert (H1 : Q s (if c_super rc then s else
     match refund_fee (match slash cfg s r with Ok x => x | _ => s end) r (c_cons rc) (r_fee q) with
     | Some x => x | None => match slash cfg s r with Ok x => x | _ => s end end)).
  { destruct (c_super rc); [apply Q_refl|].
    assert (Hsa : Q s (match slash cfg s r with Ok x => x | _ => s end)).
    { destruct (slash cfg s r) eqn:Es; try apply Q_refl. eapply Q_slash; eauto. }
    destruct (refund_fee _ r (c_cons rc) (r_fee q)) eqn:Er; [|assumption].
    eapply Q_trans; [exact Hsa|]. eapply Q_refund; eauto. }
  eapply Q_trans; [exact H1|]. eapply Q_trans; [apply Q_deactivate|]. blog_tac.
Qed.

Lemma Q_fold_expire cfg l s : Q s (fold_left (expire_req cfg) l s).
Proof.
  revert s. induction l as [|a l IH]; intros s; cbn [fold_left]; [apply Q_refl|].
  eapply Q_trans; [apply Q_expire_req|apply IH].
Qed.

Lemma Q_issue_all s c rc n i provs : Q s (issue_all s c rc n i provs).
Proof.
  revert s i. induction provs as [|p t IH]; cbn [issue_all]; intros s i; [apply Q_refl|].
  eapply Q_trans; [|apply IH]. rewrite issue_one_eq. blog_tac.
Qed.

Lemma Q_pay_deposit s k o amt s1 : pay_deposit s k o amt = Ok s1 -> Q s s1.
Proof.
  intros E. apply pay_deposit_inv in E. destruct E as (s0 & Et & ->).
  eapply Q_trans; [eapply Q_transfer; eauto|]. blog_tac.
Qed.

(* ------------------------------------------------------------------ *)
(* messages that emit no batch-level event *)

Lemma blog_msg_simple cfg s o s' :
  handle cfg s o = Ok s' ->
  match o with
  | ODefine _ _ _ | OBind _ _ _ _ _ _ _ | OUpdate _ _ _ _ _ _ _ | ODisable _ _ _ _
  | OEnable _ _ _ _ _ | ORefundDep _ _ _ _ | OSetWd _ _ _ | OWithdraw _ _ _ | OTransfer _ _ _ => True
  | _ => False end ->
  Q s s'.
Proof.
  intros H Hk. destruct o; cbn [handle] in H; cbn in Hk; try contradiction.
  - unfold h_define in H. inv_ok H. destruct (get svc (defs s)); inv_ok H. subst. blog_tac.
  - unfold h_bind in H. inv_ok H. sproj.
    apply Q_pay_deposit in Ha2.
    destruct (get prov (owner_of a2)); inv_ok H; subst; (eapply Q_trans; [exact Ha2|]); blog_tac.
  - unfold h_update in H. inv_ok H.
    assert (E : Q s a3).
    { destruct (coins_empty dep); inv_ok Ha3; [subst; apply Q_refl|]. eapply Q_pay_deposit; eauto. }
    destruct (negb (qos =? 0) || negb (coins_empty dep) || match pr with Some _ => true | None => false end).
    + destruct a1 as [[raw p]|]; inv_ok H; subst s'; (eapply Q_trans; [exact E|]); blog_tac.
    + inv_ok H. now subst s'.
  - unfold h_disable in H. inv_ok H. subst. blog_tac.
  - unfold h_enable in H. inv_ok H. subst.
    assert (E : Q s a2).
    { destruct (coins_empty dep); inv_ok Ha2; [subst; apply Q_refl|]. eapply Q_pay_deposit; eauto. }
    eapply Q_trans; [exact E|]. blog_tac.
  - unfold h_refund_deposit in H. inv_ok H. subst.
    eapply Q_trans; [eapply Q_transfer; eauto|]. blog_tac.
  - unfold h_set_withdraw in H. inv_ok H. subst. blog_tac.
  - unfold h_withdraw in H. inv_ok H. destruct (prov =? 0).
    + inv_ok H. subst. apply Q_transfer in Ha. eapply Q_trans; [|eapply Q_trans; [exact Ha|]]; blog_tac.
    + inv_ok H. subst. apply Q_transfer in Ha0.
      assert (E : Q s a).
      { destruct (get0 prov (earned s) =? get0 owner (own_earned s)); [|destruct (_ <? 0)]; inv_ok Ha; subst a; blog_tac. }
      eapply Q_trans; [exact E|]. eapply Q_trans; [exact Ha0|]. blog_tac.
  - unfold h_transfer in H. inv_ok H. eapply Q_transfer; eauto.
Qed.

(* ------------------------------------------------------------------ *)
(* completion: the events of complete_batch, exactly *)

Definition done_events (c : CtxId) (rc : Ctx) (outs : list Z) : list Event :=
  EvBatchDone c (c_counter rc)
  :: (if c_mod rc =? 0 then [] else [EvCbResp c (c_counter rc) outs (len outs <? c_bthr rc)]).

Lemma batch_outputs_resps a b c n : resps a = resps b -> batch_outputs a c n = batch_outputs b c n.
Proof. intros E. unfold batch_outputs. now rewrite E. Qed.

(* rcv: the record value handed to CompleteBatch; rcs: the record in the store (read by
   Callback); they agree on module, counter and threshold at both call sites *)
Lemma complete_batch_blog s c rcv rcs :
  get c (ctxs s) = Some rcs ->
  c_mod rcv = c_mod rcs -> c_counter rcv = c_counter rcs -> c_bthr rcv = c_bthr rcs ->
  blog (fst (complete_batch s c rcv))
  = done_events c rcs (batch_outputs s c (c_counter rcs)) ++ blog s.
Proof.
  intros G Em En Et. unfold complete_batch, done_events, callback. cbn [fst]. rewrite G, Em, En.
  destruct (c_mod rcs =? 0); blog_tac.
Qed.

(* ------------------------------------------------------------------ *)
(* respond *)

Lemma respond_blog cfg s r who code out ov ok s' :
  wf_cfg cfg -> Inv cfg s -> h_respond cfg s r who code out ov ok = Ok s' ->
  exists rc, get (rid_ctx r) (ctxs s) = Some rc /\
    blog s' =
    (if c_bresp rc + 1 =? c_breq rc
     then done_events (rid_ctx r) rc
            (batch_outputs (set_resps s (set r (mkResp who (c_cons rc) code out) (resps s)))
               (rid_ctx r) (c_counter rc))
     else []) ++ blog s.
Proof.
  intros Hcfg Hinv H. apply respond_inv in H.
  destruct H as (q & rc0 & s1 & rc & _ & Hq & Hrc0 & Hwho & Hact & Hset & Hrc & ->).
  destruct (settle_core _ _ _ _ _ _ _ _ Hset) as ((C1 & C2 & C3 & C4 & C5) & Cb).
  assert (Hs1 : Q s s1).
  { destruct Hset as [[_ (sa & Es & Er)]|[_ Ea]].
    - eapply Q_trans; [eapply Q_slash; eauto|eapply Q_refund; eauto].
    - eapply Q_add_earned; eauto. }
  set (sm := resp_mid s1 r who rc0 code out) in *.
  assert (Hm : Q s sm /\ ctxs sm = ctxs s
               /\ resps sm = set r (mkResp who (c_cons rc0) code out) (resps s)).
  { unfold sm, resp_mid. split; [|split].
    - eapply Q_trans; [exact Hs1|]. unfold Q, blog. sproj. cbn [filter tracked].
      unfold deactivate. sproj. destruct (get r (reqs s1)); reflexivity.
    - sproj. unfold deactivate. sproj. destruct (get r (reqs s1)); sproj; exact C3.
    - sproj. unfold deactivate. sproj. destruct (get r (reqs s1)); sproj; now rewrite C2. }
  destruct Hm as (Qm & Cm & Rm).
  assert (rc = rc0) by (rewrite Cm in Hrc; congruence). subst rc0.
  exists rc. split; [exact Hrc0|].
  unfold resp_finish. cbn [c_bresp c_breq setc_bresp].
  destruct (c_bresp rc + 1 =? c_breq rc).
  - unfold blog at 1. sproj. fold (blog (fst (complete_batch sm (rid_ctx r) (setc_bresp rc (c_bresp rc + 1))))).
    rewrite (complete_batch_blog sm (rid_ctx r) _ rc) by (rewrite ?Cm; auto).
    rewrite Qm. f_equal. f_equal. apply batch_outputs_resps. sproj. exact Rm.
  - unfold blog at 1. sproj. exact Qm.
Qed.

(* ------------------------------------------------------------------ *)
(* expire_one *)

Definition fin_b (rc : Ctx) : bool :=
  match c_state rc with Completed => true | Running => negb (more rc) | Paused => false end.

Lemma expire_one_blog cfg s c rc :
  Inv cfg s -> get c (ctxs s) = Some rc ->
  blog (expire_one cfg s c)
  = (if fin_b rc then [EvCtxRemoved c] else [])
    ++ (if c_bdone rc then [] else done_events c rc (batch_outputs s c (c_counter rc)))
    ++ blog s.
Proof.
  intros HI Erc. unfold expire_one, ctx_or_zero. rewrite Erc.
  assert (E1 : exists s1 rc1,
     (if c_bdone rc then (s, rc)
      else complete_batch (fold_left (expire_req cfg) (active_rids s c (c_counter rc)) s) c rc) = (s1, rc1)
     /\ c_state rc1 = c_state rc /\ more rc1 = more rc
     /\ blog s1 = (if c_bdone rc then [] else done_events c rc (batch_outputs s c (c_counter rc))) ++ blog s).
  { destruct (c_bdone rc) eqn:Eb.
    - exists s, rc. repeat split.
    - set (sf := fold_left (expire_req cfg) (active_rids s c (c_counter rc)) s).
      exists (fst (complete_batch sf c rc)), (setc_bdone rc true).
      split; [reflexivity|]. split; [reflexivity|]. split; [reflexivity|].
      pose proof (fold_expire_core cfg (active_rids s c (c_counter rc)) s) as C. cbv zeta in C. fold sf in C.
      destruct C as (C1 & C2 & _).
      rewrite (complete_batch_blog sf c rc rc) by (rewrite ?C2; auto).
      rewrite (batch_outputs_resps sf s) by exact C1.
      f_equal. apply Q_fold_expire. }
  destruct E1 as (s1 & rc1 & -> & Est & Emo & Eb).
  unfold fin_b. rewrite <- Est, <- Emo. unfold more.
  destruct (c_state rc1); [destruct (c_rep rc1 && _)| |];
    unfold blog at 1; unfold clean_batch; sproj; cbn [filter tracked negb app];
    fold (blog s1); rewrite Eb; reflexivity.
Qed.

(* ------------------------------------------------------------------ *)
(* new_one *)

Lemma new_one_blog cfg s c rc : get c (ctxs s) = Some rc ->
  (d5 rc = true /\ blog (new_one cfg s c) = EvCtxRemoved c :: blog s)
  \/ (d5 rc = false /\ c_state rc = Running /\ exists n,
        blog (new_one cfg s c) = EvBatchStart c (c_counter rc + 1) (height s) n :: blog s
        /\ get c (ctxs (new_one cfg s c)) = Some (bump rc n))
  \/ (d5 rc = false /\ c_state rc = Running
      /\ blog (new_one cfg s c) = (if c_mod rc =? 0 then [] else [EvCbState c]) ++ blog s
      /\ get c (ctxs (new_one cfg s c)) = Some (paused_ctx rc))
  \/ (c_state rc <> Running /\ blog (new_one cfg s c) = blog s
      /\ get c (ctxs (new_one cfg s c)) = Some rc).
Proof.
  intros Erc. unfold new_one.
  assert (Ez : ctx_or_zero s c = rc) by (unfold ctx_or_zero; now rewrite Erc). rewrite Ez.
  change (is_state rc Running && c_rep rc && (0 <? c_total rc) && (c_total rc <=? c_counter rc))
    with (d5 rc).
  destruct (d5 rc) eqn:Hd; [left; split; [reflexivity|blog_tac]|right].
  destruct (is_state rc Running) eqn:Hr.
  2:{ right; right. apply is_state_false in Hr. split; [exact Hr|]. split; [blog_tac|]. sproj. exact Erc. }
  apply is_state_true in Hr.
  set (el := filter_providers s rc (c_provs rc)).
  assert (Hinit : forall sp, Q s sp -> ctxs sp = ctxs s -> height sp = height s ->
            exists n,
              blog (del_newq (add_expq (initiate_requests sp c (map fst el)) c (height s + c_timeout rc)) c (height s))
              = EvBatchStart c (c_counter rc + 1) (height s) n :: blog s
              /\ get c (ctxs (del_newq (add_expq (initiate_requests sp c (map fst el)) c
                                          (height s + c_timeout rc)) c (height s))) = Some (bump rc n)).
  { intros sp Qsp Csp Hsp. exists (len (map fst el)).
    unfold initiate_requests. assert (Ez' : ctx_or_zero sp c = rc) by (unfold ctx_or_zero; now rewrite Csp, Erc).
    rewrite Ez', Hsp. split.
    - unfold blog at 1. sproj. cbn [filter tracked].
      fold (blog (issue_all sp c rc (c_counter rc + 1) 0 (map fst el))).
      rewrite (Q_issue_all sp c rc (c_counter rc + 1) 0 (map fst el)), Qsp. reflexivity.
    - sproj. rewrite get_set_eq. reflexivity. }
  destruct ((0 <? len el) && (c_thr rc <=? len el)).
  - destruct (c_super rc).
    + left. split; [reflexivity|]. split; [exact Hr|]. apply Hinit; [apply Q_refl|reflexivity|reflexivity].
    + destruct (transfer (User (c_cons rc)) Escrow (sum_prices el) s) as [x|] eqn:Et.
      * left. split; [reflexivity|]. split; [exact Hr|].
        pose proof (transfer_frame _ _ _ _ _ Et) as Hf.
        apply Hinit.
        -- eapply Q_trans; [eapply Q_transfer; eauto|]. blog_tac.
        -- sproj. rewrite Hf. reflexivity.
        -- sproj. rewrite Hf. reflexivity.
      * right; left. split; [reflexivity|]. split; [exact Hr|].
        unfold on_paused. destruct (c_mod rc =? 0).
        -- split; [blog_tac|]. sproj. now rewrite get_set_eq.
        -- split; [blog_tac|]. sproj. now rewrite get_set_eq.
  - left. split; [reflexivity|]. split; [exact Hr|]. exists 0. unfold skip_batch. split; [blog_tac|].
    sproj. now rewrite get_set_eq.
Qed.

(* ------------------------------------------------------------------ *)
(* the per-context counts and the instrumented invariant *)

Definition nstart c n s := count (is_start c n) (blog s).
Definition ndone c n s := count (is_done c n) (blog s).
Definition ncb c n s := count (is_cbresp c n) (blog s).

(* what the log says about an existing context with record rc *)
Definition E_facts (c : CtxId) (rc : Ctx) (s : State) : Prop :=
  (forall n, nstart c n s = if (1 <=? n) && (n <=? c_counter rc) then 1 else 0)
  /\ (forall n, 1 <= n < c_counter rc -> ndone c n s = 1)
  /\ (forall n, n <= 0 \/ c_counter rc < n -> ndone c n s = 0)
  /\ (1 <= c_counter rc -> ndone c (c_counter rc) s = if c_bdone rc then 1 else 0)
  /\ (c_mod rc <> 0 -> forall n, ncb c n s = ndone c n s)
  /\ (c_mod rc = 0 -> forall n, ncb c n s = 0).

(* what it says about any context id *)
Definition G_facts (c : CtxId) (s : State) : Prop :=
  (forall n, 0 <= ncb c n s <= ndone c n s /\ ndone c n s <= nstart c n s /\ nstart c n s <= 1)
  /\ ((forall n, ncb c n s = ndone c n s) \/ (forall n, ncb c n s = 0))
  /\ (~ In (EvCtxCreated c) (blog s) -> forall n, nstart c n s = 0).

Definition TC (s : State) : Prop :=
  forall c, G_facts c s /\ (forall rc, get c (ctxs s) = Some rc -> E_facts c rc s).

Lemma E_to_G c rc s : 0 <= c_counter rc -> In (EvCtxCreated c) (blog s) -> E_facts c rc s -> G_facts c s.
Proof.
  intros H0 Hcr (E1 & E2 & E3 & E4 & E5 & E6). unfold G_facts.
  assert (Hd : forall n, 0 <= ndone c n s <= nstart c n s /\ nstart c n s <= 1).
  { intros n. rewrite E1. pose proof (count_nonneg (is_done c n) (blog s)) as Hn. fold (ndone c n s) in Hn.
    destruct (Z_le_gt_dec n 0) as [Hle|Hgt].
    - rewrite (E3 n) by (left; lia). destruct ((1 <=? n) && (n <=? c_counter rc)); lia.
    - destruct (Z_lt_le_dec (c_counter rc) n) as [Hlt|Hle2].
      + rewrite (E3 n) by (right; lia). destruct ((1 <=? n) && (n <=? c_counter rc)); lia.
      + assert (Hb : (1 <=? n) && (n <=? c_counter rc) = true)
          by (apply andb_true_intro; split; apply Z.leb_le; lia).
        rewrite Hb. destruct (Z.eq_dec n (c_counter rc)) as [->|Hne].
        * rewrite E4 by lia. destruct (c_bdone rc); lia.
        * rewrite E2 by lia. lia. }
  destruct (Z.eq_dec (c_mod rc) 0) as [Em|Em].
  - split; [|split; [right; exact (E6 Em)|intros Hx; contradiction]].
    intros n. rewrite (E6 Em n). destruct (Hd n). lia.
  - split; [|split; [left; exact (E5 Em)|intros Hx; contradiction]].
    intros n. rewrite (E5 Em n). destruct (Hd n). lia.
Qed.

(* counts after new events *)
Lemma nstart_app c n s s' l : blog s' = l ++ blog s -> nstart c n s' = count (is_start c n) l + nstart c n s.
Proof. intros E. unfold nstart. now rewrite E, count_app. Qed.
Lemma ndone_app c n s s' l : blog s' = l ++ blog s -> ndone c n s' = count (is_done c n) l + ndone c n s.
Proof. intros E. unfold ndone. now rewrite E, count_app. Qed.
Lemma ncb_app c n s s' l : blog s' = l ++ blog s -> ncb c n s' = count (is_cbresp c n) l + ncb c n s.
Proof. intros E. unfold ncb. now rewrite E, count_app. Qed.

(* a step whose new batch-level events are all about c0 and that leaves the records of the
   other contexts alone preserves the facts of the other contexts *)
Lemma TC_other c c0 s s' l :
  blog s' = l ++ blog s -> (forall e, In e l -> ev_ctx e = Some c0) -> c <> c0 ->
  get c (ctxs s') = get c (ctxs s) ->
  (G_facts c s /\ (forall rc, get c (ctxs s) = Some rc -> E_facts c rc s)) ->
  (G_facts c s' /\ (forall rc, get c (ctxs s') = Some rc -> E_facts c rc s')).
Proof.
  intros Eb Hl Hn Eg (HG & HE).
  assert (S1 : forall n, nstart c n s' = nstart c n s).
  { intros n. rewrite (nstart_app _ _ _ _ _ Eb), (count_other c c0) by (auto using about_start). lia. }
  assert (S2 : forall n, ndone c n s' = ndone c n s).
  { intros n. rewrite (ndone_app _ _ _ _ _ Eb), (count_other c c0) by (auto using about_done). lia. }
  assert (S3 : forall n, ncb c n s' = ncb c n s).
  { intros n. rewrite (ncb_app _ _ _ _ _ Eb), (count_other c c0) by (auto using about_cbresp). lia. }
  split.
  - destruct HG as (G1 & G2 & G3). unfold G_facts. split; [|split].
    + intros n. rewrite S1, S2, S3. apply G1.
    + destruct G2 as [G2|G2]; [left|right]; intros n; rewrite ?S2, S3; apply G2.
    + intros Hc n. rewrite S1. apply G3. intros Hin. apply Hc. rewrite Eb. apply in_or_app. now right.
  - intros rc G. rewrite Eg in G. destruct (HE rc G) as (E1 & E2 & E3 & E4 & E5 & E6).
    unfold E_facts. repeat split; intros; rewrite ?S1, ?S2, ?S3; auto.
Qed.

(* the record of c0 changes, counter / batch state / module stay: no new batch-level event *)
Lemma E_same c rc rc' s s' :
  blog s' = blog s -> c_counter rc' = c_counter rc -> c_bdone rc' = c_bdone rc -> c_mod rc' = c_mod rc ->
  E_facts c rc s -> E_facts c rc' s'.
Proof.
  intros Eb E1 E2 E3. unfold E_facts, nstart, ndone, ncb. rewrite Eb, E1, E2, E3. auto.
Qed.

Lemma G_same c s s' : blog s' = blog s -> G_facts c s -> G_facts c s'.
Proof. intros Eb. unfold G_facts, nstart, ndone, ncb. now rewrite Eb. Qed.

(* completion of the current batch of c: one Done, and one callback iff module *)
Lemma count_done_events_done c rc outs n :
  count (is_done c n) (done_events c rc outs) = if n =? c_counter rc then 1 else 0.
Proof.
  unfold done_events. rewrite count_cons. cbn [is_done]. rewrite eqb_refl. cbn [andb].
  rewrite (Z.eqb_sym (c_counter rc) n).
  destruct (c_mod rc =? 0); rewrite ?count_cons, ?count_nil; cbn [is_done]; destruct (n =? c_counter rc); lia.
Qed.

Lemma count_done_events_cb c rc outs n :
  count (is_cbresp c n) (done_events c rc outs)
  = if (n =? c_counter rc) && negb (c_mod rc =? 0) then 1 else 0.
Proof.
  unfold done_events. rewrite count_cons. cbn [is_cbresp].
  destruct (c_mod rc =? 0); cbn [negb].
  - rewrite count_nil, andb_false_r. lia.
  - rewrite count_cons, count_nil. cbn [is_cbresp]. rewrite eqb_refl. cbn [andb].
    rewrite andb_true_r, (Z.eqb_sym (c_counter rc) n). destruct (n =? c_counter rc); lia.
Qed.

Lemma count_done_events_start c rc outs n : count (is_start c n) (done_events c rc outs) = 0.
Proof.
  unfold done_events. rewrite count_cons. cbn [is_start].
  destruct (c_mod rc =? 0); rewrite ?count_cons, ?count_nil; cbn [is_start]; lia.
Qed.

Lemma E_complete c rc rc' outs l s s' :
  blog s' = l ++ done_events c rc outs ++ blog s ->
  (forall n, count (is_start c n) l = 0) -> (forall n, count (is_done c n) l = 0) ->
  (forall n, count (is_cbresp c n) l = 0) ->
  1 <= c_counter rc -> c_bdone rc = false ->
  c_counter rc' = c_counter rc -> c_bdone rc' = true -> c_mod rc' = c_mod rc ->
  E_facts c rc s -> E_facts c rc' s'.
Proof.
  intros Eb L1 L2 L3 HN Hbd F1 F2 F3 (E1 & E2 & E3 & E4 & E5 & E6).
  rewrite app_assoc in Eb.
  assert (S1 : forall n, nstart c n s' = nstart c n s).
  { intros n. rewrite (nstart_app _ _ _ _ _ Eb), count_app, L1, count_done_events_start. lia. }
  assert (S2 : forall n, ndone c n s' = (if n =? c_counter rc then 1 else 0) + ndone c n s).
  { intros n. rewrite (ndone_app _ _ _ _ _ Eb), count_app, L2, count_done_events_done. lia. }
  assert (S3 : forall n, ncb c n s' = (if (n =? c_counter rc) && negb (c_mod rc =? 0) then 1 else 0) + ncb c n s).
  { intros n. rewrite (ncb_app _ _ _ _ _ Eb), count_app, L3, count_done_events_cb. lia. }
  specialize (E4 HN). rewrite Hbd in E4.
  unfold E_facts. rewrite F1, F2, F3. split; [|split; [|split; [|split; [|split]]]].
  - intros n. rewrite S1. apply E1.
  - intros n Hn. rewrite S2. destruct (Z.eqb_spec n (c_counter rc)); [lia|]. rewrite E2 by lia. lia.
  - intros n Hn. rewrite S2. destruct (Z.eqb_spec n (c_counter rc)); [lia|]. rewrite E3 by lia. lia.
  - intros _. rewrite S2, Z.eqb_refl, E4. reflexivity.
  - intros Hm n. rewrite S3, S2. apply Z.eqb_neq in Hm. rewrite Hm. cbn [negb]. rewrite andb_true_r.
    apply Z.eqb_neq in Hm. rewrite (E5 Hm n). reflexivity.
  - intros Hm n. rewrite S3. rewrite Hm. cbn [Z.eqb negb]. rewrite andb_false_r. rewrite (E6 Hm n). lia.
Qed.

Lemma done_events_about c rc outs e : In e (done_events c rc outs) -> ev_ctx e = Some c.
Proof.
  unfold done_events. destruct (c_mod rc =? 0); cbn [In]; intros Hin;
    repeat (destruct Hin as [<-|Hin]; [reflexivity|]); destruct Hin.
Qed.

(* a batch is started *)
Lemma E_start c rc k H s s' :
  blog s' = EvBatchStart c (c_counter rc + 1) H k :: blog s ->
  0 <= c_counter rc -> c_bdone rc = true ->
  G_facts c s -> E_facts c rc s -> E_facts c (bump rc k) s'.
Proof.
  intros Eb H0 Hbd (G1 & _) (E1 & E2 & E3 & E4 & E5 & E6).
  change (EvBatchStart c (c_counter rc + 1) H k :: blog s)
    with ([EvBatchStart c (c_counter rc + 1) H k] ++ blog s) in Eb.
  assert (S1 : forall n, nstart c n s' = (if n =? c_counter rc + 1 then 1 else 0) + nstart c n s).
  { intros n. rewrite (nstart_app _ _ _ _ _ Eb), count_cons, count_nil. cbn [is_start].
    rewrite eqb_refl. cbn [andb]. rewrite (Z.eqb_sym (c_counter rc + 1) n). lia. }
  assert (S2 : forall n, ndone c n s' = ndone c n s).
  { intros n. rewrite (ndone_app _ _ _ _ _ Eb), count_cons, count_nil. cbn [is_done]. lia. }
  assert (S3 : forall n, ncb c n s' = ncb c n s).
  { intros n. rewrite (ncb_app _ _ _ _ _ Eb), count_cons, count_nil. cbn [is_cbresp]. lia. }
  unfold E_facts, bump.
  cbn [c_counter c_bdone c_mod setc_bthr setc_breq setc_bresp setc_bdone setc_counter].
  split; [|split; [|split; [|split; [|split]]]].
  - intros n. rewrite S1, E1.
    destruct (Z.eqb_spec n (c_counter rc + 1)) as [->|Hne].
    + replace (c_counter rc + 1 <=? c_counter rc) with false by (symmetry; apply Z.leb_gt; lia).
      rewrite andb_false_r, Z.leb_refl, andb_true_r.
      replace (1 <=? c_counter rc + 1) with true by (symmetry; apply Z.leb_le; lia). reflexivity.
    + destruct (1 <=? n) eqn:A; cbn [andb]; [|reflexivity].
      destruct (n <=? c_counter rc) eqn:B, (n <=? c_counter rc + 1) eqn:C; b2p; try lia; reflexivity.
  - intros n Hn. rewrite S2. destruct (Z.eq_dec n (c_counter rc)) as [->|Hne].
    + rewrite E4 by lia. now rewrite Hbd.
    + apply E2. lia.
  - intros n Hn. rewrite S2. apply E3. lia.
  - intros _. rewrite S2. apply E3. right. lia.
  - intros Hm n. rewrite S3, S2. now apply E5.
  - intros Hm n. rewrite S3. now apply E6.
Qed.

(* ------------------------------------------------------------------ *)
(* preservation *)

Definition PT (s : State) : Prop := I_started s /\ TC s.

Lemma created_in_blog cfg s c rc : Inv cfg s -> get c (ctxs s) = Some rc -> In (EvCtxCreated c) (blog s).
Proof.
  intros HI G. apply In_created_blog. apply (I_ctx_get _ _ _ _ (inv_ctx _ _ HI) G).
Qed.

Lemma counter_nonneg cfg s c rc : Inv cfg s -> get c (ctxs s) = Some rc -> 0 <= c_counter rc.
Proof. intros HI G. destruct (I_ctx_get _ _ _ _ (inv_ctx _ _ HI) G) as ((_ & H & _) & _). exact H. Qed.

(* a step that emits no batch-level event and rewrites at most the record of c0, keeping
   counter, batch state and module *)
Lemma TC_quiet_put c0 s s' :
  TC s -> blog s' = blog s ->
  (forall c, c <> c0 -> get c (ctxs s') = get c (ctxs s)) ->
  (forall rc', get c0 (ctxs s') = Some rc' -> exists rc, get c0 (ctxs s) = Some rc
       /\ c_counter rc' = c_counter rc /\ c_bdone rc' = c_bdone rc /\ c_mod rc' = c_mod rc) ->
  TC s'.
Proof.
  intros HT Eb Ho Hc c. destruct (HT c) as (HG & HE).
  split; [now apply (G_same c s)|]. intros rc' G'.
  destruct (eqb_spec c c0) as [->|Hn].
  - destruct (Hc rc' G') as (rc & G & F1 & F2 & F3). apply (E_same c0 rc rc' s); auto.
  - rewrite Ho in G' by assumption. apply (E_same c rc' rc' s); auto.
Qed.

Lemma TC_msg cfg s o s' :
  wf_cfg cfg -> Inv cfg s -> PT s -> wf_op s o -> (forall dt, o <> OEndBlock dt) ->
  handle cfg s o = Ok s' -> TC s'.
Proof.
  intros Hcfg HI (Hst & HT) Hwf Hne H.
  assert (Hsimple : Q s s' -> ctxs s' = ctxs s -> TC s').
  { intros Hq Ec. apply (TC_quiet_put (0, 0) s s' HT Hq); [intros; now rewrite Ec|].
    intros rc' G. rewrite Ec in G. eauto. }
  assert (Hput : forall c0 rc rc', get c0 (ctxs s) = Some rc -> blog s' = blog s ->
            ctxs s' = set c0 rc' (ctxs s) ->
            c_counter rc' = c_counter rc -> c_bdone rc' = c_bdone rc -> c_mod rc' = c_mod rc -> TC s').
  { intros c0 rc rc' G Eb Ec F1 F2 F3. apply (TC_quiet_put c0 s s' HT Eb).
    - intros c Hn. now rewrite Ec, get_set_neq.
    - intros rcx Gx. rewrite Ec, get_set_eq in Gx. injection Gx as <-. eauto. }
  assert (Hcreate : forall c0 rc0, ctx_fresh s c0 -> c_counter rc0 = 0 -> s' = created s c0 rc0 -> TC s').
  { intros c0 rc0 Hf Hc0 ->. destruct (fresh_none _ _ _ HI Hf) as (Ex & _).
    assert (Eb : blog (created s c0 rc0) = [EvCtxCreated c0] ++ blog s) by (unfold created; blog_tac).
    intros c. destruct (eqb_spec c c0) as [->|Hn].
    - destruct (HT c0) as ((G1 & G2 & G3) & _).
      assert (Hfb : ~ In (EvCtxCreated c0) (blog s)) by (intros Hin; apply Hf; now apply In_created_blog).
      assert (Z1 : forall n, nstart c0 n s = 0) by (apply G3; exact Hfb).
      assert (Z2 : forall n, ndone c0 n s = 0) by (intros n; destruct (G1 n); rewrite Z1 in *; lia).
      assert (Z3 : forall n, ncb c0 n s = 0) by (intros n; destruct (G1 n); rewrite Z2 in *; lia).
      assert (S1 : forall n, nstart c0 n (created s c0 rc0) = 0).
      { intros n. rewrite (nstart_app _ _ _ _ _ Eb), count_cons, count_nil, Z1. cbn [is_start]. lia. }
      assert (S2 : forall n, ndone c0 n (created s c0 rc0) = 0).
      { intros n. rewrite (ndone_app _ _ _ _ _ Eb), count_cons, count_nil, Z2. cbn [is_done]. lia. }
      assert (S3 : forall n, ncb c0 n (created s c0 rc0) = 0).
      { intros n. rewrite (ncb_app _ _ _ _ _ Eb), count_cons, count_nil, Z3. cbn [is_cbresp]. lia. }
      assert (HE : E_facts c0 rc0 (created s c0 rc0)).
      { unfold E_facts. rewrite Hc0. repeat split; intros; rewrite ?S1, ?S2, ?S3; try reflexivity; try lia.
        destruct (1 <=? n) eqn:A, (n <=? 0) eqn:B; b2p; try lia; reflexivity. }
      split.
      + apply (E_to_G c0 rc0); [lia| |exact HE]. rewrite Eb. now left.
      + intros rc G. unfold created in G. sproj. rewrite get_set_eq in G. injection G as <-. exact HE.
    - apply (TC_other c c0 s _ [EvCtxCreated c0]); auto.
      + intros e [<-|[]]. reflexivity.
      + unfold created. sproj. now rewrite get_set_neq. }
  destruct o; try (apply Hsimple; [exact (blog_msg_simple _ _ _ _ H I)|
                     destruct (req_msg_simple _ _ _ _ H I) as (_ & _ & E & _); exact E]);
    cbn [handle] in H; cbn [wf_op] in Hwf.
  - unfold h_call in H. inv_ok H. apply create_context_spec in H.
    destruct H as (capv & _ & _ & _ & E). eapply Hcreate; cycle 2; [exact E|tauto|reflexivity].
  - apply create_context_spec in H.
    destruct H as (capv & _ & _ & _ & E). eapply Hcreate; cycle 2; [exact E|tauto|reflexivity].
  - (* respond *)
    destruct (respond_blog _ _ _ _ _ _ _ _ _ Hcfg HI H) as (rc & Grc & Eb).
    destruct (respond_exact _ _ _ _ _ _ _ _ _ Hcfg HI H)
      as (q & rc0 & _ & _ & _ & Grc0 & Gexp & Hnd & Hb & _ & _ & _ & _ & Ec).
    assert (rc0 = rc) by congruence. subst rc0.
    unfold responded in Ec. cbn [c_bresp c_breq setc_bresp] in Ec.
    destruct (c_bresp rc + 1 =? c_breq rc) eqn:Ecomp.
    + intros c. destruct (eqb_spec c (rid_ctx r)) as [->|Hn].
      * destruct (HT (rid_ctx r)) as (HG & HE).
        assert (HN : 1 <= c_counter rc) by (apply (Hst _ _ Grc); unfold has; now rewrite Gexp).
        assert (HE' : E_facts (rid_ctx r) (setc_bdone (setc_bresp rc (c_bresp rc + 1)) true) s').
        { eapply (E_complete (rid_ctx r) rc _ _ [] s s'); try reflexivity; try assumption.
          - exact Eb.
          - now apply HE. }
        split.
        -- eapply E_to_G; [|rewrite Eb; apply in_or_app; right; eapply created_in_blog; eauto|exact HE'].
           cbn. eapply counter_nonneg; eauto.
        -- intros rcx Gx. rewrite Ec, get_set_eq in Gx. injection Gx as <-. exact HE'.
      * eapply (TC_other c (rid_ctx r) s s'); [exact Eb| |exact Hn| |apply HT].
        -- intros e Hin. eapply done_events_about; eauto.
        -- rewrite Ec. now rewrite get_set_neq.
    + eapply (Hput (rid_ctx r) rc); try exact Grc; try exact Ec; try reflexivity. exact Eb.
  - apply h_pause_spec in H. destruct H as (rc & Erc & _ & _ & _ & _ & ->).
    eapply (Hput c rc); try exact Erc; reflexivity.
  - apply h_start_spec in H. destruct H as (rc & Erc & _ & _ & _ & ->).
    eapply (Hput c rc); try exact Erc; try apply ctxs_started; try reflexivity.
    unfold started. destruct (negb _ && negb _); reflexivity.
  - apply h_kill_spec in H. destruct H as (rc & Erc & _ & _ & _ & ->).
    eapply (Hput c rc); try exact Erc; reflexivity.
  - apply h_update_ctx_spec in H.
    destruct H as (rc & capo & Erc & _ & _ & _ & _ & _ & _ & _ & _ & ->).
    pose proof (upd_ctx_fixed rc provs capo timeout freq total) as Hf. cbv zeta in Hf.
    eapply (Hput c rc); try exact Erc; try reflexivity; tauto.
  - exfalso. eapply Hne. reflexivity.
  - apply h_mod_update_gen in H. destruct H as (rc & t & capo & Erc & _ & _ & ->).
    pose proof (upd_thr_fixed rc t provs capo timeout freq total) as Hf. cbv zeta in Hf.
    eapply (Hput c rc); try exact Erc; try reflexivity; tauto.
  - apply h_mod_pause_spec in H. destruct H as (rc & Erc & _ & _ & _ & ->).
    eapply (Hput c rc); try exact Erc; reflexivity.
  - apply h_mod_start_spec in H. destruct H as (rc & Erc & _ & _ & ->).
    eapply (Hput c rc); try exact Erc; try apply ctxs_started; try reflexivity.
    unfold started. destruct (negb _ && negb _); reflexivity.
  - apply h_mod_kill_spec in H. destruct H as (rc & Erc & _ & _ & ->).
    eapply (Hput c rc); try exact Erc; reflexivity.
Qed.

Lemma TC_expire_one cfg s c :
  wf_cfg cfg -> Inv cfg s -> PT s -> In (height s, c) (expq s) -> height s < HEIGHT_BOUND ->
  TC (expire_one cfg s c).
Proof.
  intros Hcfg HI (Hst & HT) Hdue Hb.
  destruct (expire_one_spec cfg s c Hcfg HI Hdue Hb)
    as (rc & rc1 & Erc & Ee & En & Hrc1 & Ht & _ & _ & _ & Hcase).
  pose proof (expire_one_blog cfg s c rc HI Erc) as Eb.
  assert (HN : 1 <= c_counter rc) by (apply (Hst _ _ Erc); unfold has; now rewrite Ee).
  destruct (inv_req _ _ (Inv_expire_one cfg s c Hcfg HI Hdue Hb)) as (_ & _ & R3').
  intros c'. destruct (eqb_spec c' c) as [->|Hn].
  - destruct (HT c) as (HG & HE). specialize (HE rc Erc).
    set (l := if fin_b rc then [EvCtxRemoved c] else []) in *.
    assert (L1 : forall n, count (is_start c n) l = 0) by (intros n; unfold l; destruct (fin_b rc); reflexivity).
    assert (L2 : forall n, count (is_done c n) l = 0) by (intros n; unfold l; destruct (fin_b rc); reflexivity).
    assert (L3 : forall n, count (is_cbresp c n) l = 0) by (intros n; unfold l; destruct (fin_b rc); reflexivity).
    (* the facts for the record as it is after the completion, whether or not it survives *)
    assert (HE' : E_facts c (setc_bdone rc true) (expire_one cfg s c)).
    { destruct (c_bdone rc) eqn:Ebd.
      - cbn [app] in Eb.
        assert (S1 : forall n, nstart c n (expire_one cfg s c) = nstart c n s)
          by (intros n; rewrite (nstart_app _ _ _ _ _ Eb), L1; lia).
        assert (S2 : forall n, ndone c n (expire_one cfg s c) = ndone c n s)
          by (intros n; rewrite (ndone_app _ _ _ _ _ Eb), L2; lia).
        assert (S3 : forall n, ncb c n (expire_one cfg s c) = ncb c n s)
          by (intros n; rewrite (ncb_app _ _ _ _ _ Eb), L3; lia).
        destruct HE as (E1 & E2 & E3 & E4 & E5 & E6). unfold E_facts. cbn [c_counter c_bdone c_mod setc_bdone].
        repeat split; intros; rewrite ?S1, ?S2, ?S3; auto.
        rewrite E4 by assumption. now rewrite Ebd.
      - eapply (E_complete c rc _ _ l s); try reflexivity; try assumption. exact Eb. }
    split.
    + eapply E_to_G; [| |exact HE'].
      * cbn. lia.
      * rewrite Eb. apply in_or_app; right. apply in_or_app; right. eapply created_in_blog; eauto.
    + intros rcx Gx.
      assert (rcx = rc1) by (destruct Hcase as [(Ex & _)|[(Ex & _)|(Ex & _)]]; congruence). subst rcx.
      destruct Hrc1 as [->|[_ ->]]; [|exact HE'].
      (* rc1 = rc: then the batch was completed already *)
      assert (Ebd : c_bdone rc = true).
      { destruct (R3' _ _ Gx) as (_ & _ & _ & B4'). apply B4'. apply has_false.
        destruct (expire_one_spec cfg s c Hcfg HI Hdue Hb) as (_ & _ & _ & _ & _ & _ & _ & _ & _ & Ee' & _).
        exact Ee'. }
      assert (Eq : setc_bdone rc true = rc) by (destruct rc; cbn in Ebd; subst; reflexivity).
      rewrite <- Eq. exact HE'.
  - rewrite app_assoc in Eb.
    eapply (TC_other c' c s _ _ Eb); [| exact Hn | apply (t_ctxs _ _ _ Ht); exact Hn | apply HT].
    intros e Hin. apply in_app_or in Hin. destruct Hin as [Hin|Hin].
    + destruct (fin_b rc); [destruct Hin as [<-|[]]; reflexivity|destruct Hin].
    + destruct (c_bdone rc); [destruct Hin|]. eapply done_events_about; eauto.
Qed.

(* new batch-level events that are neither start, done nor response callback of c *)
Definition quiet_for (c : CtxId) (l : list Event) : Prop :=
  forall n, count (is_start c n) l = 0 /\ count (is_done c n) l = 0 /\ count (is_cbresp c n) l = 0.

Lemma quiet_counts c s s' l : blog s' = l ++ blog s -> quiet_for c l ->
  forall n, nstart c n s' = nstart c n s /\ ndone c n s' = ndone c n s /\ ncb c n s' = ncb c n s.
Proof.
  intros Eb Hq n. destruct (Hq n) as (A & B & C).
  rewrite (nstart_app _ _ _ _ _ Eb), (ndone_app _ _ _ _ _ Eb), (ncb_app _ _ _ _ _ Eb). lia.
Qed.

Lemma G_quiet c s s' l : blog s' = l ++ blog s -> quiet_for c l -> G_facts c s -> G_facts c s'.
Proof.
  intros Eb Hq (G1 & G2 & G3). pose proof (quiet_counts c s s' l Eb Hq) as S.
  unfold G_facts. split; [|split].
  - intros n. destruct (S n) as (-> & -> & ->). apply G1.
  - destruct G2 as [G2|G2]; [left|right]; intros n; destruct (S n) as (_ & A & B); rewrite B; try rewrite A; apply G2.
  - intros Hc n. destruct (S n) as (-> & _). apply G3. intros Hin. apply Hc. rewrite Eb.
    apply in_or_app. now right.
Qed.

Lemma E_quiet c rc rc' s s' l : blog s' = l ++ blog s -> quiet_for c l ->
  c_counter rc' = c_counter rc -> c_bdone rc' = c_bdone rc -> c_mod rc' = c_mod rc ->
  E_facts c rc s -> E_facts c rc' s'.
Proof.
  intros Eb Hq F1 F2 F3 (E1 & E2 & E3 & E4 & E5 & E6). pose proof (quiet_counts c s s' l Eb Hq) as S.
  assert (S1 : forall n, nstart c n s' = nstart c n s) by (intros n; apply S).
  assert (S2 : forall n, ndone c n s' = ndone c n s) by (intros n; apply S).
  assert (S3 : forall n, ncb c n s' = ncb c n s) by (intros n; apply S).
  unfold E_facts. rewrite F1, F2, F3.
  repeat split; intros; rewrite ?S1, ?S2, ?S3; auto.
Qed.

Lemma TC_new_one cfg s c :
  wf_cfg cfg -> Inv cfg s -> PT s -> In (height s, c) (newq s) -> height s < HEIGHT_BOUND ->
  TC (new_one cfg s c).
Proof.
  intros Hcfg HI (Hst & HT) Hdue Hb.
  destruct (new_one_spec cfg s c HI Hdue) as (rc & Erc & En & Ee & Ht & _ & _ & _ & Hcase).
  destruct (inv_req _ _ HI) as (_ & _ & R3). destruct (R3 _ _ Erc) as (_ & _ & _ & B4).
  assert (Hbd : c_bdone rc = true) by (apply B4; now apply has_false).
  pose proof (counter_nonneg _ _ _ _ HI Erc) as H0.
  pose proof (created_in_blog _ _ _ _ HI Erc) as Hcr.
  destruct (HT c) as (HG & HE). specialize (HE rc Erc).
  assert (Hquiet : forall l rc', blog (new_one cfg s c) = l ++ blog s -> quiet_for c l ->
            (forall e, In e l -> ev_ctx e = Some c) ->
            (forall rcx, get c (ctxs (new_one cfg s c)) = Some rcx -> rcx = rc') ->
            c_counter rc' = c_counter rc -> c_bdone rc' = c_bdone rc -> c_mod rc' = c_mod rc ->
            TC (new_one cfg s c)).
  { intros l rc' Eb Hq Hl Hx F1 F2 F3 c'. destruct (eqb_spec c' c) as [->|Hn].
    - split; [eapply G_quiet; eauto|]. intros rcx Gx. rewrite (Hx rcx Gx). eapply E_quiet; eauto.
    - eapply (TC_other c' c s _ l Eb Hl Hn); [apply (t_ctxs _ _ _ Ht); exact Hn|apply HT]. }
  destruct (new_one_blog cfg s c rc Erc)
    as [(Hd & Eb)|[(Hd & Hr & n & Eb & Ex)|[(Hd & Hr & Eb & Ex)|(Hr & Eb & Ex)]]].
  - (* total reached: removed *)
    apply (Hquiet [EvCtxRemoved c] rc); try reflexivity; try exact Eb.
    + intros n. repeat split.
    + intros e [<-|[]]. reflexivity.
    + intros rcx Gx. destruct Hcase as [(_ & Ex & _)|[(Hx & _)|[(Hx & _)|(Hx & _)]]]; try congruence.
      unfold d5 in Hd. apply is_state_false in Hx. rewrite Hx in Hd. discriminate.
  - (* batch started *)
    intros c'. destruct (eqb_spec c' c) as [->|Hn].
    + assert (HE' : E_facts c (bump rc n) (new_one cfg s c)) by (eapply E_start; eauto).
      split.
      * eapply E_to_G; [| |exact HE']; [cbn; lia|]. rewrite Eb. now right.
      * intros rcx Gx. assert (rcx = bump rc n) by congruence. subst. exact HE'.
    + change (EvBatchStart c (c_counter rc + 1) (height s) n :: blog s)
        with ([EvBatchStart c (c_counter rc + 1) (height s) n] ++ blog s) in Eb.
      eapply (TC_other c' c s _ _ Eb); [|exact Hn|apply (t_ctxs _ _ _ Ht); exact Hn|apply HT].
      intros e [<-|[]]. reflexivity.
  - (* paused for insufficient funds *)
    apply (Hquiet (if c_mod rc =? 0 then [] else [EvCbState c]) (paused_ctx rc)); try reflexivity; try exact Eb.
    + intros k. destruct (c_mod rc =? 0); repeat split.
    + intros e Hin. destruct (c_mod rc =? 0); [destruct Hin|destruct Hin as [<-|[]]; reflexivity].
    + intros rcx Gx. congruence.
    + cbn. now rewrite Hbd.
  - (* not running: nothing happens *)
    apply (Hquiet [] rc); try reflexivity; try exact Eb.
    + intros k. repeat split.
    + intros e [].
    + intros rcx Gx. congruence.
Qed.

Lemma TC_init h0 t0 f : TC (init h0 t0 f).
Proof.
  assert (Eb : blog (init h0 t0 f) = []) by reflexivity.
  intros c. split; [|intros rc G; discriminate].
  unfold G_facts, nstart, ndone, ncb. rewrite Eb.
  split; [intros n; rewrite !count_nil; lia|]. split; [left; intros n; now rewrite !count_nil|].
  intros _ n. apply count_nil.
Qed.

Theorem Reach_PT cfg s : wf_cfg cfg -> Reach cfg s -> PT s.
Proof.
  intros Hcfg. apply (Reach_ind_inv cfg PT Hcfg).
  - intros h0 t0 f _ _ _. split; [intros c rc G; discriminate|apply TC_init].
  - intros s0 o s' HI HP Hwf Hne H. split; [eapply I_started_msg; eauto; apply HP|eapply TC_msg; eauto].
  - intros s0 c HI HP Hd Hb. split; [apply I_started_expire_one; auto; apply HP|now apply TC_expire_one].
  - intros s0 c HI HP Hd Hb. split; [apply I_started_new_one; auto; apply HP|now apply TC_new_one].
  - intros s0 dt _ HP _ _ _. exact HP.
Qed.

(* ------------------------------------------------------------------ *)
(* C12: callbacks *)

Lemma done_count_In c n l : 1 <= count (is_done c n) l <-> In (EvBatchDone c n) l.
Proof.
  rewrite count_pos_In. split.
  - intros (e & Hin & He). destruct e; cbn [is_done] in He; try discriminate.
    apply andb_prop in He. destruct He as [A B]. apply eqb_true in A. apply Z.eqb_eq in B. now subst.
  - intros Hin. exists (EvBatchDone c n). split; [exact Hin|]. cbn [is_done].
    now rewrite eqb_refl, Z.eqb_refl.
Qed.

Lemma cb_count_In c n l :
  1 <= count (is_cbresp c n) l <-> exists outs err, In (EvCbResp c n outs err) l.
Proof.
  rewrite count_pos_In. split.
  - intros (e & Hin & He). destruct e; cbn [is_cbresp] in He; try discriminate.
    apply andb_prop in He. destruct He as [A B]. apply eqb_true in A. apply Z.eqb_eq in B. subst. eauto.
  - intros (outs & err & Hin). exists (EvCbResp c n outs err). split; [exact Hin|]. cbn [is_cbresp].
    now rewrite eqb_refl, Z.eqb_refl.
Qed.

Lemma start_count_In c n l :
  1 <= count (is_start c n) l <-> exists h k, In (EvBatchStart c n h k) l.
Proof.
  rewrite count_pos_In. split.
  - intros (e & Hin & He). destruct e; cbn [is_start] in He; try discriminate.
    apply andb_prop in He. destruct He as [A B]. apply eqb_true in A. apply Z.eqb_eq in B. subst. eauto.
  - intros (h & k & Hin). exists (EvBatchStart c n h k). split; [exact Hin|]. cbn [is_start].
    now rewrite eqb_refl, Z.eqb_refl.
Qed.

(* in every reachable state, for every context id c (existing or removed) and batch n:
   at most one start, at most one completion and only of a started batch, at most one
   response callback and only at a completion; per context either every completion has its
   callback or none has; for an existing context the first holds iff it is a module context,
   batches 1..counter have been started, batches 1..counter-1 are completed, and the
   current one is completed iff the record says so *)
Theorem C12_callback_once cfg s : wf_cfg cfg -> Reach cfg s ->
  forall c,
    (forall n, 0 <= count (is_cbresp c n) (log s) <= count (is_done c n) (log s)
               /\ count (is_done c n) (log s) <= count (is_start c n) (log s)
               /\ count (is_start c n) (log s) <= 1)
    /\ ((forall n, count (is_cbresp c n) (log s) = count (is_done c n) (log s))
        \/ (forall n, count (is_cbresp c n) (log s) = 0))
    /\ (forall rc, get c (ctxs s) = Some rc ->
          (c_mod rc <> 0 -> forall n, count (is_cbresp c n) (log s) = count (is_done c n) (log s))
          /\ (c_mod rc = 0 -> forall n, count (is_cbresp c n) (log s) = 0)
          /\ (forall n, count (is_start c n) (log s)
                        = if (1 <=? n) && (n <=? c_counter rc) then 1 else 0)
          /\ (forall n, 1 <= n < c_counter rc -> count (is_done c n) (log s) = 1)
          /\ (1 <= c_counter rc ->
                count (is_done c (c_counter rc)) (log s) = if c_bdone rc then 1 else 0)).
Proof.
  intros Hcfg Hr c. destruct (Reach_PT cfg s Hcfg Hr) as (_ & HT). destruct (HT c) as ((G1 & G2 & _) & HE).
  assert (S1 : forall n, count (is_start c n) (log s) = nstart c n s)
    by (intros n; apply (count_blog c), about_start).
  assert (S2 : forall n, count (is_done c n) (log s) = ndone c n s)
    by (intros n; apply (count_blog c), about_done).
  assert (S3 : forall n, count (is_cbresp c n) (log s) = ncb c n s)
    by (intros n; apply (count_blog c), about_cbresp).
  split; [intros n; rewrite S1, S2, S3; apply G1|]. split.
  - destruct G2 as [G2|G2]; [left|right]; intros n; rewrite ?S2, S3; apply G2.
  - intros rc G. destruct (HE rc G) as (E1 & E2 & _ & E4 & E5 & E6).
    repeat split; intros; rewrite ?S1, ?S2, ?S3; auto.
Qed.

(* for a module context: a response callback for batch n is in the log iff the completion of
   batch n is, and then exactly once *)
Theorem C12_callback_iff_done cfg s c rc n : wf_cfg cfg -> Reach cfg s ->
  get c (ctxs s) = Some rc -> c_mod rc <> 0 ->
  ((exists outs err, In (EvCbResp c n outs err) (log s)) <-> In (EvBatchDone c n) (log s))
  /\ count (is_cbresp c n) (log s) <= 1.
Proof.
  intros Hcfg Hr G Hm. destruct (C12_callback_once cfg s Hcfg Hr c) as (A & _ & B).
  destruct (B rc G) as (B1 & _). specialize (B1 Hm n). destruct (A n) as (A1 & A2 & A3).
  split; [|lia]. rewrite <- cb_count_In, <- done_count_In. lia.
Qed.

Theorem C12_no_callback_nonmodule cfg s c rc : wf_cfg cfg -> Reach cfg s ->
  get c (ctxs s) = Some rc -> c_mod rc = 0 ->
  forall n outs err, ~ In (EvCbResp c n outs err) (log s).
Proof.
  intros Hcfg Hr G Hm n outs err Hin. destruct (C12_callback_once cfg s Hcfg Hr c) as (_ & _ & B).
  destruct (B rc G) as (_ & B2 & _). specialize (B2 Hm n).
  assert (1 <= count (is_cbresp c n) (log s)) by (apply cb_count_In; eauto). lia.
Qed.

(* the content of the callback, per handler.  At a response: exactly when it makes
   responses = requests; the outputs are the non-empty outputs of the batch's responses in
   request-id order INCLUDING the response just accepted; error flag <=> fewer outputs than
   the batch threshold.  (Stated on blog: the batch-level events of the step, newest first,
   in front of the old ones; done_events = [EvBatchDone] or [EvBatchDone; EvCbResp].) *)
Theorem C12_callback_respond cfg s r who code out ov ok s' :
  wf_cfg cfg -> Inv cfg s -> h_respond cfg s r who code out ov ok = Ok s' ->
  exists rc, get (rid_ctx r) (ctxs s) = Some rc /\
    blog s' =
    (if c_bresp rc + 1 =? c_breq rc
     then done_events (rid_ctx r) rc
            (batch_outputs (set_resps s (set r (mkResp who (c_cons rc) code out) (resps s)))
               (rid_ctx r) (c_counter rc))
     else []) ++ blog s.
Proof. exact (respond_blog cfg s r who code out ov ok s'). Qed.

(* at the expiry: exactly when the batch is not yet completed; the outputs are those of the
   responses stored at that moment *)
Theorem C12_callback_expire_one cfg s c rc :
  Inv cfg s -> get c (ctxs s) = Some rc ->
  blog (expire_one cfg s c)
  = (if fin_b rc then [EvCtxRemoved c] else [])
    ++ (if c_bdone rc then [] else done_events c rc (batch_outputs s c (c_counter rc)))
    ++ blog s.
Proof. exact (expire_one_blog cfg s c rc). Qed.

(* no other operation emits a completion or a response callback *)
Theorem C12_callback_msg_other cfg s o s' :
  wf_cfg cfg -> Inv cfg s -> wf_op s o -> (forall dt, o <> OEndBlock dt) ->
  handle cfg s o = Ok s' ->
  (forall r who code out ov ok, o <> ORespond r who code out ov ok) ->
  blog s' = blog s
  \/ exists c, blog s' = EvCtxCreated c :: blog s.
Proof.
  intros Hcfg HI Hwf Hne H Hnr.
  destruct o; try (left; exact (blog_msg_simple _ _ _ _ H I)); cbn [handle] in H.
  - unfold h_call in H. inv_ok H. apply create_context_spec in H.
    destruct H as (capv & _ & _ & _ & ->). right. exists c. unfold created. blog_tac.
  - apply create_context_spec in H.
    destruct H as (capv & _ & _ & _ & ->). right. exists c. unfold created. blog_tac.
  - exfalso. eapply Hnr. reflexivity.
  - apply h_pause_spec in H. destruct H as (rc & _ & _ & _ & _ & _ & ->). left. reflexivity.
  - apply h_start_spec in H. destruct H as (rc & _ & _ & _ & _ & ->). left.
    unfold started. destruct (negb _ && negb _); reflexivity.
  - apply h_kill_spec in H. destruct H as (rc & _ & _ & _ & _ & ->). left. reflexivity.
  - apply h_update_ctx_spec in H. destruct H as (rc & capo & _ & _ & _ & _ & _ & _ & _ & _ & _ & ->).
    left. reflexivity.
  - exfalso. eapply Hne. reflexivity.
  - left. mod_shape H; reflexivity.
  - left. mod_shape H; reflexivity.
  - left. mod_shape H; reflexivity.
  - left. mod_shape H; reflexivity.
Qed.

Theorem C12_callback_new_one cfg s c rc : get c (ctxs s) = Some rc ->
  (d5 rc = true /\ blog (new_one cfg s c) = EvCtxRemoved c :: blog s)
  \/ (d5 rc = false /\ c_state rc = Running /\ exists n,
        blog (new_one cfg s c) = EvBatchStart c (c_counter rc + 1) (height s) n :: blog s
        /\ get c (ctxs (new_one cfg s c)) = Some (bump rc n))
  \/ (d5 rc = false /\ c_state rc = Running
      /\ blog (new_one cfg s c) = (if c_mod rc =? 0 then [] else [EvCbState c]) ++ blog s
      /\ get c (ctxs (new_one cfg s c)) = Some (paused_ctx rc))
  \/ (c_state rc <> Running /\ blog (new_one cfg s c) = blog s
      /\ get c (ctxs (new_one cfg s c)) = Some rc).
Proof. exact (new_one_blog cfg s c rc). Qed.

(* ---- state callback ---- *)

Definition ncbstate (c : CtxId) (s : State) : Z := count (is_cbstate c) (log s).

Lemma ncbstate_blog c s : ncbstate c s = count (is_cbstate c) (blog s).
Proof. apply (count_blog c), about_cbstate. Qed.

Lemma count_cbstate_done c c0 rc outs : count (is_cbstate c) (done_events c0 rc outs) = 0.
Proof.
  unfold done_events. rewrite count_cons. cbn [is_cbstate].
  destruct (c_mod rc =? 0); rewrite ?count_cons, ?count_nil; cbn [is_cbstate]; lia.
Qed.

(* the state callback is emitted exactly when the new-batch handler pauses a running MODULE
   context for insufficient funds, once; by nothing else *)
Theorem C12_state_callback cfg :
  wf_cfg cfg ->
  (forall s o s' c, Inv cfg s -> wf_op s o -> (forall dt, o <> OEndBlock dt) ->
     handle cfg s o = Ok s' -> ncbstate c s' = ncbstate c s)
  /\ (forall s c0 c, Inv cfg s -> In (height s, c0) (expq s) -> height s < HEIGHT_BOUND ->
        ncbstate c (expire_one cfg s c0) = ncbstate c s)
  /\ (forall s c0 rc c, Inv cfg s -> In (height s, c0) (newq s) -> get c0 (ctxs s) = Some rc ->
        let s' := new_one cfg s c0 in
        let paused_now :=
          is_state rc Running
          && match get c0 (ctxs s') with Some rc' => is_state rc' Paused | None => false end in
        ncbstate c s' = ncbstate c s
                        + (if eqb c c0 && paused_now && negb (c_mod rc =? 0) then 1 else 0)).
Proof.
  intros Hcfg. split; [|split].
  - intros s o s' c HI Hwf Hne H. rewrite !ncbstate_blog.
    destruct o; try (rewrite (blog_msg_simple _ _ _ _ H I); reflexivity).
    + destruct (C12_callback_msg_other _ _ _ _ Hcfg HI Hwf Hne H) as [->|(c1 & ->)];
        [intros; discriminate|reflexivity|rewrite count_cons; cbn [is_cbstate]; lia].
    + destruct (C12_callback_msg_other _ _ _ _ Hcfg HI Hwf Hne H) as [->|(c1 & ->)];
        [intros; discriminate|reflexivity|rewrite count_cons; cbn [is_cbstate]; lia].
    + cbn [handle] in H. destruct (respond_blog _ _ _ _ _ _ _ _ _ Hcfg HI H) as (rc & _ & ->).
      rewrite count_app. destruct (_ =? _); [rewrite count_cbstate_done|rewrite count_nil]; lia.
    + destruct (C12_callback_msg_other _ _ _ _ Hcfg HI Hwf Hne H) as [->|(c1 & ->)];
        [intros; discriminate|reflexivity|rewrite count_cons; cbn [is_cbstate]; lia].
    + destruct (C12_callback_msg_other _ _ _ _ Hcfg HI Hwf Hne H) as [->|(c1 & ->)];
        [intros; discriminate|reflexivity|rewrite count_cons; cbn [is_cbstate]; lia].
    + destruct (C12_callback_msg_other _ _ _ _ Hcfg HI Hwf Hne H) as [->|(c1 & ->)];
        [intros; discriminate|reflexivity|rewrite count_cons; cbn [is_cbstate]; lia].
    + destruct (C12_callback_msg_other _ _ _ _ Hcfg HI Hwf Hne H) as [->|(c1 & ->)];
        [intros; discriminate|reflexivity|rewrite count_cons; cbn [is_cbstate]; lia].
    + exfalso. eapply Hne. reflexivity.
    + destruct (C12_callback_msg_other _ _ _ _ Hcfg HI Hwf Hne H) as [->|(c1 & ->)];
        [intros; discriminate|reflexivity|rewrite count_cons; cbn [is_cbstate]; lia].
    + destruct (C12_callback_msg_other _ _ _ _ Hcfg HI Hwf Hne H) as [->|(c1 & ->)];
        [intros; discriminate|reflexivity|rewrite count_cons; cbn [is_cbstate]; lia].
    + destruct (C12_callback_msg_other _ _ _ _ Hcfg HI Hwf Hne H) as [->|(c1 & ->)];
        [intros; discriminate|reflexivity|rewrite count_cons; cbn [is_cbstate]; lia].
    + destruct (C12_callback_msg_other _ _ _ _ Hcfg HI Hwf Hne H) as [->|(c1 & ->)];
        [intros; discriminate|reflexivity|rewrite count_cons; cbn [is_cbstate]; lia].
  - intros s c0 c HI Hdue Hb. rewrite !ncbstate_blog.
    destruct (due_ctx _ _ _ HI Hdue) as (rc & Grc & _).
    rewrite (expire_one_blog cfg s c0 rc HI Grc), !count_app.
    assert (A : count (is_cbstate c) (if fin_b rc then [EvCtxRemoved c0] else []) = 0)
      by (destruct (fin_b rc); reflexivity).
    assert (B : count (is_cbstate c)
                  (if c_bdone rc then [] else done_events c0 rc (batch_outputs s c0 (c_counter rc))) = 0)
      by (destruct (c_bdone rc); [reflexivity|apply count_cbstate_done]).
    lia.
  - intros s c0 rc c HI Hdue Grc s' paused_now. subst s' paused_now. rewrite !ncbstate_blog.
    destruct (new_one_spec cfg s c0 HI Hdue) as (rc0 & Erc0 & _ & _ & _ & _ & _ & _ & Hcase).
    assert (rc0 = rc) by congruence. subst rc0.
    destruct (new_one_blog cfg s c0 rc Grc)
      as [(Hd & ->)|[(Hd & Hr & n & -> & ->)|[(Hd & Hr & -> & ->)|(Hr & -> & ->)]]].
    + destruct Hcase as [(_ & -> & _)|[(Hx & _)|[(Hx & _)|(Hx & _)]]]; try congruence.
      * rewrite count_cons. cbn [is_cbstate]. rewrite andb_false_r, andb_false_r. cbn [andb]. lia.
      * unfold d5 in Hd. apply is_state_false in Hx. rewrite Hx in Hd. discriminate.
    + rewrite count_cons. cbn [is_cbstate].
      assert (E : is_state (bump rc n) Paused = false) by (apply is_state_false; cbn; congruence).
      rewrite E, andb_false_r, andb_false_r. cbn [andb]. lia.
    + apply is_state_true in Hr. rewrite Hr.
      assert (E : is_state (paused_ctx rc) Paused = true) by (apply is_state_true; reflexivity).
      rewrite E. cbn [andb]. rewrite andb_true_r, count_app.
      destruct (c_mod rc =? 0); cbn [negb]; rewrite ?andb_false_r, ?andb_true_r.
      * rewrite count_nil. lia.
      * rewrite count_cons, count_nil. cbn [is_cbstate]. destruct (eqb_spec c0 c) as [->|Hn]; [rewrite eqb_refl; lia|]. destruct (eqb_spec c c0); [congruence|lia].
    + apply is_state_false in Hr. rewrite Hr. cbn [andb]. rewrite andb_false_r. cbn [andb]. lia.
Qed.
