(* Trace theorems, part 1: event classifiers, counting, the per-request projection
   `tr r` of the log, log extensions, and the instrumented invariant T over
   (state, log) with its generic preservation lemmas.

   The log of a state is the log of the whole history, NEWEST FIRST.

   The invariant has two parts.
   TI : every EvIssue event of the log belongs to a context that was created, and
        while that context exists its batch counter is at least the batch of the
        request, its consumer is the consumer of the event, and it is in super
        mode exactly when the fee of the event is 0.
   Sh : for every request id r the sub-list of the log that mentions r
        (`tr r (log s)`) has one of six shapes, determined by the request record:
          no record          : []  or a closed shape
          active record q    : [EvIssue r (r_prov q) cons (r_fee q)]
          inactive record q  : a closed shape for (r_prov q, cons, r_fee q)
        closed shapes (newest first), tax = mul_trunc fee (p_tax cfg):
          [EvRespond r; EvEarn r prov (fee - tax); EvTax r tax; EvIssue r prov cons fee]
          [EvRespond r; EvRefund r cons fee; EvSlash r k amt; EvIssue r prov cons fee]
          [EvExpire r; EvIssue r prov cons 0]                    (super mode: fee 0)
          [EvExpire r; EvRefund r cons fee; EvSlash r k amt; EvIssue r prov cons fee]  (0 < fee)
   Fee 0 (super mode), read off expire_req / h_respond: a request answered in super
   mode still gets EvTax r 0 and EvEarn r prov 0 (or, malformed output, EvSlash and
   EvRefund r cons 0); only a time-out in super mode settles nothing. *)
From Coq Require Import List ZArith Bool Lia.
From SVC Require Import Base.AMap Base.Res Base.Dec Model.Types Model.Pricing
  Model.Handlers Model.EndBlock Model.Step Proofs.Inv Proofs.Lemmas Proofs.ReqLemmas.
Import ListNotations.
Open Scope Z_scope.

(* ------------------------------------------------------------------ *)
(* classifiers *)

Definition ev_rid (e : Event) : option ReqId :=
  match e with
  | EvIssue r _ _ _ | EvRespond r | EvEarn r _ _ | EvTax r _ | EvRefund r _ _
  | EvSlash r _ _ | EvExpire r => Some r
  | _ => None
  end.

(* the event mentions request r *)
Definition about (r : ReqId) (e : Event) : bool :=
  match ev_rid e with Some r' => eqb r' r | None => false end.

Definition is_issue (r : ReqId) (e : Event) : bool :=
  match e with EvIssue r' _ _ _ => eqb r' r | _ => false end.
Definition is_respond (r : ReqId) (e : Event) : bool :=
  match e with EvRespond r' => eqb r' r | _ => false end.
Definition is_earn (r : ReqId) (e : Event) : bool :=
  match e with EvEarn r' _ _ => eqb r' r | _ => false end.
Definition is_tax (r : ReqId) (e : Event) : bool :=
  match e with EvTax r' _ => eqb r' r | _ => false end.
Definition is_refund (r : ReqId) (e : Event) : bool :=
  match e with EvRefund r' _ _ => eqb r' r | _ => false end.
Definition is_slash (r : ReqId) (e : Event) : bool :=
  match e with EvSlash r' _ _ => eqb r' r | _ => false end.
Definition is_expire (r : ReqId) (e : Event) : bool :=
  match e with EvExpire r' => eqb r' r | _ => false end.

Definition count (p : Event -> bool) (l : list Event) : nat := length (filter p l).

Lemma count_nil p : count p [] = 0%nat.
Proof. reflexivity. Qed.

Lemma count_cons p e l : count p (e :: l) = ((if p e then 1 else 0) + count p l)%nat.
Proof. unfold count. cbn [filter]. destruct (p e); reflexivity. Qed.

Lemma count_app p l1 l2 : count p (l1 ++ l2) = (count p l1 + count p l2)%nat.
Proof. unfold count. now rewrite filter_app, app_length. Qed.

Lemma count_pos_In p l : (0 < count p l)%nat -> exists e, In e l /\ p e = true.
Proof.
  unfold count. destruct (filter p l) as [|e t] eqn:E; cbn [length]; [lia|].
  intros _. exists e. apply filter_In. rewrite E. now left.
Qed.

Lemma In_count_pos p l e : In e l -> p e = true -> (0 < count p l)%nat.
Proof.
  intros Hin Hp. assert (H : In e (filter p l)) by (apply filter_In; auto).
  unfold count. destruct (filter p l); [destruct H|cbn [length]; lia].
Qed.

(* the part of the log that mentions r *)
Definition tr (r : ReqId) (l : list Event) : list Event := filter (about r) l.

Lemma tr_nil r : tr r [] = [].
Proof. reflexivity. Qed.

Lemma tr_cons r e l : tr r (e :: l) = if about r e then e :: tr r l else tr r l.
Proof. reflexivity. Qed.

Lemma tr_app r l1 l2 : tr r (l1 ++ l2) = tr r l1 ++ tr r l2.
Proof. apply filter_app. Qed.

Lemma In_tr r e l : In e (tr r l) <-> In e l /\ about r e = true.
Proof. apply filter_In. Qed.

Lemma count_tr p r l :
  (forall e, p e = true -> about r e = true) -> count p (tr r l) = count p l.
Proof.
  intros Hp. induction l as [|e l IH]; [reflexivity|].
  rewrite tr_cons, (count_cons p e l). destruct (about r e) eqn:Ea.
  - rewrite count_cons. now rewrite IH.
  - rewrite IH. destruct (p e) eqn:Ep; [|reflexivity]. apply Hp in Ep. congruence.
Qed.

Lemma is_issue_about r e : is_issue r e = true -> about r e = true.
Proof. destruct e; cbn; congruence. Qed.
Lemma is_respond_about r e : is_respond r e = true -> about r e = true.
Proof. destruct e; cbn; congruence. Qed.
Lemma is_earn_about r e : is_earn r e = true -> about r e = true.
Proof. destruct e; cbn; congruence. Qed.
Lemma is_tax_about r e : is_tax r e = true -> about r e = true.
Proof. destruct e; cbn; congruence. Qed.
Lemma is_refund_about r e : is_refund r e = true -> about r e = true.
Proof. destruct e; cbn; congruence. Qed.
Lemma is_slash_about r e : is_slash r e = true -> about r e = true.
Proof. destruct e; cbn; congruence. Qed.
Lemma is_expire_about r e : is_expire r e = true -> about r e = true.
Proof. destruct e; cbn; congruence. Qed.

Lemma about_issue r r' p c f : about r (EvIssue r' p c f) = eqb r' r.
Proof. reflexivity. Qed.

Lemma In_issue_tr r p c f l : In (EvIssue r p c f) l <-> In (EvIssue r p c f) (tr r l).
Proof.
  rewrite In_tr. rewrite about_issue, eqb_refl. tauto.
Qed.

(* ------------------------------------------------------------------ *)
(* log extensions: l = d ++ l0 where every event of d satisfies P *)

Definition ext (P : Event -> Prop) (l0 l : list Event) : Prop :=
  exists d, l = d ++ l0 /\ Forall P d.

Lemma ext_refl (P : Event -> Prop) l : ext P l l.
Proof. exists []. split; [reflexivity|constructor]. Qed.

Lemma ext_cons (P : Event -> Prop) e l0 l : P e -> ext P l0 l -> ext P l0 (e :: l).
Proof. intros He (d & -> & Hd). exists (e :: d). split; [reflexivity|now constructor]. Qed.

Lemma ext_trans (P : Event -> Prop) l0 l1 l2 : ext P l0 l1 -> ext P l1 l2 -> ext P l0 l2.
Proof.
  intros (d1 & -> & H1) (d2 & -> & H2). exists (d2 ++ d1).
  split; [now rewrite app_assoc|]. apply Forall_app. auto.
Qed.

Lemma ext_weaken (P P' : Event -> Prop) l0 l : (forall e, P e -> P' e) -> ext P l0 l -> ext P' l0 l.
Proof. intros Hw (d & -> & Hd). exists d. split; [reflexivity|]. eapply Forall_impl; eauto. Qed.

Lemma ext_incl (P : Event -> Prop) l0 l : ext P l0 l -> incl l0 l.
Proof. intros (d & -> & _). now apply incl_appr, incl_refl. Qed.

Lemma ext_In (P : Event -> Prop) l0 l e : ext P l0 l -> In e l -> In e l0 \/ P e.
Proof.
  intros (d & -> & Hd) Hin. apply in_app_or in Hin. destruct Hin as [Hin|Hin]; [right|now left].
  rewrite Forall_forall in Hd. auto.
Qed.

(* quiet events mention no request; noissue events are not EvIssue *)
Definition quiet (e : Event) : Prop := ev_rid e = None.
Definition noissue (e : Event) : Prop := match e with EvIssue _ _ _ _ => False | _ => True end.

Lemma quiet_noissue e : quiet e -> noissue e.
Proof. destruct e; cbn; try discriminate; auto. Qed.

Lemma quiet_about r e : quiet e -> about r e = false.
Proof. unfold quiet, about. now intros ->. Qed.

Definition Q (s s' : State) : Prop := ext quiet (log s) (log s').
Definition NI (s s' : State) : Prop := ext noissue (log s) (log s').

Lemma Q_refl s : Q s s.
Proof. apply ext_refl. Qed.
Lemma Q_trans s1 s2 s3 : Q s1 s2 -> Q s2 s3 -> Q s1 s3.
Proof. apply ext_trans. Qed.
Lemma Q_same s s' : log s' = log s -> Q s s'.
Proof. unfold Q. intros ->. apply ext_refl. Qed.
Lemma NI_refl s : NI s s.
Proof. apply ext_refl. Qed.
Lemma NI_trans s1 s2 s3 : NI s1 s2 -> NI s2 s3 -> NI s1 s3.
Proof. apply ext_trans. Qed.
Lemma Q_NI s s' : Q s s' -> NI s s'.
Proof. apply ext_weaken, quiet_noissue. Qed.
Lemma NI_same s s' : log s' = log s -> NI s s'.
Proof. unfold NI. intros ->. apply ext_refl. Qed.

Lemma Q_tr s s' r : Q s s' -> tr r (log s') = tr r (log s).
Proof.
  intros (d & -> & Hd). rewrite tr_app.
  assert (E : tr r d = []).
  { induction Hd as [|e d He Hd IH]; [reflexivity|]. rewrite tr_cons, (quiet_about r e He). exact IH. }
  now rewrite E.
Qed.

Lemma Q_incl s s' : Q s s' -> incl (log s) (log s').
Proof. apply ext_incl. Qed.
Lemma NI_incl s s' : NI s s' -> incl (log s) (log s').
Proof. apply ext_incl. Qed.

Lemma NI_issue s s' r p c f : NI s s' -> In (EvIssue r p c f) (log s') -> In (EvIssue r p c f) (log s).
Proof. intros H Hin. destruct (ext_In _ _ _ _ H Hin) as [Hi|[]]. exact Hi. Qed.

(* proves  ext P (log s0) (log <explicit state term over s0>)  *)
Ltac ext_auto :=
  unfold Q, NI; sproj;
  repeat (match goal with |- ext _ _ (_ :: _) => apply ext_cons; [first [exact eq_refl | exact I | exact (conj eq_refl eq_refl)]|] end);
  first [apply ext_refl | assumption].

Lemma Q_emit e s : quiet e -> Q s (emit e s).
Proof. intros He. unfold Q. sproj. apply ext_cons; [assumption|apply ext_refl]. Qed.

Lemma Q_transfer a b amt s s1 : transfer a b amt s = Some s1 -> Q s s1.
Proof. intros E. rewrite (transfer_frame _ _ _ _ _ E). ext_auto. Qed.

Lemma Q_pay_deposit s k o amt s1 : pay_deposit s k o amt = Ok s1 -> Q s s1.
Proof.
  intros E. apply pay_deposit_inv in E. destruct E as (s0 & Et & ->).
  apply Q_transfer in Et. ext_auto.
Qed.

Lemma Q_deactivate s r : Q s (deactivate s r).
Proof. unfold deactivate. destruct (get r (reqs s)); ext_auto. Qed.

Lemma Q_callback s c : Q s (callback s c).
Proof. unfold callback. destruct (get c (ctxs s)); ext_auto. Qed.

Lemma Q_complete_batch s c rc : Q s (fst (complete_batch s c rc)).
Proof.
  unfold complete_batch. cbn [fst]. destruct (c_mod rc =? 0); [ext_auto|].
  pose proof (Q_callback s c) as H. ext_auto.
Qed.

Lemma Q_clean_batch s c n : Q s (clean_batch s c n).
Proof. unfold clean_batch. ext_auto. Qed.

Lemma Q_resp_finish sm c rc : Q sm (resp_finish sm c rc).
Proof.
  unfold resp_finish.
  destruct (c_bresp (setc_bresp rc (c_bresp rc + 1)) =? c_breq (setc_bresp rc (c_bresp rc + 1))).
  - pose proof (Q_complete_batch sm c (setc_bresp rc (c_bresp rc + 1))) as H. ext_auto.
  - ext_auto.
Qed.

Lemma log_resp_mid s1 r who rc0 code out : log (resp_mid s1 r who rc0 code out) = EvRespond r :: log s1.
Proof. unfold resp_mid, deactivate. sproj. destruct (get r (reqs s1)); reflexivity. Qed.

(* ------------------------------------------------------------------ *)
(* debits: calm events mention no request and are no debit; nodebit events are no debit *)

Definition is_debit (e : Event) : bool := match e with EvDebit _ _ _ => true | _ => false end.
Definition is_any_issue (e : Event) : bool := match e with EvIssue _ _ _ _ => true | _ => false end.
Definition calm (e : Event) : Prop := ev_rid e = None /\ is_debit e = false.
Definition nodebit (e : Event) : Prop := is_debit e = false.
(* neither a debit nor an issue *)
Definition plain (e : Event) : Prop := is_debit e = false /\ is_any_issue e = false.

Lemma calm_quiet e : calm e -> quiet e.
Proof. now intros (H & _). Qed.
Lemma calm_nodebit e : calm e -> nodebit e.
Proof. now intros (_ & H). Qed.
Lemma plain_nodebit e : plain e -> nodebit e.
Proof. now intros (H & _). Qed.

Definition Cm (s s' : State) : Prop := ext calm (log s) (log s').
Definition ND (s s' : State) : Prop := ext nodebit (log s) (log s').

Lemma Cm_refl s : Cm s s.
Proof. apply ext_refl. Qed.
Lemma Cm_trans s1 s2 s3 : Cm s1 s2 -> Cm s2 s3 -> Cm s1 s3.
Proof. apply ext_trans. Qed.
Lemma Cm_Q s s' : Cm s s' -> Q s s'.
Proof. apply ext_weaken, calm_quiet. Qed.
Lemma Cm_ND s s' : Cm s s' -> ND s s'.
Proof. apply ext_weaken, calm_nodebit. Qed.
Lemma ND_refl s : ND s s.
Proof. apply ext_refl. Qed.
Lemma ND_trans s1 s2 s3 : ND s1 s2 -> ND s2 s3 -> ND s1 s3.
Proof. apply ext_trans. Qed.
Lemma ND_same s s' : log s' = log s -> ND s s'.
Proof. unfold ND. intros ->. apply ext_refl. Qed.

Ltac cm_auto := unfold Cm, ND; ext_auto.

Lemma Cm_emit e s : calm e -> Cm s (emit e s).
Proof. intros He. unfold Cm. sproj. apply ext_cons; [assumption|apply ext_refl]. Qed.

Lemma Cm_transfer a b amt s s1 : transfer a b amt s = Some s1 -> Cm s s1.
Proof. intros E. rewrite (transfer_frame _ _ _ _ _ E). cm_auto. Qed.

Lemma Cm_pay_deposit s k o amt s1 : pay_deposit s k o amt = Ok s1 -> Cm s s1.
Proof.
  intros E. apply pay_deposit_inv in E. destruct E as (s0 & Et & ->).
  apply Cm_transfer in Et. cm_auto.
Qed.

Lemma Cm_callback s c : Cm s (callback s c).
Proof. unfold callback. destruct (get c (ctxs s)); cm_auto. Qed.

Lemma Cm_complete_batch s c rc : Cm s (fst (complete_batch s c rc)).
Proof.
  unfold complete_batch. cbn [fst]. destruct (c_mod rc =? 0); [cm_auto|].
  pose proof (Cm_callback s c) as H. cm_auto.
Qed.

Lemma Cm_clean_batch s c n : Cm s (clean_batch s c n).
Proof. unfold clean_batch. cm_auto. Qed.

Lemma Cm_resp_finish sm c rc : Cm sm (resp_finish sm c rc).
Proof.
  unfold resp_finish.
  destruct (c_bresp (setc_bresp rc (c_bresp rc + 1)) =? c_breq (setc_bresp rc (c_bresp rc + 1))).
  - pose proof (Cm_complete_batch sm c (setc_bresp rc (c_bresp rc + 1))) as H. cm_auto.
  - cm_auto.
Qed.

(* ------------------------------------------------------------------ *)
(* the invariant *)

Section Shapes.
Variable cfg : Params.

Definition closed (r : ReqId) (prov cons fee : Z) (l : list Event) : Prop :=
  l = [EvRespond r; EvEarn r prov (fee - mul_trunc fee (p_tax cfg)); EvTax r (mul_trunc fee (p_tax cfg));
       EvIssue r prov cons fee]
  \/ (exists k amt, l = [EvRespond r; EvRefund r cons fee; EvSlash r k amt; EvIssue r prov cons fee])
  \/ (fee = 0 /\ l = [EvExpire r; EvIssue r prov cons fee])
  \/ (0 < fee /\ exists k amt, l = [EvExpire r; EvRefund r cons fee; EvSlash r k amt; EvIssue r prov cons fee]).

Definition ShR (r : ReqId) (oq : option Req) (l : list Event) : Prop :=
  match oq with
  | Some q => exists cons,
      if r_active q then l = [EvIssue r (r_prov q) cons (r_fee q)]
      else closed r (r_prov q) cons (r_fee q) l
  | None => l = [] \/ exists prov cons fee, closed r prov cons fee l
  end.

Definition Sh (s : State) : Prop := forall r, ShR r (get r (reqs s)) (tr r (log s)).

Definition TI (s : State) : Prop :=
  forall r p cons f, In (EvIssue r p cons f) (log s) ->
    In (EvCtxCreated (rid_ctx r)) (log s)
    /\ forall rc, get (rid_ctx r) (ctxs s) = Some rc ->
         rid_batch r <= c_counter rc /\ c_cons rc = cons /\ (c_super rc = true <-> f = 0).

Definition T (s : State) : Prop := TI s /\ Sh s.

Lemma closed_issue r prov cons fee l : closed r prov cons fee l -> In (EvIssue r prov cons fee) l.
Proof.
  intros [->|[(k & amt & ->)|[(_ & ->)|(_ & k & amt & ->)]]]; cbn [In]; auto 6.
Qed.

(* ---- Sh: generic steps ---- *)

Lemma Sh_quiet s s' : Sh s -> reqs s' = reqs s -> Q s s' -> Sh s'.
Proof. intros H Er Hq r. rewrite Er, (Q_tr _ _ r Hq). apply H. Qed.

Lemma Sh_active s r q :
  Sh s -> get r (reqs s) = Some q -> r_active q = true ->
  exists cons, tr r (log s) = [EvIssue r (r_prov q) cons (r_fee q)].
Proof. intros H G Ha. specialize (H r). rewrite G in H. cbn [ShR] in H. now rewrite Ha in H. Qed.

(* a stored active request is closed *)
Lemma Sh_close s s' r q cons :
  Sh s -> get r (reqs s) = Some q ->
  reqs s' = set r (deact q) (reqs s) ->
  (forall r', r' <> r -> tr r' (log s') = tr r' (log s)) ->
  closed r (r_prov q) cons (r_fee q) (tr r (log s')) ->
  Sh s'.
Proof.
  intros H G Er Ho Hc r'. rewrite Er, get_set. destruct (eqb_spec r' r) as [->|Hne].
  - cbn [ShR deact setr_active r_active r_prov r_fee]. exists cons. exact Hc.
  - rewrite (Ho _ Hne). apply H.
Qed.

(* records of settled requests are deleted *)
Lemma Sh_clean s s' l :
  Sh s -> wf (reqs s) ->
  reqs s' = fold_left (fun m r => del r m) l (reqs s) -> Q s s' ->
  (forall r q, In r l -> get r (reqs s) = Some q -> r_active q = false) ->
  Sh s'.
Proof.
  intros H Hw Er Hq Hl r. rewrite Er, get_fold_del by assumption. rewrite (Q_tr _ _ r Hq).
  specialize (H r). destruct (mem r l) eqn:M; [|exact H].
  apply mem_In in M. destruct (get r (reqs s)) as [q|] eqn:G; [|exact H].
  cbn [ShR] in *. destruct H as (cons & H). rewrite (Hl r q M G) in H. right. eauto.
Qed.

(* a request is issued under a fresh id *)
Lemma Sh_issue s s' r q cons :
  Sh s -> tr r (log s) = [] -> r_active q = true ->
  reqs s' = set r q (reqs s) ->
  log s' = EvIssue r (r_prov q) cons (r_fee q) :: log s ->
  Sh s'.
Proof.
  intros H Hf Ha Er El r'. rewrite Er, El, get_set, tr_cons, about_issue.
  destruct (eqb_spec r' r) as [->|Hne].
  - rewrite eqb_refl, Hf. cbn [ShR]. rewrite Ha. eauto.
  - destruct (eqb_spec r r'); [congruence|]. apply H.
Qed.

(* ---- TI: generic steps ---- *)

Definition CtxMono (s s' : State) : Prop :=
  forall c rc', get c (ctxs s') = Some rc' ->
    ~ In (EvCtxCreated c) (log s)
    \/ exists rc, get c (ctxs s) = Some rc /\ c_counter rc <= c_counter rc'
         /\ c_cons rc' = c_cons rc /\ c_super rc' = c_super rc.

Lemma CtxMono_same s s' : ctxs s' = ctxs s -> CtxMono s s'.
Proof. intros E c rc' G. right. exists rc'. rewrite <- E. repeat split; auto; lia. Qed.

Lemma TI_step' s s' (N : ReqId -> Z -> Z -> Z -> Prop) :
  TI s -> incl (log s) (log s') ->
  (forall r p c f, In (EvIssue r p c f) (log s') -> In (EvIssue r p c f) (log s) \/ N r p c f) ->
  (forall r p c f, N r p c f ->
     In (EvCtxCreated (rid_ctx r)) (log s')
     /\ forall rc, get (rid_ctx r) (ctxs s') = Some rc ->
          rid_batch r <= c_counter rc /\ c_cons rc = c /\ (c_super rc = true <-> f = 0)) ->
  CtxMono s s' -> TI s'.
Proof.
  intros H Hincl Hnew HN Hm r p c f Hin.
  destruct (Hnew _ _ _ _ Hin) as [Hold|Hn]; [|exact (HN _ _ _ _ Hn)].
  destruct (H _ _ _ _ Hold) as (Hc & Hrc). split; [apply Hincl, Hc|].
  intros rc' G. destruct (Hm _ _ G) as [Hf|(rc & G0 & Hle & Ec & Es)]; [contradiction|].
  destruct (Hrc _ G0) as (A & B & C). rewrite Ec, Es. repeat split; try tauto; lia.
Qed.

Lemma TI_step s s' : TI s -> NI s s' -> CtxMono s s' -> TI s'.
Proof.
  intros H Hn Hm. apply (TI_step' s s' (fun _ _ _ _ => False)); auto.
  - now apply NI_incl.
  - intros r p c f Hin. left. eapply NI_issue; eauto.
  - intros ? ? ? ? [].
Qed.

(* ---- consequences ---- *)

(* the issue event of a stored active request, with the parties read from the state *)
Lemma T_active s r q rc :
  T s -> get r (reqs s) = Some q -> r_active q = true -> get (rid_ctx r) (ctxs s) = Some rc ->
  tr r (log s) = [EvIssue r (r_prov q) (c_cons rc) (r_fee q)]
  /\ (c_super rc = true <-> r_fee q = 0) /\ rid_batch r <= c_counter rc.
Proof.
  intros (Hti & Hsh) G Ha Grc. destruct (Sh_active _ _ _ Hsh G Ha) as (cons & E).
  assert (Hin : In (EvIssue r (r_prov q) cons (r_fee q)) (log s)).
  { apply In_issue_tr. rewrite E. now left. }
  destruct (Hti _ _ _ _ Hin) as (_ & Hrc). destruct (Hrc _ Grc) as (A & B & C).
  subst cons. auto.
Qed.

(* ids of a batch beyond the counter of an existing context were never used *)
Lemma T_fresh s r rc :
  T s -> get r (reqs s) = None -> get (rid_ctx r) (ctxs s) = Some rc -> c_counter rc < rid_batch r ->
  tr r (log s) = [].
Proof.
  intros (Hti & Hsh) G Grc Hlt. specialize (Hsh r). rewrite G in Hsh. cbn [ShR] in Hsh.
  destruct Hsh as [E|(prov & cons & fee & Hc)]; [exact E|].
  apply closed_issue in Hc. apply In_issue_tr in Hc.
  destruct (Hti _ _ _ _ Hc) as (_ & Hrc). destruct (Hrc _ Grc) as (A & _). lia.
Qed.

End Shapes.
