(* C13, conservation per owner over the whole history (audit C13 (d)3):
     sum of the EvEarn amounts of the providers owned by o
       = the owner's recorded earnings + sum of the amounts of the EvWithdraw events of o.
   "owned by o" is read off the final state: a provider's owner is written once (C15) and every
   provider that ever earned has one.  Instrumented invariant CO; one lemma per operation. *)
From Coq Require Import List ZArith Bool Lia.
From SVC Require Import Base.AMap Base.Res Base.Dec Model.Types Model.Pricing
  Model.Handlers Model.EndBlock Model.Step Proofs.Inv Proofs.Lemmas Proofs.ReqLemmas Proofs.PFrame
  Proofs.CtxOps Proofs.InvAll Proofs.InvEarn Proofs.StepSpecs_earn Proofs.TraceBase
  Proofs.TraceLemmas Proofs.TraceSettle.
Import ListNotations.
Open Scope Z_scope.

(* neither an earning nor a withdrawal *)
Definition noew (e : Event) : Prop :=
  match e with EvEarn _ _ _ | EvWithdraw _ _ _ => False | _ => True end.

Definition sumf (f : Event -> Z) (l : list Event) : Z := fold_right (fun e z => f e + z) 0 l.

Definition earn_for (s : State) (o : Z) (e : Event) : Z :=
  match e with EvEarn _ p a => owned_by s o p a | _ => 0 end.
Definition wd_for (o : Z) (e : Event) : Z :=
  match e with EvWithdraw o' _ amt => if o' =? o then amt else 0 | _ => 0 end.

Lemma sumf_app f l1 l2 : sumf f (l1 ++ l2) = sumf f l1 + sumf f l2.
Proof. induction l1 as [|e t IH]; cbn [app sumf fold_right]; [reflexivity|]. fold (sumf f (t ++ l2)) (sumf f t). lia. Qed.

Lemma sumf_ext f g l : (forall e, In e l -> f e = g e) -> sumf f l = sumf g l.
Proof.
  induction l as [|e t IH]; intros H; [reflexivity|]. cbn [sumf fold_right].
  fold (sumf f t) (sumf g t). rewrite (H e) by now left. rewrite IH; [reflexivity|]. intros; apply H; now right.
Qed.

Lemma sumf_noew s o d : Forall noew d -> sumf (earn_for s o) d = 0 /\ sumf (wd_for o) d = 0.
Proof.
  induction 1 as [|e t He _ IH]; [split; reflexivity|]. cbn [sumf fold_right].
  fold (sumf (earn_for s o) t) (sumf (wd_for o) t). destruct IH as (-> & ->).
  destruct e; cbn in He |- *; try contradiction; split; reflexivity.
Qed.

(* proves  ext noew (log s0) (log <explicit state term over s0>)  *)
Ltac ne_auto :=
  sproj; repeat (match goal with |- ext _ _ (_ :: _) => apply ext_cons; [exact I|] end);
  first [apply ext_refl | assumption].

Lemma ne_transfer a b amt s s1 : transfer a b amt s = Some s1 -> ext noew (log s) (log s1).
Proof. intros E. rewrite (transfer_frame _ _ _ _ _ E). ne_auto. Qed.

Lemma ne_pay_deposit s k o amt s1 : pay_deposit s k o amt = Ok s1 -> ext noew (log s) (log s1).
Proof.
  intros E. apply pay_deposit_inv in E. destruct E as (s0 & Et & ->).
  apply ne_transfer in Et. ne_auto.
Qed.

(* every message other than a response or a withdrawal *)
Lemma msg_noew cfg s o s' : handle cfg s o = Ok s' ->
  match o with ORespond _ _ _ _ _ _ | OWithdraw _ _ _ | OEndBlock _ => False | _ => True end ->
  ext noew (log s) (log s').
Proof.
  intros H Hk. destruct o; try contradiction; cbn [handle] in H.
  - unfold h_define in H. inv_ok H. destruct (get svc (defs s)); inv_ok H. subst. ne_auto.
  - unfold h_bind in H. inv_ok H. sproj.
    assert (Hw2 : ext noew (log s) (log a2)) by (eapply ne_pay_deposit; eauto).
    destruct (get prov (owner_of a2)); inv_ok H; subst; ne_auto.
  - unfold h_update in H. inv_ok H.
    assert (Hw3 : ext noew (log s) (log a3)).
    { destruct (coins_empty dep); inv_ok Ha3; [subst; apply ext_refl|]. eapply ne_pay_deposit; eauto. }
    destruct (negb (qos =? 0) || negb (coins_empty dep) || match pr with Some _ => true | None => false end);
      [|inv_ok H; now subst].
    destruct a1 as [[raw p]|]; inv_ok H; subst; ne_auto.
  - unfold h_disable in H. inv_ok H. subst. ne_auto.
  - unfold h_enable in H. inv_ok H. subst.
    assert (Hw3 : ext noew (log s) (log a2)).
    { destruct (coins_empty dep); inv_ok Ha2; [subst; apply ext_refl|]. eapply ne_pay_deposit; eauto. }
    ne_auto.
  - unfold h_refund_deposit in H. inv_ok H. subst.
    assert (Hw3 : ext noew (log s) (log a0)) by (eapply ne_transfer; eauto). ne_auto.
  - unfold h_set_withdraw in H. inv_ok H. subst. ne_auto.
  - unfold h_call in H. inv_ok H. apply create_context_spec in H.
    destruct H as (capv & _ & _ & _ & ->). unfold created. ne_auto.
  - apply create_context_spec in H.
    destruct H as (capv & _ & _ & _ & ->). unfold created. ne_auto.
  - apply h_pause_spec in H. destruct H as (rc0 & _ & _ & _ & _ & _ & ->). ne_auto.
  - apply h_start_spec in H. destruct H as (rc0 & _ & _ & _ & _ & ->). unfold started.
    destruct (negb (has c (expq_h s)) && negb (has c (newq_h s))); ne_auto.
  - apply h_kill_spec in H. destruct H as (rc0 & _ & _ & _ & _ & ->). ne_auto.
  - apply h_update_ctx_spec in H.
    destruct H as (rc0 & capo & _ & _ & _ & _ & _ & _ & _ & _ & _ & ->). ne_auto.
  - unfold h_transfer in H. inv_ok H. eapply ne_transfer; eauto.
  - mod_shape H; ne_auto.
  - mod_shape H; ne_auto.
  - mod_shape H; ne_auto.
  - mod_shape H; ne_auto.
Qed.

Lemma ne_callback s c : ext noew (log s) (log (callback s c)).
Proof. unfold callback. destruct (get c (ctxs s)); ne_auto. Qed.

Lemma ne_complete_batch s c rc : ext noew (log s) (log (fst (complete_batch s c rc))).
Proof.
  unfold complete_batch. cbn [fst]. destruct (c_mod rc =? 0); [ne_auto|].
  pose proof (ne_callback s c) as H. ne_auto.
Qed.

Lemma ne_resp_finish sm c rc : ext noew (log sm) (log (resp_finish sm c rc)).
Proof.
  unfold resp_finish.
  destruct (c_bresp (setc_bresp rc (c_bresp rc + 1)) =? c_breq (setc_bresp rc (c_bresp rc + 1))).
  - pose proof (ne_complete_batch sm c (setc_bresp rc (c_bresp rc + 1))) as H. ne_auto.
  - ne_auto.
Qed.

Lemma ne_slash cfg s r s1 : slash cfg s r = Ok s1 -> ext noew (log s) (log s1).
Proof.
  intros H. apply slash_shape in H.
  destruct H as (q & rc & b & amt & b2 & _ & _ & _ & _ & _ & _ & _ & _ & _ & _ & _ & ->). ne_auto.
Qed.

Lemma ne_refund s r cons fee s1 : refund_fee s r cons fee = Some s1 -> ext noew (log s) (log s1).
Proof. intros H. apply refund_shape in H. destruct H as (_ & _ & ->). ne_auto. Qed.

Lemma ne_expire_req cfg s r : ext noew (log s) (log (expire_req cfg s r)).
Proof.
  unfold expire_req.
  destruct (get r (reqs s)) as [q|]; [|apply ext_refl].
  destruct (get (rid_ctx r) (ctxs s)) as [rc|]; [|apply ext_refl].
  sproj. apply ext_cons; [exact I|]. rewrite log_deactivate.
  destruct (c_super rc); [apply ext_refl|].
  assert (Hsa : ext noew (log s) (log (match slash cfg s r with Ok x => x | _ => s end))).
  { destruct (slash cfg s r) eqn:Es; try apply ext_refl. eapply ne_slash; eauto. }
  destruct (refund_fee _ r (c_cons rc) (r_fee q)) eqn:Er; [|assumption].
  eapply ext_trans; [exact Hsa|]. eapply ne_refund; eauto.
Qed.

Lemma ne_expire_one cfg s c : ext noew (log s) (log (expire_one cfg s c)).
Proof.
  unfold expire_one. set (rc := ctx_or_zero s c).
  assert (Hp : ext noew (log s) (log (fst (if c_bdone rc then (s, rc)
             else complete_batch (fold_left (expire_req cfg) (active_rids s c (c_counter rc)) s) c rc)))).
  { destruct (c_bdone rc); cbn [fst]; [apply ext_refl|].
    eapply ext_trans; [|apply ne_complete_batch].
    generalize (active_rids s c (c_counter rc)). intros l. generalize s. clear.
    induction l as [|a l IH]; intros s; cbn [fold_left]; [apply ext_refl|].
    eapply ext_trans; [apply ne_expire_req|apply IH]. }
  destruct (if c_bdone rc then (s, rc) else _) as [s1 rc1]. cbn [fst] in Hp.
  eapply ext_trans; [exact Hp|]. unfold clean_batch.
  destruct (c_state rc1); [destruct (c_rep rc1 && _)| |]; ne_auto.
Qed.

Lemma ne_issue_all s c rc n i provs : ext noew (log s) (log (issue_all s c rc n i provs)).
Proof.
  revert s i. induction provs as [|p t IH]; intros s i; cbn [issue_all]; [apply ext_refl|].
  eapply ext_trans; [|apply IH]. unfold issue_one. ne_auto.
Qed.

Lemma ne_new_one cfg s c : ext noew (log s) (log (new_one cfg s c)).
Proof.
  unfold new_one. set (rc := ctx_or_zero s c).
  destruct (is_state rc Running && c_rep rc && (0 <? c_total rc) && (c_total rc <=? c_counter rc)); [ne_auto|].
  destruct (is_state rc Running); [|ne_auto].
  set (el := filter_providers s rc (c_provs rc)).
  assert (Hinit : forall sp, ext noew (log s) (log sp) ->
            ext noew (log s) (log (del_newq (add_expq (initiate_requests sp c (map fst el)) c
                                                (height s + c_timeout rc)) c (height s)))).
  { intros sp Hsp. unfold initiate_requests.
    pose proof (ne_issue_all sp c (ctx_or_zero sp c) (c_counter (ctx_or_zero sp c) + 1) 0 (map fst el)) as Hi.
    eapply ext_trans; [exact Hsp|]. ne_auto. }
  destruct ((0 <? len el) && (c_thr rc <=? len el)); [|unfold skip_batch; ne_auto].
  destruct (c_super rc); [apply Hinit, ext_refl|].
  destruct (transfer (User (c_cons rc)) Escrow (sum_prices el) s) as [x|] eqn:Et.
  - apply Hinit. apply ne_transfer in Et. ne_auto.
  - unfold on_paused. destruct (c_mod rc =? 0); ne_auto.
Qed.

(* ------------------------------------------------------------------ *)
(* the invariant *)

Definition CO (s : State) : Prop :=
  (forall r p a, In (EvEarn r p a) (log s) -> exists o, get p (owner_of s) = Some o)
  /\ (forall o, sumf (earn_for s o) (log s) = get0 o (own_earned s) + sumf (wd_for o) (log s)).

(* owners already known are kept *)
Definition owners_kept (s s' : State) : Prop :=
  forall p o, get p (owner_of s) = Some o -> get p (owner_of s') = Some o.

Lemma earn_for_stable s s' o l :
  owners_kept s s' -> (forall r p a, In (EvEarn r p a) l -> exists o', get p (owner_of s) = Some o') ->
  sumf (earn_for s' o) l = sumf (earn_for s o) l.
Proof.
  intros Hk Hl. apply sumf_ext. intros e Hin. destruct e; try reflexivity. cbn [earn_for]. unfold owned_by.
  destruct (Hl _ _ _ Hin) as (o' & G). now rewrite G, (Hk _ _ G).
Qed.

Lemma CO_noew s s' : CO s -> ext noew (log s) (log s') -> own_earned s' = own_earned s ->
  owners_kept s s' -> CO s'.
Proof.
  intros (C1 & C2) (d & E & Hd) Eo Hk. split.
  - intros r p a Hin. rewrite E in Hin. apply in_app_or in Hin. destruct Hin as [Hin|Hin].
    + exfalso. rewrite Forall_forall in Hd. exact (Hd _ Hin).
    + destruct (C1 _ _ _ Hin) as (o & G). exists o. now apply Hk.
  - intros o. rewrite E, !sumf_app. destruct (sumf_noew s' o d Hd) as (-> & ->).
    rewrite (earn_for_stable s s' o (log s) Hk C1), Eo. cbn. apply C2.
Qed.

Lemma step_owners_kept cfg s o : owners_kept s (fst (step cfg s o)).
Proof. intros p ow G. now apply C15_owner_write_once. Qed.

Lemma CO_msg cfg s o s' :
  wf_cfg cfg -> Inv cfg s -> CO s -> wf_op s o -> (forall dt, o <> OEndBlock dt) ->
  handle cfg s o = Ok s' -> CO s'.
Proof.
  intros Hcfg HI HC Hwf Hne H.
  assert (Hk : owners_kept s s').
  { pose proof (step_owners_kept cfg s o) as K. unfold step in K. now rewrite H in K. }
  assert (Hother : match o with ORespond _ _ _ _ _ _ | OWithdraw _ _ _ | OEndBlock _ => False | _ => True end ->
                   earn_op o = false -> CO s').
  { intros Hm He. apply (CO_noew s s' HC (msg_noew _ _ _ _ H Hm)); [|exact Hk].
    apply (eframe_msg _ _ _ _ H He). }
  destruct o; try (apply Hother; [exact I|reflexivity]).
  - (* respond *)
    cbn [handle] in H. pose proof H as H0. apply respond_inv in H0.
    destruct H0 as (q & rc0 & s1 & rc & _ & Hq & Hrc0 & Hwho & Hact & Hset & Hrc & Es').
    destruct (C13_respond _ _ _ _ _ _ _ _ _ Hcfg HI H) as (q' & Gq' & _ & _ & Eow & Hcase).
    assert (q' = q) by congruence. subst q'.
    set (sm := resp_mid s1 r who rc0 code out) in *.
    destruct (ne_resp_finish sm (rid_ctx r) rc) as (d1 & E1 & Hd1).
    pose proof (log_resp_mid s1 r who rc0 code out) as Lm. fold sm in Lm.
    destruct HC as (C1 & C2).
    destruct Hset as [[Hbad (sa & Es & Er)]|[Hgood Ea]].
    + (* malformed: slash and refund, earnings unchanged *)
      assert (Hs1 : ext noew (log s) (log s1)) by (eapply ext_trans; [eapply ne_slash; eauto|eapply ne_refund; eauto]).
      destruct Hcase as [(_ & Hef)|(Hx & _)]; [|congruence].
      apply (CO_noew s s' (conj C1 C2)); [|apply Hef|exact Hk].
      subst s'. eapply ext_trans; [|exists d1; split; [exact E1|exact Hd1]].
      rewrite Lm. apply ext_cons; [exact I|exact Hs1].
    + (* valid: one EvEarn for the provider, its owner's record grows by the same amount *)
      destruct Hcase as [(Hx & _)|(_ & He0 & ow & Gow & _ & Hoe)]; [congruence|].
      apply add_earned_shape in Ea. destruct Ea as (ow' & s0 & Et & _ & Gow' & Es1). cbv zeta in Es1.
      set (e := r_fee q - mul_trunc (r_fee q) (p_tax cfg)) in *.
      assert (El : log s' = d1 ++ [EvRespond r; EvEarn r (r_prov q) e; EvTax r (mul_trunc (r_fee q) (p_tax cfg))] ++ log s).
      { subst s'. rewrite E1, Lm, Es1. reflexivity. }
      split.
      * intros r' p a Hin. rewrite El in Hin. apply in_app_or in Hin. destruct Hin as [Hin|Hin].
        { exfalso. rewrite Forall_forall in Hd1. exact (Hd1 _ Hin). }
        cbn [app In] in Hin. destruct Hin as [E|[E|[E|Hin]]]; try discriminate E.
        -- injection E as _ <- _. exists ow. apply Hk. congruence.
        -- destruct (C1 _ _ _ Hin) as (o' & G). exists o'. now apply Hk.
      * intros o. rewrite El, !sumf_app. destruct (sumf_noew s' o d1 Hd1) as (-> & ->).
        rewrite (earn_for_stable s s' o (log s) Hk C1). cbn [sumf fold_right earn_for wd_for].
        fold (sumf (earn_for s o) (log s)) (sumf (wd_for o) (log s)).
        unfold owned_by. rewrite Eow. subst who. rewrite Gow, (Hoe o), C2.
        rewrite (Z.eqb_sym ow o). unfold eqb; cbn [EqDec_Z]. destruct (o =? ow); lia.
  - (* withdraw *)
    cbn [handle] in H.
    assert (Hok : ok = true) by (unfold h_withdraw in H; inv_ok H; assumption). subst ok.
    destruct HC as (C1 & C2).
    assert (Hspec : exists dest amt, log s' = EvWithdraw owner dest amt :: log s
                      /\ get0 owner (own_earned s') = get0 owner (own_earned s) - amt
                      /\ (forall o, o <> owner -> get o (own_earned s') = get o (own_earned s))).
    { destruct (Z.eq_dec prov 0) as [->|Hp].
      - destruct (C13_withdraw_owner cfg s owner s' HI H) as (_ & _ & _ & _ & A5 & A6 & _ & _ & A9 & _).
        eexists _, _. split; [exact A9|]. split; [rewrite A5; lia|exact A6].
      - destruct (C13_withdraw_provider cfg s owner prov s' HI Hp H) as (_ & _ & _ & _ & _ & _ & A7 & A8 & A9 & _).
        eexists _, _. split; [exact A9|]. split; [exact A7|exact A8]. }
    destruct Hspec as (dest & amt & El & Eown & Eoth).
    split.
    + intros r p a Hin. rewrite El in Hin. destruct Hin as [E|Hin]; [discriminate E|].
      destruct (C1 _ _ _ Hin) as (o' & G). exists o'. now apply Hk.
    + intros o. rewrite El. cbn [sumf fold_right earn_for wd_for].
      fold (sumf (earn_for s' o) (log s)) (sumf (wd_for o) (log s)).
      rewrite (earn_for_stable s s' o (log s) Hk C1), C2.
      destruct (Z.eqb_spec owner o) as [->|Hne'].
      * rewrite Eown. lia.
      * unfold get0. rewrite (Eoth o) by congruence. lia.
  - exfalso. eapply Hne. reflexivity.
Qed.

Lemma CO_expire_one cfg s c :
  wf_cfg cfg -> Inv cfg s -> CO s -> In (height s, c) (expq s) -> height s < HEIGHT_BOUND ->
  CO (expire_one cfg s c).
Proof.
  intros _ _ HC _ _. destruct (ff_expire_one cfg s c) as [[_ F2 _ _ _ _ _] [_ G2]].
  apply (CO_noew s _ HC (ne_expire_one cfg s c) G2). intros p o G. now rewrite F2.
Qed.

Lemma CO_new_one cfg s c :
  wf_cfg cfg -> Inv cfg s -> CO s -> In (height s, c) (newq s) -> height s < HEIGHT_BOUND ->
  CO (new_one cfg s c).
Proof.
  intros _ _ HC _ _. destruct (ff_new_one cfg s c) as [[_ F2 _ _ _ _ _] [_ G2]].
  apply (CO_noew s _ HC (ne_new_one cfg s c) G2). intros p o G. now rewrite F2.
Qed.

Theorem Reach_CO cfg s : wf_cfg cfg -> Reach cfg s -> CO s.
Proof.
  intros Hcfg. apply (Reach_ind_inv cfg CO Hcfg).
  - intros h0 t0 f _ _ _. split; [intros r p a []|intros o; reflexivity].
  - intros s0 o s' HI HP Hwf Hne H. eapply CO_msg; eauto.
  - intros s0 c HI HP Hd Hb. now apply CO_expire_one.
  - intros s0 c HI HP Hd Hb. now apply CO_new_one.
  - intros s0 dt _ HP _ _ _. exact HP.
Qed.

(* C13_conservation_owner *)
Theorem conservation_owner cfg s o : wf_cfg cfg -> Reach cfg s ->
  sumf (earn_for s o) (log s) = get0 o (own_earned s) + sumf (wd_for o) (log s)
  /\ (forall r p a, In (EvEarn r p a) (log s) -> exists ow, get p (owner_of s) = Some ow).
Proof. intros Hcfg Hr. destruct (Reach_CO cfg s Hcfg Hr) as (C1 & C2). split; [apply C2|exact C1]. Qed.

Example conservation_owner_ex :
  sumf (earn_for ex_s 42) (log ex_s) = 190 /\ get0 42 (own_earned ex_s) = 190
  /\ sumf (wd_for 42) (log ex_s) = 0.
Proof. vm_compute. repeat split. Qed.
