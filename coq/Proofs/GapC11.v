(* C11, history level: "so it is certain to be processed again" and "so every pending request
   is eventually answered or expired and refunded".

   - the log only grows, heights grow exactly by the number of EndBlocks (log_run_ext, height_run);
   - a stored request keeps its expiry height until the EndBlock of that height removes it, and its
     id is never reused (req_run);
   - C11_eventually: once the chain is past the expiry height of a stored request, the record is
     gone and the events that mention it form one of the four closed traces of C02 (answered and
     paid, answered malformed and refunded, expired with nothing to refund, expired slashed and
     refunded) -- for the provider, consumer and fee of the stored record;
   - time alone suffices (time_closes): EndBlocks are always accepted;
   - a queue entry (h, c) is neither moved nor dropped before the EndBlock of height h, and that
     EndBlock runs the handler of c on it (exp_entry_processed, new_entry_processed). *)
From Coq Require Import List ZArith Bool Lia.
From SVC Require Import Base.AMap Base.Res Base.Dec Model.Types Model.Pricing
  Model.Handlers Model.EndBlock Model.Step Proofs.Inv Proofs.Lemmas Proofs.ReqLemmas Proofs.CtxOps
  Proofs.InvCtx Proofs.InvSched Proofs.InvAll Proofs.ReachProps Proofs.ReachRun
  Proofs.StepSpecs_window Proofs.StepSpecs_batch Proofs.StepSpecs_batch_block
  Proofs.TraceLemmas Proofs.TraceSettle Proofs.TraceMoney Proofs.C10Proofs.
Import ListNotations.
Open Scope Z_scope.

(* ------------------------------------------------------------------ *)
(* runs *)

Lemma run_cons cfg s o t : run cfg s (o :: t) = run cfg (fst (step cfg s o)) t.
Proof. reflexivity. Qed.

Lemma run_app cfg s l1 l2 : run cfg s (l1 ++ l2) = run cfg (run cfg s l1) l2.
Proof. unfold run. apply fold_left_app. Qed.

Lemma wf_run_app cfg s l1 l2 : wf_run cfg s (l1 ++ l2) <-> wf_run cfg s l1 /\ wf_run cfg (run cfg s l1) l2.
Proof.
  revert s. induction l1 as [|o t IH]; intros s; cbn [app wf_run].
  - change (run cfg s []) with s. tauto.
  - rewrite IH, run_cons. tauto.
Qed.

(* the log only grows *)
Lemma log_step_ext cfg s o : I_wd s -> exists d, log (fst (step cfg s o)) = d ++ log s.
Proof.
  intros Hwd. unfold step. destruct (handle cfg s o) as [s'| |] eqn:E; cbn [fst];
    try (exists []; reflexivity).
  destruct (match o with OTransfer _ _ _ => true | _ => false end) eqn:K.
  - destruct o; try discriminate. destruct (transfer_moves _ _ _ _ _ _ E) as (Hl & _).
    exists []. exact Hl.
  - destruct (only_events_move_money cfg s o s' Hwd E) as (d & Hd & _).
    + intros f t a ->. discriminate K.
    + exists d. exact Hd.
Qed.

Lemma log_run_ext cfg ops : forall s, wf_cfg cfg -> Reach cfg s -> wf_run cfg s ops ->
  exists d, log (run cfg s ops) = d ++ log s.
Proof.
  induction ops as [|o t IH]; intros s Hcfg Hr Hw.
  - exists []. reflexivity.
  - destruct Hw as (Ho & Ht). rewrite run_cons.
    destruct (log_step_ext cfg s o (inv_wd _ _ (Reach_Inv cfg s Hcfg Hr))) as (d1 & E1).
    destruct (IH (fst (step cfg s o)) Hcfg (Reach_step cfg s o Hr Ho) Ht) as (d2 & E2).
    exists (d2 ++ d1). rewrite E2, E1. apply app_assoc.
Qed.

(* heights: a message keeps the height, an EndBlock adds one *)
Definition is_end_block (o : Op) : bool := match o with OEndBlock _ => true | _ => false end.

Fixpoint blocks (ops : list Op) : Z :=
  match ops with [] => 0 | o :: t => (if is_end_block o then 1 else 0) + blocks t end.

Lemma blocks_nonneg ops : 0 <= blocks ops.
Proof. induction ops as [|o t IH]; cbn [blocks]; [lia|]. destruct (is_end_block o); lia. Qed.

Lemma blocks_app l1 l2 : blocks (l1 ++ l2) = blocks l1 + blocks l2.
Proof. induction l1 as [|o t IH]; cbn [app blocks]; [lia|]. rewrite IH. lia. Qed.

Lemma height_end_block cfg s dt : wf_cfg cfg -> Inv cfg s -> height s < HEIGHT_BOUND ->
  height (end_block cfg s dt) = height s + 1.
Proof.
  intros Hcfg Hi Hb. unfold end_block, end_blocker.
  set (l1 := due (expq s) (height s)).
  assert (Hn1 : NoDup l1) by (apply NoDup_due; apply (inv_wf _ _ Hi)).
  assert (Hl1 : forall c, In c l1 -> In (height s, c) (expq s)) by (intros c; apply In_due).
  destruct (fold_expire_phase cfg l1 s Hcfg Hi Hb Hn1 Hl1) as (I1 & H1 & _).
  set (s1 := fold_left (expire_one cfg) l1 s) in *.
  set (l2 := due (newq s1) (height s1)).
  assert (Hn2 : NoDup l2) by (apply NoDup_due; apply (inv_wf _ _ I1)).
  assert (Hl2 : forall c, In c l2 -> In (height s1, c) (newq s1)) by (intros c; apply In_due).
  assert (Hb1 : height s1 < HEIGHT_BOUND) by now rewrite H1.
  destruct (fold_new_phase cfg l2 s1 Hcfg I1 Hb1 Hn2 Hl2) as (_ & H2 & _).
  sproj. lia.
Qed.

Lemma height_step cfg s o : wf_cfg cfg -> Inv cfg s -> wf_op s o ->
  height (fst (step cfg s o)) = height s + (if is_end_block o then 1 else 0).
Proof.
  intros Hcfg Hi Ho. destruct (is_end_block o) eqn:K.
  - destruct o; try discriminate. unfold step. cbn [handle fst]. cbn [wf_op] in Ho.
    apply height_end_block; tauto.
  - unfold step. destruct (handle cfg s o) as [s'| |] eqn:E; cbn [fst]; try lia.
    destruct (msg_height_time cfg s o s') as [-> _]; [intros dt ->; discriminate K|exact E|lia].
Qed.

Lemma height_run cfg ops : forall s, wf_cfg cfg -> Reach cfg s -> wf_run cfg s ops ->
  height (run cfg s ops) = height s + blocks ops.
Proof.
  induction ops as [|o t IH]; intros s Hcfg Hr Hw.
  - cbn [blocks]. change (run cfg s []) with s. lia.
  - destruct Hw as (Ho & Ht). rewrite run_cons, IH by (try apply Reach_step; assumption).
    rewrite (height_step cfg s o Hcfg (Reach_Inv cfg s Hcfg Hr) Ho). cbn [blocks]. lia.
Qed.

Lemma height_run_mono cfg ops s : wf_cfg cfg -> Reach cfg s -> wf_run cfg s ops ->
  height s <= height (run cfg s ops).
Proof. intros. rewrite height_run by assumption. pose proof (blocks_nonneg ops). lia. Qed.

(* ------------------------------------------------------------------ *)
(* one request along a history *)

Definition same_req (q' q : Req) : Prop :=
  r_exp q' = r_exp q /\ r_prov q' = r_prov q /\ r_fee q' = r_fee q
  /\ (r_active q' = true -> r_active q = true).

Lemma same_req_refl q : same_req q q.
Proof. unfold same_req. auto. Qed.

Lemma same_req_trans q1 q2 q3 : same_req q1 q2 -> same_req q2 q3 -> same_req q1 q3.
Proof. unfold same_req. intros (A1 & A2 & A3 & A4) (B1 & B2 & B3 & B4). repeat split; try congruence. auto. Qed.

(* one operation: the record stays (same provider, fee, expiry height; it can only be
   deactivated), unless the operation is the EndBlock of its expiry height, which removes it *)
Lemma req_step cfg s o r q : wf_cfg cfg -> Reach cfg s -> wf_op s o -> get r (reqs s) = Some q ->
  (exists q', get r (reqs (fst (step cfg s o))) = Some q' /\ same_req q' q)
  \/ (get r (reqs (fst (step cfg s o))) = None /\ r_exp q = height s /\ exists dt, o = OEndBlock dt).
Proof.
  intros Hcfg Hr Ho G. pose proof (Reach_Inv cfg s Hcfg Hr) as Hi.
  unfold step. destruct (handle cfg s o) as [s'| |] eqn:E; cbn [fst];
    try (left; exists q; split; [exact G|apply same_req_refl]).
  destruct (is_end_block o) eqn:K.
  - destruct o; try discriminate. cbn [handle] in E. injection E as <-. cbn [wf_op] in Ho.
    destruct Ho as (_ & Hb).
    destruct (C08_window_inv cfg s r q Hi G) as (Hle & _).
    destruct (Z.eq_dec (r_exp q) (height s)) as [He|Hne].
    + right. destruct (C08_end_block_expires cfg s dt r q Hcfg Hi Hb G He) as (A & _).
      split; [exact A|]. split; [exact He|]. now exists dt.
    + left. destruct (C08_end_block_keeps cfg s dt r q Hcfg Hi Hb G) as (A & _); [lia|].
      exists q. split; [exact A|apply same_req_refl].
  - left. destruct (C08_msg_keeps_requests cfg s o s' r q E) as (q' & G' & A1 & A2 & A3 & A4 & _);
      [intros dt ->; discriminate K|exact G|].
    exists q'. split; [exact G'|]. unfold same_req. auto.
Qed.

(* a request id whose issue height is in the past is never (re)created *)
Lemma absent_step cfg s o r : wf_cfg cfg -> Reach cfg s -> wf_op s o ->
  get r (reqs s) = None -> rid_height r < height s -> get r (reqs (fst (step cfg s o))) = None.
Proof.
  intros Hcfg Hr Ho G Hlt. pose proof (Reach_Inv cfg s Hcfg Hr) as Hi.
  unfold step. destruct (handle cfg s o) as [s'| |] eqn:E; cbn [fst]; try exact G.
  destruct (is_end_block o) eqn:K.
  - destruct o; try discriminate. cbn [handle] in E. injection E as <-. cbn [wf_op] in Ho.
    destruct Ho as (_ & Hb).
    destruct (get r (reqs (end_block cfg s dt))) as [q|] eqn:G'; [exfalso|reflexivity].
    destruct (C06_end_block cfg s dt r q Hcfg Hi Hb G G') as (rc & k & p & price & _ & _ & _ & Er & _).
    rewrite Er in Hlt. unfold rid_height in Hlt. cbn [fst snd] in Hlt. lia.
  - apply (C08_msg_no_new_requests cfg s o s' r E); [intros dt ->; discriminate K|exact G].
Qed.

Lemma absent_run cfg ops : forall s r, wf_cfg cfg -> Reach cfg s -> wf_run cfg s ops ->
  get r (reqs s) = None -> rid_height r < height s -> get r (reqs (run cfg s ops)) = None.
Proof.
  induction ops as [|o t IH]; intros s r Hcfg Hr Hw G Hlt; [exact G|].
  destruct Hw as (Ho & Ht). rewrite run_cons. apply IH; try assumption.
  - now apply Reach_step.
  - now apply absent_step.
  - rewrite (height_step cfg s o Hcfg (Reach_Inv cfg s Hcfg Hr) Ho). destruct (is_end_block o); lia.
Qed.

(* a whole history: the record is still there with the same expiry height, or it is gone for
   good and the chain is past that height *)
Lemma req_run cfg ops : forall s r q, wf_cfg cfg -> Reach cfg s -> wf_run cfg s ops ->
  get r (reqs s) = Some q ->
  (exists q', get r (reqs (run cfg s ops)) = Some q' /\ same_req q' q)
  \/ (get r (reqs (run cfg s ops)) = None /\ r_exp q < height (run cfg s ops)).
Proof.
  induction ops as [|o t IH]; intros s r q Hcfg Hr Hw G.
  - left. exists q. split; [exact G|apply same_req_refl].
  - destruct Hw as (Ho & Ht). rewrite run_cons.
    pose proof (Reach_step cfg s o Hr Ho) as Hr1.
    pose proof (Reach_Inv cfg s Hcfg Hr) as Hi.
    destruct (req_step cfg s o r q Hcfg Hr Ho G) as [(q1 & G1 & S1)|(G1 & He & dt & ->)].
    + destruct (IH _ r q1 Hcfg Hr1 Ht G1) as [(q' & G' & S')|(G' & Hlt)].
      * left. exists q'. split; [exact G'|eapply same_req_trans; eauto].
      * right. split; [exact G'|]. destruct S1 as (E1 & _). lia.
    + right. destruct (C08_window_inv cfg s r q Hi G) as (_ & Hh & _).
      pose proof (height_step cfg s (OEndBlock dt) Hcfg Hi Ho) as Eh. cbn [is_end_block] in Eh.
      split.
      * apply absent_run; try assumption. lia.
      * pose proof (height_run_mono cfg t _ Hcfg Hr1 Ht). lia.
Qed.

(* the stored record determines the issue event; a closed trace mentions no other issue *)
Lemma closed_params cfg r prov cons fee p c f l :
  closed cfg r prov cons fee l -> In (EvIssue r p c f) l -> prov = p /\ cons = c /\ fee = f.
Proof.
  intros [E|[(k & amt & E)|[(Hf & E)|(Hf & k & amt & E)]]] Hin; rewrite E in Hin; cbn [In] in Hin;
    repeat (destruct Hin as [Hin|Hin]; try discriminate Hin; try contradiction);
    injection Hin as <- <- <-; auto.
Qed.

(* C11_eventually *)
Theorem eventually cfg s r q ops :
  wf_cfg cfg -> Reach cfg s -> get r (reqs s) = Some q ->
  wf_run cfg s ops -> r_exp q < height (run cfg s ops) ->
  get r (reqs (run cfg s ops)) = None
  /\ get r (resps (run cfg s ops)) = None
  /\ exists rc, get (rid_ctx r) (ctxs s) = Some rc
       /\ closed cfg r (r_prov q) (c_cons rc) (r_fee q) (tr r (log (run cfg s ops))).
Proof.
  intros Hcfg Hr G Hw Hlt.
  pose proof (reach_run cfg s ops Hr Hw) as Hrf.
  pose proof (Reach_Inv cfg _ Hcfg Hrf) as Hif.
  assert (Gf : get r (reqs (run cfg s ops)) = None).
  { destruct (req_run cfg ops s r q Hcfg Hr Hw G) as [(q' & G' & S')|(G' & _)]; [exfalso|exact G'].
    destruct (C08_window_inv cfg _ r q' Hif G') as (Hle & _). destruct S' as (E & _). lia. }
  split; [exact Gf|]. split.
  { destruct (get r (resps (run cfg s ops))) as [x|] eqn:Gx; [exfalso|reflexivity].
    destruct (inv_req _ _ Hif) as (_ & R2 & _).
    destruct (R2 _ _ (get_In _ _ _ Gx)) as (q' & G' & _). congruence. }
  destruct (stored_issued cfg s r q Hcfg Hr G) as (rc & Grc & Hin & _).
  exists rc. split; [exact Grc|].
  destruct (log_run_ext cfg ops s Hcfg Hr Hw) as (d & Ed).
  assert (Hin' : In (EvIssue r (r_prov q) (c_cons rc) (r_fee q)) (tr r (log (run cfg s ops)))).
  { apply (proj1 (In_issue_tr _ _ _ _ _)). rewrite Ed. apply in_or_app. now right. }
  pose proof (request_trace cfg _ r Hcfg Hrf) as Ht. rewrite Gf in Ht.
  destruct Ht as [E|(prov & cons & fee & Hcl)].
  - rewrite E in Hin'. destruct Hin'.
  - destruct (closed_params _ _ _ _ _ _ _ _ _ Hcl Hin') as (-> & -> & ->). exact Hcl.
Qed.

(* readable form: answered (then paid or, if the answer was malformed, refunded), or expired
   (then refunded in full whenever there was a fee) -- never both, never neither *)
Theorem eventually_answered_or_refunded cfg s r q ops :
  wf_cfg cfg -> Reach cfg s -> get r (reqs s) = Some q ->
  wf_run cfg s ops -> r_exp q < height (run cfg s ops) ->
  exists rc, get (rid_ctx r) (ctxs s) = Some rc /\
    let l := log (run cfg s ops) in
    let tax := mul_trunc (r_fee q) (p_tax cfg) in
    (In (EvRespond r) l /\ ~ In (EvExpire r) l
     /\ ((In (EvEarn r (r_prov q) (r_fee q - tax)) l /\ In (EvTax r tax) l
          /\ forall a, ~ In (EvRefund r (c_cons rc) a) l)
         \/ (In (EvRefund r (c_cons rc) (r_fee q)) l /\ forall p a, ~ In (EvEarn r p a) l)))
    \/ (In (EvExpire r) l /\ ~ In (EvRespond r) l /\ (forall p a, ~ In (EvEarn r p a) l)
        /\ (0 < r_fee q -> In (EvRefund r (c_cons rc) (r_fee q)) l)
        /\ (r_fee q = 0 -> forall c a, ~ In (EvRefund r c a) l)).
Proof.
  intros Hcfg Hr G Hw Hlt.
  destruct (eventually cfg s r q ops Hcfg Hr G Hw Hlt) as (_ & _ & rc & Grc & Hcl).
  exists rc. split; [exact Grc|]. cbv zeta.
  set (l := log (run cfg s ops)) in *.
  assert (Hi : forall e, about r e = true -> (In e l <-> In e (tr r l))).
  { intros e Ha. rewrite In_tr. tauto. }
  assert (Hab : about r (EvRespond r) = true /\ about r (EvExpire r) = true
                /\ (forall p a, about r (EvEarn r p a) = true)
                /\ (forall a, about r (EvTax r a) = true)
                /\ (forall c a, about r (EvRefund r c a) = true)).
  { unfold about. cbn [ev_rid]. rewrite eqb_refl. auto. }
  destruct Hab as (A1 & A2 & A3 & A4 & A5).
  destruct Hcl as [E|[(k & amt & E)|[(Hf & E)|(Hf & k & amt & E)]]].
  - left. rewrite (Hi _ A1), (Hi _ A2), (Hi _ (A3 _ _)), (Hi _ (A4 _)), E. cbn [In].
    split; [auto|]. split; [intuition discriminate|]. left.
    split; [auto|]. split; [auto|]. intros a. rewrite (Hi _ (A5 _ _)), E. cbn [In]. intuition discriminate.
  - left. rewrite (Hi _ A1), (Hi _ A2), (Hi _ (A5 _ _)), E. cbn [In].
    split; [auto|]. split; [intuition discriminate|]. right.
    split; [auto|]. intros p a. rewrite (Hi _ (A3 _ _)), E. cbn [In]. intuition discriminate.
  - right. rewrite (Hi _ A1), (Hi _ A2), E. cbn [In].
    split; [auto|]. split; [intuition discriminate|]. split.
    + intros p a. rewrite (Hi _ (A3 _ _)), E. cbn [In]. intuition discriminate.
    + split; [lia|]. intros _ c a. rewrite (Hi _ (A5 _ _)), E. cbn [In]. intuition discriminate.
  - right. rewrite (Hi _ A1), (Hi _ A2), (Hi _ (A5 _ _)), E. cbn [In].
    split; [auto|]. split; [intuition discriminate|]. split.
    + intros p a. rewrite (Hi _ (A3 _ _)), E. cbn [In]. intuition discriminate.
    + split; [auto|]. lia.
Qed.

(* the same, in terms of the number of EndBlocks of the history *)
Corollary eventually_blocks cfg s r q ops :
  wf_cfg cfg -> Reach cfg s -> get r (reqs s) = Some q ->
  wf_run cfg s ops -> r_exp q - height s < blocks ops ->
  get r (reqs (run cfg s ops)) = None
  /\ exists rc, get (rid_ctx r) (ctxs s) = Some rc
       /\ closed cfg r (r_prov q) (c_cons rc) (r_fee q) (tr r (log (run cfg s ops))).
Proof.
  intros Hcfg Hr G Hw Hb.
  destruct (eventually cfg s r q ops Hcfg Hr G Hw) as (A & _ & B); [|auto].
  rewrite height_run by assumption. lia.
Qed.

(* the EndBlock of the expiry height itself closes the request *)
Corollary expiry_block_closes cfg s r q dt :
  wf_cfg cfg -> Reach cfg s -> get r (reqs s) = Some q ->
  r_exp q = height s -> 0 <= dt -> height s < HEIGHT_BOUND ->
  get r (reqs (end_block cfg s dt)) = None
  /\ exists rc, get (rid_ctx r) (ctxs s) = Some rc
       /\ closed cfg r (r_prov q) (c_cons rc) (r_fee q) (tr r (log (end_block cfg s dt))).
Proof.
  intros Hcfg Hr G He Hdt Hb.
  assert (Hw : wf_run cfg s [OEndBlock dt]) by (cbn [wf_run wf_op]; auto).
  destruct (eventually_blocks cfg s r q [OEndBlock dt] Hcfg Hr G Hw) as (A & B).
  - cbn [blocks is_end_block]. lia.
  - exact (conj A B).
Qed.

(* EndBlocks are always accepted: time alone brings every stored request to its expiry *)
Lemma idle_blocks cfg n : forall s, wf_cfg cfg -> Reach cfg s ->
  height s + Z.of_nat n <= HEIGHT_BOUND ->
  wf_run cfg s (repeat (OEndBlock 0) n) /\ blocks (repeat (OEndBlock 0) n) = Z.of_nat n.
Proof.
  induction n as [|n IH]; intros s Hcfg Hr Hb; cbn [repeat wf_run blocks is_end_block]; [auto|].
  assert (Ho : wf_op s (OEndBlock 0)) by (cbn [wf_op]; lia).
  destruct (IH (fst (step cfg s (OEndBlock 0))) Hcfg (Reach_step cfg s _ Hr Ho)) as (A & B).
  - rewrite (height_step cfg s _ Hcfg (Reach_Inv cfg s Hcfg Hr) Ho). cbn [is_end_block]. lia.
  - split; [auto|]. lia.
Qed.

Theorem time_closes cfg s r q :
  wf_cfg cfg -> Reach cfg s -> get r (reqs s) = Some q -> r_exp q < HEIGHT_BOUND ->
  let ops := repeat (OEndBlock 0) (Z.to_nat (r_exp q + 1 - height s)) in
  wf_run cfg s ops /\ height (run cfg s ops) = r_exp q + 1
  /\ get r (reqs (run cfg s ops)) = None
  /\ exists rc, get (rid_ctx r) (ctxs s) = Some rc
       /\ closed cfg r (r_prov q) (c_cons rc) (r_fee q) (tr r (log (run cfg s ops))).
Proof.
  intros Hcfg Hr G Hb. cbv zeta.
  destruct (C08_window_inv cfg s r q (Reach_Inv cfg s Hcfg Hr) G) as (Hle & _).
  destruct (idle_blocks cfg (Z.to_nat (r_exp q + 1 - height s)) s Hcfg Hr) as (Hw & Hbl); [lia|].
  assert (Hh : height (run cfg s (repeat (OEndBlock 0) (Z.to_nat (r_exp q + 1 - height s)))) = r_exp q + 1).
  { rewrite height_run, Hbl by assumption. lia. }
  split; [exact Hw|]. split; [exact Hh|].
  destruct (eventually cfg s r q _ Hcfg Hr G Hw) as (A & _ & B); [lia|]. auto.
Qed.

(* ------------------------------------------------------------------ *)
(* queue entries along a history *)

(* an EndBlock below the height of an entry leaves it where it is *)
Lemma expq_future_kept_end_block cfg s dt h c :
  wf_cfg cfg -> Inv cfg s -> height s < HEIGHT_BOUND ->
  In (h, c) (expq s) -> height s < h -> In (h, c) (expq (end_block cfg s dt)).
Proof.
  intros Hcfg Hi Hb Hin Hlt. unfold end_block, end_blocker.
  set (l1 := due (expq s) (height s)).
  assert (Hn1 : NoDup l1) by (apply NoDup_due; apply (inv_wf _ _ Hi)).
  assert (Hl1 : forall c, In c l1 -> In (height s, c) (expq s)) by (intros c0; apply In_due).
  destruct (fold_expire_phase cfg l1 s Hcfg Hi Hb Hn1 Hl1) as (I1 & H1 & _ & Q1).
  set (s1 := fold_left (expire_one cfg) l1 s) in *.
  destruct (Inv_qpairs _ _ Hi) as (Qe & _).
  assert (Hin1 : In (h, c) (expq s1)).
  { apply Q1. split; [exact Hin|]. intros Hc. apply Hl1 in Hc.
    pose proof (qpair_unique _ _ _ _ _ Qe Hin Hc). lia. }
  set (l2 := due (newq s1) (height s1)).
  assert (Hn2 : NoDup l2) by (apply NoDup_due; apply (inv_wf _ _ I1)).
  assert (Hl2 : forall c, In c l2 -> In (height s1, c) (newq s1)) by (intros c0; apply In_due).
  assert (Hb1 : height s1 < HEIGHT_BOUND) by now rewrite H1.
  sproj.
  apply (fold_new_phase_P (fun st => In (h, c) (expq st)) cfg l2 s1 Hcfg); try assumption.
  intros s0 c0 Hi0 Hd0 Hb0 Hp. now apply (expq_kept_new_one cfg s0 c0 Hcfg Hi0 Hd0 Hb0).
Qed.

Lemma newq_future_kept_end_block cfg s dt h c :
  wf_cfg cfg -> Inv cfg s -> height s < HEIGHT_BOUND ->
  In (h, c) (newq s) -> height s < h -> In (h, c) (newq (end_block cfg s dt)).
Proof.
  intros Hcfg Hi Hb Hin Hlt. unfold end_block, end_blocker.
  set (l1 := due (expq s) (height s)).
  assert (Hn1 : NoDup l1) by (apply NoDup_due; apply (inv_wf _ _ Hi)).
  assert (Hl1 : forall c, In c l1 -> In (height s, c) (expq s)) by (intros c0; apply In_due).
  destruct (fold_expire_phase cfg l1 s Hcfg Hi Hb Hn1 Hl1) as (I1 & H1 & _).
  assert (Hin1 : In (h, c) (newq (fold_left (expire_one cfg) l1 s))).
  { apply (fold_expire_phase_P (fun st => In (h, c) (newq st)) cfg l1 s Hcfg); try assumption.
    intros s0 c0 Hi0 Hd0 Hb0 Hp. now apply (newq_kept_expire_one cfg s0 c0 Hcfg Hi0 Hd0 Hb0). }
  set (s1 := fold_left (expire_one cfg) l1 s) in *.
  set (l2 := due (newq s1) (height s1)).
  assert (Hn2 : NoDup l2) by (apply NoDup_due; apply (inv_wf _ _ I1)).
  assert (Hl2 : forall c, In c l2 -> In (height s1, c) (newq s1)) by (intros c0; apply In_due).
  assert (Hb1 : height s1 < HEIGHT_BOUND) by now rewrite H1.
  destruct (fold_new_phase cfg l2 s1 Hcfg I1 Hb1 Hn2 Hl2) as (_ & _ & _ & Q2 & _).
  destruct (Inv_qpairs _ _ I1) as (_ & Qn).
  sproj. apply Q2. split; [exact Hin1|]. intros Hc. apply Hl2 in Hc.
  pose proof (qpair_unique _ _ _ _ _ Qn Hin1 Hc). lia.
Qed.

(* one operation other than the EndBlock of height h keeps the entry (h, c) *)
Lemma entry_step cfg s o h c : wf_cfg cfg -> Reach cfg s -> wf_op s o ->
  (is_end_block o = true -> height s < h) ->
  (In (h, c) (expq s) -> In (h, c) (expq (fst (step cfg s o))))
  /\ (In (h, c) (newq s) -> In (h, c) (newq (fst (step cfg s o)))).
Proof.
  intros Hcfg Hr Ho Hk. pose proof (Reach_Inv cfg s Hcfg Hr) as Hi.
  unfold step. destruct (handle cfg s o) as [s'| |] eqn:E; cbn [fst]; try tauto.
  destruct (is_end_block o) eqn:K.
  - destruct o; try discriminate. cbn [handle] in E. injection E as <-. cbn [wf_op] in Ho.
    destruct Ho as (_ & Hb). specialize (Hk eq_refl). split; intros Hin.
    + now apply expq_future_kept_end_block.
    + now apply newq_future_kept_end_block.
  - destruct (C10_L4_msg_queues cfg s o s' Hcfg Hi Ho) as (_ & Ee & _ & Hq);
      [intros dt ->; discriminate K|exact E|].
    split; intros Hin; [now rewrite Ee|].
    destruct (Hq c) as [(_ & A)|(_ & Gn & _)]; [now apply A|].
    destruct (Inv_qpairs _ _ Hi) as (_ & Qn). apply Qn in Hin. congruence.
Qed.

(* a history that gets past height h contains the EndBlock of height h, and the entry is
   still in place when that EndBlock starts *)
Lemma entry_reaches_its_block cfg (sel : State -> list (Z * CtxId)) :
  (sel = expq \/ sel = newq) ->
  forall ops s h c, wf_cfg cfg -> Reach cfg s -> In (h, c) (sel s) ->
  wf_run cfg s ops -> h < height (run cfg s ops) ->
  exists ops1 dt ops2, ops = ops1 ++ OEndBlock dt :: ops2
    /\ Reach cfg (run cfg s ops1) /\ height (run cfg s ops1) = h
    /\ In (h, c) (sel (run cfg s ops1)) /\ 0 <= dt.
Proof.
  intros Hsel. induction ops as [|o t IH]; intros s h c Hcfg Hr Hin Hw Hlt.
  - exfalso. change (run cfg s []) with s in Hlt.
    destruct (inv_sched _ _ (Reach_Inv cfg s Hcfg Hr)) as (S1 & S2 & _ & _ & S5 & S6 & _).
    destruct Hsel as [->| ->].
    + apply S1 in Hin. apply S5 in Hin. lia.
    + apply S2 in Hin. apply S6 in Hin. lia.
  - destruct Hw as (Ho & Ht). pose proof (Reach_Inv cfg s Hcfg Hr) as Hi.
    assert (Hle : height s <= h).
    { destruct (inv_sched _ _ Hi) as (S1 & S2 & _ & _ & S5 & S6 & _). destruct Hsel as [->| ->].
      - apply S1 in Hin. now apply S5 in Hin.
      - apply S2 in Hin. now apply S6 in Hin. }
    destruct (is_end_block o && (height s =? h)) eqn:K.
    + apply andb_prop in K. destruct K as (K1 & K2). apply Z.eqb_eq in K2.
      destruct o; try discriminate. exists [], dt, t. cbn [app]. change (run cfg s []) with s.
      cbn [wf_op] in Ho. repeat split; try assumption. tauto.
    + assert (Hk : is_end_block o = true -> height s < h).
      { intros K1. rewrite K1 in K. cbn [andb] in K. apply Z.eqb_neq in K. lia. }
      destruct (entry_step cfg s o h c Hcfg Hr Ho Hk) as (Ke & Kn).
      assert (Hin1 : In (h, c) (sel (fst (step cfg s o)))).
      { destruct Hsel as [->| ->]; auto. }
      rewrite run_cons in Hlt.
      destruct (IH _ h c Hcfg (Reach_step cfg s o Hr Ho) Hin1 Ht Hlt)
        as (ops1 & dt & ops2 & -> & A1 & A2 & A3 & A4).
      exists (o :: ops1), dt, ops2. rewrite run_cons. cbn [app]. auto.
Qed.

(* "certain to be processed again": the expiry entry (h, c) of a reachable state is consumed by the
   EndBlock of height h of any history that gets past h: that EndBlock runs the expiry handler
   of c, on a state satisfying the invariant in which c (record, both pointers) is as when the
   EndBlock started, and leaves no expiry entry of c behind in the expiry phase *)
Theorem exp_entry_processed cfg s h c ops :
  wf_cfg cfg -> Reach cfg s -> In (h, c) (expq s) ->
  wf_run cfg s ops -> h < height (run cfg s ops) ->
  exists ops1 dt ops2 s1, ops = ops1 ++ OEndBlock dt :: ops2 /\ s1 = run cfg s ops1
    /\ Reach cfg s1 /\ height s1 = h /\ In (h, c) (expq s1)
    /\ (exists sm, Inv cfg sm /\ height sm = h /\ view c sm = view c s1 /\ In (h, c) (expq sm)
          /\ incl (log s1) (log sm)
          /\ view c (after_expiry cfg s1) = view c (expire_one cfg sm c))
    /\ get c (expq_h (after_expiry cfg s1)) = None
    /\ forall h' c', In (h', c') (expq (end_block cfg s1 dt)) -> h < h'.
Proof.
  intros Hcfg Hr Hin Hw Hlt.
  destruct (entry_reaches_its_block cfg expq (or_introl eq_refl) ops s h c Hcfg Hr Hin Hw Hlt)
    as (ops1 & dt & ops2 & E & R1 & H1 & In1 & Hdt).
  exists ops1, dt, ops2, (run cfg s ops1). split; [exact E|]. split; [reflexivity|].
  split; [exact R1|]. split; [exact H1|]. split; [exact In1|].
  set (s1 := run cfg s ops1) in *.
  pose proof (Reach_Inv cfg s1 Hcfg R1) as I1.
  assert (Hb : height s1 < HEIGHT_BOUND).
  { rewrite E in Hw. apply wf_run_app in Hw. destruct Hw as (_ & Hw2). cbn [wf_run wf_op] in Hw2. tauto. }
  rewrite <- H1 in In1.
  destruct (C10_L3_expiry_consumed cfg s1 c Hcfg I1 Hb In1) as (sm & A1 & A2 & A3 & A4 & A5 & A6).
  split.
  { exists sm. rewrite <- H1. rewrite A2 in A4. exact (conj A1 (conj A2 (conj A3 (conj A4 (conj A5 A6))))). }
  split.
  { assert (V : get c (expq_h (after_expiry cfg s1)) = get c (expq_h (expire_one cfg sm c))).
    { unfold view in A6. congruence. }
    rewrite V.
    assert (Hbm : height sm < HEIGHT_BOUND) by lia.
    pose proof (Inv_expire_one cfg sm c Hcfg A1 A4 Hbm) as Ie.
    destruct (Inv_qpairs _ _ Ie) as (Qe & _).
    destruct (get c (expq_h (expire_one cfg sm c))) as [h'|] eqn:G; [exfalso|reflexivity].
    apply Qe in G. apply (expq_after_expire_one cfg sm c Hcfg A1 A4 Hbm) in G. tauto. }
  intros h' c' Hin'.
  assert (Ho : wf_op s1 (OEndBlock dt)) by (cbn [wf_op]; auto).
  pose proof (Inv_end_block cfg s1 dt Hcfg I1 Hdt Hb) as I2.
  destruct (inv_sched _ _ I2) as (S1 & _ & _ & _ & S5 & _).
  apply S1 in Hin'. apply S5 in Hin'. rewrite height_end_block in Hin' by assumption. lia.
Qed.

Theorem new_entry_processed cfg s h c ops :
  wf_cfg cfg -> Reach cfg s -> In (h, c) (newq s) ->
  wf_run cfg s ops -> h < height (run cfg s ops) ->
  exists ops1 dt ops2 s1, ops = ops1 ++ OEndBlock dt :: ops2 /\ s1 = run cfg s ops1
    /\ Reach cfg s1 /\ height s1 = h /\ In (h, c) (newq s1)
    /\ (exists sm, Inv cfg sm /\ height sm = h /\ view c sm = view c s1 /\ In (h, c) (newq sm)
          /\ incl (log s1) (log sm)
          /\ view c (end_blocker cfg s1) = view c (new_one cfg sm c))
    /\ get c (newq_h (end_block cfg s1 dt)) = None
    /\ forall h' c', In (h', c') (newq (end_block cfg s1 dt)) -> h < h'.
Proof.
  intros Hcfg Hr Hin Hw Hlt.
  destruct (entry_reaches_its_block cfg newq (or_intror eq_refl) ops s h c Hcfg Hr Hin Hw Hlt)
    as (ops1 & dt & ops2 & E & R1 & H1 & In1 & Hdt).
  exists ops1, dt, ops2, (run cfg s ops1). split; [exact E|]. split; [reflexivity|].
  split; [exact R1|]. split; [exact H1|]. split; [exact In1|].
  set (s1 := run cfg s ops1) in *.
  pose proof (Reach_Inv cfg s1 Hcfg R1) as I1.
  assert (Hb : height s1 < HEIGHT_BOUND).
  { rewrite E in Hw. apply wf_run_app in Hw. destruct Hw as (_ & Hw2). cbn [wf_run wf_op] in Hw2. tauto. }
  rewrite <- H1 in In1.
  destruct (C10_L3_newbatch_consumed cfg s1 c Hcfg I1 Hb In1) as (sm & A1 & A2 & A3 & A4 & A5 & A6).
  split.
  { exists sm. rewrite <- H1. rewrite A2 in A4. exact (conj A1 (conj A2 (conj A3 (conj A4 (conj A5 A6))))). }
  split.
  { assert (V : get c (newq_h (end_block cfg s1 dt)) = get c (newq_h (new_one cfg sm c))).
    { unfold end_block. sproj. unfold view in A6. congruence. }
    rewrite V.
    assert (Hbm : height sm < HEIGHT_BOUND) by lia.
    pose proof (Inv_new_one cfg sm c Hcfg A1 A4 Hbm) as Ie.
    destruct (Inv_qpairs _ _ Ie) as (_ & Qn).
    destruct (get c (newq_h (new_one cfg sm c))) as [h'|] eqn:G; [exfalso|reflexivity].
    apply Qn in G. apply (newq_after_new_one cfg sm c Hcfg A1 A4 Hbm) in G. tauto. }
  intros h' c' Hin'.
  pose proof (Inv_end_block cfg s1 dt Hcfg I1 Hdt Hb) as I2.
  destruct (inv_sched _ _ I2) as (_ & S2 & _ & _ & _ & S6 & _).
  apply S2 in Hin'. apply S6 in Hin'. rewrite height_end_block in Hin' by assumption. lia.
Qed.

(* ------------------------------------------------------------------ *)
(* exports completing C11_sched *)

(* no duplicate entries (the model's queues are lists) *)
Theorem sched_nodup cfg s : wf_cfg cfg -> Reach cfg s -> NoDup (expq s) /\ NoDup (newq s).
Proof. intros Hcfg Hr. pose proof (inv_wf _ _ (Reach_Inv cfg s Hcfg Hr)) as W. split; apply W. Qed.

(* a context with an unfinished batch -- running, paused or killed -- keeps its expiry entry *)
Theorem unfinished_batch_has_expiry cfg s c rc : wf_cfg cfg -> Reach cfg s ->
  get c (ctxs s) = Some rc -> c_bdone rc = false ->
  exists h, get c (expq_h s) = Some h /\ In (h, c) (expq s) /\ height s <= h
    /\ get c (newq_h s) = None.
Proof.
  intros Hcfg Hr G Hd. pose proof (Reach_Inv cfg s Hcfg Hr) as Hi.
  destruct (inv_req _ _ Hi) as (_ & _ & R3). destruct (R3 c rc G) as (_ & _ & _ & R4).
  destruct (inv_sched _ _ Hi) as (S1 & _ & S3 & _ & S5 & _).
  destruct (get c (expq_h s)) as [h|] eqn:Ge.
  - exists h. split; [reflexivity|]. split; [now apply S1|]. split; [now apply (S5 c)|].
    destruct (get c (newq_h s)) as [h'|] eqn:Gn; [exfalso|reflexivity].
    apply (S3 c); unfold has; [now rewrite Ge|now rewrite Gn].
  - exfalso. assert (Hh : has c (expq_h s) = false) by (unfold has; now rewrite Ge).
    rewrite (R4 Hh) in Hd. discriminate.
Qed.

(* nothing due at the height of an EndBlock survives it *)
Theorem due_consumed cfg s dt : wf_cfg cfg -> Reach cfg s -> 0 <= dt -> height s < HEIGHT_BOUND ->
  (forall h c, In (h, c) (expq (end_block cfg s dt)) -> height s < h)
  /\ (forall h c, In (h, c) (newq (end_block cfg s dt)) -> height s < h).
Proof.
  intros Hcfg Hr Hdt Hb. pose proof (Reach_Inv cfg s Hcfg Hr) as Hi.
  pose proof (Inv_end_block cfg s dt Hcfg Hi Hdt Hb) as I2.
  destruct (inv_sched _ _ I2) as (S1 & S2 & _ & _ & S5 & S6 & _).
  pose proof (height_end_block cfg s dt Hcfg Hi Hb) as Eh.
  split; intros h c Hin.
  - apply S1 in Hin. apply S5 in Hin. lia.
  - apply S2 in Hin. apply S6 in Hin. lia.
Qed.

(* ------------------------------------------------------------------ *)
(* the hypotheses are satisfiable: the example history of TraceSettle.v.  In tx_open batch 1
   (requests tx_r1, tx_r2, expiry height 11) is in flight; the rest of the history answers
   tx_r1 properly, tx_r2 with a malformed output, and lets batch 2 time out. *)
Example tx_rest_wf : wf_run tx_cfg tx_open (skipn 5 tx_ops).
Proof. unfold tx_ops. cbn [repeat app skipn]. wf_run_tac. Qed.

Example tx_r1_pending :
  get tx_r1 (reqs tx_open) = Some (mkReq 11 100 11 true)
  /\ 11 < height (run tx_cfg tx_open (skipn 5 tx_ops)).
Proof. vm_compute. split; reflexivity. Qed.

Example tx_r1_eventually :
  exists rc, get tx_c (ctxs tx_open) = Some rc
    /\ closed tx_cfg tx_r1 11 (c_cons rc) 100 (tr tx_r1 (log (run tx_cfg tx_open (skipn 5 tx_ops)))).
Proof.
  destruct tx_r1_pending as (G & Hlt).
  destruct (eventually tx_cfg tx_open tx_r1 _ _ tx_cfg_wf tx_open_reach G tx_rest_wf Hlt) as (_ & _ & H).
  exact H.
Qed.

Example tx_entry_pending : In (11, tx_c) (expq tx_open).
Proof. vm_compute. auto. Qed.
