(* I_wf: every map keeps distinct keys, every index list stays duplicate-free. *)
From Coq Require Import List ZArith Bool Lia Permutation.
From SVC Require Import Base.AMap Base.Res Base.Dec Model.Types Model.Pricing
  Model.Handlers Model.EndBlock Model.Step Proofs.Inv Proofs.Lemmas Proofs.CtxOps.
Import ListNotations.
Open Scope Z_scope.

Ltac wf_auto :=
  unfold I_wf in *; sproj;
  repeat match goal with H : _ /\ _ |- _ => destruct H end;
  repeat split;
  repeat first [assumption | apply wf_set | apply wf_del | apply NoDup_ladd | apply NoDup_lrem
               | apply wf_nil | apply fold_del_wf].

Lemma wf_transfer_state a b amt s s1 :
  transfer a b amt s = Some s1 -> I_wf s -> I_wf s1.
Proof.
  intros E Hw. pose proof (transfer_frame _ _ _ _ _ E) as Hf.
  assert (wf (bank s1)) by (apply (transfer_wf _ _ _ _ _ E); apply Hw).
  rewrite Hf. wf_auto.
Qed.

Lemma wf_burn_state amt s s1 : burn_deposit amt s = Some s1 -> I_wf s -> I_wf s1.
Proof. intros E Hw. apply burn_some in E. destruct E as (_ & _ & ->). wf_auto. Qed.

Lemma wf_emit e s : I_wf s -> I_wf (emit e s).
Proof. intros Hw. wf_auto. Qed.

Lemma wf_put_binding s k b : I_wf s -> I_wf (put_binding s k b).
Proof. intros Hw. wf_auto. Qed.

Lemma wf_put_ctx s c rc : I_wf s -> I_wf (put_ctx s c rc).
Proof. intros Hw. wf_auto. Qed.

Lemma wf_del_ctx s c : I_wf s -> I_wf (del_ctx s c).
Proof. intros Hw. wf_auto. Qed.

Lemma wf_add_newq s c h : I_wf s -> I_wf (add_newq s c h).
Proof. intros Hw. wf_auto. Qed.
Lemma wf_del_newq s c h : I_wf s -> I_wf (del_newq s c h).
Proof. intros Hw. wf_auto. Qed.
Lemma wf_add_expq s c h : I_wf s -> I_wf (add_expq s c h).
Proof. intros Hw. wf_auto. Qed.
Lemma wf_del_expq s c h : I_wf s -> I_wf (del_expq s c h).
Proof. intros Hw. wf_auto. Qed.

Lemma wf_pay_deposit s k o amt s1 : pay_deposit s k o amt = Ok s1 -> I_wf s -> I_wf s1.
Proof.
  intros E Hw. apply pay_deposit_inv in E. destruct E as (s0 & Et & ->).
  apply wf_emit. eapply wf_transfer_state; eauto.
Qed.

Lemma wf_deactivate s r : I_wf s -> I_wf (deactivate s r).
Proof. intros Hw. unfold deactivate. destruct (get r (reqs s)); [wf_auto|assumption]. Qed.

Lemma wf_slash cfg s r s1 : slash cfg s r = Ok s1 -> I_wf s -> I_wf s1.
Proof.
  unfold slash. intros H Hw. inv_ok H.
  assert (I_wf a2) by (eapply wf_burn_state; eauto).
  destruct (b_avail (setb_deposit a1 (b_deposit a1 - mul_trunc (b_deposit a1) (p_slash cfg)))) eqn:Eav;
    inv_ok H; subst; apply wf_emit, wf_put_binding; assumption.
Qed.

Lemma wf_refund_fee s r cons fee s1 : refund_fee s r cons fee = Some s1 -> I_wf s -> I_wf s1.
Proof.
  unfold refund_fee. destruct (transfer Escrow (User cons) fee s) eqn:E; [|discriminate].
  intros H Hw. injection H as <-. apply wf_emit. eapply wf_transfer_state; eauto.
Qed.

Lemma wf_add_to {K} `{EqDec K} (k : K) e (m : amap K Z) : wf m -> wf (add_to k e m).
Proof. intros Hw. unfold add_to. destruct (get0 k m + e =? 0); auto using wf_set. Qed.

Lemma wf_add_earned cfg s r prov fee s1 : add_earned_fee cfg s r prov fee = Ok s1 -> I_wf s -> I_wf s1.
Proof.
  unfold add_earned_fee. intros H Hw. inv_ok H.
  assert (Hw1 : I_wf a) by (eapply wf_transfer_state; eauto).
  sproj. destruct (get prov (owner_of a)); inv_ok H. subst.
  unfold I_wf in *; sproj;
  repeat match goal with H : _ /\ _ |- _ => destruct H end;
  repeat split; repeat first [assumption | apply wf_add_to].
Qed.

Lemma wf_complete_batch s c rc : I_wf s -> I_wf (fst (complete_batch s c rc)).
Proof.
  intros Hw. unfold complete_batch, callback. cbn [fst].
  destruct (c_mod rc =? 0); [now apply wf_emit|].
  destruct (get c (ctxs s)); apply wf_emit; [apply wf_emit|]; assumption.
Qed.

(* ---- messages ---- *)

Lemma wf_msg cfg s o s' : handle cfg s o = Ok s' -> (forall dt, o <> OEndBlock dt) -> I_wf s -> I_wf s'.
Proof.
  intros H Hne Hw. destruct o; cbn [handle] in H; try (exfalso; eapply Hne; reflexivity).
  - (* define *) unfold h_define in H. inv_ok H. destruct (get svc (defs s)); inv_ok H. subst. wf_auto.
  - (* bind *) unfold h_bind in H. inv_ok H. sproj.
    assert (Hw2 : I_wf a2) by (eapply wf_pay_deposit; eauto).
    destruct (get prov (owner_of a2)); inv_ok H; subst; wf_auto.
  - (* update *) unfold h_update in H. inv_ok H.
    assert (Hw3 : I_wf a3).
    { destruct (coins_empty dep); inv_ok Ha3; [now subst|]. eapply wf_pay_deposit; eauto. }
    destruct (negb (qos =? 0) || negb (coins_empty dep) || match pr with Some _ => true | None => false end);
      [|inv_ok H; now subst].
    destruct a1 as [[raw p]|]; inv_ok H; subst; wf_auto.
  - (* disable *) unfold h_disable in H. inv_ok H. subst. wf_auto.
  - (* enable *) unfold h_enable in H. inv_ok H. subst.
    assert (Hw3 : I_wf a2).
    { destruct (coins_empty dep); inv_ok Ha2; [now subst|]. eapply wf_pay_deposit; eauto. }
    wf_auto.
  - (* refund deposit *) unfold h_refund_deposit in H. inv_ok H. subst.
    apply wf_emit, wf_put_binding. eapply wf_transfer_state; eauto.
  - (* set withdraw *) unfold h_set_withdraw in H. inv_ok H. subst. wf_auto.
  - (* call *) unfold h_call, create_context in H. inv_ok H. subst. wf_auto.
  - (* modcall *) unfold create_context in H. inv_ok H. subst. wf_auto.
  - (* respond *) apply respond_inv in H.
    destruct H as (q & rc0 & s1 & rc & _ & Hq & Hrc0 & _ & _ & Hset & Hrc & ->).
    assert (Hw1 : I_wf s1).
    { destruct Hset as [[_ (sa & Es & Er)]|[_ Ea]].
      - eapply wf_refund_fee; eauto. eapply wf_slash; eauto.
      - eapply wf_add_earned; eauto. }
    assert (Hw5 : I_wf (resp_mid s1 r who rc0 code out)).
    { unfold resp_mid. apply wf_emit.
      assert (I_wf (deactivate (set_resps s1 (set r (mkResp who (c_cons rc0) code out) (resps s1))) r))
        by (apply wf_deactivate; wf_auto). wf_auto. }
    unfold resp_finish.
    destruct (c_bresp (setc_bresp rc (c_bresp rc + 1)) =? c_breq (setc_bresp rc (c_bresp rc + 1)));
      apply wf_put_ctx; [apply wf_complete_batch|]; assumption.
  - (* pause *) unfold h_pause, authorized in H. inv_ok H. subst. wf_auto.
  - (* start *) unfold h_start, authorized in H. inv_ok H.
    match type of H with (if ?b then _ else _) = _ => destruct b end; inv_ok H; subst; wf_auto.
  - (* kill *) unfold h_kill, authorized in H. inv_ok H. subst. wf_auto.
  - (* update ctx *) unfold h_update_ctx, update_ctx_tail, authorized in H. inv_ok H. subst. wf_auto.
  - (* withdraw *) unfold h_withdraw in H. inv_ok H.
    destruct (prov =? 0).
    + inv_ok H. subst. apply wf_emit. eapply wf_transfer_state; eauto. wf_auto.
    + inv_ok H. subst. apply wf_emit. eapply wf_transfer_state; eauto.
      destruct (get0 prov (earned s) =? get0 owner (own_earned s)); [|destruct (_ <? 0)]; inv_ok Ha; subst; wf_auto.
  - (* transfer *) unfold h_transfer in H. inv_ok H. eapply wf_transfer_state; eauto.
  - (* module update *) mod_shape H; wf_auto.
  - (* module pause *) mod_shape H; wf_auto.
  - (* module start *) mod_shape H; wf_auto.
  - (* module kill *) mod_shape H; wf_auto.
Qed.

(* ---- EndBlock ---- *)

Lemma fold_inv {A S} (P : S -> Prop) (f : S -> A -> S) (l : list A) (s : S) :
  (forall s a, P s -> P (f s a)) -> P s -> P (fold_left f l s).
Proof. intros Hf. revert s. induction l as [|a l IH]; cbn [fold_left]; auto. Qed.

Lemma wf_expire_req cfg s r : I_wf s -> I_wf (expire_req cfg s r).
Proof.
  intros Hw. unfold expire_req.
  destruct (get r (reqs s)) as [q|]; [|assumption].
  destruct (get (rid_ctx r) (ctxs s)) as [rc|]; [|assumption].
  apply wf_emit, wf_deactivate.
  destruct (c_super rc); [assumption|].
  assert (Hsa : I_wf (match slash cfg s r with Ok x => x | _ => s end)).
  { destruct (slash cfg s r) eqn:Es; try assumption. eapply wf_slash; eauto. }
  destruct (refund_fee _ r (c_cons rc) (r_fee q)) eqn:Er; [|assumption].
  eapply wf_refund_fee; eauto.
Qed.

Lemma wf_clean_batch s c n : I_wf s -> I_wf (clean_batch s c n).
Proof. intros Hw. unfold clean_batch. wf_auto. Qed.

Lemma wf_expire_one cfg s c : I_wf s -> I_wf (expire_one cfg s c).
Proof.
  intros Hw. unfold expire_one.
  set (rc := ctx_or_zero s c).
  assert (Hp : I_wf (fst (if c_bdone rc then (s, rc)
             else complete_batch (fold_left (expire_req cfg) (active_rids s c (c_counter rc)) s) c rc))).
  { destruct (c_bdone rc); [assumption|].
    apply wf_complete_batch. apply fold_inv; [intros; now apply wf_expire_req|assumption]. }
  destruct (if c_bdone rc then (s, rc) else _) as [s1 rc1]. cbn [fst] in Hp.
  apply wf_clean_batch.
  assert (Hw2 : I_wf (put_ctx (del_expq s1 c (height s)) c rc1)) by (apply wf_put_ctx, wf_del_expq; assumption).
  destruct (c_state rc1); [| |apply wf_del_ctx]; try assumption.
  destruct (c_rep rc1 && _); [apply wf_add_newq|apply wf_del_ctx]; assumption.
Qed.

Lemma wf_issue_all s c rc n i provs : I_wf s -> I_wf (issue_all s c rc n i provs).
Proof.
  revert s i. induction provs as [|p t IH]; cbn [issue_all]; intros s i Hw; [assumption|].
  apply IH. unfold issue_one. apply wf_emit. wf_auto.
Qed.

Lemma wf_new_one cfg s c : I_wf s -> I_wf (new_one cfg s c).
Proof.
  intros Hw. unfold new_one.
  set (rc := ctx_or_zero s c).
  destruct (is_state rc Running && c_rep rc && (0 <? c_total rc) && (c_total rc <=? c_counter rc)).
  { apply wf_del_newq, wf_del_ctx; assumption. }
  apply wf_del_newq.
  destruct (is_state rc Running); [|assumption].
  destruct ((0 <? len _) && _).
  - match goal with |- I_wf (match ?p with _ => _ end) => destruct p as [sp|] eqn:Ep end.
    + assert (Hsp : I_wf sp).
      { destruct (c_super rc); [injection Ep as <-; assumption|].
        destruct (transfer _ _ _ s) eqn:Et; [|discriminate]. injection Ep as <-.
        apply wf_emit. eapply wf_transfer_state; eauto. }
      apply wf_add_expq. unfold initiate_requests. apply wf_emit, wf_put_ctx, wf_issue_all. assumption.
    + unfold on_paused. destruct (c_mod rc =? 0); [|apply wf_emit]; apply wf_put_ctx; assumption.
  - unfold skip_batch. apply wf_add_expq, wf_emit, wf_put_ctx. assumption.
Qed.

Lemma wf_end_block cfg s dt : I_wf s -> I_wf (end_block cfg s dt).
Proof.
  intros Hw. unfold end_block, end_blocker.
  assert (I_wf (fold_left (new_one cfg) (due (newq (fold_left (expire_one cfg) (due (expq s) (height s)) s))
            (height (fold_left (expire_one cfg) (due (expq s) (height s)) s)))
            (fold_left (expire_one cfg) (due (expq s) (height s)) s))).
  { apply fold_inv; [intros; now apply wf_new_one|].
    apply fold_inv; [intros; now apply wf_expire_one|assumption]. }
  wf_auto.
Qed.

Theorem I_wf_step cfg s o : I_wf s -> I_wf (fst (step cfg s o)).
Proof.
  intros Hw. unfold step. destruct (handle cfg s o) as [s'| |] eqn:E; cbn [fst]; try assumption.
  destruct o; try (eapply wf_msg; [exact E|discriminate|assumption]).
  cbn [handle] in E. injection E as <-. now apply wf_end_block.
Qed.

Lemma I_wf_init h0 t0 f : I_wf (init h0 t0 f).
Proof.
  unfold init, I_wf. cbn [defs binds pricing owner_of wdaddr ctxs expq_h newq_h reqs resps vols earned
    own_earned bank own_prov own_bind expq newq].
  repeat split; try apply wf_nil; try constructor.
  apply fold_inv with (P := fun m => wf m); [|apply wf_nil].
  intros m a Hm. now apply wf_set.
Qed.
