(* Characterisations of the helper functions that touch requests, fees and the
   escrow account: slash, refund_fee, add_earned_fee, deactivate, expire_req,
   issue_all, clean_batch. *)
From Coq Require Import List ZArith Bool Lia Permutation.
From SVC Require Import Base.AMap Base.Res Base.Dec Model.Types Model.Pricing
  Model.Handlers Model.EndBlock Model.Step Proofs.Inv Proofs.Lemmas.
Import ListNotations.
Open Scope Z_scope.

(* ---------- sums ---------- *)

Lemma msum_zero_each {K V} `{EqDec K} (f : K -> V -> Z) (m : amap K V) :
  (forall k v, In (k, v) m -> 0 <= f k v) -> msum f m = 0 ->
  forall k v, In (k, v) m -> f k v = 0.
Proof.
  induction m as [|[k0 v0] t IH]; cbn [msum In]; [tauto|].
  intros Hn Hs k v [E|Hin].
  - injection E as -> ->.
    assert (0 <= f k v) by (apply Hn; now left).
    assert (0 <= msum f t) by (apply msum_nonneg; intros; apply Hn; now right). lia.
  - apply IH; [intros; apply Hn; now right| |assumption].
    assert (0 <= f k0 v0) by (apply Hn; now left).
    assert (0 <= msum f t) by (apply msum_nonneg; intros; apply Hn; now right). lia.
Qed.

Lemma msum_fold_del_zero {K V} `{EqDec K} (f : K -> V -> Z) (l : list K) (m : amap K V) :
  wf m -> (forall k, In k l -> fget f k m = 0) ->
  msum f (fold_left (fun m r => del r m) l m) = msum f m.
Proof.
  revert m. induction l as [|a l IH]; cbn [fold_left]; intros m Hw Hz; [reflexivity|].
  rewrite IH.
  - rewrite msum_del, Hz by now left. lia.
  - now apply wf_del.
  - intros k Hk. unfold fget. rewrite get_del by assumption.
    destruct (eqb_spec k a); [reflexivity|]. apply Hz. now right.
Qed.

Lemma get0_add_to {K} `{EqDec K} (k k' : K) e (m : amap K Z) :
  0 <= e -> 0 <= get0 k m ->
  get0 k' (add_to k e m) = if eqb k' k then get0 k m + e else get0 k' m.
Proof.
  intros He Hg. unfold add_to. destruct (get0 k m + e =? 0) eqn:E.
  - apply Z.eqb_eq in E. destruct (eqb_spec k' k) as [->|]; [lia|reflexivity].
  - now rewrite get0_set.
Qed.

Lemma msum_vid_add_to {K} `{EqDec K} (k : K) e (m : amap K Z) :
  0 <= e -> 0 <= get0 k m -> msum vid (add_to k e m) = msum vid m + e.
Proof.
  intros He Hg. unfold add_to. destruct (get0 k m + e =? 0) eqn:E.
  - apply Z.eqb_eq in E. lia.
  - rewrite msum_set, fget_vid. unfold vid. lia.
Qed.

(* ---------- shapes of the helpers ---------- *)

Lemma slash_shape cfg s r s1 :
  slash cfg s r = Ok s1 ->
  exists q rc b amt b2,
    get r (reqs s) = Some q /\ get (rid_ctx r) (ctxs s) = Some rc
    /\ get (c_svc rc, r_prov q) (binds s) = Some b
    /\ amt = mul_trunc (b_deposit b) (p_slash cfg)
    /\ 0 <= amt /\ amt <= b_deposit b /\ amt <= bal s Deposit
    /\ b_deposit b2 = b_deposit b - amt /\ b_owner b2 = b_owner b /\ b_raw b2 = b_raw b /\ b_qos b2 = b_qos b
    /\ s1 = emit (EvSlash r (c_svc rc, r_prov q) amt)
             (put_binding (set_supply (set_bank s (set Deposit (bal s Deposit - amt) (bank s))) (supply s - amt))
                (c_svc rc, r_prov q) b2).
Proof.
  unfold slash. intros H. inv_ok H.
  rename a into q, a0 into rc, a1 into b, a2 into sb.
  apply burn_some in Ha2. destruct Ha2 as (H0 & Hle & ->). b2p.
  set (amt := mul_trunc (b_deposit b) (p_slash cfg)) in *.
  set (b1 := setb_deposit b (b_deposit b - amt)) in *.
  destruct (b_avail b1) eqn:Eav.
  - inv_ok H. subst s1.
    match goal with |- context [put_binding _ _ ?bb] => exists q, rc, b, amt, bb end.
    repeat split; try assumption; try reflexivity.
    all: destruct (b_deposit b1 <? a); reflexivity.
  - inv_ok H. subst s1. exists q, rc, b, amt, b1. repeat split; try assumption; reflexivity.
Qed.

Lemma refund_shape s r cons fee s1 :
  refund_fee s r cons fee = Some s1 ->
  0 <= fee /\ fee <= bal s Escrow
  /\ s1 = emit (EvRefund r cons fee)
         (set_bank s (set (User cons) (get0 (User cons) (set Escrow (bal s Escrow - fee) (bank s)) + fee)
                       (set Escrow (bal s Escrow - fee) (bank s)))).
Proof.
  unfold refund_fee. destruct (transfer Escrow (User cons) fee s) as [s0|] eqn:E; [|discriminate].
  intros H. injection H as <-. apply transfer_some in E. destruct E as (H0 & Hle & ->). auto.
Qed.

(* fields untouched by slash / refund: everything the request bookkeeping reads *)
Definition same_req_core (s s1 : State) : Prop :=
  reqs s1 = reqs s /\ resps s1 = resps s /\ ctxs s1 = ctxs s /\ earned s1 = earned s
  /\ own_earned s1 = own_earned s /\ expq s1 = expq s /\ expq_h s1 = expq_h s
  /\ newq s1 = newq s /\ newq_h s1 = newq_h s /\ owner_of s1 = owner_of s
  /\ height s1 = height s /\ time s1 = time s /\ vols s1 = vols s /\ pricing s1 = pricing s
  /\ defs s1 = defs s.

Lemma same_req_core_refl s : same_req_core s s.
Proof. repeat split. Qed.

Lemma slash_core cfg s r s1 : slash cfg s r = Ok s1 -> same_req_core s s1.
Proof. intros H. apply slash_shape in H. destruct H as (q & rc & b & amt & b2 & _ & _ & _ & _ & _ & _ & _ & _ & _ & _ & _ & ->). repeat split. Qed.

Lemma refund_core s r cons fee s1 : refund_fee s r cons fee = Some s1 -> same_req_core s s1.
Proof. intros H. apply refund_shape in H. destruct H as (_ & _ & ->). repeat split. Qed.

Lemma slash_bal cfg s r s1 x : slash cfg s r = Ok s1 -> x <> Deposit -> bal s1 x = bal s x.
Proof.
  intros H Hx. apply slash_shape in H. destruct H as (q & rc & b & amt & b2 & _ & _ & _ & _ & _ & _ & _ & _ & _ & _ & _ & ->).
  unfold bal. sproj. rewrite get0_set. destruct (eqb_spec x Deposit); [contradiction|reflexivity].
Qed.

Lemma refund_bal s r cons fee s1 x :
  refund_fee s r cons fee = Some s1 ->
  bal s1 x = bal s x - (if eqb x Escrow then fee else 0) + (if eqb x (User cons) then fee else 0).
Proof.
  unfold refund_fee. destruct (transfer Escrow (User cons) fee s) as [s0|] eqn:E; [|discriminate].
  intros H. injection H as <-. unfold bal. sproj. fold (bal s0 x). now rewrite (transfer_bal _ _ _ _ _ x E).
Qed.

(* deactivate *)
Lemma deactivate_reqs s r :
  reqs (deactivate s r) = match get r (reqs s) with
                          | Some q => set r (setr_active q false) (reqs s)
                          | None => reqs s end.
Proof. unfold deactivate. destruct (get r (reqs s)); reflexivity. Qed.

Lemma deactivate_other s r :
  deactivate s r = set_reqs s (reqs (deactivate s r)).
Proof. unfold deactivate. destruct (get r (reqs s)); [reflexivity|]. now destruct s. Qed.

Lemma msum_fee_deactivate s r q :
  get r (reqs s) = Some q ->
  msum fee_active (reqs (deactivate s r)) = msum fee_active (reqs s) - fee_active r q.
Proof.
  intros G. rewrite deactivate_reqs, G, msum_set. unfold fget. rewrite G.
  unfold fee_active at 3. cbn [r_active setr_active]. lia.
Qed.
