(* Characterisations of the helper functions that touch requests, fees and the
   escrow account: slash, refund_fee, add_earned_fee, deactivate, expire_req,
   issue_all, clean_batch. *)
From Coq Require Import List ZArith Bool Lia Permutation.
From SVC Require Import Base.AMap Base.Res Base.Dec Model.Types Model.Pricing
  Model.Handlers Model.EndBlock Model.Step Proofs.Inv Proofs.Lemmas.
Import ListNotations.
Open Scope Z_scope.

(* ---------- sums ---------- *)

Lemma msum_zero_each {K V} `{EqDec K} (f : K -> V -> Z) (m : amap K V) :
  (forall k v, In (k, v) m -> 0 <= f k v) -> msum f m = 0 ->
  forall k v, In (k, v) m -> f k v = 0.
Proof.
  induction m as [|[k0 v0] t IH]; cbn [msum In]; [tauto|].
  intros Hn Hs k v [E|Hin].
  - injection E as -> ->.
    assert (0 <= f k v) by (apply Hn; now left).
    assert (0 <= msum f t) by (apply msum_nonneg; intros; apply Hn; now right). lia.
  - apply IH; [intros; apply Hn; now right| |assumption].
    assert (0 <= f k0 v0) by (apply Hn; now left).
    assert (0 <= msum f t) by (apply msum_nonneg; intros; apply Hn; now right). lia.
Qed.

Lemma msum_fold_del_zero {K V} `{EqDec K} (f : K -> V -> Z) (l : list K) (m : amap K V) :
  wf m -> (forall k, In k l -> fget f k m = 0) ->
  msum f (fold_left (fun m r => del r m) l m) = msum f m.
Proof.
  revert m. induction l as [|a l IH]; cbn [fold_left]; intros m Hw Hz; [reflexivity|].
  rewrite IH.
  - rewrite msum_del, Hz by now left. lia.
  - now apply wf_del.
  - intros k Hk. unfold fget. rewrite get_del by assumption.
    destruct (eqb_spec k a); [reflexivity|]. apply Hz. now right.
Qed.

Lemma get0_add_to {K} `{EqDec K} (k k' : K) e (m : amap K Z) :
  0 <= e -> 0 <= get0 k m ->
  get0 k' (add_to k e m) = if eqb k' k then get0 k m + e else get0 k' m.
Proof.
  intros He Hg. unfold add_to. destruct (get0 k m + e =? 0) eqn:E.
  - apply Z.eqb_eq in E. destruct (eqb_spec k' k) as [->|]; [lia|reflexivity].
  - now rewrite get0_set.
Qed.

Lemma msum_vid_add_to {K} `{EqDec K} (k : K) e (m : amap K Z) :
  0 <= e -> 0 <= get0 k m -> msum vid (add_to k e m) = msum vid m + e.
Proof.
  intros He Hg. unfold add_to. destruct (get0 k m + e =? 0) eqn:E.
  - apply Z.eqb_eq in E. lia.
  - rewrite msum_set, fget_vid. unfold vid. lia.
Qed.

(* ---------- shapes of the helpers ---------- *)

Lemma slash_shape cfg s r s1 :
  slash cfg s r = Ok s1 ->
  exists q rc b amt b2,
    get r (reqs s) = Some q /\ get (rid_ctx r) (ctxs s) = Some rc
    /\ get (c_svc rc, r_prov q) (binds s) = Some b
    /\ amt = mul_trunc (b_deposit b) (p_slash cfg)
    /\ 0 <= amt /\ amt <= b_deposit b /\ amt <= bal s Deposit
    /\ b_deposit b2 = b_deposit b - amt /\ b_owner b2 = b_owner b /\ b_raw b2 = b_raw b /\ b_qos b2 = b_qos b
    /\ s1 = emit (EvSlash r (c_svc rc, r_prov q) amt)
             (put_binding (set_supply (set_bank s (set Deposit (bal s Deposit - amt) (bank s))) (supply s - amt))
                (c_svc rc, r_prov q) b2).
Proof.
  unfold slash. intros H. inv_ok H.
  rename a into q, a0 into rc, a1 into b, a2 into sb, a3 into b2.
  apply burn_some in Ha2. destruct Ha2 as (H0 & Hle & ->). b2p.
  set (amt := mul_trunc (b_deposit b) (p_slash cfg)) in *.
  set (b1 := setb_deposit b (b_deposit b - amt)) in *.
  subst s1. exists q, rc, b, amt, b2.
  assert (Hb2 : b_deposit b2 = b_deposit b - amt /\ b_owner b2 = b_owner b /\ b_raw b2 = b_raw b /\ b_qos b2 = b_qos b).
  { destruct (b_avail b1) eqn:Eav.
    - inv_ok Ha3. subst b2.
      match goal with |- context [if ?c then _ else _] => destruct c end; repeat split.
    - inv_ok Ha3. subst b2. repeat split. }
  destruct Hb2 as (? & ? & ? & ?).
  repeat split; try assumption; try reflexivity.
Qed.

Lemma refund_shape s r cons fee s1 :
  refund_fee s r cons fee = Some s1 ->
  0 <= fee /\ fee <= bal s Escrow
  /\ s1 = emit (EvRefund r cons fee)
         (set_bank s (set (User cons) (get0 (User cons) (set Escrow (bal s Escrow - fee) (bank s)) + fee)
                       (set Escrow (bal s Escrow - fee) (bank s)))).
Proof.
  unfold refund_fee. destruct (transfer Escrow (User cons) fee s) as [s0|] eqn:E; [|discriminate].
  intros H. injection H as <-. apply transfer_some in E. destruct E as (H0 & Hle & ->). auto.
Qed.

(* fields untouched by slash / refund: everything the request bookkeeping reads *)
Definition same_req_core (s s1 : State) : Prop :=
  reqs s1 = reqs s /\ resps s1 = resps s /\ ctxs s1 = ctxs s /\ earned s1 = earned s
  /\ own_earned s1 = own_earned s /\ expq s1 = expq s /\ expq_h s1 = expq_h s
  /\ newq s1 = newq s /\ newq_h s1 = newq_h s /\ owner_of s1 = owner_of s
  /\ height s1 = height s /\ time s1 = time s /\ vols s1 = vols s /\ pricing s1 = pricing s
  /\ defs s1 = defs s.

Lemma same_req_core_refl s : same_req_core s s.
Proof. repeat split. Qed.

Lemma slash_core cfg s r s1 : slash cfg s r = Ok s1 -> same_req_core s s1.
Proof. intros H. apply slash_shape in H. destruct H as (q & rc & b & amt & b2 & _ & _ & _ & _ & _ & _ & _ & _ & _ & _ & _ & ->). repeat split. Qed.

Lemma refund_core s r cons fee s1 : refund_fee s r cons fee = Some s1 -> same_req_core s s1.
Proof. intros H. apply refund_shape in H. destruct H as (_ & _ & ->). repeat split. Qed.

Lemma slash_bal cfg s r s1 x : slash cfg s r = Ok s1 -> x <> Deposit -> bal s1 x = bal s x.
Proof.
  intros H Hx. apply slash_shape in H. destruct H as (q & rc & b & amt & b2 & _ & _ & _ & _ & _ & _ & _ & _ & _ & _ & _ & ->).
  unfold bal. sproj. rewrite get0_set. destruct (eqb_spec x Deposit); [contradiction|reflexivity].
Qed.

Lemma refund_bal s r cons fee s1 x :
  refund_fee s r cons fee = Some s1 ->
  bal s1 x = bal s x - (if eqb x Escrow then fee else 0) + (if eqb x (User cons) then fee else 0).
Proof.
  unfold refund_fee. destruct (transfer Escrow (User cons) fee s) as [s0|] eqn:E; [|discriminate].
  intros H. injection H as <-. unfold bal. sproj. fold (bal s0 x). now rewrite (transfer_bal _ _ _ _ _ x E).
Qed.

(* deactivate *)
Lemma deactivate_reqs s r :
  reqs (deactivate s r) = match get r (reqs s) with
                          | Some q => set r (setr_active q false) (reqs s)
                          | None => reqs s end.
Proof. unfold deactivate. destruct (get r (reqs s)); reflexivity. Qed.

Lemma deactivate_other s r :
  deactivate s r = set_reqs s (reqs (deactivate s r)).
Proof. unfold deactivate. destruct (get r (reqs s)); [reflexivity|]. now destruct s. Qed.

Lemma msum_fee_deactivate s r q :
  get r (reqs s) = Some q ->
  msum fee_active (reqs (deactivate s r)) = msum fee_active (reqs s) - fee_active r q.
Proof.
  intros G. rewrite deactivate_reqs, G, msum_set. unfold fget. rewrite G.
  unfold fee_active at 3. cbn [r_active setr_active]. lia.
Qed.

Lemma add_earned_shape cfg s r prov fee s1 :
  add_earned_fee cfg s r prov fee = Ok s1 ->
  exists o s0,
    let tax := mul_trunc fee (p_tax cfg) in
    transfer Escrow FeeColl tax s = Some s0 /\ tax <= fee
    /\ get prov (owner_of s) = Some o
    /\ s1 = emit (EvEarn r prov (fee - tax)) (emit (EvTax r tax)
              (set_own_earned (set_earned (set_bank s (bank s0)) (add_to prov (fee - tax) (earned s)))
                 (add_to o (fee - tax) (own_earned s)))).
Proof.
  unfold add_earned_fee. intros H. inv_ok H. b2p.
  pose proof (transfer_frame _ _ _ _ _ Ha) as Hf.
  sproj. rewrite Hf in H. sproj.
  destruct (get prov (owner_of s)) as [o|] eqn:Eo; inv_ok H.
  exists o, a. cbv zeta. repeat split; try assumption. now subst s1.
Qed.

(* what the tail of h_respond does to the fields the money invariants read *)
Lemma complete_batch_frame s c rc :
  let s1 := fst (complete_batch s c rc) in
  reqs s1 = reqs s /\ resps s1 = resps s /\ earned s1 = earned s /\ own_earned s1 = own_earned s
  /\ bank s1 = bank s /\ supply s1 = supply s /\ ctxs s1 = ctxs s /\ binds s1 = binds s
  /\ expq s1 = expq s /\ expq_h s1 = expq_h s /\ newq s1 = newq s /\ newq_h s1 = newq_h s
  /\ vols s1 = vols s /\ owner_of s1 = owner_of s /\ pricing s1 = pricing s
  /\ height s1 = height s /\ time s1 = time s.
Proof.
  unfold complete_batch, callback. cbn [fst].
  destruct (c_mod rc =? 0); [repeat split|].
  destruct (get c (ctxs s)); repeat split.
Qed.

Lemma resp_tail_money s1 r who rc0 code out c rc :
  let s' := resp_finish (resp_mid s1 r who rc0 code out) c rc in
  reqs s' = reqs (deactivate s1 r) /\ earned s' = earned s1 /\ own_earned s' = own_earned s1
  /\ bank s' = bank s1 /\ supply s' = supply s1 /\ binds s' = binds s1.
Proof.
  cbv zeta. unfold resp_finish.
  set (sm := resp_mid s1 r who rc0 code out).
  assert (Hm : reqs sm = reqs (deactivate s1 r) /\ earned sm = earned s1 /\ own_earned sm = own_earned s1
               /\ bank sm = bank s1 /\ supply sm = supply s1 /\ binds sm = binds s1).
  { unfold sm, resp_mid. sproj. unfold deactivate. sproj.
    destruct (get r (reqs s1)); sproj; repeat split. }
  destruct Hm as (M1 & M2 & M3 & M4 & M5 & M6).
  destruct (c_bresp (setc_bresp rc (c_bresp rc + 1)) =? c_breq (setc_bresp rc (c_bresp rc + 1))).
  - pose proof (complete_batch_frame sm c (setc_bresp rc (c_bresp rc + 1))) as F. cbv zeta in F.
    destruct F as (F1 & _ & F3 & F4 & F5 & F6 & _ & F8 & _). sproj.
    rewrite F1, F3, F4, F5, F6, F8. repeat split; assumption.
  - sproj. repeat split; assumption.
Qed.

(* ---------- expire_req ---------- *)

Definition deact (q : Req) : Req := setr_active q false.

Lemma same_req_core_trans a b c : same_req_core a b -> same_req_core b c -> same_req_core a c.
Proof.
  unfold same_req_core. intros H1 H2.
  repeat match goal with H : _ /\ _ |- _ => destruct H end.
  repeat split; congruence.
Qed.

(* the settlement part of expire_req (before the markers are deleted) *)
Definition expire_settle (cfg : Params) (s : State) (r : ReqId) (q : Req) (rc : Ctx) : State :=
  if c_super rc then s
  else
    let sa := match slash cfg s r with Ok x => x | _ => s end in
    match refund_fee sa r (c_cons rc) (r_fee q) with Some x => x | None => sa end.

Lemma expire_req_unfold cfg s r q rc :
  get r (reqs s) = Some q -> get (rid_ctx r) (ctxs s) = Some rc ->
  expire_req cfg s r = emit (EvExpire r) (deactivate (expire_settle cfg s r q rc) r).
Proof. intros G1 G2. unfold expire_req, expire_settle. now rewrite G1, G2. Qed.

Lemma expire_req_skip cfg s r :
  get r (reqs s) = None \/ get (rid_ctx r) (ctxs s) = None -> expire_req cfg s r = s.
Proof.
  unfold expire_req. intros [G|G]; rewrite G; [reflexivity|]. now destruct (get r (reqs s)).
Qed.

Lemma expire_settle_core cfg s r q rc : same_req_core s (expire_settle cfg s r q rc).
Proof.
  unfold expire_settle. destruct (c_super rc); [apply same_req_core_refl|].
  assert (H1 : same_req_core s (match slash cfg s r with Ok x => x | _ => s end)).
  { destruct (slash cfg s r) eqn:Es; try apply same_req_core_refl. eapply slash_core; eauto. }
  destruct (refund_fee _ r (c_cons rc) (r_fee q)) eqn:Er; [|exact H1].
  eapply same_req_core_trans; [exact H1|]. eapply refund_core; eauto.
Qed.

Lemma expire_req_reqs cfg s r :
  reqs (expire_req cfg s r) =
  match get r (reqs s), get (rid_ctx r) (ctxs s) with
  | Some q, Some _ => set r (deact q) (reqs s)
  | _, _ => reqs s
  end.
Proof.
  destruct (get r (reqs s)) as [q|] eqn:G1; [|now rewrite expire_req_skip by auto].
  destruct (get (rid_ctx r) (ctxs s)) as [rc|] eqn:G2; [|now rewrite expire_req_skip by auto].
  rewrite (expire_req_unfold _ _ _ _ _ G1 G2). sproj.
  pose proof (expire_settle_core cfg s r q rc) as (C1 & _).
  rewrite deactivate_reqs, C1, G1. reflexivity.
Qed.

Lemma expire_req_core cfg s r :
  let s' := expire_req cfg s r in
  resps s' = resps s /\ ctxs s' = ctxs s /\ earned s' = earned s /\ own_earned s' = own_earned s
  /\ expq s' = expq s /\ expq_h s' = expq_h s /\ newq s' = newq s /\ newq_h s' = newq_h s
  /\ owner_of s' = owner_of s /\ height s' = height s /\ time s' = time s /\ vols s' = vols s
  /\ pricing s' = pricing s /\ defs s' = defs s.
Proof.
  cbv zeta.
  destruct (get r (reqs s)) as [q|] eqn:G1; [|rewrite expire_req_skip by auto; repeat split].
  destruct (get (rid_ctx r) (ctxs s)) as [rc|] eqn:G2; [|rewrite expire_req_skip by auto; repeat split].
  rewrite (expire_req_unfold _ _ _ _ _ G1 G2).
  pose proof (expire_settle_core cfg s r q rc) as C. unfold same_req_core in C.
  repeat match goal with H : _ /\ _ |- _ => destruct H end.
  rewrite deactivate_other. sproj. repeat split; assumption.
Qed.

(* folding expire_req over a duplicate-free list deactivates exactly its members *)
Lemma fold_expire_core cfg l s :
  let s' := fold_left (expire_req cfg) l s in
  resps s' = resps s /\ ctxs s' = ctxs s /\ earned s' = earned s /\ own_earned s' = own_earned s
  /\ expq s' = expq s /\ expq_h s' = expq_h s /\ newq s' = newq s /\ newq_h s' = newq_h s
  /\ owner_of s' = owner_of s /\ height s' = height s /\ time s' = time s /\ vols s' = vols s
  /\ pricing s' = pricing s /\ defs s' = defs s.
Proof.
  cbv zeta. revert s. induction l as [|r l IH]; intros s; cbn [fold_left]; [repeat split|].
  specialize (IH (expire_req cfg s r)).
  pose proof (expire_req_core cfg s r) as C. cbv zeta in C.
  repeat match goal with H : _ /\ _ |- _ => destruct H end.
  repeat split; congruence.
Qed.

Lemma fold_expire_reqs cfg l s :
  wf (reqs s) ->
  (forall r, In r l -> exists rc, get (rid_ctx r) (ctxs s) = Some rc) ->
  wf (reqs (fold_left (expire_req cfg) l s))
  /\ forall r, get r (reqs (fold_left (expire_req cfg) l s))
       = if mem r l then option_map deact (get r (reqs s)) else get r (reqs s).
Proof.
  revert s. induction l as [|a l IH]; intros s Hw Hc; cbn [fold_left mem]; [auto|].
  assert (Hw1 : wf (reqs (expire_req cfg s a))).
  { rewrite expire_req_reqs. destruct (get a (reqs s)); [|assumption].
    destruct (get (rid_ctx a) (ctxs s)); [now apply wf_set|assumption]. }
  assert (Hc1 : forall r, In r l -> exists rc, get (rid_ctx r) (ctxs (expire_req cfg s a)) = Some rc).
  { intros r Hr. pose proof (expire_req_core cfg s a) as (_ & C2 & _). rewrite C2. apply Hc. now right. }
  destruct (IH _ Hw1 Hc1) as (Hw2 & Hg). split; [assumption|].
  intros r. rewrite Hg. rewrite expire_req_reqs.
  destruct (Hc a (or_introl eq_refl)) as (rca & Grc). rewrite Grc.
  destruct (eqb_spec r a) as [->|Hne].
  - destruct (get a (reqs s)) as [q|] eqn:G.
    + rewrite get_set_eq. destruct (mem a l); reflexivity.
    + rewrite G. destruct (mem a l); reflexivity.
  - destruct (get a (reqs s)) as [q|] eqn:G; [rewrite get_set_neq by assumption|]; reflexivity.
Qed.

(* ---------- request id lists of a batch ---------- *)

Lemma NoDup_map_fst_filter {K V} (f : K * V -> bool) (m : list (K * V)) :
  NoDup (map fst m) -> NoDup (map fst (filter f m)).
Proof.
  induction m as [|[k v] t IH]; cbn [map filter fst]; intros Hn; [constructor|].
  inversion Hn as [|? ? Hni Hn']; subst.
  destruct (f (k, v)); [|auto]. cbn [map fst]. constructor; [|auto].
  intros Hin. apply Hni. apply in_map_iff in Hin. destruct Hin as ([k' v'] & E & Hin).
  cbn [fst] in E. subst k'. apply filter_In in Hin. destruct Hin as [Hin _].
  apply in_map_iff. exists (k, v'). auto.
Qed.

Lemma in_batch_spec c n r : in_batch c n r = true <-> rid_ctx r = c /\ rid_batch r = n.
Proof.
  unfold in_batch. rewrite andb_true_iff, Z.eqb_eq. rewrite (eqb_eq (rid_ctx r) c). tauto.
Qed.

Lemma In_active_rids s c n r :
  wf (reqs s) ->
  In r (active_rids s c n) <->
  exists q, get r (reqs s) = Some q /\ rid_ctx r = c /\ rid_batch r = n /\ r_active q = true.
Proof.
  intros Hw. unfold active_rids. rewrite isort_In, in_map_iff. split.
  - intros ([r' q] & E & Hin). cbn [fst] in E. subst r'. apply filter_In in Hin.
    destruct Hin as [Hin Hf]. cbn [fst snd] in Hf. apply andb_prop in Hf. destruct Hf as [Hb Ha].
    apply in_batch_spec in Hb. exists q. split; [now apply In_get|tauto].
  - intros (q & G & Hc & Hb & Ha). exists (r, q). split; [reflexivity|].
    apply filter_In. split; [now apply get_In|]. cbn [fst snd].
    apply andb_true_intro. split; [apply in_batch_spec; tauto|assumption].
Qed.

Lemma NoDup_active_rids s c n : wf (reqs s) -> NoDup (active_rids s c n).
Proof. intros Hw. unfold active_rids. apply isort_NoDup. now apply NoDup_map_fst_filter. Qed.

Lemma In_batch_rids s c n r :
  In r (batch_rids s c n) <-> In r (keys (reqs s)) /\ rid_ctx r = c /\ rid_batch r = n.
Proof.
  unfold batch_rids. rewrite isort_In, filter_In, in_batch_spec. tauto.
Qed.

Lemma clean_batch_fields s c n :
  let s' := clean_batch s c n in
  reqs s' = fold_left (fun m r => del r m) (batch_rids s c n) (reqs s)
  /\ resps s' = fold_left (fun m r => del r m) (batch_rids s c n) (resps s)
  /\ s' = set_resps (set_reqs s (reqs s')) (resps s').
Proof. unfold clean_batch. sproj. repeat split. Qed.

(* ---------- issuing requests ---------- *)

Definition fee_of (s : State) (rc : Ctx) (prov : Z) : Z :=
  if c_super rc then 0
  else get_price (pricing_of s (c_svc rc, prov)) (time s) (vol_of s (c_cons rc) (c_svc rc) prov).

Definition new_req (s : State) (rc : Ctx) (prov : Z) : Req :=
  mkReq prov (fee_of s rc prov) (height s + c_timeout rc) true.

Lemma issue_one_eq s c rc n i prov :
  issue_one s c rc n i prov =
  emit (EvIssue (c, n, height s, i) prov (c_cons rc) (fee_of s rc prov))
    (set_reqs s (set (c, n, height s, i) (new_req s rc prov) (reqs s))).
Proof. reflexivity. Qed.

(* fields issue_all leaves alone *)
Definition same_but_reqs (s s1 : State) : Prop :=
  height s1 = height s /\ time s1 = time s /\ defs s1 = defs s /\ binds s1 = binds s
  /\ pricing s1 = pricing s /\ owner_of s1 = owner_of s /\ own_prov s1 = own_prov s
  /\ own_bind s1 = own_bind s /\ wdaddr s1 = wdaddr s /\ ctxs s1 = ctxs s
  /\ expq s1 = expq s /\ expq_h s1 = expq_h s /\ newq s1 = newq s /\ newq_h s1 = newq_h s
  /\ resps s1 = resps s /\ vols s1 = vols s /\ earned s1 = earned s
  /\ own_earned s1 = own_earned s /\ bank s1 = bank s /\ supply s1 = supply s.

Lemma issue_one_frame s c rc n i prov : same_but_reqs s (issue_one s c rc n i prov).
Proof. rewrite issue_one_eq. unfold same_but_reqs. sproj. repeat split. Qed.

Lemma new_req_stable s s1 rc prov :
  height s1 = height s -> time s1 = time s -> pricing s1 = pricing s -> vols s1 = vols s ->
  new_req s1 rc prov = new_req s rc prov.
Proof.
  intros H1 H2 H3 H4. unfold new_req, fee_of, pricing_of, vol_of. now rewrite H1, H2, H3, H4.
Qed.

Lemma issue_all_frame s c rc n i provs : same_but_reqs s (issue_all s c rc n i provs).
Proof.
  revert s i. induction provs as [|p t IH]; intros s i; cbn [issue_all].
  - unfold same_but_reqs. repeat split.
  - specialize (IH (issue_one s c rc n i p) (i + 1)).
    pose proof (issue_one_frame s c rc n i p) as F. unfold same_but_reqs in *.
    repeat match goal with H : _ /\ _ |- _ => destruct H end.
    repeat split; congruence.
Qed.

Fixpoint sum_new (f : ReqId -> Req -> Z) (s : State) (c : CtxId) (rc : Ctx) (n i : Z) (provs : list Z) : Z :=
  match provs with
  | [] => 0
  | p :: t => f (c, n, height s, i) (new_req s rc p) + sum_new f s c rc n (i + 1) t
  end.

Lemma sum_new_stable f s s1 c rc n i provs :
  height s1 = height s -> time s1 = time s -> pricing s1 = pricing s -> vols s1 = vols s ->
  sum_new f s1 c rc n i provs = sum_new f s c rc n i provs.
Proof.
  intros H1 H2 H3 H4. revert i. induction provs as [|p t IH]; intros i; cbn [sum_new]; [reflexivity|].
  rewrite IH, H1. now rewrite (new_req_stable s s1) by assumption.
Qed.

Lemma rid_neq_index (c : CtxId) (n h i j : Z) : i <> j -> ((c, n, h, i) : ReqId) <> (c, n, h, j).
Proof. congruence. Qed.

Lemma issue_all_reqs f s c rc n i provs :
  wf (reqs s) ->
  (forall j, i <= j -> get (c, n, height s, j) (reqs s) = None) ->
  wf (reqs (issue_all s c rc n i provs))
  /\ msum f (reqs (issue_all s c rc n i provs)) = msum f (reqs s) + sum_new f s c rc n i provs
  /\ (forall r, rid_ctx r <> c -> get r (reqs (issue_all s c rc n i provs)) = get r (reqs s)).
Proof.
  revert s i. induction provs as [|p t IH]; intros s i Hw Hfresh; cbn [issue_all sum_new].
  - split; [assumption|]. split; [lia|reflexivity].
  - set (s1 := issue_one s c rc n i p).
    pose proof (issue_one_frame s c rc n i p) as F. fold s1 in F.
    destruct F as (F1 & F2 & _ & _ & F5 & _ & _ & _ & _ & _ & _ & _ & _ & _ & _ & F16 & _).
    assert (R1 : reqs s1 = set (c, n, height s, i) (new_req s rc p) (reqs s)) by reflexivity.
    assert (Hw1 : wf (reqs s1)) by (rewrite R1; now apply wf_set).
    assert (Hf1 : forall j, i + 1 <= j -> get (c, n, height s1, j) (reqs s1) = None).
    { intros j Hj. rewrite F1, R1. rewrite get_set_neq; [apply Hfresh; lia|].
      apply rid_neq_index. lia. }
    destruct (IH s1 (i + 1) Hw1 Hf1) as (W & S & O).
    split; [assumption|]. split.
    + rewrite S, R1, msum_set. unfold fget.
      match goal with |- context [match ?g with Some _ => _ | None => _ end] =>
        replace g with (@None Req) by (symmetry; apply Hfresh; lia) end.
      rewrite (sum_new_stable f s s1) by assumption. lia.
    + intros r Hr. rewrite O by assumption. rewrite R1. apply get_set_neq.
      intros ->. apply Hr. reflexivity.
Qed.

Lemma filter_providers_sum s rc provs :
  sum_prices (filter_providers s rc provs)
  = fold_right (fun p a =>
      exchanged_price (pricing_of s (c_svc rc, p)) (time s) (vol_of s (c_cons rc) (c_svc rc) p) + a)
      0 (map fst (filter_providers s rc provs)).
Proof.
  induction provs as [|p t IH]; cbn [filter_providers]; [reflexivity|].
  destruct (eligible s rc p) as [price|] eqn:E; [|exact IH].
  cbn [sum_prices fold_right map fst snd]. fold (sum_prices (filter_providers s rc t)). rewrite IH.
  unfold eligible in E. destruct (get (c_svc rc, p) (binds s)) as [b|]; [|discriminate].
  destruct (b_avail b && (b_qos b <=? c_timeout rc)); [|discriminate].
  destruct (_ <=? c_cap rc); [|discriminate]. injection E as <-. reflexivity.
Qed.

Lemma sum_new_fee s c rc n i provs :
  sum_new fee_active s c rc n i provs
  = if c_super rc then 0
    else fold_right (fun p a =>
      get_price (pricing_of s (c_svc rc, p)) (time s) (vol_of s (c_cons rc) (c_svc rc) p) + a) 0 provs.
Proof.
  revert i. induction provs as [|p t IH]; intros i; cbn [sum_new fold_right].
  - now destruct (c_super rc).
  - rewrite IH. unfold fee_active, new_req, fee_of. cbn [r_active r_fee].
    destruct (c_super rc); lia.
Qed.

Lemma issue_all_get s c rc n i provs r q :
  get r (reqs (issue_all s c rc n i provs)) = Some q ->
  get r (reqs s) = Some q
  \/ exists k p, nth_error provs k = Some p /\ r = (c, n, height s, i + Z.of_nat k)
                 /\ q = new_req s rc p.
Proof.
  revert s i. induction provs as [|p t IH]; intros s i G; cbn [issue_all] in G; [now left|].
  set (s1 := issue_one s c rc n i p) in *.
  pose proof (issue_one_frame s c rc n i p) as F. fold s1 in F.
  destruct F as (F1 & F2 & _ & _ & F5 & _ & _ & _ & _ & _ & _ & _ & _ & _ & _ & F16 & _).
  destruct (IH s1 (i + 1) G) as [G1|(k & p' & Hn & -> & ->)].
  - assert (R1 : reqs s1 = set (c, n, height s, i) (new_req s rc p) (reqs s)) by reflexivity.
    rewrite R1, get_set in G1.
    destruct (eqb_spec r (c, n, height s, i)) as [->|Hne]; [|now left].
    right. exists 0%nat, p. injection G1 as <-. repeat split. f_equal. lia.
  - right. exists (S k), p'. split; [exact Hn|]. rewrite F1.
    rewrite (new_req_stable s s1) by assumption. split; [|reflexivity]. f_equal. lia.
Qed.

Lemma nth_error_len {A} (l : list A) k x : nth_error l k = Some x -> Z.of_nat k < len l.
Proof.
  intros H. unfold len. apply Nat2Z.inj_lt. apply nth_error_Some. congruence.
Qed.

Lemma sum_new_active s c rc n i provs c' :
  sum_new (active_in c') s c rc n i provs = if eqb c c' then len provs else 0.
Proof.
  revert i. induction provs as [|p t IH]; intros i; cbn [sum_new]; [now destruct (eqb c c')|].
  rewrite IH. unfold active_in, new_req. cbn [rid_ctx fst r_active].
  unfold len. cbn [length]. rewrite Nat2Z.inj_succ.
  destruct (eqb c c'); cbn [andb]; lia.
Qed.

Lemma In_filter_providers s rc provs p :
  In p (map fst (filter_providers s rc provs)) ->
  exists b, get (c_svc rc, p) (binds s) = Some b.
Proof.
  induction provs as [|a t IH]; cbn [filter_providers map]; [intros []|].
  destruct (eligible s rc a) as [price|] eqn:E; [|exact IH].
  cbn [map fst In]. intros [<-|Hin]; [|auto].
  unfold eligible in E. destruct (get (c_svc rc, a) (binds s)) as [b|]; [eauto|discriminate].
Qed.
