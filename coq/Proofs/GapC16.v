(* C16 gaps: block-level statements.

   - C16_end_block_cleanup: after the EndBlock in which the expiry of a context's batch is due,
     no request / response record of that batch (or of an older one) remains, also when the
     next batch of the same context is issued in the same block (frequency = timeout).
   - C16_end_block_finished_removed: a finished context (killed, one-shot, total reached) whose
     batch expires is gone after the block, with its queue pointers and all its records, no
     matter which other contexts expire or start in the same block; an unfinished one stays.
   - the honest counterpart of "the pending-request markers are removed": when the batch is
     complete no request of the context is active (C16_no_marker_when_batch_done); after the
     expiry loop and before CleanBatch none is (C16_markers_cleared_before_clean).
   - C16_marker_key_stable: the fields from which DeleteActiveRequest rebuilds the marker key
     (service name of the context, provider and expiration height of the compact request)
     never change while the record exists. *)
From Coq Require Import List ZArith Bool Lia Permutation.
From SVC Require Import Base.AMap Base.Res Base.Dec Model.Types Model.Pricing
  Model.Handlers Model.EndBlock Model.Step Proofs.Inv Proofs.Lemmas Proofs.ReqLemmas
  Proofs.CtxOps Proofs.InvSched Proofs.InvEscrow Proofs.InvReq Proofs.InvAll
  Proofs.ReachRun Proofs.C16Proofs Proofs.StepSpecs_ctx Proofs.StepSpecs_window
  Proofs.GapDBase.
Import ListNotations.
Open Scope Z_scope.

(* ------------------------------------------------------------------ *)
(* Keep c: the record and both queue pointers of c are untouched, the log grows *)

Record Keep (c : CtxId) (s s' : State) : Prop := mkKeep {
  k_ctx : get c (ctxs s') = get c (ctxs s);
  k_exp : get c (expq_h s') = get c (expq_h s);
  k_new : get c (newq_h s') = get c (newq_h s);
  k_log : incl (log s) (log s')
}.

Lemma Keep_refl c s : Keep c s s.
Proof. constructor; try reflexivity. apply incl_refl. Qed.

Lemma Keep_trans c s1 s2 s3 : Keep c s1 s2 -> Keep c s2 s3 -> Keep c s1 s3.
Proof. intros [] []. constructor; try congruence. eapply incl_tran; eassumption. Qed.

Lemma Touch_Keep a c s s' : Touch a s s' -> c <> a -> Keep c s s'.
Proof. intros [_ _ T1 T2 T3 T4] Hn. constructor; auto. Qed.

Lemma Keep_tick c s h t : Keep c s (set_time (set_height s h) t).
Proof. constructor; try reflexivity. apply incl_refl. Qed.

Section Block.
  Variable cfg : Params.
  Hypothesis Hcfg : wf_cfg cfg.

  Lemma Keep_expire_fold l s c :
    Inv cfg s -> height s < HEIGHT_BOUND -> NoDup l ->
    (forall a, In a l -> In (height s, a) (expq s)) -> ~ In c l ->
    Keep c s (fold_left (expire_one cfg) l s).
  Proof.
    intros Hi Hb Hn Hl Hni.
    apply (fold_expire_rel_on cfg (Keep c) Hcfg (Keep_refl c) (Keep_trans c) l); try assumption.
    intros s0 a Ha Hi0 Hd0 Hb0.
    destruct (expire_one_spec cfg s0 a Hcfg Hi0 Hd0 Hb0) as (_ & _ & _ & _ & _ & _ & Ht & _).
    eapply Touch_Keep; [exact Ht|]. intros ->. contradiction.
  Qed.

  Lemma Keep_new_fold l s c :
    Inv cfg s -> height s < HEIGHT_BOUND -> NoDup l ->
    (forall a, In a l -> In (height s, a) (newq s)) -> ~ In c l ->
    Keep c s (fold_left (new_one cfg) l s).
  Proof.
    intros Hi Hb Hn Hl Hni.
    apply (fold_new_rel_on cfg (Keep c) Hcfg (Keep_refl c) (Keep_trans c) l); try assumption.
    intros s0 a Ha Hi0 Hd0 Hb0.
    destruct (new_one_spec cfg s0 a Hi0 Hd0) as (_ & _ & _ & _ & Ht & _).
    eapply Touch_Keep; [exact Ht|]. intros ->. contradiction.
  Qed.

  (* the handler of a due context c runs from a state that shows c as the phase found it, and
     what it leaves of c is what the phase leaves *)
  Lemma expire_fold_forward l : forall s c,
    Inv cfg s -> height s < HEIGHT_BOUND -> NoDup l ->
    (forall a, In a l -> In (height s, a) (expq s)) -> In c l ->
    exists s1, Inv cfg s1 /\ height s1 = height s /\ In (height s1, c) (expq s1)
      /\ Keep c s s1 /\ Keep c (expire_one cfg s1 c) (fold_left (expire_one cfg) l s).
  Proof.
    induction l as [|a l IH]; intros s c Hi Hb Hn Hl Hin; [destruct Hin|].
    cbn [fold_left]. inversion Hn as [|? ? Hna Hn']; subst.
    assert (Hda : In (height s, a) (expq s)) by (apply Hl; now left).
    pose proof (Inv_expire_one cfg s a Hcfg Hi Hda Hb) as Hi1.
    pose proof (height_expire_one cfg s a Hcfg Hi Hda Hb) as Eh.
    pose proof (expq_after_expire_one cfg s a Hcfg Hi Hda Hb) as Eq.
    assert (Hb1 : height (expire_one cfg s a) < HEIGHT_BOUND) by now rewrite Eh.
    assert (Hl1 : forall c0, In c0 l -> In (height (expire_one cfg s a), c0) (expq (expire_one cfg s a))).
    { intros c0 Hc'. rewrite Eh. apply Eq. split; [apply Hl; now right|]. intros ->. contradiction. }
    destruct (eqb_spec c a) as [->|Hne].
    - exists s. split; [exact Hi|]. split; [reflexivity|]. split; [exact Hda|].
      split; [apply Keep_refl|]. now apply Keep_expire_fold.
    - destruct Hin as [E|Hin]; [congruence|].
      destruct (IH (expire_one cfg s a) c Hi1 Hb1 Hn' Hl1 Hin) as (s1 & I1 & H1 & D1 & K1 & K2).
      exists s1. split; [exact I1|]. split; [congruence|]. split; [exact D1|]. split; [|exact K2].
      eapply Keep_trans; [|exact K1].
      destruct (expire_one_spec cfg s a Hcfg Hi Hda Hb) as (_ & _ & _ & _ & _ & _ & Ht & _).
      eapply Touch_Keep; eauto.
  Qed.

  Lemma new_fold_forward l : forall s c,
    Inv cfg s -> height s < HEIGHT_BOUND -> NoDup l ->
    (forall a, In a l -> In (height s, a) (newq s)) -> In c l ->
    exists s1, Inv cfg s1 /\ height s1 = height s /\ In (height s1, c) (newq s1)
      /\ Keep c s s1 /\ Keep c (new_one cfg s1 c) (fold_left (new_one cfg) l s).
  Proof.
    induction l as [|a l IH]; intros s c Hi Hb Hn Hl Hin; [destruct Hin|].
    cbn [fold_left]. inversion Hn as [|? ? Hna Hn']; subst.
    assert (Hda : In (height s, a) (newq s)) by (apply Hl; now left).
    pose proof (Inv_new_one cfg s a Hcfg Hi Hda Hb) as Hi1.
    pose proof (height_new_one cfg s a Hcfg Hi Hda Hb) as Eh.
    pose proof (newq_after_new_one cfg s a Hcfg Hi Hda Hb) as Eq.
    assert (Hb1 : height (new_one cfg s a) < HEIGHT_BOUND) by now rewrite Eh.
    assert (Hl1 : forall c0, In c0 l -> In (height (new_one cfg s a), c0) (newq (new_one cfg s a))).
    { intros c0 Hc'. rewrite Eh. apply Eq. split; [apply Hl; now right|]. intros ->. contradiction. }
    destruct (eqb_spec c a) as [->|Hne].
    - exists s. split; [exact Hi|]. split; [reflexivity|]. split; [exact Hda|].
      split; [apply Keep_refl|]. now apply Keep_new_fold.
    - destruct Hin as [E|Hin]; [congruence|].
      destruct (IH (new_one cfg s a) c Hi1 Hb1 Hn' Hl1 Hin) as (s1 & I1 & H1 & D1 & K1 & K2).
      exists s1. split; [exact I1|]. split; [congruence|]. split; [exact D1|]. split; [|exact K2].
      eapply Keep_trans; [|exact K1].
      destruct (new_one_spec cfg s a Hi Hda) as (_ & _ & _ & _ & Ht & _).
      eapply Touch_Keep; eauto.
  Qed.

  (* ---------------------------------------------------------------- *)
  (* what a whole EndBlocker leaves of a context whose expiry is due *)

  Definition ctx_view (c : CtxId) (s : State) : option Ctx * option Z * option Z :=
    (get c (ctxs s), get c (expq_h s), get c (newq_h s)).

  Lemma Keep_view c s s' : Keep c s s' -> ctx_view c s' = ctx_view c s.
  Proof. intros [A B C _]. unfold ctx_view. now rewrite A, B, C. Qed.

  Definition True2 (_ _ : State) : Prop := True.

  Lemma mid_facts s : Inv cfg s -> height s < HEIGHT_BOUND ->
    Inv cfg (mid_state cfg s) /\ height (mid_state cfg s) = height s.
  Proof.
    intros Hi Hb.
    destruct (mid_state_facts cfg True2 Hcfg (fun _ => I) (fun _ _ _ _ _ => I)
                (fun _ _ _ _ _ => I) s Hi Hb) as (A & B & _).
    auto.
  Qed.

  (* Either c is not visited by the new-batch phase: its view after the block is the view the
     expiry handler left; or it is: then the view is the one its new-batch handler left, which
     started from the view the expiry handler left. *)
  Lemma end_blocker_due_view s c :
    Inv cfg s -> height s < HEIGHT_BOUND -> In (height s, c) (expq s) ->
    exists s1, Inv cfg s1 /\ height s1 = height s /\ In (height s1, c) (expq s1)
      /\ ctx_view c s1 = ctx_view c s
      /\ incl (log (expire_one cfg s1 c)) (log (end_blocker cfg s))
      /\ (ctx_view c (end_blocker cfg s) = ctx_view c (expire_one cfg s1 c)
          \/ exists s2, Inv cfg s2 /\ height s2 = height s /\ In (height s2, c) (newq s2)
               /\ ctx_view c s2 = ctx_view c (expire_one cfg s1 c)
               /\ ctx_view c (end_blocker cfg s) = ctx_view c (new_one cfg s2 c)).
  Proof.
    intros Hi Hb Hdue. rewrite end_blocker_eq.
    destruct (mid_facts s Hi Hb) as (I1 & H1).
    unfold mid_state in *. set (l1 := due (expq s) (height s)) in *.
    assert (Hn1 : NoDup l1) by (apply NoDup_due; apply (inv_wf _ _ Hi)).
    assert (Hl1 : forall a, In a l1 -> In (height s, a) (expq s)) by (intros a; apply In_due).
    assert (Hin1 : In c l1) by (apply In_due; exact Hdue).
    destruct (expire_fold_forward l1 s c Hi Hb Hn1 Hl1 Hin1) as (s1 & Is1 & Hs1 & D1 & K1 & K2).
    set (sx := fold_left (expire_one cfg) l1 s) in *.
    set (l2 := due (newq sx) (height sx)).
    assert (Hn2 : NoDup l2) by (apply NoDup_due; apply (inv_wf _ _ I1)).
    assert (Hl2 : forall a, In a l2 -> In (height sx, a) (newq sx)) by (intros a; apply In_due).
    assert (Hbx : height sx < HEIGHT_BOUND) by now rewrite H1.
    exists s1. split; [exact Is1|]. split; [exact Hs1|]. split; [exact D1|].
    split; [now apply Keep_view|].
    destruct (mem c l2) eqn:M.
    - apply mem_In in M.
      destruct (new_fold_forward l2 sx c I1 Hbx Hn2 Hl2 M) as (s2 & Is2 & Hs2 & D2 & K3 & K4).
      split.
      { eapply incl_tran; [apply (k_log _ _ _ K2)|]. eapply incl_tran; [apply (k_log _ _ _ K3)|].
        eapply incl_tran; [|apply (k_log _ _ _ K4)].
        destruct (new_one_spec cfg s2 c Is2 D2) as (_ & _ & _ & _ & Ht & _). apply (t_log _ _ _ Ht). }
      right. exists s2. split; [exact Is2|]. split; [congruence|]. split; [exact D2|].
      split; [rewrite (Keep_view _ _ _ K3); now apply Keep_view|now apply Keep_view].
    - apply mem_nIn in M.
      pose proof (Keep_new_fold l2 sx c I1 Hbx Hn2 Hl2 M) as K3.
      split; [eapply incl_tran; [apply (k_log _ _ _ K2)|apply (k_log _ _ _ K3)]|].
      left. rewrite (Keep_view _ _ _ K3). now apply Keep_view.
  Qed.

  Lemma view_end_block c s dt : ctx_view c (end_block cfg s dt) = ctx_view c (end_blocker cfg s).
  Proof. reflexivity. Qed.

  Lemma log_end_block s dt : log (end_block cfg s dt) = log (end_blocker cfg s).
  Proof. reflexivity. Qed.

  Lemma more_d5 rc : more rc = true -> d5 rc = false.
  Proof.
    unfold more, d5. intros H. apply andb_prop in H. destruct H as [Hr H].
    destruct (is_state rc Running); [|reflexivity]. rewrite Hr. cbn [andb].
    destruct (0 <? c_total rc) eqn:E1; [|reflexivity]. cbn [andb]. b2p.
    apply orb_prop in H. destruct H; b2p; [lia|]. apply Z.leb_gt. assumption.
  Qed.

  Lemma rc1_more rc rc1 : rc1 = rc \/ (c_bdone rc = false /\ rc1 = setc_bdone rc true) ->
    more rc1 = more rc /\ c_counter rc1 = c_counter rc /\ c_state rc1 = c_state rc.
  Proof. intros [->|[_ ->]]; auto. Qed.

  (* ---------------------------------------------------------------- *)
  (* C16_end_block_finished_removed *)

  Theorem end_block_finished_removed s dt c rc :
    Inv cfg s -> 0 <= dt -> height s < HEIGHT_BOUND ->
    In (height s, c) (expq s) -> get c (ctxs s) = Some rc ->
    let s' := end_block cfg s dt in
    (finished rc ->
       get c (ctxs s') = None /\ get c (expq_h s') = None /\ get c (newq_h s') = None
       /\ In (EvCtxRemoved c) (log s')
       /\ (forall r, rid_ctx r = c -> get r (reqs s') = None /\ get r (resps s') = None))
    /\ (~ finished rc -> exists rc', get c (ctxs s') = Some rc' /\ static_eq rc rc').
  Proof.
    intros Hi Hdt Hb Hdue Erc s'.
    pose proof (Inv_end_block cfg s dt Hcfg Hi Hdt Hb) as Hi'. fold s' in Hi'.
    destruct (end_blocker_due_view s c Hi Hb Hdue) as (s1 & Is1 & Hs1 & D1 & V1 & L1 & Hcase).
    assert (Hb1 : height s1 < HEIGHT_BOUND) by now rewrite Hs1.
    assert (Erc1 : get c (ctxs s1) = Some rc).
    { unfold ctx_view in V1. injection V1 as E _ _. congruence. }
    destruct (C16_finished_removed cfg s1 c rc Hcfg Is1 D1 Hb1 Erc1) as (Hfin & Hnfin).
    cbv zeta in Hfin, Hnfin.
    assert (Hv' : ctx_view c s' = ctx_view c (end_blocker cfg s)) by apply view_end_block.
    split.
    - intros Hf. destruct (Hfin Hf) as (A1 & A2 & A3 & A4).
      assert (Hview : ctx_view c s' = (None, None, None)).
      { rewrite Hv'. destruct Hcase as [E|(s2 & Is2 & Hs2 & D2 & V2 & E)].
        - rewrite E. unfold ctx_view. now rewrite A1, A2, A3.
        - exfalso. destruct (inv_sched _ _ Is2) as (_ & S2 & _). apply S2 in D2.
          unfold ctx_view in V2. injection V2 as _ _ E3. rewrite A3 in E3. congruence. }
      unfold ctx_view in Hview. injection Hview as B1 B2 B3.
      split; [exact B1|]. split; [exact B2|]. split; [exact B3|]. split.
      + unfold s'. rewrite log_end_block. apply L1. exact A4.
      + destruct (Inv_no_orphans _ _ Hi') as (_ & _ & N3 & _). intros r Hr. now apply (N3 c r).
    - intros Hnf.
      destruct (expire_one_spec cfg s1 c Hcfg Is1 D1 Hb1)
        as (rc0 & rc1 & Erc0 & _ & _ & Hrc1 & _ & _ & _ & Ee & Hc3).
      assert (rc0 = rc) by congruence. subst rc0.
      destruct (rc1_more rc rc1 Hrc1) as (Em & Ec & Es).
      assert (Hst1 : static_eq rc rc1).
      { destruct Hrc1 as [->|[_ ->]]; unfold static_eq; cbn; auto 10. }
      assert (Hx : get c (ctxs (expire_one cfg s1 c)) = Some rc1
                   /\ (get c (newq_h (expire_one cfg s1 c)) <> None -> more rc = true)).
      { destruct Hc3 as [(_ & _ & Hx)|[(Ex & _ & _ & Hm)|(Ex & En & _)]].
        - exfalso. apply Hnf. destruct Hx as [Hk|[Hr Hm]]; [now left|right].
          split; [exact Hr|]. now apply more_false_iff.
        - split; [exact Ex|auto].
        - split; [exact Ex|]. intros Hn. congruence. }
      destruct Hx as (Ex & Hmore).
      destruct Hcase as [E|(s2 & Is2 & Hs2 & D2 & V2 & E)].
      + exists rc1. split; [|exact Hst1].
        change (fst (fst (ctx_view c s')) = Some rc1).
        rewrite Hv', E. exact Ex.
      + destruct (new_one_spec cfg s2 c Is2 D2) as (rc2 & Erc2 & En2 & _ & _ & _ & _ & _ & Hc4).
        unfold ctx_view in V2. injection V2 as W1 W2 W3.
        assert (rc2 = rc1) by congruence. subst rc2.
        assert (Hm : more rc1 = true).
        { rewrite Em. apply Hmore. rewrite <- W3, En2. discriminate. }
        apply more_d5 in Hm.
        assert (Hfinal : exists rc', get c (ctxs (new_one cfg s2 c)) = Some rc' /\ static_eq rc1 rc').
        { destruct Hc4 as [(Hd & _)|[(_ & _ & _ & n & Ey)|[(_ & _ & _ & Ey)|(_ & _ & Ey)]]];
            [congruence|eexists; split; [exact Ey|]..]; unfold static_eq; cbn; auto 10. }
        destruct Hfinal as (rc' & Ey & Hst2). exists rc'. split.
        * change (fst (fst (ctx_view c s')) = Some rc'). rewrite Hv', E. exact Ey.
        * unfold static_eq in *. intuition congruence.
  Qed.

  (* ---------------------------------------------------------------- *)
  (* C16_end_block_cleanup *)

  Theorem end_block_cleanup s dt c rc r :
    Inv cfg s -> 0 <= dt -> height s < HEIGHT_BOUND ->
    In (height s, c) (expq s) -> get c (ctxs s) = Some rc ->
    rid_ctx r = c -> rid_batch r <= c_counter rc ->
    get r (reqs (end_block cfg s dt)) = None /\ get r (resps (end_block cfg s dt)) = None.
  Proof.
    intros Hi Hdt Hb Hdue Erc Hc Hle.
    pose proof (Inv_end_block cfg s dt Hcfg Hi Hdt Hb) as Hi'.
    set (s' := end_block cfg s dt) in *.
    assert (G : get r (reqs s') = None).
    { destruct (get r (reqs s')) as [q|] eqn:G; [exfalso|reflexivity].
      destruct (inv_req _ _ Hi') as (R1 & _).
      destruct (R1 _ _ (get_In _ _ _ G)) as (rc' & Gc' & Eb & Ge & _). rewrite Hc in Gc', Ge.
      destruct (end_blocker_due_view s c Hi Hb Hdue) as (s1 & Is1 & Hs1 & D1 & V1 & _ & Hcase).
      assert (Hb1 : height s1 < HEIGHT_BOUND) by now rewrite Hs1.
      assert (Erc1 : get c (ctxs s1) = Some rc).
      { unfold ctx_view in V1. injection V1 as E _ _. congruence. }
      destruct (expire_one_spec cfg s1 c Hcfg Is1 D1 Hb1)
        as (rc0 & rc1 & Erc0 & _ & _ & Hrc1 & _ & _ & _ & Ee & Hc3).
      assert (rc0 = rc) by congruence. subst rc0.
      destruct (rc1_more rc rc1 Hrc1) as (_ & Ec & _).
      assert (Hv' : ctx_view c s' = ctx_view c (end_blocker cfg s)) by apply view_end_block.
      assert (Hview : ctx_view c s' = (Some rc', Some (r_exp q), get c (newq_h s'))).
      { unfold ctx_view. now rewrite Gc', Ge. }
      rewrite Hv' in Hview.
      destruct Hcase as [E|(s2 & Is2 & Hs2 & D2 & V2 & E)].
      - rewrite E in Hview. unfold ctx_view in Hview. injection Hview as _ X _. congruence.
      - rewrite E in Hview. unfold ctx_view in Hview, V2. injection Hview as Y1 Y2 _.
        injection V2 as W1 _ _.
        destruct (new_one_spec cfg s2 c Is2 D2) as (rc2 & Erc2 & _ & _ & _ & _ & _ & _ & Hc4).
        assert (Hrc2 : get c (ctxs (expire_one cfg s1 c)) = Some rc2) by congruence.
        assert (rc2 = rc1).
        { destruct Hc3 as [(Ex & _)|[(Ex & _)|(Ex & _)]]; congruence. }
        subst rc2.
        destruct Hc4 as [(_ & Ey & _)|[(_ & _ & _ & n & Ey)|[(_ & _ & Ey & _)|(_ & Ey & _)]]];
          try congruence.
        assert (rc' = bump rc1 n) by congruence. subst rc'.
        cbn in Eb. lia. }
    split; [exact G|]. eapply no_resp_without_req; eauto.
  Qed.
  (* ---------------------------------------------------------------- *)
  (* no EndBlock creates a context: every context after the block descends from a context
     before it, with the same static fields *)

  Definition ctx_desc (s s' : State) : Prop :=
    forall c x1, get c (ctxs s') = Some x1 ->
      exists x0, get c (ctxs s) = Some x0 /\ static_eq x0 x1.

  Lemma static_eq_trans a b c : static_eq a b -> static_eq b c -> static_eq a c.
  Proof. unfold static_eq. intuition congruence. Qed.

  Lemma ctx_desc_refl s : ctx_desc s s.
  Proof. intros c x G. exists x. split; [exact G|apply static_eq_refl]. Qed.

  Lemma ctx_desc_trans a b c : ctx_desc a b -> ctx_desc b c -> ctx_desc a c.
  Proof.
    intros H1 H2 x rc3 G3. destruct (H2 _ _ G3) as (rc2 & G2 & E2).
    destruct (H1 _ _ G2) as (rc1 & G1 & E1). exists rc1. split; [exact G1|].
    eapply static_eq_trans; eauto.
  Qed.

  Lemma ctx_desc_expire_one s c :
    Inv cfg s -> In (height s, c) (expq s) -> height s < HEIGHT_BOUND ->
    ctx_desc s (expire_one cfg s c).
  Proof.
    intros HI Hdue Hb x rcx G.
    destruct (expire_one_spec cfg s c Hcfg HI Hdue Hb)
      as (rc & rc1 & Erc & _ & _ & Hrc1 & Ht & _ & _ & _ & Hcase).
    destruct (eqb_spec x c) as [->|Hn].
    - exists rc. split; [exact Erc|]. eapply C09_static_expire_one; eauto.
    - rewrite (t_ctxs _ _ _ Ht) in G by assumption. exists rcx. split; [exact G|apply static_eq_refl].
  Qed.

  Lemma ctx_desc_new_one s c :
    Inv cfg s -> In (height s, c) (newq s) -> height s < HEIGHT_BOUND ->
    ctx_desc s (new_one cfg s c).
  Proof.
    intros HI Hdue Hb x rcx G.
    destruct (new_one_spec cfg s c HI Hdue) as (rc & Erc & _ & _ & Ht & _).
    destruct (eqb_spec x c) as [->|Hn].
    - exists rc. split; [exact Erc|]. eapply C09_static_new_one; eauto.
    - rewrite (t_ctxs _ _ _ Ht) in G by assumption. exists rcx. split; [exact G|apply static_eq_refl].
  Qed.

  Lemma ctx_desc_end_block s dt :
    Inv cfg s -> height s < HEIGHT_BOUND -> ctx_desc s (end_block cfg s dt).
  Proof.
    intros HI Hb.
    apply (end_block_rel cfg ctx_desc Hcfg ctx_desc_refl ctx_desc_trans); try assumption.
    - intros; now apply ctx_desc_expire_one.
    - intros; now apply ctx_desc_new_one.
    - intros s0 h t c x G. exists x. split; [exact G|apply static_eq_refl].
  Qed.
End Block.

(* ------------------------------------------------------------------ *)
(* over reachable states, as operations *)

Theorem C16_end_block_cleanup cfg s dt c rc r :
  wf_cfg cfg -> Reach cfg s -> wf_op s (OEndBlock dt) ->
  In (height s, c) (expq s) -> get c (ctxs s) = Some rc ->
  rid_ctx r = c -> rid_batch r <= c_counter rc ->
  get r (reqs (end_block cfg s dt)) = None /\ get r (resps (end_block cfg s dt)) = None.
Proof.
  intros Hcfg Hr [Hdt Hb]. apply end_block_cleanup; auto. now apply Reach_Inv.
Qed.

Theorem C16_end_block_finished_removed cfg s dt c rc :
  wf_cfg cfg -> Reach cfg s -> wf_op s (OEndBlock dt) ->
  In (height s, c) (expq s) -> get c (ctxs s) = Some rc ->
  let s' := end_block cfg s dt in
  (finished rc ->
     get c (ctxs s') = None /\ get c (expq_h s') = None /\ get c (newq_h s') = None
     /\ In (EvCtxRemoved c) (log s')
     /\ (forall r, rid_ctx r = c -> get r (reqs s') = None /\ get r (resps s') = None))
  /\ (~ finished rc -> exists rc', get c (ctxs s') = Some rc' /\ static_eq rc rc').
Proof.
  intros Hcfg Hr [Hdt Hb]. apply end_block_finished_removed; auto. now apply Reach_Inv.
Qed.

(* ------------------------------------------------------------------ *)
(* markers *)

Lemma active_in_nonneg c r q : 0 <= active_in c r q.
Proof. unfold active_in. destruct (_ && _); lia. Qed.

Theorem C16_no_marker_when_batch_done cfg s c rc r q :
  Inv cfg s -> get c (ctxs s) = Some rc -> c_bdone rc = true ->
  In (r, q) (reqs s) -> rid_ctx r = c -> r_active q = false.
Proof.
  intros HI Erc Hd Hin Hc. destruct (inv_req _ _ HI) as (_ & _ & R3).
  destruct (R3 _ _ Erc) as (_ & Hs & _). rewrite Hd in Hs. cbn [negb] in Hs.
  rewrite andb_false_r in Hs.
  pose proof (msum_zero_each (active_in c) (reqs s) (fun k v _ => active_in_nonneg c k v) Hs r q Hin) as Hz.
  unfold active_in in Hz. rewrite Hc, eqb_refl in Hz. cbn [andb] in Hz.
  destruct (r_active q); [discriminate|reflexivity].
Qed.

Theorem C16_markers_cleared_before_clean cfg s c :
  wf_cfg cfg -> Inv cfg s -> In (height s, c) (expq s) ->
  let rc := ctx_or_zero s c in
  let s1 := fold_left (expire_req cfg) (active_rids s c (c_counter rc)) s in
  forall r q, In (r, q) (reqs s1) -> rid_ctx r = c -> r_active q = false.
Proof.
  intros Hcfg HI Hdue rc s1 r q Hin Hc.
  destruct (due_ctx _ _ _ HI Hdue) as (rc0 & Grc & _).
  assert (Ez : rc = rc0) by (unfold rc, ctx_or_zero; now rewrite Grc).
  assert (Hwr : wf (reqs s)) by apply (inv_wf _ _ HI).
  set (l := active_rids s c (c_counter rc)) in *.
  destruct (fold_expire_reqs cfg l s Hwr) as (Hw1 & Hg).
  { intros r0 Hr0. apply In_active_rids in Hr0; [|assumption].
    destruct Hr0 as (_ & _ & Hc0 & _). rewrite Hc0. eauto. }
  fold s1 in Hw1, Hg. apply (In_get _ _ _ Hw1) in Hin. rewrite Hg in Hin.
  destruct (mem r l) eqn:M.
  - destruct (get r (reqs s)) as [q0|]; cbn [option_map] in Hin; [|discriminate].
    injection Hin as <-. reflexivity.
  - destruct (r_active q) eqn:Ea; [exfalso|reflexivity].
    apply mem_nIn in M. apply M. apply In_active_rids; [assumption|].
    exists q. split; [exact Hin|]. split; [exact Hc|]. split; [|exact Ea].
    destruct (inv_req _ _ HI) as (R1 & _).
    destruct (R1 _ _ (get_In _ _ _ Hin)) as (rc' & Gc' & Eb & _).
    rewrite Hc in Gc'. rewrite Ez. congruence.
Qed.

(* ------------------------------------------------------------------ *)
(* the marker key is stable: justification of the single-flag abstraction *)

Theorem C16_marker_key_stable cfg s o r q q' rc rc' :
  wf_cfg cfg -> Inv cfg s -> wf_op s o ->
  get r (reqs s) = Some q -> get r (reqs (fst (step cfg s o))) = Some q' ->
  get (rid_ctx r) (ctxs s) = Some rc -> get (rid_ctx r) (ctxs (fst (step cfg s o))) = Some rc' ->
  r_prov q' = r_prov q /\ r_exp q' = r_exp q /\ r_fee q' = r_fee q /\ c_svc rc' = c_svc rc.
Proof.
  intros Hcfg HI Hwf Gq Gq' Gc Gc'. unfold step in *.
  destruct (handle cfg s o) as [s'| |] eqn:E; cbn [fst] in *;
    [|assert (q' = q) by congruence; assert (rc' = rc) by congruence; subst; auto..].
  assert (Hd : (forall dt, o <> OEndBlock dt) \/ exists dt, o = OEndBlock dt).
  { destruct o; try (left; discriminate). right. eauto. }
  destruct Hd as [Hne|(dt & ->)].
  - destruct (C08_msg_keeps_requests cfg s o s' r q E Hne Gq) as (q1 & G1 & A1 & A2 & A3 & _).
    assert (q1 = q') by congruence. subst q1.
    destruct (C09_static_msg cfg s o s' _ rc rc' Hcfg HI Hwf Hne E Gc Gc') as (B1 & _).
    auto.
  - cbn [handle] in E. injection E as <-. cbn [wf_op] in Hwf. destruct Hwf as (Hdt & Hb).
    destruct (C08_window_inv cfg s r q HI Gq) as (Hle & _ & Hin).
    destruct (Z.eq_dec (r_exp q) (height s)) as [He|Hn].
    + destruct (C08_end_block_expires cfg s dt r q Hcfg HI Hb Gq He) as (X & _). congruence.
    + destruct (C08_end_block_keeps cfg s dt r q Hcfg HI Hb Gq) as (X & _); [lia|].
      assert (q' = q) by congruence. subst q'.
      split; [reflexivity|]. split; [reflexivity|]. split; [reflexivity|].
      (* the context of a request that is not due is not due for expiry; its new-batch
         handler is not run either (it has an expiry entry) *)
      destruct (inv_req _ _ HI) as (R1 & _).
      destruct (R1 _ _ (get_In _ _ _ Gq)) as (rc0 & G0 & _ & Ge & _).
      assert (rc0 = rc) by congruence. subst rc0.
      destruct (ctx_desc_end_block cfg Hcfg s dt HI Hb _ _ Gc') as (x0 & Gx & Hst).
      assert (x0 = rc) by congruence. subst x0. destruct Hst as (B1 & _). exact B1.
Qed.

(* ------------------------------------------------------------------ *)
(* "at all times": no orphans between the per-context handlers of either phase *)

Lemma NoDup_firstn {A} k (l : list A) : NoDup l -> NoDup (firstn k l).
Proof.
  intros Hd. rewrite <- (firstn_skipn k l) in Hd. now apply NoDup_app_remove_r' in Hd.
Qed.

Lemma In_firstn {A} k (l : list A) x : In x (firstn k l) -> In x l.
Proof. intros H. rewrite <- (firstn_skipn k l). apply in_or_app. now left. Qed.

Theorem C16_no_orphans_inside_end_block cfg s :
  wf_cfg cfg -> Reach cfg s -> height s < HEIGHT_BOUND ->
  (forall k, no_orphans (fold_left (expire_one cfg) (firstn k (due (expq s) (height s))) s))
  /\ (let sx := fold_left (expire_one cfg) (due (expq s) (height s)) s in
      forall k, no_orphans (fold_left (new_one cfg) (firstn k (due (newq sx) (height sx))) sx)).
Proof.
  intros Hcfg Hr Hb. pose proof (Reach_Inv _ _ Hcfg Hr) as Hi. split.
  - intros k. eapply Inv_no_orphans. now apply Inv_inside_end_block.
  - cbv zeta. intros k.
    destruct (mid_facts cfg Hcfg s Hi Hb) as (I1 & H1). unfold mid_state in *.
    set (sx := fold_left (expire_one cfg) (due (expq s) (height s)) s) in *.
    set (l := firstn k (due (newq sx) (height sx))).
    assert (Hn : NoDup l) by (apply NoDup_firstn, NoDup_due; apply (inv_wf _ _ I1)).
    assert (Hl : forall c, In c l -> In (height sx, c) (newq sx)).
    { intros c Hc. apply In_due. eapply In_firstn; eauto. }
    assert (Hbx : height sx < HEIGHT_BOUND) by now rewrite H1.
    eapply Inv_no_orphans. exact (proj1 (fold_new_phase cfg l sx Hcfg I1 Hbx Hn Hl)).
Qed.

(* a PAUSED context whose batch expires is kept, also when its total is reached: only a start
   (then the D5 branch of the new-batch handler) or a kill removes it *)
Theorem C16_paused_kept cfg s dt c rc :
  wf_cfg cfg -> Reach cfg s -> wf_op s (OEndBlock dt) ->
  In (height s, c) (expq s) -> get c (ctxs s) = Some rc -> c_state rc = Paused ->
  exists rc', get c (ctxs (end_block cfg s dt)) = Some rc' /\ static_eq rc rc'.
Proof.
  intros Hcfg Hr Hwf Hdue Erc Hp.
  destruct (C16_end_block_finished_removed cfg s dt c rc Hcfg Hr Hwf Hdue Erc) as (_ & B).
  apply B. intros [Hc|[Hc _]]; congruence.
Qed.

(* ------------------------------------------------------------------ *)
(* Examples *)

From SVC Require Import Proofs.BatchEx.

Module ExG16.
  Import BEx.

  (* a repeated context whose frequency equals its timeout: at height 6 the expiry of batch 1 and
     the issue of batch 2 fall into the same EndBlock *)
  Definition c4 : CtxId := (4, 0).
  Definition ops_f : list Op := ops_setup ++
    [OCall c4 5 [10] 2 0 (CBase 50) 5 false true 5 (-1) true true] ++ nblocks 5.
  Definition s_f : State := run cfg0 s_init ops_f.

  Lemma reach_f : Reach cfg0 s_f. Proof. reach_tac. Qed.

  Example C16_end_block_cleanup_hyps :
    wf_op s_f (OEndBlock 1) /\ In (height s_f, c4) (expq s_f)
    /\ (exists rc, get c4 (ctxs s_f) = Some rc /\ c_counter rc = 1 /\ c_freq rc = c_timeout rc)
    /\ keys (reqs s_f) = [(c4, 1, 1, 0)]
    /\ keys (reqs (end_block cfg0 s_f 1)) = [(c4, 2, 6, 0)].
  Proof.
    split; [comp|]. split; [vm_compute; auto|]. split; [eexists; split; [vm_compute; reflexivity|comp]|].
    comp.
  Qed.

  Example C16_end_block_cleanup_ex :
    get (c4, 1, 1, 0) (reqs (end_block cfg0 s_f 1)) = None
    /\ get (c4, 1, 1, 0) (resps (end_block cfg0 s_f 1)) = None.
  Proof.
    destruct C16_end_block_cleanup_hyps as (H1 & H2 & (rc & H3 & H4 & _) & _).
    apply (C16_end_block_cleanup cfg0 s_f 1 c4 rc (c4, 1, 1, 0) wf_cfg0 reach_f H1 H2 H3 eq_refl).
    rewrite H4. vm_compute. discriminate.
  Qed.

  (* the block at height 6 of the history of BatchEx: the one-shot module context c1 is finished
     and removed, the repeated c2 (below its total) survives; both were due in the same block *)
  Example C16_end_block_finished_removed_ex :
    wf_op s_e (OEndBlock 1) /\ In (height s_e, c1) (expq s_e) /\ In (height s_e, c2) (expq s_e)
    /\ (exists rc, get c1 (ctxs s_e) = Some rc /\ finished rc)
    /\ (exists rc, get c2 (ctxs s_e) = Some rc /\ ~ finished rc)
    /\ get c1 (ctxs (end_block cfg0 s_e 1)) = None
    /\ (exists rc', get c2 (ctxs (end_block cfg0 s_e 1)) = Some rc').
  Proof.
    split; [comp|]. split; [vm_compute; auto|]. split; [vm_compute; auto|].
    assert (F1 : exists rc, get c1 (ctxs s_e) = Some rc /\ finished rc).
    { eexists. split; [vm_compute; reflexivity|]. right. split; [reflexivity|]. left. reflexivity. }
    assert (F2 : exists rc, get c2 (ctxs s_e) = Some rc /\ ~ finished rc).
    { eexists. split; [vm_compute; reflexivity|].
      intros [Hc|[_ [Hr|[_ Ht]]]]; [discriminate Hc|discriminate Hr|vm_compute in Ht; apply Ht; reflexivity]. }
    split; [exact F1|]. split; [exact F2|].
    destruct F1 as (rc1 & G1 & Hf1). destruct F2 as (rc2 & G2 & Hf2).
    assert (W : wf_op s_e (OEndBlock 1)) by comp.
    split.
    - destruct (C16_end_block_finished_removed cfg0 s_e 1 c1 rc1 wf_cfg0 reach_e W) as (A & _);
        [vm_compute; auto|exact G1|]. exact (proj1 (A Hf1)).
    - destruct (C16_end_block_finished_removed cfg0 s_e 1 c2 rc2 wf_cfg0 reach_e W) as (_ & B);
        [vm_compute; auto|exact G2|]. destruct (B Hf2) as (rc' & G & _). eauto.
  Qed.

  (* markers: in s_r the batch of c1 is still open with one active request; at the expiry height
     the loop clears it *)
  Example C16_markers_cleared_ex :
    In (height s_e, c1) (expq s_e)
    /\ existsb (fun kv => eqb (rid_ctx (fst kv)) c1 && r_active (snd kv)) (reqs s_e) = true
    /\ existsb (fun kv => eqb (rid_ctx (fst kv)) c1 && r_active (snd kv))
         (reqs (fold_left (expire_req cfg0) (active_rids s_e c1 (c_counter (ctx_or_zero s_e c1))) s_e)) = false.
  Proof. split; [vm_compute; auto|]. comp. Qed.
End ExG16.
