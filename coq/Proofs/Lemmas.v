(* Inversion lemmas for the Res monad, characterisations of the primitive state
   transformers (transfer, burn, emit, put_*, queues) and the tactics used by the
   invariant proofs. *)
From Coq Require Import List ZArith Bool Lia Permutation.
From SVC Require Import Base.AMap Base.Res Base.Dec Model.Types Model.Pricing
  Model.Handlers Model.EndBlock Model.Step Proofs.Inv.
Import ListNotations.
Open Scope Z_scope.

(* ------------------------------------------------------------------ *)
(* Res monad *)

Lemma guard_ok {B} (b : bool) (k : Res B) x : guard b k = Ok x -> b = true /\ k = Ok x.
Proof. destruct b; cbn; [auto | discriminate]. Qed.

Lemma bind_ok {A B} (r : Res A) (f : A -> Res B) x :
  bind r f = Ok x -> exists a, r = Ok a /\ f a = Ok x.
Proof. destruct r; cbn; try discriminate. eauto. Qed.

Lemma of_opt_ok {A} (o : option A) a : of_opt o = Ok a -> o = Some a.
Proof. destruct o; cbn; congruence. Qed.

Lemma guard_panic {B} (b : bool) (k : Res B) : guard b k = Panic -> b = true /\ k = Panic.
Proof. destruct b; cbn; [auto | discriminate]. Qed.

Lemma bind_panic {A B} (r : Res A) (f : A -> Res B) :
  bind r f = Panic -> r = Panic \/ exists a, r = Ok a /\ f a = Panic.
Proof. destruct r; cbn; try discriminate; eauto. Qed.

Lemma of_opt_not_panic {A} (o : option A) : of_opt o <> Panic.
Proof. destruct o; cbn; congruence. Qed.

(* takes apart a hypothesis  <monadic term> = Ok x *)
Ltac inv_ok H :=
  repeat (match type of H with
  | guard _ _ = Ok _ =>
      let Hc := fresh "Hc" in apply guard_ok in H; destruct H as [Hc H]
  | bind (of_opt _) _ = Ok _ =>
      let a := fresh "a" in let Ha := fresh "Ha" in
      apply bind_ok in H; destruct H as [a [Ha H]]; apply of_opt_ok in Ha
  | bind _ _ = Ok _ =>
      let a := fresh "a" in let Ha := fresh "Ha" in
      apply bind_ok in H; destruct H as [a [Ha H]]
  | of_opt _ = Ok _ => apply of_opt_ok in H
  | Ok _ = Ok _ => injection H as H
  | Err = Ok _ => discriminate H
  | Panic = Ok _ => discriminate H
  end; cbv beta in H).

(* boolean facts to Prop *)
Ltac b2p :=
  repeat match goal with
  | H : _ && _ = true |- _ => apply andb_prop in H; destruct H
  | H : negb _ = true |- _ => apply negb_true_iff in H
  | H : negb _ = false |- _ => apply negb_false_iff in H
  | H : (_ =? _) = true |- _ => apply Z.eqb_eq in H
  | H : (_ =? _) = false |- _ => apply Z.eqb_neq in H
  | H : (_ <=? _) = true |- _ => apply Z.leb_le in H
  | H : (_ <=? _) = false |- _ => apply Z.leb_gt in H
  | H : (_ <? _) = true |- _ => apply Z.ltb_lt in H
  | H : (_ <? _) = false |- _ => apply Z.ltb_ge in H
  | H : _ || _ = false |- _ => apply orb_false_elim in H; destruct H
  end.

(* ------------------------------------------------------------------ *)
(* get0 / bal *)

Lemma get0_set {K} `{EqDec K} (k k' : K) v (m : amap K Z) :
  get0 k' (set k v m) = if eqb k' k then v else get0 k' m.
Proof. unfold get0. rewrite get_set. destruct (eqb k' k); reflexivity. Qed.

Lemma get0_del {K} `{EqDec K} (k k' : K) (m : amap K Z) : wf m ->
  get0 k' (del k m) = if eqb k' k then 0 else get0 k' m.
Proof. intros Hw. unfold get0. rewrite get_del by assumption. destruct (eqb k' k); reflexivity. Qed.

Lemma fget_vid {K} `{EqDec K} (k : K) (m : amap K Z) : fget vid k m = get0 k m.
Proof. reflexivity. Qed.

Lemma get0_le_msum {K} `{EqDec K} (k : K) (m : amap K Z) :
  (forall a v, In (a, v) m -> 0 <= v) -> get0 k m <= msum vid m.
Proof. intros Hn. rewrite <- fget_vid. apply msum_ge_fget. exact Hn. Qed.

Lemma get0_nonneg {K} `{EqDec K} (k : K) (m : amap K Z) :
  (forall a v, In (a, v) m -> 0 <= v) -> 0 <= get0 k m.
Proof.
  intros Hn. unfold get0. destruct (get k m) eqn:E; [|lia].
  apply get_In in E. eauto.
Qed.

(* ------------------------------------------------------------------ *)
(* setters: a state is determined by what a setter leaves alone *)

Lemma emit_fields e s :
  emit e s = set_log s (e :: log s).
Proof. reflexivity. Qed.

(* ------------------------------------------------------------------ *)
(* transfer *)

Lemma transfer_some a b amt s s1 :
  transfer a b amt s = Some s1 ->
  0 <= amt /\ amt <= bal s a
  /\ s1 = set_bank s (set b (get0 b (set a (bal s a - amt) (bank s)) + amt)
                       (set a (bal s a - amt) (bank s))).
Proof.
  unfold transfer. destruct ((amt <? 0) || (bal s a <? amt)) eqn:E; [discriminate|].
  intros E1. injection E1 as <-. b2p. auto.
Qed.

Lemma transfer_frame a b amt s s1 :
  transfer a b amt s = Some s1 -> s1 = set_bank s (bank s1).
Proof. intros E. apply transfer_some in E. destruct E as (_ & _ & ->). reflexivity. Qed.

Lemma transfer_bal a b amt s s1 x :
  transfer a b amt s = Some s1 ->
  bal s1 x = bal s x - (if eqb x a then amt else 0) + (if eqb x b then amt else 0).
Proof.
  intros E. apply transfer_some in E. destruct E as (_ & _ & ->).
  unfold bal. cbn [bank set_bank]. rewrite !get0_set.
  repeat match goal with |- context [eqb ?p ?q] => destruct (eqb_spec p q) end;
    try lia; try congruence; subst; try lia; try congruence.
Qed.

Lemma transfer_wf a b amt s s1 :
  transfer a b amt s = Some s1 -> wf (bank s) -> wf (bank s1).
Proof.
  intros E Hw. apply transfer_some in E. destruct E as (_ & _ & ->).
  cbn [bank set_bank]. now apply wf_set, wf_set.
Qed.

Lemma transfer_sum a b amt s s1 :
  transfer a b amt s = Some s1 -> msum vid (bank s1) = msum vid (bank s).
Proof.
  intros E. apply transfer_some in E. destruct E as (_ & _ & ->).
  cbn [bank set_bank]. rewrite !msum_set. rewrite !fget_vid. unfold vid, bal. lia.
Qed.

Lemma transfer_nonneg a b amt s s1 :
  transfer a b amt s = Some s1 -> wf (bank s) ->
  (forall x v, In (x, v) (bank s) -> 0 <= v) ->
  (forall x v, In (x, v) (bank s1) -> 0 <= v).
Proof.
  intros E Hw Hn x v Hin.
  pose proof (transfer_wf _ _ _ _ _ E Hw) as Hw1.
  pose proof (transfer_bal _ _ _ _ _ x E) as Hb.
  apply In_get in Hin; [|assumption].
  assert (Hv : bal s1 x = v) by (unfold bal, get0; now rewrite Hin).
  apply transfer_some in E. destruct E as (H0 & Hle & _).
  pose proof (get0_nonneg x (bank s) Hn) as Hx. fold (bal s x) in Hx.
  assert (Hxa : x = a -> bal s x = bal s a) by (intros ->; reflexivity).
  destruct (eqb_spec x a) as [Ea|Ha], (eqb_spec x b) as [E2|Hb2];
    try specialize (Hxa Ea); lia.
Qed.

(* ------------------------------------------------------------------ *)
(* burn *)

Lemma burn_some amt s s1 :
  burn_deposit amt s = Some s1 ->
  0 <= amt /\ amt <= bal s Deposit
  /\ s1 = set_supply (set_bank s (set Deposit (bal s Deposit - amt) (bank s))) (supply s - amt).
Proof.
  unfold burn_deposit. destruct ((amt <? 0) || (bal s Deposit <? amt)) eqn:E; [discriminate|].
  intros E1. injection E1 as <-. b2p. auto.
Qed.

Lemma burn_bal amt s s1 x :
  burn_deposit amt s = Some s1 ->
  bal s1 x = bal s x - (if eqb x Deposit then amt else 0).
Proof.
  intros E. apply burn_some in E. destruct E as (_ & _ & ->).
  unfold bal. cbn [bank set_bank set_supply]. rewrite get0_set.
  destruct (eqb_spec x Deposit) as [->|]; lia.
Qed.

(* ------------------------------------------------------------------ *)
(* lists *)

Lemma fold_del_wf {K V} `{EqDec K} (l : list K) (m : amap K V) :
  wf m -> wf (fold_left (fun m r => del r m) l m).
Proof. revert m. induction l as [|a l IH]; cbn [fold_left]; intros m Hw; [assumption|]. apply IH. now apply wf_del. Qed.

Lemma get_fold_del {K V} `{EqDec K} (l : list K) (m : amap K V) k : wf m ->
  get k (fold_left (fun m r => del r m) l m) = if mem k l then None else get k m.
Proof.
  revert m. induction l as [|a l IH]; cbn [fold_left mem]; intros m Hw; [reflexivity|].
  rewrite IH by now apply wf_del. rewrite get_del by assumption.
  destruct (eqb_spec k a) as [->|Hn]; [now destruct (mem a l)|reflexivity].
Qed.

Section SortLemmas.
  Context {A : Type} (leb : A -> A -> bool).
  Lemma insert_perm a l : Permutation (insert leb a l) (a :: l).
  Proof.
    induction l as [|b t IH]; cbn [insert]; [reflexivity|].
    destruct (leb a b); [reflexivity|].
    rewrite IH. apply perm_swap.
  Qed.
  Lemma isort_perm l : Permutation (isort leb l) l.
  Proof.
    induction l as [|a t IH]; cbn [isort]; [reflexivity|].
    rewrite insert_perm. now constructor.
  Qed.
  Lemma isort_In a l : In a (isort leb l) <-> In a l.
  Proof. split; apply Permutation_in; [|symmetry]; apply isort_perm. Qed.
  Lemma isort_NoDup l : NoDup l -> NoDup (isort leb l).
  Proof. apply Permutation_NoDup. symmetry. apply isort_perm. Qed.
End SortLemmas.

(* ------------------------------------------------------------------ *)
(* normalisation of state terms *)

Ltac sproj :=
  cbn [height time defs binds pricing owner_of own_prov own_bind wdaddr ctxs expq expq_h newq newq_h
       reqs resps vols earned own_earned bank supply log
       set_height set_time set_defs set_binds set_pricing set_owner_of set_own_prov set_own_bind
       set_wdaddr set_ctxs set_expq set_expq_h set_newq set_newq_h set_reqs set_resps set_vols
       set_earned set_own_earned set_bank set_supply set_log
       emit put_binding put_ctx del_ctx add_newq del_newq add_expq del_expq fst snd] in *.

Definition nonneg {K} (m : amap K Z) : Prop := forall a v, In (a, v) m -> 0 <= v.

Lemma bal_set_bank s bk x : bal (set_bank s bk) x = get0 x bk.
Proof. reflexivity. Qed.

(* a successful transfer, as facts about the new bank map only *)
Lemma transfer_inv a b amt s s1 :
  transfer a b amt s = Some s1 -> wf (bank s) -> nonneg (bank s) ->
  exists bk, s1 = set_bank s bk /\ wf bk /\ nonneg bk
    /\ msum vid bk = msum vid (bank s)
    /\ (forall x, get0 x bk = bal s x - (if eqb x a then amt else 0) + (if eqb x b then amt else 0))
    /\ 0 <= amt <= bal s a.
Proof.
  intros E Hw Hn. exists (bank s1).
  split; [now apply (transfer_frame a b amt)|].
  split; [now apply (transfer_wf a b amt s)|].
  split; [exact (transfer_nonneg _ _ _ _ _ E Hw Hn)|].
  split; [now apply (transfer_sum a b amt)|].
  split; [intros x; exact (transfer_bal _ _ _ _ _ x E)|].
  apply transfer_some in E. lia.
Qed.

Lemma burn_inv amt s s1 :
  burn_deposit amt s = Some s1 -> wf (bank s) -> nonneg (bank s) ->
  exists bk, s1 = set_supply (set_bank s bk) (supply s - amt) /\ wf bk /\ nonneg bk
    /\ msum vid bk = msum vid (bank s) - amt
    /\ (forall x, get0 x bk = bal s x - (if eqb x Deposit then amt else 0))
    /\ 0 <= amt <= bal s Deposit.
Proof.
  intros E Hw Hn. pose proof (burn_some _ _ _ E) as (H0 & Hle & ->).
  exists (set Deposit (bal s Deposit - amt) (bank s)).
  split; [reflexivity|]. split; [now apply wf_set|]. split.
  - intros x v Hin. apply In_set_inv in Hin; [|assumption].
    destruct Hin as [[-> ->]|[_ Hin]]; [lia | eauto].
  - split; [rewrite msum_set, fget_vid; unfold vid, bal; lia|].
    split; [|lia]. intros x. rewrite get0_set. unfold bal.
    destruct (eqb_spec x Deposit) as [->|]; lia.
Qed.

Lemma pay_deposit_inv s k owner amt s1 :
  pay_deposit s k owner amt = Ok s1 ->
  exists s0, transfer (User owner) Deposit amt s = Some s0 /\ s1 = emit (EvDepositIn k owner amt) s0.
Proof. unfold pay_deposit. intros H. inv_ok H. eauto. Qed.

Lemma one_base_coin_pos c a : one_base_coin c = Ok a -> 0 < a.
Proof. destruct c; cbn; try discriminate. destruct (0 <? amt) eqn:E; [|discriminate]. intros H; injection H as <-. now apply Z.ltb_lt. Qed.

Lemma add_deposit_amt_ok cur dep a : add_deposit_amt cur dep = Ok a ->
  one_base_coin dep = Ok a /\ cur + a < INT_LIMIT.
Proof.
  unfold add_deposit_amt. intros H. inv_ok H.
  destruct (cur + a0 <? INT_LIMIT) eqn:E; [|discriminate].
  injection H as <-. split; [assumption|now apply Z.ltb_lt].
Qed.

Lemma add_deposit_amt_pos cur dep a : add_deposit_amt cur dep = Ok a -> 0 < a.
Proof. intros H. apply add_deposit_amt_ok in H. destruct H as [H _]. eapply one_base_coin_pos; eauto. Qed.

Lemma opt_amt_bridge cur (dep : Coins) amt :
  (if coins_empty dep then Ok 0 else add_deposit_amt cur dep) = Ok amt ->
  (if coins_empty dep then Ok 0 else one_base_coin dep) = Ok amt.
Proof. destruct (coins_empty dep); [auto|]. intros H. now apply add_deposit_amt_ok in H. Qed.

Lemma opt_amt_limit cur (dep : Coins) amt :
  (if coins_empty dep then Ok 0 else add_deposit_amt cur dep) = Ok amt ->
  coins_empty dep = false -> cur + amt < INT_LIMIT.
Proof. intros H E. rewrite E in H. now apply add_deposit_amt_ok in H. Qed.

Lemma acct_of_unblocked a : is_blocked a = false -> acct_of a = User a.
Proof.
  unfold is_blocked, acct_of, ESCROW_ADDR, DEPOSIT_ADDR, FEECOLL_ADDR. intros H.
  destruct (a =? 9001) eqn:E1; [apply Z.eqb_eq in E1; subst; discriminate|].
  destruct (a =? 9002) eqn:E2; [apply Z.eqb_eq in E2; subst; discriminate|].
  destruct (a =? 9003) eqn:E3; [apply Z.eqb_eq in E3; subst; discriminate|].
  reflexivity.
Qed.

(* ------------------------------------------------------------------ *)
(* h_respond taken apart once *)

Definition resp_mid (s1 : State) (r : ReqId) (who : Z) (rc0 : Ctx) (code out : Z) : State :=
  let s2 := set_resps s1 (set r (mkResp who (c_cons rc0) code out) (resps s1)) in
  let s3 := deactivate s2 r in
  let vk := (c_cons rc0, c_svc rc0, who) in
  let s4 := set_vols s3 (set vk (get0 vk (vols s3) + 1) (vols s3)) in
  emit (EvRespond r) s4.

Definition resp_settle (cfg : Params) (s : State) (r : ReqId) (q : Req) (rc0 : Ctx)
    (out : Z) (out_valid : bool) (s1 : State) : Prop :=
  (negb (out =? 0) && negb out_valid = true
   /\ exists sa, slash cfg s r = Ok sa /\ refund_fee sa r (c_cons rc0) (r_fee q) = Some s1)
  \/ (negb (out =? 0) && negb out_valid = false
      /\ add_earned_fee cfg s r (r_prov q) (r_fee q) = Ok s1).

Definition resp_finish (s5 : State) (c : CtxId) (rc : Ctx) : State :=
  let rc1 := setc_bresp rc (c_bresp rc + 1) in
  if c_bresp rc1 =? c_breq rc1
  then put_ctx (fst (complete_batch s5 c rc1)) c (snd (complete_batch s5 c rc1))
  else put_ctx s5 c rc1.

Lemma respond_inv cfg s r who code out out_valid ok s' :
  h_respond cfg s r who code out out_valid ok = Ok s' ->
  exists q rc0 s1 rc,
    ok = true /\ get r (reqs s) = Some q /\ get (rid_ctx r) (ctxs s) = Some rc0
    /\ who = r_prov q /\ r_active q = true
    /\ resp_settle cfg s r q rc0 out out_valid s1
    /\ get (rid_ctx r) (ctxs (resp_mid s1 r who rc0 code out)) = Some rc
    /\ s' = resp_finish (resp_mid s1 r who rc0 code out) (rid_ctx r) rc.
Proof.
  unfold h_respond. intros H. inv_ok H.
  rename a into q, a0 into rc0, a1 into s1.
  apply Z.eqb_eq in Hc0. subst who.
  fold (resp_mid s1 r (r_prov q) rc0 code out) in H.
  destruct (get (rid_ctx r) (ctxs (resp_mid s1 r (r_prov q) rc0 code out))) as [rc|] eqn:Erc; [|discriminate].
  exists q, rc0, s1, rc. repeat split; try assumption.
  - unfold resp_settle. destruct (negb (out =? 0) && negb out_valid); [left|right]; split; try reflexivity.
    + destruct (slash cfg s r) as [sa| |]; try discriminate.
      destruct (refund_fee sa r (c_cons rc0) (r_fee q)) as [sb|] eqn:Er; try discriminate.
      inv_ok Ha1. subst. eauto.
    + exact Ha1.
  - unfold resp_finish.
    destruct (c_bresp (setc_bresp rc (c_bresp rc + 1)) =? c_breq (setc_bresp rc (c_bresp rc + 1))).
    + destruct (complete_batch (resp_mid s1 r (r_prov q) rc0 code out) (rid_ctx r) (setc_bresp rc (c_bresp rc + 1))) as [s6 rc2].
      inv_ok H. now subst.
    + inv_ok H. now subst.
Qed.
