(* Property C17: every query function of Model/Queries.v returns exactly the
   comprehension over the abstract state. The specifications are written with
   In / <-> over the primary maps (defs, binds, ctxs, reqs, resps, earned, wdaddr)
   and, for listings, as Permutation with a filter/map comprehension plus
   sortedness in store order. Hypotheses are the well-formedness (NoDup keys) of
   the maps concerned and the two index-consistency predicates of Queries.v. *)
From Coq Require Import List ZArith Bool Lia Permutation Sorted.
From SVC Require Import Base.AMap Base.Res Base.Dec Model.Types Model.Pricing Model.Handlers
  Model.Queries.
Import ListNotations.
Open Scope Z_scope.

(* ------------------------------------------------------------------ *)
(* generic facts *)

Lemma get_iff_In {K V} `{EqDec K} (m : amap K V) k v :
  wf m -> (get k m = Some v <-> In (k, v) m).
Proof. intros Hw. split; [apply get_In | now apply In_get]. Qed.

Lemma of_lookup_ok {A} (o : option A) a : of_lookup o = AOk a <-> o = Some a.
Proof. destruct o; cbn [of_lookup]; split; intros E; try discriminate; congruence. Qed.

Lemma of_lookup_nf {A} (o : option A) : of_lookup o = ANotFound <-> o = None.
Proof. destruct o; cbn [of_lookup]; split; intros E; try discriminate; reflexivity. Qed.

Lemma of_lookup_noerr {A} (o : option A) : of_lookup o <> AErr.
Proof. destruct o; cbn [of_lookup]; discriminate. Qed.

Section SortFacts.
  Context {A : Type} (leb : A -> A -> bool).

  Lemma insert_perm a l : Permutation (insert leb a l) (a :: l).
  Proof.
    induction l as [|b t IH]; cbn [insert]; [reflexivity|].
    destruct (leb a b); [reflexivity|].
    rewrite IH. apply perm_swap.
  Qed.

  Lemma isort_perm l : Permutation (isort leb l) l.
  Proof.
    induction l as [|a t IH]; cbn [isort]; [reflexivity|].
    rewrite insert_perm. now constructor.
  Qed.

  Lemma In_isort x l : In x (isort leb l) <-> In x l.
  Proof.
    split; apply Permutation_in; [apply isort_perm | apply Permutation_sym, isort_perm].
  Qed.

  Definition le_of : A -> A -> Prop := fun a b => leb a b = true.

  Hypothesis total : forall a b, leb a b = false -> leb b a = true.

  Lemma insert_sorted a l : Sorted le_of l -> Sorted le_of (insert leb a l).
  Proof.
    induction l as [|b t IH]; cbn [insert]; intros Hs.
    - constructor; constructor.
    - destruct (leb a b) eqn:E.
      + constructor; [assumption|]. constructor. exact E.
      + inversion Hs as [|? ? Hst Hhd]; subst.
        constructor; [now apply IH|].
        destruct t as [|c t']; cbn [insert].
        * constructor. now apply total.
        * destruct (leb a c); constructor; [now apply total|].
          inversion Hhd; assumption.
  Qed.

  Lemma isort_sorted l : Sorted le_of (isort leb l).
  Proof.
    induction l as [|a t IH]; cbn [isort]; [constructor|]. now apply insert_sorted.
  Qed.
End SortFacts.

(* totality of the store orders *)
Lemma ctxid_leb_total a b : ctxid_leb a b = false -> ctxid_leb b a = true.
Proof.
  unfold ctxid_leb. destruct a as [a1 a2], b as [b1 b2]; cbn [fst snd]. lia.
Qed.

Lemma rid_leb_total a b : rid_leb a b = false -> rid_leb b a = true.
Proof.
  unfold rid_leb.
  destruct (eqb_spec (rid_ctx a) (rid_ctx b)) as [E|N]; cbn [negb].
  - rewrite E. rewrite eqb_refl. cbn [negb].
    destruct (Z.eqb_spec (rid_batch a) (rid_batch b)) as [Eb|Nb]; cbn [negb].
    + rewrite Eb, Z.eqb_refl. cbn [negb].
      destruct (Z.eqb_spec (rid_height a) (rid_height b)) as [Eh|Nh]; cbn [negb].
      * rewrite Eh, Z.eqb_refl. cbn [negb]. lia.
      * destruct (Z.eqb_spec (rid_height b) (rid_height a)); cbn [negb]; lia.
    + destruct (Z.eqb_spec (rid_batch b) (rid_batch a)); cbn [negb]; lia.
  - destruct (eqb_spec (rid_ctx b) (rid_ctx a)) as [E'|N']; [congruence|]. cbn [negb].
    apply ctxid_leb_total.
Qed.

Lemma act_leb_total a b : act_leb a b = false -> act_leb b a = true.
Proof.
  unfold act_leb.
  destruct (Z.eqb_spec (r_exp (snd a)) (r_exp (snd b))) as [E|N]; cbn [negb].
  - rewrite E, Z.eqb_refl. cbn [negb]. apply rid_leb_total.
  - destruct (Z.eqb_spec (r_exp (snd b)) (r_exp (snd a))); cbn [negb]; lia.
Qed.

Lemma resp_leb_total a b : resp_leb a b = false -> resp_leb b a = true.
Proof. unfold resp_leb. apply rid_leb_total. Qed.

Lemma NoDup_pairs {K V} (m : list (K * V)) : NoDup (map fst m) -> NoDup m.
Proof.
  induction m as [|[k v] t IH]; cbn [map fst]; intros Hn; [constructor|].
  inversion Hn as [|? ? Hni Hn']; subst. constructor; [|auto].
  intros Hin. apply Hni. now apply (in_map fst) in Hin.
Qed.

Lemma NoDup_filter {A} (f : A -> bool) l : NoDup l -> NoDup (filter f l).
Proof.
  induction l as [|a t IH]; cbn [filter]; intros Hn; [constructor|].
  inversion Hn; subst. destruct (f a); [|auto].
  constructor; [|auto]. rewrite filter_In. tauto.
Qed.

(* ------------------------------------------------------------------ *)
(* single-record queries *)

Theorem C17_q_definition s svc :
  wf (defs s) ->
  (forall d, q_definition s svc = AOk d <-> In (svc, d) (defs s)) /\
  (q_definition s svc = ANotFound <-> ~ In svc (keys (defs s))) /\
  q_definition s svc <> AErr.
Proof.
  intros Hw. unfold q_definition. repeat split.
  - intros E. apply of_lookup_ok in E. now apply get_In.
  - intros Hin. apply of_lookup_ok. now apply In_get.
  - intros E. apply of_lookup_nf in E. now apply get_None_notin.
  - intros Hn. apply of_lookup_nf. now apply get_None_notin.
  - apply of_lookup_noerr.
Qed.

Theorem C17_q_binding s svc prov :
  wf (binds s) ->
  (forall b, q_binding s svc prov = AOk b <-> In ((svc, prov), b) (binds s)) /\
  (q_binding s svc prov = ANotFound <-> ~ In (svc, prov) (keys (binds s))) /\
  q_binding s svc prov <> AErr.
Proof.
  intros Hw. unfold q_binding. repeat split.
  - intros E. apply of_lookup_ok in E. now apply get_In.
  - intros Hin. apply of_lookup_ok. now apply In_get.
  - intros E. apply of_lookup_nf in E. now apply get_None_notin.
  - intros Hn. apply of_lookup_nf. now apply get_None_notin.
  - apply of_lookup_noerr.
Qed.

Theorem C17_q_request_context s c :
  wf (ctxs s) ->
  (forall rc, q_request_context s c = AOk rc <-> In (c, rc) (ctxs s)) /\
  (q_request_context s c = ANotFound <-> ~ In c (keys (ctxs s))) /\
  q_request_context s c <> AErr.
Proof.
  intros Hw. unfold q_request_context. repeat split.
  - intros E. apply of_lookup_ok in E. now apply get_In.
  - intros Hin. apply of_lookup_ok. now apply In_get.
  - intros E. apply of_lookup_nf in E. now apply get_None_notin.
  - intros Hn. apply of_lookup_nf. now apply get_None_notin.
  - apply of_lookup_noerr.
Qed.

Theorem C17_q_response s r :
  wf (resps s) ->
  (forall x, q_response s r = AOk x <-> In (r, x) (resps s)) /\
  (q_response s r = ANotFound <-> ~ In r (keys (resps s))) /\
  q_response s r <> AErr.
Proof.
  intros Hw. unfold q_response. repeat split.
  - intros E. apply of_lookup_ok in E. now apply get_In.
  - intros Hin. apply of_lookup_ok. now apply In_get.
  - intros E. apply of_lookup_nf in E. now apply get_None_notin.
  - intros Hn. apply of_lookup_nf. now apply get_None_notin.
  - apply of_lookup_noerr.
Qed.

(* the stored withdrawal address if there is one, else the owner itself *)
Theorem C17_q_withdraw_address s owner :
  wf (wdaddr s) ->
  exists a, q_withdraw_address s owner = AOk a /\
            (forall a', In (owner, a') (wdaddr s) -> a = a') /\
            (~ In owner (keys (wdaddr s)) -> a = owner) /\
            (a = owner \/ In (owner, a) (wdaddr s)).
Proof.
  intros Hw. unfold q_withdraw_address, withdraw_address.
  destruct (get owner (wdaddr s)) as [a|] eqn:E.
  - exists a. split; [reflexivity|]. repeat split.
    + intros a' Hin. apply In_get in Hin; [congruence|assumption].
    + intros Hn. apply get_None_notin in Hn. congruence.
    + right. now apply get_In.
  - exists owner. split; [reflexivity|]. repeat split.
    + intros a' Hin. apply In_get in Hin; [congruence|assumption].
    + now left.
Qed.

(* ------------------------------------------------------------------ *)
(* request reconstruction *)

Theorem C17_request_reconstruction s r :
  (forall fr, get_request s r = Some fr <->
              exists q rc, get r (reqs s) = Some q /\ get (rid_ctx r) (ctxs s) = Some rc /\
                           fr = join_request r q rc) /\
  (reqs_have_ctx s ->
   forall q, get r (reqs s) = Some q ->
             exists rc, get (rid_ctx r) (ctxs s) = Some rc /\
                        get_request s r = Some (join_request r q rc)).
Proof.
  unfold get_request. split.
  - intros fr. split.
    + destruct (get r (reqs s)) as [q|]; [|discriminate].
      destruct (get (rid_ctx r) (ctxs s)) as [rc|]; [|discriminate].
      intros E. injection E as <-. now exists q, rc.
    + intros (q & rc & -> & -> & ->). reflexivity.
  - intros Hc q Hq. destruct (Hc r q Hq) as [rc Hrc].
    exists rc. now rewrite Hq, Hrc.
Qed.

(* each field of the reconstructed request comes from where the code takes it *)
Lemma join_request_fields r q rc :
  let fr := join_request r q rc in
  fr_id fr = r /\ fr_svc fr = c_svc rc /\ fr_prov fr = r_prov q /\ fr_cons fr = c_cons rc /\
  fr_input fr = c_input rc /\ fr_fee fr = r_fee q /\ fr_super fr = c_super rc /\
  fr_height fr = rid_height r /\ fr_exp fr = r_exp q /\ fr_ctx fr = rid_ctx r /\
  fr_batch fr = rid_batch r.
Proof. cbn. repeat split. Qed.

Theorem C17_q_request s r :
  wf (reqs s) -> wf (ctxs s) -> reqs_have_ctx s ->
  (forall fr, q_request s r = AOk fr <->
              exists q rc, In (r, q) (reqs s) /\ In (rid_ctx r, rc) (ctxs s) /\
                           fr = join_request r q rc) /\
  (q_request s r = ANotFound <-> ~ In r (keys (reqs s))) /\
  q_request s r <> AErr.
Proof.
  intros Hwr Hwc Hc. unfold q_request. repeat split.
  - intros E. apply of_lookup_ok in E. apply C17_request_reconstruction in E.
    destruct E as (q & rc & Hq & Hrc & ->). exists q, rc.
    repeat split; [now apply get_In | now apply get_In].
  - intros (q & rc & Hq & Hrc & ->). apply of_lookup_ok.
    apply C17_request_reconstruction. exists q, rc.
    repeat split; now apply In_get.
  - intros E. apply of_lookup_nf in E. apply get_None_notin.
    destruct (get r (reqs s)) as [q|] eqn:Hq; [|reflexivity].
    destruct (proj2 (C17_request_reconstruction s r) Hc q Hq) as (rc & _ & E'). congruence.
  - intros Hn. apply of_lookup_nf. apply get_None_notin in Hn.
    unfold get_request. now rewrite Hn.
  - apply of_lookup_noerr.
Qed.

(* ------------------------------------------------------------------ *)
(* absent keys: the not-found answer, never a default record *)

Theorem C17_absent_is_notfound s :
  (forall svc, get svc (defs s) = None -> q_definition s svc = ANotFound) /\
  (forall svc prov, get (svc, prov) (binds s) = None -> q_binding s svc prov = ANotFound) /\
  (forall c, get c (ctxs s) = None -> q_request_context s c = ANotFound) /\
  (forall r, get r (reqs s) = None -> q_request s r = ANotFound) /\
  (forall r, get r (resps s) = None -> q_response s r = ANotFound) /\
  (forall r fr, q_request s r = AOk fr -> exists q, get r (reqs s) = Some q) /\
  (forall c rc, q_request_context s c = AOk rc -> get c (ctxs s) = Some rc) /\
  (forall r x, q_response s r = AOk x -> get r (resps s) = Some x).
Proof.
  unfold q_definition, q_binding, q_request_context, q_request, q_response, get_request.
  repeat split.
  - intros svc ->. reflexivity.
  - intros svc prov ->. reflexivity.
  - intros c ->. reflexivity.
  - intros r ->. reflexivity.
  - intros r ->. reflexivity.
  - intros r fr E. destruct (get r (reqs s)) as [q|]; [now exists q | discriminate].
  - intros c rc E. now apply of_lookup_ok in E.
  - intros r x E. now apply of_lookup_ok in E.
Qed.

(* ------------------------------------------------------------------ *)
(* bindings of a service *)

Definition spec_bindings (s : State) (svc : Z) : list (BKey * Binding) :=
  filter (fun kb => fst (fst kb) =? svc) (binds s).

Theorem C17_q_bindings s svc :
  exists l, q_bindings s svc 0 = AOk l /\
            l = spec_bindings s svc /\
            (forall k b, In (k, b) l <-> In (k, b) (binds s) /\ fst k = svc) /\
            (wf (binds s) -> NoDup l).
Proof.
  exists (bindings_of_service s svc). unfold q_bindings. cbn [Z.eqb].
  split; [reflexivity|]. split; [reflexivity|]. split.
  - intros k b. unfold bindings_of_service. rewrite filter_In. cbn [fst]. rewrite Z.eqb_eq. tauto.
  - intros Hw. apply NoDup_filter. now apply NoDup_pairs.
Qed.

(* bindings of a service owned by one owner *)

Definition spec_bindings_owner (s : State) (svc owner : Z) : list (BKey * Binding) :=
  filter (fun kb => (fst (fst kb) =? svc) && (b_owner (snd kb) =? owner)) (binds s).

Lemma In_bindings_of_owner s owner svc k b :
  In (k, b) (bindings_of_owner s owner svc) <->
  In (owner, svc, snd k) (own_bind s) /\ fst k = svc /\ get k (binds s) = Some b.
Proof.
  unfold bindings_of_owner. rewrite in_flat_map. split.
  - intros ([[o sv] p] & Hin & Hx). cbn [fst snd] in Hx.
    destruct (Z.eqb_spec o owner) as [->|]; [|destruct Hx].
    destruct (Z.eqb_spec sv svc) as [->|]; [|destruct Hx].
    cbn [andb] in Hx. destruct (get (svc, p) (binds s)) as [b'|] eqn:E; [|destruct Hx].
    destruct Hx as [Hx|[]]. injection Hx as <- <-. cbn [fst snd]. auto.
  - intros (Hin & Hs & Hg). destruct k as [sv p]. cbn [fst snd] in *. subst sv.
    exists (owner, svc, p). split; [assumption|]. cbn [fst snd].
    rewrite !Z.eqb_refl. cbn [andb]. unfold BKey in *. rewrite Hg. now left.
Qed.

Lemma NoDup_bindings_of_owner s owner svc :
  NoDup (own_bind s) -> NoDup (bindings_of_owner s owner svc).
Proof.
  unfold bindings_of_owner. generalize (own_bind s) as l.
  induction l as [|e t IH]; cbn [flat_map]; intros Hn; [constructor|].
  inversion Hn as [|? ? Hni Hn']; subst.
  destruct e as [[o sv] p]. cbn [fst snd].
  destruct ((o =? owner) && (sv =? svc)) eqn:Ec; [|cbn [app]; auto].
  destruct (get (sv, p) (binds s)) as [b|]; [|cbn [app]; auto].
  cbn [app]. constructor; [|auto].
  intros Hin. apply in_flat_map in Hin. destruct Hin as ([[o' sv'] p'] & Hin & Hx).
  cbn [fst snd] in Hx.
  destruct ((o' =? owner) && (sv' =? svc)) eqn:Ec'; [|destruct Hx].
  destruct (get (sv', p') (binds s)); [|destruct Hx].
  destruct Hx as [Hx|[]]. injection Hx as -> -> _.
  apply andb_true_iff in Ec, Ec'. rewrite !Z.eqb_eq in Ec, Ec'.
  destruct Ec as [-> _], Ec' as [-> _]. contradiction.
Qed.

Theorem C17_q_bindings_owner s svc owner :
  owner <> 0 -> wf (binds s) -> NoDup (own_bind s) -> idx_own_bind_ok s ->
  exists l, q_bindings s svc owner = AOk l /\
            (forall k b, In (k, b) l <->
                         In (k, b) (binds s) /\ fst k = svc /\ b_owner b = owner) /\
            NoDup l /\
            Permutation l (spec_bindings_owner s svc owner).
Proof.
  intros Ho Hw Hn Hidx. exists (bindings_of_owner s owner svc).
  unfold q_bindings. apply Z.eqb_neq in Ho. rewrite Ho.
  assert (Hin : forall k b, In (k, b) (bindings_of_owner s owner svc) <->
                            In (k, b) (binds s) /\ fst k = svc /\ b_owner b = owner).
  { intros [sv p] b. rewrite In_bindings_of_owner. cbn [fst snd]. unfold idx_own_bind_ok, BKey in *. split.
    - intros (Hi & -> & Hg). apply Hidx in Hi. destruct Hi as (b' & Hg' & Hb).
      rewrite Hg in Hg'. injection Hg' as <-. split; [now apply get_In|auto].
    - intros (Hi & -> & Hb). apply In_get in Hi; [|assumption].
      split; [|auto]. apply Hidx. now exists b. }
  split; [reflexivity|]. split; [exact Hin|].
  assert (Hnd : NoDup (bindings_of_owner s owner svc)) by now apply NoDup_bindings_of_owner.
  split; [exact Hnd|].
  apply NoDup_Permutation; [exact Hnd | apply NoDup_filter; now apply NoDup_pairs |].
  intros [k b]. rewrite Hin. unfold spec_bindings_owner. rewrite filter_In. cbn [fst snd].
  rewrite andb_true_iff, !Z.eqb_eq. tauto.
Qed.

(* ------------------------------------------------------------------ *)
(* active requests of a binding *)

Definition spec_requests (s : State) (svc prov : Z) : list FullReq :=
  flat_map (fun kv : ReqId * Req =>
              match get (rid_ctx (fst kv)) (ctxs s) with
              | Some rc =>
                  if r_active (snd kv) && (r_prov (snd kv) =? prov) && (c_svc rc =? svc)
                  then [join_request (fst kv) (snd kv) rc] else []
              | None => []
              end)
           (reqs s).

Lemma map_filter_requests s svc prov l :
  (forall kv, In kv l -> get (fst kv) (reqs s) = Some (snd kv)) ->
  map (fun kv => request_or_zero s (fst kv)) (filter (is_active_of s svc prov) l) =
  flat_map (fun kv : ReqId * Req =>
              match get (rid_ctx (fst kv)) (ctxs s) with
              | Some rc =>
                  if r_active (snd kv) && (r_prov (snd kv) =? prov) && (c_svc rc =? svc)
                  then [join_request (fst kv) (snd kv) rc] else []
              | None => []
              end) l.
Proof.
  induction l as [|kv t IH]; intros Hg; [reflexivity|].
  cbn [filter flat_map]. rewrite <- IH by (intros; apply Hg; now right).
  unfold is_active_of at 1, svc_is.
  assert (E := Hg kv (or_introl eq_refl)).
  destruct (get (rid_ctx (fst kv)) (ctxs s)) as [rc|] eqn:Hc.
  - destruct (r_active (snd kv) && (r_prov (snd kv) =? prov) && (c_svc rc =? svc)); [|reflexivity].
    cbn [map app]. f_equal. unfold request_or_zero, get_request. now rewrite E, Hc.
  - rewrite andb_false_r. reflexivity.
Qed.

Theorem C17_q_requests s svc prov :
  wf (reqs s) ->
  exists l, q_requests s svc prov = AOk l /\
            Permutation l (spec_requests s svc prov) /\
            (forall fr, In fr l <->
                        exists r q rc, In (r, q) (reqs s) /\ get (rid_ctx r) (ctxs s) = Some rc /\
                                       r_active q = true /\ r_prov q = prov /\ c_svc rc = svc /\
                                       fr = join_request r q rc).
Proof.
  intros Hw.
  exists (map (fun kv => request_or_zero s (fst kv)) (active_requests_of_binding s svc prov)).
  split; [reflexivity|].
  assert (Hp : Permutation
                 (map (fun kv => request_or_zero s (fst kv)) (active_requests_of_binding s svc prov))
                 (spec_requests s svc prov)).
  { unfold active_requests_of_binding, spec_requests.
    rewrite <- map_filter_requests.
    - apply Permutation_map, isort_perm.
    - intros [r q] Hin. cbn [fst snd]. now apply In_get. }
  split; [exact Hp|].
  intros fr. split.
  - intros Hin. apply (Permutation_in _ Hp) in Hin. unfold spec_requests in Hin.
    apply in_flat_map in Hin. destruct Hin as ([r q] & Hin & Hx). cbn [fst snd] in Hx.
    destruct (get (rid_ctx r) (ctxs s)) as [rc|] eqn:Hc; [|destruct Hx].
    destruct (r_active q && (r_prov q =? prov) && (c_svc rc =? svc)) eqn:Eb; [|destruct Hx].
    destruct Hx as [<-|[]]. apply andb_true_iff in Eb. destruct Eb as [Eb E3].
    apply andb_true_iff in Eb. destruct Eb as [E1 E2]. rewrite Z.eqb_eq in E2, E3.
    exists r, q, rc. auto 10.
  - intros (r & q & rc & Hin & Hc & Ha & Hpv & Hsv & ->).
    apply (Permutation_in _ (Permutation_sym Hp)). unfold spec_requests.
    apply in_flat_map. exists (r, q). split; [assumption|]. cbn [fst snd].
    rewrite Hc, Ha. subst prov svc. rewrite !Z.eqb_refl. now left.
Qed.

Theorem C17_q_requests_order s svc prov :
  Sorted (le_of act_leb) (active_requests_of_binding s svc prov) /\
  (forall kv, In kv (active_requests_of_binding s svc prov) <->
              In kv (reqs s) /\ is_active_of s svc prov kv = true).
Proof.
  unfold active_requests_of_binding. split.
  - apply isort_sorted. exact act_leb_total.
  - intros kv. rewrite In_isort, filter_In. tauto.
Qed.

(* ------------------------------------------------------------------ *)
(* requests of a batch *)

Definition spec_requests_by_ctx (s : State) (c : CtxId) (batch : Z) : list FullReq :=
  flat_map (fun kv : ReqId * Req =>
              if in_batch c batch (fst kv) then
                match get (rid_ctx (fst kv)) (ctxs s) with
                | Some rc => [join_request (fst kv) (snd kv) rc]
                | None => []
                end
              else [])
           (reqs s).

Lemma map_filter_batch s c batch l :
  (forall kv, In kv l -> get (fst kv) (reqs s) = Some (snd kv) /\
                          exists rc, get (rid_ctx (fst kv)) (ctxs s) = Some rc) ->
  map (request_or_zero s) (filter (in_batch c batch) (map fst l)) =
  flat_map (fun kv : ReqId * Req =>
              if in_batch c batch (fst kv) then
                match get (rid_ctx (fst kv)) (ctxs s) with
                | Some rc => [join_request (fst kv) (snd kv) rc]
                | None => []
                end
              else []) l.
Proof.
  induction l as [|kv t IH]; intros Hg; [reflexivity|].
  cbn [map filter flat_map]. rewrite <- IH by (intros; apply Hg; now right).
  destruct (Hg kv (or_introl eq_refl)) as (E & rc & Hc).
  destruct (in_batch c batch (fst kv)); [|reflexivity].
  rewrite Hc. cbn [map app]. f_equal. unfold request_or_zero, get_request. now rewrite E, Hc.
Qed.

Theorem C17_q_requests_by_ctx s c batch :
  wf (reqs s) -> reqs_have_ctx s ->
  exists l, q_requests_by_ctx s c batch = AOk l /\
            Permutation l (spec_requests_by_ctx s c batch) /\
            (forall fr, In fr l <->
                        exists r q rc, In (r, q) (reqs s) /\ get (rid_ctx r) (ctxs s) = Some rc /\
                                       rid_ctx r = c /\ rid_batch r = batch /\
                                       fr = join_request r q rc) /\
            length l = length (filter (fun kv => in_batch c batch (fst kv)) (reqs s)).
Proof.
  intros Hw Hc.
  exists (map (request_or_zero s) (batch_rids s c batch)).
  split; [reflexivity|].
  assert (Hp : Permutation (map (request_or_zero s) (batch_rids s c batch))
                           (spec_requests_by_ctx s c batch)).
  { unfold batch_rids, spec_requests_by_ctx, keys.
    rewrite <- map_filter_batch.
    - apply Permutation_map, isort_perm.
    - intros [r q] Hin. cbn [fst snd]. apply In_get in Hin; [|assumption].
      split; [assumption|]. now apply (Hc r q). }
  split; [exact Hp|]. split.
  - intros fr. split.
    + intros Hin. apply (Permutation_in _ Hp) in Hin. unfold spec_requests_by_ctx in Hin.
      apply in_flat_map in Hin. destruct Hin as ([r q] & Hin & Hx). cbn [fst snd] in Hx.
      destruct (in_batch c batch r) eqn:Eb; [|destruct Hx].
      destruct (get (rid_ctx r) (ctxs s)) as [rc|] eqn:Hrc; [|destruct Hx].
      destruct Hx as [<-|[]]. unfold in_batch in Eb. apply andb_true_iff in Eb.
      destruct Eb as [E1 E2]. apply eqb_true in E1. rewrite Z.eqb_eq in E2.
      exists r, q, rc. auto 10.
    + intros (r & q & rc & Hin & Hrc & Hcx & Hb & ->).
      apply (Permutation_in _ (Permutation_sym Hp)). unfold spec_requests_by_ctx.
      apply in_flat_map. exists (r, q). split; [assumption|]. cbn [fst snd].
      rewrite Hrc. unfold in_batch. rewrite Hcx, Hb, eqb_refl, Z.eqb_refl. cbn [andb]. now left.
  - rewrite map_length. unfold batch_rids, keys.
    rewrite (Permutation_length (isort_perm rid_leb _)).
    generalize (reqs s) as m. induction m as [|kv t IH]; [reflexivity|].
    cbn [map filter]. destruct (in_batch c batch (fst kv)); cbn [length]; now rewrite IH.
Qed.

Theorem C17_q_requests_by_ctx_order s c batch :
  Sorted (le_of rid_leb) (batch_rids s c batch) /\
  (forall r, In r (batch_rids s c batch) <->
             In r (keys (reqs s)) /\ rid_ctx r = c /\ rid_batch r = batch).
Proof.
  unfold batch_rids. split.
  - apply isort_sorted. exact rid_leb_total.
  - intros r. rewrite In_isort, filter_In. unfold in_batch.
    rewrite andb_true_iff, eqb_eq, Z.eqb_eq. tauto.
Qed.

(* ------------------------------------------------------------------ *)
(* responses of a batch *)

Definition spec_responses (s : State) (c : CtxId) (batch : Z) : list (ReqId * Resp) :=
  filter (fun kv => in_batch c batch (fst kv)) (resps s).

Theorem C17_q_responses s c batch :
  exists l, q_responses s c batch = AOk l /\
            Permutation l (spec_responses s c batch) /\
            (forall r x, In (r, x) l <->
                         In (r, x) (resps s) /\ rid_ctx r = c /\ rid_batch r = batch) /\
            Sorted (le_of resp_leb) l /\
            (wf (resps s) -> NoDup l).
Proof.
  exists (responses_of_batch s c batch). split; [reflexivity|].
  unfold responses_of_batch, spec_responses. split; [apply isort_perm|]. split; [|split].
  - intros r x. rewrite In_isort, filter_In. cbn [fst]. unfold in_batch.
    rewrite andb_true_iff, eqb_eq, Z.eqb_eq. tauto.
  - apply isort_sorted. exact resp_leb_total.
  - intros Hw. apply (Permutation_NoDup (Permutation_sym (isort_perm resp_leb _))).
    apply NoDup_filter. now apply NoDup_pairs.
Qed.

(* ------------------------------------------------------------------ *)
(* earned fees, schema, parameters *)

Theorem C17_q_earned_fees s prov :
  wf (earned s) ->
  exists l, q_earned_fees s prov = AOk l /\
            (forall v, In v l <-> In (prov, v) (earned s)) /\
            (length l <= 1)%nat.
Proof.
  intros Hw. exists (earned_fees s prov). split; [reflexivity|].
  unfold earned_fees. destruct (get prov (earned s)) as [v|] eqn:E.
  - split; [|cbn; lia]. intros v'. cbn [In]. split.
    + intros [<-|[]]. now apply get_In.
    + intros Hin. apply In_get in Hin; [|assumption]. left. congruence.
  - split; [|cbn; lia]. intros v'. cbn [In]. split; [tauto|].
    intros Hin. apply In_get in Hin; [congruence|assumption].
Qed.

Theorem C17_q_schema name :
  (name = 1 -> q_schema name = AOk 1) /\ (name = 2 -> q_schema name = AOk 2) /\
  (name <> 1 -> name <> 2 -> q_schema name = ANotFound).
Proof.
  unfold q_schema. repeat split.
  - intros ->. reflexivity.
  - intros ->. reflexivity.
  - intros H1 H2. apply Z.eqb_neq in H1, H2. now rewrite H1, H2.
Qed.

Theorem C17_q_params cfg : q_params cfg = AOk cfg.
Proof. reflexivity. Qed.

(* ------------------------------------------------------------------ *)
(* both interfaces give the same answers (for arguments the legacy encoding can carry) *)

Theorem C17_same_answers cfg s :
  (forall svc, lq_definition s svc = q_definition s svc) /\
  (forall svc prov, lq_binding true s svc prov = q_binding s svc prov) /\
  (forall svc owner, lq_bindings true s svc owner = q_bindings s svc owner) /\
  (forall owner, lq_withdraw_address true s owner = q_withdraw_address s owner) /\
  (forall c, lq_request_context s c = q_request_context s c) /\
  (forall r, lq_request s r = q_request s r) /\
  (forall svc prov, lq_requests true s svc prov = q_requests s svc prov) /\
  (forall c b, lq_requests_by_ctx s c b = q_requests_by_ctx s c b) /\
  (forall r, lq_response s r = q_response s r) /\
  (forall c b, lq_responses s c b = q_responses s c b) /\
  (forall prov, lq_earned_fees true s prov = q_earned_fees s prov) /\
  (forall n, lq_schema n = q_schema n) /\
  lq_params cfg = q_params cfg.
Proof.
  repeat split; intros; try reflexivity.
  unfold lq_bindings, q_bindings. now destruct (owner =? 0).
Qed.
