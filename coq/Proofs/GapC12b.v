(* C12, exactly once for FINISHED contexts (audit C12 (d)2, third line).
   C12_callback_once relates the counts of batch events to the record of an EXISTING context.  Once
   a context is removed (its batches are over: completed, killed, total reached) no record is left
   to compare with.  Here: a removed context stays removed, and every batch it ever started was
   completed -- exactly once (with C12_callback_once: at most one start, one completion per batch);
   its response callbacks are, for every batch, as many as its completions, or none at all (the log
   does not record whether the context belonged to a module). *)
From Coq Require Import List ZArith Bool Lia Permutation.
From SVC Require Import Base.AMap Base.Res Base.Dec Model.Types Model.Pricing
  Model.Handlers Model.EndBlock Model.Step Proofs.Inv Proofs.Lemmas Proofs.ReqLemmas
  Proofs.CtxOps Proofs.InvSched Proofs.InvCtx Proofs.InvEscrow Proofs.InvReq Proofs.InvAll
  Proofs.StepSpecs_ctx Proofs.TraceBase Proofs.C16Proofs Proofs.InvCount Proofs.C10Proofs
  Proofs.TraceBatch Proofs.TraceSettle.
Import ListNotations.
Open Scope Z_scope.

Notation count := TraceBase.count.

Definition RM (s : State) : Prop :=
  forall c, In (EvCtxRemoved c) (log s) ->
    get c (ctxs s) = None /\ In (EvCtxCreated c) (log s)
    /\ forall n, nstart c n s = ndone c n s.

Definition PR (s : State) : Prop := PT s /\ RM s.

Lemma In_blog e s : tracked e = true -> (In e (log s) <-> In e (blog s)).
Proof. intros Ht. unfold blog. rewrite filter_In. tauto. Qed.

(* new batch-level events all about c0 <> c leave the counts of c alone *)
Lemma counts_other c c0 s s' l :
  blog s' = l ++ blog s -> (forall e, In e l -> ev_ctx e = Some c0) -> c <> c0 ->
  forall n, nstart c n s' = nstart c n s /\ ndone c n s' = ndone c n s.
Proof.
  intros Eb Hl Hn n.
  rewrite (nstart_app _ _ _ _ _ Eb), (ndone_app _ _ _ _ _ Eb).
  rewrite (count_other c c0 (is_start c n)), (count_other c c0 (is_done c n)) by (auto using about_start, about_done).
  lia.
Qed.

Lemma done_events_not_removed c0 rc outs e c1 : In e (done_events c0 rc outs) -> e <> EvCtxRemoved c1.
Proof.
  unfold done_events. intros [<-|He]; [discriminate|].
  destruct (c_mod rc =? 0); [destruct He|destruct He as [<-|[]]; discriminate].
Qed.

Lemma RM_msg cfg s o s' :
  wf_cfg cfg -> Inv cfg s -> PR s -> wf_op s o -> (forall dt, o <> OEndBlock dt) ->
  handle cfg s o = Ok s' -> RM s'.
Proof.
  intros Hcfg HI ((Hst & HT) & HR) Hwf Hne H c Hin.
  assert (Hincl : incl (log s) (log s'))
    by (apply (TraceLemmas.ext_incl TraceLemmas.nodebit), (ND_msg _ _ _ _ Hne H)).
  (* the batch-level events the message appends: none of them a removal; none a start or a
     completion of a context without a record *)
  assert (Hshape : exists l, blog s' = l ++ blog s /\ (forall e c1, In e l -> e <> EvCtxRemoved c1)
                     /\ (get c (ctxs s) = None ->
                         forall n, count (is_start c n) l = 0 /\ count (is_done c n) l = 0)).
  { assert (Hother : (forall r who code out ov ok, o <> ORespond r who code out ov ok) ->
              exists l, blog s' = l ++ blog s /\ (forall e c1, In e l -> e <> EvCtxRemoved c1)
                /\ (get c (ctxs s) = None -> forall n, count (is_start c n) l = 0 /\ count (is_done c n) l = 0)).
    { intros Hnr. destruct (C12_callback_msg_other _ _ _ _ Hcfg HI Hwf Hne H Hnr) as [Eb|(c1 & Eb)].
      - exists []. split; [exact Eb|]. split; [intros e c1 []|]. intros _ n. split; reflexivity.
      - exists [EvCtxCreated c1]. split; [exact Eb|]. split; [intros e c2 [<-|[]]; discriminate|].
        intros _ n. split; reflexivity. }
    destruct o; try (apply Hother; intros; discriminate).
    cbn [handle] in H. destruct (respond_blog _ _ _ _ _ _ _ _ _ Hcfg HI H) as (rc & Grc & Eb).
    eexists. split; [exact Eb|]. split.
    - intros e c1 He. destruct (c_bresp rc + 1 =? c_breq rc); [eapply done_events_not_removed; eauto|destruct He].
    - intros Gn n. assert (Hn : c <> rid_ctx r) by (intros ->; congruence).
      destruct (c_bresp rc + 1 =? c_breq rc); [|split; reflexivity].
      split; apply (count_other c (rid_ctx r)); auto using about_start, about_done;
        intros e He; eapply done_events_about; eauto. }
  destruct Hshape as (l & Eb & Hnrm & Hz).
  assert (Hold : In (EvCtxRemoved c) (log s)).
  { apply (In_blog (EvCtxRemoved c) s eq_refl). apply (In_blog (EvCtxRemoved c) s' eq_refl) in Hin. rewrite Eb in Hin.
    apply in_app_or in Hin. destruct Hin as [Hin|Hin]; [exfalso; eapply Hnrm; eauto|exact Hin]. }
  destruct (HR c Hold) as (Gn & Hcr & Hcnt).
  split.
  { destruct (get c (ctxs s')) as [rc'|] eqn:G'; [exfalso|reflexivity].
    exact (msg_new_ctx_fresh _ _ _ _ _ _ Hcfg HI Hwf Hne H Gn G' Hcr). }
  split; [apply Hincl, Hcr|].
  intros n. rewrite (nstart_app _ _ _ _ _ Eb), (ndone_app _ _ _ _ _ Eb).
  destruct (Hz Gn n) as (-> & ->). rewrite (Hcnt n). reflexivity.
Qed.

(* the facts about the record of c0 just before its removal give start = done for every batch *)
Lemma E_facts_all_done c rc s :
  E_facts c rc s -> 0 <= c_counter rc -> c_bdone rc = true ->
  forall n, nstart c n s = ndone c n s.
Proof.
  intros (E1 & E2 & E3 & E4 & _) H0 Hb n. rewrite E1.
  destruct (Z_le_gt_dec n 0) as [Hle|Hgt].
  - rewrite (E3 n) by (left; lia). destruct (1 <=? n) eqn:A; [b2p; lia|reflexivity].
  - destruct (Z_lt_le_dec (c_counter rc) n) as [Hlt|Hle2].
    + rewrite (E3 n) by (right; lia). destruct (n <=? c_counter rc) eqn:B; [b2p; lia|].
      now rewrite andb_false_r.
    + assert (Hbb : (1 <=? n) && (n <=? c_counter rc) = true)
        by (apply andb_true_intro; split; apply Z.leb_le; lia).
      rewrite Hbb. destruct (Z.eq_dec n (c_counter rc)) as [->|Hne].
      * rewrite E4 by lia. now rewrite Hb.
      * rewrite E2 by lia. reflexivity.
Qed.

Lemma RM_expire_one cfg s c0 :
  wf_cfg cfg -> Inv cfg s -> PR s -> In (height s, c0) (expq s) -> height s < HEIGHT_BOUND ->
  RM (expire_one cfg s c0).
Proof.
  intros Hcfg HI (HP & HR) Hdue Hb c Hin.
  destruct (expire_one_spec cfg s c0 Hcfg HI Hdue Hb)
    as (rc & rc1 & Erc & Ee & En & Hrc1 & Ht & _ & _ & _ & Hcase).
  pose proof (t_log _ _ _ Ht) as Hincl.
  pose proof (expire_one_blog cfg s c0 rc HI Erc) as Eb.
  pose proof (Inv_expire_one cfg s c0 Hcfg HI Hdue Hb) as HI'.
  pose proof (TC_expire_one cfg s c0 Hcfg HI HP Hdue Hb) as HT'.
  destruct (eqb_spec c c0) as [->|Hn].
  - (* the context the handler runs for *)
    assert (Gn' : get c0 (ctxs (expire_one cfg s c0)) = None).
    { destruct (get c0 (ctxs (expire_one cfg s c0))) as [rc'|] eqn:G'; [exfalso|reflexivity].
      (* a surviving record: then the handler emitted no removal, and there was none before *)
      assert (Hf : fin_b rc = false).
      { unfold fin_b. destruct Hcase as [(Ex & _)|[(_ & _ & Hr & Hm)|(_ & _ & Hp)]]; [congruence| |].
        - now rewrite Hr, Hm.
        - now rewrite Hp. }
      apply (In_blog (EvCtxRemoved c0) _ eq_refl) in Hin. rewrite Eb, Hf in Hin. cbn [app] in Hin.
      apply in_app_or in Hin. destruct Hin as [Hin|Hin].
      - destruct (c_bdone rc); [destruct Hin|]. eapply done_events_not_removed; eauto.
      - apply (In_blog (EvCtxRemoved c0) s eq_refl) in Hin. destruct (HR c0 Hin) as (Gn & _). congruence. }
    split; [exact Gn'|]. split; [apply Hincl, (I_ctx_get _ _ _ _ (inv_ctx _ _ HI) Erc)|].
    (* counts: the facts of the record after completion (TC_expire_one proves them for the
       surviving record; here the record is gone, so recompute from the facts before) *)
    destruct HP as (Hst & HT). destruct (HT c0) as (_ & HE). specialize (HE rc Erc).
    assert (HN : 1 <= c_counter rc) by (apply (Hst _ _ Erc); unfold has; now rewrite Ee).
    set (l := if fin_b rc then [EvCtxRemoved c0] else []) in *.
    assert (L1 : forall n, count (is_start c0 n) l = 0) by (intros n; unfold l; destruct (fin_b rc); reflexivity).
    assert (L2 : forall n, count (is_done c0 n) l = 0) by (intros n; unfold l; destruct (fin_b rc); reflexivity).
    assert (L3 : forall n, count (is_cbresp c0 n) l = 0) by (intros n; unfold l; destruct (fin_b rc); reflexivity).
    assert (HE' : E_facts c0 (setc_bdone rc true) (expire_one cfg s c0)).
    { destruct (c_bdone rc) eqn:Ebd.
      - cbn [app] in Eb.
        assert (S1 : forall n, nstart c0 n (expire_one cfg s c0) = nstart c0 n s)
          by (intros n; rewrite (nstart_app _ _ _ _ _ Eb), L1; lia).
        assert (S2 : forall n, ndone c0 n (expire_one cfg s c0) = ndone c0 n s)
          by (intros n; rewrite (ndone_app _ _ _ _ _ Eb), L2; lia).
        assert (S3 : forall n, ncb c0 n (expire_one cfg s c0) = ncb c0 n s)
          by (intros n; rewrite (ncb_app _ _ _ _ _ Eb), L3; lia).
        destruct HE as (E1 & E2 & E3 & E4 & E5 & E6). unfold E_facts. cbn [c_counter c_bdone c_mod setc_bdone].
        repeat split; intros; rewrite ?S1, ?S2, ?S3; auto.
        rewrite E4 by assumption. now rewrite Ebd.
      - eapply (E_complete c0 rc _ _ l s); try reflexivity; try assumption. exact Eb. }
    apply (E_facts_all_done c0 (setc_bdone rc true)); [exact HE'|cbn; lia|reflexivity].
  - (* another context: its removal is old, nothing about it changes *)
    assert (Hl : forall e, In e ((if fin_b rc then [EvCtxRemoved c0] else [])
                                 ++ (if c_bdone rc then [] else done_events c0 rc (batch_outputs s c0 (c_counter rc))))
                           -> ev_ctx e = Some c0).
    { intros e He. apply in_app_or in He. destruct He as [He|He].
      - destruct (fin_b rc); [destruct He as [<-|[]]; reflexivity|destruct He].
      - destruct (c_bdone rc); [destruct He|]. eapply done_events_about; eauto. }
    rewrite app_assoc in Eb.
    assert (Hold : In (EvCtxRemoved c) (log s)).
    { apply (In_blog (EvCtxRemoved c) s eq_refl). apply (In_blog (EvCtxRemoved c) _ eq_refl) in Hin. rewrite Eb in Hin.
      apply in_app_or in Hin. destruct Hin as [Hin|Hin]; [|exact Hin].
      exfalso. pose proof (Hl _ Hin) as E. cbn [ev_ctx] in E. congruence. }
    destruct (HR c Hold) as (Gn & Hcr & Hcnt).
    split; [rewrite (t_ctxs _ _ _ Ht) by assumption; exact Gn|]. split; [apply Hincl, Hcr|].
    intros n. destruct (counts_other c c0 s _ _ Eb Hl Hn n) as (-> & ->). apply Hcnt.
Qed.

Lemma RM_new_one cfg s c0 :
  wf_cfg cfg -> Inv cfg s -> PR s -> In (height s, c0) (newq s) -> height s < HEIGHT_BOUND ->
  RM (new_one cfg s c0).
Proof.
  intros Hcfg HI (HP & HR) Hdue Hb c Hin.
  destruct (new_one_spec cfg s c0 HI Hdue) as (rc & Erc & En & Ee & Ht & _ & _ & _ & Hcase).
  pose proof (t_log _ _ _ Ht) as Hincl.
  destruct (inv_req _ _ HI) as (_ & _ & R3). destruct (R3 _ _ Erc) as (_ & _ & _ & B4).
  assert (Hbd : c_bdone rc = true) by (apply B4; now apply has_false).
  pose proof (counter_nonneg _ _ _ _ HI Erc) as H0.
  destruct HP as (Hst & HT). destruct (HT c0) as (_ & HE). specialize (HE rc Erc).
  (* the new batch-level events: all about c0; a removal only in the total-reached case *)
  assert (Hshape : exists l, blog (new_one cfg s c0) = l ++ blog s
            /\ (forall e, In e l -> ev_ctx e = Some c0)
            /\ ((l = [EvCtxRemoved c0] /\ get c0 (ctxs (new_one cfg s c0)) = None)
                \/ (forall e c1, In e l -> e <> EvCtxRemoved c1))).
  { destruct (new_one_blog cfg s c0 rc Erc)
      as [(Hd & Eb)|[(Hd & Hr & n & Eb & Ex)|[(Hd & Hr & Eb & Ex)|(Hr & Eb & Ex)]]].
    - exists [EvCtxRemoved c0]. split; [exact Eb|]. split; [intros e [<-|[]]; reflexivity|]. left.
      split; [reflexivity|].
      destruct Hcase as [(_ & Ex & _)|[(Hx & _)|[(Hx & _)|(Hx & _)]]]; try congruence.
      unfold d5 in Hd. apply is_state_false in Hx. rewrite Hx in Hd. discriminate.
    - exists [EvBatchStart c0 (c_counter rc + 1) (height s) n]. split; [exact Eb|].
      split; [intros e [<-|[]]; reflexivity|]. right. intros e c1 [<-|[]]. discriminate.
    - exists (if c_mod rc =? 0 then [] else [EvCbState c0]). split; [exact Eb|]. split.
      + intros e He. destruct (c_mod rc =? 0); [destruct He|destruct He as [<-|[]]; reflexivity].
      + right. intros e c1 He. destruct (c_mod rc =? 0); [destruct He|destruct He as [<-|[]]; discriminate].
    - exists []. split; [exact Eb|]. split; [intros e []|]. right. intros e c1 []. }
  destruct Hshape as (l & Eb & Hl & Hrm).
  destruct (eqb_spec c c0) as [->|Hn].
  - destruct Hrm as [(-> & Gn')|Hnrm].
    + split; [exact Gn'|]. split; [apply Hincl, (I_ctx_get _ _ _ _ (inv_ctx _ _ HI) Erc)|].
      intros n. rewrite (nstart_app _ _ _ _ _ Eb), (ndone_app _ _ _ _ _ Eb), !count_cons, !count_nil.
      cbn [is_start is_done]. rewrite (E_facts_all_done c0 rc s HE H0 Hbd n). reflexivity.
    + exfalso. apply (In_blog (EvCtxRemoved c0) _ eq_refl) in Hin. rewrite Eb in Hin. apply in_app_or in Hin.
      destruct Hin as [Hin|Hin]; [eapply Hnrm; eauto|].
      apply (In_blog (EvCtxRemoved c0) s eq_refl) in Hin. destruct (HR c0 Hin) as (Gn & _). congruence.
  - assert (Hold : In (EvCtxRemoved c) (log s)).
    { apply (In_blog (EvCtxRemoved c) s eq_refl). apply (In_blog (EvCtxRemoved c) _ eq_refl) in Hin. rewrite Eb in Hin.
      apply in_app_or in Hin. destruct Hin as [Hin|Hin]; [|exact Hin].
      exfalso. pose proof (Hl _ Hin) as E. cbn [ev_ctx] in E. congruence. }
    destruct (HR c Hold) as (Gn & Hcr & Hcnt).
    split; [rewrite (t_ctxs _ _ _ Ht) by assumption; exact Gn|]. split; [apply Hincl, Hcr|].
    intros n. destruct (counts_other c c0 s _ _ Eb Hl Hn n) as (-> & ->). apply Hcnt.
Qed.

Theorem Reach_PR cfg s : wf_cfg cfg -> Reach cfg s -> PR s.
Proof.
  intros Hcfg. apply (Reach_ind_inv cfg PR Hcfg).
  - intros h0 t0 f _ _ _. split; [split; [intros c rc G; discriminate|apply TC_init]|intros c []].
  - intros s0 o s' HI HP Hwf Hne H. pose proof HP as ((P0 & P1) & P2).
    split; [split; [eapply I_started_msg; eauto|eapply TC_msg; eauto; split; assumption]|eapply RM_msg; eauto].
  - intros s0 c HI HP Hd Hb. pose proof HP as ((P0 & P1) & P2).
    split; [split; [now apply I_started_expire_one|apply TC_expire_one; auto; split; assumption]|now apply RM_expire_one].
  - intros s0 c HI HP Hd Hb. pose proof HP as ((P0 & P1) & P2).
    split; [split; [now apply I_started_new_one|apply TC_new_one; auto; split; assumption]|now apply RM_new_one].
  - intros s0 dt _ HP _ _ _. exact HP.
Qed.

(* C12_finished_context_complete *)
Theorem finished_context_complete cfg s c : wf_cfg cfg -> Reach cfg s -> In (EvCtxRemoved c) (log s) ->
  get c (ctxs s) = None
  /\ In (EvCtxCreated c) (log s)
  /\ (forall n, count (is_start c n) (log s) = count (is_done c n) (log s)
                /\ count (is_done c n) (log s) <= 1)
  /\ ((forall n, count (is_cbresp c n) (log s) = count (is_done c n) (log s))
      \/ (forall n, count (is_cbresp c n) (log s) = 0)).
Proof.
  intros Hcfg Hr Hin. destruct (Reach_PR cfg s Hcfg Hr) as (_ & HR).
  destruct (HR c Hin) as (Gn & Hcr & Hcnt).
  destruct (C12_callback_once cfg s Hcfg Hr c) as (A & B & _).
  split; [exact Gn|]. split; [exact Hcr|]. split; [|exact B].
  intros n. rewrite (count_blog c (is_start c n) s (about_start c n)), (count_blog c (is_done c n) s (about_done c n)).
  split; [apply Hcnt|]. destruct (A n) as (_ & A2 & A3).
  rewrite (count_blog c (is_start c n) s (about_start c n)), (count_blog c (is_done c n) s (about_done c n)) in *. lia.
Qed.

(* satisfiable: after the expiry block of Proofs/BatchEx.v the one-shot module context c1 is removed *)
From SVC Require Import Proofs.ReachRun Proofs.BatchEx.
Example finished_context_ex :
  In (EvCtxRemoved BEx.c1) (log BEx.s_x)
  /\ count (is_start BEx.c1 1) (log BEx.s_x) = 1 /\ count (is_done BEx.c1 1) (log BEx.s_x) = 1
  /\ count (is_cbresp BEx.c1 1) (log BEx.s_x) = 1.
Proof. split; [vm_compute; auto 20|]. repeat split; vm_compute; reflexivity. Qed.
