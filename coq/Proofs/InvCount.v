(* I_cnt (property C12, "counts"): while the expiry of a context's batch is
   pending, the recorded request count is the number of stored request records of
   the context and the recorded response count the number of stored response
   records.  An extra invariant on top of Inv (the link missing in I_req between
   "responses" and "inactive requests"); one lemma per operation, each assuming
   the full Inv of the state it starts from; then Reach_I_cnt by Reach_ind_inv. *)
From Coq Require Import List ZArith Bool Lia Permutation.
From SVC Require Import Base.AMap Base.Res Base.Dec Model.Types Model.Pricing
  Model.Handlers Model.EndBlock Model.Step Proofs.Inv Proofs.Lemmas Proofs.ReqLemmas
  Proofs.CtxOps Proofs.InvSched Proofs.InvCtx Proofs.InvEscrow Proofs.InvReq Proofs.InvAll
  Proofs.StepSpecs_ctx Proofs.TraceBase Proofs.C16Proofs.
Import ListNotations.
Open Scope Z_scope.

Definition of_ctx {V} (c : CtxId) : ReqId -> V -> Z :=
  fun r _ => if eqb (rid_ctx r) c then 1 else 0.

Definition I_cnt (s : State) : Prop :=
  forall c rc, get c (ctxs s) = Some rc -> has c (expq_h s) = true ->
    msum (of_ctx c) (reqs s) = c_breq rc /\ msum (of_ctx c) (resps s) = c_bresp rc.

(* ------------------------------------------------------------------ *)
(* of_ctx sums *)

Lemma of_ctx_set {V} c r (v : V) (m : amap ReqId V) :
  msum (of_ctx c) (set r v m) = msum (of_ctx c) m
    + (if has r m then 0 else if eqb (rid_ctx r) c then 1 else 0).
Proof. unfold of_ctx. apply (msum_set_keyonly (fun r => if eqb (rid_ctx r) c then 1 else 0)). Qed.

Lemma of_ctx_zero {V} c (m : amap ReqId V) :
  (forall r v, In (r, v) m -> rid_ctx r <> c) -> msum (of_ctx c) m = 0.
Proof.
  intros Hn. apply msum_zero. intros r v Hin. unfold of_ctx.
  destruct (eqb_spec (rid_ctx r) c) as [E|]; [|reflexivity]. exfalso. eapply Hn; eauto.
Qed.

Lemma of_ctx_pointwise {V} c (m m' : amap ReqId V) :
  wf m -> wf m' -> (forall r, rid_ctx r = c -> get r m' = get r m) ->
  msum (of_ctx c) m' = msum (of_ctx c) m.
Proof.
  intros Hw Hw' Hg. apply msum_pointwise; try assumption.
  intros r. unfold fget, of_ctx. destruct (eqb_spec (rid_ctx r) c) as [E|].
  - now rewrite (Hg r E).
  - destruct (get r m'), (get r m); reflexivity.
Qed.

(* without pending expiry a context has no records *)
Lemma no_expiry_sums cfg s c : Inv cfg s -> get c (expq_h s) = None ->
  msum (of_ctx c) (reqs s) = 0 /\ msum (of_ctx c) (resps s) = 0.
Proof.
  intros HI He. pose proof (inv_wf _ _ HI) as Hwf.
  destruct (Inv_no_orphans _ _ HI) as (_ & _ & N3 & _).
  split; apply of_ctx_zero; intros r v Hin Hc; apply In_get in Hin; try apply Hwf;
    destruct (N3 c r He Hc); congruence.
Qed.

(* ------------------------------------------------------------------ *)
(* frames *)

Lemma I_cnt_same s s' :
  reqs s' = reqs s -> resps s' = resps s -> ctxs s' = ctxs s -> expq_h s' = expq_h s ->
  I_cnt s -> I_cnt s'.
Proof. unfold I_cnt. intros -> -> -> ->. auto. Qed.

Lemma I_cnt_put s s' c rc' :
  reqs s' = reqs s -> resps s' = resps s -> expq_h s' = expq_h s ->
  ctxs s' = set c rc' (ctxs s) ->
  (has c (expq_h s) = false
   \/ exists rc, get c (ctxs s) = Some rc /\ c_breq rc' = c_breq rc /\ c_bresp rc' = c_bresp rc) ->
  I_cnt s -> I_cnt s'.
Proof.
  unfold I_cnt. intros -> -> -> -> Hc Hi c' rcx G He. rewrite get_set in G.
  destruct (eqb_spec c' c) as [->|Hn]; [|auto].
  injection G as <-. destruct Hc as [Hf|(rc & Grc & -> & ->)]; [congruence|auto].
Qed.

(* ------------------------------------------------------------------ *)
(* init, tick *)

Lemma I_cnt_init h0 t0 f : I_cnt (init h0 t0 f).
Proof. unfold I_cnt, init. cbn [ctxs]. intros c rc G. discriminate. Qed.

Lemma I_cnt_tick s dt : I_cnt s -> I_cnt (tick s dt).
Proof. intros H. exact H. Qed.

(* ------------------------------------------------------------------ *)
(* messages *)

Lemma reqs_started s c rc :
  reqs (started s c rc) = reqs s /\ resps (started s c rc) = resps s
  /\ expq_h (started s c rc) = expq_h s.
Proof. unfold started. destruct (negb (has c (expq_h s)) && negb (has c (newq_h s))); repeat split. Qed.

(* the context record written by h_respond, exactly *)
Definition responded (rc : Ctx) : Ctx :=
  let rc1 := setc_bresp rc (c_bresp rc + 1) in
  if c_bresp rc1 =? c_breq rc1 then setc_bdone rc1 true else rc1.

Lemma respond_exact cfg s r who code out ov ok s' :
  wf_cfg cfg -> Inv cfg s -> h_respond cfg s r who code out ov ok = Ok s' ->
  exists q rc,
    get r (reqs s) = Some q /\ r_active q = true /\ who = r_prov q
    /\ get (rid_ctx r) (ctxs s) = Some rc
    /\ get (rid_ctx r) (expq_h s) = Some (r_exp q)
    /\ c_bdone rc = false /\ 0 <= c_bresp rc < c_breq rc
    /\ get r (resps s) = None
    /\ reqs s' = set r (deact q) (reqs s)
    /\ resps s' = set r (mkResp who (c_cons rc) code out) (resps s)
    /\ expq_h s' = expq_h s
    /\ ctxs s' = set (rid_ctx r) (responded rc) (ctxs s).
Proof.
  intros Hcfg Hinv H. apply respond_inv in H.
  destruct H as (q & rc0 & s1 & rc & _ & Hq & Hrc0 & Hwho & Hact & Hset & Hrc & ->).
  destruct (settle_core _ _ _ _ _ _ _ _ Hset) as ((C1 & C2 & C3 & C4 & C5) & Cb).
  pose proof (resp_tail_req s1 r who rc0 code out (rid_ctx r) rc) as T. cbv zeta in T.
  destruct T as (T1 & T2 & T3 & T4 & T5 & T6).
  assert (Erc : rc = rc0).
  { unfold resp_mid in Hrc. sproj. unfold deactivate in Hrc. sproj.
    destruct (get r (reqs s1)); sproj; rewrite C3 in Hrc; congruence. }
  subst rc0.
  destruct (inv_req _ _ Hinv) as (R1 & R2 & R3).
  pose proof (get_In _ _ _ Hq) as Hqin.
  destruct (R1 _ _ Hqin) as (rc' & G1 & Q2 & Q3 & _).
  assert (rc' = rc) by congruence. subst rc'.
  destruct (R3 _ _ Hrc0) as (B1 & B2 & B3 & B4).
  assert (Hexp : has (rid_ctx r) (expq_h s) = true) by (unfold has; now rewrite Q3).
  rewrite Hexp in B2. cbn [andb] in B2.
  assert (Hpos : 1 <= msum (active_in (rid_ctx r)) (reqs s)).
  { assert (E : active_in (rid_ctx r) r q = fget (active_in (rid_ctx r)) r (reqs s))
      by (unfold fget; now rewrite Hq).
    assert (L : fget (active_in (rid_ctx r)) r (reqs s) <= msum (active_in (rid_ctx r)) (reqs s)).
    { apply msum_ge_fget. intros k v _. unfold active_in. destruct (_ && _); lia. }
    rewrite <- E in L. unfold active_in in L. rewrite eqb_refl, Hact in L. cbn [andb] in L. exact L. }
  assert (Hnd : c_bdone rc = false).
  { destruct (c_bdone rc); [|reflexivity]. cbn [negb] in B2. lia. }
  rewrite Hnd in B2. cbn [negb] in B2.
  assert (Hnr : get r (resps s) = None).
  { destruct (get r (resps s)) as [x|] eqn:E; [|reflexivity]. apply get_In in E.
    destruct (R2 _ _ E) as (q' & Gq' & Hia). congruence. }
  exists q, rc. repeat split; try assumption; try lia.
  - rewrite T1, deactivate_reqs, C1, Hq. reflexivity.
  - rewrite T2, C2. reflexivity.
  - congruence.
  - rewrite T6, C3. reflexivity.
Qed.

Lemma I_cnt_respond cfg s r who code out ov ok s' :
  wf_cfg cfg -> Inv cfg s -> I_cnt s -> h_respond cfg s r who code out ov ok = Ok s' -> I_cnt s'.
Proof.
  intros Hcfg Hinv Hi H.
  destruct (respond_exact _ _ _ _ _ _ _ _ _ Hcfg Hinv H)
    as (q & rc & Hq & Hact & _ & Hrc & Hexp & Hnd & Hb & Hnr & E1 & E2 & E3 & E4).
  unfold I_cnt. rewrite E1, E2, E3, E4. intros c' rcx G He.
  rewrite !of_ctx_set. unfold has. rewrite Hq, Hnr.
  rewrite get_set in G. destruct (eqb_spec c' (rid_ctx r)) as [->|Hn].
  - injection G as <-. rewrite eqb_refl. destruct (Hi _ _ Hrc He) as (A1 & A2).
    unfold responded. destruct (_ =? _); cbn [c_breq c_bresp setc_bdone setc_bresp]; lia.
  - destruct (eqb_spec (rid_ctx r) c'); [congruence|]. destruct (Hi _ _ G He). lia.
Qed.

Lemma I_cnt_msg cfg s o s' :
  wf_cfg cfg -> Inv cfg s -> I_cnt s -> wf_op s o -> (forall dt, o <> OEndBlock dt) ->
  handle cfg s o = Ok s' -> I_cnt s'.
Proof.
  intros Hcfg Hinv Hi Hop Hne H.
  assert (Hcreate : forall c0 rc0, ctx_fresh s c0 -> s' = created s c0 rc0 -> I_cnt s').
  { intros c0 rc0 Hf ->. destruct (fresh_none _ _ _ Hinv Hf) as (_ & Ee & _).
    eapply (I_cnt_put s _ c0 rc0); try reflexivity; [|exact Hi]. left. now apply has_false. }
  destruct o;
    try (destruct (req_msg_simple _ _ _ _ H I) as (E1 & E2 & E3 & E4 & _);
         exact (I_cnt_same _ _ E1 E2 E3 E4 Hi));
    cbn [handle] in H; cbn [wf_op] in Hop.
  - unfold h_call in H. inv_ok H. apply create_context_spec in H.
    destruct H as (capv & _ & _ & _ & E). eapply Hcreate; [|exact E]. tauto.
  - apply create_context_spec in H.
    destruct H as (capv & _ & _ & _ & E). eapply Hcreate; [|exact E]. tauto.
  - eapply I_cnt_respond; eauto.
  - apply h_pause_spec in H. destruct H as (rc & Erc & _ & _ & _ & _ & ->).
    eapply (I_cnt_put s _ c); try reflexivity; [|exact Hi]. right. exists rc. auto.
  - apply h_start_spec in H. destruct H as (rc & Erc & _ & _ & _ & ->).
    destruct (reqs_started s c rc) as (E1 & E2 & E3).
    eapply (I_cnt_put s _ c); [exact E1|exact E2|exact E3|apply ctxs_started| |exact Hi].
    right. exists rc. auto.
  - apply h_kill_spec in H. destruct H as (rc & Erc & _ & _ & _ & ->).
    eapply (I_cnt_put s _ c); try reflexivity; [|exact Hi]. right. exists rc. auto.
  - apply h_update_ctx_spec in H.
    destruct H as (rc & capo & Erc & _ & _ & _ & _ & _ & _ & _ & _ & ->).
    eapply (I_cnt_put s _ c); try reflexivity; [|exact Hi]. right. exists rc.
    pose proof (upd_ctx_fixed rc provs capo timeout freq total) as Hf. cbv zeta in Hf.
    split; [exact Erc|]. tauto.
  - exfalso. eapply Hne. reflexivity.
  - apply h_mod_update_gen in H. destruct H as (rc & t & capo & Erc & _ & _ & ->).
    eapply (I_cnt_put s _ c); try reflexivity; [|exact Hi]. right. exists rc.
    pose proof (upd_thr_fixed rc t provs capo timeout freq total) as Hf. cbv zeta in Hf.
    split; [exact Erc|]. tauto.
  - apply h_mod_pause_spec in H. destruct H as (rc & Erc & _ & _ & _ & ->).
    eapply (I_cnt_put s _ c); try reflexivity; [|exact Hi]. right. exists rc. auto.
  - apply h_mod_start_spec in H. destruct H as (rc & Erc & _ & _ & ->).
    destruct (reqs_started s c rc) as (E1 & E2 & E3).
    eapply (I_cnt_put s _ c); [exact E1|exact E2|exact E3|apply ctxs_started| |exact Hi].
    right. exists rc. auto.
  - apply h_mod_kill_spec in H. destruct H as (rc & Erc & _ & _ & ->).
    eapply (I_cnt_put s _ c); try reflexivity; [|exact Hi]. right. exists rc. auto.
Qed.

(* ------------------------------------------------------------------ *)
(* expire_one *)

Lemma I_cnt_expire_one cfg s c :
  wf_cfg cfg -> Inv cfg s -> I_cnt s -> In (height s, c) (expq s) -> height s < HEIGHT_BOUND ->
  I_cnt (expire_one cfg s c).
Proof.
  intros Hcfg HI Hi Hdue Hb.
  pose proof (Inv_expire_one cfg s c Hcfg HI Hdue Hb) as HI'.
  pose proof (inv_wf _ _ HI) as Hwf. pose proof (inv_wf _ _ HI') as Hwf'.
  destruct (expire_one_spec cfg s c Hcfg HI Hdue Hb)
    as (rc & rc1 & _ & _ & _ & _ & Ht & _ & _ & Ee' & _).
  pose proof (expire_one_other_records cfg s c Hcfg HI Hdue Hb) as Ho.
  intros c' rcx G He.
  assert (Hn : c' <> c).
  { intros ->. unfold has in He. rewrite Ee' in He. discriminate. }
  rewrite (t_ctxs _ _ _ Ht) in G by assumption.
  unfold has in He. rewrite (t_expq_h _ _ _ Ht) in He by assumption.
  destruct (Hi _ _ G He) as (A1 & A2).
  rewrite <- A1, <- A2. split; apply of_ctx_pointwise; try apply Hwf; try apply Hwf';
    intros r Hr; apply Ho; congruence.
Qed.

(* ------------------------------------------------------------------ *)
(* new_one *)

Lemma sum_new_of_ctx s c rc n i provs c' :
  sum_new (of_ctx c') s c rc n i provs = if eqb c c' then len provs else 0.
Proof.
  revert i. induction provs as [|p t IH]; intros i; cbn [sum_new]; [now destruct (eqb c c')|].
  rewrite IH. unfold of_ctx. cbn [rid_ctx fst].
  unfold len. cbn [length]. rewrite Nat2Z.inj_succ.
  destruct (eqb c c'); lia.
Qed.

(* what the new-batch handler does to the request and response records *)
Lemma new_one_records cfg s c :
  wf_cfg cfg -> Inv cfg s -> In (height s, c) (newq s) ->
  let s' := new_one cfg s c in
  resps s' = resps s
  /\ (forall r, rid_ctx r <> c -> get r (reqs s') = get r (reqs s))
  /\ (forall rc', get c (ctxs s') = Some rc' -> has c (expq_h s') = true ->
        msum (of_ctx c) (reqs s') = c_breq rc').
Proof.
  intros Hcfg Hinv Hdue. destruct (due_new_ctx _ _ _ Hinv Hdue) as (rc & Grc & Gnew & Gexp).
  pose proof (inv_wf _ _ Hinv) as Hwf. assert (Hwr : wf (reqs s)) by apply Hwf.
  assert (Hwc : wf (ctxs s)) by apply Hwf.
  assert (Hnexp : has c (expq_h s) = false) by (unfold has; now rewrite Gexp).
  destruct (no_expiry_sums cfg s c Hinv Gexp) as (Z1 & Z2).
  cbv zeta. unfold new_one, ctx_or_zero. rewrite Grc.
  destruct (is_state rc Running && c_rep rc && (0 <? c_total rc) && (c_total rc <=? c_counter rc)).
  { sproj. split; [reflexivity|]. split; [reflexivity|].
    intros rc' G. rewrite get_del_eq in G by assumption. discriminate. }
  destruct (is_state rc Running).
  2:{ sproj. split; [reflexivity|]. split; [reflexivity|]. intros rc' _ He. congruence. }
  set (el := filter_providers s rc (c_provs rc)).
  destruct ((0 <? len el) && (c_thr rc <=? len el)).
  2:{ unfold skip_batch. sproj. split; [reflexivity|]. split; [reflexivity|].
      intros rc' G _. rewrite get_set_eq in G. injection G as <-. exact Z1. }
  assert (Hpaused : let s' := del_newq (on_paused s c rc) c (height s) in
            resps s' = resps s /\ (forall r, rid_ctx r <> c -> get r (reqs s') = get r (reqs s))
            /\ (forall rc', get c (ctxs s') = Some rc' -> has c (expq_h s') = true ->
                  msum (of_ctx c) (reqs s') = c_breq rc')).
  { cbv zeta. unfold on_paused. destruct (c_mod rc =? 0); sproj;
      (split; [reflexivity|]; split; [reflexivity|]; intros rc' _ He; congruence). }
  assert (Hissue : forall sp, reqs sp = reqs s -> resps sp = resps s -> ctxs sp = ctxs s ->
            let s' := del_newq (add_expq (initiate_requests sp c (map fst el)) c
                                  (height s + c_timeout rc)) c (height s) in
            resps s' = resps s /\ (forall r, rid_ctx r <> c -> get r (reqs s') = get r (reqs s))
            /\ (forall rc', get c (ctxs s') = Some rc' -> has c (expq_h s') = true ->
                  msum (of_ctx c) (reqs s') = c_breq rc')).
  { intros sp P1 P2 P3. cbv zeta.
    unfold initiate_requests, ctx_or_zero. rewrite P3, Grc.
    set (n := c_counter rc + 1). set (provs := map fst el).
    assert (Hnoreq : forall r, rid_ctx r = c -> get r (reqs sp) = None).
    { intros r Hc. rewrite P1. eapply no_expiry_no_reqs; eauto. }
    assert (Hwsp : wf (reqs sp)) by (rewrite P1; assumption).
    assert (Hfresh : forall j, 0 <= j -> get (c, n, height sp, j) (reqs sp) = None).
    { intros j _. now apply Hnoreq. }
    pose proof (issue_all_frame sp c rc n 0 provs) as F. unfold same_but_reqs in F.
    destruct F as (_ & _ & _ & _ & _ & _ & _ & _ & _ & F10 & _ & _ & _ & _ & F15 & _).
    destruct (issue_all_reqs (of_ctx c) sp c rc n 0 provs Hwsp Hfresh) as (_ & Hs & Ho).
    sproj. split; [congruence|]. split; [intros r Hr; rewrite Ho, P1 by assumption; reflexivity|].
    intros rc' G _. rewrite get_set_eq in G. injection G as <-.
    rewrite Hs, sum_new_of_ctx, eqb_refl, P1, Z1. reflexivity. }
  destruct (c_super rc).
  - apply Hissue; reflexivity.
  - destruct (transfer (User (c_cons rc)) Escrow (sum_prices el) s) as [x|] eqn:Et.
    + pose proof (transfer_frame _ _ _ _ _ Et) as Hf.
      apply Hissue; sproj; rewrite Hf; reflexivity.
    + exact Hpaused.
Qed.

Lemma I_cnt_new_one cfg s c :
  wf_cfg cfg -> Inv cfg s -> I_cnt s -> In (height s, c) (newq s) -> height s < HEIGHT_BOUND ->
  I_cnt (new_one cfg s c).
Proof.
  intros Hcfg HI Hi Hdue Hb.
  pose proof (Inv_new_one cfg s c Hcfg HI Hdue Hb) as HI'.
  pose proof (inv_wf _ _ HI) as Hwf. pose proof (inv_wf _ _ HI') as Hwf'.
  destruct (new_one_spec cfg s c HI Hdue) as (rc & Erc & _ & Ee & Ht & _ & _ & _ & Hcase).
  destruct (new_one_records cfg s c Hcfg HI Hdue) as (Er & Ho & Hc).
  destruct (no_expiry_sums cfg s c HI Ee) as (_ & Z2).
  intros c' rcx G He. destruct (eqb_spec c' c) as [->|Hn].
  - split; [now apply Hc|]. rewrite Er, Z2.
    destruct Hcase as [(_ & Ex & _)|[(_ & _ & _ & n & Ex)|[(_ & _ & Ee' & _)|(_ & Ee' & _)]]].
    + congruence.
    + rewrite Ex in G. injection G as <-. reflexivity.
    + unfold has in He. rewrite Ee' in He. discriminate.
    + unfold has in He. rewrite Ee' in He. discriminate.
  - rewrite (t_ctxs _ _ _ Ht) in G by assumption.
    unfold has in He. rewrite (t_expq_h _ _ _ Ht) in He by assumption.
    destruct (Hi _ _ G He) as (A1 & A2). rewrite Er. split; [|exact A2].
    rewrite <- A1. apply of_ctx_pointwise; try apply Hwf; try apply Hwf'.
    intros r Hr. apply Ho. congruence.
Qed.

(* ------------------------------------------------------------------ *)

Theorem Reach_I_cnt cfg s : wf_cfg cfg -> Reach cfg s -> I_cnt s.
Proof.
  intros Hcfg. apply (Reach_ind_inv cfg I_cnt Hcfg).
  - intros. apply I_cnt_init.
  - intros. eapply I_cnt_msg; eauto.
  - intros. now apply I_cnt_expire_one.
  - intros. now apply I_cnt_new_one.
  - intros. now apply I_cnt_tick.
Qed.
