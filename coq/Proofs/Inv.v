(* The global invariant of the state machine, the domain of well-formed
   configurations and operations, and reachability.  Definitions only. *)
From Coq Require Import List ZArith Bool Lia.
From SVC Require Import Base.AMap Base.Res Base.Dec Model.Types Model.Pricing
  Model.Handlers Model.EndBlock Model.Step.
Import ListNotations.
Open Scope Z_scope.

(* ------------------------------------------------------------------ *)
(* domain: DESIGN.md 3.5 *)

Definition HEIGHT_BOUND : Z := 4611686018427387904.   (* 2^62 *)

(* H-params: Params.Validate *)
Definition wf_cfg (cfg : Params) : Prop :=
  1 <= p_max_timeout cfg < HEIGHT_BOUND /\ 1 <= p_multiple cfg /\ 0 <= p_min_deposit cfg
  /\ 0 <= p_tax cfg < ONE /\ 0 <= p_slash cfg <= ONE
  /\ 0 <= p_arb cfg /\ 0 <= p_compl cfg /\ p_cbmod cfg <> 0.

(* H-txid: a context id handed out by the host was never used before *)
Definition ctx_fresh (s : State) (c : CtxId) : Prop := ~ In (EvCtxCreated c) (log s).

(* H-txid, H-time, X-K2 (no int64 wrap-around of heights) *)
Definition wf_op (s : State) (o : Op) : Prop :=
  match o with
  | OCall c _ _ _ _ _ _ _ _ freq _ _ _ => ctx_fresh s c /\ 0 <= freq < HEIGHT_BOUND
  | OModCall c _ _ _ _ _ _ _ _ freq _ _ md _ => ctx_fresh s c /\ 0 <= freq < HEIGHT_BOUND /\ md <> 0
  | OUpdateCtx _ _ _ _ _ freq _ _ => 0 <= freq < HEIGHT_BOUND
  | OEndBlock dt => 0 <= dt /\ height s < HEIGHT_BOUND
  (* the four keeper calls are only issued by the module that owns the context *)
  | OModUpdate c _ _ _ _ _ freq _ =>
      0 <= freq < HEIGHT_BOUND /\ (forall rc, get c (ctxs s) = Some rc -> c_mod rc <> 0)
  | OModPause c _ | OModStart c _ | OModKill c _ =>
      forall rc, get c (ctxs s) = Some rc -> c_mod rc <> 0
  | _ => True
  end.

Definition wf_funding (f : list (Z * Z)) : Prop := forall a v, In (a, v) f -> 0 <= v.

Inductive Reach (cfg : Params) : State -> Prop :=
| Reach_init h0 t0 f : 1 <= h0 -> 0 <= t0 -> wf_funding f -> Reach cfg (init h0 t0 f)
| Reach_step s o : Reach cfg s -> wf_op s o -> Reach cfg (fst (step cfg s o)).

(* ------------------------------------------------------------------ *)
(* summands *)

Definition vid {K} (_ : K) (v : Z) : Z := v.
Definition fee_active (_ : ReqId) (q : Req) : Z := if r_active q then r_fee q else 0.
Definition dep_of (_ : BKey) (b : Binding) : Z := b_deposit b.
Definition active_in (c : CtxId) (r : ReqId) (q : Req) : Z :=
  if eqb (rid_ctx r) c && r_active q then 1 else 0.
Definition owned_by (s : State) (o : Z) (p : Z) (e : Z) : Z :=
  match get p (owner_of s) with Some o' => if o' =? o then e else 0 | None => 0 end.

Definition min_dep_val (cfg : Params) (p : Pricing) : Z :=
  Z.max (pr_price p * p_multiple cfg) (p_min_deposit cfg).

(* ------------------------------------------------------------------ *)
(* conjuncts *)

Definition I_wf (s : State) : Prop :=
  wf (defs s) /\ wf (binds s) /\ wf (pricing s) /\ wf (owner_of s) /\ wf (wdaddr s)
  /\ wf (ctxs s) /\ wf (expq_h s) /\ wf (newq_h s) /\ wf (reqs s) /\ wf (resps s)
  /\ wf (vols s) /\ wf (earned s) /\ wf (own_earned s) /\ wf (bank s)
  /\ NoDup (own_prov s) /\ NoDup (own_bind s) /\ NoDup (expq s) /\ NoDup (newq s).

(* C03/C04 support: balances never negative, supply is the sum of balances *)
Definition I_bank (s : State) : Prop :=
  (forall a v, In (a, v) (bank s) -> 0 <= v) /\ supply s = msum vid (bank s).

(* C03 *)
Definition I_deposit (s : State) : Prop :=
  bal s Deposit = msum dep_of (binds s)
  /\ (forall k b, In (k, b) (binds s) -> 0 <= b_deposit b).

(* C01 *)
Definition I_escrow (s : State) : Prop :=
  bal s Escrow = msum fee_active (reqs s) + msum vid (earned s).

(* C13 *)
Definition I_earn (s : State) : Prop :=
  (forall p e, In (p, e) (earned s) -> 0 < e /\ exists o, get p (owner_of s) = Some o)
  /\ (forall o e, In (o, e) (own_earned s) -> 0 < e)
  /\ (forall o, get0 o (own_earned s) = msum (owned_by s o) (earned s)).

(* C01/C03/C13 support (repair D11): a stored withdrawal address is never a module account *)
Definition I_wd (s : State) : Prop :=
  forall o w, get o (wdaddr s) = Some w -> is_blocked w = false.

(* C14 *)
Definition I_min (cfg : Params) (s : State) : Prop :=
  forall k b, In (k, b) (binds s) -> b_avail b = true ->
    min_dep_val cfg (pricing_of s k) <= b_deposit b.

(* C15 *)
Definition I_index (cfg : Params) (s : State) : Prop :=
  (forall k b, In (k, b) (binds s) ->
     has (fst k) (defs s) = true
     /\ get (snd k) (owner_of s) = Some (b_owner b)
     /\ In (b_owner b, fst k, snd k) (own_bind s)
     /\ get k (pricing s) = Some (parse_pricing (b_raw b))
     /\ validate_pricing (parse_pricing (b_raw b)) = true
     /\ schema_pricing (parse_pricing (b_raw b)) = true
     /\ (b_avail b = true -> pr_price (parse_pricing (b_raw b)) * p_multiple cfg < INT_LIMIT))
  /\ (forall o svc p, In (o, svc, p) (own_bind s) ->
        exists b, get (svc, p) (binds s) = Some b /\ b_owner b = o)
  /\ (forall o p, In (o, p) (own_prov s) <-> get p (owner_of s) = Some o)
  /\ (forall k, has k (pricing s) = true -> has k (binds s) = true).

(* C11 *)
Definition I_sched (s : State) : Prop :=
  (forall h c, In (h, c) (expq s) <-> get c (expq_h s) = Some h)
  /\ (forall h c, In (h, c) (newq s) <-> get c (newq_h s) = Some h)
  /\ (forall c, has c (expq_h s) = true -> has c (newq_h s) = true -> False)
  /\ (forall c, has c (expq_h s) = true \/ has c (newq_h s) = true -> has c (ctxs s) = true)
  /\ (forall c h, get c (expq_h s) = Some h -> height s <= h)
  /\ (forall c h, get c (newq_h s) = Some h -> height s <= h)
  /\ (forall c rc, get c (ctxs s) = Some rc -> c_state rc = Running ->
        has c (expq_h s) = true \/ has c (newq_h s) = true).

(* C09 / C10 static shape of a context record *)
Definition I_ctx (cfg : Params) (s : State) : Prop :=
  forall c rc, get c (ctxs s) = Some rc ->
    1 <= c_timeout rc <= p_max_timeout cfg
    /\ 0 <= c_counter rc
    /\ 0 <= c_freq rc < HEIGHT_BOUND
    /\ (c_rep rc = true -> c_timeout rc <= c_freq rc)
    /\ (c_rep rc = true -> 0 < c_total rc -> c_counter rc <= c_total rc)
    /\ (c_rep rc = false ->
          (c_counter rc = 0 /\ has c (expq_h s) = false)
          \/ (c_counter rc = 1 /\ c_state rc = Running /\ has c (expq_h s) = true))
    /\ (c_mod rc = 0 \/ c_mod rc = p_cbmod cfg)
    /\ 0 < c_cap rc
    /\ In (EvCtxCreated c) (log s).

(* C12 / C16: request, response records and batch counts *)
Definition I_req (s : State) : Prop :=
  (forall r q, In (r, q) (reqs s) ->
     exists rc, get (rid_ctx r) (ctxs s) = Some rc
       /\ rid_batch r = c_counter rc
       /\ get (rid_ctx r) (expq_h s) = Some (r_exp q)
       /\ 0 <= r_fee q
       /\ 0 <= rid_index r < c_breq rc
       /\ rid_height r < r_exp q
       /\ has (r_prov q) (owner_of s) = true
       /\ has (c_svc rc, r_prov q) (binds s) = true
       /\ (c_super rc = true -> r_fee q = 0))
  /\ (forall r x, In (r, x) (resps s) ->
        exists q, get r (reqs s) = Some q /\ r_active q = false)
  /\ (forall c rc, get c (ctxs s) = Some rc ->
        0 <= c_bresp rc <= c_breq rc
        /\ msum (active_in c) (reqs s)
           = (if has c (expq_h s) && negb (c_bdone rc) then c_breq rc - c_bresp rc else 0)
        /\ (has c (expq_h s) = true -> c_bdone rc = true -> 1 <= c_breq rc /\ c_bresp rc = c_breq rc)
        /\ (has c (expq_h s) = false -> c_bdone rc = true)).

Definition I_time (s : State) : Prop := 1 <= height s /\ 0 <= time s.

Record Inv (cfg : Params) (s : State) : Prop := mkInv {
  inv_wf : I_wf s;
  inv_bank : I_bank s;
  inv_deposit : I_deposit s;
  inv_escrow : I_escrow s;
  inv_earn : I_earn s;
  inv_min : I_min cfg s;
  inv_index : I_index cfg s;
  inv_sched : I_sched s;
  inv_ctx : I_ctx cfg s;
  inv_req : I_req s;
  inv_time : I_time s;
  inv_wd : I_wd s
}.
