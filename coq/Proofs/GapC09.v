(* C09, the parts the message theorems of StepSpecs_ctx.v leave open:
   A. the EndBlock half of the transition relation, per handler (new_one incl. the funds pause,
      expire_one incl. removal);
   B. messages neither delete nor silently create a context;
   C. rejections: the "only" of pause / start / kill / update. *)
From Coq Require Import List ZArith Bool Lia.
From SVC Require Import Base.AMap Base.Res Base.Dec Model.Types Model.Pricing
  Model.Handlers Model.EndBlock Model.Step Proofs.Inv Proofs.Lemmas Proofs.CtxOps
  Proofs.InvSched Proofs.InvCtx Proofs.InvAll Proofs.StepSpecs_ctx Proofs.StepSpecs_batch.
Import ListNotations.
Open Scope Z_scope.

(* ------------------------------------------------------------------ *)
(* A. the EndBlock handlers *)

(* everything the consumer (or the owning module) controls, and the static fields *)
Definition terms_eq (rc rc' : Ctx) : Prop :=
  static_eq rc rc' /\ c_provs rc' = c_provs rc /\ c_cap rc' = c_cap rc
  /\ c_timeout rc' = c_timeout rc /\ c_freq rc' = c_freq rc /\ c_total rc' = c_total rc
  /\ c_thr rc' = c_thr rc.

Lemma terms_eq_refl rc : terms_eq rc rc.
Proof. unfold terms_eq, static_eq. auto 15. Qed.

Lemma terms_eq_trans a b c : terms_eq a b -> terms_eq b c -> terms_eq a c.
Proof. unfold terms_eq, static_eq. intuition congruence. Qed.

Lemma terms_eq_bdone rc b : terms_eq rc (setc_bdone rc b).
Proof. unfold terms_eq, static_eq. cbn. auto 15. Qed.

Lemma terms_eq_bump rc n : terms_eq rc (bump rc n).
Proof. unfold terms_eq, static_eq, bump. cbn. auto 15. Qed.

Lemma terms_eq_paused rc : terms_eq rc (paused_ctx rc).
Proof. unfold terms_eq, static_eq, paused_ctx. cbn. auto 15. Qed.

Lemma more_false rc : more rc = false <->
  (c_rep rc = false \/ (0 <= c_total rc /\ c_total rc <= c_counter rc)).
Proof.
  unfold more. split.
  - intros H. apply andb_false_iff in H. destruct H as [H|H]; [now left|right]. b2p. lia.
  - intros [H|[H1 H2]]; [now rewrite H|]. apply andb_false_iff. right.
    apply orb_false_intro; [apply Z.ltb_ge|apply Z.ltb_ge]; lia.
Qed.

Lemma d5_true rc : d5 rc = true <->
  (c_state rc = Running /\ c_rep rc = true /\ 0 < c_total rc /\ c_total rc <= c_counter rc).
Proof.
  unfold d5. split.
  - intros H. b2p. match goal with H : is_state _ _ = true |- _ => apply is_state_true in H end. auto.
  - intros (H1 & H2 & H3 & H4). apply is_state_true in H1. rewrite H1, H2. cbn.
    apply andb_true_intro. split; [now apply Z.ltb_lt|now apply Z.leb_le].
Qed.

(* C09_transition_new_one: the new-batch handler of c leaves every other context alone; to c it
   does exactly one of: nothing (not running); removal (running, repeated, total reached: D5);
   batch counter + 1 with an empty batch (skipped); Running -> Paused because the consumer cannot
   pay (exactly when not super mode and balance < total price of a sufficient eligible set);
   batch counter + 1 with one request per eligible provider (issued).  In every case in which the
   record survives its terms and static fields are unchanged. *)
Theorem transition_new_one cfg s c :
  wf_cfg cfg -> Inv cfg s -> In (height s, c) (newq s) -> height s < HEIGHT_BOUND ->
  let s' := new_one cfg s c in
  exists rc, get c (ctxs s) = Some rc
    /\ (forall c', c' <> c -> get c' (ctxs s') = get c' (ctxs s))
    /\ let E := filter_providers s rc (c_provs rc) in
       (   (c_state rc <> Running /\ get c (ctxs s') = Some rc)
        \/ (c_state rc = Running /\ d5 rc = true /\ get c (ctxs s') = None)
        \/ (c_state rc = Running /\ d5 rc = false /\ (len E = 0 \/ len E < c_thr rc)
            /\ get c (ctxs s') = Some (bump rc 0))
        \/ (c_state rc = Running /\ d5 rc = false /\ 0 < len E /\ c_thr rc <= len E
            /\ c_super rc = false /\ bal s (User (c_cons rc)) < sum_prices E
            /\ get c (ctxs s') = Some (paused_ctx rc))
        \/ (c_state rc = Running /\ d5 rc = false /\ 0 < len E /\ c_thr rc <= len E
            /\ (c_super rc = true \/ sum_prices E <= bal s (User (c_cons rc)))
            /\ get c (ctxs s') = Some (bump rc (len E)))).
Proof.
  intros Hcfg Hinv Hdue Hh. cbv zeta.
  destruct (C06_batch_spec_flat cfg s c Hcfg Hinv Hdue Hh) as (rc & Grc & HS). cbv zeta in HS.
  destruct HS as (Ha & Hb & Hc & Hd & He).
  set (E := filter_providers s rc (c_provs rc)) in *.
  exists rc. split; [exact Grc|].
  destruct (new_one_spec cfg s c Hinv Hdue) as (rc0 & _ & _ & _ & Ht & _).
  split; [intros c' Hne; apply (t_ctxs _ _ _ Ht c' Hne)|].
  destruct (d5 rc) eqn:Ed5.
  { right; left. pose proof (proj1 (d5_true rc) Ed5) as (Hr & _).
    destruct (Hb eq_refl) as (_ & G & _). auto. }
  destruct (is_state rc Running) eqn:Est.
  2:{ left. apply is_state_false in Est. destruct (Ha Est) as (_ & G & _). auto. }
  apply is_state_true in Est. right; right.
  destruct (Z_lt_le_dec 0 (len E)) as [H0|H0].
  2:{ left. assert (Hz : len E = 0) by (unfold len in *; lia).
      destruct (Hc Est eq_refl (or_introl Hz)) as (_ & G & _). auto 6. }
  destruct (Z_lt_le_dec (len E) (c_thr rc)) as [Hthr|Hthr].
  { left. destruct (Hc Est eq_refl (or_intror Hthr)) as (_ & G & _). auto 6. }
  right.
  destruct (c_super rc) eqn:Esup.
  { right. destruct (He Est eq_refl H0 Hthr (or_introl eq_refl))
      as (_ & _ & _ & _ & _ & _ & _ & _ & _ & _ & G & _). auto 10. }
  destruct (Z_lt_le_dec (bal s (User (c_cons rc))) (sum_prices E)) as [Hb'|Hb'].
  - left. destruct (Hd Est eq_refl H0 Hthr eq_refl Hb') as (_ & G & _). auto 10.
  - right. destruct (He Est eq_refl H0 Hthr (or_intror Hb'))
      as (_ & _ & _ & _ & _ & _ & _ & _ & _ & _ & G & _). auto 10.
Qed.

(* C09_transition_expire_one: the expiry handler of c leaves every other context alone; c is
   removed exactly when it is Completed, or Running with nothing more to do (one-shot, or total
   reached); otherwise the record survives with at most its batch marked completed *)
Theorem transition_expire_one cfg s c :
  wf_cfg cfg -> Inv cfg s -> In (height s, c) (expq s) -> height s < HEIGHT_BOUND ->
  let s' := expire_one cfg s c in
  exists rc, get c (ctxs s) = Some rc
    /\ (forall c', c' <> c -> get c' (ctxs s') = get c' (ctxs s))
    /\ (   (get c (ctxs s') = None
            /\ (c_state rc = Completed \/ (c_state rc = Running /\ more rc = false)))
        \/ (exists rc1, get c (ctxs s') = Some rc1
              /\ (rc1 = rc \/ (c_bdone rc = false /\ rc1 = setc_bdone rc true))
              /\ ((c_state rc = Running /\ more rc = true) \/ c_state rc = Paused))).
Proof.
  intros Hcfg Hinv Hdue Hh. cbv zeta.
  destruct (expire_one_spec cfg s c Hcfg Hinv Hdue Hh)
    as (rc & rc1 & Grc & _ & _ & Hrc1 & Ht & _ & _ & _ & Hcase).
  exists rc. split; [exact Grc|].
  split; [intros c' Hne; apply (t_ctxs _ _ _ Ht c' Hne)|].
  destruct Hcase as [(G & _ & Hst)|[(G & _ & Hr & Hm)|(G & _ & Hp)]].
  - left. auto.
  - right. exists rc1. auto.
  - right. exists rc1. auto.
Qed.

(* what survives an EndBlock handler keeps its terms, counter moves by at most one and only
   while Running, the state moves at most Running -> Paused *)
Corollary new_one_terms cfg s c c' rc rc' :
  wf_cfg cfg -> Inv cfg s -> In (height s, c) (newq s) -> height s < HEIGHT_BOUND ->
  get c' (ctxs s) = Some rc -> get c' (ctxs (new_one cfg s c)) = Some rc' ->
  terms_eq rc rc'
  /\ (c_counter rc' = c_counter rc
      \/ (c_counter rc' = c_counter rc + 1 /\ c_state rc = Running /\ c_state rc' = Running))
  /\ (c_state rc' = c_state rc
      \/ (c_state rc = Running /\ c_state rc' = Paused /\ c_super rc = false
          /\ c_counter rc' = c_counter rc)).
Proof.
  intros Hcfg Hinv Hdue Hh G G'.
  destruct (transition_new_one cfg s c Hcfg Hinv Hdue Hh) as (rc0 & Grc0 & Ho & Hcase). cbv zeta in Hcase.
  destruct (eqb_spec c' c) as [->|Hne].
  2:{ rewrite (Ho _ Hne) in G'. assert (rc' = rc) by congruence. subst. split; [apply terms_eq_refl|auto]. }
  assert (rc0 = rc) by congruence. subst rc0.
  destruct Hcase as [(Hs & E)|[(_ & _ & E)|[(Hs & _ & _ & E)|[(Hs & _ & _ & _ & Hsup & _ & E)|(Hs & _ & _ & _ & _ & E)]]]];
    rewrite E in G'; try discriminate; injection G' as <-.
  - split; [apply terms_eq_refl|auto].
  - split; [apply terms_eq_bump|]. split; [right|left]; cbn; auto.
  - split; [apply terms_eq_paused|]. split; [left|right]; cbn; auto.
  - split; [apply terms_eq_bump|]. split; [right|left]; cbn; auto.
Qed.

Corollary expire_one_terms cfg s c c' rc rc' :
  wf_cfg cfg -> Inv cfg s -> In (height s, c) (expq s) -> height s < HEIGHT_BOUND ->
  get c' (ctxs s) = Some rc -> get c' (ctxs (expire_one cfg s c)) = Some rc' ->
  rc' = rc \/ rc' = setc_bdone rc true.
Proof.
  intros Hcfg Hinv Hdue Hh G G'.
  destruct (transition_expire_one cfg s c Hcfg Hinv Hdue Hh) as (rc0 & Grc0 & Ho & Hcase).
  destruct (eqb_spec c' c) as [->|Hne].
  2:{ rewrite (Ho _ Hne) in G'. left. congruence. }
  assert (rc0 = rc) by congruence. subst rc0.
  destruct Hcase as [(E & _)|(rc1 & E & Hrc1 & _)]; [congruence|].
  assert (rc1 = rc') by congruence. subst rc1. tauto.
Qed.

(* ------------------------------------------------------------------ *)
(* B. messages neither delete nor silently create a context *)

Definition creates (o : Op) (c : CtxId) : Prop :=
  match o with
  | OCall c0 _ _ _ _ _ _ _ _ _ _ _ _ => c0 = c
  | OModCall c0 _ _ _ _ _ _ _ _ _ _ _ _ _ => c0 = c
  | _ => False
  end.

Lemma msg_ctxs cfg s o s' :
  handle cfg s o = Ok s' -> (forall dt, o <> OEndBlock dt) ->
  ctxs s' = ctxs s
  \/ (exists c0 rc0 rc0', get c0 (ctxs s) = Some rc0 /\ ctxs s' = set c0 rc0' (ctxs s))
  \/ (exists c0 rc0', creates o c0 /\ ctxs s' = set c0 rc0' (ctxs s)
        /\ c_state rc0' = Running /\ c_counter rc0' = 0 /\ c_bdone rc0' = true
        /\ c_breq rc0' = 0 /\ c_bresp rc0' = 0).
Proof.
  intros H Hne.
  destruct (ctx_op o) eqn:Hk.
  2:{ left. apply (se_ctxs _ _ (msg_SEq _ _ _ _ H Hk)). }
  destruct o; cbn [ctx_op] in Hk; try discriminate; cbn [handle] in H.
  - unfold h_call in H. inv_ok H. apply create_context_spec in H.
    destruct H as (capv & _ & _ & _ & ->). right; right. eexists c, _.
    split; [reflexivity|]. split; [reflexivity|]. cbn. auto 10.
  - apply create_context_spec in H.
    destruct H as (capv & _ & _ & _ & ->). right; right. eexists c, _.
    split; [reflexivity|]. split; [reflexivity|]. cbn. auto 10.
  - apply respond_spec in H. destruct H as (q & rc0 & sm & rc0' & _ & Erc0 & Hsm & -> & _).
    right; left. exists (rid_ctx r), rc0, rc0'. split; [exact Erc0|]. sproj.
    now rewrite (se_ctxs _ _ Hsm).
  - apply h_pause_spec in H. destruct H as (rc0 & Erc0 & _ & _ & _ & _ & ->).
    right; left. eexists c, rc0, _. split; [exact Erc0|reflexivity].
  - apply h_start_spec in H. destruct H as (rc0 & Erc0 & _ & _ & _ & ->).
    right; left. eexists c, rc0, _. split; [exact Erc0|apply ctxs_started].
  - apply h_kill_spec in H. destruct H as (rc0 & Erc0 & _ & _ & _ & ->).
    right; left. eexists c, rc0, _. split; [exact Erc0|reflexivity].
  - apply h_update_ctx_spec in H. destruct H as (rc0 & capo & Erc0 & _ & _ & _ & _ & _ & _ & _ & _ & ->).
    right; left. eexists c, rc0, _. split; [exact Erc0|reflexivity].
  - exfalso. eapply Hne. reflexivity.
  - apply h_mod_update_gen in H. destruct H as (rc0 & t & capo & Erc0 & _ & _ & ->).
    right; left. eexists c, rc0, _. split; [exact Erc0|reflexivity].
  - apply h_mod_pause_spec in H. destruct H as (rc0 & Erc0 & _ & _ & _ & ->).
    right; left. eexists c, rc0, _. split; [exact Erc0|reflexivity].
  - apply h_mod_start_spec in H. destruct H as (rc0 & Erc0 & _ & _ & ->).
    right; left. eexists c, rc0, _. split; [exact Erc0|apply ctxs_started].
  - apply h_mod_kill_spec in H. destruct H as (rc0 & Erc0 & _ & _ & ->).
    right; left. eexists c, rc0, _. split; [exact Erc0|reflexivity].
Qed.

(* no message and no keeper-API call removes a context *)
Theorem msg_keeps_ctx cfg s o s' c rc :
  handle cfg s o = Ok s' -> (forall dt, o <> OEndBlock dt) ->
  get c (ctxs s) = Some rc -> exists rc', get c (ctxs s') = Some rc'.
Proof.
  intros H Hne G.
  destruct (msg_ctxs cfg s o s' H Hne) as [E|[(c0 & rc0 & rc0' & _ & E)|(c0 & rc0' & _ & E & _)]];
    rewrite E; [eauto| |]; rewrite get_set; destruct (eqb c c0); eauto.
Qed.

(* a context appears only through a service call (message or module) carrying its id, as a fresh
   Running record with batch counter 0 and no batch *)
Theorem msg_creates_ctx cfg s o s' c rc' :
  handle cfg s o = Ok s' -> (forall dt, o <> OEndBlock dt) ->
  get c (ctxs s) = None -> get c (ctxs s') = Some rc' ->
  creates o c /\ c_state rc' = Running /\ c_counter rc' = 0 /\ c_bdone rc' = true
  /\ c_breq rc' = 0 /\ c_bresp rc' = 0.
Proof.
  intros H Hne G G'.
  destruct (msg_ctxs cfg s o s' H Hne) as [E|[(c0 & rc0 & rc0' & G0 & E)|(c0 & rc0' & Hc & E & Hrec)]];
    rewrite E in G'; [congruence| |]; rewrite get_set in G'; destruct (eqb_spec c c0) as [->|Hn];
    try congruence.
  injection G' as <-. auto.
Qed.

(* ------------------------------------------------------------------ *)
(* C. rejections *)

Lemma step_err cfg s o : handle cfg s o = Err -> step cfg s o = (s, RErr).
Proof. intros H. unfold step. now rewrite H. Qed.

Ltac rej_tac :=
  repeat match goal with
  | H : get _ _ = _ |- _ => rewrite H
  | H : (_ =? _) = _ |- _ => rewrite H
  | H : is_state _ _ = _ |- _ => rewrite H
  | H : c_rep _ = _ |- _ => rewrite H
  end; cbn [of_opt bind guard negb andb orb]; try reflexivity.

(* why a message of the consumer may be refused *)
Definition not_authorized (s : State) (c : CtxId) (who : Z) : Prop :=
  get c (ctxs s) = None
  \/ exists rc, get c (ctxs s) = Some rc /\ (c_cons rc <> who \/ c_mod rc <> 0).

Lemma authorized_err s c who : not_authorized s c who -> authorized s c who = Err.
Proof.
  unfold authorized. intros [G|(rc & G & [Hw|Hm])]; rewrite G; cbn [of_opt bind]; [reflexivity| |].
  - apply Z.eqb_neq in Hw. now rewrite Hw.
  - apply Z.eqb_neq in Hm. rewrite Hm. now destruct (c_cons rc =? who).
Qed.

Definition not_authorized_mod (s : State) (c : CtxId) (who : Z) : Prop :=
  get c (ctxs s) = None \/ exists rc, get c (ctxs s) = Some rc /\ c_cons rc <> who.

Lemma authorized_mod_err s c who : not_authorized_mod s c who -> authorized_mod s c who = Err.
Proof.
  unfold authorized_mod. intros [G|(rc & G & Hw)]; rewrite G; cbn [of_opt bind]; [reflexivity|].
  apply Z.eqb_neq in Hw. now rewrite Hw.
Qed.

Lemma authorized_ok s c who rc :
  get c (ctxs s) = Some rc -> c_cons rc = who -> c_mod rc = 0 -> authorized s c who = Ok rc.
Proof.
  intros G Hw Hm. unfold authorized. rewrite G. cbn [of_opt bind].
  apply Z.eqb_eq in Hw. apply Z.eqb_eq in Hm. now rewrite Hw, Hm.
Qed.

Lemma authorized_cases s c who :
  (exists rc, authorized s c who = Ok rc /\ get c (ctxs s) = Some rc)
  \/ authorized s c who = Err.
Proof.
  unfold authorized. destruct (get c (ctxs s)) as [rc|]; cbn [of_opt bind]; [|now right].
  destruct (c_cons rc =? who); cbn [guard]; [|now right].
  destruct (c_mod rc =? 0); cbn [guard]; [left; eauto|now right].
Qed.

Lemma authorized_mod_cases s c who :
  (exists rc, authorized_mod s c who = Ok rc /\ get c (ctxs s) = Some rc)
  \/ authorized_mod s c who = Err.
Proof.
  unfold authorized_mod. destruct (get c (ctxs s)) as [rc|]; cbn [of_opt bind]; [|now right].
  destruct (c_cons rc =? who); cbn [guard]; [left; eauto|now right].
Qed.

(* pause: only a repeated context that is Running; by its consumer; not on a module's context *)
Theorem pause_rejected cfg s c who ok :
  ok = false \/ not_authorized s c who
  \/ (exists rc, get c (ctxs s) = Some rc /\ (c_rep rc = false \/ c_state rc <> Running)) ->
  handle cfg s (OPause c who ok) = Err /\ step cfg s (OPause c who ok) = (s, RErr).
Proof.
  intros H. assert (E : handle cfg s (OPause c who ok) = Err); [|split; [exact E|now apply step_err]].
  cbn [handle]. unfold h_pause. destruct H as [->|[H|(rc & G & H)]]; [reflexivity| |].
  - destruct ok; [|reflexivity]. cbn [guard]. now rewrite (authorized_err _ _ _ H).
  - destruct ok; [|reflexivity]. cbn [guard].
    destruct (authorized_cases s c who) as [(rc0 & E & G0)|E]; rewrite E; cbn [bind]; [|reflexivity].
    assert (rc0 = rc) by congruence. subst rc0.
    destruct H as [H|H]; [now rewrite H|].
    apply is_state_false in H. rewrite H. now destruct (c_rep rc).
Qed.

(* start: only a Paused context *)
Theorem start_rejected cfg s c who ok :
  ok = false \/ not_authorized s c who
  \/ (exists rc, get c (ctxs s) = Some rc /\ c_state rc <> Paused) ->
  handle cfg s (OStart c who ok) = Err /\ step cfg s (OStart c who ok) = (s, RErr).
Proof.
  intros H. assert (E : handle cfg s (OStart c who ok) = Err); [|split; [exact E|now apply step_err]].
  cbn [handle]. unfold h_start. destruct H as [->|[H|(rc & G & H)]]; [reflexivity| |].
  - destruct ok; [|reflexivity]. cbn [guard]. now rewrite (authorized_err _ _ _ H).
  - destruct ok; [|reflexivity]. cbn [guard].
    destruct (authorized_cases s c who) as [(rc0 & E & G0)|E]; rewrite E; cbn [bind]; [|reflexivity].
    assert (rc0 = rc) by congruence. subst rc0.
    apply is_state_false in H. now rewrite H.
Qed.

(* kill: only a repeated context *)
Theorem kill_rejected cfg s c who ok :
  ok = false \/ not_authorized s c who
  \/ (exists rc, get c (ctxs s) = Some rc /\ c_rep rc = false) ->
  handle cfg s (OKill c who ok) = Err /\ step cfg s (OKill c who ok) = (s, RErr).
Proof.
  intros H. assert (E : handle cfg s (OKill c who ok) = Err); [|split; [exact E|now apply step_err]].
  cbn [handle]. unfold h_kill. destruct H as [->|[H|(rc & G & H)]]; [reflexivity| |].
  - destruct ok; [|reflexivity]. cbn [guard]. now rewrite (authorized_err _ _ _ H).
  - destruct ok; [|reflexivity]. cbn [guard].
    destruct (authorized_cases s c who) as [(rc0 & E & G0)|E]; rewrite E; cbn [bind]; [|reflexivity].
    assert (rc0 = rc) by congruence. subst rc0. now rewrite H.
Qed.

(* update: never a Completed context *)
Theorem update_rejected cfg s c who provs cap timeout freq total ok :
  ok = false \/ not_authorized s c who
  \/ (exists rc, get c (ctxs s) = Some rc /\ c_state rc = Completed) ->
  handle cfg s (OUpdateCtx c who provs cap timeout freq total ok) = Err
  /\ step cfg s (OUpdateCtx c who provs cap timeout freq total ok) = (s, RErr).
Proof.
  intros H.
  assert (E : handle cfg s (OUpdateCtx c who provs cap timeout freq total ok) = Err);
    [|split; [exact E|now apply step_err]].
  cbn [handle]. unfold h_update_ctx. destruct H as [->|[H|(rc & G & H)]]; [reflexivity| |].
  - destruct ok; [|reflexivity]. cbn [guard]. destruct (valid_update provs timeout freq total); [|reflexivity].
    cbn [guard]. now rewrite (authorized_err _ _ _ H).
  - destruct ok; [|reflexivity]. cbn [guard]. destruct (valid_update provs timeout freq total); [|reflexivity].
    cbn [guard].
    destruct (authorized_cases s c who) as [(rc0 & E & G0)|E]; rewrite E; cbn [bind]; [|reflexivity].
    assert (rc0 = rc) by congruence. subst rc0.
    apply is_state_true in H. now rewrite H.
Qed.

(* the same four for the keeper API used by the owning module *)
Theorem mod_pause_rejected cfg s c who :
  not_authorized_mod s c who
  \/ (exists rc, get c (ctxs s) = Some rc /\ (c_rep rc = false \/ c_state rc <> Running)) ->
  handle cfg s (OModPause c who) = Err /\ step cfg s (OModPause c who) = (s, RErr).
Proof.
  intros H. assert (E : handle cfg s (OModPause c who) = Err); [|split; [exact E|now apply step_err]].
  cbn [handle]. unfold h_mod_pause. destruct H as [H|(rc & G & H)].
  - now rewrite (authorized_mod_err _ _ _ H).
  - destruct (authorized_mod_cases s c who) as [(rc0 & E & G0)|E]; rewrite E; cbn [bind]; [|reflexivity].
    assert (rc0 = rc) by congruence. subst rc0.
    destruct H as [H|H]; [now rewrite H|].
    apply is_state_false in H. rewrite H. now destruct (c_rep rc).
Qed.

Theorem mod_start_rejected cfg s c who :
  not_authorized_mod s c who
  \/ (exists rc, get c (ctxs s) = Some rc /\ c_state rc <> Paused) ->
  handle cfg s (OModStart c who) = Err /\ step cfg s (OModStart c who) = (s, RErr).
Proof.
  intros H. assert (E : handle cfg s (OModStart c who) = Err); [|split; [exact E|now apply step_err]].
  cbn [handle]. unfold h_mod_start. destruct H as [H|(rc & G & H)].
  - now rewrite (authorized_mod_err _ _ _ H).
  - destruct (authorized_mod_cases s c who) as [(rc0 & E & G0)|E]; rewrite E; cbn [bind]; [|reflexivity].
    assert (rc0 = rc) by congruence. subst rc0.
    apply is_state_false in H. now rewrite H.
Qed.

Theorem mod_kill_rejected cfg s c who :
  not_authorized_mod s c who
  \/ (exists rc, get c (ctxs s) = Some rc /\ c_rep rc = false) ->
  handle cfg s (OModKill c who) = Err /\ step cfg s (OModKill c who) = (s, RErr).
Proof.
  intros H. assert (E : handle cfg s (OModKill c who) = Err); [|split; [exact E|now apply step_err]].
  cbn [handle]. unfold h_mod_kill. destruct H as [H|(rc & G & H)].
  - now rewrite (authorized_mod_err _ _ _ H).
  - destruct (authorized_mod_cases s c who) as [(rc0 & E & G0)|E]; rewrite E; cbn [bind]; [|reflexivity].
    assert (rc0 = rc) by congruence. subst rc0. now rewrite H.
Qed.

Theorem mod_update_rejected cfg s c who provs thr cap timeout freq total :
  not_authorized_mod s c who
  \/ (exists rc, get c (ctxs s) = Some rc /\ c_state rc = Completed) ->
  handle cfg s (OModUpdate c who provs thr cap timeout freq total) = Err
  /\ step cfg s (OModUpdate c who provs thr cap timeout freq total) = (s, RErr).
Proof.
  intros H.
  assert (E : handle cfg s (OModUpdate c who provs thr cap timeout freq total) = Err);
    [|split; [exact E|now apply step_err]].
  cbn [handle]. unfold h_mod_update. destruct H as [H|(rc & G & H)].
  - now rewrite (authorized_mod_err _ _ _ H).
  - destruct (authorized_mod_cases s c who) as [(rc0 & E & G0)|E]; rewrite E; cbn [bind]; [|reflexivity].
    assert (rc0 = rc) by congruence. subst rc0.
    apply is_state_true in H. now rewrite H.
Qed.
