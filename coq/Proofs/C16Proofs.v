(* C16  Finished batches and contexts leave nothing behind.
   Corollaries of Reach_Inv (inv_req, inv_sched), of the specifications of
   expire_one / new_one (CtxOps.v), and of the internals of I_req_expire_one. *)
From Coq Require Import List ZArith Bool Lia Permutation.
From SVC Require Import Base.AMap Base.Res Base.Dec Model.Types Model.Pricing
  Model.Handlers Model.EndBlock Model.Step Proofs.Inv Proofs.Lemmas Proofs.ReqLemmas
  Proofs.CtxOps Proofs.InvSched Proofs.InvEscrow Proofs.InvReq Proofs.InvAll
  Proofs.ReachRun Proofs.BatchEx.
Import ListNotations.
Open Scope Z_scope.

(* ------------------------------------------------------------------ *)
(* no orphans, at every state that satisfies the invariant *)

Definition no_orphans (s : State) : Prop :=
  (* a request record: existing context, its CURRENT batch, expiry pending at the
     request's expiration height *)
  (forall r q, In (r, q) (reqs s) ->
     exists rc, get (rid_ctx r) (ctxs s) = Some rc /\ rid_batch r = c_counter rc
       /\ get (rid_ctx r) (expq_h s) = Some (r_exp q)
       /\ In (r_exp q, rid_ctx r) (expq s))
  (* a response record: its request record exists and is no longer active *)
  /\ (forall r x, In (r, x) (resps s) ->
        exists q, get r (reqs s) = Some q /\ r_active q = false)
  (* a context without pending expiry has no request and no response record *)
  /\ (forall c r, get c (expq_h s) = None -> rid_ctx r = c ->
        get r (reqs s) = None /\ get r (resps s) = None)
  (* queue entries and pointers only for existing contexts *)
  /\ (forall h c, In (h, c) (expq s) \/ In (h, c) (newq s) -> has c (ctxs s) = true)
  /\ (forall c, has c (expq_h s) = true \/ has c (newq_h s) = true -> has c (ctxs s) = true).

Lemma no_resp_without_req cfg s r : Inv cfg s -> get r (reqs s) = None -> get r (resps s) = None.
Proof.
  intros HI G. destruct (get r (resps s)) as [x|] eqn:E; [|reflexivity].
  apply get_In in E. destruct (inv_req _ _ HI) as (_ & R2 & _).
  destruct (R2 _ _ E) as (q & Gq & _). congruence.
Qed.

Lemma Inv_no_orphans cfg s : Inv cfg s -> no_orphans s.
Proof.
  intros HI. destruct (inv_req _ _ HI) as (R1 & R2 & R3).
  destruct (inv_sched _ _ HI) as (S1 & S2 & _ & S4 & _).
  unfold no_orphans. split; [|split; [exact R2|split; [|split]]].
  - intros r q Hin. destruct (R1 r q Hin) as (rc & A1 & A2 & A3 & _).
    exists rc. repeat split; try assumption. now apply S1.
  - intros c r He Hc. pose proof (no_expiry_no_reqs cfg s c r HI He Hc) as G.
    split; [exact G|]. eapply no_resp_without_req; eauto.
  - intros h c [Hin|Hin]; apply S4; [left; apply S1 in Hin|right; apply S2 in Hin];
      unfold has; now rewrite Hin.
  - exact S4.
Qed.

Theorem C16_no_orphans cfg s : wf_cfg cfg -> Reach cfg s -> no_orphans s.
Proof. intros Hcfg Hr. eapply Inv_no_orphans, Reach_Inv; eauto. Qed.

(* ------------------------------------------------------------------ *)
(* the expiry handler: which records it removes *)

Lemma log_clean_batch s c n : log (clean_batch s c n) = log s.
Proof. reflexivity. Qed.

(* records of other contexts are not touched by expire_one *)
Lemma expire_one_other_records cfg s c :
  wf_cfg cfg -> Inv cfg s -> In (height s, c) (expq s) -> height s < HEIGHT_BOUND ->
  forall r, rid_ctx r <> c ->
    get r (reqs (expire_one cfg s c)) = get r (reqs s)
    /\ get r (resps (expire_one cfg s c)) = get r (resps s).
Proof.
  intros Hcfg Hinv Hdue Hh. destruct (due_ctx _ _ _ Hinv Hdue) as (rc & Grc & Gexp).
  pose proof (inv_wf _ _ Hinv) as Hwf. assert (Hwr : wf (reqs s)) by apply Hwf.
  assert (Hwp : wf (resps s)) by apply Hwf.
  destruct (inv_req _ _ Hinv) as (R1 & R2 & R3).
  assert (HX : let p := (if c_bdone rc then (s, rc)
                 else complete_batch (fold_left (expire_req cfg) (active_rids s c (c_counter rc)) s) c rc) in
      resps (fst p) = resps s
      /\ (forall r, rid_ctx r <> c -> get r (reqs (fst p)) = get r (reqs s))
      /\ wf (reqs (fst p))).
  { cbv zeta. destruct (c_bdone rc) eqn:Ebd; cbn [fst snd]; [repeat split; auto|].
    set (l := active_rids s c (c_counter rc)). set (sf := fold_left (expire_req cfg) l s).
    assert (Hlc : forall r, In r l -> rid_ctx r = c).
    { intros r Hr. apply In_active_rids in Hr; [|assumption]. destruct Hr as (? & _ & Hc & _). exact Hc. }
    pose proof (complete_batch_frame sf c rc) as F. cbv zeta in F.
    destruct F as (F1 & F2 & _).
    pose proof (fold_expire_core cfg l s) as C. cbv zeta in C. fold sf in C.
    destruct C as (C1 & _).
    destruct (fold_expire_reqs cfg l s Hwr) as (Hwsf & Hg).
    { intros r Hr. rewrite (Hlc r Hr). eauto. }
    fold sf in Hg, Hwsf.
    rewrite F1, F2. repeat split; try congruence.
    intros r Hr. rewrite Hg. destruct (mem r l) eqn:M; [|reflexivity].
    apply mem_In in M. apply Hlc in M. contradiction. }
  cbv zeta in HX.
  unfold expire_one, ctx_or_zero. rewrite Grc.
  destruct (if c_bdone rc then (s, rc) else complete_batch _ c rc) as [s1 rc1] eqn:Epair.
  cbn [fst snd] in HX. destruct HX as (X1 & X5 & Hw1).
  set (n := c_counter rc1).
  match goal with |- forall r, _ -> get r (reqs (clean_batch ?x c n)) = _ /\ _ => set (s3 := x) end.
  assert (H3 : reqs s3 = reqs s1 /\ resps s3 = resps s).
  { unfold s3. destruct (c_state rc1); [destruct (c_rep rc1 && _)| |]; sproj;
      rewrite ?X1; repeat split; auto. }
  destruct H3 as (H31 & H32).
  destruct (clean_batch_fields s3 c n) as (Cr & Cp & _). cbv zeta in Cr, Cp.
  intros r Hr.
  assert (M : mem r (batch_rids s3 c n) = false).
  { apply mem_nIn. intros Hin. apply In_batch_rids in Hin. destruct Hin as (_ & Hc & _). contradiction. }
  rewrite Cr, Cp, H31, H32, !get_fold_del, M by assumption.
  split; [now apply X5|reflexivity].
Qed.

Theorem C16_cleanup cfg s c :
  wf_cfg cfg -> Inv cfg s -> In (height s, c) (expq s) -> height s < HEIGHT_BOUND ->
  let s' := expire_one cfg s c in
  (* every record of the context is gone (its batch and, a fortiori, any other) *)
  (forall r, rid_ctx r = c -> get r (reqs s') = None /\ get r (resps s') = None)
  (* the expiry entry and pointer are gone *)
  /\ get c (expq_h s') = None /\ (forall h, ~ In (h, c) (expq s'))
  (* nothing else is removed *)
  /\ (forall r, rid_ctx r <> c ->
        get r (reqs s') = get r (reqs s) /\ get r (resps s') = get r (resps s)).
Proof.
  intros Hcfg HI Hdue Hb s'. subst s'.
  pose proof (Inv_expire_one cfg s c Hcfg HI Hdue Hb) as HI'.
  destruct (expire_one_spec cfg s c Hcfg HI Hdue Hb)
    as (rc & rc1 & _ & _ & _ & _ & _ & Q1 & _ & Ee' & _).
  destruct (Inv_no_orphans _ _ HI') as (_ & _ & N3 & _).
  split; [intros r Hc; now apply (N3 c r)|]. split; [exact Ee'|]. split.
  - intros h Hin. apply Q1 in Hin. congruence.
  - now apply expire_one_other_records.
Qed.

(* ------------------------------------------------------------------ *)
(* finished contexts are removed *)

(* "no further batch": one-shot, or a repeated context whose total is reached *)
Definition exhausted (rc : Ctx) : Prop :=
  c_rep rc = false \/ (0 <= c_total rc /\ c_total rc <= c_counter rc).

Lemma more_false_iff rc : more rc = false <-> exhausted rc.
Proof.
  unfold more, exhausted. destruct (c_rep rc); cbn [andb].
  - split.
    + intros H. right. b2p. lia.
    + intros [H|[H1 H2]]; [discriminate|]. apply orb_false_intro; [apply Z.ltb_ge|apply Z.ltb_ge]; lia.
  - split; auto.
Qed.

Definition finished (rc : Ctx) : Prop :=
  c_state rc = Completed \/ (c_state rc = Running /\ exhausted rc).

Lemma expire_one_removed_log cfg s c rc :
  get c (ctxs s) = Some rc -> finished rc -> In (EvCtxRemoved c) (log (expire_one cfg s c)).
Proof.
  intros Erc Hf.
  destruct (expire_one_unfold cfg s c) as (s1 & rc1 & Hs1 & Hrc1 & ->).
  assert (Ez : ctx_or_zero s c = rc) by (unfold ctx_or_zero; now rewrite Erc).
  rewrite Ez in Hrc1.
  assert (Hsame : c_state rc1 = c_state rc /\ more rc1 = more rc).
  { destruct Hrc1 as [->|[_ ->]]; split; reflexivity. }
  destruct Hsame as (Est & Emo).
  rewrite log_clean_batch. unfold expire_tail. rewrite Est, Emo.
  destruct Hf as [Hc|[Hr Hx]].
  - rewrite Hc. sproj. now left.
  - rewrite Hr. apply more_false_iff in Hx. rewrite Hx. sproj. now left.
Qed.

Theorem C16_finished_removed cfg s c rc :
  wf_cfg cfg -> Inv cfg s -> In (height s, c) (expq s) -> height s < HEIGHT_BOUND ->
  get c (ctxs s) = Some rc ->
  let s' := expire_one cfg s c in
  (finished rc ->
     get c (ctxs s') = None /\ get c (expq_h s') = None /\ get c (newq_h s') = None
     /\ In (EvCtxRemoved c) (log s'))
  /\ (~ finished rc -> exists rc', get c (ctxs s') = Some rc' /\ c_state rc' = c_state rc).
Proof.
  intros Hcfg HI Hdue Hb Erc s'. subst s'.
  destruct (expire_one_spec cfg s c Hcfg HI Hdue Hb)
    as (rc0 & rc1 & Erc0 & _ & _ & Hrc1 & _ & _ & _ & Ee' & Hcase).
  assert (rc0 = rc) by congruence. subst rc0.
  assert (Est : c_state rc1 = c_state rc) by (destruct Hrc1 as [->|[_ ->]]; reflexivity).
  split.
  - intros Hf. split; [|split; [exact Ee'|split]].
    + destruct Hcase as [(Ex & _)|[(_ & _ & Hr & Hm)|(_ & _ & Hp)]]; [exact Ex| |].
      * exfalso. destruct Hf as [Hc|[_ Hx]]; [congruence|]. apply more_false_iff in Hx. congruence.
      * exfalso. destruct Hf as [Hc|[Hr _]]; congruence.
    + destruct Hcase as [(_ & En & _)|[(_ & _ & Hr & Hm)|(_ & En & _)]]; [exact En| |exact En].
      exfalso. destruct Hf as [Hc|[_ Hx]]; [congruence|]. apply more_false_iff in Hx. congruence.
    + eapply expire_one_removed_log; eauto.
  - intros Hnf. destruct Hcase as [(_ & _ & Hx)|[(Ex & _)|(Ex & _)]]; [|eauto..].
    exfalso. apply Hnf. destruct Hx as [Hc|[Hr Hm]]; [now left|right].
    split; [exact Hr|]. now apply more_false_iff.
Qed.

(* the D5 branch of the new-batch handler: a running repeated context whose positive
   total is already reached (paused during its last batch, restarted after the
   expiry) is removed instead of being issued another batch *)
Theorem C16_total_reached_removed cfg s c rc :
  Inv cfg s -> In (height s, c) (newq s) -> get c (ctxs s) = Some rc ->
  c_state rc = Running -> c_rep rc = true -> 0 < c_total rc -> c_total rc <= c_counter rc ->
  let s' := new_one cfg s c in
  get c (ctxs s') = None /\ get c (expq_h s') = None /\ get c (newq_h s') = None
  /\ In (EvCtxRemoved c) (log s').
Proof.
  intros HI Hdue Erc Hr Hrep Ht Hc s'. subst s'.
  assert (Hd : d5 rc = true).
  { unfold d5. apply is_state_true in Hr. rewrite Hr, Hrep. cbn [andb].
    apply andb_true_intro. split; [now apply Z.ltb_lt|now apply Z.leb_le]. }
  destruct (new_one_spec cfg s c HI Hdue) as (rc0 & Erc0 & _ & _ & _ & _ & _ & En' & Hcase).
  assert (rc0 = rc) by congruence. subst rc0.
  destruct Hcase as [(_ & Ex & Ee')|[(Hx & _)|[(Hx & _)|(Hx & _)]]]; try congruence.
  split; [exact Ex|]. split; [exact Ee'|]. split; [exact En'|].
  destruct (new_one_unfold cfg s c rc Erc) as [(_ & ->)|[(Hx & _)|[(Hx & _)|(Hx & _)]]]; try congruence.
  sproj. now left.
Qed.

(* ------------------------------------------------------------------ *)
(* Examples *)

Module Ex16.
  Import BEx.

  (* no orphans, instantiated: the state with both batches in flight and two responses *)
  Example C16_no_orphans_ex : no_orphans s_r /\ length (reqs s_r) = 5%nat /\ length (resps s_r) = 2%nat.
  Proof. split; [exact (C16_no_orphans cfg0 s_r wf_cfg0 reach_r)|comp]. Qed.

  (* the hypotheses of C16_cleanup / C16_finished_removed hold at height 6 for the one-shot
     module context c1 (three request records, two response records); after expire_one all
     are gone, c1 is removed, and the two records of c2 are still there *)
  Example C16_cleanup_ex :
    wf_cfg cfg0 /\ Reach cfg0 s_e /\ In (height s_e, c1) (expq s_e) /\ height s_e < HEIGHT_BOUND
    /\ (exists rc, get c1 (ctxs s_e) = Some rc /\ finished rc)
    /\ length (filter (fun r => eqb (rid_ctx r) c1) (keys (reqs s_e))) = 3%nat
    /\ length (filter (fun r => eqb (rid_ctx r) c1) (keys (resps s_e))) = 2%nat
    /\ let s' := expire_one cfg0 s_e c1 in
       keys (reqs s') = [(c2, 1, 1, 0); (c2, 1, 1, 1)] /\ resps s' = []
       /\ get c1 (ctxs s') = None /\ expq s' = [(6, c2)]
       /\ In (EvCtxRemoved c1) (log s').
  Proof.
    split; [exact wf_cfg0|]. split; [exact reach_e|]. split; [vm_compute; auto|].
    split; [reflexivity|]. split.
    { eexists. split; [vm_compute; reflexivity|]. right. split; [reflexivity|]. left. reflexivity. }
    split; [reflexivity|]. split; [reflexivity|].
    vm_compute. repeat split. auto.
  Qed.

  (* c2 (repeated, below its total) survives its expiry *)
  Example C16_finished_removed_ex_survives :
    In (height (expire_one cfg0 s_e c1), c2) (expq (expire_one cfg0 s_e c1))
    /\ exists rc rc', get c2 (ctxs s_e) = Some rc /\ ~ finished rc
         /\ get c2 (ctxs (expire_one cfg0 (expire_one cfg0 s_e c1) c2)) = Some rc'.
  Proof.
    split; [vm_compute; auto|]. eexists. eexists. split; [vm_compute; reflexivity|].
    split; [|vm_compute; reflexivity].
    intros [Hc|[_ [Hr|[_ Ht]]]]; [discriminate Hc|discriminate Hr|vm_compute in Ht; apply Ht; reflexivity].
  Qed.

  (* D5 *)
  Example C16_total_reached_removed_ex :
    Reach cfg0 s_d5 /\ In (height s_d5, c3) (newq s_d5)
    /\ (exists rc, get c3 (ctxs s_d5) = Some rc /\ c_state rc = Running /\ c_rep rc = true
          /\ 0 < c_total rc /\ c_total rc <= c_counter rc)
    /\ ctxs (new_one cfg0 s_d5 c3) = [] /\ newq (new_one cfg0 s_d5 c3) = [].
  Proof.
    split; [exact reach_d5|]. split; [vm_compute; auto|]. split.
    { eexists. split; [vm_compute; reflexivity|]. comp. }
    comp.
  Qed.
End Ex16.
