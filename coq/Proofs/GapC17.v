(* C17 gaps.

   A. The individual query theorems over reachable states (their index-consistency hypotheses
      follow from Reach), with the "no fabricated entry" half for the two request listings.
   B. Reconstruction is "as issued": a stored request record is never re-created under the same
      id (issue heights are strictly below the current height), so over any run the joined
      fields (service, provider, consumer, input, fee, super mode, expiration height) of a
      request that is stored at both ends are the same.
   C. The legacy interface cannot be asked about an address that is not 20 bytes
      (AccAddress.UnmarshalJSON -> AccAddressFromBech32 -> VerifyAddressFormat), the gRPC
      interface can (the request field is raw bytes): the `json_ok` flag made explicit. *)
From Coq Require Import List ZArith Bool Lia Permutation Sorted.
From SVC Require Import Base.AMap Base.Res Base.Dec Model.Types Model.Pricing
  Model.Handlers Model.EndBlock Model.Step Model.Queries Proofs.Inv Proofs.Lemmas
  Proofs.ReqLemmas Proofs.CtxOps Proofs.InvSched Proofs.InvAll Proofs.ReachRun Proofs.ReachProps
  Proofs.QueryProofs Proofs.StepSpecs_ctx Proofs.StepSpecs_batch Proofs.StepSpecs_window
  Proofs.GapDBase Proofs.GapC16.
Import ListNotations.
Open Scope Z_scope.

(* ------------------------------------------------------------------ *)
(* A. over reachable states *)

Section ReachQ.
  Variable cfg : Params.
  Variable s : State.
  Hypothesis Hcfg : wf_cfg cfg.
  Hypothesis Hreach : Reach cfg s.

  Let Hq := query_hypotheses cfg s Hcfg Hreach.
  Let Hinv : Inv cfg s := Reach_Inv cfg s Hcfg Hreach.

  Lemma reach_q_definition svc :
    (forall d, q_definition s svc = AOk d <-> In (svc, d) (defs s)) /\
    (q_definition s svc = ANotFound <-> ~ In svc (keys (defs s))) /\
    q_definition s svc <> AErr.
  Proof. apply C17_q_definition. apply Hq. Qed.

  Lemma reach_q_binding svc prov :
    (forall b, q_binding s svc prov = AOk b <-> In ((svc, prov), b) (binds s)) /\
    (q_binding s svc prov = ANotFound <-> ~ In (svc, prov) (keys (binds s))) /\
    q_binding s svc prov <> AErr.
  Proof. apply C17_q_binding. apply Hq. Qed.

  Lemma reach_q_request_context c :
    (forall rc, q_request_context s c = AOk rc <-> In (c, rc) (ctxs s)) /\
    (q_request_context s c = ANotFound <-> ~ In c (keys (ctxs s))) /\
    q_request_context s c <> AErr.
  Proof. apply C17_q_request_context. apply Hq. Qed.

  Lemma reach_q_response r :
    (forall x, q_response s r = AOk x <-> In (r, x) (resps s)) /\
    (q_response s r = ANotFound <-> ~ In r (keys (resps s))) /\
    q_response s r <> AErr.
  Proof. apply C17_q_response. apply Hq. Qed.

  Lemma reach_q_withdraw_address owner :
    exists a, q_withdraw_address s owner = AOk a /\
              (forall a', In (owner, a') (wdaddr s) -> a = a') /\
              (~ In owner (keys (wdaddr s)) -> a = owner) /\
              (a = owner \/ In (owner, a) (wdaddr s)).
  Proof. apply C17_q_withdraw_address. apply Hq. Qed.

  Lemma reach_q_request r :
    (forall fr, q_request s r = AOk fr <->
                exists q rc, In (r, q) (reqs s) /\ In (rid_ctx r, rc) (ctxs s) /\
                             fr = join_request r q rc) /\
    (q_request s r = ANotFound <-> ~ In r (keys (reqs s))) /\
    q_request s r <> AErr.
  Proof. apply C17_q_request; apply Hq. Qed.

  Lemma reach_q_bindings svc :
    exists l, q_bindings s svc 0 = AOk l /\
              (forall k b, In (k, b) l <-> In (k, b) (binds s) /\ fst k = svc) /\ NoDup l.
  Proof.
    destruct (C17_q_bindings s svc) as (l & A & _ & B & C). exists l.
    split; [exact A|]. split; [exact B|]. apply C. apply Hq.
  Qed.

  Lemma reach_q_bindings_owner svc owner : owner <> 0 ->
    exists l, q_bindings s svc owner = AOk l /\
              (forall k b, In (k, b) l <->
                           In (k, b) (binds s) /\ fst k = svc /\ b_owner b = owner) /\
              NoDup l.
  Proof.
    intros Ho. destruct (C17_q_bindings_owner s svc owner Ho) as (l & A & B & C & _); try apply Hq.
    exists l. auto.
  Qed.

  (* a joined stored request is never the zero request the listings fall back to *)
  Lemma join_not_zero r q rc : get r (reqs s) = Some q -> join_request r q rc <> zero_request.
  Proof.
    intros G E. assert (Ee : fr_exp (join_request r q rc) = fr_exp zero_request) by now rewrite E.
    cbn in Ee. destruct (inv_req _ _ Hinv) as (R1 & _).
    destruct (R1 _ _ (get_In _ _ _ G)) as (rc0 & _ & _ & Ge & _).
    destruct (inv_sched _ _ Hinv) as (_ & _ & _ & _ & S5 & _). pose proof (S5 _ _ Ge) as Hle.
    destruct (inv_time _ _ Hinv) as (Hh & _). lia.
  Qed.

  Lemma reach_q_requests svc prov :
    exists l, q_requests s svc prov = AOk l /\
              (forall fr, In fr l <->
                          exists r q rc, In (r, q) (reqs s) /\ get (rid_ctx r) (ctxs s) = Some rc /\
                                         r_active q = true /\ r_prov q = prov /\ c_svc rc = svc /\
                                         fr = join_request r q rc) /\
              ~ In zero_request l.
  Proof.
    assert (Wr : wf (reqs s)) by apply Hq.
    destruct (C17_q_requests s svc prov Wr) as (l & A & _ & B). exists l.
    split; [exact A|]. split; [exact B|]. intros Hz. apply B in Hz.
    destruct Hz as (r & q & rc & Hin & _ & _ & _ & _ & E).
    symmetry in E. revert E. apply join_not_zero. now apply In_get.
  Qed.

  Lemma reach_q_requests_by_ctx c batch :
    exists l, q_requests_by_ctx s c batch = AOk l /\
              (forall fr, In fr l <->
                          exists r q rc, In (r, q) (reqs s) /\ get (rid_ctx r) (ctxs s) = Some rc /\
                                         rid_ctx r = c /\ rid_batch r = batch /\
                                         fr = join_request r q rc) /\
              length l = length (filter (fun kv => in_batch c batch (fst kv)) (reqs s)) /\
              ~ In zero_request l.
  Proof.
    assert (Wr : wf (reqs s)) by apply Hq. assert (Hc : reqs_have_ctx s) by apply Hq.
    destruct (C17_q_requests_by_ctx s c batch Wr Hc) as (l & A & _ & B & C). exists l.
    split; [exact A|]. split; [exact B|]. split; [exact C|]. intros Hz. apply B in Hz.
    destruct Hz as (r & q & rc & Hin & _ & _ & _ & E).
    symmetry in E. revert E. apply join_not_zero. now apply In_get.
  Qed.

  Lemma reach_q_responses c batch :
    exists l, q_responses s c batch = AOk l /\
              (forall r x, In (r, x) l <->
                           In (r, x) (resps s) /\ rid_ctx r = c /\ rid_batch r = batch) /\
              Sorted (le_of resp_leb) l /\ NoDup l.
  Proof.
    destruct (C17_q_responses s c batch) as (l & A & _ & B & C & D). exists l.
    split; [exact A|]. split; [exact B|]. split; [exact C|]. apply D. apply Hq.
  Qed.

  Lemma reach_q_earned_fees prov :
    exists l, q_earned_fees s prov = AOk l /\
              (forall v, In v l <-> In (prov, v) (earned s)) /\ (length l <= 1)%nat.
  Proof. apply C17_q_earned_fees. apply Hq. Qed.
End ReachQ.

(* ------------------------------------------------------------------ *)
(* B. reconstruction is "as issued" *)

(* the issue height recorded in the id of a stored request is below the current height *)
Definition issued_before (s : State) : Prop :=
  forall r q, get r (reqs s) = Some q -> rid_height r < height s.

Lemma height_end_blocker cfg s : wf_cfg cfg -> Inv cfg s -> height s < HEIGHT_BOUND ->
  height (end_blocker cfg s) = height s.
Proof.
  intros Hcfg Hi Hb.
  apply (end_blocker_rel cfg (fun a b => height b = height a) Hcfg); try assumption.
  - reflexivity.
  - intros a b c H1 H2. congruence.
  - intros; now apply height_expire_one.
  - intros; now apply height_new_one.
Qed.

Lemma height_end_block cfg s dt : wf_cfg cfg -> Inv cfg s -> height s < HEIGHT_BOUND ->
  height (end_block cfg s dt) = height s + 1.
Proof.
  intros Hcfg Hi Hb. unfold end_block. sproj. now rewrite height_end_blocker.
Qed.

(* a request record present after an EndBlock that was not issued in it was there before *)
Lemma end_block_old_record cfg s dt r q' :
  wf_cfg cfg -> Inv cfg s -> height s < HEIGHT_BOUND ->
  get r (reqs (end_block cfg s dt)) = Some q' -> rid_height r <> height s ->
  get r (reqs s) = Some q'.
Proof.
  intros Hcfg Hi Hb G Hh. unfold end_block, end_blocker in G. sproj.
  set (l1 := due (expq s) (height s)) in *.
  assert (Hn1 : NoDup l1) by (apply NoDup_due; apply (inv_wf _ _ Hi)).
  assert (Hl1 : forall c, In c l1 -> In (height s, c) (expq s)) by (intros c; apply In_due).
  destruct (fold_expire_phase cfg l1 s Hcfg Hi Hb Hn1 Hl1) as (I1 & H1 & _).
  destruct (fold_expire_records cfg l1 s r Hcfg Hi Hb Hn1 Hl1) as (P1 & P2).
  set (s1 := fold_left (expire_one cfg) l1 s) in *.
  set (l2 := due (newq s1) (height s1)) in *.
  assert (Hn2 : NoDup l2) by (apply NoDup_due; apply (inv_wf _ _ I1)).
  assert (Hl2 : forall c, In c l2 -> In (height s1, c) (newq s1)) by (intros c; apply In_due).
  assert (Hb1 : height s1 < HEIGHT_BOUND) by now rewrite H1.
  destruct (fold_new_records cfg l2 s1 r Hcfg I1 Hb1 Hn2 Hl2) as (Q1 & Q2 & _).
  cbv zeta in Q1, Q2, P1, P2.
  destruct (get r (reqs s1)) as [q1|] eqn:G1.
  - rewrite (Q1 q1 eq_refl) in G. injection G as <-.
    destruct (mem (rid_ctx r) l1) eqn:M.
    + apply mem_In in M. destruct (P2 M) as (X & _). congruence.
    + apply mem_nIn in M. destruct (P1 M) as (X & _). congruence.
  - rewrite Q2 in G; [discriminate|reflexivity|now rewrite H1].
Qed.

Lemma height_msg cfg s o s' :
  handle cfg s o = Ok s' -> (forall dt, o <> OEndBlock dt) -> height s' = height s.
Proof.
  intros E Hne. destruct (ctx_op o) eqn:Hk; [|exact (se_height _ _ (msg_SEq _ _ _ _ E Hk))].
  destruct o; cbn [ctx_op] in Hk; try discriminate; cbn [handle] in E;
    try (exfalso; eapply Hne; reflexivity).
  - unfold h_call in E. inv_ok E. apply create_context_spec in E.
    destruct E as (? & _ & _ & _ & ->). reflexivity.
  - apply create_context_spec in E. destruct E as (? & _ & _ & _ & ->). reflexivity.
  - apply respond_spec in E. destruct E as (? & ? & ? & ? & _ & _ & Hsm & -> & _).
    sproj. exact (se_height _ _ Hsm).
  - apply h_pause_spec in E. destruct E as (? & _ & _ & _ & _ & _ & ->). reflexivity.
  - apply h_start_spec in E. destruct E as (? & _ & _ & _ & _ & ->). unfold started.
    match goal with |- context [if ?b then _ else _] => destruct b end; reflexivity.
  - apply h_kill_spec in E. destruct E as (? & _ & _ & _ & _ & ->). reflexivity.
  - apply h_update_ctx_spec in E.
    destruct E as (? & ? & _ & _ & _ & _ & _ & _ & _ & _ & _ & ->). reflexivity.
  - apply h_mod_update_shape in E. destruct E as (? & ? & [-> | ->]); reflexivity.
  - apply h_mod_pause_shape in E. destruct E as (? & ? & [-> | ->]); reflexivity.
  - apply h_mod_start_shape in E. destruct E as (? & ? & [-> | ->]); reflexivity.
  - apply h_mod_kill_shape in E. destruct E as (? & ? & [-> | ->]); reflexivity.
Qed.

Lemma issued_before_step cfg s o :
  wf_cfg cfg -> Inv cfg s -> wf_op s o -> issued_before s -> issued_before (fst (step cfg s o)).
Proof.
  intros Hcfg Hi Hwf Hj. unfold step.
  destruct (handle cfg s o) as [s'| |] eqn:E; cbn [fst]; try exact Hj.
  assert (Hd : (forall dt, o <> OEndBlock dt) \/ exists dt, o = OEndBlock dt).
  { destruct o; try (left; discriminate). right. eauto. }
  destruct Hd as [Hne|(dt & ->)].
  - intros r q' G.
    pose proof (height_msg cfg s o s' E Hne) as Hh.
    rewrite Hh.
    destruct (get r (reqs s)) as [q|] eqn:G0; [eapply Hj; eauto|].
    rewrite (C08_msg_no_new_requests cfg s o s' r E Hne G0) in G. discriminate.
  - cbn [handle] in E. injection E as <-. cbn [wf_op] in Hwf. destruct Hwf as (Hdt & Hb).
    intros r q' G. rewrite (height_end_block cfg s dt Hcfg Hi Hb).
    destruct (Z.eq_dec (rid_height r) (height s)) as [->|Hn]; [lia|].
    pose proof (end_block_old_record cfg s dt r q' Hcfg Hi Hb G Hn) as G0.
    specialize (Hj _ _ G0). lia.
Qed.

Lemma Reach_issued_before cfg s : wf_cfg cfg -> Reach cfg s -> issued_before s.
Proof.
  intros Hcfg H. induction H as [h0 t0 f H1 H2 H3|s o H IH Ho].
  - intros r q G. discriminate G.
  - apply issued_before_step; auto. now apply Reach_Inv.
Qed.

(* the relation carried along a run *)
Definition req_stable (s s' : State) : Prop :=
  height s <= height s'
  /\ forall r q' rc', get r (reqs s') = Some q' -> get (rid_ctx r) (ctxs s') = Some rc' ->
       rid_height r < height s ->
       exists q rc, get r (reqs s) = Some q /\ get (rid_ctx r) (ctxs s) = Some rc
         /\ r_prov q' = r_prov q /\ r_fee q' = r_fee q /\ r_exp q' = r_exp q
         /\ static_eq rc rc'.

Lemma req_stable_refl s : req_stable s s.
Proof.
  split; [lia|]. intros r q rc G1 G2 _. exists q, rc.
  split; [exact G1|]. split; [exact G2|]. split; [reflexivity|]. split; [reflexivity|].
  split; [reflexivity|apply static_eq_refl].
Qed.

Lemma req_stable_trans a b c : req_stable a b -> req_stable b c -> req_stable a c.
Proof.
  intros [H1 R1] [H2 R2]. split; [lia|]. intros r q3 rc3 G1 G2 Hh.
  destruct (R2 r q3 rc3 G1 G2) as (q2 & rc2 & A1 & A2 & A3 & A4 & A5 & A6); [lia|].
  destruct (R1 r q2 rc2 A1 A2 Hh) as (q1 & rc1 & B1 & B2 & B3 & B4 & B5 & B6).
  exists q1, rc1. split; [exact B1|]. split; [exact B2|]. split; [congruence|]. split; [congruence|].
  split; [congruence|]. unfold static_eq in *. intuition congruence.
Qed.

Lemma req_stable_msg cfg s o s' :
  wf_cfg cfg -> Inv cfg s -> wf_op s o -> (forall dt, o <> OEndBlock dt) ->
  handle cfg s o = Ok s' -> req_stable s s'.
Proof.
  intros Hcfg Hi Hwf Hne E. split; [rewrite (height_msg cfg s o s' E Hne); lia|].
  intros r q' rc' G1 G2 _.
  destruct (get r (reqs s)) as [q|] eqn:G0.
  2:{ rewrite (C08_msg_no_new_requests cfg s o s' r E Hne G0) in G1. discriminate. }
  destruct (C08_msg_keeps_requests cfg s o s' r q E Hne G0) as (q1 & X & A1 & A2 & A3 & _).
  assert (q1 = q') by congruence. subst q1.
  destruct (inv_req _ _ Hi) as (R1 & _).
  destruct (R1 _ _ (get_In _ _ _ G0)) as (rc & Grc & _).
  exists q, rc. split; [reflexivity|]. split; [exact Grc|]. split; [exact A1|]. split; [exact A2|].
  split; [exact A3|]. eapply C09_static_msg; eauto.
Qed.

Lemma req_stable_end_block cfg s dt :
  wf_cfg cfg -> Inv cfg s -> height s < HEIGHT_BOUND -> req_stable s (end_block cfg s dt).
Proof.
  intros Hcfg Hi Hb. split; [rewrite (height_end_block cfg s dt Hcfg Hi Hb); lia|].
  intros r q' rc' G1 G2 Hh.
  assert (G0 : get r (reqs s) = Some q') by (eapply end_block_old_record; eauto; lia).
  destruct (ctx_desc_end_block cfg Hcfg s dt Hi Hb _ _ G2) as (rc & Grc & Hst).
  exists q', rc. split; [exact G0|]. split; [exact Grc|]. split; [reflexivity|]. split; [reflexivity|].
  split; [reflexivity|exact Hst].
Qed.

Lemma req_stable_step cfg s o :
  wf_cfg cfg -> Inv cfg s -> wf_op s o -> req_stable s (fst (step cfg s o)).
Proof.
  intros Hcfg Hi Hwf. unfold step.
  destruct (handle cfg s o) as [s'| |] eqn:E; cbn [fst]; try apply req_stable_refl.
  assert (Hd : (forall dt, o <> OEndBlock dt) \/ exists dt, o = OEndBlock dt).
  { destruct o; try (left; discriminate). right. eauto. }
  destruct Hd as [Hne|(dt & ->)]; [eapply req_stable_msg; eauto|].
  cbn [handle] in E. injection E as <-. cbn [wf_op] in Hwf. destruct Hwf as (Hdt & Hb).
  now apply req_stable_end_block.
Qed.

Lemma req_stable_run cfg ops : forall s,
  wf_cfg cfg -> Inv cfg s -> wf_run cfg s ops -> req_stable s (run cfg s ops).
Proof.
  induction ops as [|o ops IH]; intros s Hcfg Hi Hw; [apply req_stable_refl|].
  cbn [wf_run] in Hw. destruct Hw as [Ho Hw]. unfold run. cbn [fold_left].
  eapply req_stable_trans; [apply req_stable_step; eassumption|].
  apply IH; [exact Hcfg|now apply Inv_step|exact Hw].
Qed.

Theorem C17_reconstruction_stable cfg s ops r q q' rc rc' :
  wf_cfg cfg -> Reach cfg s -> wf_run cfg s ops ->
  get r (reqs s) = Some q -> get (rid_ctx r) (ctxs s) = Some rc ->
  get r (reqs (run cfg s ops)) = Some q' -> get (rid_ctx r) (ctxs (run cfg s ops)) = Some rc' ->
  let a := join_request r q rc in let b := join_request r q' rc' in
  fr_svc b = fr_svc a /\ fr_prov b = fr_prov a /\ fr_cons b = fr_cons a /\ fr_input b = fr_input a
  /\ fr_fee b = fr_fee a /\ fr_super b = fr_super a /\ fr_exp b = fr_exp a
  /\ fr_height b = fr_height a /\ fr_ctx b = fr_ctx a /\ fr_batch b = fr_batch a.
Proof.
  intros Hcfg Hr Hw Gq Gc Gq' Gc'. cbv zeta.
  pose proof (Reach_Inv _ _ Hcfg Hr) as Hi.
  destruct (req_stable_run cfg ops s Hcfg Hi Hw) as (_ & RS).
  destruct (RS r q' rc' Gq' Gc') as (q0 & rc0 & A1 & A2 & A3 & A4 & A5 & A6).
  { eapply Reach_issued_before; eauto. }
  assert (q0 = q) by congruence. assert (rc0 = rc) by congruence. subst q0 rc0.
  destruct A6 as (B1 & B2 & B3 & B4 & _). cbn. auto 12.
Qed.

(* one step, from any state that satisfies the invariant (e.g. inside a run) *)
Theorem C17_reconstruction_stable_step cfg s o r q q' rc rc' :
  wf_cfg cfg -> Inv cfg s -> wf_op s o ->
  get r (reqs s) = Some q -> get (rid_ctx r) (ctxs s) = Some rc ->
  get r (reqs (fst (step cfg s o))) = Some q' ->
  get (rid_ctx r) (ctxs (fst (step cfg s o))) = Some rc' ->
  r_prov q' = r_prov q /\ r_fee q' = r_fee q /\ r_exp q' = r_exp q /\ static_eq rc rc'.
Proof.
  intros Hcfg Hi Hwf Gq Gc Gq' Gc'.
  destruct (C16_marker_key_stable cfg s o r q q' rc rc' Hcfg Hi Hwf Gq Gq' Gc Gc') as (A1 & A2 & A3 & _).
  split; [exact A1|]. split; [exact A3|]. split; [exact A2|].
  unfold step in *. destruct (handle cfg s o) as [s'| |] eqn:E; cbn [fst] in *;
    [|assert (rc' = rc) by congruence; subst; apply static_eq_refl..].
  assert (Hd : (forall dt, o <> OEndBlock dt) \/ exists dt, o = OEndBlock dt).
  { destruct o; try (left; discriminate). right. eauto. }
  destruct Hd as [Hne|(dt & ->)]; [eapply C09_static_msg; eauto|].
  cbn [handle] in E. injection E as <-. cbn [wf_op] in Hwf. destruct Hwf as (Hdt & Hb).
  destruct (ctx_desc_end_block cfg Hcfg s dt Hi Hb _ _ Gc') as (x0 & Gx & Hst).
  assert (x0 = rc) by congruence. now subst.
Qed.

(* ------------------------------------------------------------------ *)
(* C. the legacy interface and non-20-byte addresses *)

Section Legacy.
  (* byte length of the address an atom stands for (host encoding) *)
  Variable alen : Z -> Z.

  (* what amino-JSON decoding of the query parameters accepts: the empty address (omitted
     field) or one of exactly 20 bytes *)
  Definition json_addr_ok (a : Z) : bool := (a =? 0) || (alen a =? 20).

  Theorem same_answers_addr s :
    (forall svc prov, json_addr_ok prov = true ->
       lq_binding (json_addr_ok prov) s svc prov = q_binding s svc prov)
    /\ (forall svc owner, json_addr_ok owner = true ->
       lq_bindings (json_addr_ok owner) s svc owner = q_bindings s svc owner)
    /\ (forall owner, json_addr_ok owner = true ->
       lq_withdraw_address (json_addr_ok owner) s owner = q_withdraw_address s owner)
    /\ (forall svc prov, json_addr_ok prov = true ->
       lq_requests (json_addr_ok prov) s svc prov = q_requests s svc prov)
    /\ (forall prov, json_addr_ok prov = true ->
       lq_earned_fees (json_addr_ok prov) s prov = q_earned_fees s prov).
  Proof.
    split; [|split; [|split; [|split]]].
    - intros svc prov H. rewrite H. unfold lq_binding, q_binding, of_lookup.
      now destruct (get (svc, prov) (binds s)).
    - intros svc owner H. rewrite H. unfold lq_bindings, q_bindings. now destruct (owner =? 0).
    - intros owner H. now rewrite H.
    - intros svc prov H. now rewrite H.
    - intros prov H. now rewrite H.
  Qed.

  Theorem legacy_rejects_other_lengths s :
    (forall svc prov, json_addr_ok prov = false -> lq_binding (json_addr_ok prov) s svc prov = AErr)
    /\ (forall svc owner, json_addr_ok owner = false ->
          lq_bindings (json_addr_ok owner) s svc owner = AErr)
    /\ (forall owner, json_addr_ok owner = false ->
          lq_withdraw_address (json_addr_ok owner) s owner = AErr)
    /\ (forall svc prov, json_addr_ok prov = false ->
          lq_requests (json_addr_ok prov) s svc prov = AErr)
    /\ (forall prov, json_addr_ok prov = false -> lq_earned_fees (json_addr_ok prov) s prov = AErr).
  Proof. repeat split; intros; match goal with H : _ = false |- _ => rewrite H end; reflexivity. Qed.
End Legacy.

(* ------------------------------------------------------------------ *)
(* witnesses and instances *)

From SVC Require Import Proofs.BatchEx.

(* the two interfaces disagree on a reachable state as soon as the address argument cannot be
   decoded from amino JSON (json_ok = false): gRPC answers, legacy fails *)
Theorem C17_same_answers_refuted :
  exists cfg s svc prov b, wf_cfg cfg /\ Reach cfg s
    /\ q_binding s svc prov = AOk b /\ lq_binding false s svc prov = AErr
    /\ (exists l, q_requests s svc prov = AOk l) /\ lq_requests false s svc prov = AErr
    /\ (exists l, q_earned_fees s prov = AOk l) /\ lq_earned_fees false s prov = AErr.
Proof.
  exists BEx.cfg0, BEx.s_c, 5, 10. eexists.
  split; [exact BEx.wf_cfg0|]. split; [exact BEx.reach_c|].
  split; [vm_compute; reflexivity|]. split; [reflexivity|].
  split; [eexists; reflexivity|]. split; [reflexivity|].
  split; [eexists; reflexivity|reflexivity].
Qed.

Module ExG17.
  Import BEx.

  Definition rest : list Op :=
    [ORespond (c1, 1, 1, 0) 10 200 1 true true; ORespond (c1, 1, 1, 1) 11 200 2 false true]
    ++ nblocks 4.

  (* from height 2 (both batches in flight) to height 6 (their expiry height): the request
     (c2,1,1,0) is stored at both ends, two responses of another context and four blocks lie
     between *)
  Example C17_reconstruction_stable_ex :
    wf_run cfg0 s_b rest /\ run cfg0 s_b rest = s_e
    /\ exists q rc q' rc',
         get (c2, 1, 1, 0) (reqs s_b) = Some q /\ get c2 (ctxs s_b) = Some rc
         /\ get (c2, 1, 1, 0) (reqs s_e) = Some q' /\ get c2 (ctxs s_e) = Some rc'
         /\ fr_svc (join_request (c2, 1, 1, 0) q' rc') = fr_svc (join_request (c2, 1, 1, 0) q rc)
         /\ fr_fee (join_request (c2, 1, 1, 0) q' rc') = fr_fee (join_request (c2, 1, 1, 0) q rc).
  Proof.
    assert (W : wf_run cfg0 s_b rest) by comp.
    assert (E : run cfg0 s_b rest = s_e) by (vm_compute; reflexivity).
    split; [exact W|]. split; [exact E|].
    assert (G1 : get (c2, 1, 1, 0) (reqs s_b) = Some (mkReq 10 1 6 true)) by (vm_compute; reflexivity).
    assert (G2 : exists rc, get c2 (ctxs s_b) = Some rc) by (eexists; vm_compute; reflexivity).
    assert (G3 : get (c2, 1, 1, 0) (reqs s_e) = Some (mkReq 10 1 6 true)) by (vm_compute; reflexivity).
    assert (G4 : exists rc, get c2 (ctxs s_e) = Some rc) by (eexists; vm_compute; reflexivity).
    destruct G2 as (rc & G2). destruct G4 as (rc' & G4).
    exists (mkReq 10 1 6 true), rc, (mkReq 10 1 6 true), rc'.
    split; [exact G1|]. split; [exact G2|]. split; [exact G3|]. split; [exact G4|].
    rewrite <- E in G3, G4.
    destruct (C17_reconstruction_stable cfg0 s_b rest (c2, 1, 1, 0) _ _ rc rc' wf_cfg0 reach_b W G1 G2 G3 G4)
      as (A1 & _ & _ & _ & A5 & _).
    split; [exact A1|exact A5].
  Qed.

  Example C17_reach_q_requests_by_ctx_ex :
    exists l, q_requests_by_ctx s_b c1 1 = AOk l /\ length l = 3%nat /\ ~ In zero_request l.
  Proof.
    destruct (reach_q_requests_by_ctx cfg0 s_b wf_cfg0 reach_b c1 1) as (l & A & _ & C & D).
    exists l. split; [exact A|]. split; [rewrite C; vm_compute; reflexivity|exact D].
  Qed.
End ExG17.
