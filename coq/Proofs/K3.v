(* Known finding K3 inside the model (Model/ModSvc.v): what the module-service branch of
   MsgCallService breaks, each statement with a concrete reachable witness evaluated by
   vm_compute, and the positive side: without XCallMod the machine `xstep` IS `pstep`,
   so every theorem over Reach / ReachP applies to the K3-free histories.

   The witness is W10 of the regression corpus (DESIGN.md 6.5): parameters of cfgs[0],
   define the module service (atom 5), module-service call by consumer 111 (holding 1000)
   with the module provider 161 and the module's answer (200, output 7003), then EndBlocks. *)
From Coq Require Import List ZArith Bool Lia.
From SVC Require Import Base.AMap Base.Res Base.Dec Model.Types Model.Pricing
  Model.Handlers Model.EndBlock Model.Step Model.ParamStep Model.ModSvc Model.Genesis
  Proofs.Inv Proofs.ReachRun Proofs.ParamChange.
Import ListNotations.
Open Scope Z_scope.

(* ------------------------------------------------------------------ *)
(* the positive side: X-K3 = "the history contains no XCallMod" *)

Lemma xstep_XP cs p : xstep cs (XP p) = pstep cs p.
Proof. reflexivity. Qed.

Lemma xstep_not_callmod cs o :
  is_callmod o = false -> exists p, o = XP p /\ xstep cs o = pstep cs p.
Proof. destruct o as [p|]; [intros _; now exists p|discriminate]. Qed.

Lemma xrun_XP ops : forall cs, xrun cs (map XP ops) = prun cs ops.
Proof.
  induction ops as [|o t IH]; intros cs; [reflexivity|].
  unfold xrun, prun in *. cbn [map fold_left]. rewrite xstep_XP. apply IH.
Qed.

(* a history is K3-free iff it is a history of the parameter machine *)
Lemma k3_free_iff ops : k3_free ops = true <-> exists pops, ops = map XP pops.
Proof.
  split.
  - induction ops as [|o t IH]; intros H; [now exists []|].
    unfold k3_free in *. cbn [forallb] in H. apply andb_true_iff in H. destruct H as [Ho Ht].
    destruct (IH Ht) as [pt ->]. destruct o as [p|]; [|discriminate].
    now exists (p :: pt).
  - intros [pops ->]. induction pops as [|p t IH]; [reflexivity|].
    unfold k3_free in *. cbn [map forallb is_callmod negb andb]. exact IH.
Qed.

Theorem xrun_k3_free cs ops :
  k3_free ops = true -> exists pops, ops = map XP pops /\ xrun cs ops = prun cs pops.
Proof.
  intros H. apply k3_free_iff in H. destruct H as [pops ->].
  exists pops. split; [reflexivity|apply xrun_XP].
Qed.

(* hence the executable machine stays inside ReachP on K3-free histories (under the domain
   conditions of ReachP_prun), and the full invariant holds after them *)
Theorem ReachP_xrun_k3_free pops cfg s :
  ReachP cfg s -> wf_pops cfg s pops ->
  ReachP (fst (xrun (cfg, s) (map XP pops))) (snd (xrun (cfg, s) (map XP pops))).
Proof. intros H Hw. rewrite xrun_XP. now apply ReachP_prun. Qed.

Theorem Inv_xrun_k3_free pops cfg s :
  ReachP cfg s -> wf_pops cfg s pops ->
  Inv (fst (xrun (cfg, s) (map XP pops))) (snd (xrun (cfg, s) (map XP pops))).
Proof. intros H Hw. apply ReachP_Inv. now apply ReachP_xrun_k3_free. Qed.

(* the module-service call never changes the parameters in force, and a refused or panicking
   call leaves no trace (atomic message) *)
Lemma xstep_callmod_cfg cfg s o :
  is_callmod o = true -> fst (fst (xstep (cfg, s) o)) = cfg.
Proof.
  destruct o as [p|]; [discriminate|]. intros _. cbn [xstep].
  destruct (h_call_modsvc _ _ _ _ _ _ _ _ _ _ _ _ _ _ _ _ _ _ _); reflexivity.
Qed.

Lemma xstep_callmod_atomic cfg s o :
  is_callmod o = true -> snd (xstep (cfg, s) o) <> ROk -> snd (fst (xstep (cfg, s) o)) = s.
Proof.
  destruct o as [p|]; [discriminate|]. intros _. cbn [xstep].
  destruct (h_call_modsvc _ _ _ _ _ _ _ _ _ _ _ _ _ _ _ _ _ _ _); cbn [fst snd]; congruence.
Qed.

(* outside its own service the operation is refused *)
Lemma callmod_other_service cfg s c svc provs cn input cap timeout super rep freq total iok ok mp code out ov :
  svc <> p_modsvc cfg ->
  h_call_modsvc cfg s c svc provs cn input cap timeout super rep freq total iok ok mp code out ov = Err.
Proof.
  intros H. unfold h_call_modsvc, guard.
  destruct ok; [|reflexivity]. destruct (valid_request _ _ _ _ _); [|reflexivity].
  destruct (Z.eqb_spec svc (p_modsvc cfg)); [contradiction|reflexivity].
Qed.

(* AddEarnedFee / AddResponse as modelled here are the ordinary ones whenever the provider
   has an owner: the only new behaviour is the provider WITHOUT owner *)
Lemma transfer_owner_of from to amt s s1 :
  transfer from to amt s = Some s1 -> owner_of s1 = owner_of s.
Proof.
  unfold transfer. destruct ((amt <? 0) || (bal s from <? amt)); [discriminate|].
  intros H. injection H as <-. reflexivity.
Qed.

Lemma add_earned_fee_any_owner cfg s r prov fee :
  has prov (owner_of s) = true ->
  add_earned_fee_any cfg s r prov fee = add_earned_fee cfg s r prov fee.
Proof.
  intros Ho. unfold add_earned_fee_any, add_earned_fee, bind, guard.
  destruct (transfer Escrow FeeColl (mul_trunc fee (p_tax cfg)) s) as [s1|] eqn:T; cbn [of_opt]; [|reflexivity].
  destruct (mul_trunc fee (p_tax cfg) <=? fee); [|reflexivity].
  cbn [owner_of set_earned].
  rewrite (transfer_owner_of _ _ _ _ _ T).
  unfold has in Ho. destruct (get prov (owner_of s)); [reflexivity|discriminate].
Qed.

Lemma add_response_any_owner cfg s r who code out ov :
  has who (owner_of s) = true ->
  add_response_any cfg s r who code out ov = h_respond cfg s r who code out ov true.
Proof.
  intros Ho. unfold add_response_any, h_respond, bind, guard.
  destruct (get r (reqs s)) as [q|]; cbn [of_opt]; [|reflexivity].
  destruct (get (rid_ctx r) (ctxs s)) as [rc0|]; cbn [of_opt]; [|reflexivity].
  destruct (who =? r_prov q); [|reflexivity]. destruct (r_active q); [|reflexivity].
  now rewrite (add_earned_fee_any_owner cfg s r who _ Ho).
Qed.

(* ------------------------------------------------------------------ *)
(* the witness *)

Definition k3_cfg : Params :=
  mkParams 3 200 6000 (ONE / 10) (ONE / 1000) 5000000000 5000000000 5 7001.
Definition k3_funding : list (Z * Z) := [(101, 50000000); (111, 1000)].
Definition k3_s0 : State := run k3_cfg (init 10 0 k3_funding) [ODefine 5 5 true].
Definition k3_ctx : CtxId := (1010, 0).
Definition k3_rid : ReqId := (k3_ctx, 1, 10, 0).
Definition k3_call : XOp :=
  XCallMod k3_ctx 5 [126] 111 10 (CBase 1000) 2 false false 0 0 true true 161 200 7003 true.
Definition k3_eb : XOp := XP (PO (OEndBlock 5000000000)).
(* after the call; after the next EndBlock; after two more *)
Definition k3_s1 : State := snd (xrun (k3_cfg, k3_s0) [k3_call]).
Definition k3_s2 : State := snd (xrun (k3_cfg, k3_s0) [k3_call; k3_eb]).
Definition k3_s4 : State := snd (xrun (k3_cfg, k3_s0) [k3_call; k3_eb; k3_eb; k3_eb]).

Lemma k3_cfg_wf : wf_cfg k3_cfg.
Proof. unfold wf_cfg. repeat match goal with |- _ /\ _ => split end; zc. Qed.

Lemma k3_reach : Reach k3_cfg k3_s0.
Proof.
  apply reach_init_run; [lia|lia|unfold k3_funding; wf_funding_tac|]. wf_run_tac.
Qed.

(* before the call the state is inside the invariant: every conjunct refuted below holds *)
Lemma k3_pre_escrow : I_escrow k3_s0.
Proof. vm_compute. reflexivity. Qed.

Lemma k3_call_ok : xstep (k3_cfg, k3_s0) k3_call = ((k3_cfg, k3_s1), ROk).
Proof. vm_compute. reflexivity. Qed.

Lemma k3_eb_ok : xstep (k3_cfg, k3_s1) k3_eb = ((k3_cfg, k3_s2), ROk).
Proof. vm_compute. reflexivity. Qed.

(* the fee stored by InitiateRequests for a provider without binding: GetPrice on the empty
   pricing raises 0 to 1, whatever the block time and the volume *)
Lemma get_price_no_binding t vol : get_price zero_pricing t vol = 1.
Proof. reflexivity. Qed.

(* ------------------------------------------------------------------ *)
(* (a) C01 / C02 / C07: the escrow holds 0 against obligations of 1 *)

Theorem K3_escrow_refuted :
  exists cfg s o s',
    wf_cfg cfg /\ Reach cfg s /\ I_escrow s /\ is_callmod o = true
    /\ xstep (cfg, s) o = ((cfg, s'), ROk)
    /\ bal s' Escrow = 0
    /\ msum fee_active (reqs s') + msum vid (earned s') = 1
    /\ ~ I_escrow s'.
Proof.
  exists k3_cfg, k3_s0, k3_call, k3_s1.
  split; [exact k3_cfg_wf|]. split; [exact k3_reach|]. split; [exact k3_pre_escrow|].
  split; [reflexivity|]. split; [exact k3_call_ok|].
  split; [vm_compute; reflexivity|]. split; [vm_compute; reflexivity|].
  unfold I_escrow. vm_compute. discriminate.
Qed.

(* C02: the request's fee 1 is settled to the provider in the same step (one issue, one earning of
   1, no tax), while the only debit of the consumer is 0 and his balance did not move *)
Theorem K3_settled_unpaid_refuted :
  exists cfg s o s' c r prov cons,
    wf_cfg cfg /\ Reach cfg s /\ is_callmod o = true
    /\ xstep (cfg, s) o = ((cfg, s'), ROk)
    /\ firstn 8 (log s') =
         [EvBatchDone c 1; EvRespond r; EvEarn r prov 1; EvTax r 0; EvBatchStart c 1 (height s) 1;
          EvIssue r prov cons 1; EvDebit c cons 0; EvCtxCreated c]
    /\ skipn 8 (log s') = log s
    /\ bal s' (User cons) = bal s (User cons)
    /\ get prov (earned s') = Some 1.
Proof.
  exists k3_cfg, k3_s0, k3_call, k3_s1, k3_ctx, k3_rid, 161, 111.
  split; [exact k3_cfg_wf|]. split; [exact k3_reach|]. split; [reflexivity|].
  split; [exact k3_call_ok|].
  repeat split; vm_compute; reflexivity.
Qed.

(* C07: the stored fee is 1 although the provider publishes no pricing for the service (there is
   no binding at all), and the consumer is charged the filter's total over the bindings: 0 *)
Theorem K3_fee_without_pricing_refuted :
  exists cfg s o s' c r q rc,
    wf_cfg cfg /\ Reach cfg s /\ is_callmod o = true
    /\ xstep (cfg, s) o = ((cfg, s'), ROk)
    /\ get r (reqs s') = Some q /\ rid_ctx r = c /\ get c (ctxs s') = Some rc
    /\ r_fee q = 1
    /\ get (c_svc rc, r_prov q) (binds s') = None
    /\ get (c_svc rc, r_prov q) (pricing s') = None
    /\ sum_prices (filter_providers s' rc (c_provs rc)) = 0
    /\ In (EvDebit c (c_cons rc) 0) (log s').
Proof.
  exists k3_cfg, k3_s0, k3_call, k3_s1, k3_ctx, k3_rid.
  eexists. eexists.
  split; [exact k3_cfg_wf|]. split; [exact k3_reach|]. split; [reflexivity|].
  split; [exact k3_call_ok|].
  split; [vm_compute; reflexivity|]. split; [reflexivity|]. split; [vm_compute; reflexivity|].
  split; [reflexivity|]. split; [vm_compute; reflexivity|]. split; [vm_compute; reflexivity|].
  split; [vm_compute; reflexivity|].
  vm_compute. do 6 right. left. reflexivity.
Qed.

(* ------------------------------------------------------------------ *)
(* (b) C13: an earning is recorded for a provider that has no owner; the owner-side record is
   written under the EMPTY owner *)

Theorem K3_earning_without_owner_refuted :
  exists cfg s o s' prov,
    wf_cfg cfg /\ Reach cfg s /\ is_callmod o = true
    /\ xstep (cfg, s) o = ((cfg, s'), ROk)
    /\ get prov (earned s') = Some 1
    /\ get prov (owner_of s') = None
    /\ get NO_OWNER (own_earned s') = Some 1
    /\ ~ I_earn s'.
Proof.
  exists k3_cfg, k3_s0, k3_call, k3_s1, 161.
  split; [exact k3_cfg_wf|]. split; [exact k3_reach|]. split; [reflexivity|].
  split; [exact k3_call_ok|].
  split; [vm_compute; reflexivity|]. split; [vm_compute; reflexivity|].
  split; [vm_compute; reflexivity|].
  intros [H _]. destruct (H 161 1) as [_ [o Ho]]; [vm_compute; left; reflexivity|].
  vm_compute in Ho. discriminate.
Qed.

(* a further facet, found by making the model agree with the code (corpus W10c): the record of the
   empty owner is computed by a scan of the BARE owner prefix, so it receives the sum of the records
   of ALL owners plus the new earning.  Witness: an ordinary request of provider 126 (owner 101) is
   answered first, the owner's record is 9; the module-service call writes 9 + 1 = 10. *)
Definition k3b_s0 : State :=
  run k3_cfg (init 10 0 [(101, 50000000); (111, 1000); (112, 1000)])
    [ ODefine 1 1 true; ODefine 5 5 true;
      OBind 1 126 (CBase 6000) (Some (mkRaw (10 * ONE) [] [])) 1 101 true;
      OCall (1032, 0) 1 [126] 111 32 (CBase 1000) 2 false false 0 0 true true;
      OEndBlock 5000000000;
      ORespond ((1032, 0), 1, 10, 0) 126 200 1 true true ].
Definition k3b_call : XOp :=
  XCallMod (1033, 0) 5 [126] 112 33 (CBase 1000) 2 false false 0 0 true true 161 200 7003 true.

Lemma k3b_reach : Reach k3_cfg k3b_s0.
Proof.
  apply reach_init_run; [lia|lia|wf_funding_tac|]. wf_run_tac.
Qed.

Theorem K3_empty_owner_record_sums_all_owners_refuted :
  exists cfg s o s' owner,
    wf_cfg cfg /\ Reach cfg s /\ is_callmod o = true
    /\ xstep (cfg, s) o = ((cfg, s'), ROk)
    /\ owner <> NO_OWNER
    /\ get owner (own_earned s) = Some 9 /\ get NO_OWNER (own_earned s) = None
    /\ get owner (own_earned s') = Some 9 /\ get NO_OWNER (own_earned s') = Some 10
    /\ msum vid (earned s') = 10.
Proof.
  exists k3_cfg, k3b_s0, k3b_call. eexists. exists 101.
  split; [exact k3_cfg_wf|]. split; [exact k3b_reach|]. split; [reflexivity|].
  split; [vm_compute; reflexivity|].
  split; [discriminate|].
  repeat split; vm_compute; reflexivity.
Qed.

(* ------------------------------------------------------------------ *)
(* (c) C09 / C10: the one-shot context starts with counter 1 and no pending expiry, keeps its
   new-batch entry, and the next EndBlock gives it batch 2 *)

Theorem K3_second_batch_refuted :
  exists cfg s o dt s' s'' c rc' rc'',
    wf_cfg cfg /\ Reach cfg s /\ is_callmod o = true
    /\ xstep (cfg, s) o = ((cfg, s'), ROk)
    /\ xstep (cfg, s') (XP (PO (OEndBlock dt))) = ((cfg, s''), ROk)
    /\ get c (ctxs s') = Some rc' /\ c_rep rc' = false /\ c_counter rc' = 1
    /\ c_bdone rc' = true /\ c_state rc' = Running
    /\ get c (newq_h s') = Some (height s') /\ get c (expq_h s') = None
    /\ ~ I_ctx cfg s'
    /\ get c (ctxs s'') = Some rc'' /\ c_rep rc'' = false /\ c_counter rc'' = 2
    /\ ~ I_ctx cfg s''.
Proof.
  exists k3_cfg, k3_s0, k3_call, 5000000000, k3_s1, k3_s2, k3_ctx.
  eexists. eexists.
  split; [exact k3_cfg_wf|]. split; [exact k3_reach|]. split; [reflexivity|].
  split; [exact k3_call_ok|]. split; [exact k3_eb_ok|].
  split; [vm_compute; reflexivity|]. split; [reflexivity|]. split; [reflexivity|].
  split; [reflexivity|]. split; [reflexivity|].
  split; [vm_compute; reflexivity|]. split; [vm_compute; reflexivity|].
  split.
  { intros H. assert (G : get k3_ctx (ctxs k3_s1) <> None) by (vm_compute; discriminate).
    destruct (get k3_ctx (ctxs k3_s1)) as [rc|] eqn:E; [|congruence].
    destruct (H _ _ E) as (_ & _ & _ & _ & _ & H6 & _).
    vm_compute in E. injection E as <-.
    destruct (H6 eq_refl) as [[C _]|[_ [_ C]]]; vm_compute in C; discriminate. }
  split; [vm_compute; reflexivity|]. split; [reflexivity|]. split; [reflexivity|].
  intros H. assert (G : get k3_ctx (ctxs k3_s2) <> None) by (vm_compute; discriminate).
  destruct (get k3_ctx (ctxs k3_s2)) as [rc|] eqn:E; [|congruence].
  destruct (H _ _ E) as (_ & _ & _ & _ & _ & H6 & _).
  vm_compute in E. injection E as <-.
  destruct (H6 eq_refl) as [[C _]|[C _]]; vm_compute in C; discriminate.
Qed.

(* ------------------------------------------------------------------ *)
(* (d) C16 / C08: CleanBatch removes the records of the CURRENT counter (2); the request and the
   response of batch 1 are still stored after the request's expiry height, and after the context
   itself is gone *)

Theorem K3_records_left_refuted :
  exists cfg s o ebs cfg' s' r q x,
    wf_cfg cfg /\ Reach cfg s /\ is_callmod o = true
    /\ k3_free ebs = true
    /\ xrun (cfg, s) (o :: ebs) = (cfg', s')
    /\ get r (reqs s') = Some q /\ get r (resps s') = Some x
    /\ r_exp q < height s'
    /\ get (rid_ctx r) (ctxs s') = None
    /\ get (rid_ctx r) (expq_h s') = None /\ get (rid_ctx r) (newq_h s') = None
    /\ ~ I_req s'.
Proof.
  exists k3_cfg, k3_s0, k3_call, [k3_eb; k3_eb; k3_eb], k3_cfg, k3_s4, k3_rid.
  eexists. eexists.
  split; [exact k3_cfg_wf|]. split; [exact k3_reach|]. split; [reflexivity|].
  split; [reflexivity|]. split; [vm_compute; reflexivity|].
  split; [vm_compute; reflexivity|]. split; [vm_compute; reflexivity|].
  split; [vm_compute; reflexivity|]. split; [vm_compute; reflexivity|].
  split; [vm_compute; reflexivity|]. split; [vm_compute; reflexivity|].
  intros [H _].
  assert (G : exists q, In (k3_rid, q) (reqs k3_s4)) by (eexists; vm_compute; left; reflexivity).
  destruct G as [q Hq]. destruct (H _ _ Hq) as (rc & E & _).
  vm_compute in E. discriminate.
Qed.

(* ------------------------------------------------------------------ *)
(* two consequences met by the generated histories (tools/k3_corr.sh), outside the properties that
   KNOWN_FINDINGS.txt lists for K3; the model reproduces both *)

(* C20 facet: once the module's provider address is bound as an ordinary provider it has an owner;
   its earlier earning of 1 is not part of that owner's record, and the owner's withdrawal for this
   provider subtracts 1 from 0: Coins.Sub panics ("negative coin amount") *)
Definition k3c_ops : list XOp :=
  [ XP (PO (ODefine 1 1 true)); XP (PO (ODefine 5 5 true));
    XCallMod (1036, 0) 5 [126] 111 36 (CBase 1000) 2 false false 0 0 true true 161 200 7003 true;
    XP (PO (OBind 1 161 (CBase 6000) (Some (mkRaw (10 * ONE) [] [])) 1 101 true)) ].

Theorem K3_withdraw_panics_refuted :
  exists cfg h0 t0 f ops cfg' s owner prov,
    wf_cfg cfg /\ 1 <= h0 /\ 0 <= t0 /\ wf_funding f
    /\ xrun (cfg, init h0 t0 f) ops = (cfg', s)
    /\ handle cfg' s (OWithdraw owner prov true) = Panic.
Proof.
  exists k3_cfg, 10, 0, k3_funding, k3c_ops, k3_cfg. eexists. exists 101, 161.
  split; [exact k3_cfg_wf|]. split; [lia|]. split; [lia|].
  split; [unfold k3_funding; wf_funding_tac|].
  split; vm_compute; reflexivity.
Qed.

(* C19 facet: the zero-height export preparation refunds every earned fee out of the escrow; the
   unbacked earning of 1 cannot be paid ("0stake is smaller than 1stake"): the preparation panics,
   in the model `prep_zero_height` has no result; before the call it has one *)
Theorem K3_zero_height_export_fails_refuted :
  exists cfg s o s',
    wf_cfg cfg /\ Reach cfg s /\ is_callmod o = true
    /\ xstep (cfg, s) o = ((cfg, s'), ROk)
    /\ prep_zero_height s <> None
    /\ prep_zero_height s' = None /\ zero_height_export cfg s' = None.
Proof.
  exists k3_cfg, k3_s0, k3_call, k3_s1.
  split; [exact k3_cfg_wf|]. split; [exact k3_reach|]. split; [reflexivity|].
  split; [exact k3_call_ok|].
  split; [vm_compute; discriminate|]. split; vm_compute; reflexivity.
Qed.
