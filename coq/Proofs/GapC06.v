(* C06 at block level with the consumer's balance pinned: which of the five outcomes of the
   new-batch handler a due context gets in a whole EndBlock is DECIDED from the state after the
   expiry phase (record, bindings, prices, volumes, time, and the consumer's balance), when the
   consumer has no other context due in that block; with the charge (or "no charge") on the
   consumer's balance over the whole EndBlock. *)
From Coq Require Import List ZArith Bool Lia Permutation.
From SVC Require Import Base.AMap Base.Res Base.Dec Model.Types Model.Pricing
  Model.Handlers Model.EndBlock Model.Step Proofs.Inv Proofs.Lemmas Proofs.ReqLemmas
  Proofs.PFrame Proofs.CtxOps Proofs.InvSched Proofs.InvAll Proofs.ReachRun
  Proofs.StepSpecs_batch Proofs.StepSpecs_batch_block Proofs.GapOrigin.
Import ListNotations.
Open Scope Z_scope.

Inductive Outcome5 : Type := ONotRunning | ORemoved | OSkipped | OPausedFunds | OIssued.

(* the decision taken by abci.go newRequestBatchHandler, as a function of what it reads *)
Definition new_outcome (s : State) (rc : Ctx) : Outcome5 :=
  let E := filter_providers s rc (c_provs rc) in
  if negb (is_state rc Running) then ONotRunning
  else if d5 rc then ORemoved
  else if (len E =? 0) || (len E <? c_thr rc) then OSkipped
  else if negb (c_super rc) && (bal s (User (c_cons rc)) <? sum_prices E) then OPausedFunds
  else OIssued.

Lemma len_nonneg {A} (l : list A) : 0 <= len l.
Proof. unfold len. lia. Qed.

(* handler level: C06_batch_spec read as a function *)
Theorem new_one_by_outcome cfg s c :
  wf_cfg cfg -> Inv cfg s -> In (height s, c) (newq s) -> height s < HEIGHT_BOUND ->
  exists rc, get c (ctxs s) = Some rc /\
    let E := filter_providers s rc (c_provs rc) in
    let s' := new_one cfg s c in
    let charge := if c_super rc then 0 else sum_prices E in
    match new_outcome s rc with
    | ONotRunning => get c (ctxs s') = Some rc /\ reqs s' = reqs s /\ bank s' = bank s
    | ORemoved => get c (ctxs s') = None /\ reqs s' = reqs s /\ bank s' = bank s
    | OSkipped => get c (ctxs s') = Some (bump rc 0) /\ reqs s' = reqs s /\ bank s' = bank s
    | OPausedFunds => get c (ctxs s') = Some (paused_ctx rc) /\ reqs s' = reqs s /\ bank s' = bank s
    | OIssued =>
        get c (ctxs s') = Some (bump rc (len E))
        /\ (forall k p price, nth_error E k = Some (p, price) ->
              get (c, c_counter rc + 1, height s, Z.of_nat k) (reqs s')
              = Some (mkReq p (if c_super rc then 0 else price) (height s + c_timeout rc) true))
        /\ (forall a, bal s' a = bal s a - (if eqb a (User (c_cons rc)) then charge else 0)
                                         + (if eqb a Escrow then charge else 0))
        /\ 0 <= charge <= bal s (User (c_cons rc))
    end.
Proof.
  intros Hcfg Hinv Hdue Hh.
  destruct (C06_batch_spec_flat cfg s c Hcfg Hinv Hdue Hh) as (rc & Grc & HS). cbv zeta in HS.
  destruct HS as (Ha & Hb & Hc & Hd & He).
  exists rc. split; [exact Grc|]. cbv zeta. unfold new_outcome.
  set (E := filter_providers s rc (c_provs rc)) in *.
  destruct (is_state rc Running) eqn:Est; cbn [negb].
  2:{ apply is_state_false in Est. destruct (Ha Est) as ((A1 & _ & A3 & _) & G & _). auto. }
  apply is_state_true in Est.
  destruct (d5 rc) eqn:Ed5.
  { destruct (Hb eq_refl) as ((A1 & _ & A3 & _) & G & _). auto. }
  pose proof (len_nonneg E) as HlE.
  destruct ((len E =? 0) || (len E <? c_thr rc)) eqn:Esk.
  { assert (Hor : len E = 0 \/ len E < c_thr rc).
    { apply orb_prop in Esk. destruct Esk as [H|H]; b2p; auto. }
    destruct (Hc Est eq_refl Hor) as ((A1 & _ & A3 & _) & G & _). auto. }
  b2p.
  assert (Hpos : 0 < len E) by lia.
  destruct (c_super rc) eqn:Esup; cbn [negb andb].
  { destruct (He Est eq_refl Hpos ltac:(lia) (or_introl eq_refl))
      as (R1 & _ & _ & B & Hch & _ & _ & _ & _ & _ & G & _). auto. }
  destruct (bal s (User (c_cons rc)) <? sum_prices E) eqn:Ebal; b2p.
  - destruct (Hd Est eq_refl Hpos ltac:(lia) eq_refl Ebal) as ((A1 & _ & A3 & _) & G & _). auto.
  - destruct (He Est eq_refl Hpos ltac:(lia) (or_intror Ebal))
      as (R1 & _ & _ & B & Hch & _ & _ & _ & _ & _ & G & _). auto.
Qed.

(* the handler of a context moves only its own consumer's balance (and the escrow) *)
Lemma new_one_bal_other cfg s c :
  wf_cfg cfg -> Inv cfg s -> In (height s, c) (newq s) -> height s < HEIGHT_BOUND ->
  exists rc, get c (ctxs s) = Some rc
    /\ forall a, a <> User (c_cons rc) -> a <> Escrow -> bal (new_one cfg s c) a = bal s a.
Proof.
  intros Hcfg Hinv Hdue Hh.
  destruct (new_one_by_outcome cfg s c Hcfg Hinv Hdue Hh) as (rc & Grc & H). cbv zeta in H.
  exists rc. split; [exact Grc|]. intros a Ha He.
  destruct (new_outcome s rc);
    try (destruct H as (_ & _ & Eb); unfold bal; now rewrite Eb).
  destruct H as (_ & _ & B & _). rewrite B.
  destruct (eqb_spec a (User (c_cons rc))); [contradiction|].
  destruct (eqb_spec a Escrow); [contradiction|]. lia.
Qed.

Lemma new_outcome_view s s1 rc :
  elig_view s s1 -> bal s1 (User (c_cons rc)) = bal s (User (c_cons rc)) ->
  new_outcome s1 rc = new_outcome s rc.
Proof.
  intros Hv Hb. unfold new_outcome. now rewrite (filter_providers_view s s1 rc _ Hv), Hb.
Qed.

(* contexts of other consumers do not move this consumer's balance *)
Lemma fold_new_bal_other cfg l s cons :
  wf_cfg cfg -> Inv cfg s -> height s < HEIGHT_BOUND -> NoDup l ->
  (forall a, In a l -> In (height s, a) (newq s)) ->
  (forall c' rc', In c' l -> get c' (ctxs s) = Some rc' -> c_cons rc' <> cons) ->
  bal (fold_left (new_one cfg) l s) (User cons) = bal s (User cons).
Proof.
  intros Hcfg. revert s. induction l as [|a l IH]; intros s Hi Hb Hn Hl Hoth; cbn [fold_left]; [reflexivity|].
  inversion Hn as [|? ? Hna Hn']; subst.
  assert (Hda : In (height s, a) (newq s)) by (apply Hl; now left).
  pose proof (Inv_new_one cfg s a Hcfg Hi Hda Hb) as Hi1.
  pose proof (height_new_one cfg s a Hcfg Hi Hda Hb) as Eh.
  pose proof (newq_after_new_one cfg s a Hcfg Hi Hda Hb) as Eq.
  destruct (new_one_view cfg s a Hcfg Hi Hda Hb) as (_ & Hc).
  destruct (new_one_bal_other cfg s a Hcfg Hi Hda Hb) as (rca & Ga & Hbal).
  rewrite IH; try assumption.
  - apply Hbal; [|discriminate]. intros E. injection E as E. exact (Hoth a rca (or_introl eq_refl) Ga (eq_sym E)).
  - now rewrite Eh.
  - intros c0 Hc0. rewrite Eh. apply Eq. split; [apply Hl; now right|]. intros ->. contradiction.
  - intros c' rc' Hin G. apply (Hoth c' rc' (or_intror Hin)).
    rewrite <- G. symmetry. apply Hc. intros ->. contradiction.
Qed.

(* fold_new_forward with the balance of the consumer, the request records of c before its turn,
   and the balance after the whole phase *)
Lemma fold_new_pin cfg l s c rc :
  wf_cfg cfg -> Inv cfg s -> height s < HEIGHT_BOUND -> NoDup l ->
  (forall a, In a l -> In (height s, a) (newq s)) -> In c l ->
  get c (ctxs s) = Some rc ->
  (forall c' rc', In c' l -> c' <> c -> get c' (ctxs s) = Some rc' -> c_cons rc' <> c_cons rc) ->
  exists s1, Inv cfg s1 /\ elig_view s s1 /\ In (height s1, c) (newq s1)
    /\ get c (ctxs s1) = Some rc
    /\ (forall r, rid_ctx r = c -> get r (reqs s1) = get r (reqs s))
    /\ bal s1 (User (c_cons rc)) = bal s (User (c_cons rc))
    /\ (forall r, rid_ctx r = c ->
          get r (reqs (fold_left (new_one cfg) l s)) = get r (reqs (new_one cfg s1 c)))
    /\ get c (ctxs (fold_left (new_one cfg) l s)) = get c (ctxs (new_one cfg s1 c))
    /\ bal (fold_left (new_one cfg) l s) (User (c_cons rc))
       = bal (new_one cfg s1 c) (User (c_cons rc)).
Proof.
  intros Hcfg. revert s. induction l as [|a l IH]; intros s Hi Hb Hn Hl Hin Grc Hoth; [destruct Hin|].
  cbn [fold_left]. inversion Hn as [|? ? Hna Hn']; subst.
  assert (Hda : In (height s, a) (newq s)) by (apply Hl; now left).
  pose proof (Inv_new_one cfg s a Hcfg Hi Hda Hb) as Hi1.
  pose proof (height_new_one cfg s a Hcfg Hi Hda Hb) as Eh.
  pose proof (newq_after_new_one cfg s a Hcfg Hi Hda Hb) as Eq.
  destruct (new_one_view cfg s a Hcfg Hi Hda Hb) as (Hv & Hc).
  assert (Hb1 : height (new_one cfg s a) < HEIGHT_BOUND) by now rewrite Eh.
  assert (Hl1 : forall c0, In c0 l -> In (height (new_one cfg s a), c0) (newq (new_one cfg s a))).
  { intros c0 Hc'. rewrite Eh. apply Eq. split; [apply Hl; now right|]. intros ->. contradiction. }
  destruct (eqb_spec c a) as [->|Hne].
  - exists s. split; [exact Hi|]. split; [apply elig_view_refl|]. split; [exact Hda|].
    split; [exact Grc|]. split; [reflexivity|]. split; [reflexivity|].
    destruct (fold_new_other cfg l (new_one cfg s a) Hcfg Hi1 Hb1 Hn' Hl1) as (K1 & K2).
    split; [intros r Hr; apply K1; now rewrite Hr|]. split; [now apply K2|].
    apply fold_new_bal_other; try assumption.
    intros c' rc' Hin' G'. apply (Hoth c' rc'); [now right|intros ->; contradiction|].
    rewrite <- G'. symmetry. apply Hc. intros ->. contradiction.
  - destruct Hin as [E|Hin]; [congruence|].
    assert (Grc1 : get c (ctxs (new_one cfg s a)) = Some rc) by (rewrite Hc; assumption).
    destruct (IH (new_one cfg s a) Hi1 Hb1 Hn' Hl1 Hin Grc1) as (s1 & I1 & V1 & D1 & C1 & Q1 & B1 & R1 & X1 & Z1).
    { intros c' rc' Hin' Hne' G'. apply (Hoth c' rc'); [now right|exact Hne'|].
      rewrite <- G'. symmetry. apply Hc. intros ->. contradiction. }
    exists s1. split; [exact I1|]. split; [eapply elig_view_trans; eauto|]. split; [exact D1|].
    split; [exact C1|]. split.
    { intros r Hr. rewrite (Q1 r Hr). apply new_one_other; auto. now rewrite Hr. }
    split.
    { rewrite B1. destruct (new_one_bal_other cfg s a Hcfg Hi Hda Hb) as (rca & Ga & Hbal).
      apply Hbal; [|discriminate]. intros E. injection E as E.
      exact (Hoth a rca (or_introl eq_refl) (fun X => Hne (eq_sym X)) Ga (eq_sym E)). }
    auto.
Qed.

(* C06_end_block_outcome: one whole EndBlock, a context c due for a new batch after the expiry
   phase whose consumer has no other context due in this block.  The outcome is decided by
   [new_outcome] on the POST-EXPIRY state sx; the record of c, its request records and the
   consumer's balance after the EndBlock are given in each case: no charge unless issued, and
   then exactly the sum of the prices of the eligible providers (0 in super mode). *)
Theorem end_block_outcome cfg s dt c rc :
  wf_cfg cfg -> Inv cfg s -> height s < HEIGHT_BOUND ->
  let sx := fold_left (expire_one cfg) (due (expq s) (height s)) s in
  let sf := end_block cfg s dt in
  In (height s, c) (newq sx) -> get c (ctxs sx) = Some rc ->
  (forall c' rc', In (height s, c') (newq sx) -> c' <> c -> get c' (ctxs sx) = Some rc' ->
                  c_cons rc' <> c_cons rc) ->
  let E := filter_providers sx rc (c_provs rc) in
  let charge := if c_super rc then 0 else sum_prices E in
  let kept := (forall r, rid_ctx r = c -> get r (reqs sf) = get r (reqs sx))
              /\ bal sf (User (c_cons rc)) = bal sx (User (c_cons rc)) in
  match new_outcome sx rc with
  | ONotRunning => get c (ctxs sf) = Some rc /\ kept
  | ORemoved => get c (ctxs sf) = None /\ kept
  | OSkipped => get c (ctxs sf) = Some (bump rc 0) /\ kept
  | OPausedFunds => get c (ctxs sf) = Some (paused_ctx rc) /\ kept
  | OIssued =>
      get c (ctxs sf) = Some (bump rc (len E))
      /\ (forall k p price, nth_error E k = Some (p, price) ->
            get (c, c_counter rc + 1, height s, Z.of_nat k) (reqs sf)
            = Some (mkReq p (if c_super rc then 0 else price) (height s + c_timeout rc) true))
      /\ bal sf (User (c_cons rc)) = bal sx (User (c_cons rc)) - charge
      /\ 0 <= charge <= bal sx (User (c_cons rc))
  end.
Proof.
  intros Hcfg Hi Hb. cbv zeta. intros Hdue Grc Hoth.
  unfold end_block, end_blocker. sproj.
  set (l1 := due (expq s) (height s)) in *.
  assert (Hn1 : NoDup l1) by (apply NoDup_due; apply (inv_wf _ _ Hi)).
  assert (Hl1 : forall c, In c l1 -> In (height s, c) (expq s)) by (intros c0; apply In_due).
  destruct (fold_expire_phase cfg l1 s Hcfg Hi Hb Hn1 Hl1) as (I1 & H1 & _).
  set (sx := fold_left (expire_one cfg) l1 s) in *.
  set (l2 := due (newq sx) (height sx)) in *.
  assert (Hn2 : NoDup l2) by (apply NoDup_due; apply (inv_wf _ _ I1)).
  assert (Hl2 : forall c, In c l2 -> In (height sx, c) (newq sx)) by (intros c0; apply In_due).
  assert (Hb1 : height sx < HEIGHT_BOUND) by now rewrite H1.
  assert (Hin : In c l2) by (apply In_due; now rewrite H1).
  assert (Hoth2 : forall c' rc', In c' l2 -> c' <> c -> get c' (ctxs sx) = Some rc' ->
            c_cons rc' <> c_cons rc).
  { intros c' rc' Hin' Hne G. apply (Hoth c' rc'); auto. rewrite <- H1. now apply Hl2. }
  destruct (fold_new_pin cfg l2 sx c rc Hcfg I1 Hb1 Hn2 Hl2 Hin Grc Hoth2)
    as (s1 & Is1 & V1 & D1 & C1 & Q1 & B1 & R1 & X1 & Z1).
  set (sf := fold_left (new_one cfg) l2 sx) in *.
  pose proof V1 as (Eh1 & _).
  assert (Hb2 : height s1 < HEIGHT_BOUND) by (rewrite Eh1; exact Hb1).
  destruct (new_one_by_outcome cfg s1 c Hcfg Is1 D1 Hb2) as (rc1 & Grc1 & H). cbv zeta in H.
  assert (rc1 = rc) by congruence. subst rc1.
  rewrite (new_outcome_view sx s1 rc V1 B1) in H.
  rewrite (filter_providers_view sx s1 rc _ V1) in H.
  rewrite Eh1, H1 in H. rewrite B1 in H.
  assert (Hkept : reqs (new_one cfg s1 c) = reqs s1 -> bank (new_one cfg s1 c) = bank s1 ->
            (forall r, rid_ctx r = c -> get r (reqs sf) = get r (reqs sx))
            /\ bal sf (User (c_cons rc)) = bal sx (User (c_cons rc))).
  { intros Er Ebk. split.
    - intros r Hr. rewrite (R1 r Hr), Er. now apply Q1.
    - rewrite Z1. unfold bal at 1. rewrite Ebk. exact B1. }
  destruct (new_outcome sx rc).
  - destruct H as (G & Er & Ebk). rewrite X1. split; [exact G|now apply Hkept].
  - destruct H as (G & Er & Ebk). rewrite X1. split; [exact G|now apply Hkept].
  - destruct H as (G & Er & Ebk). rewrite X1. split; [exact G|now apply Hkept].
  - destruct H as (G & Er & Ebk). rewrite X1. split; [exact G|now apply Hkept].
  - destruct H as (G & Hreq & Hbal & Hch). rewrite X1. split; [exact G|]. split.
    + intros k p price Hk. rewrite R1 by reflexivity. now apply Hreq.
    + split; [|exact Hch].
      match goal with |- bal ?x _ = _ => change (bal x (User (c_cons rc))) with (bal sf (User (c_cons rc))) end.
      rewrite Z1, Hbal, B1. rewrite eqb_refl.
      destruct (eqb_spec (User (c_cons rc)) Escrow); [discriminate|]. lia.
Qed.

(* a decidable form of the "only due context of its consumer" hypothesis, for examples *)
Definition uniq_cons_b (sx : State) (h : Z) (c : CtxId) (cons : Z) : bool :=
  forallb (fun e => negb (fst e =? h) || eqb (snd e) c
                    || match get (snd e) (ctxs sx) with
                       | Some rc' => negb (c_cons rc' =? cons)
                       | None => true
                       end) (newq sx).

Lemma uniq_cons_b_ok sx h c cons : uniq_cons_b sx h c cons = true ->
  forall c' rc', In (h, c') (newq sx) -> c' <> c -> get c' (ctxs sx) = Some rc' -> c_cons rc' <> cons.
Proof.
  unfold uniq_cons_b. rewrite forallb_forall. intros H c' rc' Hin Hne G.
  specialize (H _ Hin). cbn [fst snd] in H. rewrite Z.eqb_refl, G in H. cbn [negb orb] in H.
  destruct (eqb_spec c' c); [contradiction|]. cbn [orb] in H. b2p. exact H.
Qed.

(* ------------------------------------------------------------------ *)
(* over histories: every request record stored in any reachable state went, when it was issued, to
   a provider named in its context and eligible at that block, for a fee within the cap then in
   force *)
Theorem request_eligible_reach cfg s r q :
  wf_cfg cfg -> Reach cfg s -> get r (reqs s) = Some q ->
  exists s0 rc0 price,
    Reach cfg s0 /\ height s0 = rid_height r /\ height s0 < height s
    /\ let sx0 := fold_left (expire_one cfg) (due (expq s0) (height s0)) s0 in
       get (rid_ctx r) (ctxs sx0) = Some rc0
       /\ In (r_prov q) (c_provs rc0)
       /\ eligible sx0 rc0 (r_prov q) = Some price
       /\ r_fee q = (if c_super rc0 then 0 else price)
       /\ 0 <= r_fee q <= c_cap rc0
       /\ r_exp q = rid_height r + c_timeout rc0.
Proof.
  intros Hcfg HR G.
  destruct (request_origin cfg s r q Hcfg HR G)
    as (s0 & dt & q0 & R0 & Hdt & Hb & G0 & G1 & (E1 & E2 & E3) & Hlt).
  pose proof (Reach_Inv cfg s0 Hcfg R0) as I0.
  destruct (C06_end_block cfg s0 dt r q0 Hcfg I0 Hb G0 G1)
    as (rc & k & p & price & _ & Grc & _ & Er & Eq & Hin & Hel & Hcap).
  assert (Ep : r_prov q0 = p) by (rewrite Eq; reflexivity).
  assert (Ef : r_fee q0 = if c_super rc then 0 else price) by (rewrite Eq; reflexivity).
  assert (Ee : r_exp q0 = height s0 + c_timeout rc) by (rewrite Eq; reflexivity).
  assert (Eh : rid_height r = height s0) by (rewrite Er; reflexivity).
  exists s0, rc, price. split; [exact R0|]. split; [now symmetry|]. split; [exact Hlt|]. cbv zeta.
  rewrite <- E1, <- E2, <- E3, Ep, Eh. auto 10.
Qed.

(* ------------------------------------------------------------------ *)
(* two instances of end_block_outcome for a state whose expiry phase is empty *)
Lemma outcome_paused cfg s dt c rc :
  wf_cfg cfg -> Inv cfg s -> height s < HEIGHT_BOUND ->
  fold_left (expire_one cfg) (due (expq s) (height s)) s = s ->
  In (height s, c) (newq s) -> get c (ctxs s) = Some rc ->
  uniq_cons_b s (height s) c (c_cons rc) = true -> new_outcome s rc = OPausedFunds ->
  get c (ctxs (end_block cfg s dt)) = Some (paused_ctx rc)
  /\ bal (end_block cfg s dt) (User (c_cons rc)) = bal s (User (c_cons rc)).
Proof.
  intros Hc HI Hb Ex D G U O.
  pose proof (end_block_outcome cfg s dt c rc Hc HI Hb) as H. cbv zeta in H.
  rewrite Ex in H. specialize (H D G (uniq_cons_b_ok _ _ _ _ U)). rewrite O in H.
  destruct H as (A & _ & B). auto.
Qed.

Lemma outcome_issued_super cfg s dt c rc :
  wf_cfg cfg -> Inv cfg s -> height s < HEIGHT_BOUND ->
  fold_left (expire_one cfg) (due (expq s) (height s)) s = s ->
  In (height s, c) (newq s) -> get c (ctxs s) = Some rc ->
  uniq_cons_b s (height s) c (c_cons rc) = true -> new_outcome s rc = OIssued ->
  c_super rc = true ->
  get c (ctxs (end_block cfg s dt))
  = Some (bump rc (len (filter_providers s rc (c_provs rc))))
  /\ bal (end_block cfg s dt) (User (c_cons rc)) = bal s (User (c_cons rc)).
Proof.
  intros Hc HI Hb Ex D G U O Hs.
  pose proof (end_block_outcome cfg s dt c rc Hc HI Hb) as H. cbv zeta in H.
  rewrite Ex in H. specialize (H D G (uniq_cons_b_ok _ _ _ _ U)). rewrite O, Hs in H.
  destruct H as (A & _ & B & _). split; [exact A|]. rewrite B. lia.
Qed.

(* the hypotheses are satisfiable: the EndBlock of StepSpecs_batch.ExB.s_a (seven contexts due);
   c3 is the only due context of consumer 51 (balance 5 < 40): paused, no charge;
   c6 is the only due context of consumer 52 (super mode, balance 0): issued, no charge *)
Module ExO.
  Import ExB.
  Example outcome_hyps :
    wf_cfg cfg /\ Reach cfg s_a /\ height s_a < HEIGHT_BOUND
    /\ fold_left (expire_one cfg) (due (expq s_a) (height s_a)) s_a = s_a
    /\ In (height s_a, c3) (newq s_a) /\ In (height s_a, c6) (newq s_a)
    /\ (exists rc3, get c3 (ctxs s_a) = Some rc3
          /\ uniq_cons_b s_a (height s_a) c3 (c_cons rc3) = true
          /\ new_outcome s_a rc3 = OPausedFunds)
    /\ (exists rc6, get c6 (ctxs s_a) = Some rc6
          /\ uniq_cons_b s_a (height s_a) c6 (c_cons rc6) = true
          /\ new_outcome s_a rc6 = OIssued /\ c_super rc6 = true).
  Proof.
    split; [exact wf_cfg_ex|]. split; [exact reach_a|]. split; [vm_compute; reflexivity|].
    split; [vm_compute; reflexivity|]. split; [vm_compute; tauto|]. split; [vm_compute; tauto|].
    split; eexists; (split; [vm_compute; reflexivity|]); vm_compute; auto.
  Qed.

  Example outcome_applies :
    (exists rc3, get c3 (ctxs s_a) = Some rc3
       /\ get c3 (ctxs (end_block cfg s_a 1)) = Some (paused_ctx rc3)
       /\ bal (end_block cfg s_a 1) (User (c_cons rc3)) = bal s_a (User (c_cons rc3)))
    /\ (exists rc6, get c6 (ctxs s_a) = Some rc6
          /\ bal (end_block cfg s_a 1) (User (c_cons rc6)) = bal s_a (User (c_cons rc6))).
  Proof.
    destruct outcome_hyps as (Hc & HR & Hb & Ex & D3 & D6 & (rc3 & G3 & U3 & O3) & (rc6 & G6 & U6 & O6 & S6)).
    pose proof (Reach_Inv cfg s_a Hc HR) as HI.
    split.
    - exists rc3. split; [exact G3|]. exact (outcome_paused cfg s_a 1 c3 rc3 Hc HI Hb Ex D3 G3 U3 O3).
    - exists rc6. split; [exact G6|].
      exact (proj2 (outcome_issued_super cfg s_a 1 c6 rc6 Hc HI Hb Ex D6 G6 U6 O6 S6)).
  Qed.
End ExO.
