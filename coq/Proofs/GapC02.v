(* Gap closing for C02 / C04, part 1: what ONE accepted response does.
   The settlement kind follows the validity of the output:
     non-empty schema-invalid output  -> slash of the binding (service of the context,
                                         provider of the request) + refund of the whole fee to
                                         the consumer of the context; nothing is earned
     well-formed or absent output     -> tax = mul_trunc fee rate to the fee collector,
                                         fee - tax added to the provider's earnings; no slash
   Needs no invariant (except for the reading of `add_to` as an addition, which needs the
   earned-fee records to be non-negative). *)
From Coq Require Import List ZArith Bool Lia.
From SVC Require Import Base.AMap Base.Res Base.Dec Model.Types Model.Pricing
  Model.Handlers Model.EndBlock Model.Step Proofs.Inv Proofs.Lemmas Proofs.ReqLemmas
  Proofs.BankLemmas Proofs.StepSpecs_deposit Proofs.TraceLemmas Proofs.TraceSettle
  Proofs.TraceMoney.
Import ListNotations.
Open Scope Z_scope.

Definition is_any_slash (e : Event) : bool :=
  match e with EvSlash _ _ _ => true | _ => false end.

Lemma quiet_no_slash d : Forall quiet d -> filter is_any_slash d = [].
Proof.
  induction 1 as [|e d He Hd IH]; [reflexivity|]. cbn [filter]. rewrite IH.
  destruct e; cbn in *; try discriminate; reflexivity.
Qed.

Lemma quiet_tr_nil r d : Forall quiet d -> tr r d = [].
Proof.
  induction 1 as [|e d He Hd IH]; [reflexivity|]. now rewrite tr_cons, (quiet_about r e He).
Qed.

Lemma dep_at_get s k b : get k (binds s) = Some b -> dep_at s k = b_deposit b.
Proof. intros G. unfold dep_at, fget. now rewrite G. Qed.

(* ------------------------------------------------------------------ *)
(* the master lemma: one accepted response, every field the money properties read *)

Lemma respond_effect cfg s r who code out ov ok s' :
  h_respond cfg s r who code out ov ok = Ok s' ->
  exists q rc dq,
    ok = true /\ get r (reqs s) = Some q /\ get (rid_ctx r) (ctxs s) = Some rc
    /\ who = r_prov q /\ r_active q = true /\ Forall quiet dq
    /\ if negb (out =? 0) && negb ov
       then exists sa b,
            slash cfg s r = Ok sa /\ get (c_svc rc, r_prov q) (binds s) = Some b
            /\ log s' = dq ++ [EvRespond r; EvRefund r (c_cons rc) (r_fee q);
                               EvSlash r (c_svc rc, r_prov q) (mul_trunc (b_deposit b) (p_slash cfg))] ++ log s
            /\ 0 <= mul_trunc (b_deposit b) (p_slash cfg) <= b_deposit b
            /\ (forall x, bal s' x = bal s x + into (User (c_cons rc)) x (r_fee q) - into Escrow x (r_fee q)
                                     - into Deposit x (mul_trunc (b_deposit b) (p_slash cfg)))
            /\ supply s' = supply s - mul_trunc (b_deposit b) (p_slash cfg)
            /\ earned s' = earned s /\ own_earned s' = own_earned s
            /\ binds s' = set (c_svc rc, r_prov q) (slashed_binding cfg s (c_svc rc, r_prov q) b) (binds s)
       else log s' = dq ++ [EvRespond r; EvEarn r (r_prov q) (r_fee q - mul_trunc (r_fee q) (p_tax cfg));
                            EvTax r (mul_trunc (r_fee q) (p_tax cfg))] ++ log s
            /\ 0 <= mul_trunc (r_fee q) (p_tax cfg) <= r_fee q
            /\ (forall x, bal s' x = bal s x + into FeeColl x (mul_trunc (r_fee q) (p_tax cfg))
                                     - into Escrow x (mul_trunc (r_fee q) (p_tax cfg)))
            /\ supply s' = supply s /\ binds s' = binds s
            /\ earned s' = add_to (r_prov q) (r_fee q - mul_trunc (r_fee q) (p_tax cfg)) (earned s).
Proof.
  intros H. apply respond_inv in H.
  destruct H as (q & rc0 & s1 & rc & Hok & Hq & Hrc0 & Hwho & Hact & Hset & Hrc & ->).
  pose proof (resp_tail_money s1 r who rc0 code out (rid_ctx r) rc) as Tl. cbv zeta in Tl.
  destruct Tl as (_ & T2 & T3 & T4 & T5 & T6).
  pose proof (log_resp_mid s1 r who rc0 code out) as Lm.
  set (sm := resp_mid s1 r who rc0 code out) in *.
  destruct (Q_resp_finish sm (rid_ctx r) rc) as (dq & El & Hdq).
  exists q, rc0, dq. repeat (split; [assumption|]).
  destruct Hset as [[Hb (sa & Es & Er)]|[Hb Ea]]; rewrite Hb.
  - pose proof (fun x => refund_bal _ _ _ _ _ x Er) as Rb.
    apply refund_shape in Er. destruct Er as (_ & _ & Es1).
    pose proof Es as Es0. apply slash_inv in Es.
    destruct Es as (q' & rc' & b & Hq' & Hrc' & Hbd & Hamt & Hbal & _ & Esa).
    rewrite Hq in Hq'. injection Hq' as <-. rewrite Hrc0 in Hrc'. injection Hrc' as <-.
    exists sa, b. remember (mul_trunc (b_deposit b) (p_slash cfg)) as amt eqn:Eamt. split; [exact Es0|]. split; [exact Hbd|].
    split; [rewrite El, Lm, Es1, Esa; reflexivity|]. split; [exact Hamt|].
    split.
    { intros x. unfold bal at 1. rewrite T4. fold (bal s1 x). rewrite (Rb x).
      assert (Ea : bal sa x = bal s x - into Deposit x amt).
      { rewrite Esa. unfold bal. sproj. rewrite get0_set. unfold into.
        destruct (eqb_spec x Deposit) as [->|]; lia. }
      rewrite Ea. unfold into. lia. }
    split; [rewrite T5, Es1, Esa; reflexivity|].
    split; [rewrite T2, Es1, Esa; reflexivity|].
    split; [rewrite T3, Es1, Esa; reflexivity|].
    rewrite T6, Es1, Esa. reflexivity.
  - apply add_earned_shape in Ea. destruct Ea as (o & s0 & Et & Hle & Ho & Es1). cbv zeta in *.
    pose proof (fun x => transfer_bal _ _ _ _ _ x Et) as Tb.
    pose proof (transfer_some _ _ _ _ _ Et) as (H0 & _ & _).
    remember (mul_trunc (r_fee q) (p_tax cfg)) as t eqn:Etx.
    split; [rewrite El, Lm, Es1; reflexivity|]. split; [lia|].
    split.
    { intros x. unfold bal at 1. rewrite T4, Es1. sproj. fold (bal s0 x). rewrite (Tb x).
      unfold into. lia. }
    split; [rewrite T5, Es1; reflexivity|].
    split; [rewrite T6, Es1; reflexivity|].
    rewrite T2, Es1. reflexivity.
Qed.

(* ------------------------------------------------------------------ *)
(* C02: the settlement kind follows out_valid *)

Theorem respond_settles cfg s r who code out ov ok s' :
  Inv cfg s -> handle cfg s (ORespond r who code out ov ok) = Ok s' ->
  exists q rc d,
    get r (reqs s) = Some q /\ get (rid_ctx r) (ctxs s) = Some rc
    /\ who = r_prov q /\ r_active q = true /\ log s' = d ++ log s
    /\ if negb (out =? 0) && negb ov
       then (exists amt, tr r d = [EvRespond r; EvRefund r (c_cons rc) (r_fee q);
                                   EvSlash r (c_svc rc, who) amt])
            /\ bal s' (User (c_cons rc)) = bal s (User (c_cons rc)) + r_fee q
            /\ (forall a, a <> c_cons rc -> bal s' (User a) = bal s (User a))
            /\ bal s' Escrow = bal s Escrow - r_fee q
            /\ bal s' FeeColl = bal s FeeColl
            /\ earned s' = earned s /\ own_earned s' = own_earned s
       else tr r d = [EvRespond r; EvEarn r who (r_fee q - mul_trunc (r_fee q) (p_tax cfg));
                      EvTax r (mul_trunc (r_fee q) (p_tax cfg))]
            /\ 0 <= mul_trunc (r_fee q) (p_tax cfg) <= r_fee q
            /\ bal s' FeeColl = bal s FeeColl + mul_trunc (r_fee q) (p_tax cfg)
            /\ bal s' Escrow = bal s Escrow - mul_trunc (r_fee q) (p_tax cfg)
            /\ bal s' Deposit = bal s Deposit
            /\ (forall a, bal s' (User a) = bal s (User a))
            /\ get0 who (earned s') = get0 who (earned s) + (r_fee q - mul_trunc (r_fee q) (p_tax cfg))
            /\ (forall p, p <> who -> get0 p (earned s') = get0 p (earned s)).
Proof.
  intros HI H. cbn [handle] in H. apply respond_effect in H.
  destruct H as (q & rc & dq & _ & Hq & Hrc & Hwho & Hact & Hdq & H).
  destruct (negb (out =? 0) && negb ov).
  - destruct H as (sa & b & _ & _ & El & _ & Hb & _ & He & Ho & _).
    eexists q, rc, _. repeat (split; [eassumption|]).
    split; [rewrite El, app_assoc; reflexivity|].
    split.
    { exists (mul_trunc (b_deposit b) (p_slash cfg)). rewrite tr_app, (quiet_tr_nil r dq Hdq).
      subst who. cbn [app tr filter about ev_rid]. rewrite !eqb_refl. reflexivity. }
    split; [rewrite Hb; unfold into; rewrite eqb_refl; cbn; lia|].
    split.
    { intros a Ha. rewrite Hb. unfold into. cbn [eqb EqDec_Acct acct_eqb].
      destruct (Z.eqb_spec a (c_cons rc)); [contradiction|lia]. }
    split; [rewrite Hb; unfold into; cbn; lia|].
    split; [rewrite Hb; unfold into; cbn; lia|]. auto.
  - destruct H as (El & Ht & Hb & _ & _ & He).
    eexists q, rc, _. repeat (split; [eassumption|]).
    split; [rewrite El, app_assoc; reflexivity|].
    split.
    { rewrite tr_app, (quiet_tr_nil r dq Hdq).
      subst who. cbn [app tr filter about ev_rid]. rewrite !eqb_refl. reflexivity. }
    split; [exact Ht|].
    split; [rewrite Hb; unfold into; cbn; lia|].
    split; [rewrite Hb; unfold into; cbn; lia|].
    split; [rewrite Hb; unfold into; cbn; lia|].
    split; [intros a; rewrite Hb; unfold into; cbn; lia|].
    assert (Hnn : 0 <= get0 (r_prov q) (earned s)).
    { apply get0_nonneg. destruct (inv_earn _ _ HI) as (E1 & _).
      intros a v Hin. destruct (E1 _ _ Hin). lia. }
    subst who. rewrite He. split.
    + rewrite get0_add_to by lia. now rewrite eqb_refl.
    + intros p Hp. rewrite get0_add_to by lia. now rewrite (neq_eqb _ _ Hp).
Qed.

(* ------------------------------------------------------------------ *)
(* C04: an accepted response is slashed iff its output is non-empty and schema-invalid
   (super mode or not); the amount is the fraction of the deposit at that moment *)

Theorem respond_slash_iff cfg s r who code out ov ok s' :
  handle cfg s (ORespond r who code out ov ok) = Ok s' ->
  exists d, log s' = d ++ log s /\
    if negb (out =? 0) && negb ov
    then exists sa q rc,
         slash cfg s r = Ok sa /\ get r (reqs s) = Some q /\ get (rid_ctx r) (ctxs s) = Some rc
         /\ who = r_prov q
         /\ has (c_svc rc, r_prov q) (binds s) = true
         /\ filter is_any_slash d
            = [EvSlash r (c_svc rc, r_prov q)
                 (mul_trunc (dep_at s (c_svc rc, r_prov q)) (p_slash cfg))]
         /\ 0 <= mul_trunc (dep_at s (c_svc rc, r_prov q)) (p_slash cfg) <= dep_at s (c_svc rc, r_prov q)
         /\ dep_at s' (c_svc rc, r_prov q)
            = dep_at s (c_svc rc, r_prov q) - mul_trunc (dep_at s (c_svc rc, r_prov q)) (p_slash cfg)
         /\ (forall k, k <> (c_svc rc, r_prov q) -> get k (binds s') = get k (binds s))
         /\ supply s' = supply s - mul_trunc (dep_at s (c_svc rc, r_prov q)) (p_slash cfg)
         /\ bal s' Deposit = bal s Deposit - mul_trunc (dep_at s (c_svc rc, r_prov q)) (p_slash cfg)
    else filter is_any_slash d = [] /\ binds s' = binds s /\ supply s' = supply s
         /\ bal s' Deposit = bal s Deposit.
Proof.
  intros H. cbn [handle] in H. apply respond_effect in H.
  destruct H as (q & rc & dq & _ & Hq & Hrc & Hwho & Hact & Hdq & H).
  destruct (negb (out =? 0) && negb ov).
  - destruct H as (sa & b & Es & Gb & El & Hamt & Hb & Hs & _ & _ & Eb).
    eexists. split; [rewrite El, app_assoc; reflexivity|].
    exists sa, q, rc. rewrite (dep_at_get s _ b Gb).
    repeat (split; [assumption|]).
    split; [eapply get_has; eauto|].
    split; [rewrite filter_app, (quiet_no_slash dq Hdq); reflexivity|].
    split; [exact Hamt|].
    split.
    { unfold dep_at at 1, fget. rewrite Eb, get_set_eq.
      pose proof (slashed_binding_fields cfg s (c_svc rc, r_prov q) b) as (Fd & _). exact Fd. }
    split; [intros k Hk; rewrite Eb; now apply get_set_neq|].
    split; [exact Hs|]. rewrite Hb. unfold into. cbn. lia.
  - destruct H as (El & _ & Hb & Hs & Eb & _).
    eexists. split; [rewrite El, app_assoc; reflexivity|].
    split; [rewrite filter_app, (quiet_no_slash dq Hdq); reflexivity|].
    split; [exact Eb|]. split; [exact Hs|]. rewrite Hb. unfold into. cbn. lia.
Qed.

(* the two branches on the example history of Proofs/TraceSettle.v: provider 11 answers r1 with
   a valid output (fee 100, tax 10, earns 90); provider 12 answers r2 with a malformed output
   (slashed 400/4 = 100, consumer 20 refunded 100) *)
Example tx_respond_valid :
  let s := run tx_cfg tx_s0 (firstn 5 tx_ops) in
  exists s', handle tx_cfg s (ORespond tx_r1 11 0 5 true true) = Ok s'
    /\ tr tx_r1 (firstn 3 (log s')) = [EvRespond tx_r1; EvEarn tx_r1 11 90; EvTax tx_r1 10]
    /\ get0 11 (earned s') = 90 /\ bal s' FeeColl = 10 /\ binds s' = binds s.
Proof. eexists. split; [vm_compute; reflexivity|]. vm_compute. repeat split. Qed.

Example tx_respond_malformed :
  let s := run tx_cfg tx_s0 (firstn 6 tx_ops) in
  exists s', handle tx_cfg s (ORespond tx_r2 12 0 5 false true) = Ok s'
    /\ filter is_any_slash (firstn 4 (log s')) = [EvSlash tx_r2 (1, 12) 100]
    /\ dep_at s (1, 12) = 400 /\ dep_at s' (1, 12) = 300 /\ earned s' = earned s
    /\ bal s' (User 20) = bal s (User 20) + 100.
Proof. eexists. split; [vm_compute; reflexivity|]. vm_compute. repeat split. Qed.
